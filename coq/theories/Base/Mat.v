(** 7-vectors and 7x7 matrices over a commutative ring, as records (no
    well-formedness side conditions).  Cheetah's state vector is
    (x, px, y, py, tau, delta, 1); maps are 7x7 (affine part in column 6). *)
From Coq Require Import Ring List.
Import ListNotations.

Set Implicit Arguments.

Record V7 (A : Type) := mk7 { c0 : A; c1 : A; c2 : A; c3 : A; c4 : A; c5 : A; c6 : A }.
Arguments mk7 {A}.

Definition M7 (A : Type) := V7 (V7 A).   (* rows *)

Definition v7map {A B} (f : A -> B) (v : V7 A) : V7 B :=
  mk7 (f (c0 v)) (f (c1 v)) (f (c2 v)) (f (c3 v)) (f (c4 v)) (f (c5 v)) (f (c6 v)).
Definition v7map2 {A B C} (f : A -> B -> C) (u : V7 A) (v : V7 B) : V7 C :=
  mk7 (f (c0 u) (c0 v)) (f (c1 u) (c1 v)) (f (c2 u) (c2 v)) (f (c3 u) (c3 v))
      (f (c4 u) (c4 v)) (f (c5 u) (c5 v)) (f (c6 u) (c6 v)).
Definition v7list {A} (v : V7 A) : list A := [c0 v; c1 v; c2 v; c3 v; c4 v; c5 v; c6 v].
Definition m7list {A} (m : M7 A) : list (list A) := map (@v7list A) (v7list m).
Definition v7nth {A} (v : V7 A) (i : nat) : A :=
  match i with 0 => c0 v | 1 => c1 v | 2 => c2 v | 3 => c3 v | 4 => c4 v | 5 => c5 v | _ => c6 v end.
Definition m7nth {A} (m : M7 A) (i j : nat) : A := v7nth (v7nth m i) j.
Definition v7_of_list {A} (d : A) (l : list A) : V7 A :=
  mk7 (nth 0 l d) (nth 1 l d) (nth 2 l d) (nth 3 l d) (nth 4 l d) (nth 5 l d) (nth 6 l d).
Definition m7_of_list {A} (d : A) (l : list (list A)) : M7 A :=
  v7map (v7_of_list d) (v7_of_list [] l).

Definition col {A} (j : V7 A -> A) (m : M7 A) : V7 A := v7map j m.
Definition transpose {A} (m : M7 A) : M7 A :=
  mk7 (col (@c0 A) m) (col (@c1 A) m) (col (@c2 A) m) (col (@c3 A) m)
      (col (@c4 A) m) (col (@c5 A) m) (col (@c6 A) m).

Lemma v7_eq {B : Type} (u v : V7 B) :
  c0 u = c0 v -> c1 u = c1 v -> c2 u = c2 v -> c3 u = c3 v -> c4 u = c4 v -> c5 u = c5 v -> c6 u = c6 v -> u = v.
Proof. destruct u, v; cbn; intros; subst; reflexivity. Qed.

Section Ring.
Variable A : Type.
Variables (zero one : A) (add mul sub : A -> A -> A) (opp : A -> A).
Hypothesis Rth : ring_theory zero one add mul sub opp (@eq A).
Add Ring Aring : Rth.

Notation "0" := zero. Notation "1" := one.
Infix "+" := add. Infix "*" := mul. Infix "-" := sub.

Definition dot (u v : V7 A) : A :=
  c0 u * c0 v + c1 u * c1 v + c2 u * c2 v + c3 u * c3 v + c4 u * c4 v + c5 u * c5 v + c6 u * c6 v.

Definition mvec (m : M7 A) (v : V7 A) : V7 A := v7map (fun r => dot r v) m.
Definition mmul (a b : M7 A) : M7 A :=
  let bt := transpose b in v7map (fun r => v7map (fun c => dot r c) bt) a.
Definition vmat (v : V7 A) (m : M7 A) : V7 A := v7map (fun c => dot v c) (transpose m).
Definition vadd (u v : V7 A) : V7 A := v7map2 add u v.
Definition madd (a b : M7 A) : M7 A := v7map2 vadd a b.
Definition vscale (k : A) (v : V7 A) : V7 A := v7map (mul k) v.
Definition mscale (k : A) (m : M7 A) : M7 A := v7map (vscale k) m.

Definition e0 := mk7 1 0 0 0 0 0 0. Definition e1 := mk7 0 1 0 0 0 0 0.
Definition e2 := mk7 0 0 1 0 0 0 0. Definition e3 := mk7 0 0 0 1 0 0 0.
Definition e4 := mk7 0 0 0 0 1 0 0. Definition e5 := mk7 0 0 0 0 0 1 0.
Definition e6 := mk7 0 0 0 0 0 0 1.
Definition I7 : M7 A := mk7 e0 e1 e2 e3 e4 e5 e6.
Definition Z7 : M7 A := let z := mk7 0 0 0 0 0 0 0 in mk7 z z z z z z z.

Ltac destr_all :=
  repeat match goal with
  | v : V7 (V7 A) |- _ => destruct v
  | v : M7 A |- _ => destruct v
  | v : V7 A |- _ => destruct v
  end.


Ltac mred := lazy beta iota zeta delta [mmul vmat mvec transpose col v7map v7map2 dot I7 e0 e1 e2 e3 e4 e5 e6 c0 c1 c2 c3 c4 c5 c6].
Ltac mat_ring := unfold M7 in *; destr_all; mred; repeat (apply v7_eq; mred); try reflexivity; ring.

Lemma mvec_I (v : V7 A) : mvec I7 v = v.
Proof. mat_ring. Qed.
Lemma mmul_I_l (m : M7 A) : mmul I7 m = m.
Proof. mat_ring. Qed.
Lemma mmul_I_r (m : M7 A) : mmul m I7 = m.
Proof. mat_ring. Qed.
Lemma mvec_mmul (a b : M7 A) (v : V7 A) : mvec (mmul a b) v = mvec a (mvec b v).
Proof. mat_ring. Qed.
Lemma transpose_invol (m : M7 A) : transpose (transpose m) = m.
Proof. unfold M7 in *; destr_all; reflexivity. Qed.
Lemma transpose_I : transpose I7 = I7.
Proof. reflexivity. Qed.

(* associativity and (ab)^T = b^T a^T: 49 entries each; proved row by row *)
Lemma dot_comm (u v : V7 A) : dot u v = dot v u.
Proof. destruct u, v; unfold dot; cbn; ring. Qed.

Lemma mmul_rows (a b : M7 A) : mmul a b = v7map (fun r => vmat r b) a.
Proof. reflexivity. Qed.
Lemma vmat_mmul (v : V7 A) (a b : M7 A) : vmat v (mmul a b) = vmat (vmat v a) b.
Proof. mat_ring. Qed.
Lemma mmul_assoc (a b c : M7 A) : mmul (mmul a b) c = mmul a (mmul b c).
Proof.
  change (mmul (mmul a b) c) with (v7map (fun r => vmat r c) (v7map (fun r => vmat r b) a)).
  change (mmul a (mmul b c)) with (v7map (fun r => vmat r (mmul b c)) a).
  destruct a as [r0 r1 r2 r3 r4 r5 r6]; lazy beta iota delta [v7map c0 c1 c2 c3 c4 c5 c6].
  rewrite !vmat_mmul. reflexivity.
Qed.

Lemma mvec_transpose_dot (m : M7 A) (u v : V7 A) : dot (mvec m u) v = dot u (mvec (transpose m) v).
Proof. mat_ring. Qed.

Lemma vmat_transpose (v : V7 A) (m : M7 A) : vmat v (transpose m) = mvec m v.
Proof. mat_ring. Qed.

Lemma transpose_mmul (a b : M7 A) : transpose (mmul a b) = mmul (transpose b) (transpose a).
Proof. mat_ring. Qed.

(* congruence action on covariance-like matrices: S |-> M S M^T *)
Definition cong (m s : M7 A) : M7 A := mmul m (mmul s (transpose m)).
Lemma cong_I (s : M7 A) : cong I7 s = s.
Proof. unfold cong. rewrite transpose_I, mmul_I_r, mmul_I_l. reflexivity. Qed.
Lemma cong_mmul (a b s : M7 A) : cong (mmul a b) s = cong a (cong b s).
Proof. unfold cong. rewrite transpose_mmul, !mmul_assoc. reflexivity. Qed.

End Ring.

Arguments I7 {A}.
