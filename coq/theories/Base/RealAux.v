(** Real-analysis helpers shared by the Optics proofs: hyperbolic identity, the derivative and
    "Pythagoras" lemmas of the focusing / defocusing pairs
      (cos (sqrt k L), sin (sqrt k L) / sqrt k)      for k > 0
      (cosh (sqrt (-k) L), sinh (sqrt (-k) L) / sqrt (-k))   for k < 0
    that every linear transfer map of cheetah is built from, and small facts about sqrt. *)
From Coq Require Import Reals Lra Psatz.
From Coquelicot Require Import Coquelicot.
Open Scope R_scope.

Lemma ch2sh2 a : cosh a * cosh a - sinh a * sinh a = 1.
Proof.
  unfold cosh, sinh.
  assert (H: exp a * exp (-a) = 1) by (rewrite <- exp_plus, Rplus_opp_r; apply exp_0).
  nra.
Qed.

Lemma sqrt_pos_neq0 k : 0 < k -> sqrt k <> 0.
Proof. intros H. apply Rgt_not_eq, sqrt_lt_R0, H. Qed.

Lemma sqrt_sq k : 0 < k -> k = sqrt k * sqrt k.
Proof. intros H. symmetry. apply sqrt_sqrt. lra. Qed.

(** focusing pair, k > 0 *)
Lemma d_cos_sqrt k L : 0 < k ->
  is_derive (fun t => cos (sqrt k * t)) L (- k * (sin (sqrt k * L) / sqrt k)).
Proof.
  intros Hk. pose proof (sqrt_pos_neq0 _ Hk) as Hs. pose proof (sqrt_sq _ Hk) as Hk2.
  auto_derive; [exact I|].
  set (s := sqrt k) in *. rewrite Hk2. field. exact Hs.
Qed.

Lemma d_sin_sqrt k L : 0 < k ->
  is_derive (fun t => sin (sqrt k * t) / sqrt k) L (cos (sqrt k * L)).
Proof.
  intros Hk. pose proof (sqrt_pos_neq0 _ Hk) as Hs.
  auto_derive; [exact I|]. field. exact Hs.
Qed.

Lemma cs_id_pos k L : 0 < k ->
  cos (sqrt k * L) * cos (sqrt k * L) + k * (sin (sqrt k * L) / sqrt k) * (sin (sqrt k * L) / sqrt k) = 1.
Proof.
  intros Hk. pose proof (sqrt_pos_neq0 _ Hk) as Hs. pose proof (sqrt_sq _ Hk) as Hk2.
  set (s := sqrt k) in *. pose proof (sin2_cos2 (s * L)) as H. unfold Rsqr in H.
  rewrite Hk2 at 1. field_simplify_eq; [|exact Hs]. nra.
Qed.

(** defocusing pair, k < 0 *)
Lemma d_cosh_sqrt k L : k < 0 ->
  is_derive (fun t => cosh (sqrt (- k) * t)) L (- k * (sinh (sqrt (- k) * L) / sqrt (- k))).
Proof.
  intros Hk. assert (Hk' : 0 < - k) by lra.
  pose proof (sqrt_pos_neq0 _ Hk') as Hs. pose proof (sqrt_sq _ Hk') as Hk2.
  unfold cosh, sinh. auto_derive; [exact I|].
  set (s := sqrt (- k)) in *. replace k with (- (s * s)) by lra. field. exact Hs.
Qed.

Lemma d_sinh_sqrt k L : k < 0 ->
  is_derive (fun t => sinh (sqrt (- k) * t) / sqrt (- k)) L (cosh (sqrt (- k) * L)).
Proof.
  intros Hk. assert (Hk' : 0 < - k) by lra.
  pose proof (sqrt_pos_neq0 _ Hk') as Hs.
  unfold cosh, sinh. auto_derive; [exact I|]. field. exact Hs.
Qed.

Lemma cs_id_neg k L : k < 0 ->
  cosh (sqrt (- k) * L) * cosh (sqrt (- k) * L)
  + k * (sinh (sqrt (- k) * L) / sqrt (- k)) * (sinh (sqrt (- k) * L) / sqrt (- k)) = 1.
Proof.
  intros Hk. assert (Hk' : 0 < - k) by lra.
  pose proof (sqrt_pos_neq0 _ Hk') as Hs. pose proof (sqrt_sq _ Hk') as Hk2.
  set (s := sqrt (- k)) in *. pose proof (ch2sh2 (s * L)) as H.
  replace k with (- (s * s)) by lra. field_simplify_eq; [|exact Hs]. nra.
Qed.

(** free pair, k = 0 *)
Lemma d_const_one L : is_derive (fun _ : R => 1) L 0.
Proof. auto_derive; [exact I|reflexivity]. Qed.
Lemma d_id L : is_derive (fun t : R => t) L 1.
Proof. auto_derive; [exact I|reflexivity]. Qed.

(** elementary bounds used by the k1 = 0 guard estimate *)
Lemma Rabs_le_of (x b : R) : - b <= x <= b -> Rabs x <= b.
Proof. intros H. apply Rabs_le. exact H. Qed.
