(** Model of Cavity._track_beam (cheetah/accelerator/cavity.py:111-252) for both beam types, as coded,
    for one (non-vectorised) setting.  [phi] is the phase in radians (deg2rad(phase)).
    Definitions only; proofs in MomCavityProofs.v. *)
From Coq Require Import Reals List.
From Cheetah Require Import Base.Mat Beam.Moments Optics.Maps.
Import ListNotations.
Open Scope R_scope.

Section CavTrack.
Variables (L V phi f : R).

(* Cavity.transfer_map: where(voltage != 0, _cavity_rmatrix, base_rmatrix(k1=0,hx=0,tilt=0)) *)
Definition cav_tm (E : R) : M7 R :=
  if Req_EM_T V 0 then cavity_off_map L E else cavity_on_map L V phi f E.

Definition ctk_dE : R := V * cos phi.
Definition ctk_E1 (E : R) : R := E + ctk_dE.
Definition cav_kk : R := 2 * PI * f / c_light.
Definition cav_dgamma : R := V / m_e.

(* T566 = 1.5 L igamma2 / beta0^3, T556 = T555 = 0, overwritten `if torch.any(delta_energy > 0)` *)
Definition cav_T566_off (E : R) : R := 1.5 * L * igamma2_of E / (beta_of E) ^ 3.
Definition cav_T566 (E : R) : R :=
  let g0 := gamma_of E in let b0 := beta_of E in
  let g1 := gamma_of (ctk_E1 E) in let b1 := beta_of (ctk_E1 E) in
  if Rlt_dec 0 ctk_dE then
    L * (b0 ^ 3 * g0 ^ 3 - b1 ^ 3 * g1 ^ 3) / (2 * b0 * b1 ^ 3 * g0 * (g0 - g1) * g1 ^ 3)
  else cav_T566_off E.
Definition cav_T556 (E : R) : R :=
  let g0 := gamma_of E in let b0 := beta_of E in
  let g1 := gamma_of (ctk_E1 E) in let b1 := beta_of (ctk_E1 E) in
  if Rlt_dec 0 ctk_dE then
    b0 * cav_kk * L * cav_dgamma * g0 * (b1 ^ 3 * g1 ^ 3 + b0 * (g0 - g1 ^ 3)) * sin phi
    / (b1 ^ 3 * g1 ^ 3 * (g0 - g1) ^ 2)
  else 0.
Definition cav_T555 (E : R) : R :=
  let g0 := gamma_of E in let b0 := beta_of E in
  let g1 := gamma_of (ctk_E1 E) in let b1 := beta_of (ctk_E1 E) in
  if Rlt_dec 0 ctk_dE then
    b0 ^ 2 * cav_kk ^ 2 * L * cav_dgamma / 2
    * (cav_dgamma * (2 * g0 * g1 ^ 3 * (b0 * b1 ^ 3 - 1) + g0 ^ 2 + 3 * g1 ^ 2 - 2)
         / (b1 ^ 3 * g1 ^ 3 * (g0 - g1) ^ 3) * (sin phi) ^ 2
       - (g1 * g0 * (b1 * b0 - 1) + 1) / (b1 * g1 * (g0 - g1) ^ 2) * cos phi)
  else 0.

(* the new delta: delta*E*beta0/(E1*beta1) + V*beta0/(E1*beta1)*(cos(-tau*beta0*k + phi) - cos phi) *)
Definition cav_delta (E tau delta : R) : R :=
  let b0 := beta_of E in let b1 := beta_of (ctk_E1 E) in
  delta * E * b0 / (ctk_E1 E * b1)
  + V * b0 / (ctk_E1 E * b1) * (cos (- tau * b0 * cav_kk + phi) - cos phi).
(* the second-order path-length term T566 d^2 + T556 t d + T555 t^2 *)
Definition cav_quad (E a b c : R) : R := cav_T566 E * a + cav_T556 E * b + cav_T555 E * c.

(* one particle *)
Definition cav1 (E : R) (p : V7 R) : V7 R :=
  let y := rmvec (cav_tm E) p in
  mk7 (c0 y) (c1 y) (c2 y) (c3 y)
      (c4 y + cav_quad E (c5 p ^ 2) (c4 p * c5 p) (c4 p ^ 2))
      (cav_delta E (c4 p) (c5 p)) (c6 y).

(* `if torch.any(incoming.energy + delta_energy > 0)`; otherwise the code raises UnboundLocalError
   (outgoing_energy is never assigned): unspecified, modelled as the identity *)
Definition cavity_part (b : PartBeam R) : PartBeam R :=
  let E := pE b in
  if Rlt_dec 0 (ctk_E1 E) then mkPart (map (cav1 E) (parts b)) (ctk_E1 E) (charges b) (surv b) else b.

Definition cavity_param (b : ParamBeam R) : ParamBeam R :=
  let E := qE b in let mu := pmu b in let S := pcov b in
  if Rlt_dec 0 (ctk_E1 E) then
    let y := rmvec (cav_tm E) mu in
    let S' := rcong (cav_tm E) S in
    let s44 := c4 (c4 S) in let s45 := c5 (c4 S) in let s55 := c5 (c5 S) in
    (* the three entries are all overwritten with the same expression, as coded *)
    let q := cav_quad E (s55 ^ 2) (s45 * s55) (s44 ^ 2) in
    let r4 := c4 S' in let r5 := c5 S' in
    mkParam
      (mk7 (c0 y) (c1 y) (c2 y) (c3 y)
           (c4 y + cav_quad E (c5 mu ^ 2) (c4 mu * c5 mu) (c4 mu ^ 2))
           (cav_delta E (c4 mu) (c5 mu)) (c6 y))
      (mk7 (c0 S') (c1 S') (c2 S') (c3 S')
           (mk7 (c0 r4) (c1 r4) (c2 r4) (c3 r4) q q (c6 r4))
           (mk7 (c0 r5) (c1 r5) (c2 r5) (c3 r5) q s55 (c6 r5))
           (c6 S'))
      (ctk_E1 E) (qQ b)
  else b.
End CavTrack.
