(** Support for the C06 cavity correspondence: tactics that turn a statement about the model of
    Cavity._track_beam (Beam/MomCavity.v) on concrete dyadic inputs into a closed real expression
    for [interval].  The branch ("on": delta_energy > 0, "off": otherwise) is chosen by the harness and
    its side condition is proved, never assumed. *)
From Coq Require Import Reals List Lra.
From Interval Require Import Tactic.
From Cheetah Require Import Base.Mat Beam.Moments Beam.MomCavity Optics.Maps.
Open Scope R_scope.

(* tau' of one particle / of mu, given row 4 of the transfer map (observed from the code) *)
Definition cav_tau_given (L V phi f E r44 r45 tau delta : R) : R :=
  r44 * tau + r45 * delta + cav_quad L V phi f E (delta ^ 2) (tau * delta) (tau ^ 2).

Lemma cav1_tau_is_given L V phi f E (p : V7 R) :
  c4 (cav1 L V phi f E p) =
  dot Rplus Rmult (c4 (cav_tm L V phi f E)) p + cav_quad L V phi f E (c5 p ^ 2) (c4 p * c5 p) (c4 p ^ 2).
Proof. reflexivity. Qed.

Ltac kill_gamma_zero :=
  repeat match goal with
  | |- context [Req_EM_T ?a 0] =>
    let Hz := fresh "Hz" in
    destruct (Req_EM_T a 0) as [Hz|_];
    [exfalso; assert (0 < a) by (unfold gamma_of, ctk_E1, ctk_dE, m_e; interval with (i_prec 60)); lra|]
  end.
Ltac cav_atoms :=
  unfold cav_T566_off; unfold beta_of; unfold igamma2_of; kill_gamma_zero;
  unfold gamma_of, ctk_E1, ctk_dE, cav_kk, cav_dgamma, m_e, c_light.
Ltac branch_on :=
  repeat match goal with
  | |- context [Rlt_dec 0 (ctk_dE ?v ?p)] =>
    destruct (Rlt_dec 0 (ctk_dE v p)) as [_|Hn]; [|exfalso; apply Hn; unfold ctk_dE; interval with (i_prec 60)]
  end.
Ltac branch_off :=
  repeat match goal with
  | |- context [Rlt_dec 0 (ctk_dE ?v ?p)] =>
    destruct (Rlt_dec 0 (ctk_dE v p)) as [Hp|_]; [exfalso; revert Hp; apply Rle_not_lt; unfold ctk_dE; interval with (i_prec 60)|]
  end.

Ltac cav_quad_on := unfold cav_tau_given, cav_quad, cav_T566, cav_T556, cav_T555; cbv zeta; branch_on; cav_atoms.
Ltac cav_quad_off := unfold cav_tau_given, cav_quad, cav_T566, cav_T556, cav_T555; cbv zeta; branch_off; cav_atoms.
Ltac cav_tau_on := cav_quad_on.
Ltac cav_tau_off := cav_quad_off.
Ltac cav_delta_on := unfold cav_delta; cbv zeta; cav_atoms.
Ltac cav_delta_off := unfold cav_delta; cbv zeta; cav_atoms.
