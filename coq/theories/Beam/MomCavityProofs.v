(** C06, the cavity clauses: transverse moments, energy and charge agree between the two beam types
    (any voltage); the longitudinal second moments do NOT, even at voltage 0 (refutations). *)
From Coq Require Import Reals List Lra Lia.
From Cheetah Require Import Base.Mat Beam.Moments Beam.MomentsProofs Beam.MomReal Beam.MomCavity Optics.Maps.
Import ListNotations.
Open Scope R_scope.

(** projection on the transverse coordinates *)
Definition P4 : M7 R :=
  mk7 (row 1 0 0 0 0 0 0) (row 0 1 0 0 0 0 0) (row 0 0 1 0 0 0 0) (row 0 0 0 1 0 0 0)
      (row 0 0 0 0 0 0 0) (row 0 0 0 0 0 0 0) (row 0 0 0 0 0 0 0).

Ltac destr_all :=
  repeat match goal with
  | v : V7 (V7 R) |- _ => destruct v
  | v : M7 R |- _ => destruct v
  | v : V7 R |- _ => destruct v
  end.
Ltac mredR := lazy beta iota zeta delta [mmul vmat mvec transpose col v7map v7map2 dot cong P4 row mu4 cov44
  c0 c1 c2 c3 c4 c5 c6].

Lemma mu4_P4 (v : V7 R) : mu4 (rmvec P4 v) = mu4 v.
Proof. destr_all. mredR. repeat f_equal; ring. Qed.
Lemma cov44_P4 (s : M7 R) : cov44 (rcong P4 s) = cov44 s.
Proof. unfold M7 in *. destr_all. mredR. repeat f_equal; ring. Qed.

(* two particle lists that agree on the transverse coordinates have the same transverse moments *)
Lemma transverse_agree (xs ys : list (V7 R)) :
  map (rmvec P4) xs = map (rmvec P4) ys ->
  mu4 (rmean xs) = mu4 (rmean ys) /\ cov44 (rcov xs) = cov44 (rcov ys).
Proof.
  intros H. split.
  - rewrite <- (mu4_P4 (rmean xs)), <- (mu4_P4 (rmean ys)).
    rewrite <- !(mean_map Rinv RRth). rewrite H. reflexivity.
  - rewrite <- (cov44_P4 (rcov xs)), <- (cov44_P4 (rcov ys)).
    rewrite <- !(cov_map Rinv RRth). rewrite H. reflexivity.
Qed.

Section Cav.
Variables (L V phi f : R).
Notation cavp := (cavity_part L V phi f).
Notation cavq := (cavity_param L V phi f).

Lemma P4_cav1 E p : rmvec P4 (cav1 L V phi f E p) = rmvec P4 (rmvec (cav_tm L V phi f E) p).
Proof.
  unfold cav1. set (y := rmvec (cav_tm L V phi f E) p). clearbody y. destruct y as [y0 y1 y2 y3 y4 y5 y6].
  lazy beta iota zeta delta [mvec v7map dot P4 row c0 c1 c2 c3 c4 c5 c6]. apply v7_eq; cbn; ring.
Qed.

(** all transverse moments (means 0-3, the 4x4 block) of the tracked particles = those of the tracked
    ParameterBeam, for every voltage, phase, frequency, energy and particle distribution *)
Theorem cavity_transverse (b : PartBeam R) :
  mu4 (pmu (rmoments (cavp b))) = mu4 (pmu (cavq (rmoments b))) /\
  cov44 (pcov (rmoments (cavp b))) = cov44 (pcov (cavq (rmoments b))).
Proof.
  destruct b as [ps E q s]. unfold cavity_part, cavity_param, moments. cbn [pE qE parts pmu pcov charges surv].
  destruct (Rlt_dec 0 (ctk_E1 V phi E)) as [Hpos|Hneg]; cbn [pmu pcov parts]; [|split; reflexivity].
  assert (H : map (rmvec P4) (map (cav1 L V phi f E) ps) = map (rmvec P4) (map (rmvec (cav_tm L V phi f E)) ps)).
  { rewrite !map_map. apply map_ext. intros p. apply P4_cav1. }
  destruct (transverse_agree _ _ H) as [H1 H2]. split.
  - rewrite H1, (mean_map Rinv RRth). reflexivity.
  - rewrite H2, (cov_map Rinv RRth). reflexivity.
Qed.

(** reference energy and total charge of the two outgoing beams agree *)
Theorem cavity_energy_same (b : PartBeam R) : qE (rmoments (cavp b)) = qE (cavq (rmoments b)).
Proof.
  destruct b as [ps E q s]. unfold cavity_part, cavity_param, moments. cbn [pE qE].
  destruct (Rlt_dec 0 (ctk_E1 V phi E)); reflexivity.
Qed.
Theorem cavity_energy_gain (b : PartBeam R) : 0 < pE b + V * cos phi -> pE (cavp b) = pE b + V * cos phi.
Proof.
  intros H. unfold cavity_part. fold (ctk_dE V phi) in H. fold (ctk_E1 V phi (pE b)) in H.
  destruct (Rlt_dec 0 (ctk_E1 V phi (pE b))); [reflexivity|contradiction].
Qed.
Theorem cavity_charge_same (b : PartBeam R) : qQ (rmoments (cavp b)) = qQ (cavq (rmoments b)).
Proof.
  destruct b as [ps E q s]. unfold cavity_part, cavity_param, moments, total_charge. cbn [pE qE qQ charges surv].
  destruct (Rlt_dec 0 (ctk_E1 V phi E)); reflexivity.
Qed.
End Cav.

(** * Switched-off cavity (voltage = 0): refutations *)

(* two-particle statistics in closed form *)
Lemma mean2_4 (p1 p2 : V7 R) : c4 (rmean [p1; p2]) = (c4 p1 + c4 p2) / 2.
Proof.
  destruct p1 as [a0 a1 a2 a3 a4 a5 a6], p2 as [b0 b1 b2 b3 b4 b5 b6].
  lazy beta iota zeta delta [mean vsum vscale vadd v7map v7map2 vzero length of_nat fold_right c0 c1 c2 c3 c4 c5 c6].
  field.
Qed.
Lemma cov2_44 (p1 p2 : V7 R) : c4 (c4 (rcov [p1; p2])) = (c4 p1 - c4 p2) ^ 2 / 2.
Proof.
  destruct p1 as [a0 a1 a2 a3 a4 a5 a6], p2 as [b0 b1 b2 b3 b4 b5 b6].
  lazy beta iota zeta delta [cov dev mean vsum msum mscale madd outer vscale vadd vsub v7map v7map2 vzero Z7
    length of_nat fold_right map Nat.sub c0 c1 c2 c3 c4 c5 c6].
  field.
Qed.
Lemma cov2_55 (p1 p2 : V7 R) : c5 (c5 (rcov [p1; p2])) = (c5 p1 - c5 p2) ^ 2 / 2.
Proof.
  destruct p1 as [a0 a1 a2 a3 a4 a5 a6], p2 as [b0 b1 b2 b3 b4 b5 b6].
  lazy beta iota zeta delta [cov dev mean vsum msum mscale madd outer vscale vadd vsub v7map v7map2 vzero Z7
    length of_nat fold_right map Nat.sub c0 c1 c2 c3 c4 c5 c6].
  field.
Qed.

Lemma Req_EM_T_refl (x : R) {T} (a b : T) : (if Req_EM_T x x then a else b) = a.
Proof. destruct (Req_EM_T x x); [reflexivity|congruence]. Qed.

(* row 4 of the zero-voltage map, applied to a particle: tau + r56 * delta *)
Lemma cav_off_row4 L phi f E (p : V7 R) :
  c4 (rmvec (cav_tm L 0 phi f E) p) = c4 p + r56 L 0 0 E * c5 p.
Proof.
  unfold cav_tm, cavity_off_map, base_rmatrix. rewrite !Req_EM_T_refl.
  unfold base_untilted, row. destruct p as [p0 p1 p2 p3 p4 p5 p6]. lazy beta iota zeta delta [mvec v7map dot c0 c1 c2 c3 c4 c5 c6].
  unfold dx, Rdiv. ring.
Qed.
Lemma mean2_5 (p1 p2 : V7 R) : c5 (rmean [p1; p2]) = (c5 p1 + c5 p2) / 2.
Proof.
  destruct p1 as [a0 a1 a2 a3 a4 a5 a6], p2 as [b0 b1 b2 b3 b4 b5 b6].
  lazy beta iota zeta delta [mean vsum vscale vadd v7map v7map2 vzero length of_nat fold_right c0 c1 c2 c3 c4 c5 c6].
  field.
Qed.

(* the second-order coefficients at voltage 0 *)
Lemma off_E1 phi E : ctk_E1 0 phi E = E.
Proof. unfold ctk_E1, ctk_dE. ring. Qed.
Lemma off_quad L phi f E a b c : cav_quad L 0 phi f E a b c = cav_T566_off L E * a.
Proof.
  unfold cav_quad, cav_T566, cav_T556, cav_T555, ctk_dE.
  destruct (Rlt_dec 0 (0 * cos phi)) as [H|H]; [exfalso; lra|]. ring.
Qed.
(* tau' of one particle through a zero-voltage cavity: the linear value plus T566 * delta^2 *)
Lemma cav1_off_tau L phi f E (p : V7 R) :
  c4 (cav1 L 0 phi f E p) = c4 p + r56 L 0 0 E * c5 p + cav_T566_off L E * (c5 p) ^ 2.
Proof. unfold cav1. cbn [c4]. rewrite cav_off_row4, off_quad. reflexivity. Qed.

Lemma m_e_pos : 0 < m_e.
Proof. unfold m_e. lra. Qed.

Lemma T566_off_neq0 L E : m_e < E -> L <> 0 -> cav_T566_off L E <> 0.
Proof.
  intros HE HL. pose proof m_e_pos as Hm.
  assert (Hg : 1 < gamma_of E). { unfold gamma_of. apply Rmult_lt_reg_r with m_e; [lra|]. field_simplify; lra. }
  assert (Hg2 : 1 < (gamma_of E)²). { unfold Rsqr. nra. }
  assert (Hi : 0 < igamma2_of E < 1).
  { unfold igamma2_of. destruct (Req_EM_T (gamma_of E) 0); [lra|].
    split.
    - apply Rdiv_lt_0_compat; lra.
    - apply Rmult_lt_reg_r with ((gamma_of E)²); [lra|]. field_simplify; lra. }
  assert (Hb : 0 < beta_of E). { unfold beta_of. apply sqrt_lt_R0. lra. }
  assert (Hp : 0 < beta_of E ^ 3) by (apply pow_lt; lra).
  assert (Hk : 0 < 1.5 * igamma2_of E / beta_of E ^ 3).
  { apply Rdiv_lt_0_compat; [|exact Hp]. apply Rmult_lt_0_compat; lra. }
  unfold cav_T566_off.
  replace (1.5 * L * igamma2_of E / beta_of E ^ 3) with (L * (1.5 * igamma2_of E / beta_of E ^ 3)) by (field; lra).
  apply Rmult_integral_contrapositive_currified; lra.
Qed.

(** F2: the ParameterBeam branch OVERWRITES cov[4,4] (and cov[4,5]) with T566*cov55^2 + ... instead of
    adding to / keeping the linear value.  Witness: two particles at tau = +-1 and nothing else, any
    energy, length, phase, frequency: the tracked particles keep var(tau) = 2, the tracked ParameterBeam
    reports var(tau) = 0.  So "switched-off cavities" violate the covariance clause of C06. *)
Theorem cavity_off_param_refuted : forall L phi f E q1 q2, 0 < E ->
  let b := mkPart [mk7 0 0 0 0 1 0 1; mk7 0 0 0 0 (-1) 0 1] E [q1; q2] [1; 1] in
  c4 (c4 (pcov (cavity_param L 0 phi f (rmoments b)))) = 0 /\
  c4 (c4 (pcov (rmoments (cavity_part L 0 phi f b)))) = 2.
Proof.
  intros L phi f E q1 q2 HE b. subst b. unfold cavity_param, cavity_part, moments.
  cbn [pE qE parts pmu pcov]. rewrite off_E1.
  destruct (Rlt_dec 0 E) as [_|Hn]; [|contradiction]. cbn [pcov parts c4 c5 map]. split.
  - rewrite off_quad, cov2_55. cbn [c5]. field.
  - rewrite cov2_44, !cav1_off_tau. cbn [c4 c5]. field.
Qed.

(** F1: ParticleBeam tracking through a zero-voltage cavity is not linear: tau += T566 * delta^2 with
    T566 = 1.5 L igamma2 / beta0^3 <> 0.  Witness: two particles at delta = +-1: their mean tau becomes T566
    while the transfer map sends the mean (the zero vector) to tau = 0. *)
Theorem cavity_off_part_nonlinear_refuted : forall L phi f E q1 q2, m_e < E -> L <> 0 ->
  let b := mkPart [mk7 0 0 0 0 0 1 1; mk7 0 0 0 0 0 (-1) 1] E [q1; q2] [1; 1] in
  c4 (pmu (rmoments (cavity_part L 0 phi f b))) = cav_T566_off L E /\
  c4 (pmu (rapp_param (cav_tm L 0 phi f E) (rmoments b))) = 0 /\
  cav_T566_off L E <> 0.
Proof.
  intros L phi f E q1 q2 HE HL b. subst b. pose proof m_e_pos as Hm. unfold cavity_part, moments, app_param.
  cbn [pE qE parts pmu pcov]. rewrite off_E1.
  destruct (Rlt_dec 0 E) as [_|Hn]; [|exfalso; lra]. cbn [pmu parts map]. split; [|split].
  - rewrite mean2_4, !cav1_off_tau. cbn [c4 c5]. field.
  - rewrite cav_off_row4, mean2_4, mean2_5. cbn [c4 c5]. field.
  - apply T566_off_neq0; assumption.
Qed.

Definition S_w : M7 R :=
  mk7 (row 2 0 0 0 2 0 0) (row 0 0 0 0 0 0 0) (row 0 0 0 0 0 0 0) (row 0 0 0 0 0 0 0)
      (row 2 0 0 0 2 0 0) (row 0 0 0 0 0 0 0) (row 0 0 0 0 0 0 0).
Lemma cov_w : rcov [mk7 1 0 0 0 1 0 1; mk7 (-1) 0 0 0 (-1) 0 1] = S_w.
Proof.
  unfold S_w, row.
  lazy beta iota zeta delta [cov dev mean vsum msum mscale madd outer vscale vadd vsub v7map v7map2 vzero Z7
    length of_nat fold_right map Nat.sub c0 c1 c2 c3 c4 c5 c6].
  apply v7_eq; lazy beta iota delta [c0 c1 c2 c3 c4 c5 c6]; apply v7_eq; lazy beta iota delta [c0 c1 c2 c3 c4 c5 c6]; field.
Qed.

(** F2, third consequence: the covariance that Cavity.track(ParameterBeam) returns is not positive
    semi-definite.  Witness: two particles at (x, tau) = +-(1, 1) through a zero-voltage cavity: the overwritten
    cov[4,4] is 0 while cov[0,4] = 2 cx survives, so v = (1,0,0,0,-cx,0,0) gives v^T S v = -2 cx^2 < 0
    (cx = cos(sqrt(1e-12) L), the (0,0) entry of the map; cx = 1 for L = 0). *)
Theorem cavity_param_not_psd_refuted : forall L phi f E q1 q2, 0 < E ->
  let b := mkPart [mk7 1 0 0 0 1 0 1; mk7 (-1) 0 0 0 (-1) 0 1] E [q1; q2] [1; 1] in
  let c := cx L 0 0 in
  rqform (pcov (cavity_param L 0 phi f (rmoments b))) (mk7 1 0 0 0 (- c) 0 0) = - 2 * c ^ 2.
Proof.
  intros L phi f E q1 q2 HE b c. subst b. unfold cavity_param, moments. cbn [pE qE parts pmu pcov]. rewrite off_E1.
  destruct (Rlt_dec 0 E) as [_|Hn]; [|contradiction]. cbn [pcov]. rewrite cov_w.
  rewrite off_quad.
  unfold cav_tm, cavity_off_map, base_rmatrix. rewrite !Req_EM_T_refl. unfold base_untilted, row, S_w.
  fold c. set (s := sx L 0 0). set (d := dx L 0 0 / beta_of E). set (k := kx2 0 0). set (r := r56 L 0 0 E).
  set (cy' := cy L 0). set (sy' := sy L 0). set (ky := ky2 0). set (T := cav_T566_off L E).
  unfold row.
  lazy beta iota zeta delta [qform dot mvec cong mmul transpose col v7map c0 c1 c2 c3 c4 c5 c6].
  unfold Rdiv. ring.
Qed.

Lemma cx_L0 : cx 0 0 0 = 1.
Proof.
  unfold cx, Cf. destruct (Rlt_dec 0 (kx2 0 0)); [rewrite Rmult_0_r; apply cos_0|].
  destruct (Rlt_dec (kx2 0 0) 0); [rewrite Rmult_0_r; apply cosh_0|reflexivity].
Qed.
