(** Executable rational instance of Beam/Moments.v and the case checkers used by the C06
    correspondence (vm_compute).  Integer trees are tracked with the C01 instance (Lattice/ZInst.v). *)
From Coq Require Import List Bool ZArith QArith String.
From Cheetah Require Import Base.Mat Beam.Moments Lattice.Track Lattice.ZInst.
Import ListNotations.

(* operations that keep fractions reduced (otherwise denominators explode under vm_compute) *)
Definition qadd (a b : Q) : Q := Qred (Qplus a b).
Definition qmul (a b : Q) : Q := Qred (Qmult a b).
Definition qsub (a b : Q) : Q := Qred (Qminus a b).
Notation qmean := (@mean Q 0%Q 1%Q qadd qmul Qinv).
Notation qcov := (@cov Q 0%Q 1%Q qadd qmul qsub Qinv).
Notation qmvec := (@mvec Q qadd qmul).
Notation qcong := (@cong Q qadd qmul).

Definition qv7 (v : V7 Z) : V7 Q := v7map inject_Z v.
Definition qm7 (m : M7 Z) : M7 Q := v7map qv7 m.
Definition v7Qeqb (u v : V7 Q) : bool := forallb (fun '(a, b) => Qeq_bool a b) (combine (v7list u) (v7list v)).
Definition m7Qeqb (a b : M7 Q) : bool := forallb (fun '(u, v) => v7Qeqb u v) (combine (v7list a) (v7list b)).
Definition v7red (v : V7 Q) : V7 Q := v7map Qred v.

(** (b) one rational 7x7 map, rational particles; observed: moments of the incoming particles (used to build the
    ParameterBeam), moments of the tracked particles, mu/cov of the tracked ParameterBeam *)
Record qcase := mkq {
  q_map : M7 Q; q_ps : list (V7 Q);
  q_mu_in : V7 Q; q_cov_in : M7 Q;
  q_mu_part : V7 Q; q_cov_part : M7 Q;
  q_mu_param : V7 Q; q_cov_param : M7 Q }.
Definition c06q_check (c : qcase) : bool :=
  let ps' := map (qmvec (q_map c)) (q_ps c) in
  v7Qeqb (qmean (q_ps c)) (q_mu_in c) && m7Qeqb (qcov (q_ps c)) (q_cov_in c)
  && v7Qeqb (qmean ps') (q_mu_part c) && m7Qeqb (qcov ps') (q_cov_part c)
  && v7Qeqb (qmvec (q_map c) (qmean (q_ps c))) (q_mu_param c)
  && m7Qeqb (qcong (q_map c) (qcov (q_ps c))) (q_cov_param c).

(** (a) an integer tree of linear leaves (C01's instance), integer particles whose moments are integers *)
Definition lsumZ (l : list Z) : Z := fold_right Z.add 0%Z l.
Fixpoint zipmulZ (l1 l2 : list Z) : list Z :=
  match l1, l2 with a :: r1, b :: r2 => (a * b)%Z :: zipmulZ r1 r2 | _, _ => [] end.
Record zcase := mkz {
  z_tree : zelem; z_ps : list (V7 Z); z_E : Z; z_q : list Z; z_s : list Z;
  z_mu_in : V7 Z; z_cov_in : M7 Z;
  z_mu_part : V7 Z; z_cov_part : M7 Z; z_E_part : Z; z_Q_part : Z;
  z_out_param : zbeam }.
Definition c06z_check (c : zcase) : bool :=
  let qps := map qv7 (z_ps c) in
  v7Qeqb (qmean qps) (qv7 (z_mu_in c)) && m7Qeqb (qcov qps) (qm7 (z_cov_in c)) &&
  match ztrack (z_tree c) (Parts (z_ps c) (z_E c) (z_q c) (z_s c)) with
  | Parts ps' E' q' s' =>
    let qps' := map qv7 ps' in
    v7Qeqb (qmean qps') (qv7 (z_mu_part c)) && m7Qeqb (qcov qps') (qm7 (z_cov_part c))
    && (E' =? z_E_part c)%Z && (lsumZ (zipmulZ q' s') =? z_Q_part c)%Z
    && zbeam_eqb (ztrack (z_tree c) (Param (z_mu_in c) (z_cov_in c) (z_E c) (lsumZ (zipmulZ (z_q c) (z_s c))))) (z_out_param c)
    && match z_out_param c with
       | Param mu Sg Eo Qo => v7Qeqb (qmean qps') (qv7 mu) && m7Qeqb (qcov qps') (qm7 Sg) && (E' =? Eo)%Z
                           && (lsumZ (zipmulZ q' s') =? Qo)%Z
       | _ => false
       end
  | _ => false
  end.
