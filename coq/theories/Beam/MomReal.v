(** C06 over the real numbers: positive semi-definiteness and the affine (seventh) slot. *)
From Coq Require Import Reals List Lra Lia.
From Cheetah Require Import Base.Mat Beam.Moments Beam.MomentsProofs Optics.Maps.
Import ListNotations.
Open Scope R_scope.

Notation rvadd := (@vadd R Rplus).
Notation rvscale := (@vscale R Rmult).
Notation rvsub := (@vsub R Rminus).
Notation rvsum := (@vsum R 0 Rplus).
Notation rof_nat := (@of_nat R 0 1 Rplus).
Notation rmean := (@mean R 0 1 Rplus Rmult Rinv).
Notation rdev := (@dev R 0 1 Rplus Rmult Rminus Rinv).
Notation rcov := (@cov R 0 1 Rplus Rmult Rminus Rinv).
Notation rqform := (@qform R Rplus Rmult).
Notation rdot := (@dot R Rplus Rmult).
Notation rmoments := (@moments R 0 1 Rplus Rmult Rminus Rinv).
Notation rapp_part := (@app_part R Rplus Rmult).
Notation rapp_param := (@app_param R Rplus Rmult).
Notation rtotal_charge := (@total_charge R 0 Rplus Rmult).
Notation rseventh_one := (@seventh_one R 1).

Lemma rof_nat_INR n : rof_nat n = INR n.
Proof.
  induction n as [|k IH]; [reflexivity|]. cbn [of_nat]. rewrite IH, S_INR. reflexivity.
Qed.

(** positive semi-definiteness of the sample covariance and of its image under any map *)
Lemma sumsq_nonneg ds v : 0 <= sumsq 0 Rplus Rmult ds v.
Proof.
  unfold sumsq. induction ds as [|d r IH]; cbn [fold_right]; [lra|].
  pose proof (Rle_0_sqr (rdot d v)) as H. unfold Rsqr in H. lra.
Qed.

Theorem cov_psd xs v : 0 <= rqform (rcov xs) v.
Proof.
  rewrite (qform_cov Rinv RRth). rewrite rof_nat_INR.
  apply Rmult_le_pos; [|apply sumsq_nonneg].
  destruct (length xs - 1)%nat as [|k] eqn:E.
  - cbn. rewrite Rinv_0. lra.
  - left. apply Rinv_0_lt_compat. apply lt_0_INR. lia.
Qed.

Theorem cong_psd (m s : M7 R) : (forall v, 0 <= rqform s v) -> forall v, 0 <= rqform (rcong m s) v.
Proof. intros H v. rewrite (qform_cong RRth). apply H. Qed.

(** the seventh slot: if every particle carries 1 there, the mean does and the 7th row and column
    of the covariance vanish *)
Lemma c6_vsum xs : rseventh_one xs -> c6 (rvsum xs) = INR (length xs).
Proof.
  induction 1 as [|x r Hx Hr IH]; [reflexivity|].
  cbn [vsum fold_right length]. rewrite S_INR. destruct x; cbn in *. unfold vsum in IH. rewrite IH, Hx. lra.
Qed.

Theorem mean_seventh xs : rseventh_one xs -> xs <> [] -> c6 (rmean xs) = 1.
Proof.
  intros H Hne. unfold mean. rewrite rof_nat_INR.
  assert (Hn : INR (length xs) <> 0). { apply not_0_INR. destruct xs; [congruence|discriminate]. }
  destruct (rvsum xs) eqn:E. pose proof (c6_vsum xs H) as H6. rewrite E in H6. cbn in *. rewrite H6. field. exact Hn.
Qed.

Lemma dev_seventh xs : rseventh_one xs -> xs <> [] -> Forall (fun d => c6 d = 0) (rdev xs).
Proof.
  intros H Hne. unfold dev. apply Forall_forall. intros d Hd. apply in_map_iff in Hd as [x [<- Hx]].
  pose proof (mean_seventh xs H Hne) as Hm. unfold seventh_one in H. rewrite Forall_forall in H. specialize (H x Hx).
  destruct x, (rmean xs); cbn in *. lra.
Qed.

Definition vzero7 : V7 R := mk7 0 0 0 0 0 0 0.
Definition row_col6_zero (m : M7 R) : Prop := c6 m = vzero7 /\ col (@c6 R) m = vzero7.

Ltac rc6 := unfold row_col6_zero, vzero7, M7 in *;
  repeat match goal with v : V7 (V7 R) |- _ => destruct v | v : V7 R |- _ => destruct v end;
  unfold col, v7map, madd, mscale, outer, vadd, vscale, v7map2, Z7 in *; cbn in *; intuition (repeat match goal with H : mk7 _ _ _ _ _ _ _ = mk7 _ _ _ _ _ _ _ |- _ => inversion H; clear H end; subst; apply v7_eq; cbn; ring).
Lemma rc6_Z7 : row_col6_zero (Z7 0).
Proof. split; reflexivity. Qed.
Lemma rc6_madd a b : row_col6_zero a -> row_col6_zero b -> row_col6_zero (madd Rplus a b).
Proof. rc6. Qed.
Lemma rc6_mscale k a : row_col6_zero a -> row_col6_zero (mscale Rmult k a).
Proof. rc6. Qed.
Lemma rc6_outer d : c6 d = 0 -> row_col6_zero (outer Rmult d d).
Proof. rc6. Qed.

Theorem cov_seventh xs : rseventh_one xs -> xs <> [] ->
  c6 (rcov xs) = vzero7 /\ col (@c6 R) (rcov xs) = vzero7.
Proof.
  intros H Hne. pose proof (dev_seventh xs H Hne) as Hd. unfold cov.
  apply rc6_mscale. unfold msum.
  induction Hd as [|d r Hd0 Hr IH]; cbn [map fold_right]; [apply rc6_Z7|].
  apply rc6_madd; [apply rc6_outer, Hd0 | exact IH].
Qed.

(* an affine map (last row e6) keeps the seventh slot *)
Theorem affine_seventh (m : M7 R) xs : c6 m = mk7 0 0 0 0 0 0 1 -> rseventh_one xs -> rseventh_one (map (rmvec m) xs).
Proof.
  intros Hm H. unfold seventh_one in *. rewrite Forall_map. eapply Forall_impl; [|exact H].
  intros x Hx. destruct m as [r0 r1 r2 r3 r4 r5 r6]. cbn in Hm. subst r6. destruct x; unfold mvec, v7map, dot; cbn in *. subst. ring.
Qed.

(* a concrete instance, used as non-vacuity example *)
Lemma C06_nonvacuous_proof :
  let M := mk7 (mk7 1 2 0 0 0 0 0) (mk7 0 1 0 0 0 0 3) (mk7 0 0 1 0 0 0 0) (mk7 0 0 0 1 0 0 0)
               (mk7 0 0 0 0 1 (-1) 0) (mk7 0 0 0 0 0 1 0) (mk7 0 0 0 0 0 0 1) in
  let b := mkPart [mk7 1 0 0 0 0 1 1; mk7 (-1) 2 0 0 0 (-1) 1] 5 [1; 1] [1; 1] in
  c0 (pmu (rmoments (rapp_part M b))) = 2 /\ c0 (pmu (rapp_param M (rmoments b))) = 2.
Proof.
  lazy beta iota zeta delta [moments app_part app_param mean vsum vscale vadd v7map v7map2 vzero length of_nat
    fold_right map mvec dot parts pmu pE charges surv c0 c1 c2 c3 c4 c5 c6].
  split; field.
Qed.
