(** Executable rational instance of Beam/WMoments.v and the case checker of the C06 correspondence for
    beams with survival probabilities other than 1 (vm_compute).  The code's weighted statistics divide
    by sum(w) and by the correction factor, which is not exact in binary64 even for dyadic inputs, so
    observed values are compared with the exact model value within [tol * (1 + |a| + |b|)], decided on
    rationals inside Coq. *)
From Coq Require Import List Bool ZArith QArith Qabs String.
From Cheetah Require Import Base.Mat Beam.Moments Beam.WMoments Beam.MomQ.
Import ListNotations.

Notation qwmean := (@wmean Q 0%Q qadd qmul Qinv).
Notation qwcov := (@wcov Q 0%Q qadd qmul qsub Qinv).
Notation qwcorr := (@wcorr Q 0%Q qadd qmul qsub Qinv).

Definition qclose (tol a b : Q) : bool :=
  Qle_bool (Qabs (a - b)) (tol * (1 + Qabs a + Qabs b)).
Definition v7close (tol : Q) (u v : V7 Q) : bool :=
  forallb (fun '(a, b) => qclose tol a b) (combine (v7list u) (v7list v)).
Definition m7close (tol : Q) (a b : M7 Q) : bool :=
  forallb (fun '(u, v) => v7close tol u v) (combine (v7list a) (v7list b)).

Record wcase := mkw {
  w_map : M7 Q; w_ps : list (V7 Q); w_ws : list Q; w_tol : Q;
  w_mu_in : V7 Q; w_cov_in : M7 Q;
  w_mu_part : V7 Q; w_cov_part : M7 Q;
  w_mu_param : V7 Q; w_cov_param : M7 Q }.

(* observed: weighted moments of the incoming particles (cheetah's getters; they build the ParameterBeam),
   weighted moments of the tracked particles, mu/cov of the tracked ParameterBeam *)
Definition c06w_check (c : wcase) : bool :=
  let ps' := map (qmvec (w_map c)) (w_ps c) in
  let t := w_tol c in
  negb (Qeq_bool (qwcorr (w_ws c)) 0)
  && v7close t (qwmean (w_ws c) (w_ps c)) (w_mu_in c) && m7close t (qwcov (w_ws c) (w_ps c)) (w_cov_in c)
  && v7close t (qwmean (w_ws c) ps') (w_mu_part c) && m7close t (qwcov (w_ws c) ps') (w_cov_part c)
  && v7close t (qmvec (w_map c) (qwmean (w_ws c) (w_ps c))) (w_mu_param c)
  && m7close t (qcong (w_map c) (qwcov (w_ws c) (w_ps c))) (w_cov_param c).
