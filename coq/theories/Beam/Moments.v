(** Model of the two beam types and of the statistics that relate them (C06).

    ParticleBeam  = particles (list of 7-vectors, 7th component 1), reference energy, charges, survival
    ParameterBeam = mu (7-vector), cov (7x7), reference energy, total charge

    [moments] is the map "ParticleBeam -> the ParameterBeam with its sample mean and unbiased sample
    covariance" (all survival probabilities 1: cheetah's survival-weighted unbiased statistics then are
    the ordinary ones, see Beam/WStats.v); [app_part] / [app_param] are the two branches of
    Element.track (cheetah/accelerator/element.py:64-86): particles @ tm^T  and  (tm mu, tm cov tm^T).

    Definitions only, generic in the carrier and its operations (instantiated at R for the theorems
    and at Q for the executable correspondence).  No proofs here: see MomentsProofs.v. *)
From Coq Require Import List.
From Cheetah Require Import Base.Mat.
Import ListNotations.

Set Implicit Arguments.

Section Ops.
Variable A : Type.
Variables (zero one : A) (add mul sub : A -> A -> A) (inv : A -> A).

Definition vzero : V7 A := mk7 zero zero zero zero zero zero zero.
Definition vsub (u v : V7 A) : V7 A := v7map2 sub u v.
Definition vsum (xs : list (V7 A)) : V7 A := fold_right (vadd add) vzero xs.
Definition msum (ms : list (M7 A)) : M7 A := fold_right (madd add) (Z7 zero) ms.
(* outer product u v^T : row i is u_i * v *)
Definition outer (u v : V7 A) : M7 A := v7map (fun a => vscale mul a v) u.

Fixpoint of_nat (n : nat) : A := match n with O => zero | S k => add (of_nat k) one end.

(* sample mean: sum / n *)
Definition mean (xs : list (V7 A)) : V7 A := vscale mul (inv (of_nat (length xs))) (vsum xs).
(* unbiased sample covariance: sum (x - mean)(x - mean)^T / (n - 1) *)
Definition dev (xs : list (V7 A)) : list (V7 A) := map (fun x => vsub x (mean xs)) xs.
Definition cov (xs : list (V7 A)) : M7 A :=
  mscale mul (inv (of_nat (length xs - 1))) (msum (map (fun d => outer d d) (dev xs))).

Definition lsum (l : list A) : A := fold_right add zero l.
Fixpoint zipmul (l1 l2 : list A) : list A :=
  match l1, l2 with a :: r1, b :: r2 => mul a b :: zipmul r1 r2 | _, _ => [] end.

Record PartBeam := mkPart { parts : list (V7 A); pE : A; charges : list A; surv : list A }.
Record ParamBeam := mkParam { pmu : V7 A; pcov : M7 A; qE : A; qQ : A }.

(* ParticleBeam.total_charge = sum (particle_charges * survival_probabilities) *)
Definition total_charge (b : PartBeam) : A := lsum (zipmul (charges b) (surv b)).

Definition moments (b : PartBeam) : ParamBeam :=
  mkParam (mean (parts b)) (cov (parts b)) (pE b) (total_charge b).

(* Element.track, both branches *)
Definition app_part (m : M7 A) (b : PartBeam) : PartBeam :=
  mkPart (map (mvec add mul m) (parts b)) (pE b) (charges b) (surv b).
Definition app_param (m : M7 A) (b : ParamBeam) : ParamBeam :=
  mkParam (mvec add mul m (pmu b)) (cong add mul m (pcov b)) (qE b) (qQ b).

(* quadratic form v^T S v *)
Definition qform (s : M7 A) (v : V7 A) : A := dot add mul v (mvec add mul s v).

(* "transverse" projections: means 0..3 and the 4x4 block *)
Definition mu4 (v : V7 A) : A * A * A * A := (c0 v, c1 v, c2 v, c3 v).
Definition cov44 (s : M7 A) := (mu4 (c0 s), mu4 (c1 s), mu4 (c2 s), mu4 (c3 s)).

(* all particles carry 1 in the 7th slot *)
Definition seventh_one (xs : list (V7 A)) : Prop := Forall (fun x => c6 x = one) xs.
End Ops.
