(** Proofs about Beam/Moments.v: the sample mean / unbiased sample covariance commute with every
    7x7 map (C06), hence ParameterBeam tracking = moments of ParticleBeam tracking for every linear
    element and every Segment of linear elements. *)
From Coq Require Import List Ring Lia.
From Cheetah Require Import Base.Mat Beam.Moments Lattice.Track Lattice.TrackProofs.
Import ListNotations.

Set Implicit Arguments.

Section Ring.
Variable A : Type.
Variables (zero one : A) (add mul sub : A -> A -> A) (opp inv : A -> A).
Hypothesis Rth : ring_theory zero one add mul sub opp (@eq A).
Add Ring Aring2 : Rth.

Notation "0" := zero. Notation "1" := one.
Infix "+" := add. Infix "*" := mul. Infix "-" := sub.
Notation mvec := (mvec add mul).
Notation mmul := (mmul add mul).
Notation cong := (cong add mul).
Notation dot := (dot add mul).
Notation vadd := (vadd add).
Notation madd := (madd add).
Notation vscale := (vscale mul).
Notation mscale := (mscale mul).
Notation vsub := (vsub sub).
Notation vzero := (vzero zero).
Notation vsum := (vsum zero add).
Notation msum := (msum zero add).
Notation outer := (outer mul).
Notation of_nat := (of_nat zero one add).
Notation mean := (mean zero one add mul inv).
Notation dev := (dev zero one add mul sub inv).
Notation cov := (cov zero one add mul sub inv).
Notation Z7 := (Z7 zero).

Ltac destr_all :=
  repeat match goal with
  | v : V7 (V7 A) |- _ => destruct v
  | v : M7 A |- _ => destruct v
  | v : V7 A |- _ => destruct v
  end.
Ltac mred := lazy beta iota zeta delta [Mat.mmul Mat.vmat Mat.mvec transpose col v7map v7map2 Mat.dot I7 Mat.Z7
  Mat.vadd Mat.madd Mat.vscale Mat.mscale Moments.vsub Moments.vzero Moments.outer Mat.cong
  c0 c1 c2 c3 c4 c5 c6].
Ltac mat_ring := unfold M7 in *; destr_all; mred; repeat (apply v7_eq; mred); try reflexivity; ring.

(** linearity of x |-> M x *)
Lemma mvec_add (m : M7 A) (u v : V7 A) : mvec m (vadd u v) = vadd (mvec m u) (mvec m v).
Proof. mat_ring. Qed.
Lemma mvec_sub (m : M7 A) (u v : V7 A) : mvec m (vsub u v) = vsub (mvec m u) (mvec m v).
Proof. mat_ring. Qed.
Lemma mvec_scale (m : M7 A) (k : A) (v : V7 A) : mvec m (vscale k v) = vscale k (mvec m v).
Proof. mat_ring. Qed.
Lemma mvec_vzero (m : M7 A) : mvec m vzero = vzero.
Proof. mat_ring. Qed.

Lemma mvec_vsum (m : M7 A) (xs : list (V7 A)) : mvec m (vsum xs) = vsum (map (mvec m) xs).
Proof.
  induction xs as [|x r IH]; cbn [Moments.vsum fold_right map].
  - apply mvec_vzero.
  - rewrite mvec_add. f_equal. exact IH.
Qed.

(** C06: the sample mean commutes with every 7x7 map (any number of particles) *)
Theorem mean_map (m : M7 A) (xs : list (V7 A)) : mean (map (mvec m) xs) = mvec m (mean xs).
Proof.
  unfold Moments.mean. rewrite map_length, mvec_scale, mvec_vsum. reflexivity.
Qed.

(** matrix algebra needed for the covariance: products distribute over sums / scalings / outer products *)
Lemma mmul_madd_r (m a b : M7 A) : mmul m (madd a b) = madd (mmul m a) (mmul m b).
Proof. mat_ring. Qed.
Lemma mmul_madd_l (a b m : M7 A) : mmul (madd a b) m = madd (mmul a m) (mmul b m).
Proof. mat_ring. Qed.
Lemma mmul_mscale_r (m : M7 A) k (a : M7 A) : mmul m (mscale k a) = mscale k (mmul m a).
Proof. mat_ring. Qed.
Lemma mmul_mscale_l k (a m : M7 A) : mmul (mscale k a) m = mscale k (mmul a m).
Proof. mat_ring. Qed.
Lemma mmul_Z7_r (m : M7 A) : mmul m Z7 = Z7.
Proof. mat_ring. Qed.
Lemma mmul_Z7_l (m : M7 A) : mmul Z7 m = Z7.
Proof. mat_ring. Qed.
Lemma mmul_outer_l (m : M7 A) (u v : V7 A) : mmul m (outer u v) = outer (mvec m u) v.
Proof. mat_ring. Qed.
Lemma mmul_outer_r (m : M7 A) (u v : V7 A) : mmul (outer u v) (transpose m) = outer u (mvec m v).
Proof. mat_ring. Qed.

Lemma cong_madd (m a b : M7 A) : cong m (madd a b) = madd (cong m a) (cong m b).
Proof. unfold Mat.cong. rewrite mmul_madd_l, mmul_madd_r. reflexivity. Qed.
Lemma cong_mscale (m : M7 A) k (a : M7 A) : cong m (mscale k a) = mscale k (cong m a).
Proof. unfold Mat.cong. rewrite mmul_mscale_l, mmul_mscale_r. reflexivity. Qed.
Lemma cong_Z7 (m : M7 A) : cong m Z7 = Z7.
Proof. unfold Mat.cong. rewrite mmul_Z7_l, mmul_Z7_r. reflexivity. Qed.
(* (M u)(M v)^T = M (u v^T) M^T *)
Lemma cong_outer (m : M7 A) (u v : V7 A) : cong m (outer u v) = outer (mvec m u) (mvec m v).
Proof. unfold Mat.cong. rewrite mmul_outer_r, mmul_outer_l. reflexivity. Qed.

Lemma cong_msum_outer (m : M7 A) (ds : list (V7 A)) :
  msum (map (fun d => outer d d) (map (mvec m) ds)) = cong m (msum (map (fun d => outer d d) ds)).
Proof.
  induction ds as [|d r IH]; cbn [map Moments.msum fold_right].
  - symmetry. apply cong_Z7.
  - rewrite cong_madd, cong_outer. f_equal. exact IH.
Qed.

Lemma dev_map (m : M7 A) (xs : list (V7 A)) : dev (map (mvec m) xs) = map (mvec m) (dev xs).
Proof.
  unfold Moments.dev. rewrite mean_map, !map_map. apply map_ext. intros x. symmetry. apply mvec_sub.
Qed.

(** C06: the unbiased sample covariance transforms by congruence under every 7x7 map *)
Theorem cov_map (m : M7 A) (xs : list (V7 A)) : cov (map (mvec m) xs) = cong m (cov xs).
Proof.
  unfold Moments.cov. rewrite dev_map, map_length, cong_msum_outer, cong_mscale. reflexivity.
Qed.

(** symmetry *)
Lemma transpose_madd (a b : M7 A) : transpose (madd a b) = madd (transpose a) (transpose b).
Proof. unfold M7 in *; destr_all; reflexivity. Qed.
Lemma transpose_mscale k (a : M7 A) : transpose (mscale k a) = mscale k (transpose a).
Proof. unfold M7 in *; destr_all; reflexivity. Qed.
Lemma transpose_outer (u v : V7 A) : transpose (outer u v) = outer v u.
Proof. mat_ring. Qed.

Theorem cov_sym (xs : list (V7 A)) : transpose (cov xs) = cov xs.
Proof.
  unfold Moments.cov. rewrite transpose_mscale. f_equal.
  induction (dev xs) as [|d r IH]; cbn [map Moments.msum fold_right]; [reflexivity|].
  rewrite transpose_madd, transpose_outer. f_equal. exact IH.
Qed.

(* congruence keeps symmetry *)
Theorem cong_sym (m s : M7 A) : transpose s = s -> transpose (cong m s) = cong m s.
Proof.
  intros Hs. unfold Mat.cong.
  rewrite (transpose_mmul Rth), (transpose_mmul Rth), transpose_invol, Hs, (mmul_assoc Rth). reflexivity.
Qed.

(** v^T (M S M^T) v = (M^T v)^T S (M^T v) *)
Notation qform := (qform add mul).
Theorem qform_cong (m s : M7 A) (v : V7 A) : qform (cong m s) v = qform s (mvec (transpose m) v).
Proof.
  unfold Moments.qform, Mat.cong.
  rewrite !(mvec_mmul Rth).
  rewrite (dot_comm Rth), (mvec_transpose_dot Rth). apply (dot_comm Rth).
Qed.

(* v^T (d d^T) v = (d.v)^2 ; quadratic form of sums and scalings *)
Lemma qform_outer (d v : V7 A) : qform (outer d d) v = dot d v * dot d v.
Proof. unfold Moments.qform. destr_all. mred. ring. Qed.
Lemma qform_madd (a b : M7 A) (v : V7 A) : qform (madd a b) v = qform a v + qform b v.
Proof. unfold Moments.qform. unfold M7 in *. destr_all. mred. ring. Qed.
Lemma qform_mscale k (a : M7 A) (v : V7 A) : qform (mscale k a) v = k * qform a v.
Proof. unfold Moments.qform. unfold M7 in *. destr_all. mred. ring. Qed.
Lemma qform_Z7 (v : V7 A) : qform Z7 v = 0.
Proof. unfold Moments.qform. destr_all. mred. ring. Qed.

Definition sumsq (ds : list (V7 A)) (v : V7 A) : A := fold_right (fun d acc => dot d v * dot d v + acc) 0 ds.
Lemma qform_cov (xs : list (V7 A)) (v : V7 A) :
  qform (cov xs) v = inv (of_nat (length xs - 1)) * sumsq (dev xs) v.
Proof.
  unfold Moments.cov. rewrite qform_mscale. f_equal. unfold Moments.msum.
  induction (dev xs) as [|d r IH]; cbn [map fold_right sumsq].
  - apply qform_Z7.
  - rewrite qform_madd, qform_outer, IH. reflexivity.
Qed.

(** the two beam actions are monoid actions (what C01's theorems need) *)
Notation app_part := (app_part add mul).
Notation app_param := (app_param add mul).
Notation moments := (moments zero one add mul sub inv).

Lemma app_part_one (b : PartBeam A) : app_part (I7 0 1) b = b.
Proof.
  destruct b as [ps E q s]. unfold Moments.app_part; cbn. f_equal.
  rewrite <- (map_id ps) at 2. apply map_ext. intros x. apply (mvec_I Rth).
Qed.
Lemma app_part_mul (a c : M7 A) (b : PartBeam A) : app_part (mmul a c) b = app_part a (app_part c b).
Proof.
  destruct b as [ps E q s]. unfold Moments.app_part; cbn. f_equal.
  rewrite map_map. apply map_ext. intros x. apply (mvec_mmul Rth).
Qed.
Lemma app_param_one (b : ParamBeam A) : app_param (I7 0 1) b = b.
Proof. destruct b as [mu S E Q]. unfold Moments.app_param; cbn. rewrite (mvec_I Rth), (cong_I Rth). reflexivity. Qed.
Lemma app_param_mul (a c : M7 A) (b : ParamBeam A) : app_param (mmul a c) b = app_param a (app_param c b).
Proof. destruct b as [mu S E Q]. unfold Moments.app_param; cbn. rewrite (mvec_mmul Rth), (cong_mmul Rth). reflexivity. Qed.

(** C06 for one linear element: tracking the ParameterBeam of moments = moments of the tracked particles
    (mean, covariance, reference energy, total charge) *)
Theorem moments_app (m : M7 A) (b : PartBeam A) : moments (app_part m b) = app_param m (moments b).
Proof.
  destruct b as [ps E q s]. unfold Moments.moments, Moments.app_part, Moments.app_param, Moments.total_charge; cbn.
  rewrite mean_map, cov_map. reflexivity.
Qed.

(** C06 for Segments: [L] is any type of leaves that act linearly on both beam types by the same
    energy-dependent transfer map (C01's leaf contract, for both beam types).  Segment.track -- the
    literal grouping algorithm of Lattice/Track.v, which merges maps of skippable runs -- then commutes
    with [moments] for every tree of such leaves, whatever [skip] says. *)
Section Segments.
Variable L : Type.
Variable skip : L -> bool.
Variable tmap : L -> A -> M7 A.
Variable ltrack_part : L -> PartBeam A -> PartBeam A.
Variable ltrack_param : L -> ParamBeam A -> ParamBeam A.
Hypothesis linear_part : forall l b, ltrack_part l b = app_part (tmap l (pE b)) b.
Hypothesis linear_param : forall l b, ltrack_param l b = app_param (tmap l (qE b)) b.

Definition seg_track_part := track (I7 0 1) mmul app_part (@pE A) skip tmap ltrack_part.
Definition seg_track_param := track (I7 0 1) mmul app_param (@qE A) skip tmap ltrack_param.

Lemma moments_track1 : forall (e : elem L) b,
  moments (track1 ltrack_part e b) = track1 ltrack_param e (moments b).
Proof.
  induction e as [l|n es IH] using elem_ind'; intros b; cbn [track1].
  - rewrite linear_part, linear_param, moments_app. reflexivity.
  - revert b. induction es as [|e r IHr]; intros b; cbn [fold_left]; [reflexivity|].
    inversion IH as [|? ? He Hr]; subst.
    rewrite (IHr Hr), He. reflexivity.
Qed.

Theorem moments_segment : forall (e : elem L) b,
  moments (seg_track_part e b) = seg_track_param e (moments b).
Proof.
  intros e b. unfold seg_track_part, seg_track_param.
  rewrite (@track_eq_fold (M7 A) (PartBeam A) A L (I7 0 1) mmul app_part (@pE A) skip tmap ltrack_part
             app_part_one app_part_mul (fun m b => eq_refl) (fun l b _ => linear_part l b)).
  rewrite (@track_eq_fold (M7 A) (ParamBeam A) A L (I7 0 1) mmul app_param (@qE A) skip tmap ltrack_param
             app_param_one app_param_mul (fun m b => eq_refl) (fun l b _ => linear_param l b)).
  apply moments_track1.
Qed.
End Segments.

End Ring.
