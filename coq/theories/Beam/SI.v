(** Model of the reference quantities of cheetah/particles/beam.py:299-316, of the per-particle
    energies/momenta of particle_beam.py:1067-1075 and of the SI conversions to_xyz_pxpypz /
    from_xyz_pxpypz (particle_beam.py:809-887), formula by formula over Coq's reals.
    [meV] = electron_mass_eV, [mkg] = module constant electron_mass, [c] = module constant speed_of_light
    (whatever values the module holds: the theorems are for all positive constants).
    Definitions only (proofs: SIProofs.v). *)
From Coq Require Import Reals List.
Import ListNotations.
Open Scope R_scope.

(** Beam.relativistic_gamma / relativistic_beta / p0c *)
Definition si_gamma0 (E0 meV : R) : R := E0 / meV.
Definition si_beta0 (E0 meV : R) : R :=
  if Req_EM_T (si_gamma0 E0 meV) 0 then 1 else sqrt (1 - 1 / (si_gamma0 E0 meV)²).
Definition beam_p0c (E0 meV : R) : R := si_beta0 E0 meV * si_gamma0 E0 meV * meV.

(** ParticleBeam.energies / momenta for ONE particle of a non-vectorised beam *)
Definition energies (delta E0 meV : R) : R := delta * beam_p0c E0 meV + E0.
Definition momenta (delta E0 meV : R) : R := sqrt ((energies delta E0 meV)² - meV²).

(** to_xyz_pxpypz *)
Definition si_p0 (E0 meV mkg c : R) : R := si_gamma0 E0 meV * si_beta0 E0 meV * mkg * c.
Definition si_gamma (delta E0 meV : R) : R := si_gamma0 E0 meV * (1 + delta * si_beta0 E0 meV).
Definition si_beta (delta E0 meV : R) : R := sqrt (1 - 1 / (si_gamma delta E0 meV)²).
Definition si_mom (delta E0 meV mkg c : R) : R := si_gamma delta E0 meV * mkg * si_beta delta E0 meV * c.
Definition to_px (px E0 meV mkg c : R) : R := px * si_p0 E0 meV mkg c.
Definition to_z (tau E0 meV : R) : R := tau * - si_beta0 E0 meV.
Definition to_pz (px py delta E0 meV mkg c : R) : R :=
  sqrt ((si_mom delta E0 meV mkg c)² - (to_px px E0 meV mkg c)² - (to_px py E0 meV mkg c)²).

(** from_xyz_pxpypz *)
Definition fr_p (PX PY PZ : R) : R := sqrt (PX² + PY² + PZ²).
(* [mc] is the value of the sub-expression `electron_mass * speed_of_light` of from_xyz_pxpypz.  Both factors are
   0-dim float32 tensors, so torch evaluates THIS product in float32 (to_xyz multiplies them one after the other into a
   float64 tensor): the faithful model therefore keeps it as a separate constant; ideally mc = mkg * c. *)
Definition fr_gamma (PX PY PZ mc : R) : R := sqrt (1 + (fr_p PX PY PZ / mc)²).
Definition fr_px (PX E0 meV mkg c : R) : R := PX / si_p0 E0 meV mkg c.
Definition fr_tau (Z E0 meV : R) : R := - Z / si_beta0 E0 meV.
Definition fr_delta (PX PY PZ E0 meV mc : R) : R :=
  (fr_gamma PX PY PZ mc - si_gamma0 E0 meV) / (si_beta0 E0 meV * si_gamma0 E0 meV).

(** region where to_xyz is defined: reference and particle energy above the rest energy and a real longitudinal momentum *)
Definition si_phys (px py delta E0 meV mkg c : R) : Prop :=
  0 < meV /\ 0 < mkg /\ 0 < c /\ meV < E0 /\ 1 <= si_gamma delta E0 meV /\
  (to_px px E0 meV mkg c)² + (to_px py E0 meV mkg c)² <= (si_mom delta E0 meV mkg c)².

(** ParticleBeam.energies on a VECTORISED beam: `self.p * self.p0c + self.energy` with p of shape (B, n) and
    p0c, energy of shape (B,).  Torch aligns trailing dimensions, i.e. index i of the PARTICLE axis is paired with
    entry i of the BATCH axis (requires n = B or B = 1, otherwise torch raises). *)
Fixpoint zip3 (f : R -> R -> R -> R) (a b d : list R) : list R :=
  match a, b, d with x :: a', y :: b', z :: d' => f x y z :: zip3 f a' b' d' | _, _, _ => [] end.
Definition energies_coded (ps : list (list R)) (p0c E : list R) : list (list R) :=
  map (fun row => zip3 (fun p q e => p * q + e) row p0c E) ps.
Fixpoint energies_spec (ps : list (list R)) (p0c E : list R) : list (list R) :=
  match ps, p0c, E with
  | row :: ps', q :: p0c', e :: E' => map (fun p => p * q + e) row :: energies_spec ps' p0c' E'
  | _, _, _ => []
  end.
