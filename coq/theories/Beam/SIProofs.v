(** Proofs about reference quantities, per-particle energies/momenta and the SI conversions (model: SI.v). *)
From Coq Require Import Reals Lra List.
From Cheetah Require Import Base.Mat Optics.Maps Bmadx.Coords Bmadx.CoordsProofs Beam.SI.
Import ListNotations.
Open Scope R_scope.

(* ---------- reference quantities *)
Lemma gamma0_gt1 E0 meV : 0 < meV -> meV < E0 -> 1 < si_gamma0 E0 meV.
Proof.
  intros Hm HE. unfold si_gamma0. apply (Rmult_lt_reg_r meV); [assumption|].
  replace (E0 / meV * meV) with E0 by (field; lra). lra.
Qed.

Lemma beta0_unfold E0 meV : 0 < meV -> meV < E0 ->
  si_beta0 E0 meV = sqrt (1 - 1 / (si_gamma0 E0 meV)²).
Proof.
  intros Hm HE. pose proof (gamma0_gt1 _ _ Hm HE). unfold si_beta0.
  destruct (Req_EM_T (si_gamma0 E0 meV) 0); [lra | reflexivity].
Qed.

Lemma inv_gsq_lt1 g : 1 < g -> 0 < 1 - 1 / g².
Proof.
  intros Hg. assert (1 < g²) by (unfold Rsqr; nra).
  assert (1 / g² < 1); [| lra].
  apply (Rmult_lt_reg_r (g²)); [lra|]. replace (1 / g² * g²) with 1 by (field; lra). lra.
Qed.

Lemma beta0_pos E0 meV : 0 < meV -> meV < E0 -> 0 < si_beta0 E0 meV.
Proof.
  intros Hm HE. rewrite beta0_unfold by assumption. apply sqrt_lt_R0, inv_gsq_lt1, gamma0_gt1; assumption.
Qed.

Lemma beta0_sqr E0 meV : 0 < meV -> meV < E0 -> (si_beta0 E0 meV)² = 1 - 1 / (si_gamma0 E0 meV)².
Proof.
  intros Hm HE. rewrite beta0_unfold by assumption. apply Rsqr_sqrt. left. apply inv_gsq_lt1, gamma0_gt1; assumption.
Qed.

(* the reference beta of Beam is the beta of the linear maps (Optics/Maps.v) *)
Lemma beta0_is_beta_of E0 : si_beta0 E0 m_e = beta_of E0.
Proof.
  unfold si_beta0, beta_of, igamma2_of, si_gamma0, gamma_of.
  destruct (Req_EM_T (E0 / m_e) 0); [rewrite Rminus_0_r, sqrt_1 |]; reflexivity.
Qed.

(** p0c of the Beam class is the reference momentum sqrt(E0^2 - m^2) that the Bmad-X conversion uses *)
Lemma p0c_def E0 meV : 0 < meV -> meV < E0 -> beam_p0c E0 meV = cb_p0c E0 meV /\ (beam_p0c E0 meV)² + meV² = E0².
Proof.
  intros Hm HE. pose proof (gamma0_gt1 _ _ Hm HE) as Hg. pose proof (beta0_pos _ _ Hm HE) as Hb.
  assert (S : (beam_p0c E0 meV)² = E0² - meV²).
  { unfold beam_p0c. rewrite !Rsqr_mult, beta0_sqr by assumption. unfold si_gamma0, Rsqr. field. lra. }
  split; [| rewrite S; ring].
  unfold cb_p0c. rewrite <- S. symmetry. apply sqrt_Rsqr.
  unfold beam_p0c. apply Rmult_le_pos; [apply Rmult_le_pos|]; lra.
Qed.

(** per-particle energies are E0 + delta*p0c (so delta = (E - E0)/p0c) and satisfy E^2 = (pc)^2 + m^2 *)
Lemma energies_def delta E0 meV : 0 < meV -> meV < E0 ->
  energies delta E0 meV = cb_energy delta E0 meV /\ delta = (energies delta E0 meV - E0) / beam_p0c E0 meV.
Proof.
  intros Hm HE. destruct (p0c_def _ _ Hm HE) as [P _]. pose proof (mom_pos _ _ Hm HE) as Hp.
  fold (cb_p0c E0 meV) in Hp. unfold energies, cb_energy. rewrite P. split; [ring | field; lra].
Qed.

Lemma energy_momentum delta E0 meV : meV <= Rabs (energies delta E0 meV) ->
  0 <= meV -> (energies delta E0 meV)² = (momenta delta E0 meV)² + meV² /\ 0 <= momenta delta E0 meV.
Proof.
  intros H Hm. unfold momenta. split; [| apply sqrt_pos].
  rewrite Rsqr_sqrt; [ring|]. rewrite (Rsqr_abs (energies delta E0 meV)).
  assert (meV² <= (Rabs (energies delta E0 meV))²) by (apply Rsqr_incr_1; try lra; apply Rle_trans with meV; assumption).
  lra.
Qed.

Lemma momenta_is_cb_p delta E0 meV : 0 < meV -> meV < E0 -> momenta delta E0 meV = cb_p delta E0 meV.
Proof. intros Hm HE. unfold momenta, cb_p. destruct (energies_def delta _ _ Hm HE) as [-> _]. reflexivity. Qed.

(* ---------- SI conversions *)
Section SIconv.
Variables (E0 meV mkg c : R).
Hypotheses (Hm : 0 < meV) (Hk : 0 < mkg) (Hc : 0 < c) (HE : meV < E0).

Lemma si_p0_pos : 0 < si_p0 E0 meV mkg c.
Proof.
  unfold si_p0. pose proof (gamma0_gt1 _ _ Hm HE). pose proof (beta0_pos _ _ Hm HE).
  apply Rmult_lt_0_compat; [apply Rmult_lt_0_compat; [apply Rmult_lt_0_compat|]|]; lra.
Qed.

(* reference momentum in SI units is p0c[eV] * (mkg c / meV) *)
Lemma si_p0_def : si_p0 E0 meV mkg c = beam_p0c E0 meV / meV * (mkg * c).
Proof. unfold si_p0, beam_p0c. field. lra. Qed.

(* the gamma used by to_xyz is the particle's total energy over the rest energy *)
Lemma si_gamma_def delta : si_gamma delta E0 meV = energies delta E0 meV / meV.
Proof. unfold si_gamma, energies, beam_p0c, si_gamma0. field. lra. Qed.

Lemma si_mom_sqr delta : 1 <= si_gamma delta E0 meV ->
  0 <= si_mom delta E0 meV mkg c /\ (si_mom delta E0 meV mkg c)² = ((si_gamma delta E0 meV)² - 1) * (mkg * c)².
Proof.
  intros Hg. set (g := si_gamma delta E0 meV) in *.
  assert (G : 1 <= g²) by (unfold Rsqr; nra).
  assert (B : 0 <= 1 - 1 / g²).
  { assert (1 / g² <= 1); [| lra]. apply (Rmult_le_reg_r (g²)); [lra|].
    replace (1 / g² * g²) with 1 by (field; lra). lra. }
  unfold si_mom, si_beta. fold g. split.
  - clearbody g. apply Rmult_le_pos; [apply Rmult_le_pos; [apply Rmult_le_pos|]|]; try lra. apply sqrt_pos.
  - rewrite !Rsqr_mult, Rsqr_sqrt by assumption. unfold Rsqr in *. field. nra.
Qed.

(** what to_xyz returns (documented definitions): px_SI = px*p0, z = -beta0*tau, |p|^2 = px^2+py^2+pz^2 = (gamma^2-1)(mc)^2 *)
Lemma si_def px py tau delta : si_phys px py delta E0 meV mkg c ->
  to_px px E0 meV mkg c = px * (beam_p0c E0 meV / meV * (mkg * c)) /\
  to_z tau E0 meV = - si_beta0 E0 meV * tau /\
  0 <= to_pz px py delta E0 meV mkg c /\
  (to_px px E0 meV mkg c)² + (to_px py E0 meV mkg c)² + (to_pz px py delta E0 meV mkg c)²
    = ((energies delta E0 meV / meV)² - 1) * (mkg * c)².
Proof.
  intros (_ & _ & _ & _ & Hg & Hl).
  destruct (si_mom_sqr delta Hg) as [_ S].
  repeat split.
  - unfold to_px. rewrite si_p0_def. reflexivity.
  - unfold to_z. ring.
  - apply sqrt_pos.
  - unfold to_pz. rewrite Rsqr_sqrt by lra. rewrite <- si_gamma_def, <- S. ring.
Qed.

(** Cheetah -> SI -> Cheetah returns the original coordinates *)
Lemma si_roundtrip px py tau delta : si_phys px py delta E0 meV mkg c ->
  let PX := to_px px E0 meV mkg c in let PY := to_px py E0 meV mkg c in
  let Z := to_z tau E0 meV in let PZ := to_pz px py delta E0 meV mkg c in
  fr_px PX E0 meV mkg c = px /\ fr_px PY E0 meV mkg c = py /\ fr_tau Z E0 meV = tau /\
  fr_delta PX PY PZ E0 meV (mkg * c) = delta.
Proof.
  intros (_ & _ & _ & _ & Hg & Hl). cbv zeta.
  pose proof si_p0_pos as Hp0. pose proof (beta0_pos _ _ Hm HE) as Hb. pose proof (gamma0_gt1 _ _ Hm HE) as Hg0.
  destruct (si_mom_sqr delta Hg) as [Mp S].
  repeat split.
  - unfold fr_px, to_px. field. lra.
  - unfold fr_px, to_px. field. lra.
  - unfold fr_tau, to_z. field. lra.
  - assert (P : fr_p (to_px px E0 meV mkg c) (to_px py E0 meV mkg c) (to_pz px py delta E0 meV mkg c)
                = si_mom delta E0 meV mkg c).
    { unfold fr_p, to_pz. rewrite Rsqr_sqrt by lra.
      replace (_ + _ + _) with ((si_mom delta E0 meV mkg c)²) by ring. apply sqrt_Rsqr; assumption. }
    assert (G : fr_gamma (to_px px E0 meV mkg c) (to_px py E0 meV mkg c) (to_pz px py delta E0 meV mkg c) (mkg * c)
                = si_gamma delta E0 meV).
    { unfold fr_gamma. rewrite P, Rsqr_div', S.
      replace (1 + _) with ((si_gamma delta E0 meV)²) by (unfold Rsqr; field; nra).
      apply sqrt_Rsqr; lra. }
    unfold fr_delta. rewrite G. unfold si_gamma. field. lra.
Qed.

(** F16 (C18 side): if the constant product used by from_xyz differs from the one used by to_xyz -- as it does in the code,
    where `electron_mass * speed_of_light` is rounded to float32 in from_xyz only -- delta is NOT restored, for every
    particle that moves (gamma > 1).  The round trip is exact iff the two constants agree. *)
Lemma si_roundtrip_refuted px py delta mc : si_phys px py delta E0 meV mkg c ->
  1 < si_gamma delta E0 meV -> 0 < mc -> mc <> mkg * c ->
  fr_delta (to_px px E0 meV mkg c) (to_px py E0 meV mkg c) (to_pz px py delta E0 meV mkg c) E0 meV mc <> delta.
Proof.
  intros (_ & _ & _ & _ & Hg & Hl) Hg1 Hmc Hne Heq.
  pose proof (beta0_pos _ _ Hm HE) as Hb. pose proof (gamma0_gt1 _ _ Hm HE) as Hg0.
  destruct (si_mom_sqr delta Hg) as [Mp S].
  set (PX := to_px px E0 meV mkg c) in *. set (PY := to_px py E0 meV mkg c) in *.
  set (PZ := to_pz px py delta E0 meV mkg c) in *.
  assert (P : (fr_p PX PY PZ)² = (si_mom delta E0 meV mkg c)²).
  { unfold fr_p. rewrite Rsqr_sqrt by (unfold Rsqr; nra). unfold PZ, to_pz. fold PX PY. rewrite Rsqr_sqrt by lra. ring. }
  assert (G : fr_gamma PX PY PZ mc = si_gamma delta E0 meV).
  { unfold si_gamma. rewrite <- Heq. unfold fr_delta. field. lra. }
  assert (G2 : (fr_gamma PX PY PZ mc)² = 1 + (fr_p PX PY PZ / mc)²).
  { unfold fr_gamma. apply Rsqr_sqrt. pose proof (Rle_0_sqr (fr_p PX PY PZ / mc)). lra. }
  rewrite G, Rsqr_div', P, S in G2.
  assert (K : 0 < (si_gamma delta E0 meV)² - 1) by (unfold Rsqr; nra).
  assert (Q : mc² = (mkg * c)²).
  { assert (mc² <> 0) by (unfold Rsqr; nra).
    assert (((si_gamma delta E0 meV)² - 1) * mc² = ((si_gamma delta E0 meV)² - 1) * (mkg * c)²).
    { replace ((si_gamma delta E0 meV)² - 1) with (((si_gamma delta E0 meV)² - 1) * (mkg * c)² / mc²) at 1 by lra.
      field. assumption. }
    apply (Rmult_eq_reg_l ((si_gamma delta E0 meV)² - 1)); lra. }
  apply Hne. apply Rsqr_inj; try lra. apply Rmult_le_pos; lra.
Qed.

(** SI -> Cheetah -> SI returns the original momenta when the longitudinal momentum is non-negative
    (to_xyz returns the non-negative root). *)
Lemma si_roundtrip_back PX PY Z PZ : 0 <= PZ ->
  let px := fr_px PX E0 meV mkg c in let py := fr_px PY E0 meV mkg c in
  let tau := fr_tau Z E0 meV in let delta := fr_delta PX PY PZ E0 meV (mkg * c) in
  to_px px E0 meV mkg c = PX /\ to_px py E0 meV mkg c = PY /\ to_z tau E0 meV = Z /\
  to_pz px py delta E0 meV mkg c = PZ.
Proof.
  intros HPZ. cbv zeta.
  pose proof si_p0_pos as Hp0. pose proof (beta0_pos _ _ Hm HE) as Hb. pose proof (gamma0_gt1 _ _ Hm HE) as Hg0.
  assert (X : to_px (fr_px PX E0 meV mkg c) E0 meV mkg c = PX) by (unfold fr_px, to_px; field; lra).
  assert (Y : to_px (fr_px PY E0 meV mkg c) E0 meV mkg c = PY) by (unfold fr_px, to_px; field; lra).
  repeat split; try assumption.
  - unfold fr_tau, to_z. field. lra.
  - set (p := fr_p PX PY PZ). set (g := fr_gamma PX PY PZ (mkg * c)).
    assert (Hp : 0 <= p) by apply sqrt_pos.
    assert (Hp2 : p² = PX² + PY² + PZ²) by (unfold p, fr_p; apply Rsqr_sqrt; unfold Rsqr; nra).
    assert (Q : 0 <= (p / (mkg * c))²) by apply Rle_0_sqr.
    assert (G2 : g² = 1 + (p / (mkg * c))²) by (unfold g, fr_gamma; fold p; apply Rsqr_sqrt; lra).
    assert (Gp : 1 <= g).
    { unfold g, fr_gamma. fold p. rewrite <- sqrt_1 at 1. apply sqrt_le_1_alt. lra. }
    assert (SG : si_gamma (fr_delta PX PY PZ E0 meV (mkg * c)) E0 meV = g).
    { unfold si_gamma, fr_delta. fold g. field. lra. }
    assert (SGe : 1 <= si_gamma (fr_delta PX PY PZ E0 meV (mkg * c)) E0 meV) by (rewrite SG; assumption).
    destruct (si_mom_sqr _ SGe) as [_ S].
    unfold to_pz. rewrite X, Y, S, SG, G2.
    replace (_ - _ - _) with (PZ²).
    + apply sqrt_Rsqr; assumption.
    + rewrite Rsqr_div'. replace (PZ²) with (p² - PX² - PY²) by (rewrite Hp2; ring). unfold Rsqr. field. nra.
Qed.

(* ... and does NOT for a backward-moving particle: the sign of pz is lost *)
Lemma si_roundtrip_back_negative_pz PX PY PZ : PZ < 0 ->
  to_pz (fr_px PX E0 meV mkg c) (fr_px PY E0 meV mkg c) (fr_delta PX PY PZ E0 meV (mkg * c)) E0 meV mkg c <> PZ.
Proof. intros H E. pose proof (sqrt_pos ((si_mom (fr_delta PX PY PZ E0 meV (mkg * c)) E0 meV mkg c)² -
  (to_px (fr_px PX E0 meV mkg c) E0 meV mkg c)² - (to_px (fr_px PY E0 meV mkg c) E0 meV mkg c)²)) as P.
  unfold to_pz in E. lra. Qed.

(** from_xyz: delta it assigns is (gamma - gamma0)/(beta0 gamma0) = (E - E0)/p0c with E = gamma * meV *)
Lemma fr_delta_def PX PY PZ :
  fr_delta PX PY PZ E0 meV (mkg * c) = (fr_gamma PX PY PZ (mkg * c) * meV - E0) / beam_p0c E0 meV /\
  (fr_gamma PX PY PZ (mkg * c))² = 1 + (PX² + PY² + PZ²) / (mkg * c)².
Proof.
  pose proof (beta0_pos _ _ Hm HE) as Hb. pose proof (gamma0_gt1 _ _ Hm HE) as Hg0. split.
  - unfold fr_delta, beam_p0c, si_gamma0 in *. field. repeat split; try lra.
  - unfold fr_gamma. rewrite Rsqr_sqrt by (pose proof (Rle_0_sqr (fr_p PX PY PZ / (mkg * c))); lra).
    rewrite Rsqr_div'. unfold fr_p. rewrite Rsqr_sqrt by (unfold Rsqr; nra). reflexivity.
Qed.
End SIconv.

(** F17: ParticleBeam.energies on a vectorised beam pairs particle i with batch entry i. *)
Lemma energies_vectorised_refuted :
  exists ps p0c E, energies_coded ps p0c E <> energies_spec ps p0c E.
Proof.
  exists [[1; 1]; [1; 1]], [1; 2], [10; 20]. unfold energies_coded, energies_spec, zip3, map.
  intro H. inversion H. lra.
Qed.

(* with a single setting (batch of one, one particle per row entry... ) the coded broadcast is the specified one *)
Lemma energies_coded_single row q e :
  energies_spec [row] [q] [e] = [map (fun p => p * q + e) row].
Proof. reflexivity. Qed.
