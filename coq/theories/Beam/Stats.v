(** Model of cheetah/utils/statistics.py (unbiased weighted variance / covariance) and of the
    survival-weighted statistics of cheetah/particles/particle_beam.py (mu_*, sigma_*^2, sigma_xpx,
    total_charge, num_particles_survived), over Q, formula by formula as coded.  [x / 0 = 0] in Coq
    whereas torch yields nan/inf: theorems are stated under the definedness guard (>= 2 survivors).
    Nothing is proved here -- see StatsProofs.v. *)
From Coq Require Import List Bool QArith.
Import ListNotations.
Open Scope Q_scope.

Fixpoint qsum (l : list Q) : Q := match l with [] => 0 | x :: r => x + qsum r end.
(* elementwise product of two tensors of the same shape *)
Fixpoint mul2 (l1 l2 : list Q) : list Q :=
  match l1, l2 with x :: r1, y :: r2 => x * y :: mul2 r1 r2 | _, _ => [] end.

(* torch.sum(input * weights) / torch.sum(weights)        (also mu_x ... mu_p) *)
Definition wmean (xs ws : list Q) : Q := qsum (mul2 xs ws) / qsum ws.
(* correction_factor = sum(weights) - sum(weights**2) / sum(weights) *)
Definition corr (ws : list Q) : Q := qsum ws - qsum (mul2 ws ws) / qsum ws.
(* sum(weights * (input1 - mean1) * (input2 - mean2)) / correction_factor *)
Definition wcov (xs ys ws : list Q) : Q :=
  let m1 := wmean xs ws in let m2 := wmean ys ws in
  qsum (mul2 (mul2 ws (map (fun x => x - m1) xs)) (map (fun y => y - m2) ys)) / corr ws.
(* sum(weights * (input - mean) ** 2) / correction_factor ; sigma_x = sqrt of this *)
Definition wvar (xs ws : list Q) : Q :=
  let m := wmean xs ws in
  qsum (mul2 ws (map (fun x => (x - m) * (x - m)) xs)) / corr ws.
(* total_charge = sum(particle_charges * survival_probabilities) *)
Definition total_charge (qs ss : list Q) : Q := qsum (mul2 qs ss).
(* num_particles_survived = sum(survival_probabilities) *)
Definition nsurvived (ss : list Q) : Q := qsum ss.

(* ---- the ordinary unbiased sample statistics of a list *)
Definition nQ {T} (l : list T) : Q := inject_Z (Z.of_nat (length l)).
Definition mean (xs : list Q) : Q := qsum xs / nQ xs.
Definition cov (xs ys : list Q) : Q :=
  qsum (mul2 (map (fun x => x - mean xs) xs) (map (fun y => y - mean ys) ys)) / (nQ xs - 1).
Definition var (xs : list Q) : Q :=
  qsum (map (fun x => (x - mean xs) * (x - mean xs)) xs) / (nQ xs - 1).

(* ---- the beam with the lost particles deleted *)
Definition alive (w : Q) : bool := negb (Qeq_bool w 0).
Fixpoint keep {T} (ts : list T) (ws : list Q) : list T :=
  match ts, ws with
  | t :: tr, w :: wr => if alive w then t :: keep tr wr else keep tr wr
  | _, _ => []
  end.

Definition weights01 (ws : list Q) : Prop := Forall (fun w => w == 0 \/ w == 1) ws.

(* ---- case checker used by the correspondence run: the float64 result [obs] of the real function
   is within [tol] of the exact rational value of the model *)
Definition Qabs' (x : Q) : Q := if Qle_bool 0 x then x else - x.
Definition close (obs model tol : Q) : bool := Qle_bool (Qabs' (obs - model)) tol.

Record stcase := mkst {
  st_x : list Q; st_y : list Q; st_q : list Q; st_w : list Q;
  st_tol_rel : Q;                  (* relative tolerance, 2^-40 *)
  st_sx : Q; st_sy : Q; st_sq : Q;   (* magnitudes max|x|, max|y|, max|q| : the scale of the absolute part *)
  o_mean_x : Q; o_mean_y : Q; o_var_x : Q; o_cov_xy : Q; o_sig_x : Q; o_charge : Q; o_nsurv : Q }.

Definition st_check (c : stcase) : bool :=
  let t := st_tol_rel c in
  let mx := wmean (st_x c) (st_w c) in
  let vx := wvar (st_x c) (st_w c) in
  let cxy := wcov (st_x c) (st_y c) (st_w c) in
  close (o_mean_x c) mx (t * st_sx c) &&
  close (o_mean_y c) (wmean (st_y c) (st_w c)) (t * st_sy c) &&
  close (o_var_x c) vx (t * (st_sx c * st_sx c)) &&
  close (o_cov_xy c) cxy (t * (st_sx c * st_sy c)) &&
  (* sigma_x = sqrt(variance): compare the square *)
  close (o_sig_x c * o_sig_x c) vx (t * (st_sx c * st_sx c)) && Qle_bool 0 (o_sig_x c) &&
  close (o_charge c) (total_charge (st_q c) (st_w c)) (t * st_sq c) &&
  close (o_nsurv c) (nsurvived (st_w c)) t.
