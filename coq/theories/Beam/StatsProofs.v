(** Proofs about the statistics model (Stats.v): with 0/1 survival the survival-weighted
    statistics are the ordinary unbiased statistics of the beam with the lost particles deleted. *)
From Coq Require Import List Bool QArith Lia.
From Cheetah Require Import Beam.Stats.
Import ListNotations.
Open Scope Q_scope.

Lemma alive_0 : forall w, w == 0 -> alive w = false.
Proof. intros w H. unfold alive. apply negb_false_iff, Qeq_bool_iff, H. Qed.
Lemma alive_1 : forall w, w == 1 -> alive w = true.
Proof.
  intros w H. unfold alive. apply negb_true_iff. destruct (Qeq_bool w 0) eqn:E; [|reflexivity].
  apply Qeq_bool_iff in E. rewrite H in E. discriminate.
Qed.

(* sum(w * g x * h y) over all = sum(g x * h y) over the survivors *)
Lemma wsum_keep2 : forall (g h : Q -> Q) ws xs ys, weights01 ws ->
  length xs = length ws -> length ys = length ws ->
  qsum (mul2 (mul2 ws (map g xs)) (map h ys)) == qsum (mul2 (map g (keep xs ws)) (map h (keep ys ws))).
Proof.
  intros g h ws. induction ws as [|w ws IH]; intros [|x xs] [|y ys] Hw Hx Hy; cbn in *; try discriminate; try reflexivity.
  inversion Hw as [|? ? Hw1 Hw2]; subst.
  assert (IH' := IH xs ys Hw2 ltac:(congruence) ltac:(congruence)).
  destruct Hw1 as [E|E].
  - rewrite (alive_0 _ E). rewrite IH', E. ring.
  - rewrite (alive_1 _ E). cbn. rewrite IH', E. ring.
Qed.

Lemma wsum_keep1 : forall (g : Q -> Q) ws xs, weights01 ws -> length xs = length ws ->
  qsum (mul2 ws (map g xs)) == qsum (map g (keep xs ws)).
Proof.
  intros g ws. induction ws as [|w ws IH]; intros [|x xs] Hw Hx; cbn in *; try discriminate; try reflexivity.
  inversion Hw as [|? ? Hw1 Hw2]; subst.
  assert (IH' := IH xs Hw2 ltac:(congruence)).
  destruct Hw1 as [E|E].
  - rewrite (alive_0 _ E). rewrite IH', E. ring.
  - rewrite (alive_1 _ E). cbn. rewrite IH', E. ring.
Qed.

Lemma xsum_keep : forall ws xs, weights01 ws -> length xs = length ws ->
  qsum (mul2 xs ws) == qsum (keep xs ws).
Proof.
  induction ws as [|w ws IH]; intros [|x xs] Hw Hx; cbn in *; try discriminate; try reflexivity.
  inversion Hw as [|? ? Hw1 Hw2]; subst.
  assert (IH' := IH xs Hw2 ltac:(congruence)).
  destruct Hw1 as [E|E].
  - rewrite (alive_0 _ E). rewrite IH', E. ring.
  - rewrite (alive_1 _ E). cbn. rewrite IH', E. ring.
Qed.

Lemma nQ_cons : forall T (t : T) l, nQ (t :: l) == 1 + nQ l.
Proof.
  intros. unfold nQ. cbn [length]. rewrite Nat2Z.inj_succ. unfold Z.succ.
  rewrite inject_Z_plus. ring.
Qed.

Lemma sumw_keep : forall T ws (xs : list T), weights01 ws -> length xs = length ws ->
  qsum ws == nQ (keep xs ws).
Proof.
  intros T. induction ws as [|w ws IH]; intros [|x xs] Hw Hx; cbn in *; try discriminate; try reflexivity.
  inversion Hw as [|? ? Hw1 Hw2]; subst.
  assert (IH' := IH xs Hw2 ltac:(congruence)).
  destruct Hw1 as [E|E].
  - rewrite (alive_0 _ E). rewrite IH', E. ring.
  - rewrite (alive_1 _ E). rewrite nQ_cons, IH', E. ring.
Qed.

Lemma sumw2 : forall ws, weights01 ws -> qsum (mul2 ws ws) == qsum ws.
Proof.
  induction ws as [|w ws IH]; intros Hw; cbn; [reflexivity|].
  inversion Hw as [|? ? Hw1 Hw2]; subst. rewrite (IH Hw2).
  destruct Hw1 as [E|E]; rewrite E; ring.
Qed.

Lemma length_keep : forall T U ws (xs : list T) (ys : list U), length xs = length ws -> length ys = length ws ->
  length (keep xs ws) = length (keep ys ws).
Proof.
  intros T U. induction ws as [|w ws IH]; intros [|x xs] [|y ys] Hx Hy; cbn in *; try discriminate; try reflexivity.
  destruct (alive w); cbn; [f_equal|]; apply IH; congruence.
Qed.

Lemma nQ_keep : forall T U ws (xs : list T) (ys : list U), length xs = length ws -> length ys = length ws ->
  nQ (keep xs ws) = nQ (keep ys ws).
Proof. intros. unfold nQ. rewrite (length_keep T U ws xs ys) by assumption. reflexivity. Qed.

(* sums of products of centred values respect == of the centres *)
Lemma csum_ext : forall (l1 l2 : list Q) a a' b b', a == a' -> b == b' ->
  qsum (mul2 (map (fun x => x - a) l1) (map (fun y => y - b) l2)) ==
  qsum (mul2 (map (fun x => x - a') l1) (map (fun y => y - b') l2)).
Proof.
  induction l1 as [|x l1 IH]; intros [|y l2] a a' b b' Ha Hb; cbn; try reflexivity.
  rewrite (IH l2 a a' b b' Ha Hb), Ha, Hb. reflexivity.
Qed.

Lemma vsum_ext : forall (l : list Q) a a', a == a' ->
  qsum (map (fun x => (x - a) * (x - a)) l) == qsum (map (fun x => (x - a') * (x - a')) l).
Proof.
  induction l as [|x l IH]; intros a a' Ha; cbn; [reflexivity|].
  rewrite (IH a a' Ha), Ha. reflexivity.
Qed.

Lemma nQ_pos : forall T (l : list T), (1 <= length l)%nat -> ~ nQ l == 0.
Proof.
  intros T l H E. unfold nQ in E. destruct l; [cbn in H; lia|].
  cbn [length] in E. rewrite Nat2Z.inj_succ in E. unfold Qeq in E. cbn in E. lia.
Qed.

Section Filtered.
Variables (xs ys ws : list Q).
Hypothesis Hw : weights01 ws.
Hypothesis Hx : length xs = length ws.
Hypothesis Hy : length ys = length ws.
(* definedness guard of the code: with fewer than two survivors torch divides by zero *)
Hypothesis Hn : (2 <= length (keep xs ws))%nat.

Theorem wmean_eq_filtered : wmean xs ws == mean (keep xs ws).
Proof.
  unfold wmean, mean. rewrite (xsum_keep ws xs Hw Hx), (sumw_keep Q ws xs Hw Hx). reflexivity.
Qed.

Lemma corr_eq : corr ws == nQ (keep xs ws) - 1.
Proof.
  unfold corr. rewrite (sumw2 ws Hw), (sumw_keep Q ws xs Hw Hx).
  field. apply nQ_pos. lia.
Qed.

Theorem wvar_eq_filtered : wvar xs ws == var (keep xs ws).
Proof.
  unfold wvar, var. rewrite corr_eq.
  rewrite (wsum_keep1 (fun x => (x - wmean xs ws) * (x - wmean xs ws)) ws xs Hw Hx).
  rewrite (vsum_ext (keep xs ws) _ _ wmean_eq_filtered). reflexivity.
Qed.

Lemma wmean_eq_filtered_y : wmean ys ws == mean (keep ys ws).
Proof.
  unfold wmean, mean. rewrite (xsum_keep ws ys Hw Hy), (sumw_keep Q ws ys Hw Hy). reflexivity.
Qed.

Theorem wcov_eq_filtered : wcov xs ys ws == cov (keep xs ws) (keep ys ws).
Proof.
  unfold wcov, cov. rewrite corr_eq.
  rewrite (wsum_keep2 (fun x => x - wmean xs ws) (fun y => y - wmean ys ws) ws xs ys Hw Hx Hy).
  rewrite (csum_ext (keep xs ws) (keep ys ws) _ _ _ _ wmean_eq_filtered wmean_eq_filtered_y). reflexivity.
Qed.
End Filtered.

(* all of them at once, as in the property statement *)
Theorem wstats_eq_filtered : forall xs ys ws, weights01 ws -> length xs = length ws -> length ys = length ws ->
  (2 <= length (keep xs ws))%nat ->
  wmean xs ws == mean (keep xs ws) /\ wvar xs ws == var (keep xs ws) /\
  wcov xs ys ws == cov (keep xs ws) (keep ys ws).
Proof.
  intros xs ys ws Hw Hx Hy Hn. split; [|split].
  - eapply wmean_eq_filtered; eassumption.
  - eapply wvar_eq_filtered; eassumption.
  - eapply wcov_eq_filtered; eassumption.
Qed.

(* the total charge counts lost particles as absent (no guard needed) *)
Theorem total_charge_filtered : forall qs ss, weights01 ss -> length qs = length ss ->
  total_charge qs ss == qsum (keep qs ss).
Proof. intros qs ss Hw Hl. unfold total_charge. apply xsum_keep; assumption. Qed.

Theorem nsurvived_filtered : forall ss, weights01 ss -> nsurvived ss == nQ (keep ss ss).
Proof. intros ss Hw. unfold nsurvived. apply sumw_keep; [assumption|reflexivity]. Qed.

(* all survival probabilities zero: no charge left *)
Theorem total_charge_all_lost : forall qs ss, Forall (fun s => s == 0) ss -> total_charge qs ss == 0.
Proof.
  unfold total_charge. induction qs as [|q qs IH]; intros [|s ss] H; cbn; try reflexivity.
  inversion H; subst. rewrite (IH ss) by assumption. rewrite H2. ring.
Qed.

(* fractional survival: the weighted variance of a constant coordinate is 0 and the mean is that constant *)
Theorem wmean_const : forall c ws, ~ qsum ws == 0 -> wmean (map (fun _ => c) ws) ws == c.
Proof.
  intros c ws H. unfold wmean.
  assert (E : qsum (mul2 (map (fun _ => c) ws) ws) == c * qsum ws).
  { clear H. induction ws as [|w ws IH]; cbn; [ring|]. rewrite IH. ring. }
  rewrite E. field. exact H.
Qed.
