(** Support for the C17 correspondence: Twiss parameters of a ParticleBeam from its (x, px, survival)
    triples through the weighted statistics, and tactics that unfold model values on concrete dyadic
    inputs into closed expressions for [interval] (clamps resolved by proved side conditions). *)
From Coq Require Import Reals List Lra.
From Interval Require Import Tactic.
From Cheetah Require Import Beam.Twiss Beam.WStats.
Import ListNotations.
Open Scope R_scope.

Definition dup_x (p : smp) : smp := (sx p, sx p, sw p).
Definition dup_y (p : smp) : smp := (sy p, sy p, sw p).
(* ParticleBeam: sigma_x = wstd(x), sigma_px = wstd(px), sigma_xpx = wcov(x, px); l = [(x, px, survival)] *)
Definition pb_sigx (l : list smp) : R := wstd (map dup_x l).
Definition pb_sigpx (l : list smp) : R := wstd (map dup_y l).
Definition pb_emittance tiny (l : list smp) : R := emittance tiny (pb_sigx l) (pb_sigpx l) (wcov l).
Definition pb_beta tiny (l : list smp) : R := tbeta tiny (pb_sigx l) (pb_sigpx l) (wcov l).
Definition pb_alpha tiny (l : list smp) : R := talpha tiny (pb_sigx l) (pb_sigpx l) (wcov l).

Ltac tw_unfold_stats :=
  unfold pb_beta, pb_alpha, pb_emittance, pb_sigx, pb_sigpx;
  unfold tbeta, talpha, tgamma, emittance, emit_D;
  unfold wstd, wvar, wcov, wcorr, wmean_x, wmean_y, wtot, sumf;
  cbn [map fold_right dup_x dup_y sx sy sw fst snd].
Ltac tw_clamp := repeat (rewrite Rmax_left by (unfold tiny64, tiny32; interval with (i_prec 80))).
Ltac tw_part := tw_unfold_stats; tw_clamp.
Ltac tw_stat := unfold wstd, wvar, wcov, wcorr, wmean_x, wmean_y, wtot, sumf; cbn [map fold_right sx sy sw fst snd].
Ltac tw_param :=
  unfold pbeta, palpha, pgamma, pemittance, tbeta, talpha, tgamma, emittance, emit_D, psigma;
  rewrite ?(fun x => Rmax_left x sig_clamp) by (unfold sig_clamp; interval with (i_prec 80));
  repeat (rewrite (fun x => Rmax_left x sig_clamp) by (unfold sig_clamp; interval with (i_prec 80)));
  tw_clamp.
Ltac tw_ft := unfold ft_c00, ft_c01, ft_c11.
