(** Model of the Twiss getters of cheetah/particles/beam.py (emittance_x, beta_x, alpha_x, normalized
    emittance; the y plane is the same code with y,py), of ParameterBeam's sigma getters (clamped at
    1e-20) and of ParameterBeam.from_twiss / from_parameters (x-plane block).  Over R.  Definitions only.
    [tiny] is torch.finfo(dtype).tiny: 2^-1022 for float64, 2^-126 for float32. *)
From Coq Require Import Reals.
Open Scope R_scope.

Definition tiny64 : R := / 2 ^ 1022.
Definition tiny32 : R := / 2 ^ 126.
Definition sig_clamp : R := 1e-20.

Section Twiss.
Variable tiny : R.

(* Beam.emittance_x: sqrt(clamp_min(sigma_x^2 * sigma_px^2 - sigma_xpx^2, tiny)) *)
Definition emit_D (sx spx sxpx : R) : R := sx ^ 2 * spx ^ 2 - sxpx ^ 2.
Definition emittance (sx spx sxpx : R) : R := sqrt (Rmax (emit_D sx spx sxpx) tiny).
(* Beam.beta_x = sigma_x^2 / emittance_x ; alpha_x = - sigma_xpx / emittance_x ; gamma := sigma_px^2 / emittance *)
Definition tbeta (sx spx sxpx : R) : R := sx ^ 2 / emittance sx spx sxpx.
Definition talpha (sx spx sxpx : R) : R := - sxpx / emittance sx spx sxpx.
Definition tgamma (sx spx sxpx : R) : R := spx ^ 2 / emittance sx spx sxpx.
(* normalized_emittance_x = emittance * relativistic_beta * relativistic_gamma *)
Definition norm_emittance (sx spx sxpx rbeta rgamma : R) : R := emittance sx spx sxpx * rbeta * rgamma.

(* ParameterBeam.sigma_x = sqrt(clamp_min(cov[0,0], 1e-20)), sigma_xpx = cov[0,1] *)
Definition psigma (c : R) : R := sqrt (Rmax c sig_clamp).
Definition pemittance (c00 c01 c11 : R) : R := emittance (psigma c00) (psigma c11) c01.
Definition pbeta (c00 c01 c11 : R) : R := tbeta (psigma c00) (psigma c11) c01.
Definition palpha (c00 c01 c11 : R) : R := talpha (psigma c00) (psigma c11) c01.
Definition pgamma (c00 c01 c11 : R) : R := tgamma (psigma c00) (psigma c11) c01.

(* ParameterBeam.from_twiss -> from_parameters: sigma_x = sqrt(eps*beta), sigma_px = sqrt(eps*(1+alpha^2)/beta),
   cor_x = -eps*alpha; cov[0,0] = sigma_x^2, cov[0,1] = cor_x, cov[1,1] = sigma_px^2 *)
Definition ft_c00 (beta alpha eps : R) : R := (sqrt (eps * beta)) ^ 2.
Definition ft_c01 (beta alpha eps : R) : R := - eps * alpha.
Definition ft_c11 (beta alpha eps : R) : R := (sqrt (eps * (1 + alpha ^ 2) / beta)) ^ 2.

(* second moments of one plane after a 2x2 block [[a,b],[c,d]] (Element.track: tm cov tm^T) *)
Definition tr11 (a b s11 s12 s22 : R) : R := a * a * s11 + 2 * a * b * s12 + b * b * s22.
Definition tr12 (a b c d s11 s12 s22 : R) : R := a * c * s11 + (a * d + b * c) * s12 + b * d * s22.
Definition tr22 (c d s11 s12 s22 : R) : R := c * c * s11 + 2 * c * d * s12 + d * d * s22.
End Twiss.
