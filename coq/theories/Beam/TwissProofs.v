(** C17: consistency of the Twiss getters, from_twiss round trip, Twiss transport. *)
From Coq Require Import Reals Lra Lia.
From Cheetah Require Import Beam.Twiss.
Open Scope R_scope.

Lemma tiny64_pos : 0 < tiny64.
Proof. unfold tiny64. apply Rinv_0_lt_compat. apply pow_lt. lra. Qed.
Lemma tiny32_pos : 0 < tiny32.
Proof. unfold tiny32. apply Rinv_0_lt_compat. apply pow_lt. lra. Qed.

Lemma pow2_gt_0' x : x <> 0 -> 0 < x ^ 2.
Proof. intros H. pose proof (Rsqr_pos_lt x H) as P. unfold Rsqr in P. simpl. lra. Qed.

Section Proofs.
Variable tiny : R.
Hypothesis tiny_pos : 0 < tiny.

Lemma emittance_pos sx spx sxpx : 0 < emittance tiny sx spx sxpx.
Proof. unfold emittance. apply sqrt_lt_R0. pose proof (Rmax_r (emit_D sx spx sxpx) tiny). lra. Qed.

(* emittance >= 0 for every beam (clamped or not) *)
Theorem emit_nonneg sx spx sxpx : 0 <= emittance tiny sx spx sxpx.
Proof. left. apply emittance_pos. Qed.

Lemma emittance_sq_nondeg sx spx sxpx : tiny <= emit_D sx spx sxpx ->
  emittance tiny sx spx sxpx ^ 2 = emit_D sx spx sxpx.
Proof.
  intros H. unfold emittance. rewrite Rmax_left by lra. simpl. rewrite Rmult_1_r. apply sqrt_sqrt. lra.
Qed.
Lemma emittance_sq_clamped sx spx sxpx : emit_D sx spx sxpx <= tiny -> emittance tiny sx spx sxpx ^ 2 = tiny.
Proof.
  intros H. unfold emittance. rewrite Rmax_right by lra. simpl. rewrite Rmult_1_r. apply sqrt_sqrt. lra.
Qed.

(* beta >= 0 always; beta > 0 as soon as sigma_x <> 0 (in particular for every non-degenerate beam) *)
Theorem beta_pos sx spx sxpx : tiny < emit_D sx spx sxpx -> 0 < tbeta tiny sx spx sxpx.
Proof.
  intros H. unfold tbeta. apply Rdiv_lt_0_compat; [|apply emittance_pos].
  unfold emit_D in H. assert (0 <= sxpx ^ 2) by (apply pow2_ge_0).
  assert (0 < sx ^ 2 * spx ^ 2) by lra.
  destruct (Req_dec sx 0) as [->|Hn]; [simpl in *; lra|]. apply pow2_gt_0'. exact Hn.
Qed.
Theorem beta_pos' sx spx sxpx : sx <> 0 -> 0 < tbeta tiny sx spx sxpx.
Proof. intros H. unfold tbeta. apply Rdiv_lt_0_compat; [apply pow2_gt_0', H|apply emittance_pos]. Qed.

(** beta * gamma - alpha^2 = 1 for every non-degenerate beam *)
Theorem twiss_identity sx spx sxpx : tiny <= emit_D sx spx sxpx ->
  tbeta tiny sx spx sxpx * tgamma tiny sx spx sxpx - talpha tiny sx spx sxpx ^ 2 = 1.
Proof.
  intros H. pose proof (emittance_pos sx spx sxpx) as He. pose proof (emittance_sq_nondeg sx spx sxpx H) as Hs.
  unfold tbeta, tgamma, talpha. set (e := emittance tiny sx spx sxpx) in *.
  replace (sx ^ 2 / e * (spx ^ 2 / e) - (- sxpx / e) ^ 2) with ((sx ^ 2 * spx ^ 2 - sxpx ^ 2) / e ^ 2) by (field; lra).
  rewrite Hs. unfold emit_D. field. unfold emit_D in H. lra.
Qed.

(** in the clamped regime the identity fails: beta*gamma - alpha^2 = D/tiny (finding F19: limit of the statement) *)
Theorem twiss_identity_clamped_refuted sx spx sxpx : emit_D sx spx sxpx < tiny ->
  tbeta tiny sx spx sxpx * tgamma tiny sx spx sxpx - talpha tiny sx spx sxpx ^ 2 = emit_D sx spx sxpx / tiny /\
  emit_D sx spx sxpx / tiny <> 1.
Proof.
  intros H. pose proof (emittance_pos sx spx sxpx) as He.
  pose proof (emittance_sq_clamped sx spx sxpx (Rlt_le _ _ H)) as Hs. split.
  - unfold tbeta, tgamma, talpha. set (e := emittance tiny sx spx sxpx) in *.
    replace (sx ^ 2 / e * (spx ^ 2 / e) - (- sxpx / e) ^ 2) with ((sx ^ 2 * spx ^ 2 - sxpx ^ 2) / e ^ 2) by (field; lra).
    rewrite Hs. reflexivity.
  - intros E. apply (Rmult_eq_compat_r tiny) in E. unfold Rdiv in E. rewrite Rmult_assoc, Rinv_l in E; lra.
Qed.
(* a concrete degenerate beam: a perfectly correlated one (D = 0) *)
Theorem twiss_identity_clamped_witness :
  tbeta tiny 1 1 1 * tgamma tiny 1 1 1 - talpha tiny 1 1 1 ^ 2 = 0.
Proof.
  assert (H : emit_D 1 1 1 < tiny) by (unfold emit_D; lra).
  destruct (twiss_identity_clamped_refuted 1 1 1 H) as [-> _]. unfold emit_D. field. lra.
Qed.

(** ParameterBeam: sigma getters clamp the variances at 1e-20 *)
Lemma psigma_sq c : psigma c ^ 2 = Rmax c sig_clamp.
Proof.
  unfold psigma. simpl. rewrite Rmult_1_r. apply sqrt_sqrt.
  pose proof (Rmax_r c sig_clamp). unfold sig_clamp in *. lra.
Qed.
Lemma psigma_sq_ok c : sig_clamp <= c -> psigma c ^ 2 = c.
Proof. intros H. rewrite psigma_sq. apply Rmax_left. lra. Qed.

Theorem twiss_identity_param c00 c01 c11 : sig_clamp <= c00 -> sig_clamp <= c11 -> tiny <= c00 * c11 - c01 ^ 2 ->
  pbeta tiny c00 c01 c11 * pgamma tiny c00 c01 c11 - palpha tiny c00 c01 c11 ^ 2 = 1 /\
  0 < pbeta tiny c00 c01 c11 /\ 0 <= pemittance tiny c00 c01 c11.
Proof.
  intros H0 H1 HD. unfold pbeta, pgamma, palpha, pemittance.
  assert (HD' : tiny <= emit_D (psigma c00) (psigma c11) c01).
  { unfold emit_D. rewrite !psigma_sq_ok by assumption. exact HD. }
  split; [apply twiss_identity, HD'|]. split; [|apply emit_nonneg].
  apply beta_pos'. intros E. pose proof (psigma_sq_ok c00 H0) as P. rewrite E in P. unfold sig_clamp in *. simpl in P. lra.
Qed.

(** from_twiss round trip, exact (ParameterBeam): the getters return the same beta, alpha, emittance *)
Theorem from_twiss_roundtrip_param beta alpha eps : 0 < beta -> 0 < eps ->
  sig_clamp <= eps * beta -> sig_clamp <= eps * (1 + alpha ^ 2) / beta -> tiny <= eps ^ 2 ->
  let c00 := ft_c00 beta alpha eps in let c01 := ft_c01 beta alpha eps in let c11 := ft_c11 beta alpha eps in
  pemittance tiny c00 c01 c11 = eps /\ pbeta tiny c00 c01 c11 = beta /\ palpha tiny c00 c01 c11 = alpha.
Proof.
  intros Hb He H0 H1 Ht c00 c01 c11.
  assert (E00 : c00 = eps * beta).
  { unfold c00, ft_c00. simpl. rewrite Rmult_1_r. apply sqrt_sqrt. apply Rmult_le_pos; lra. }
  assert (Hq : 0 <= eps * (1 + alpha ^ 2) / beta).
  { apply Rmult_le_pos; [apply Rmult_le_pos; [lra|pose proof (pow2_ge_0 alpha); lra]|left; apply Rinv_0_lt_compat; lra]. }
  assert (E11 : c11 = eps * (1 + alpha ^ 2) / beta).
  { unfold c11, ft_c11. simpl. rewrite !Rmult_1_r. apply sqrt_sqrt. simpl in Hq. rewrite Rmult_1_r in Hq. exact Hq. }
  assert (ED : emit_D (psigma c00) (psigma c11) c01 = eps ^ 2).
  { unfold emit_D. rewrite !psigma_sq_ok by (rewrite ?E00, ?E11; assumption). rewrite E00, E11. unfold c01, ft_c01. field. lra. }
  assert (Eem : pemittance tiny c00 c01 c11 = eps).
  { unfold pemittance, emittance. rewrite ED, Rmax_left by lra. replace (eps ^ 2) with (eps²) by (unfold Rsqr; ring).
    apply sqrt_Rsqr. lra. }
  split; [exact Eem|]. unfold pbeta, palpha, tbeta, talpha. fold (pemittance tiny c00 c01 c11). rewrite Eem.
  rewrite psigma_sq_ok by (rewrite E00; assumption). rewrite E00. unfold c01, ft_c01. split; field; lra.
Qed.

(** Twiss transport through a 2x2 block of determinant 1 (drifts, upright quadrupoles): emittance is
    invariant and (beta, alpha, gamma) transform by the standard 3x3 law *)
Section Transport.
Variables (a b c d : R).
Hypothesis det1 : a * d - b * c = 1.
Variables (s11 s12 s22 : R).
Hypothesis Hs11 : 0 <= s11. Hypothesis Hs22 : 0 <= s22.
Hypothesis nondeg : tiny <= s11 * s22 - s12 ^ 2.

Let s11' := tr11 a b s11 s12 s22.
Let s12' := tr12 a b c d s11 s12 s22.
Let s22' := tr22 c d s11 s12 s22.

Lemma det_invariant : s11' * s22' - s12' ^ 2 = s11 * s22 - s12 ^ 2.
Proof.
  unfold s11', s12', s22', tr11, tr12, tr22.
  replace (s11 * s22 - s12 ^ 2) with ((a * d - b * c) ^ 2 * (s11 * s22 - s12 ^ 2)) by (rewrite det1; ring). ring.
Qed.

(* the getters see sigma = sqrt(variance) *)
Lemma sqrt_pow2 x : 0 <= x -> sqrt x ^ 2 = x.
Proof. intros H. simpl. rewrite Rmult_1_r. apply sqrt_sqrt, H. Qed.

Lemma s11'_nonneg : 0 <= s11'.
Proof.
  (* a^2 s11 + 2ab s12 + b^2 s22 >= 0 because s12^2 <= s11 s22 *)
  unfold s11', tr11. assert (Hd : s12 ^ 2 <= s11 * s22) by lra.
  destruct (Req_dec s11 0) as [E0|N0].
  - rewrite E0 in *. assert (s12 = 0). { assert (s12 ^ 2 <= 0) by lra. pose proof (pow2_ge_0 s12). nra. } subst. nra.
  - assert (0 < s11) by lra.
    replace (a * a * s11 + 2 * a * b * s12 + b * b * s22)
      with (((a * s11 + b * s12) ^ 2 + b ^ 2 * (s11 * s22 - s12 ^ 2)) / s11) by (field; lra).
    apply Rmult_le_pos; [|left; apply Rinv_0_lt_compat; lra].
    pose proof (pow2_ge_0 (a * s11 + b * s12)). pose proof (pow2_ge_0 b). nra.
Qed.
Lemma s22'_nonneg : 0 <= s22'.
Proof.
  unfold s22', tr22. assert (Hd : s12 ^ 2 <= s11 * s22) by lra.
  destruct (Req_dec s11 0) as [E0|N0].
  - rewrite E0 in *. assert (s12 = 0). { assert (s12 ^ 2 <= 0) by lra. pose proof (pow2_ge_0 s12). nra. } subst. nra.
  - assert (0 < s11) by lra.
    replace (c * c * s11 + 2 * c * d * s12 + d * d * s22)
      with (((c * s11 + d * s12) ^ 2 + d ^ 2 * (s11 * s22 - s12 ^ 2)) / s11) by (field; lra).
    apply Rmult_le_pos; [|left; apply Rinv_0_lt_compat; lra].
    pose proof (pow2_ge_0 (c * s11 + d * s12)). pose proof (pow2_ge_0 d). nra.
Qed.

Let eps := emittance tiny (sqrt s11) (sqrt s22) s12.
Let eps' := emittance tiny (sqrt s11') (sqrt s22') s12'.

Lemma emittance_invariant : eps' = eps.
Proof.
  unfold eps, eps', emittance, emit_D. rewrite !sqrt_pow2 by (assumption || apply s11'_nonneg || apply s22'_nonneg).
  rewrite det_invariant. reflexivity.
Qed.

Theorem twiss_transport :
  let B := tbeta tiny (sqrt s11) (sqrt s22) s12 in
  let Al := talpha tiny (sqrt s11) (sqrt s22) s12 in
  let G := tgamma tiny (sqrt s11) (sqrt s22) s12 in
  tbeta tiny (sqrt s11') (sqrt s22') s12' = a * a * B - 2 * a * b * Al + b * b * G /\
  talpha tiny (sqrt s11') (sqrt s22') s12' = - a * c * B + (a * d + b * c) * Al - b * d * G /\
  tgamma tiny (sqrt s11') (sqrt s22') s12' = c * c * B - 2 * c * d * Al + d * d * G /\
  emittance tiny (sqrt s11') (sqrt s22') s12' = emittance tiny (sqrt s11) (sqrt s22) s12.
Proof.
  cbv zeta. unfold tbeta, talpha, tgamma.
  fold eps eps'. rewrite emittance_invariant.
  rewrite !sqrt_pow2 by (assumption || apply s11'_nonneg || apply s22'_nonneg).
  assert (He : 0 < eps) by apply emittance_pos.
  unfold s11', s12', s22', tr11, tr12, tr22. repeat split; field; lra.
Qed.
End Transport.

(* drift of length L: [[1, L], [0, 1]] *)
Theorem twiss_transport_drift L s11 s12 s22 : 0 <= s11 -> 0 <= s22 -> tiny <= s11 * s22 - s12 ^ 2 ->
  let B := tbeta tiny (sqrt s11) (sqrt s22) s12 in
  let Al := talpha tiny (sqrt s11) (sqrt s22) s12 in
  let G := tgamma tiny (sqrt s11) (sqrt s22) s12 in
  let s11' := tr11 1 L s11 s12 s22 in let s12' := tr12 1 L 0 1 s11 s12 s22 in let s22' := tr22 0 1 s11 s12 s22 in
  tbeta tiny (sqrt s11') (sqrt s22') s12' = B - 2 * L * Al + L * L * G /\
  talpha tiny (sqrt s11') (sqrt s22') s12' = Al - L * G /\
  tgamma tiny (sqrt s11') (sqrt s22') s12' = G.
Proof.
  intros H1 H2 H3. cbv zeta.
  assert (Hdet : 1 * 1 - L * 0 = 1) by ring.
  destruct (twiss_transport 1 L 0 1 Hdet s11 s12 s22 H1 H2 H3) as (E1 & E2 & E3 & _). cbv zeta in E1, E2, E3.
  rewrite E1, E2, E3. repeat split; ring.
Qed.

(* upright quadrupole block [[C, S], [-k S, C]] with C^2 + k S^2 = 1 (focusing, defocusing or k = 0) *)
Theorem twiss_transport_quad C S k s11 s12 s22 : C * C + k * S * S = 1 ->
  0 <= s11 -> 0 <= s22 -> tiny <= s11 * s22 - s12 ^ 2 ->
  let B := tbeta tiny (sqrt s11) (sqrt s22) s12 in
  let Al := talpha tiny (sqrt s11) (sqrt s22) s12 in
  let G := tgamma tiny (sqrt s11) (sqrt s22) s12 in
  let s11' := tr11 C S s11 s12 s22 in let s12' := tr12 C S (- k * S) C s11 s12 s22 in let s22' := tr22 (- k * S) C s11 s12 s22 in
  tbeta tiny (sqrt s11') (sqrt s22') s12' = C * C * B - 2 * C * S * Al + S * S * G /\
  talpha tiny (sqrt s11') (sqrt s22') s12' = k * C * S * B + (C * C - k * S * S) * Al - C * S * G /\
  tgamma tiny (sqrt s11') (sqrt s22') s12' = k * k * S * S * B + 2 * k * C * S * Al + C * C * G.
Proof.
  intros Hd H1 H2 H3. cbv zeta.
  assert (Hdet : C * C - S * (- k * S) = 1) by (rewrite <- Hd; ring).
  destruct (twiss_transport C S (- k * S) C Hdet s11 s12 s22 H1 H2 H3) as (E1 & E2 & E3 & _). cbv zeta in E1, E2, E3.
  rewrite E1, E2, E3. repeat split; ring.
Qed.
End Proofs.
