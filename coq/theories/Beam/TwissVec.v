(** C17 (round 4): Twiss transport in VECTORISED settings.  A vectorised tracking run through a drift / upright
    quadrupole is a batch of settings (strength, length, incoming second moments), and entry i of the outgoing
    beam is the incoming beam of entry i mapped by the 2x2 block of entry i.  [twiss_transport] (TwissProofs.v)
    is a statement per setting; here it is instantiated for every entry of a batch, and the textbook blocks of
    an upright quadrupole plane (focusing: cos/sin, defocusing: cosh/sinh, zero strength: drift) are shown to be
    instances (C^2 + k S^2 = 1), for ALL strengths in one batch (mixed signs, exact zeros). *)
From Coq Require Import Reals List Lra.
From Cheetah Require Import Beam.Twiss Beam.TwissProofs.
Import ListNotations.
Open Scope R_scope.

(* ---- the block of one plane of an upright quadrupole with focusing strength k and length L *)
Definition quad_C (k L : R) : R :=
  match Rlt_dec 0 k with
  | left _ => cos (sqrt k * L)
  | right _ => match Rlt_dec k 0 with left _ => cosh (sqrt (- k) * L) | right _ => 1 end
  end.
Definition quad_S (k L : R) : R :=
  match Rlt_dec 0 k with
  | left _ => sin (sqrt k * L) / sqrt k
  | right _ => match Rlt_dec k 0 with left _ => sinh (sqrt (- k) * L) / sqrt (- k) | right _ => L end
  end.

Lemma cosh2_sinh2 x : cosh x * cosh x - sinh x * sinh x = 1.
Proof.
  unfold cosh, sinh.
  assert (E : exp x * exp (- x) = 1) by (rewrite <- exp_plus, Rplus_opp_r; apply exp_0).
  replace ((exp x + exp (- x)) / 2 * ((exp x + exp (- x)) / 2) - (exp x - exp (- x)) / 2 * ((exp x - exp (- x)) / 2))
    with (exp x * exp (- x)) by field.
  exact E.
Qed.

Theorem quad_block_det k L : quad_C k L * quad_C k L + k * quad_S k L * quad_S k L = 1.
Proof.
  unfold quad_C, quad_S. destruct (Rlt_dec 0 k) as [Hp|Hp]; [|destruct (Rlt_dec k 0) as [Hn|Hn]].
  - assert (Hs : sqrt k <> 0) by (apply Rgt_not_eq, sqrt_lt_R0; exact Hp).
    assert (Hk : sqrt k * sqrt k = k) by (apply sqrt_sqrt; lra).
    set (s := sqrt k) in *. rewrite <- Hk.
    pose proof (sin2_cos2 (s * L)) as T. unfold Rsqr in T.
    replace (s * s * (sin (s * L) / s) * (sin (s * L) / s)) with (sin (s * L) * sin (s * L)) by (field; exact Hs).
    lra.
  - assert (Hm : 0 < - k) by lra.
    assert (Hs : sqrt (- k) <> 0) by (apply Rgt_not_eq, sqrt_lt_R0; exact Hm).
    assert (Hk : k = - (sqrt (- k) * sqrt (- k))) by (rewrite sqrt_sqrt; lra).
    set (s := sqrt (- k)) in *. rewrite Hk.
    pose proof (cosh2_sinh2 (s * L)) as T.
    replace (- (s * s) * (sinh (s * L) / s) * (sinh (s * L) / s)) with (- (sinh (s * L) * sinh (s * L))) by (field; exact Hs).
    lra.
  - assert (k = 0) by lra. subst k. ring.
Qed.

(* zero strength IS the drift block *)
Lemma quad_block_zero L : quad_C 0 L = 1 /\ quad_S 0 L = L.
Proof. unfold quad_C, quad_S. destruct (Rlt_dec 0 0); [lra|]. destruct (Rlt_dec 0 0); [lra|]. split; reflexivity. Qed.

(* ---- a batch of settings *)
Record setting := mkset { blk_a : R; blk_b : R; blk_c : R; blk_d : R; in11 : R; in12 : R; in22 : R }.
Definition out11 (s : setting) : R := tr11 (blk_a s) (blk_b s) (in11 s) (in12 s) (in22 s).
Definition out12 (s : setting) : R := tr12 (blk_a s) (blk_b s) (blk_c s) (blk_d s) (in11 s) (in12 s) (in22 s).
Definition out22 (s : setting) : R := tr22 (blk_c s) (blk_d s) (in11 s) (in12 s) (in22 s).
(* vectorised tracking: entry i of the result is setting i tracked on its own *)
Definition track_batch (l : list setting) : list (R * R * R) := map (fun s => (out11 s, out12 s, out22 s)) l.

Definition admissible (tiny : R) (s : setting) : Prop :=
  blk_a s * blk_d s - blk_b s * blk_c s = 1 /\ 0 <= in11 s /\ 0 <= in22 s /\ tiny <= in11 s * in22 s - in12 s ^ 2.

(* the matrix law of ONE entry: outgoing (beta, alpha, emittance) from the incoming ones and this entry's own block *)
Definition law_holds (tiny : R) (s : setting) (o : R * R * R) : Prop :=
  let '(o11, o12, o22) := o in
  let B := tbeta tiny (sqrt (in11 s)) (sqrt (in22 s)) (in12 s) in
  let Al := talpha tiny (sqrt (in11 s)) (sqrt (in22 s)) (in12 s) in
  let G := tgamma tiny (sqrt (in11 s)) (sqrt (in22 s)) (in12 s) in
  tbeta tiny (sqrt o11) (sqrt o22) o12 = blk_a s * blk_a s * B - 2 * blk_a s * blk_b s * Al + blk_b s * blk_b s * G /\
  talpha tiny (sqrt o11) (sqrt o22) o12 =
    - blk_a s * blk_c s * B + (blk_a s * blk_d s + blk_b s * blk_c s) * Al - blk_b s * blk_d s * G /\
  emittance tiny (sqrt o11) (sqrt o22) o12 = emittance tiny (sqrt (in11 s)) (sqrt (in22 s)) (in12 s).

Theorem twiss_transport_batch tiny : 0 < tiny -> forall l, Forall (admissible tiny) l ->
  Forall2 (law_holds tiny) l (track_batch l).
Proof.
  intros Ht l H. induction H as [|s r Hs Hr IH]; [constructor|].
  cbn [track_batch map]. constructor; [|exact IH].
  destruct Hs as (Hd & H1 & H2 & H3). unfold law_holds.
  destruct (twiss_transport tiny Ht _ _ _ _ Hd _ _ _ H1 H2 H3) as (E1 & E2 & _ & E4). cbv zeta in E1, E2, E4.
  unfold out11, out12, out22. repeat split; assumption.
Qed.

(* a quadrupole scan: one incoming beam, strengths k_i (any signs, zeros included) and lengths L_i *)
Definition quad_setting (s11 s12 s22 : R) (kL : R * R) : setting :=
  let '(k, L) := kL in mkset (quad_C k L) (quad_S k L) (- k * quad_S k L) (quad_C k L) s11 s12 s22.

Theorem quad_scan_transport tiny : 0 < tiny -> forall s11 s12 s22 (scan : list (R * R)),
  0 <= s11 -> 0 <= s22 -> tiny <= s11 * s22 - s12 ^ 2 ->
  Forall2 (law_holds tiny) (map (quad_setting s11 s12 s22) scan) (track_batch (map (quad_setting s11 s12 s22) scan)).
Proof.
  intros Ht s11 s12 s22 scan H1 H2 H3. apply twiss_transport_batch; [exact Ht|].
  apply Forall_forall. intros s Hs. apply in_map_iff in Hs. destruct Hs as ((k, L) & <- & _).
  unfold admissible, quad_setting; cbn. repeat split; try assumption.
  pose proof (quad_block_det k L). lra.
Qed.
