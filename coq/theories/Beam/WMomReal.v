(** C06 over the reals for survival-weighted moments: with all weights 1 they are the ordinary sample
    moments of Beam/Moments.v; for weights in [0,1] (survival probabilities) the unbiased weighted
    covariance is positive semi-definite. *)
From Coq Require Import Reals List Lra Lia.
From Cheetah Require Import Base.Mat Beam.Moments Beam.MomentsProofs Beam.MomReal Beam.WMoments Beam.WMomentsProofs Optics.Maps.
Import ListNotations.
Open Scope R_scope.

Notation rlsum := (@lsum R 0 Rplus).
Notation rwvsum := (@wvsum R 0 Rplus Rmult).
Notation rwmean := (@wmean R 0 Rplus Rmult Rinv).
Notation rwcorr := (@wcorr R 0 Rplus Rmult Rminus Rinv).
Notation rwscatter := (@wscatter R 0 Rplus Rmult Rminus).
Notation rwcov := (@wcov R 0 Rplus Rmult Rminus Rinv).
Notation rmsum := (@msum R 0 Rplus).
Notation router := (@outer R Rmult).

Definition ones (n : nat) : list R := repeat 1 n.

Lemma lsum_ones n : rlsum (ones n) = INR n.
Proof. induction n as [|k IH]; [reflexivity|]. unfold ones, lsum in *. cbn [repeat fold_right]. rewrite IH, S_INR. lra. Qed.
Lemma lsum_sq_ones n : rlsum (map (fun w => w * w) (ones n)) = INR n.
Proof. induction n as [|k IH]; [reflexivity|]. unfold ones, lsum in *. cbn [repeat map fold_right]. rewrite IH, S_INR. lra. Qed.

Lemma vscale_one (v : V7 R) : rvscale 1 v = v.
Proof. destruct v; unfold vscale, v7map; cbn. f_equal; lra. Qed.
Lemma mscale_one (m : M7 R) : @mscale R Rmult 1 m = m.
Proof. unfold mscale. destruct m as [r0 r1 r2 r3 r4 r5 r6]; unfold v7map; cbn. rewrite !vscale_one. reflexivity. Qed.

Lemma wvsum_ones xs : rwvsum (ones (length xs)) xs = rvsum xs.
Proof.
  induction xs as [|x r IH]; [reflexivity|].
  unfold wvsum in *. cbn [length ones repeat combine map vsum fold_right fst snd]. rewrite vscale_one. f_equal. exact IH.
Qed.

(** all survival probabilities 1: the weighted mean is the sample mean *)
Theorem wmean_ones xs : rwmean (ones (length xs)) xs = rmean xs.
Proof. unfold wmean, mean. rewrite wvsum_ones, lsum_ones, rof_nat_INR. reflexivity. Qed.

Lemma wcorr_ones n : (1 <= n)%nat -> rwcorr (ones n) = INR (n - 1).
Proof.
  intros Hn. unfold wcorr. rewrite lsum_ones, lsum_sq_ones.
  rewrite minus_INR by exact Hn. cbn [INR]. field. apply not_0_INR. lia.
Qed.

Lemma wscatter_ones xs c :
  rwscatter (ones (length xs)) xs c = rmsum (map (fun d => router d d) (map (fun x => rvsub x c) xs)).
Proof.
  induction xs as [|x r IH]; [reflexivity|].
  unfold wscatter in *. cbn [length ones repeat combine map msum fold_right]. f_equal; [|exact IH].
  unfold wouter. cbn [fst snd]. apply mscale_one.
Qed.

(** ... and the unbiased weighted covariance is the unbiased sample covariance *)
Theorem wcov_ones xs : (1 <= length xs)%nat -> rwcov (ones (length xs)) xs = rcov xs.
Proof.
  intros Hn. unfold wcov, cov, dev. rewrite wcorr_ones by exact Hn. rewrite wscatter_ones, wmean_ones, rof_nat_INR. reflexivity.
Qed.

(** positive semi-definiteness for non-negative weights (survival probabilities) *)
Definition nonneg (ws : list R) : Prop := Forall (fun w => 0 <= w) ws.

Lemma lsum_nonneg ws : nonneg ws -> 0 <= rlsum ws.
Proof. induction 1 as [|w r Hw Hr IH]; cbn [lsum fold_right]; [lra|]. unfold lsum in IH. lra. Qed.

(* sum w^2 <= (sum w)^2 *)
Lemma lsum_sq_le ws : nonneg ws -> rlsum (map (fun w => w * w) ws) <= rlsum ws * rlsum ws.
Proof.
  induction 1 as [|w r Hw Hr IH]; cbn [map lsum fold_right]; [lra|].
  pose proof (lsum_nonneg r Hr) as H0. unfold lsum in *. nra.
Qed.

Lemma wcorr_nonneg ws : nonneg ws -> 0 <= rwcorr ws.
Proof.
  intros H. pose proof (lsum_sq_le ws H) as HQ. pose proof (lsum_nonneg ws H) as HS. unfold wcorr.
  destruct (Req_dec (rlsum ws) 0) as [E|E].
  - rewrite E, Rinv_0. lra.
  - assert (Hp : 0 < rlsum ws) by lra.
    assert (Hi : 0 < / rlsum ws) by (apply Rinv_0_lt_compat; exact Hp).
    assert (rlsum (map (fun w => w * w) ws) * / rlsum ws <= rlsum ws * rlsum ws * / rlsum ws)
      by (apply Rmult_le_compat_r; lra).
    replace (rlsum ws * rlsum ws * / rlsum ws) with (rlsum ws) in H0 by (field; exact E). lra.
Qed.

Lemma qform_wscatter ws xs c v : nonneg ws -> 0 <= rqform (rwscatter ws xs c) v.
Proof.
  intros H. revert xs. induction H as [|w r Hw Hr IH]; intros xs.
  - unfold wscatter. cbn [combine map msum fold_right]. rewrite (qform_Z7 RRth). lra.
  - destruct xs as [|x xs].
    + unfold wscatter. cbn [combine map msum fold_right]. rewrite (qform_Z7 RRth). lra.
    + unfold wscatter in *. cbn [combine map msum fold_right]. rewrite (qform_madd RRth).
      unfold wouter at 1. cbn [fst snd]. rewrite (qform_mscale RRth), (qform_outer RRth).
      specialize (IH xs). pose proof (Rle_0_sqr (rdot (rvsub x c) v)) as Hs. unfold Rsqr in Hs.
      assert (0 <= w * (rdot (rvsub x c) v * rdot (rvsub x c) v)) by (apply Rmult_le_pos; assumption).
      unfold msum in IH. lra.
Qed.

Theorem wcov_psd ws xs v : nonneg ws -> 0 <= rqform (rwcov ws xs) v.
Proof.
  intros H. unfold wcov. rewrite (qform_mscale RRth).
  apply Rmult_le_pos; [|apply qform_wscatter; exact H].
  pose proof (wcorr_nonneg ws H) as Hc. destruct (Req_dec (rwcorr ws) 0) as [E|E].
  - rewrite E, Rinv_0. lra.
  - left. apply Rinv_0_lt_compat. lra.
Qed.

(** non-vacuity: three particles with survival 1, 1/2, 0: weights, correction factor and a weighted mean *)
Example wexample :
  let ws := [1; / 2; 0] in
  nonneg ws /\ rwcorr ws = 2 / 3 /\
  c0 (rwmean ws [mk7 3 0 0 0 0 0 1; mk7 6 0 0 0 0 0 1; mk7 100 0 0 0 0 0 1]) = 4.
Proof.
  cbn zeta. split; [repeat constructor; lra|]. split.
  - unfold wcorr. cbn [map lsum fold_right]. field.
  - unfold wmean, wvsum. cbn [combine map vsum fold_right fst snd lsum]. unfold vscale, vadd, v7map, v7map2, vzero. cbn [c0]. field.
Qed.
