(** Survival-weighted moments of a ParticleBeam (C06 for beams that have passed an aperture).

    cheetah/particles/particle_beam.py: every [mu_*] getter is  sum(x * w) / sum(w)  and every second
    moment is [unbiased_weighted_covariance(x, y, w)] of cheetah/utils/statistics.py

        sum(w (x - mx)(y - my)) / (sum(w) - sum(w^2) / sum(w))

    with w = survival_probabilities.  Beam/Moments.v models the case w = 1; here the weights are
    arbitrary.  Generic in the carrier (R for the theorems, Q for the executable correspondence).
    Definitions only: proofs are in WMomentsProofs.v. *)
From Coq Require Import List.
From Cheetah Require Import Base.Mat Beam.Moments.
Import ListNotations.

Set Implicit Arguments.

Section Ops.
Variable A : Type.
Variables (zero one : A) (add mul sub : A -> A -> A) (inv : A -> A).

Notation vsum := (vsum zero add).
Notation msum := (msum zero add).
Notation lsum := (lsum zero add).

(* sum_i w_i x_i over the particles that have a weight (torch broadcasting demands equal lengths) *)
Definition wvsum (ws : list A) (xs : list (V7 A)) : V7 A :=
  vsum (map (fun p => vscale mul (fst p) (snd p)) (combine ws xs)).
(* survival-weighted mean: sum(x * w) / sum(w) *)
Definition wmean (ws : list A) (xs : list (V7 A)) : V7 A := vscale mul (inv (lsum ws)) (wvsum ws xs).
(* correction_factor = sum(w) - sum(w^2) / sum(w) *)
Definition wcorr (ws : list A) : A :=
  sub (lsum ws) (mul (lsum (map (fun w => mul w w) ws)) (inv (lsum ws))).
(* sum_i w_i (x_i - m)(x_i - m)^T *)
Definition wouter (m : V7 A) (p : A * V7 A) : M7 A :=
  mscale mul (fst p) (outer mul (vsub sub (snd p) m) (vsub sub (snd p) m)).
Definition wscatter (ws : list A) (xs : list (V7 A)) (m : V7 A) : M7 A :=
  msum (map (wouter m) (combine ws xs)).
(* all 49 unbiased weighted covariances *)
Definition wcov (ws : list A) (xs : list (V7 A)) : M7 A :=
  mscale mul (inv (wcorr ws)) (wscatter ws xs (wmean ws xs)).

(* the ParameterBeam with the survival-weighted moments of a ParticleBeam *)
Definition wmoments (b : PartBeam A) : ParamBeam A :=
  mkParam (wmean (surv b) (parts b)) (wcov (surv b) (parts b)) (pE b) (total_charge zero add mul b).
End Ops.
