(** Proofs about Beam/WMoments.v: the survival-weighted mean and the unbiased weighted covariance of
    cheetah/utils/statistics.py commute with every 7x7 map, for ANY weights (C06 for beams whose
    survival probabilities are not all 1), hence for every Segment of linear leaves. *)
From Coq Require Import List Ring Lia.
From Cheetah Require Import Base.Mat Beam.Moments Beam.MomentsProofs Beam.WMoments Lattice.Track Lattice.TrackProofs.
Import ListNotations.

Set Implicit Arguments.

Section Ring.
Variable A : Type.
Variables (zero one : A) (add mul sub : A -> A -> A) (opp inv : A -> A).
Hypothesis Rth : ring_theory zero one add mul sub opp (@eq A).

Notation mvec := (mvec add mul).
Notation mmul := (mmul add mul).
Notation cong := (cong add mul).
Notation vadd := (vadd add).
Notation madd := (madd add).
Notation vscale := (vscale mul).
Notation mscale := (mscale mul).
Notation vsub := (vsub sub).
Notation vzero := (vzero zero).
Notation outer := (outer mul).
Notation Z7 := (Z7 zero).
Notation wvsum := (wvsum zero add mul).
Notation wmean := (wmean zero add mul inv).
Notation wcorr := (wcorr zero add mul sub inv).
Notation wouter := (wouter mul sub).
Notation wscatter := (wscatter zero add mul sub).
Notation wcov := (wcov zero add mul sub inv).
Notation wmoments := (wmoments zero add mul sub inv).

Lemma wvsum_map (m : M7 A) (ws : list A) (xs : list (V7 A)) :
  wvsum ws (map (mvec m) xs) = mvec m (wvsum ws xs).
Proof.
  revert xs. induction ws as [|w ws IH]; intros xs.
  - unfold WMoments.wvsum. cbn [combine map Moments.vsum fold_right]. symmetry. apply (mvec_vzero Rth).
  - destruct xs as [|x xs].
    + unfold WMoments.wvsum. cbn [combine map Moments.vsum fold_right]. symmetry. apply (mvec_vzero Rth).
    + unfold WMoments.wvsum in *. cbn [combine map Moments.vsum fold_right fst snd].
      rewrite (mvec_add Rth), (mvec_scale Rth). f_equal. apply IH.
Qed.

(** C06, weighted: the survival-weighted mean commutes with every 7x7 map, whatever the weights *)
Theorem wmean_map (m : M7 A) (ws : list A) (xs : list (V7 A)) :
  wmean ws (map (mvec m) xs) = mvec m (wmean ws xs).
Proof. unfold WMoments.wmean. rewrite wvsum_map, (mvec_scale Rth). reflexivity. Qed.

Lemma wouter_map (m : M7 A) (c : V7 A) (w : A) (x : V7 A) :
  wouter (mvec m c) (w, mvec m x) = cong m (wouter c (w, x)).
Proof.
  unfold WMoments.wouter. cbn [fst snd].
  rewrite <- (mvec_sub Rth), (cong_mscale Rth), (cong_outer Rth). reflexivity.
Qed.

Lemma wscatter_map (m : M7 A) (ws : list A) (xs : list (V7 A)) (c : V7 A) :
  wscatter ws (map (mvec m) xs) (mvec m c) = cong m (wscatter ws xs c).
Proof.
  revert xs. induction ws as [|w ws IH]; intros xs.
  - unfold WMoments.wscatter. cbn [combine map Moments.msum fold_right]. symmetry. apply (cong_Z7 Rth).
  - destruct xs as [|x xs].
    + unfold WMoments.wscatter. cbn [combine map Moments.msum fold_right]. symmetry. apply (cong_Z7 Rth).
    + unfold WMoments.wscatter in *. cbn [combine map Moments.msum fold_right].
      rewrite (cong_madd Rth), wouter_map. f_equal. apply IH.
Qed.

(** C06, weighted: the unbiased weighted covariance (all 49 entries) transforms by congruence *)
Theorem wcov_map (m : M7 A) (ws : list A) (xs : list (V7 A)) :
  wcov ws (map (mvec m) xs) = cong m (wcov ws xs).
Proof. unfold WMoments.wcov. rewrite wmean_map, wscatter_map, (cong_mscale Rth). reflexivity. Qed.

(** one linear element: the ParameterBeam of weighted moments tracks like the particles *)
Theorem wmoments_app (m : M7 A) (b : PartBeam A) :
  wmoments (app_part add mul m b) = app_param add mul m (wmoments b).
Proof.
  destruct b as [ps E q s]. unfold WMoments.wmoments, Moments.app_part, Moments.app_param, Moments.total_charge; cbn.
  rewrite wmean_map, wcov_map. reflexivity.
Qed.

(** symmetry of the weighted covariance *)
Lemma wouter_sym (c : V7 A) (p : A * V7 A) : transpose (wouter c p) = wouter c p.
Proof. unfold WMoments.wouter. rewrite transpose_mscale, (transpose_outer Rth). reflexivity. Qed.
Theorem wcov_sym (ws : list A) (xs : list (V7 A)) : transpose (wcov ws xs) = wcov ws xs.
Proof.
  unfold WMoments.wcov, WMoments.wscatter. rewrite transpose_mscale. f_equal.
  induction (combine ws xs) as [|p r IH]; cbn [map Moments.msum fold_right].
  - apply (v7_eq); reflexivity.
  - rewrite transpose_madd, wouter_sym. f_equal. exact IH.
Qed.

(** Segments of linear leaves, as in MomentsProofs.moments_segment *)
Section Segments.
Variable L : Type.
Variable skip : L -> bool.
Variable tmap : L -> A -> M7 A.
Variable ltrack_part : L -> PartBeam A -> PartBeam A.
Variable ltrack_param : L -> ParamBeam A -> ParamBeam A.
Hypothesis linear_part : forall l b, ltrack_part l b = app_part add mul (tmap l (pE b)) b.
Hypothesis linear_param : forall l b, ltrack_param l b = app_param add mul (tmap l (qE b)) b.

Lemma wmoments_track1 : forall (e : elem L) b,
  wmoments (track1 ltrack_part e b) = track1 ltrack_param e (wmoments b).
Proof.
  induction e as [l|n es IH] using elem_ind'; intros b; cbn [track1].
  - rewrite linear_part, linear_param, wmoments_app. reflexivity.
  - revert b. induction es as [|e r IHr]; intros b; cbn [fold_left]; [reflexivity|].
    inversion IH as [|? ? He Hr]; subst.
    rewrite (IHr Hr), He. reflexivity.
Qed.

Theorem wmoments_segment : forall (e : elem L) b,
  wmoments (track (I7 zero one) mmul (app_part add mul) (@pE A) skip tmap ltrack_part e b)
  = track (I7 zero one) mmul (app_param add mul) (@qE A) skip tmap ltrack_param e (wmoments b).
Proof.
  intros e b.
  rewrite (@track_eq_fold (M7 A) (PartBeam A) A L (I7 zero one) mmul (app_part add mul) (@pE A) skip tmap ltrack_part
             (app_part_one Rth) (app_part_mul Rth) (fun m b => eq_refl) (fun l b _ => linear_part l b)).
  rewrite (@track_eq_fold (M7 A) (ParamBeam A) A L (I7 zero one) mmul (app_param add mul) (@qE A) skip tmap ltrack_param
             (app_param_one Rth) (app_param_mul Rth) (fun m b => eq_refl) (fun l b _ => linear_param l b)).
  apply wmoments_track1.
Qed.
End Segments.

End Ring.
