(** Model of cheetah/utils/statistics.py (unbiased weighted covariance / variance / std) and of the
    survival-weighted mean getters of ParticleBeam.  A sample is a triple (x, y, w); over R. *)
From Coq Require Import Reals List.
Import ListNotations.
Open Scope R_scope.

Definition smp := (R * R * R)%type.
Definition sx (p : smp) : R := fst (fst p).
Definition sy (p : smp) : R := snd (fst p).
Definition sw (p : smp) : R := snd p.

Definition sumf (f : smp -> R) (l : list smp) : R := fold_right (fun p acc => f p + acc) 0 l.

Definition wtot (l : list smp) : R := sumf sw l.                               (* torch.sum(weights) *)
Definition wmean_x (l : list smp) : R := sumf (fun p => sx p * sw p) l / wtot l. (* sum(x*w)/sum(w) *)
Definition wmean_y (l : list smp) : R := sumf (fun p => sy p * sw p) l / wtot l.
(* correction_factor = sum(w) - sum(w^2)/sum(w) *)
Definition wcorr (l : list smp) : R := wtot l - sumf (fun p => sw p ^ 2) l / wtot l.
(* unbiased_weighted_covariance *)
Definition wcov (l : list smp) : R :=
  sumf (fun p => sw p * (sx p - wmean_x l) * (sy p - wmean_y l)) l / wcorr l.
(* unbiased_weighted_variance (of the x component) and std *)
Definition wvar (l : list smp) : R := sumf (fun p => sw p * (sx p - wmean_x l) ^ 2) l / wcorr l.
Definition wstd (l : list smp) : R := sqrt (wvar l).

(* coordinate changes *)
Definition shift_x (a : R) (p : smp) : smp := (sx p + a, sy p, sw p).
Definition scale_x (k : R) (p : smp) : smp := (k * sx p, sy p, sw p).
Definition ones (l : list smp) : Prop := Forall (fun p => sw p = 1) l.
