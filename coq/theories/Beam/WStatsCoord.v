(** Survival-weighted statistics of a ParticleBeam, coordinate by coordinate (appended for C17, round 4).
    A macro-particle is its six phase-space coordinates (index 0..5 = x, px, y, py, tau, p) and its survival
    probability.  mu_i / sigma_i / cov_ij are the getters mu_x .. mu_p, sigma_x .. sigma_p, sigma_xpx (0,1),
    sigma_ypy (2,3) of cheetah/particles/particle_beam.py: the weighted statistics of Beam/WStats.v applied
    to the pair of columns (i, j).  Definitions only -- proofs in WStatsCoordProofs.v. *)
From Coq Require Import Reals List Arith.
From Cheetah Require Import Beam.WStats.
Import ListNotations.
Open Scope R_scope.

Definition part6 := ((nat -> R) * R)%type.
Definition coord (i : nat) (p : part6) : R := fst p i.
Definition pw (p : part6) : R := snd p.

Definition cols (i j : nat) (p : part6) : smp := (coord i p, coord j p, pw p).
Definition mu (i : nat) (l : list part6) : R := wmean_x (map (cols i i) l).
Definition sigma (i : nat) (l : list part6) : R := wstd (map (cols i i) l).
Definition variance (i : nat) (l : list part6) : R := wvar (map (cols i i) l).
Definition cov (i j : nat) (l : list part6) : R := wcov (map (cols i j) l).
Definition wsum (l : list part6) : R := wtot (map (cols 0 0) l).   (* sum of the survival probabilities *)

(* coordinate changes of ONE coordinate *)
Definition set_coord (i : nat) (f : R -> R) (p : part6) : part6 :=
  (fun k => if Nat.eqb k i then f (fst p k) else fst p k, snd p).
Definition shift_coord (i : nat) (a : R) : part6 -> part6 := set_coord i (fun v => v + a).
Definition scale_coord (i : nat) (k : R) : part6 -> part6 := set_coord i (fun v => k * v).

(* a particle with survival probability exactly 0 is lost *)
Definition alive (p : part6) : bool := if Req_EM_T (pw p) 0 then false else true.
Definition alive_s (p : smp) : bool := if Req_EM_T (sw p) 0 then false else true.
