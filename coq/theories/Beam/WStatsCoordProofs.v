(** C17 (round 4): the statistics clauses for EVERY coordinate of a ParticleBeam with survival probabilities:
    instantiations of wstats_shift / _scale / _perm / _ones of WStatsProofs.v per coordinate, the symmetry of
    the covariance, and "lost particles are absent" (weights exactly 0 can be deleted), over R. *)
From Coq Require Import Reals List Lra Permutation Arith.
From Cheetah Require Import Beam.WStats Beam.WStatsProofs Beam.WStatsCoord.
Import ListNotations.
Open Scope R_scope.

(* ---- the statistics of the x component depend on (sx, sw) only; all of them on (sx, sy, sw) *)
Lemma sumf_map_ext (F G : smp -> R) (f g : part6 -> smp) l :
  (forall p, F (f p) = G (g p)) -> sumf F (map f l) = sumf G (map g l).
Proof.
  intros H. induction l as [|p r IH]; [reflexivity|]. cbn [map]. rewrite !sumf_cons, H, IH. reflexivity.
Qed.

Section Ext.
Variables f g : part6 -> smp.
Hypothesis Hx : forall p, sx (f p) = sx (g p).
Hypothesis Hw : forall p, sw (f p) = sw (g p).

Lemma wtot_ext l : wtot (map f l) = wtot (map g l).
Proof. unfold wtot. apply sumf_map_ext. exact Hw. Qed.
Lemma wmean_x_ext l : wmean_x (map f l) = wmean_x (map g l).
Proof. unfold wmean_x. rewrite (wtot_ext l). f_equal. apply sumf_map_ext. intros p. rewrite Hx, Hw. reflexivity. Qed.
Lemma wcorr_ext l : wcorr (map f l) = wcorr (map g l).
Proof. unfold wcorr. rewrite (wtot_ext l). f_equal. f_equal. apply sumf_map_ext. intros p. rewrite Hw. reflexivity. Qed.
Lemma wvar_ext l : wvar (map f l) = wvar (map g l).
Proof.
  unfold wvar. rewrite (wcorr_ext l), (wmean_x_ext l). f_equal. apply sumf_map_ext. intros p. rewrite Hx, Hw. reflexivity.
Qed.
Lemma wstd_ext l : wstd (map f l) = wstd (map g l).
Proof. unfold wstd. rewrite wvar_ext. reflexivity. Qed.
End Ext.

(* the covariance is symmetric in its two columns *)
Definition swap (p : smp) : smp := (sy p, sx p, sw p).
Lemma wcov_swap l : wcov (map swap l) = wcov l.
Proof.
  assert (Ht : wtot (map swap l) = wtot l) by (unfold wtot; rewrite sumf_map; reflexivity).
  assert (Hc : wcorr (map swap l) = wcorr l) by (unfold wcorr; rewrite Ht, sumf_map; reflexivity).
  assert (Hx : wmean_x (map swap l) = wmean_y l) by (unfold wmean_x, wmean_y; rewrite Ht, sumf_map; reflexivity).
  assert (Hy : wmean_y (map swap l) = wmean_x l) by (unfold wmean_x, wmean_y; rewrite Ht, sumf_map; reflexivity).
  unfold wcov. rewrite Hc, Hx, Hy, sumf_map. f_equal. apply sumf_ext. intros p. unfold swap, sx, sy, sw; cbn. ring.
Qed.
Theorem cov_sym i j l : cov i j l = cov j i l.
Proof.
  unfold cov. rewrite <- (wcov_swap (map (cols j i) l)). rewrite map_map. reflexivity.
Qed.

(* ---- one coordinate changed: which columns see it *)
Lemma coord_set_same i f p : coord i (set_coord i f p) = f (coord i p).
Proof. unfold coord, set_coord; cbn. rewrite Nat.eqb_refl. reflexivity. Qed.
Lemma coord_set_other i j f p : j <> i -> coord j (set_coord i f p) = coord j p.
Proof. intros H. unfold coord, set_coord; cbn. apply Nat.eqb_neq in H. rewrite H. reflexivity. Qed.
Lemma pw_set i f p : pw (set_coord i f p) = pw p.
Proof. reflexivity. Qed.

Lemma wsum_cols i j l : wtot (map (cols i j) l) = wsum l.
Proof. unfold wsum, wtot. apply sumf_map_ext. reflexivity. Qed.

(** translation of coordinate i by a *)
Theorem stats_shift i a l : wsum l <> 0 ->
  let l' := map (shift_coord i a) l in
  mu i l' = mu i l + a /\ sigma i l' = sigma i l /\ variance i l' = variance i l /\
  (forall j, j <> i -> cov i j l' = cov i j l /\ cov j i l' = cov j i l /\
                       mu j l' = mu j l /\ sigma j l' = sigma j l /\
                       forall k, k <> i -> cov j k l' = cov j k l).
Proof.
  intros H l'. unfold l'.
  assert (Ht : wtot (map (cols i i) l) <> 0) by (rewrite wsum_cols; exact H).
  destruct (wstats_shift a _ Ht) as (Em & Ev & _ & Es).
  assert (X : forall p, sx (cols i i (shift_coord i a p)) = sx (shift_x a (cols i i p))).
  { intros p. unfold cols, shift_x, sx; cbn [fst snd]. unfold shift_coord. rewrite coord_set_same. reflexivity. }
  assert (W : forall p, sw (cols i i (shift_coord i a p)) = sw (shift_x a (cols i i p))) by reflexivity.
  split; [|split; [|split]].
  - unfold mu. rewrite map_map. rewrite (wmean_x_ext _ (fun p => shift_x a (cols i i p)) X W).
    rewrite <- (map_map (cols i i) (shift_x a)). exact Em.
  - unfold sigma. rewrite map_map. rewrite (wstd_ext _ (fun p => shift_x a (cols i i p)) X W).
    rewrite <- (map_map (cols i i) (shift_x a)). exact Es.
  - unfold variance. rewrite map_map. rewrite (wvar_ext _ (fun p => shift_x a (cols i i p)) X W).
    rewrite <- (map_map (cols i i) (shift_x a)). exact Ev.
  - intros j Hj.
    assert (Eij : cov i j (map (shift_coord i a) l) = cov i j l).
    { unfold cov. rewrite map_map.
      rewrite (map_ext (fun p => cols i j (shift_coord i a p)) (fun p => shift_x a (cols i j p))).
      - rewrite <- (map_map (cols i j) (shift_x a)).
        assert (Ht' : wtot (map (cols i j) l) <> 0) by (rewrite wsum_cols; exact H).
        destruct (wstats_shift a _ Ht') as (_ & _ & Ec & _). exact Ec.
      - intros p. unfold cols, shift_x, sx, sy, sw, shift_coord; cbn [fst snd].
        rewrite coord_set_same, (coord_set_other i j _ p Hj). reflexivity. }
    assert (Same : forall j k, j <> i -> k <> i -> map (cols j k) (map (shift_coord i a) l) = map (cols j k) l).
    { intros j0 k0 Hj0 Hk0. rewrite map_map. apply map_ext. intros p. unfold cols, shift_coord.
      rewrite (coord_set_other i j0 _ p Hj0), (coord_set_other i k0 _ p Hk0). reflexivity. }
    split; [exact Eij|]. split; [rewrite (cov_sym j i), (cov_sym j i l); exact Eij|].
    split; [unfold mu; rewrite (Same j j Hj Hj); reflexivity|].
    split; [unfold sigma; rewrite (Same j j Hj Hj); reflexivity|].
    intros k Hk. unfold cov. rewrite (Same j k Hj Hk). reflexivity.
Qed.

(** scaling of coordinate i by k *)
Theorem stats_scale i k l :
  let l' := map (scale_coord i k) l in
  mu i l' = k * mu i l /\ variance i l' = k ^ 2 * variance i l /\
  (0 <= variance i l -> sigma i l' = Rabs k * sigma i l) /\
  (forall j, j <> i -> cov i j l' = k * cov i j l /\ cov j i l' = k * cov j i l /\
                       mu j l' = mu j l /\ sigma j l' = sigma j l).
Proof.
  intros l'. unfold l'.
  destruct (wstats_scale k (map (cols i i) l)) as (Em & Ev & _ & Es).
  assert (X : forall p, sx (cols i i (scale_coord i k p)) = sx (scale_x k (cols i i p))).
  { intros p. unfold cols, scale_x, sx; cbn [fst snd]. unfold scale_coord. rewrite coord_set_same. reflexivity. }
  assert (W : forall p, sw (cols i i (scale_coord i k p)) = sw (scale_x k (cols i i p))) by reflexivity.
  split; [|split; [|split]].
  - unfold mu. rewrite map_map. rewrite (wmean_x_ext _ (fun p => scale_x k (cols i i p)) X W).
    rewrite <- (map_map (cols i i) (scale_x k)). exact Em.
  - unfold variance. rewrite map_map. rewrite (wvar_ext _ (fun p => scale_x k (cols i i p)) X W).
    rewrite <- (map_map (cols i i) (scale_x k)). exact Ev.
  - intros Hpos. unfold sigma. rewrite map_map. rewrite (wstd_ext _ (fun p => scale_x k (cols i i p)) X W).
    rewrite <- (map_map (cols i i) (scale_x k)). apply Es. exact Hpos.
  - intros j Hj.
    assert (Eij : cov i j (map (scale_coord i k) l) = k * cov i j l).
    { unfold cov. rewrite map_map.
      rewrite (map_ext (fun p => cols i j (scale_coord i k p)) (fun p => scale_x k (cols i j p))).
      - rewrite <- (map_map (cols i j) (scale_x k)).
        destruct (wstats_scale k (map (cols i j) l)) as (_ & _ & Ec & _). exact Ec.
      - intros p. unfold cols, scale_x, sx, sy, sw, scale_coord; cbn [fst snd].
        rewrite coord_set_same, (coord_set_other i j _ p Hj). reflexivity. }
    assert (Same : map (cols j j) (map (scale_coord i k) l) = map (cols j j) l).
    { rewrite map_map. apply map_ext. intros p. unfold cols, scale_coord. rewrite (coord_set_other i j _ p Hj). reflexivity. }
    split; [exact Eij|]. split; [rewrite (cov_sym j i), (cov_sym j i l); exact Eij|].
    split; [unfold mu; rewrite Same; reflexivity | unfold sigma; rewrite Same; reflexivity].
Qed.

(** reordering the particles (coordinates and survival probabilities together) *)
Theorem stats_perm l l' : Permutation l l' ->
  forall i j, mu i l = mu i l' /\ sigma i l = sigma i l' /\ cov i j l = cov i j l'.
Proof.
  intros P i j.
  destruct (wstats_perm _ _ (Permutation_map (cols i i) P)) as (Em & _ & _ & Es).
  destruct (wstats_perm _ _ (Permutation_map (cols i j) P)) as (_ & _ & Ec & _).
  repeat split; assumption.
Qed.

(** all particles survive: the ordinary unbiased sample statistics *)
Theorem stats_ones l : Forall (fun p => pw p = 1) l -> l <> [] ->
  let n := INR (length l) in
  forall i j,
  let mi := sumf (fun p => sx p) (map (cols i j) l) / n in
  let mj := sumf (fun p => sy p) (map (cols i j) l) / n in
  mu i l = mi /\
  cov i j l = sumf (fun p => (sx p - mi) * (sy p - mj)) (map (cols i j) l) / (n - 1).
Proof.
  intros H Hne n i j.
  assert (O : forall a b, ones (map (cols a b) l)).
  { intros a b. unfold ones. apply Forall_forall. intros q Hq. apply in_map_iff in Hq. destruct Hq as (p & <- & Hp).
    rewrite Forall_forall in H. exact (H p Hp). }
  assert (N : forall a b, map (cols a b) l <> []) by (intros a b E; apply map_eq_nil in E; contradiction).
  pose proof (wstats_ones _ (O i j) (N i j)) as R. cbv zeta in R. rewrite map_length in R.
  destruct R as (Rm & _ & Rc).
  split.
  - unfold mu. rewrite (wmean_x_ext (cols i i) (cols i j)) by reflexivity. exact Rm.
  - exact Rc.
Qed.

(** lost particles are absent: particles with survival probability exactly 0 can be deleted (all weights allowed otherwise) *)
Lemma sumf_filter F l : (forall p, sw p = 0 -> F p = 0) -> sumf F (filter alive_s l) = sumf F l.
Proof.
  intros H. induction l as [|p r IH]; [reflexivity|]. cbn [filter]. unfold alive_s at 1.
  destruct (Req_EM_T (sw p) 0) as [E|E].
  - rewrite sumf_cons, (H p E), IH. lra.
  - rewrite !sumf_cons, IH. reflexivity.
Qed.

Theorem wstats_lost_absent l :
  wtot (filter alive_s l) = wtot l /\ wmean_x (filter alive_s l) = wmean_x l /\ wmean_y (filter alive_s l) = wmean_y l /\
  wvar (filter alive_s l) = wvar l /\ wcov (filter alive_s l) = wcov l /\ wstd (filter alive_s l) = wstd l.
Proof.
  assert (Ht : wtot (filter alive_s l) = wtot l) by (apply sumf_filter; intros p E; exact E).
  assert (Hx : wmean_x (filter alive_s l) = wmean_x l).
  { unfold wmean_x. rewrite Ht. f_equal. apply sumf_filter. intros p E. rewrite E. ring. }
  assert (Hy : wmean_y (filter alive_s l) = wmean_y l).
  { unfold wmean_y. rewrite Ht. f_equal. apply sumf_filter. intros p E. rewrite E. ring. }
  assert (Hc : wcorr (filter alive_s l) = wcorr l).
  { unfold wcorr. rewrite Ht. f_equal. f_equal. apply sumf_filter. intros p E. rewrite E. ring. }
  assert (Hv : wvar (filter alive_s l) = wvar l).
  { unfold wvar. rewrite Hc, Hx. f_equal. apply sumf_filter. intros p E. rewrite E. ring. }
  repeat split; try assumption.
  - unfold wcov. rewrite Hc, Hx, Hy. f_equal. apply sumf_filter. intros p E. rewrite E. ring.
  - unfold wstd. rewrite Hv. reflexivity.
Qed.

Lemma filter_cols i j l : map (cols i j) (filter alive l) = filter alive_s (map (cols i j) l).
Proof.
  induction l as [|p r IH]; [reflexivity|]. cbn [filter map]. unfold alive at 1, alive_s at 1.
  change (sw (cols i j p)) with (pw p). destruct (Req_EM_T (pw p) 0); [exact IH | cbn [map]; rewrite IH; reflexivity].
Qed.

Theorem stats_lost_absent l : forall i j,
  mu i (filter alive l) = mu i l /\ sigma i (filter alive l) = sigma i l /\ cov i j (filter alive l) = cov i j l /\
  wsum (filter alive l) = wsum l.
Proof.
  intros i j. unfold mu, sigma, cov, wsum. rewrite !filter_cols.
  destruct (wstats_lost_absent (map (cols i i) l)) as (_ & Em & _ & _ & _ & Es).
  destruct (wstats_lost_absent (map (cols i j) l)) as (_ & _ & _ & _ & Ec & _).
  destruct (wstats_lost_absent (map (cols 0 0) l)) as (Et & _).
  repeat split; assumption.
Qed.
