(** C17: the weighted statistics are invariant under reordering, translate and scale with the
    coordinates, and reduce to the ordinary unbiased sample statistics when all weights are 1. *)
From Coq Require Import Reals List Lra Permutation.
From Cheetah Require Import Beam.WStats.
Import ListNotations.
Open Scope R_scope.

Lemma sumf_perm f l l' : Permutation l l' -> sumf f l = sumf f l'.
Proof. unfold sumf. induction 1; cbn [fold_right]; lra. Qed.
Lemma sumf_cons f p r : sumf f (p :: r) = f p + sumf f r.
Proof. reflexivity. Qed.
Lemma sumf_ext f g l : (forall p, f p = g p) -> sumf f l = sumf g l.
Proof. intros H. induction l as [|p r IH]; [reflexivity|]. rewrite !sumf_cons, H, IH. reflexivity. Qed.
Lemma sumf_plus f g l : sumf (fun p => f p + g p) l = sumf f l + sumf g l.
Proof. induction l as [|p r IH]; [cbn; lra|]. rewrite !sumf_cons, IH. lra. Qed.
Lemma sumf_scal k f l : sumf (fun p => k * f p) l = k * sumf f l.
Proof. induction l as [|p r IH]; [cbn; lra|]. rewrite !sumf_cons, IH. lra. Qed.
Lemma sumf_map f g l : sumf f (map g l) = sumf (fun p => f (g p)) l.
Proof. induction l as [|p r IH]; [reflexivity|]. cbn [map]. rewrite !sumf_cons, IH. reflexivity. Qed.

(** reordering the particles changes nothing *)
Theorem wstats_perm l l' : Permutation l l' ->
  wmean_x l = wmean_x l' /\ wvar l = wvar l' /\ wcov l = wcov l' /\ wstd l = wstd l'.
Proof.
  intros P.
  assert (Ht : wtot l = wtot l') by (apply sumf_perm, P).
  assert (Hx : wmean_x l = wmean_x l') by (unfold wmean_x; rewrite Ht, (sumf_perm _ _ _ P); reflexivity).
  assert (Hy : wmean_y l = wmean_y l') by (unfold wmean_y; rewrite Ht, (sumf_perm _ _ _ P); reflexivity).
  assert (Hc : wcorr l = wcorr l') by (unfold wcorr; rewrite Ht, (sumf_perm _ _ _ P); reflexivity).
  assert (Hv : wvar l = wvar l') by (unfold wvar; rewrite Hc, Hx, (sumf_perm _ _ _ P); reflexivity).
  repeat split; try assumption.
  - unfold wcov. rewrite Hc, Hx, Hy, (sumf_perm _ _ _ P). reflexivity.
  - unfold wstd. rewrite Hv. reflexivity.
Qed.

(** translation: x -> x + a (total weight non-zero) *)
Lemma wtot_shift a l : wtot (map (shift_x a) l) = wtot l.
Proof. unfold wtot. rewrite sumf_map. reflexivity. Qed.
Lemma wcorr_shift a l : wcorr (map (shift_x a) l) = wcorr l.
Proof. unfold wcorr. rewrite wtot_shift, sumf_map. reflexivity. Qed.
Lemma wmean_y_shift a l : wmean_y (map (shift_x a) l) = wmean_y l.
Proof. unfold wmean_y. rewrite wtot_shift, sumf_map. reflexivity. Qed.
Lemma wmean_x_shift a l : wtot l <> 0 -> wmean_x (map (shift_x a) l) = wmean_x l + a.
Proof.
  intros H. unfold wmean_x. rewrite wtot_shift, sumf_map.
  rewrite (sumf_ext _ (fun p => sx p * sw p + a * sw p)) by (intros p; unfold shift_x, sx, sw; cbn; ring).
  rewrite sumf_plus, sumf_scal. fold (wtot l). field. exact H.
Qed.
Theorem wstats_shift a l : wtot l <> 0 ->
  wmean_x (map (shift_x a) l) = wmean_x l + a /\ wvar (map (shift_x a) l) = wvar l /\
  wcov (map (shift_x a) l) = wcov l /\ wstd (map (shift_x a) l) = wstd l.
Proof.
  intros H. pose proof (wmean_x_shift a l H) as Hm.
  assert (Hv : wvar (map (shift_x a) l) = wvar l).
  { unfold wvar. rewrite wcorr_shift, sumf_map, Hm. f_equal. apply sumf_ext. intros p. unfold shift_x, sx, sw; cbn. ring. }
  repeat split; try assumption.
  - unfold wcov. rewrite wcorr_shift, sumf_map, Hm, wmean_y_shift. f_equal. apply sumf_ext. intros p.
    unfold shift_x, sx, sy, sw; cbn. ring.
  - unfold wstd. rewrite Hv. reflexivity.
Qed.

(** scaling: x -> k x *)
Lemma wtot_scale k l : wtot (map (scale_x k) l) = wtot l.
Proof. unfold wtot. rewrite sumf_map. reflexivity. Qed.
Lemma wcorr_scale k l : wcorr (map (scale_x k) l) = wcorr l.
Proof. unfold wcorr. rewrite wtot_scale, sumf_map. reflexivity. Qed.
Lemma wmean_y_scale k l : wmean_y (map (scale_x k) l) = wmean_y l.
Proof. unfold wmean_y. rewrite wtot_scale, sumf_map. reflexivity. Qed.
Lemma wmean_x_scale k l : wmean_x (map (scale_x k) l) = k * wmean_x l.
Proof.
  unfold wmean_x. rewrite wtot_scale, sumf_map.
  rewrite (sumf_ext _ (fun p => k * (sx p * sw p))) by (intros p; unfold scale_x, sx, sw; cbn; ring).
  rewrite sumf_scal. unfold Rdiv. ring.
Qed.
Theorem wstats_scale k l :
  wmean_x (map (scale_x k) l) = k * wmean_x l /\ wvar (map (scale_x k) l) = k ^ 2 * wvar l /\
  wcov (map (scale_x k) l) = k * wcov l /\ (0 <= wvar l -> wstd (map (scale_x k) l) = Rabs k * wstd l).
Proof.
  pose proof (wmean_x_scale k l) as Hm.
  assert (Hv : wvar (map (scale_x k) l) = k ^ 2 * wvar l).
  { unfold wvar. rewrite wcorr_scale, sumf_map, Hm.
    rewrite (sumf_ext _ (fun p => k ^ 2 * (sw p * (sx p - wmean_x l) ^ 2))) by (intros p; unfold scale_x, sx, sw; cbn; ring).
    rewrite sumf_scal. unfold Rdiv. ring. }
  repeat split; try assumption.
  - unfold wcov. rewrite wcorr_scale, sumf_map, Hm, wmean_y_scale.
    rewrite (sumf_ext _ (fun p => k * (sw p * (sx p - wmean_x l) * (sy p - wmean_y l))))
      by (intros p; unfold scale_x, sx, sy, sw; cbn; ring).
    rewrite sumf_scal. unfold Rdiv. ring.
  - intros Hpos. unfold wstd. rewrite Hv. rewrite sqrt_mult; [|apply pow2_ge_0|exact Hpos].
    f_equal. replace (k ^ 2) with (k²) by (unfold Rsqr; ring). apply sqrt_Rsqr_abs.
Qed.

(** all particles survive (weights 1): the ordinary unbiased sample statistics *)
Lemma sumf_ones_w l : ones l -> sumf sw l = INR (length l).
Proof.
  induction 1 as [|p r Hp Hr IH]; [reflexivity|]. cbn [length]. rewrite S_INR, sumf_cons, IH, Hp. lra.
Qed.
Lemma sumf_ones f g l : ones l -> (forall p, sw p = 1 -> f p = g p) -> sumf f l = sumf g l.
Proof.
  intros H E. induction H as [|p r Hp Hr IH]; [reflexivity|]. rewrite !sumf_cons, (E p Hp), IH. reflexivity.
Qed.
Theorem wstats_ones l : ones l -> l <> [] ->
  let n := INR (length l) in
  let mx := sumf sx l / n in let my := sumf sy l / n in
  wmean_x l = mx /\
  wvar l = sumf (fun p => (sx p - mx) ^ 2) l / (n - 1) /\
  wcov l = sumf (fun p => (sx p - mx) * (sy p - my)) l / (n - 1).
Proof.
  intros H Hne. cbv zeta.
  assert (Hn : INR (length l) <> 0) by (apply not_0_INR; destruct l; [congruence|discriminate]).
  assert (Ht : wtot l = INR (length l)) by (apply sumf_ones_w, H).
  assert (Hx : wmean_x l = sumf sx l / INR (length l)).
  { unfold wmean_x. rewrite Ht. f_equal. apply sumf_ones; [exact H|]. intros p Hp. rewrite Hp. ring. }
  assert (Hy : wmean_y l = sumf sy l / INR (length l)).
  { unfold wmean_y. rewrite Ht. f_equal. apply sumf_ones; [exact H|]. intros p Hp. rewrite Hp. ring. }
  assert (Hc : wcorr l = INR (length l) - 1).
  { unfold wcorr. rewrite Ht. rewrite (sumf_ones _ sw l H) by (intros p Hp; rewrite Hp; ring). fold (wtot l). rewrite Ht. field. exact Hn. }
  split; [exact Hx|]. split.
  - unfold wvar. rewrite Hc, Hx. f_equal. apply sumf_ones; [exact H|]. intros p Hp. rewrite Hp. ring.
  - unfold wcov. rewrite Hc, Hx, Hy. f_equal. apply sumf_ones; [exact H|]. intros p Hp. rewrite Hp. ring.
Qed.
