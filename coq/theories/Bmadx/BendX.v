(** Model of the Bmad-X dipole: cheetah/accelerator/dipole.py `Dipole._track_bmadx` (lines 210-282), `_bmadx_body` (284-379),
    `_bmadx_fringe_linear` (381-415), cheetah/utils/bmadx.py `sinc`, `cosc` (314-321), `offset_particle_set/unset` (modelled in
    Tdc.v as off_set/off_unset, called with zero offsets and the tilt), transcribed formula by formula over Coq's reals.
    Definitions only (proofs: BendXProofs.v, BendXGeom.v, BendXJac.v; correspondence tactic: BendXTac.v).

    Branches of the code and how they are modelled (each comes in a form with the branch given as data, [.._b], and in the
    form with the branch computed from the values as the code computes it):
      * `c1*(temp < pi/2) + c2*(temp >= pi/2)`  (mask by multiplication = if-then-else for finite c1, c2)   -> [bb_x2_b sel]
      * torch.sinc (value 1 at 0)                                                                          -> [bx_sinc_b zero]
      * torch.arctan2 (quadrant of (Lcu, Lcv))                                                             -> [atan2_b quadrant]
      * torch.arcsin                                                                                       -> Coq's [asin]
    Definedness (Coq's x/0 = 0 and sqrt of a negative = 0 are NOT the code's inf/nan): length <> 0, angle <> 0 (finding F8 of C09:
    the code returns NaN there), (1+pz)^2 - py^2 > 0, |px| < px_norm, cos(angle+phi1)^2 + gp*alpha >= 0, x2_t2 + x2_t3 <> 0 (c1 is
    evaluated for every particle), (Lcu, Lcv) <> (0,0); collected in [bb_defined]. *)
From Coq Require Import Reals ZArith.
From Cheetah Require Import Bmadx.Coords Bmadx.DriftX Bmadx.Tdc.
Open Scope R_scope.

(** bmadx.sinc(x) = torch.sinc(x/pi) = sin(x)/x, and 1 at x = 0;  bmadx.cosc(x) = -0.5*sinc(x/2)**2 *)
Definition is0 (x : R) : bool := if Req_EM_T x 0 then true else false.
Definition bx_sinc_b (zero : bool) (x : R) : R := if zero then 1 else sin x / x.
Definition bx_sinc (x : R) : R := bx_sinc_b (is0 x) x.
Definition bx_cosc (x : R) : R := - (1 / 2) * (bx_sinc (x / 2)) ^ 2.

(** torch.arctan2(y, x) (signed zeros are not modelled) *)
Inductive quadrant := Qright | Qleft_up | Qleft_down | Qaxis_up | Qaxis_down | Qorigin.
Definition quadrant_of (y x : R) : quadrant :=
  if Rlt_dec 0 x then Qright
  else if Rlt_dec x 0 then (if Rle_dec 0 y then Qleft_up else Qleft_down)
  else if Rlt_dec 0 y then Qaxis_up else if Rlt_dec y 0 then Qaxis_down else Qorigin.
Definition atan2_b (q : quadrant) (y x : R) : R :=
  match q with
  | Qright => atan (y / x) | Qleft_up => atan (y / x) + PI | Qleft_down => atan (y / x) - PI
  | Qaxis_up => PI / 2 | Qaxis_down => - (PI / 2) | Qorigin => 0
  end.
Definition atan2 (y x : R) : R := atan2_b (quadrant_of y x) y x.

(** Dipole._bmadx_fringe_linear(location, x, px, y, py) -> (px_f, py_f); [e], [fint], [gap] are the values the code selects
    for the location: entrance: _e1, fringe_integral, gap;  exit: _e2, fringe_integral_exit, gap_exit *)
Section Fringe.
Variables (L ang e fint gap : R).
Definition fr_g : R := ang / L.                                                    (* g = self.angle / self.length *)
Definition fr_hgap : R := 1 / 2 * gap.                                             (* h_gap = 0.5 * (gap | gap_exit) *)
Definition fr_hx : R := fr_g * tan e.                                              (* hx = g * tan(e) *)
Definition fr_hy : R := - fr_g * tan (e - 2 * fint * fr_hgap * fr_g * (1 + (sin e) ^ 2) / cos e).
Definition bendx_fringe (q : bpart) : bpart :=
  mkb (bx q) (bpx q + bx q * fr_hx) (by_ q) (bpy q + by_ q * fr_hy) (bz q) (bpz q).
End Fringe.

(** Dipole._bmadx_body(x, px, y, py, z, pz, p0c, mc2) *)
Section Body.
Variables (L ang : R).
Definition bb_g : R := ang / L.                                                    (* g = angle / length *)
Definition bb_n (py pz : R) : R := sqrt ((1 + pz) ^ 2 - py ^ 2).                   (* px_norm *)
Definition bb_phi1 (px py pz : R) : R := asin (px / bb_n py pz).                   (* phi1 = arcsin(px / px_norm) *)
Definition bb_gp (py pz : R) : R := bb_g / bb_n py pz.                             (* gp = g / px_norm *)
Definition bb_alpha (x px py pz : R) : R :=
  2 * (1 + bb_g * x) * sin (ang + bb_phi1 px py pz) * L * bx_sinc ang
  - bb_gp py pz * ((1 + bb_g * x) * L * bx_sinc ang) ^ 2.
Definition bb_t1 (x : R) : R := x * cos ang + L ^ 2 * bb_g * bx_cosc ang.           (* x2_t1 *)
Definition bb_t2 (x px py pz : R) : R :=
  sqrt ((cos (ang + bb_phi1 px py pz)) ^ 2 + bb_gp py pz * bb_alpha x px py pz).    (* x2_t2 *)
Definition bb_t3 (px py pz : R) : R := cos (ang + bb_phi1 px py pz).               (* x2_t3 *)
Definition bb_c1 (x px py pz : R) : R := bb_t1 x + bb_alpha x px py pz / (bb_t2 x px py pz + bb_t3 px py pz).
Definition bb_c2 (x px py pz : R) : R := bb_t1 x + (bb_t2 x px py pz - bb_t3 px py pz) / bb_gp py pz.
Definition bb_temp (px py pz : R) : R := Rabs (ang + bb_phi1 px py pz).
(* the mask (temp < pi/2) *)
Definition bb_sel (px py pz : R) : bool := if Rlt_dec (bb_temp px py pz) (PI / 2) then true else false.
Definition bb_x2_b (sel : bool) (x px py pz : R) : R := if sel then bb_c1 x px py pz else bb_c2 x px py pz.
Definition bb_x2 (x px py pz : R) : R := bb_x2_b (bb_sel px py pz) x px py pz.

(* everything after x2, as a function of x2 and of the branches of arctan2 and of sinc(theta_p/2) *)
Section After.
Variables (x2 : R) (x px py pz : R).
Definition bb_Lcu : R := x2 - L ^ 2 * bb_g * bx_cosc ang - x * cos ang.
Definition bb_Lcv : R := - L * bx_sinc ang - x * sin ang.
Definition bb_thp_b (qd : quadrant) : R := 2 * (ang + bb_phi1 px py pz - PI / 2 - atan2_b qd bb_Lcv bb_Lcu).
Definition bb_Lc : R := sqrt (bb_Lcu ^ 2 + bb_Lcv ^ 2).
Definition bb_Lp_b (qd : quadrant) (zero : bool) : R := bb_Lc / bx_sinc_b zero (bb_thp_b qd / 2).
Definition bb_pxf_b (qd : quadrant) : R := bb_n py pz * sin (ang + bb_phi1 px py pz - bb_thp_b qd).
End After.

Definition bb_beta (pz p0c m : R) : R := p0c * (1 + pz) / sqrt ((p0c * (1 + pz)) ^ 2 + m ^ 2).   (* beta = P/E *)
Definition bb_beta0 (p0c m : R) : R := p0c / sqrt (p0c ^ 2 + m ^ 2).                              (* beta0 = p0c/E0 *)

Definition bendx_body_b (sel : bool) (qd : quadrant) (zero : bool) (p0c m : R) (q : bpart) : bpart :=
  let x := bx q in let px := bpx q in let y := by_ q in let py := bpy q in let z := bz q in let pz := bpz q in
  let x2 := bb_x2_b sel x px py pz in
  let Lp := bb_Lp_b x2 x px py pz qd zero in
  mkb x2 (bb_pxf_b x2 x px py pz qd) (y + py * Lp / bb_n py pz) py
      (z + bb_beta pz p0c m * L / bb_beta0 p0c m - (1 + pz) * Lp / bb_n py pz) pz.

(* the masks as the code computes them *)
Definition bb_quadrant (q : bpart) : quadrant :=
  let x2 := bb_x2 (bx q) (bpx q) (bpy q) (bpz q) in quadrant_of (bb_Lcv (bx q)) (bb_Lcu x2 (bx q)).
Definition bb_zero (q : bpart) : bool :=
  let x2 := bb_x2 (bx q) (bpx q) (bpy q) (bpz q) in
  is0 (bb_thp_b x2 (bx q) (bpx q) (bpy q) (bpz q) (bb_quadrant q) / 2).
Definition bendx_body (p0c m : R) (q : bpart) : bpart :=
  bendx_body_b (bb_sel (bpx q) (bpy q) (bpz q)) (bb_quadrant q) (bb_zero q) p0c m q.

(** where the code computes finite values that mean what the formulas say *)
Definition bb_defined (q : bpart) : Prop :=
  let x := bx q in let px := bpx q in let py := bpy q in let pz := bpz q in
  L <> 0 /\ ang <> 0 /\ 0 < (1 + pz) ^ 2 - py ^ 2 /\ - bb_n py pz < px < bb_n py pz /\
  0 <= (cos (ang + bb_phi1 px py pz)) ^ 2 + bb_gp py pz * bb_alpha x px py pz /\
  bb_t2 x px py pz + bb_t3 px py pz <> 0 /\
  bb_Lc (bb_x2 x px py pz) x <> 0.
End Body.

(** Dipole._track_bmadx between the coordinate conversions: offset_particle_set(0, 0, tilt) ; entrance fringe (fringe_at in
    {entrance, both}) ; body ; exit fringe (fringe_at in {exit, both}) ; offset_particle_unset(0, 0, tilt).
    [fen], [fex]: whether the entrance / exit fringe is applied. *)
Record bend_par := mkbend { bd_L : R; bd_ang : R; bd_e1 : R; bd_e2 : R; bd_fint : R; bd_fintx : R; bd_gap : R; bd_gapx : R; bd_tilt : R }.

Definition bendx_entrance (fen : bool) (b : bend_par) (q : bpart) : bpart :=
  if fen then bendx_fringe (bd_L b) (bd_ang b) (bd_e1 b) (bd_fint b) (bd_gap b) q else q.
Definition bendx_exit (fex : bool) (b : bend_par) (q : bpart) : bpart :=
  if fex then bendx_fringe (bd_L b) (bd_ang b) (bd_e2 b) (bd_fintx b) (bd_gapx b) q else q.

Definition bendx_bmad (fen fex : bool) (b : bend_par) (p0c m : R) (q : bpart) : bpart :=
  off_unset 0 0 (bd_tilt b)
    (bendx_exit fex b (bendx_body (bd_L b) (bd_ang b) p0c m (bendx_entrance fen b (off_set 0 0 (bd_tilt b) q)))).
Definition bendx_bmad_b (sel : bool) (qd : quadrant) (zero : bool) (fen fex : bool) (b : bend_par) (p0c m : R) (q : bpart) : bpart :=
  off_unset 0 0 (bd_tilt b)
    (bendx_exit fex b (bendx_body_b (bd_L b) (bd_ang b) sel qd zero p0c m (bendx_entrance fen b (off_set 0 0 (bd_tilt b) q)))).

(** the whole of Dipole._track_bmadx in Cheetah coordinates; returned beam energy: [drift_bmadx_energy E0 m] *)
Definition bend_bmadx_track (fen fex : bool) (b : bend_par) (E0 m : R) (v : cpart) : cpart :=
  to_cheetah (cb_p0c E0 m) m (bendx_bmad fen fex b (cb_p0c E0 m) m (to_bmad E0 m v)).
Definition bend_bmadx_track_b (sel : bool) (qd : quadrant) (zero : bool) (fen fex : bool) (b : bend_par) (E0 m : R) (v : cpart) : cpart :=
  to_cheetah (cb_p0c E0 m) m (bendx_bmad_b sel qd zero fen fex b (cb_p0c E0 m) m (to_bmad E0 m v)).

(** ================================================================ the body after the repair of finding F70
    (bend angles below -pi: arctan2 wraps, theta_p off by 4 pi).  The repaired `_bmadx_body` inserts, after theta_p,
        theta_p = theta_p - 4*pi*torch.round((theta_p - angle)/(4*pi))
    and is otherwise the code modelled above.  The definitions above are the code BEFORE the repair (the _refuted witness is about
    them); which of the two the working tree computes is decided on every run by the correspondence harness from the status of F70. *)

(** torch.round: nearest integer, ties to even ([up] is the stdlib's integer strictly above) *)
Definition rnd (x : R) : R :=
  let fz := (up x - 1)%Z in let d := x - IZR fz in
  if Rlt_dec d (1 / 2) then IZR fz
  else if Rlt_dec (1 / 2) d then IZR (fz + 1)
  else if Z.even fz then IZR fz else IZR (fz + 1).

Section BodyFixed.
Variables (L ang : R).
Section AfterF.
Variables (x2 x px py pz : R).
(* [kr]: the value of torch.round((theta_p - angle)/(4 pi)) *)
Definition bb_thpf_b (qd : quadrant) (kr : R) : R := bb_thp_b L ang x2 x px py pz qd - 4 * PI * kr.
Definition bb_kr (qd : quadrant) : R := rnd ((bb_thp_b L ang x2 x px py pz qd - ang) / (4 * PI)).
Definition bb_Lpf_b (qd : quadrant) (kr : R) (zero : bool) : R := bb_Lc L ang x2 x / bx_sinc_b zero (bb_thpf_b qd kr / 2).
Definition bb_pxff_b (qd : quadrant) (kr : R) : R := bb_n py pz * sin (ang + bb_phi1 px py pz - bb_thpf_b qd kr).
End AfterF.

Definition bendx_body_fixed_b (sel : bool) (qd : quadrant) (kr : R) (zero : bool) (p0c m : R) (q : bpart) : bpart :=
  let x := bx q in let px := bpx q in let y := by_ q in let py := bpy q in let z := bz q in let pz := bpz q in
  let x2 := bb_x2_b L ang sel x px py pz in
  let Lp := bb_Lpf_b x2 x px py pz qd kr zero in
  mkb x2 (bb_pxff_b x2 x px py pz qd kr) (y + py * Lp / bb_n py pz) py
      (z + bb_beta pz p0c m * L / bb_beta0 p0c m - (1 + pz) * Lp / bb_n py pz) pz.

(* the masks / rounded value as the repaired code computes them *)
Definition bb_krq (q : bpart) : R :=
  bb_kr (bb_x2 L ang (bx q) (bpx q) (bpy q) (bpz q)) (bx q) (bpx q) (bpy q) (bpz q) (bb_quadrant L ang q).
Definition bb_zerof (q : bpart) : bool :=
  let x2 := bb_x2 L ang (bx q) (bpx q) (bpy q) (bpz q) in
  is0 (bb_thpf_b x2 (bx q) (bpx q) (bpy q) (bpz q) (bb_quadrant L ang q) (bb_krq q) / 2).
Definition bendx_body_fixed (p0c m : R) (q : bpart) : bpart :=
  bendx_body_fixed_b (bb_sel ang (bpx q) (bpy q) (bpz q)) (bb_quadrant L ang q) (bb_krq q) (bb_zerof q) p0c m q.
End BodyFixed.

Definition bendx_bmad_fixed (fen fex : bool) (b : bend_par) (p0c m : R) (q : bpart) : bpart :=
  off_unset 0 0 (bd_tilt b)
    (bendx_exit fex b (bendx_body_fixed (bd_L b) (bd_ang b) p0c m (bendx_entrance fen b (off_set 0 0 (bd_tilt b) q)))).
(** the whole of the repaired Dipole._track_bmadx in Cheetah coordinates *)
Definition bend_bmadx_track_fixed (fen fex : bool) (b : bend_par) (E0 m : R) (v : cpart) : cpart :=
  to_cheetah (cb_p0c E0 m) m (bendx_bmad_fixed fen fex b (cb_p0c E0 m) m (to_bmad E0 m v)).
