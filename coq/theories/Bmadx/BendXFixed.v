(** The Bmad-X dipole body after the repair of finding F70 (model: BendX.v, [bendx_body_fixed]):
      theta_p <- theta_p - 4 pi round((theta_p - angle)/(4 pi)).
    Proved: torch.round as modelled; the repair changes y and z only (x, px, py, pz are those of the code before the repair, so the
    sector-map, Jacobian and x/px flow theorems carry over); the repaired body IS the old body wherever arctan2 did not wrap; the
    path length is radius * (repaired theta_p) wherever the code is defined; the design particle is a fixed point for every
    0 < |angle| < 2 pi, angle <> +-pi (the old body: only for -pi < angle < 2 pi, see BendXRefuted.body_design_orbit_refuted);
    the evaluation chain used by the correspondence goals in the `fixed` state. *)
From Coq Require Import Reals Lra Psatz ZArith Lia.
From Cheetah Require Import Bmadx.Coords Bmadx.DriftX Bmadx.Tdc Bmadx.BendX Bmadx.BendXProofs Bmadx.BendXGeom Bmadx.BendXOrbit Bmadx.BendXFlow.
Open Scope R_scope.

(* ---------- torch.round *)
Lemma rnd_unique x k : Rabs (x - IZR k) < 1 / 2 -> rnd x = IZR k.
Proof.
  intros H. apply Rabs_def2 in H. destruct H as [H1 H2].
  destruct (archimed x) as [U1 U2].
  assert (F : IZR (up x - 1) = IZR (up x) - 1) by (rewrite minus_IZR; reflexivity).
  assert (K : (k = up x - 1 \/ k = up x - 1 + 1)%Z).
  { assert (A : (k < up x - 1 + 2)%Z) by (apply lt_IZR; rewrite plus_IZR, F; simpl; lra).
    assert (B : (up x - 1 - 1 < k)%Z) by (apply lt_IZR; rewrite minus_IZR, F; simpl; lra).
    lia. }
  unfold rnd. cbv zeta. set (fz := (up x - 1)%Z) in *.
  destruct K as [K|K]; subst k.
  - destruct (Rlt_dec (x - IZR fz) (1 / 2)); [reflexivity|lra].
  - rewrite plus_IZR in H1, H2. simpl in H1, H2.
    destruct (Rlt_dec (x - IZR fz) (1 / 2)); [lra|]. destruct (Rlt_dec (1 / 2) (x - IZR fz)); [reflexivity|lra].
Qed.
Lemma rnd_int x : exists k : Z, rnd x = IZR k.
Proof.
  unfold rnd. cbv zeta.
  destruct (Rlt_dec _ _); [eexists; reflexivity|]. destruct (Rlt_dec _ _); [eexists; reflexivity|].
  destruct (Z.even _); eexists; reflexivity.
Qed.

Lemma sin_period_Z x j : sin (x + 2 * IZR j * PI) = sin x.
Proof.
  destruct (Z_le_gt_dec 0 j) as [Hj|Hj].
  - rewrite <- (Z2Nat.id j Hj), <- INR_IZR_INZ. apply sin_period.
  - assert (Hn : (0 <= - j)%Z) by lia.
    replace (IZR j) with (- IZR (- j)) by (rewrite opp_IZR; ring).
    rewrite <- (Z2Nat.id (- j) Hn), <- INR_IZR_INZ.
    set (n := Z.to_nat (- j)). rewrite <- (sin_period (x + 2 * - INR n * PI) n). f_equal. ring.
Qed.

(* ---------- the repair changes y and z only *)
Theorem body_fixed_x_px L ang p0c m q :
  bx (bendx_body_fixed L ang p0c m q) = bx (bendx_body L ang p0c m q) /\
  bpx (bendx_body_fixed L ang p0c m q) = bpx (bendx_body L ang p0c m q) /\
  bpy (bendx_body_fixed L ang p0c m q) = bpy (bendx_body L ang p0c m q) /\
  bpz (bendx_body_fixed L ang p0c m q) = bpz (bendx_body L ang p0c m q).
Proof.
  repeat split; try reflexivity.
  unfold bendx_body_fixed, bendx_body_fixed_b, bendx_body, bendx_body_b. cbn [bpx]. unfold bb_pxff_b, bb_pxf_b, bb_thpf_b.
  fold (bb_x2 L ang (bx q) (bpx q) (bpy q) (bpz q)).
  destruct (rnd_int ((bb_thp_b L ang (bb_x2 L ang (bx q) (bpx q) (bpy q) (bpz q)) (bx q) (bpx q) (bpy q) (bpz q) (bb_quadrant L ang q) - ang) / (4 * PI))) as [k Hk].
  unfold bb_krq, bb_kr. rewrite Hk. f_equal.
  set (a := ang + bb_phi1 (bpx q) (bpy q) (bpz q)). set (t := bb_thp_b _ _ _ _ _ _ _ _).
  replace (a - (t - 4 * PI * IZR k)) with (a - t + 2 * IZR (2 * k) * PI) by (rewrite mult_IZR; simpl; ring).
  apply sin_period_Z.
Qed.

(* ---------- where the rounded value is 0 the repaired body is the old body *)
Lemma body_fixed_b_kr0 L ang sel qd zero p0c m q :
  bendx_body_fixed_b L ang sel qd 0 zero p0c m q = bendx_body_b L ang sel qd zero p0c m q.
Proof.
  unfold bendx_body_fixed_b, bendx_body_b, bb_Lpf_b, bb_Lp_b, bb_pxff_b, bb_pxf_b, bb_thpf_b. cbv zeta.
  set (t := bb_thp_b _ _ _ _ _ _ _ _). replace (t - 4 * PI * 0) with t by ring. reflexivity.
Qed.

Theorem body_fixed_eq_old L ang p0c m q :
  Rabs (bb_thp_b L ang (bb_x2 L ang (bx q) (bpx q) (bpy q) (bpz q)) (bx q) (bpx q) (bpy q) (bpz q) (bb_quadrant L ang q) - ang) < 2 * PI ->
  bendx_body_fixed L ang p0c m q = bendx_body L ang p0c m q.
Proof.
  intros H. set (t := bb_thp_b _ _ _ _ _ _ _ _) in *.
  assert (K : bb_krq L ang q = 0).
  { unfold bb_krq, bb_kr. fold t. apply (rnd_unique _ 0). replace ((t - ang) / (4 * PI) - 0) with ((t - ang) / (4 * PI)) by ring.
    assert (P : 0 < PI) by apply PI_RGT_0.
    unfold Rdiv. rewrite Rabs_mult, (Rabs_pos_eq (/ (4 * PI))) by (left; apply Rinv_0_lt_compat; lra).
    apply (Rmult_lt_reg_r (4 * PI)); [lra|]. replace (Rabs (t - ang) * / (4 * PI) * (4 * PI)) with (Rabs (t - ang)) by (field; lra). lra. }
  unfold bendx_body_fixed.
  assert (Z : bb_zerof L ang q = bb_zero L ang q).
  { unfold bb_zerof, bb_zero, bb_thpf_b. cbv zeta. rewrite K. fold t. replace (t - 4 * PI * 0) with t by ring. reflexivity. }
  rewrite K, Z. apply body_fixed_b_kr0.
Qed.

(** in particular wherever arctan2 did not wrap (exit angle as computed in [-pi/2, pi/2]), i.e. wherever the code before the repair
    was right *)
Theorem body_fixed_eq_old_nowrap L ang p0c m q : bb_nowrap L ang q -> bendx_body_fixed L ang p0c m q = bendx_body L ang p0c m q.
Proof.
  intros [N1 N2]. apply body_fixed_eq_old. unfold bb_nowrap, bb_phi2 in *.
  set (t := bb_thp_b _ _ _ _ _ _ _ _) in *.
  pose proof (asin_bound (bpx q / bb_n (bpy q) (bpz q))) as [A1 A2]. fold (bb_phi1 (bpx q) (bpy q) (bpz q)) in A1, A2.
  pose proof PI_RGT_0. apply Rabs_def1; lra.
Qed.

(* ---------- chord = 2 r sin(theta_p/2), path length of the repaired body *)
Section Arc.
Variables (L ang : R).
Hypotheses (HL : L <> 0) (Hang : ang <> 0).
Variable (q : bpart).
Hypothesis Hdef : bb_defined L ang q.
Let x := bx q. Let px := bpx q. Let py := bpy q. Let pz := bpz q.
Let g := bb_g L ang.
Let n := bb_n py pz.
Let x2 := bb_x2 L ang x px py pz.
Let thp := bb_thp_b L ang x2 x px py pz (bb_quadrant L ang q).

Lemma body_chord_half_angle : bb_Lc L ang x2 x = 2 * (n / g) * sin (thp / 2).
Proof.
  pose proof (model_n_pos L ang q Hdef) as Hn. fold py pz n in Hn.
  pose proof (bb_g_nz L ang HL Hang) as Hg. fold g in Hg.
  assert (Hn' : n <> 0) by lra.
  pose proof (model_Lc_pos L ang q Hdef) as Hd. fold x px py pz x2 in Hd.
  pose proof (atan2_polar _ _ Hd) as Hpsi.
  pose proof (model_thp L ang q) as Eh. fold x px py pz x2 thp in Eh.
  set (psi := atan2 (bb_Lcv L ang x) (bb_Lcu L ang x2 x)) in *.
  pose proof (model_Lcu L ang HL Hang q) as ELu. pose proof (model_Lcv L ang HL Hang q) as ELv.
  pose proof (model_x2 L ang HL Hang q Hdef) as EX. pose proof (model_t2 L ang HL Hang q Hdef) as ET.
  fold x px py pz x2 g n in ELu, ELv, EX, ET.
  unfold bb_Lc. rewrite ELu, ELv in Hd, Hpsi |- *. rewrite EX in Hd, Hpsi |- *.
  rewrite <- (core_half_angle g n x ang (ang + bb_phi1 px py pz) _ psi Hg Hn' ET Hd Hpsi).
  f_equal. f_equal. rewrite Eh. field.
Qed.

Lemma body_arc_length_fixed :
  bb_Lpf_b L ang x2 x px py pz (bb_quadrant L ang q) (bb_krq L ang q) (bb_zerof L ang q)
  = n / g * bb_thpf_b L ang x2 x px py pz (bb_quadrant L ang q) (bb_krq L ang q).
Proof.
  pose proof (model_n_pos L ang q Hdef) as Hn. fold py pz n in Hn.
  pose proof (bb_g_nz L ang HL Hang) as Hg. fold g in Hg.
  pose proof body_chord_half_angle as C.
  assert (Lpos : bb_Lc L ang x2 x <> 0) by (destruct Hdef as (_ & _ & _ & _ & _ & _ & Hc); exact Hc).
  destruct (rnd_int ((thp - ang) / (4 * PI))) as [k Hk].
  assert (K : bb_krq L ang q = IZR k) by (unfold bb_krq, bb_kr; fold x px py pz x2 thp; exact Hk).
  set (tf := bb_thpf_b L ang x2 x px py pz (bb_quadrant L ang q) (bb_krq L ang q)).
  assert (Etf : tf = thp - 4 * PI * IZR k) by (unfold tf, bb_thpf_b; fold thp; rewrite K; reflexivity).
  assert (S : sin (tf / 2) = sin (thp / 2)).
  { rewrite Etf. replace ((thp - 4 * PI * IZR k) / 2) with (thp / 2 + 2 * IZR (- k) * PI) by (rewrite opp_IZR; field).
    apply sin_period_Z. }
  assert (Sn : sin (thp / 2) <> 0) by (intro E; apply Lpos; rewrite C, E; ring).
  assert (Tn : tf / 2 <> 0) by (intro E; apply Sn; rewrite <- S, E; apply sin_0).
  unfold bb_Lpf_b. fold tf.
  assert (Z : bb_zerof L ang q = false) by (unfold bb_zerof; fold x px py pz x2; fold tf; apply is0_false; exact Tn).
  rewrite Z. cbn [bx_sinc_b]. rewrite S, C. field. repeat split; first [assumption | lra | (intro E; apply Tn; lra)].
Qed.
End Arc.

(* ---------- the design orbit for 0 < |angle| < 2 pi *)
Section OrbitF.
Variables (L ang p0c m z : R).
Hypotheses (HL : 0 < L) (Hang : ang <> 0) (Hlo : - (2 * PI) < ang) (Hhi : ang < 2 * PI) (Hpi : ang <> PI) (Hmpi : ang <> - PI) (Hp : 0 < p0c).
Let g := bb_g L ang.
Let h := ang / 2.
Let HLn : L <> 0 := Rgt_not_eq _ _ HL.

Lemma f_g : g <> 0. Proof. apply (o_g L ang HL Hang). Qed.
Lemma f_sinh : sin h <> 0.
Proof.
  unfold h. pose proof PI_RGT_0. destruct (Rlt_dec 0 ang).
  - apply Rgt_not_eq, sin_gt_0; lra.
  - apply Rlt_not_eq. replace (ang / 2) with (- (- ang / 2)) by field. rewrite sin_neg.
    assert (0 < sin (- ang / 2)) by (apply sin_gt_0; lra). lra.
Qed.
Lemma f_cosh : cos h <> 0.
Proof.
  unfold h. pose proof PI_RGT_0.
  destruct (Rlt_dec (ang / 2) (- (PI / 2))) as [A|A].
  - apply Rlt_not_eq. rewrite <- cos_neg. apply cos_lt_0; lra.
  - destruct (Rlt_dec (PI / 2) (ang / 2)) as [B|B].
    + apply Rlt_not_eq. apply cos_lt_0; lra.
    + apply Rgt_not_eq. apply cos_gt_0; lra.
Qed.
Lemma f_cos_gt : -1 < cos ang.
Proof.
  pose proof (Rsqr_pos_lt _ f_cosh) as C. unfold Rsqr in C. fold h in C.
  pose proof (sin2_cos2 h) as T. unfold Rsqr in T. rewrite (o_cos ang). fold h. nra.
Qed.
Lemma f_cos_lt : cos ang < 1.
Proof. pose proof (Rsqr_pos_lt _ f_sinh) as S. unfold Rsqr in S. rewrite (o_cos ang). fold h. nra. Qed.

Lemma f_x2 : bb_x2 L ang 0 0 0 0 = 0.
Proof.
  unfold bb_x2. rewrite (bb_x2_branch_irrelevant L ang 0 0 0 0 _ false).
  - cbn [bb_x2_b]. unfold bb_c2, bb_t1. rewrite (o_t2 L ang HL Hang), o_t3, o_gp, (bb_K_spec L ang HLn Hang). fold g. field. apply f_g.
  - rewrite o_gp. apply f_g.
  - rewrite (o_t2 L ang HL Hang), o_t3. pose proof f_cos_gt. lra.
  - rewrite (o_rad L ang HL Hang). lra.
Qed.

Lemma f_chord : 0 < ((1 - cos ang) / g) ^ 2 + (- sin ang / g) ^ 2.
Proof.
  pose proof f_g as G. pose proof f_cos_lt as C.
  assert (I : / g <> 0) by (apply Rinv_neq_0_compat; exact G).
  pose proof (Rsqr_pos_lt _ I) as I2. unfold Rsqr in I2.
  replace (((1 - cos ang) / g) ^ 2 + (- sin ang / g) ^ 2) with ((/ g * / g) * ((1 - cos ang) * (1 - cos ang) + sin ang * sin ang)) by (field; exact G).
  apply Rmult_lt_0_compat; [exact I2|nra].
Qed.

Lemma f_defined : bb_defined L ang (mkb 0 0 0 0 z 0).
Proof.
  unfold bb_defined. cbn [bx bpx bpy bpz]. rewrite o_n, (o_rad L ang HL Hang), (o_t2 L ang HL Hang), o_t3, f_x2.
  repeat split; try lra; try exact Hang.
  - pose proof f_cos_gt. lra.
  - unfold bb_Lc. rewrite (o_Lcu L ang HL Hang), (o_Lcv L ang HL Hang). fold g. apply Rgt_not_eq, sqrt_lt_R0, f_chord.
Qed.

(* theta_p as computed before the repair is angle or angle - 4 pi: in both cases sin(theta_p/2) = sin(angle/2), and the repaired
   theta_p is the angle *)
Lemma f_ratio : (- sin ang / g) / ((1 - cos ang) / g) = - cos h / sin h.
Proof.
  replace (1 - cos ang) with (2 * sin h * sin h) by (rewrite (o_cos ang); fold h; ring). rewrite (o_sin ang). fold h.
  pose proof f_sinh. pose proof f_g. field. split; assumption.
Qed.

Lemma f_thp_raw :
  let t := bb_thp_b L ang (bb_x2 L ang 0 0 0 0) 0 0 0 0 (bb_quadrant L ang (mkb 0 0 0 0 z 0)) in
  t = ang \/ t = ang - 4 * PI.
Proof.
  cbv zeta. pose proof (model_thp L ang (mkb 0 0 0 0 z 0)) as T. cbn [bx bpx bpy bpz] in T. rewrite T.
  rewrite f_x2, (o_Lcu L ang HL Hang), (o_Lcv L ang HL Hang), o_phi. fold g.
  pose proof f_sinh as S. pose proof f_cos_lt as C1. pose proof PI_RGT_0 as P.
  unfold atan2, quadrant_of. destruct (Rlt_dec 0 ang) as [Hpos|Hneg].
  - left. assert (Hg : 0 < g) by (unfold g, bb_g; apply Rdiv_lt_0_compat; lra).
    assert (Hu : 0 < (1 - cos ang) / g) by (apply Rdiv_lt_0_compat; lra).
    destruct (Rlt_dec 0 ((1 - cos ang) / g)); [|contradiction]. cbn [atan2_b].
    rewrite f_ratio, <- (tan_shift_m h S). rewrite atan_tan by (unfold h; lra). unfold h. field.
  - assert (Hg : g < 0).
    { unfold g, bb_g. assert (0 < - ang / L) by (apply Rdiv_lt_0_compat; lra).
      replace (ang / L) with (- (- ang / L)) by (field; lra). lra. }
    assert (Hu : (1 - cos ang) / g < 0).
    { assert (0 < (1 - cos ang) / - g) by (apply Rdiv_lt_0_compat; lra).
      replace ((1 - cos ang) / g) with (- ((1 - cos ang) / - g)) by (field; lra). lra. }
    destruct (Rlt_dec 0 ((1 - cos ang) / g)); [lra|].
    destruct (Rlt_dec ((1 - cos ang) / g) 0); [|contradiction].
    destruct (Rle_dec 0 (- sin ang / g)) as [Hv|Hv]; cbn [atan2_b].
    + (* angle in (-2 pi, -pi]: arctan2 wraps *)
      right. assert (Hs : 0 <= sin ang).
      { destruct (Rle_lt_dec 0 (sin ang)) as [E|E]; [exact E|]. exfalso.
        assert (0 < - sin ang / - g) by (apply Rdiv_lt_0_compat; lra).
        replace (- sin ang / g) with (- (- sin ang / - g)) in Hv by (field; lra). lra. }
      assert (Hr : ang <= - PI).
      { destruct (Rle_lt_dec ang (- PI)) as [E|E]; [exact E|]. exfalso.
        assert (0 < sin (- ang)) by (apply sin_gt_0; lra). rewrite sin_neg in *. lra. }
      rewrite f_ratio, <- (tan_shift_p h S). rewrite atan_tan by (unfold h; lra). unfold h. field.
    + left. assert (Hr : - PI < ang).
      { destruct (Rle_lt_dec ang (- PI)) as [E|E]; [|exact E]. exfalso. apply Hv.
        assert (Hsp : sin (ang + 2 * PI) = sin ang) by (rewrite <- (sin_period ang 1); f_equal; simpl; ring).
        assert (0 <= sin (ang + 2 * PI)) by (apply sin_ge_0; lra). rewrite Hsp in *.
        assert (0 <= - sin ang / g -> False) by exact Hv.
        assert (0 <= sin ang / - g) by (apply Rmult_le_pos; [lra|left; apply Rinv_0_lt_compat; lra]).
        replace (- sin ang / g) with (sin ang / - g) by (field; lra). lra. }
      rewrite f_ratio, <- (tan_shift_p h S). rewrite atan_tan by (unfold h; lra). unfold h. field.
Qed.

Lemma f_thpf : bb_thpf_b L ang (bb_x2 L ang 0 0 0 0) 0 0 0 0 (bb_quadrant L ang (mkb 0 0 0 0 z 0)) (bb_krq L ang (mkb 0 0 0 0 z 0)) = ang.
Proof.
  pose proof PI_RGT_0 as P. unfold bb_thpf_b, bb_krq, bb_kr. cbn [bx bpx bpy bpz].
  destruct f_thp_raw as [E|E]; cbv zeta in E; rewrite E.
  - rewrite (rnd_unique _ 0); [ring|]. replace ((ang - ang) / (4 * PI) - 0) with 0 by (field; lra). rewrite Rabs_R0. lra.
  - rewrite (rnd_unique _ (-1)); [ring|]. replace ((ang - 4 * PI - ang) / (4 * PI) - -1) with 0 by (field; lra). rewrite Rabs_R0. lra.
Qed.

(** the repaired body maps the design particle to itself, z included, for every 0 < |angle| < 2 pi except +-pi (where c1 is 0/0) *)
Theorem body_design_orbit_fixed : bendx_body_fixed L ang p0c m (mkb 0 0 0 0 z 0) = mkb 0 0 0 0 z 0.
Proof.
  pose proof f_defined as D.
  destruct (body_fixed_x_px L ang p0c m (mkb 0 0 0 0 z 0)) as (Fx & Fpx & Fpy & Fpz).
  destruct (body_uniform_field L ang HLn Hang p0c m _ D) as (_ & Upx & Ux & _). cbv zeta in Upx, Ux. cbn [bx bpx bpy bpz] in Upx, Ux.
  rewrite f_x2 in Ux. rewrite o_n, o_phi in Upx.
  pose proof (body_arc_length_fixed L ang HLn Hang _ D) as A. cbn [bx bpx bpy bpz] in A. rewrite f_thpf, o_n in A.
  assert (Y : by_ (bendx_body_fixed L ang p0c m (mkb 0 0 0 0 z 0)) = 0).
  { unfold bendx_body_fixed, bendx_body_fixed_b. cbn [bx bpx by_ bpy bz bpz]. unfold Rdiv. ring. }
  assert (Z : bz (bendx_body_fixed L ang p0c m (mkb 0 0 0 0 z 0)) = z).
  { unfold bendx_body_fixed, bendx_body_fixed_b. cbn [bx bpx by_ bpy bz bpz].
    fold (bb_x2 L ang 0 0 0 0). rewrite A, o_n, (o_beta L p0c m Hp). unfold bb_g. field. split; [exact HLn|exact Hang]. }
  rewrite <- Fx in Ux. rewrite <- Fpx in Upx.
  destruct (bendx_body_fixed L ang p0c m (mkb 0 0 0 0 z 0)) as [x' px' y' py' z' pz'].
  destruct (body_py_pz L ang p0c m (mkb 0 0 0 0 z 0)) as [Py Pz].
  cbn [bx bpx by_ bpy bz bpz] in *.
  f_equal; try assumption; try congruence.
  etransitivity; [exact Upx|]. rewrite Rplus_0_r. ring.
Qed.
End OrbitF.

(* ---------- the evaluation chain of the repaired code (correspondence goals in the `fixed` state) *)
Definition body_chain_fixed (sel : bool) (qd : quadrant) (k : Z) (L ang p0c m x px y py z pz : R) (Q : bpart -> Prop) : Prop :=
  ang <> 0 /\
  let n := sqrt ((1 + pz) ^ 2 - py ^ 2) in
  (-1 < px / n < 1) /\
  let ph := atan (px / n / sqrt (1 - (px / n)²)) in
  let g := ang / L in
  let gp := g / n in
  let sc := sin ang / ang in
  let cc := - (1 / 2) * (sin (ang / 2) / (ang / 2)) ^ 2 in
  let al := 2 * (1 + g * x) * sin (ang + ph) * L * sc - gp * ((1 + g * x) * L * sc) ^ 2 in
  let t1 := x * cos ang + L ^ 2 * g * cc in
  let t3 := cos (ang + ph) in
  let t2 := sqrt (t3 ^ 2 + gp * al) in
  sel_cond sel (Rabs (ang + ph)) /\
  let x2 := if sel then t1 + al / (t2 + t3) else t1 + (t2 - t3) / gp in
  let u := x2 - L ^ 2 * g * cc - x * cos ang in
  let v := - L * sc - x * sin ang in
  quad_cond qd v u /\
  let th0 := 2 * (ang + ph - PI / 2 - atan2_b qd v u) in
  Rabs ((th0 - ang) / (4 * PI) - IZR k) < 1 / 2 /\
  let th := th0 - 4 * PI * IZR k in
  th / 2 <> 0 /\
  let Lc := sqrt (u ^ 2 + v ^ 2) in
  let Lp := Lc / (sin (th / 2) / (th / 2)) in
  let pxf := n * sin (ang + ph - th) in
  let yf := y + py * Lp / n in
  let zf := z + bb_beta pz p0c m * L / bb_beta0 p0c m - (1 + pz) * Lp / n in
  Q (mkb x2 pxf yf py zf pz).

Lemma body_chain_fixed_sound sel qd k L ang p0c m x px y py z pz Q :
  body_chain_fixed sel qd k L ang p0c m x px y py z pz Q -> Q (bendx_body_fixed L ang p0c m (mkb x px y py z pz)).
Proof.
  unfold body_chain_fixed. intros (Hang & Hasin & H). cbv zeta in H.
  rewrite <- (asin_atan _ Hasin) in H.
  destruct H as (Hsel & Hq & Hk & Hz & HQ).
  assert (Es : bb_sel ang px py pz = sel) by (apply bb_sel_cond; exact Hsel).
  assert (Esc : bx_sinc ang = sin ang / ang) by (apply bx_sinc_nz; exact Hang).
  assert (Ecc : bx_cosc ang = - (1 / 2) * (sin (ang / 2) / (ang / 2)) ^ 2) by (apply bx_cosc_nz; exact Hang).
  unfold bendx_body_fixed.
  assert (Eq : bb_quadrant L ang (mkb x px y py z pz) = qd).
  { unfold bb_quadrant. apply quadrant_cond. cbn [bx bpx bpy bpz]. unfold bb_x2. rewrite Es.
    unfold bb_Lcv, bb_Lcu, bb_x2_b, bb_c1, bb_c2, bb_t1, bb_t2, bb_t3, bb_alpha, bb_gp, bb_g, bb_phi1, bb_n. rewrite Esc, Ecc.
    exact Hq. }
  assert (Ek : bb_krq L ang (mkb x px y py z pz) = IZR k).
  { unfold bb_krq, bb_kr. rewrite Eq. apply rnd_unique. cbn [bx bpx bpy bpz]. unfold bb_x2. rewrite Es.
    unfold bb_thp_b, bb_Lcv, bb_Lcu, bb_x2_b, bb_c1, bb_c2, bb_t1, bb_t2, bb_t3, bb_alpha, bb_gp, bb_g, bb_phi1, bb_n. rewrite Esc, Ecc.
    exact Hk. }
  assert (Ez : bb_zerof L ang (mkb x px y py z pz) = false).
  { unfold bb_zerof. cbv zeta. rewrite Ek, Eq. apply is0_false. cbn [bx bpx bpy bpz]. unfold bb_x2. rewrite Es.
    unfold bb_thpf_b, bb_thp_b, bb_Lcv, bb_Lcu, bb_x2_b, bb_c1, bb_c2, bb_t1, bb_t2, bb_t3, bb_alpha, bb_gp, bb_g, bb_phi1, bb_n. rewrite Esc, Ecc.
    exact Hz. }
  rewrite Eq, Ek, Ez. cbn [bx bpx bpy bpz]. rewrite Es.
  unfold bendx_body_fixed_b. cbn [bx bpx by_ bpy bz bpz]. cbv zeta.
  unfold bb_pxff_b, bb_Lpf_b, bb_thpf_b, bb_Lc, bb_thp_b, bb_Lcv, bb_Lcu, bx_sinc_b, bb_x2_b, bb_c1, bb_c2, bb_t1, bb_t2, bb_t3, bb_alpha, bb_gp, bb_g, bb_phi1, bb_n.
  rewrite Esc, Ecc. exact HQ.
Qed.

Definition bend_chain_fixed (sel : bool) (qd : quadrant) (k : Z) (fen fex : bool) (b : bend_par) (E0 m x px y py tau delta : R) (P : cpart -> Prop) : Prop :=
  let p0c := cb_p0c E0 m in
  let pz := cb_pz delta E0 m in
  let z := cb_z tau delta E0 m in
  let x1 := bx (bendx_entrance fen b (off_set 0 0 (bd_tilt b) (mkb x px y py z pz))) in
  let px1 := bpx (bendx_entrance fen b (off_set 0 0 (bd_tilt b) (mkb x px y py z pz))) in
  let y1 := by_ (bendx_entrance fen b (off_set 0 0 (bd_tilt b) (mkb x px y py z pz))) in
  let py1 := bpy (bendx_entrance fen b (off_set 0 0 (bd_tilt b) (mkb x px y py z pz))) in
  body_chain_fixed sel qd k (bd_L b) (bd_ang b) p0c m x1 px1 y1 py1 z pz
    (fun q3 => P (to_cheetah p0c m (off_unset 0 0 (bd_tilt b) (bendx_exit fex b q3)))).

Lemma bend_chain_fixed_sound sel qd k fen fex b E0 m x px y py tau delta P :
  bend_chain_fixed sel qd k fen fex b E0 m x px y py tau delta P -> P (bend_bmadx_track_fixed fen fex b E0 m (mkc x px y py tau delta)).
Proof.
  unfold bend_chain_fixed. cbv zeta. intros H. apply body_chain_fixed_sound in H.
  unfold bend_bmadx_track_fixed, bendx_bmad_fixed, to_bmad. cbn [cx cpx cy cpy ctau cdelta].
  set (q1 := bendx_entrance fen b _) in *.
  assert (E : q1 = mkb (bx q1) (bpx q1) (by_ q1) (bpy q1) (cb_z tau delta E0 m) (cb_pz delta E0 m)).
  { unfold q1. destruct fen; reflexivity. }
  rewrite E. exact H.
Qed.
