(** (f) Flow law of the Bmad-X dipole body (model: BendX.v): two consecutive bodies of the same curvature g = angle/length are
    one body of the total angle.  Proved through the closed-form sector map (BendXJac.v): in the variables (px, U), U = w - (1 + g x),
    w = sqrt((1+pz)^2 - py^2 - px^2), the map is the ROTATION by the bend angle, and w' = sqrt(D) is determined by px'. *)
From Coq Require Import Reals Lra Psatz.
From Coquelicot Require Import Coquelicot.
From Cheetah Require Import Bmadx.Coords Bmadx.DriftX Bmadx.Tdc Bmadx.BendX Bmadx.BendXProofs Bmadx.BendXGeom Bmadx.BendXJac.
Open Scope R_scope.

Section Sect.
Variables (g py pz : R).
Hypothesis Hg : g <> 0.
Let n2 := (1 + pz) ^ 2 - py ^ 2.
Definition sect_U (x px : R) : R := sect_w px py pz - (1 + g * x).

Lemma sect_px_rot th x px : sect_px g th x px py pz = px * cos th + sin th * sect_U x px.
Proof. reflexivity. Qed.

Lemma sect_w_sq px : 0 <= n2 - px ^ 2 -> sect_w px py pz * sect_w px py pz = n2 - px ^ 2.
Proof. intros H. unfold sect_w. fold n2. apply sqrt_sqrt. exact H. Qed.

(** D = px_norm^2 - px'^2: the radicand of the exit position is the squared longitudinal momentum at the exit *)
Lemma sect_D_spec th x px : 0 <= n2 - px ^ 2 ->
  sect_D g th x px py pz = n2 - (sect_px g th x px py pz) ^ 2.
Proof.
  intros H. pose proof (sect_w_sq px H) as W. pose proof (sin2_cos2 th) as T. unfold Rsqr in T.
  unfold sect_D, sect_px. set (w := sect_w px py pz) in *. set (G := 1 + g * x).
  replace n2 with (w * w + px ^ 2) by lra.
  replace (w * w + px ^ 2 - (px * cos th + sin th * (w - G)) ^ 2)
    with ((w * w + px ^ 2) * (sin th * sin th + cos th * cos th) - (px * cos th + sin th * (w - G)) ^ 2) by (rewrite T; ring).
  ring.
Qed.

Lemma sect_w_exit th x px : 0 <= n2 - px ^ 2 ->
  sect_w (sect_px g th x px py pz) py pz = sqrt (sect_D g th x px py pz).
Proof. intros H. rewrite (sect_D_spec th x px H). reflexivity. Qed.

Lemma sect_x_rot th x px :
  sect_x g th x px py pz = (sqrt (sect_D g th x px py pz) - (cos th * sect_U x px - sin th * px) - 1) / g.
Proof. unfold sect_x, sect_U. f_equal. ring. Qed.

(** (px, U) is rotated by the bend angle *)
Lemma sect_U_rot th x px : 0 <= n2 - px ^ 2 ->
  sect_U (sect_x g th x px py pz) (sect_px g th x px py pz) = cos th * sect_U x px - sin th * px.
Proof.
  intros H. unfold sect_U at 1. rewrite (sect_w_exit th x px H), sect_x_rot. field. exact Hg.
Qed.

(** flow law of the exact sector map *)
Theorem sect_flow th1 th2 x px :
  0 <= n2 - px ^ 2 -> 0 <= sect_D g th1 x px py pz ->
  sect_px g th2 (sect_x g th1 x px py pz) (sect_px g th1 x px py pz) py pz = sect_px g (th1 + th2) x px py pz /\
  sect_x g th2 (sect_x g th1 x px py pz) (sect_px g th1 x px py pz) py pz = sect_x g (th1 + th2) x px py pz.
Proof.
  intros H HD.
  assert (H' : 0 <= n2 - (sect_px g th1 x px py pz) ^ 2) by (rewrite <- (sect_D_spec th1 x px H); exact HD).
  assert (Epx : sect_px g th2 (sect_x g th1 x px py pz) (sect_px g th1 x px py pz) py pz = sect_px g (th1 + th2) x px py pz).
  { rewrite sect_px_rot, (sect_U_rot th1 x px H), !sect_px_rot, cos_plus, sin_plus. ring. }
  split; [exact Epx|].
  pose proof (sect_U_rot th1 x px H) as EU.
  set (x1 := sect_x g th1 x px py pz) in *. set (p1 := sect_px g th1 x px py pz) in *.
  rewrite (sect_x_rot th2 x1 p1), (sect_x_rot (th1 + th2) x px).
  rewrite (sect_D_spec th2 x1 p1 H'), Epx, <- (sect_D_spec (th1 + th2) x px H), EU.
  unfold p1. rewrite sect_px_rot, cos_plus, sin_plus. f_equal. ring.
Qed.
End Sect.

(** flow law of the coded body in x and px (py, pz are untouched): for two pieces of the same curvature angle1/length1 =
    angle2/length2, wherever the code is defined for the first piece, for the second piece at the intermediate particle and for the
    whole *)
Theorem body_flow_x_px L1 a1 L2 a2 p0c m q :
  L1 <> 0 -> a1 <> 0 -> L2 <> 0 -> a2 <> 0 -> L1 + L2 <> 0 -> a1 + a2 <> 0 ->
  bb_g L2 a2 = bb_g L1 a1 -> bb_g (L1 + L2) (a1 + a2) = bb_g L1 a1 ->
  bb_defined L1 a1 q -> bb_defined L2 a2 (bendx_body L1 a1 p0c m q) -> bb_defined (L1 + L2) (a1 + a2) q ->
  let q2 := bendx_body L2 a2 p0c m (bendx_body L1 a1 p0c m q) in let qw := bendx_body (L1 + L2) (a1 + a2) p0c m q in
  bx q2 = bx qw /\ bpx q2 = bpx qw /\ bpy q2 = bpy qw /\ bpz q2 = bpz qw.
Proof.
  intros HL1 Ha1 HL2 Ha2 HL Ha Hg2 Hg D1 D2 Dw. cbv zeta.
  destruct (body_is_sector_map L1 a1 HL1 Ha1 p0c m q D1) as [P1 X1].
  destruct (body_is_sector_map L2 a2 HL2 Ha2 p0c m _ D2) as [P2 X2].
  destruct (body_is_sector_map _ _ HL Ha p0c m q Dw) as [Pw Xw].
  destruct (body_py_pz L1 a1 p0c m q) as [Y1 Z1].
  rewrite P2, X2, Pw, Xw, Hg2, Hg, Y1, Z1, P1, X1.
  pose proof (bb_g_nz L1 a1 HL1 Ha1) as G.
  assert (Hn : 0 <= (1 + bpz q) ^ 2 - bpy q ^ 2 - bpx q ^ 2).
  { pose proof D1 as D1c. destruct D1c as (_ & _ & Hr & Hpx & _). cbv zeta in Hr, Hpx.
    assert (N2 : bb_n (bpy q) (bpz q) * bb_n (bpy q) (bpz q) = (1 + bpz q) ^ 2 - bpy q ^ 2) by (unfold bb_n; apply sqrt_sqrt; lra).
    nra. }
  assert (HD : 0 <= sect_D (bb_g L1 a1) a1 (bx q) (bpx q) (bpy q) (bpz q)).
  { (* n^2 * radicand = D and the radicand is >= 0 where the code is defined *)
    pose proof D1 as D1c. destruct D1c as (_ & _ & Hr & Hpx & Hrad & _). cbv zeta in Hr, Hpx, Hrad.
    rewrite (sect_D_spec (bb_g L1 a1) (bpy q) (bpz q) a1 (bx q) (bpx q) Hn).
    destruct (body_uniform_field L1 a1 HL1 Ha1 p0c m q D1)
      as (U1 & _). cbv zeta in U1. rewrite <- P1, U1.
    assert (N2 : bb_n (bpy q) (bpz q) * bb_n (bpy q) (bpz q) = (1 + bpz q) ^ 2 - bpy q ^ 2) by (unfold bb_n; apply sqrt_sqrt; lra).
    match goal with |- context [sin ?a] => pose proof (SIN_bound a) as [S1 S2]; set (sa := sin a) in * end.
    set (n := bb_n (bpy q) (bpz q)) in *.
    replace ((1 + bpz q) ^ 2 - bpy q ^ 2 - (n * sa) ^ 2) with (n * n * (1 - sa * sa)) by (rewrite <- N2; ring).
    apply Rmult_le_pos; nra. }
  destruct (sect_flow (bb_g L1 a1) (bpy q) (bpz q) G a1 a2 (bx q) (bpx q) Hn HD) as [Fp Fx].
  repeat split; try assumption; try reflexivity.
Qed.

(* ---------- y and z *)
(** the exit angle as the code computes it, phi2 = angle + phi1 - theta_p; "no wrap" = it lies in the principal range, i.e. arctan2
    returned the chord's polar angle without a jump by 2 pi (violated e.g. for angle < -pi, finding F70) *)
Definition bb_phi2 (L ang : R) (q : bpart) : R :=
  ang + bb_phi1 (bpx q) (bpy q) (bpz q)
  - bb_thp_b L ang (bb_x2 L ang (bx q) (bpx q) (bpy q) (bpz q)) (bx q) (bpx q) (bpy q) (bpz q) (bb_quadrant L ang q).
Definition bb_nowrap (L ang : R) (q : bpart) : Prop := - (PI / 2) <= bb_phi2 L ang q <= PI / 2.

(** closed form of y' and z': the arc length is (angle + phi1 - phi1')/g * px_norm, phi1' = arcsin(px'/px_norm) the entrance angle of the
    NEXT element *)
Lemma body_yz_closed L ang p0c m q : L <> 0 -> ang <> 0 -> bb_defined L ang q -> bb_nowrap L ang q ->
  let q' := bendx_body L ang p0c m q in
  let turn := ang + bb_phi1 (bpx q) (bpy q) (bpz q) - bb_phi1 (bpx q') (bpy q) (bpz q) in
  by_ q' = by_ q + bpy q * turn / bb_g L ang /\
  bz q' = bz q + bb_beta (bpz q) p0c m * L / bb_beta0 p0c m - (1 + bpz q) * turn / bb_g L ang.
Proof.
  intros HL Ha D NW. cbv zeta.
  destruct (body_uniform_field L ang HL Ha p0c m q D) as (U1 & _). cbv zeta in U1.
  pose proof (body_arc_length L ang HL Ha q D) as A.
  destruct (body_y_advance L ang p0c m q) as [Y Z]. cbv zeta in Y, Z. rewrite A in Y, Z.
  pose proof (model_n_pos L ang q D) as Hn. pose proof (bb_g_nz L ang HL Ha) as Hg.
  fold (bb_phi2 L ang q) in U1.
  assert (E : bb_phi1 (bpx (bendx_body L ang p0c m q)) (bpy q) (bpz q) = bb_phi2 L ang q).
  { unfold bb_phi1 at 1. rewrite U1.
    replace (bb_n (bpy q) (bpz q) * sin (bb_phi2 L ang q) / bb_n (bpy q) (bpz q)) with (sin (bb_phi2 L ang q)) by (field; lra).
    apply asin_sin. exact NW. }
  rewrite E. unfold bb_phi2.
  set (thp := bb_thp_b L ang _ _ _ _ _ _) in *. set (n := bb_n (bpy q) (bpz q)) in *.
  split.
  - rewrite Y. field. repeat split; first [exact Hg | lra].
  - rewrite Z. set (bt := bb_beta (bpz q) p0c m * L / bb_beta0 p0c m). field. repeat split; first [exact Hg | lra].
Qed.

(** (f) flow law in all six coordinates: two consecutive bodies of equal curvature are the body of the total length and angle, wherever
    the code is defined and arctan2 does not wrap for the first piece, for the second piece at the intermediate particle, and for the whole *)
Theorem body_flow L1 a1 L2 a2 p0c m q :
  L1 <> 0 -> a1 <> 0 -> L2 <> 0 -> a2 <> 0 -> L1 + L2 <> 0 -> a1 + a2 <> 0 ->
  bb_g L2 a2 = bb_g L1 a1 -> bb_g (L1 + L2) (a1 + a2) = bb_g L1 a1 ->
  bb_defined L1 a1 q -> bb_defined L2 a2 (bendx_body L1 a1 p0c m q) -> bb_defined (L1 + L2) (a1 + a2) q ->
  bb_nowrap L1 a1 q -> bb_nowrap L2 a2 (bendx_body L1 a1 p0c m q) -> bb_nowrap (L1 + L2) (a1 + a2) q ->
  bendx_body L2 a2 p0c m (bendx_body L1 a1 p0c m q) = bendx_body (L1 + L2) (a1 + a2) p0c m q.
Proof.
  intros HL1 Ha1 HL2 Ha2 HL Ha Hg2 Hg D1 D2 Dw N1 N2 Nw.
  destruct (body_flow_x_px L1 a1 L2 a2 p0c m q HL1 Ha1 HL2 Ha2 HL Ha Hg2 Hg D1 D2 Dw) as (Fx & Fpx & Fpy & Fpz).
  destruct (body_yz_closed L1 a1 p0c m q HL1 Ha1 D1 N1) as [Y1 Z1].
  destruct (body_yz_closed L2 a2 p0c m _ HL2 Ha2 D2 N2) as [Y2 Z2].
  destruct (body_yz_closed _ _ p0c m q HL Ha Dw Nw) as [Yw Zw].
  destruct (body_py_pz L1 a1 p0c m q) as [P1 Q1].
  cbv zeta in *. rewrite P1, Q1 in Y2, Z2. rewrite Hg2 in Y2, Z2. rewrite Hg in Yw, Zw. rewrite Fpx in Y2, Z2.
  pose proof (bb_g_nz L1 a1 HL1 Ha1) as G.
  assert (Fy : by_ (bendx_body L2 a2 p0c m (bendx_body L1 a1 p0c m q)) = by_ (bendx_body (L1 + L2) (a1 + a2) p0c m q)).
  { rewrite Y2, Yw, Y1. field. exact G. }
  assert (Fz : bz (bendx_body L2 a2 p0c m (bendx_body L1 a1 p0c m q)) = bz (bendx_body (L1 + L2) (a1 + a2) p0c m q)).
  { rewrite Z2, Zw, Z1. unfold Rdiv. ring. }
  clear - Fx Fpx Fpy Fpz Fy Fz.
  remember (bendx_body L2 a2 p0c m (bendx_body L1 a1 p0c m q)) as A eqn:EA. remember (bendx_body (L1 + L2) (a1 + a2) p0c m q) as B eqn:EB.
  clear EA EB. destruct A as [xa pxa ya pya za pza], B as [xb pxb yb pyb zb pzb].
  cbn [bx bpx by_ bpy bz bpz] in *. subst. reflexivity.
Qed.
