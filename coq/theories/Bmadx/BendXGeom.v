(** The body of the Bmad-X dipole (model: BendX.v) is the exact motion in a uniform magnetic field: the trajectory in the bending
    plane is an arc of ONE circle of radius px_norm/g (the centre of curvature computed from the exit coordinates is the centre
    computed from the entrance coordinates), the exit momentum has a closed form free of arctan2, the path length is radius * angle.

    Frame: the reference orbit is the circle of radius rho = 1/g about the origin, entrance at polar angle 0, exit at polar angle
    `angle`; a particle at (x, px) sits at the point (rho + x) e(polar angle) and moves in the direction cos(phi) t + sin(phi) e,
    sin(phi) = px/px_norm (e radial, t tangential unit vectors).  Its orbit has radius r = px_norm/g and the centre
    C = (R - r cos phi) e + r sin phi t. *)
From Coq Require Import Reals Lra Psatz.
From Cheetah Require Import Bmadx.Coords Bmadx.DriftX Bmadx.Tdc Bmadx.BendX Bmadx.BendXProofs.
Open Scope R_scope.

(* ---------- arctan2 returns the polar angle *)
Lemma sqrt_sq_pos a : 0 < a -> sqrt (a * a) = a.
Proof. intros H. apply sqrt_square. lra. Qed.

Lemma atan_cos_sin_pos y x : 0 < x ->
  cos (atan (y / x)) = x / sqrt (x ^ 2 + y ^ 2) /\ sin (atan (y / x)) = y / sqrt (x ^ 2 + y ^ 2).
Proof.
  intros Hx. rewrite cos_atan, sin_atan.
  assert (Hd : 0 < x ^ 2 + y ^ 2) by nra.
  assert (Hs : 0 < sqrt (x ^ 2 + y ^ 2)) by (apply sqrt_lt_R0; exact Hd).
  assert (E : sqrt (1 + (y / x)²) = sqrt (x ^ 2 + y ^ 2) / x).
  { replace (1 + (y / x)²) with ((x ^ 2 + y ^ 2) / (x * x)) by (unfold Rsqr; field; lra).
    rewrite sqrt_div_alt by nra. rewrite (sqrt_sq_pos x Hx). reflexivity. }
  rewrite E. split; field; lra.
Qed.
Lemma atan_cos_sin_neg y x : x < 0 ->
  - cos (atan (y / x)) = x / sqrt (x ^ 2 + y ^ 2) /\ - sin (atan (y / x)) = y / sqrt (x ^ 2 + y ^ 2).
Proof.
  intros Hx. destruct (atan_cos_sin_pos (- y) (- x)) as [C S]; [lra|].
  replace (- y / - x) with (y / x) in * by (field; lra).
  replace ((- x) ^ 2 + (- y) ^ 2) with (x ^ 2 + y ^ 2) in * by ring.
  rewrite C, S. split; field; apply Rgt_not_eq, sqrt_lt_R0; nra.
Qed.

Lemma atan2_polar y x : 0 < x ^ 2 + y ^ 2 ->
  cos (atan2 y x) = x / sqrt (x ^ 2 + y ^ 2) /\ sin (atan2 y x) = y / sqrt (x ^ 2 + y ^ 2).
Proof.
  intros Hd. unfold atan2, quadrant_of.
  destruct (Rlt_dec 0 x) as [Hx|Hx]; [apply atan_cos_sin_pos; exact Hx|].
  destruct (Rlt_dec x 0) as [Hx'|Hx'].
  - destruct (atan_cos_sin_neg y x Hx') as [C S].
    destruct (Rle_dec 0 y); cbn [atan2_b].
    + rewrite neg_cos, neg_sin. split; assumption.
    + unfold Rminus. rewrite cos_plus, sin_plus, cos_neg, sin_neg, cos_PI, sin_PI. rewrite <- C, <- S. split; ring.
  - assert (x = 0) by lra. subst x.
    replace (0 ^ 2 + y ^ 2) with (y * y) in * by ring.
    destruct (Rlt_dec 0 y) as [Hy|Hy]; cbn [atan2_b].
    + rewrite cos_PI2, sin_PI2, (sqrt_sq_pos y Hy). split; field; lra.
    + destruct (Rlt_dec y 0) as [Hy'|Hy']; cbn [atan2_b].
      * rewrite cos_neg, sin_neg, cos_PI2, sin_PI2. replace (y * y) with ((- y) * (- y)) by ring.
        rewrite (sqrt_sq_pos (- y)) by lra. split; field; lra.
      * exfalso. assert (y = 0) by lra. subst y. lra.
Qed.

(* ---------- the exit direction: theta_p = 2 (a - pi/2 - psi), exit angle a - theta_p = pi - (a - 2 psi) *)
Lemma exit_angle a psi :
  sin (a - 2 * (a - PI / 2 - psi)) = sin a * (cos psi * cos psi - sin psi * sin psi) - cos a * (2 * sin psi * cos psi) /\
  cos (a - 2 * (a - PI / 2 - psi)) = - (cos a * (cos psi * cos psi - sin psi * sin psi) + sin a * (2 * sin psi * cos psi)).
Proof.
  replace (a - 2 * (a - PI / 2 - psi)) with (PI - (a - 2 * psi)) by field.
  rewrite sin_PI_x.
  replace (cos (PI - (a - 2 * psi))) with (- cos (a - 2 * psi)) by (rewrite (cos_minus PI), cos_PI, sin_PI; ring).
  rewrite sin_minus, cos_minus, sin_2a, cos_2a. split; ring.
Qed.

(* ---------- the algebra: x2 solves the circle equation, and the chord (u, v) satisfies u^2 + v^2 = -2 r (B u + A v) *)
Section Core.
Variables (g n x th a t2 psi : R).
Hypotheses (Hg : g <> 0) (Hn : n <> 0).
Let gp := g / n.
Let r := n / g.
Let S := sin th / g.
Let al := 2 * (1 + g * x) * sin a * S - gp * ((1 + g * x) * S) ^ 2.
Hypothesis Ht2 : t2 * t2 = (cos a) ^ 2 + gp * al.
Let x2 := x * cos th + (cos th - 1) / g + (t2 - cos a) / gp.
Let u := x2 - (cos th - 1) / g - x * cos th.
Let v := - S - x * sin th.
Let R1 := 1 / g + x.
Let R2 := 1 / g + x2.

Lemma core_R2 : R2 = R1 * cos th - r * cos a + r * t2.
Proof. unfold R2, x2, R1, r, gp. field. split; assumption. Qed.

Lemma core_u : u = r * (t2 - cos a).
Proof. unfold u, x2, r, gp. field. split; assumption. Qed.
Lemma core_v : v = - R1 * sin th.
Proof. unfold v, S, R1. field. assumption. Qed.

Lemma core_t2 : r * r * (t2 * t2) = r * r * (cos a) ^ 2 + 2 * r * sin a * R1 * sin th - (R1 * sin th) ^ 2.
Proof. rewrite Ht2. unfold al, gp, S, r, R1. field. split; assumption. Qed.

(** the exit point lies on the circle of radius r about the centre C = (R1 - r cos phi1, r sin phi1):
    |R2 e(th) - C|^2 = r^2, written out (cos phi1 = cos(a - th)) *)
Lemma core_on_circle :
  R2 * R2 - 2 * R2 * (R1 * cos th - r * cos a) + R1 * R1 - 2 * R1 * r * (cos a * cos th + sin a * sin th) = 0.
Proof.
  pose proof core_t2 as Q. rewrite core_R2. pose proof (sin2_cos2 th) as T. unfold Rsqr in T.
  replace (R1 * R1) with (R1 * R1 * (sin th * sin th + cos th * cos th)) by (rewrite T; ring). nra.
Qed.

Lemma core_chord : u * u + v * v = - 2 * r * (cos a * u + sin a * v).
Proof.
  pose proof core_t2 as Q. rewrite core_u, core_v. pose proof (sin2_cos2 a) as T. unfold Rsqr in T. nra.
Qed.

Hypothesis Hd : 0 < u ^ 2 + v ^ 2.
Hypothesis Hpsi : cos psi = u / sqrt (u ^ 2 + v ^ 2) /\ sin psi = v / sqrt (u ^ 2 + v ^ 2).

(** sine and cosine of the exit angle phi2 = a - theta_p:  r sin phi2 = r sin a + v,  r cos phi2 = r cos a + u *)
Lemma core_exit_angle :
  r * sin (a - 2 * (a - PI / 2 - psi)) = r * sin a + v /\ r * cos (a - 2 * (a - PI / 2 - psi)) = r * cos a + u.
Proof.
  destruct (exit_angle a psi) as [Es Ec]. rewrite Es, Ec. destruct Hpsi as [Cp Sp]. rewrite Cp, Sp.
  pose proof core_chord as K.
  assert (Hs : 0 < sqrt (u ^ 2 + v ^ 2)) by (apply sqrt_lt_R0; exact Hd).
  assert (Hss : sqrt (u ^ 2 + v ^ 2) * sqrt (u ^ 2 + v ^ 2) = u * u + v * v).
  { rewrite sqrt_sqrt by lra. ring. }
  set (d := sqrt (u ^ 2 + v ^ 2)) in *.
  assert (Hd2 : u * u + v * v <> 0) by nra.
  split.
  - replace (r * (sin a * (u / d * (u / d) - v / d * (v / d)) - cos a * (2 * (v / d) * (u / d))))
      with ((r * sin a * (u * u + v * v) - 2 * r * v * (cos a * u + sin a * v)) / (d * d)) by (field; lra).
    replace (2 * r * v * (cos a * u + sin a * v)) with (- v * (- 2 * r * (cos a * u + sin a * v))) by ring.
    rewrite <- K, Hss. field. exact Hd2.
  - replace (r * - (cos a * (u / d * (u / d) - v / d * (v / d)) + sin a * (2 * (v / d) * (u / d))))
      with ((r * cos a * (u * u + v * v) - 2 * r * u * (cos a * u + sin a * v)) / (d * d)) by (field; lra).
    replace (2 * r * u * (cos a * u + sin a * v)) with (- u * (- 2 * r * (cos a * u + sin a * v))) by ring.
    rewrite <- K, Hss. field. exact Hd2.
Qed.

(** closed form of the exit momentum, free of arctan2:  n sin phi2 = n sin a - (1 + g x) sin th *)
Lemma core_pxf : n * sin (a - 2 * (a - PI / 2 - psi)) = n * sin a - (1 + g * x) * sin th.
Proof.
  destruct core_exit_angle as [Es _].
  replace (n * sin (a - 2 * (a - PI / 2 - psi))) with (g * (r * sin (a - 2 * (a - PI / 2 - psi)))) by (unfold r; field; assumption).
  rewrite Es, core_v. unfold r, R1. field. assumption.
Qed.

(** the centre of curvature computed from the exit coordinates (in the exit frame, rotated back by th) is the centre computed
    from the entrance coordinates: the orbit is an arc of one circle of radius r *)
Lemma core_centre :
  let s2 := sin (a - 2 * (a - PI / 2 - psi)) in let c2 := cos (a - 2 * (a - PI / 2 - psi)) in
  (R2 - r * c2) * cos th - r * s2 * sin th = R1 - r * (cos a * cos th + sin a * sin th) /\
  (R2 - r * c2) * sin th + r * s2 * cos th = r * (sin a * cos th - cos a * sin th).
Proof.
  destruct core_exit_angle as [Es Ec]. cbv zeta. rewrite Es, Ec, core_v, core_u, core_R2.
  pose proof (sin2_cos2 th) as T. unfold Rsqr in T. split; [|ring].
  transitivity (R1 * (sin th * sin th + cos th * cos th) - r * (cos a * cos th + sin a * sin th)); [ring | rewrite T; ring].
Qed.

(** chord and half angle: sin(theta_p/2) = chord/(2r), hence chord/sinc(theta_p/2) = r * theta_p *)
Lemma core_half_angle : 2 * r * sin (a - PI / 2 - psi) = sqrt (u ^ 2 + v ^ 2).
Proof.
  replace (a - PI / 2 - psi) with (- (PI / 2 - (a - psi))) by ring.
  rewrite sin_neg, sin_shift, cos_minus. destruct Hpsi as [Cp Sp]. rewrite Cp, Sp.
  pose proof core_chord as K.
  assert (Hs : 0 < sqrt (u ^ 2 + v ^ 2)) by (apply sqrt_lt_R0; exact Hd).
  assert (Hss : sqrt (u ^ 2 + v ^ 2) * sqrt (u ^ 2 + v ^ 2) = u * u + v * v).
  { rewrite sqrt_sqrt by lra. ring. }
  set (d := sqrt (u ^ 2 + v ^ 2)) in *.
  replace (2 * r * - (cos a * (u / d) + sin a * (v / d))) with ((- 2 * r * (cos a * u + sin a * v)) / d) by (field; lra).
  rewrite <- K, <- Hss. field. lra.
Qed.

Lemma core_arc : a - PI / 2 - psi <> 0 ->
  sqrt (u ^ 2 + v ^ 2) / (sin (a - PI / 2 - psi) / (a - PI / 2 - psi)) = r * (2 * (a - PI / 2 - psi)).
Proof.
  intros Hz. pose proof core_half_angle as Hh.
  assert (Hs : 0 < sqrt (u ^ 2 + v ^ 2)) by (apply sqrt_lt_R0; exact Hd).
  assert (sin (a - PI / 2 - psi) <> 0) by (intro E; rewrite E in Hh; lra).
  rewrite <- Hh. set (w := a - PI / 2 - psi) in *. set (sw := sin w) in *. field. split; assumption.
Qed.
End Core.

(* ---------- the model *)
Section Model.
Variables (L ang : R).
Hypotheses (HL : L <> 0) (Hang : ang <> 0).

Lemma bb_S_spec : L * bx_sinc ang = sin ang / bb_g L ang.
Proof. rewrite bx_sinc_nz by assumption. unfold bb_g. field. split; assumption. Qed.
Lemma bb_K_spec : L ^ 2 * bb_g L ang * bx_cosc ang = (cos ang - 1) / bb_g L ang.
Proof. rewrite bx_cosc_spec by assumption. unfold bb_g. field. split; assumption. Qed.
Lemma bb_g_nz : bb_g L ang <> 0.
Proof. unfold bb_g, Rdiv. apply Rmult_integral_contrapositive_currified; [assumption|apply Rinv_neq_0_compat; assumption]. Qed.

Variables (p0c m : R) (q : bpart).
Hypothesis Hdef : bb_defined L ang q.

Let x := bx q. Let px := bpx q. Let py := bpy q. Let pz := bpz q.
Let g := bb_g L ang.
Let n := bb_n py pz.
Let r := n / g.
Let phi1 := bb_phi1 px py pz.
Let x2 := bb_x2 L ang x px py pz.
Let thp := bb_thp_b L ang x2 x px py pz (bb_quadrant L ang q).
Let phi2 := ang + phi1 - thp.
Let R1 := 1 / g + x.
Let R2 := 1 / g + x2.

Lemma model_n_pos : 0 < n.
Proof. destruct Hdef as (_ & _ & Hr & _). unfold n, bb_n. apply sqrt_lt_R0. exact Hr. Qed.

(* the exit position in the c2 form, whichever branch the code takes *)
Lemma model_x2 :
  x2 = x * cos ang + (cos ang - 1) / g + (bb_t2 L ang x px py pz - cos (ang + phi1)) / (g / n).
Proof.
  destruct Hdef as (_ & _ & Hr & Hpx & Hrad & Hsum & _). pose proof model_n_pos as Hn. pose proof bb_g_nz as Hg.
  assert (Hgp : bb_gp L ang py pz <> 0).
  { unfold bb_gp, Rdiv. apply Rmult_integral_contrapositive_currified; [exact Hg|apply Rinv_neq_0_compat; fold n; lra]. }
  unfold x2, bb_x2. rewrite (bb_x2_branch_irrelevant L ang x px py pz _ false Hgp Hsum Hrad).
  cbn [bb_x2_b]. unfold bb_c2, bb_t1, bb_t3. rewrite bb_K_spec. reflexivity.
Qed.

Lemma model_alpha :
  bb_alpha L ang x px py pz
  = 2 * (1 + g * x) * sin (ang + phi1) * (sin ang / g) - g / n * ((1 + g * x) * (sin ang / g)) ^ 2.
Proof.
  unfold bb_alpha, g. rewrite <- bb_S_spec. unfold bb_gp, n, phi1. ring.
Qed.

Lemma model_t2 :
  bb_t2 L ang x px py pz * bb_t2 L ang x px py pz
  = (cos (ang + phi1)) ^ 2 + g / n * (2 * (1 + g * x) * sin (ang + phi1) * (sin ang / g) - g / n * ((1 + g * x) * (sin ang / g)) ^ 2).
Proof.
  destruct Hdef as (_ & _ & _ & _ & Hrad & _). rewrite <- model_alpha. unfold bb_t2. rewrite sqrt_sqrt by exact Hrad. reflexivity.
Qed.

Lemma model_Lcu : bb_Lcu L ang x2 x = x2 - (cos ang - 1) / g - x * cos ang.
Proof. unfold bb_Lcu. rewrite bb_K_spec. reflexivity. Qed.
Lemma model_Lcv : bb_Lcv L ang x = - (sin ang / g) - x * sin ang.
Proof. unfold bb_Lcv. replace (- L * bx_sinc ang) with (- (L * bx_sinc ang)) by ring. rewrite bb_S_spec. reflexivity. Qed.

Lemma model_thp : thp = 2 * (ang + phi1 - PI / 2 - atan2 (bb_Lcv L ang x) (bb_Lcu L ang x2 x)).
Proof. reflexivity. Qed.

Lemma model_Lc_pos : 0 < (bb_Lcu L ang x2 x) ^ 2 + (bb_Lcv L ang x) ^ 2.
Proof.
  destruct Hdef as (_ & _ & _ & _ & _ & _ & Hc). fold x px py pz x2 in Hc. unfold bb_Lc in Hc.
  destruct (Rle_lt_dec ((bb_Lcu L ang x2 x) ^ 2 + (bb_Lcv L ang x) ^ 2) 0) as [Hle|Hlt]; [|exact Hlt].
  exfalso. apply Hc. apply sqrt_neg_0. exact Hle.
Qed.

(** (d) exact motion in a uniform field *)
Theorem body_uniform_field :
  let q' := bendx_body L ang p0c m q in
  (* exit momentum: px' = px_norm sin(phi2), and in closed form *)
  bpx q' = n * sin phi2 /\
  bpx q' = n * sin (ang + phi1) - (1 + g * x) * sin ang /\
  bx q' = x2 /\
  (* the exit point lies on the circle of radius r = px_norm/g about the centre defined by the entrance coordinates *)
  R2 * R2 - 2 * R2 * (R1 * cos ang - r * cos (ang + phi1)) + R1 * R1 - 2 * R1 * r * cos phi1 = 0 /\
  (* the centre of curvature defined by the exit coordinates is the one defined by the entrance coordinates *)
  (R2 - r * cos phi2) * cos ang - r * sin phi2 * sin ang = R1 - r * cos phi1 /\
  (R2 - r * cos phi2) * sin ang + r * sin phi2 * cos ang = r * sin phi1.
Proof.
  pose proof model_n_pos as Hn. pose proof bb_g_nz as Hg. fold g in Hg.
  assert (Hn' : n <> 0) by lra.
  pose proof model_Lc_pos as Hd. rewrite model_Lcu, model_Lcv in Hd.
  pose proof (atan2_polar _ _ model_Lc_pos) as Hpsi.
  set (psi := atan2 (bb_Lcv L ang x) (bb_Lcu L ang x2 x)) in *. rewrite model_Lcu, model_Lcv in Hpsi.
  assert (Ephi2 : phi2 = (ang + phi1) - 2 * ((ang + phi1) - PI / 2 - psi)) by (unfold phi2; rewrite model_thp; reflexivity).
  rewrite model_x2 in Hd, Hpsi.
  pose proof (core_pxf g n x ang (ang + phi1) _ psi Hg Hn' model_t2 Hd Hpsi) as Hpx.
  pose proof (core_centre g n x ang (ang + phi1) _ psi Hg Hn' model_t2 Hd Hpsi) as Hc. cbv zeta in Hc.
  pose proof (core_on_circle g n x ang (ang + phi1) _ Hg Hn' model_t2) as Hon.
  rewrite <- model_x2 in Hc, Hon. rewrite <- Ephi2 in Hpx, Hc.
  assert (Ec1 : cos (ang + phi1) * cos ang + sin (ang + phi1) * sin ang = cos phi1).
  { rewrite <- cos_minus. f_equal. ring. }
  assert (Es1 : sin (ang + phi1) * cos ang - cos (ang + phi1) * sin ang = sin phi1).
  { rewrite <- sin_minus. f_equal. ring. }
  rewrite Ec1 in Hc, Hon. rewrite Es1 in Hc. destruct Hc as [Hc1 Hc2].
  cbv zeta. unfold bendx_body, bendx_body_b. cbn [bx bpx]. fold x px py pz x2.
  unfold bb_pxf_b. fold n phi1 thp phi2.
  repeat split; assumption.
Qed.

(** path length: Lp = chord / sinc(theta_p/2) = r * theta_p (radius times the angle by which the direction turns) *)
Theorem body_arc_length :
  bb_Lp_b L ang x2 x px py pz (bb_quadrant L ang q) (bb_zero L ang q) = r * thp.
Proof.
  pose proof model_n_pos as Hn. pose proof bb_g_nz as Hg. fold g in Hg.
  assert (Hn' : n <> 0) by lra.
  pose proof model_Lc_pos as Hd. rewrite model_Lcu, model_Lcv in Hd.
  pose proof (atan2_polar _ _ model_Lc_pos) as Hpsi.
  unfold bb_Lp_b, bb_Lc. fold thp.
  assert (Eh : thp / 2 = ang + phi1 - PI / 2 - atan2 (bb_Lcv L ang x) (bb_Lcu L ang x2 x)) by (rewrite model_thp; field).
  set (psi := atan2 (bb_Lcv L ang x) (bb_Lcu L ang x2 x)) in *. rewrite model_Lcu, model_Lcv in Hpsi.
  rewrite model_x2 in Hd, Hpsi.
  destruct (Req_dec (thp / 2) 0) as [Hz|Hz].
  - (* theta_p = 0 cannot happen: the chord would vanish *)
    exfalso. pose proof (core_half_angle g n x ang (ang + phi1) _ psi Hg Hn' model_t2 Hd Hpsi) as Hh.
    rewrite <- Eh, Hz, sin_0 in Hh. assert (0 < sqrt ((x * cos ang + (cos ang - 1) / g + (bb_t2 L ang x px py pz - cos (ang + phi1)) / (g / n) - (cos ang - 1) / g - x * cos ang) ^ 2 + (- (sin ang / g) - x * sin ang) ^ 2)) by (apply sqrt_lt_R0; exact Hd). lra.
  - assert (Ez : bb_zero L ang q = false) by (unfold bb_zero; fold x px py pz x2 thp; apply is0_false; exact Hz).
    rewrite Ez. cbn [bx_sinc_b]. rewrite model_Lcu, model_Lcv, model_x2.
    rewrite Eh in Hz |- *.
    rewrite (core_arc g n x ang (ang + phi1) _ psi Hg Hn' model_t2 Hd Hpsi Hz).
    fold r. rewrite <- Eh. field.
Qed.
End Model.
