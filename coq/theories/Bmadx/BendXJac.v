(** (c) The body of the Bmad-X dipole (model: BendX.v) is the exact sector-bend map, and its Jacobian at the design orbit is the
    matrix of the linear sector bend.

    [sect_x], [sect_px]: the exact map of a sector bend of curvature g and angle th for (x, px) at given py, pz, free of arcsin/arctan2:
      w   = sqrt((1+pz)^2 - py^2 - px^2)                                   (longitudinal momentum at the entrance)
      px' = px cos th + sin th (w - (1 + g x))
      x'  = ((1 + g x) cos th - (w cos th - px sin th) + sqrt(D) - 1) / g,
      D   = (w cos th - px sin th)^2 + 2 (w sin th + px cos th)(1 + g x) sin th - ((1 + g x) sin th)^2
    body_is_sector_map: the coded body IS this map wherever the code is defined (bb_defined).
    sect_jacobian: the partial derivatives of this map at (0,0,0,0) w.r.t. x, px, pz are cos th, sin th / g, (1 - cos th)/g and
    -g sin th, cos th, sin th: the entries cx, sx, dx, -kx2 sx, cx, sx hx of base_untilted at kx2 = hx^2 (see sector_entries_vs_base). *)
From Coq Require Import Reals Lra Psatz.
From Coquelicot Require Import Coquelicot.
From Cheetah Require Import Base.Mat Optics.Maps Bmadx.Coords Bmadx.DriftX Bmadx.Tdc Bmadx.BendX Bmadx.BendXProofs Bmadx.BendXGeom.
Open Scope R_scope.

Definition sect_w (px py pz : R) : R := sqrt ((1 + pz) ^ 2 - py ^ 2 - px ^ 2).
Definition sect_px (g th x px py pz : R) : R := px * cos th + sin th * (sect_w px py pz - (1 + g * x)).
Definition sect_D (g th x px py pz : R) : R :=
  (sect_w px py pz * cos th - px * sin th) ^ 2
  + 2 * (sect_w px py pz * sin th + px * cos th) * (1 + g * x) * sin th - ((1 + g * x) * sin th) ^ 2.
Definition sect_x (g th x px py pz : R) : R :=
  ((1 + g * x) * cos th - (sect_w px py pz * cos th - px * sin th) + sqrt (sect_D g th x px py pz) - 1) / g.

Section Model.
Variables (L ang : R).
Hypotheses (HL : L <> 0) (Hang : ang <> 0).
Variables (p0c m : R) (q : bpart).
Hypothesis Hdef : bb_defined L ang q.
Let x := bx q. Let px := bpx q. Let py := bpy q. Let pz := bpz q.
Let g := bb_g L ang.
Let n := bb_n py pz.
Let phi1 := bb_phi1 px py pz.

Lemma j_n_pos : 0 < n.
Proof. apply (model_n_pos L ang q Hdef). Qed.
Lemma j_n2 : n * n = (1 + pz) ^ 2 - py ^ 2.
Proof. destruct Hdef as (_ & _ & Hr & _). unfold n, bb_n. apply sqrt_sqrt. apply Rlt_le. exact Hr. Qed.
Lemma j_range : -1 <= px / n <= 1.
Proof.
  destruct Hdef as (_ & _ & _ & Hpx & _). fold px py pz n in Hpx. pose proof j_n_pos as Hn.
  split.
  - apply (Rmult_le_reg_r n); [exact Hn|]. replace (px / n * n) with px by (field; lra). lra.
  - apply (Rmult_le_reg_r n); [exact Hn|]. replace (px / n * n) with px by (field; lra). lra.
Qed.
Lemma j_sin : n * sin phi1 = px.
Proof. unfold phi1, bb_phi1. fold n. rewrite sin_asin by apply j_range. pose proof j_n_pos. field. lra. Qed.
Lemma j_cos : n * cos phi1 = sect_w px py pz.
Proof.
  unfold phi1, bb_phi1. fold n. rewrite cos_asin by apply j_range. pose proof j_n_pos as Hn. pose proof j_n2 as N2.
  unfold sect_w. rewrite <- N2.
  replace (n * n - px ^ 2) with ((n * n) * (1 - (px / n)²)) by (unfold Rsqr; field; lra).
  rewrite sqrt_mult_alt by nra. rewrite sqrt_square by lra. reflexivity.
Qed.
Lemma j_nA : n * sin (ang + phi1) = sect_w px py pz * sin ang + px * cos ang.
Proof. rewrite sin_plus, <- j_cos, <- j_sin. ring. Qed.
Lemma j_nB : n * cos (ang + phi1) = sect_w px py pz * cos ang - px * sin ang.
Proof. rewrite cos_plus, <- j_cos, <- j_sin. ring. Qed.

(** the coded body is the exact sector map *)
Theorem body_is_sector_map :
  bpx (bendx_body L ang p0c m q) = sect_px g ang x px py pz /\
  bx (bendx_body L ang p0c m q) = sect_x g ang x px py pz.
Proof.
  pose proof (body_uniform_field L ang HL Hang p0c m q Hdef) as U. cbv zeta in U.
  destruct U as (_ & Upx & Ux & _). fold x px py pz g n phi1 in Upx, Ux.
  pose proof j_n_pos as Hn. pose proof (bb_g_nz L ang HL Hang) as Hg. fold g in Hg.
  split.
  - rewrite Upx, j_nA. unfold sect_px. ring.
  - rewrite Ux. pose proof (model_x2 L ang HL Hang q Hdef) as X2. fold x px py pz g n phi1 in X2. rewrite X2.
    pose proof (model_t2 L ang HL Hang q Hdef) as T2. fold x px py pz g n phi1 in T2.
    set (t2 := bb_t2 L ang x px py pz) in *.
    assert (Ht2 : 0 <= t2) by (unfold t2, bb_t2; apply sqrt_pos).
    assert (ED : (n * t2) * (n * t2) = sect_D g ang x px py pz).
    { unfold sect_D. rewrite <- j_nA, <- j_nB.
      replace (n * t2 * (n * t2)) with (n * n * (t2 * t2)) by ring. rewrite T2. field. split; lra. }
    assert (Es : n * t2 = sqrt (sect_D g ang x px py pz)).
    { rewrite <- ED. rewrite sqrt_square; [reflexivity|]. apply Rmult_le_pos; lra. }
    unfold sect_x. rewrite <- Es, <- j_nB. field. split; lra.
Qed.
End Model.

(* ---------- the Jacobian of the exact sector map at the design orbit *)
Lemma sect_w_0 : sect_w 0 0 0 = 1.
Proof. unfold sect_w. replace ((1 + 0) ^ 2 - 0 ^ 2 - 0 ^ 2) with 1 by ring. apply sqrt_1. Qed.
Lemma sect_D_0 g th : sect_D g th 0 0 0 0 = 1.
Proof.
  unfold sect_D. rewrite sect_w_0. pose proof (sin2_cos2 th) as T. unfold Rsqr in T.
  replace ((1 * cos th - 0 * sin th) ^ 2 + 2 * (1 * sin th + 0 * cos th) * (1 + g * 0) * sin th - ((1 + g * 0) * sin th) ^ 2)
    with (sin th * sin th + cos th * cos th) by ring. exact T.
Qed.

(** the design particle is a fixed point of the sector map *)
Lemma sect_fixed g th : g <> 0 -> sect_x g th 0 0 0 0 = 0 /\ sect_px g th 0 0 0 0 = 0.
Proof.
  intros Hg. unfold sect_x, sect_px. rewrite sect_D_0, sect_w_0, sqrt_1. split; field. exact Hg.
Qed.

Ltac kill_sqrt T th :=
  repeat match goal with
  | |- context [sqrt ?e] =>
      first [ replace e with 1 by ring
            | replace e with (sin th * sin th + cos th * cos th) by ring; rewrite T ];
      rewrite sqrt_1
  end.

Section Jac.
Variables (g th : R).
Hypothesis Hg : g <> 0.
Let T : sin th * sin th + cos th * cos th = 1 := sin2_cos2 th.

Lemma jx_x : is_derive (fun t => sect_x g th t 0 0 0) 0 (cos th).
Proof.
  unfold sect_x, sect_D, sect_w. auto_derive.
  - kill_sqrt T th. repeat split; lra.
  - kill_sqrt T th. field. exact Hg.
Qed.
Lemma jx_px : is_derive (fun t => sect_x g th 0 t 0 0) 0 (sin th / g).
Proof.
  unfold sect_x, sect_D, sect_w. auto_derive.
  - kill_sqrt T th. repeat split; lra.
  - kill_sqrt T th. field. exact Hg.
Qed.
Lemma jx_pz : is_derive (fun t => sect_x g th 0 0 0 t) 0 ((1 - cos th) / g).
Proof.
  unfold sect_x, sect_D, sect_w. auto_derive.
  - kill_sqrt T th. repeat split; lra.
  - kill_sqrt T th. unfold Rdiv. f_equal. nra.
Qed.
Lemma jpx_x : is_derive (fun t => sect_px g th t 0 0 0) 0 (- g * sin th).
Proof. unfold sect_px, sect_w. auto_derive; [exact I|ring]. Qed.
Lemma jpx_px : is_derive (fun t => sect_px g th 0 t 0 0) 0 (cos th).
Proof.
  unfold sect_px, sect_w. auto_derive.
  - kill_sqrt T th. repeat split; lra.
  - kill_sqrt T th. field.
Qed.
Lemma jpx_pz : is_derive (fun t => sect_px g th 0 0 0 t) 0 (sin th).
Proof.
  unfold sect_px, sect_w. auto_derive.
  - kill_sqrt T th. repeat split; lra.
  - kill_sqrt T th. field.
Qed.

End Jac.

Theorem sect_jacobian g th : g <> 0 ->
  is_derive (fun t => sect_x g th t 0 0 0) 0 (cos th) /\
  is_derive (fun t => sect_x g th 0 t 0 0) 0 (sin th / g) /\
  is_derive (fun t => sect_x g th 0 0 0 t) 0 ((1 - cos th) / g) /\
  is_derive (fun t => sect_px g th t 0 0 0) 0 (- g * sin th) /\
  is_derive (fun t => sect_px g th 0 t 0 0) 0 (cos th) /\
  is_derive (fun t => sect_px g th 0 0 0 t) 0 (sin th).
Proof.
  intros Hg. split; [apply jx_x; exact Hg|]. split; [apply jx_px; exact Hg|]. split; [apply jx_pz; exact Hg|].
  split; [apply jpx_x|]. split; [apply jpx_px|apply jpx_pz].
Qed.

(** these six numbers are the entries [0][0], [0][1], [0][5]*beta, [1][0], [1][1], [1][5]*beta of base_untilted evaluated at
    kx2 = hx^2, i.e. of the linear sector bend; Dipole.transfer_map itself evaluates base_rmatrix at k1 = 0, whose guard replaces
    k1 by 1e-12 (kx2 = hx^2 + 1e-12): the matrices agree up to that guard *)
Lemma sector_entries_vs_base hx L : 0 < hx ->
  Cf (hx²) L = cos (hx * L) /\ Sf (hx²) L = sin (hx * L) / hx /\
  hx / hx² * (1 - Cf (hx²) L) = (1 - cos (hx * L)) / hx /\ - hx² * Sf (hx²) L = - hx * sin (hx * L) /\
  kx2 0 hx = hx² + 1e-12.
Proof.
  intros Hh. assert (H2 : 0 < hx²) by (unfold Rsqr; nra).
  unfold Cf, Sf. destruct (Rlt_dec 0 hx²); [|contradiction]. rewrite sqrt_Rsqr by lra.
  repeat split; try reflexivity.
  - unfold Rsqr. field. lra.
  - unfold Rsqr. field. lra.
  - unfold kx2, k1_guard. destruct (Req_EM_T 0 0); [ring|contradiction].
Qed.
