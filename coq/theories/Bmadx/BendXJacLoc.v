(** The definedness region of the Bmad-X dipole body (bb_defined, BendX.v) contains a neighbourhood of the design orbit along the
    x-, px- and pz-axes, hence the partial derivatives of the CODED body (not only of its closed form, BendXJac.v) at the design
    orbit are the entries of the linear sector bend. *)
From Coq Require Import Reals Lra Psatz.
From Coquelicot Require Import Coquelicot.
From Cheetah Require Import Bmadx.Coords Bmadx.DriftX Bmadx.Tdc Bmadx.BendX Bmadx.BendXProofs Bmadx.BendXGeom Bmadx.BendXJac.
Open Scope R_scope.

(* ---------- a sufficient condition for bb_defined in terms of the closed form *)
Section Suff.
Variables (L ang : R).
Hypotheses (HL : L <> 0) (Hang : ang <> 0).
Variable (q : bpart).
Let x := bx q. Let px := bpx q. Let py := bpy q. Let pz := bpz q.
Let g := bb_g L ang.
Let n := bb_n py pz.
Let phi1 := bb_phi1 px py pz.
Hypothesis Hii : 0 < (1 + pz) ^ 2 - py ^ 2.
Hypothesis Hiii : - n < px < n.

Lemma s_n_pos : 0 < n.
Proof. unfold n, bb_n. apply sqrt_lt_R0. exact Hii. Qed.
Lemma s_n2 : n * n = (1 + pz) ^ 2 - py ^ 2.
Proof. unfold n, bb_n. apply sqrt_sqrt. lra. Qed.
Lemma s_range : -1 <= px / n <= 1.
Proof.
  pose proof s_n_pos as Hn. split.
  - apply (Rmult_le_reg_r n); [exact Hn|]. replace (px / n * n) with px by (field; lra). lra.
  - apply (Rmult_le_reg_r n); [exact Hn|]. replace (px / n * n) with px by (field; lra). lra.
Qed.
Lemma s_sin : n * sin phi1 = px.
Proof. unfold phi1, bb_phi1. fold n. rewrite sin_asin by apply s_range. pose proof s_n_pos. field. lra. Qed.
Lemma s_cos : n * cos phi1 = sect_w px py pz.
Proof.
  unfold phi1, bb_phi1. fold n. rewrite cos_asin by apply s_range. pose proof s_n_pos as Hn. pose proof s_n2 as N2.
  unfold sect_w. rewrite <- N2.
  replace (n * n - px ^ 2) with ((n * n) * (1 - (px / n)²)) by (unfold Rsqr; field; lra).
  rewrite sqrt_mult_alt by nra. rewrite sqrt_square by lra. reflexivity.
Qed.
Lemma s_nA : n * sin (ang + phi1) = sect_w px py pz * sin ang + px * cos ang.
Proof. rewrite sin_plus, <- s_cos, <- s_sin. ring. Qed.
Lemma s_nB : n * cos (ang + phi1) = sect_w px py pz * cos ang - px * sin ang.
Proof. rewrite cos_plus, <- s_cos, <- s_sin. ring. Qed.

Lemma s_rad : n * n * ((cos (ang + phi1)) ^ 2 + bb_gp L ang py pz * bb_alpha L ang x px py pz) = sect_D g ang x px py pz.
Proof.
  pose proof s_n_pos as Hn. pose proof (bb_g_nz L ang HL Hang) as Hg. fold g in Hg.
  assert (Ea : bb_alpha L ang x px py pz
     = 2 * (1 + g * x) * sin (ang + phi1) * (sin ang / g) - g / n * ((1 + g * x) * (sin ang / g)) ^ 2).
  { unfold bb_alpha, g. rewrite <- (bb_S_spec L ang HL Hang). unfold bb_gp, n, phi1. ring. }
  rewrite Ea. unfold sect_D. rewrite <- s_nA, <- s_nB. unfold bb_gp. fold g n. field. split; lra.
Qed.

Hypothesis HD : 0 < sect_D g ang x px py pz.
Hypothesis Hsum : 0 < sqrt (sect_D g ang x px py pz) + (sect_w px py pz * cos ang - px * sin ang).
Hypothesis Hv : (1 + g * x) * sin ang <> 0.

Lemma s_rad_pos : 0 < (cos (ang + phi1)) ^ 2 + bb_gp L ang py pz * bb_alpha L ang x px py pz.
Proof.
  pose proof s_n_pos as Hn. pose proof s_rad as R.
  assert (0 < n * n) by nra.
  destruct (Rle_lt_dec ((cos (ang + phi1)) ^ 2 + bb_gp L ang py pz * bb_alpha L ang x px py pz) 0) as [Hle|Hlt]; [|exact Hlt].
  exfalso. nra.
Qed.

Lemma s_t2 : n * bb_t2 L ang x px py pz = sqrt (sect_D g ang x px py pz).
Proof.
  pose proof s_n_pos as Hn. rewrite <- s_rad. unfold bb_t2. fold phi1.
  rewrite sqrt_mult_alt by nra. rewrite sqrt_square by lra. reflexivity.
Qed.

Lemma defined_suff : bb_defined L ang q.
Proof.
  pose proof s_n_pos as Hn. pose proof (bb_g_nz L ang HL Hang) as Hg. fold g in Hg.
  unfold bb_defined. cbv zeta. fold x px py pz. fold n phi1.
  split; [exact HL|]. split; [exact Hang|]. split; [exact Hii|]. split; [exact Hiii|].
  split; [apply Rlt_le, s_rad_pos|]. split.
  - intro E. pose proof s_t2 as T2. pose proof s_nB as NB. unfold bb_t3 in E. fold phi1 in E.
    assert (n * (bb_t2 L ang x px py pz + cos (ang + phi1)) = 0) by (rewrite E; ring). nra.
  - unfold bb_Lc. apply Rgt_not_eq, sqrt_lt_R0.
    assert (Ev : bb_Lcv L ang x = - ((1 + g * x) * sin ang) / g).
    { unfold bb_Lcv. replace (- L * bx_sinc ang) with (- (L * bx_sinc ang)) by ring. rewrite (bb_S_spec L ang HL Hang). fold g. field. exact Hg. }
    rewrite Ev.
    assert (0 < (- ((1 + g * x) * sin ang) / g) ^ 2).
    { apply pow2_gt_0. unfold Rdiv. apply Rmult_integral_contrapositive_currified; [lra|apply Rinv_neq_0_compat; exact Hg]. }
    assert (0 <= (bb_Lcu L ang (bb_x2 L ang x px py pz) x) ^ 2) by apply pow2_ge_0. lra.
Qed.
End Suff.

(* ---------- continuity gives a neighbourhood *)
Lemma locally_pos (f : R -> R) : ex_derive f 0 -> 0 < f 0 -> locally 0 (fun t => 0 < f t).
Proof.
  intros Hd Hp. apply ex_derive_continuous in Hd.
  apply (Hd (fun y => 0 < y)). apply (open_gt 0). exact Hp.
Qed.
Lemma locally_nz (f : R -> R) : ex_derive f 0 -> f 0 <> 0 -> locally 0 (fun t => f t <> 0).
Proof.
  intros Hd Hp. apply ex_derive_continuous in Hd.
  apply (Hd (fun y => y <> 0)).
  - destruct (Rlt_dec 0 (f 0)).
    + apply (filter_imp (fun y => 0 < y)); [intros; lra|]. apply (open_gt 0). assumption.
    + apply (filter_imp (fun y => y < 0)); [intros; lra|]. apply (open_lt 0). lra.
Qed.

Section Axes.
Variables (L ang p0c m z : R).
Hypotheses (HL : L <> 0) (Hang : ang <> 0) (Hsin : sin ang <> 0) (Hcos : -1 < cos ang).
Let g := bb_g L ang.
Let T : sin ang * sin ang + cos ang * cos ang = 1 := sin2_cos2 ang.

Lemma ax_n0 : bb_n 0 0 = 1.
Proof. unfold bb_n. replace ((1 + 0) ^ 2 - 0 ^ 2) with 1 by ring. apply sqrt_1. Qed.

(* x axis *)
Lemma loc_x : locally 0 (fun t => bb_defined L ang (mkb t 0 0 0 z 0)).
Proof.
  assert (H1 : locally 0 (fun t => 0 < sect_D g ang t 0 0 0)).
  { apply locally_pos.
    - unfold sect_D, sect_w. auto_derive. kill_sqrt T ang. repeat split; lra.
    - rewrite sect_D_0. lra. }
  assert (H2 : locally 0 (fun t => 0 < sqrt (sect_D g ang t 0 0 0) + (sect_w 0 0 0 * cos ang - 0 * sin ang))).
  { apply (locally_pos (fun t => sqrt (sect_D g ang t 0 0 0) + (sect_w 0 0 0 * cos ang - 0 * sin ang))).
    - unfold sect_D, sect_w. auto_derive. kill_sqrt T ang. repeat split; lra.
    - rewrite sect_D_0, sect_w_0, sqrt_1. lra. }
  assert (H3 : locally 0 (fun t => (1 + g * t) * sin ang <> 0)).
  { apply (locally_nz (fun t => (1 + g * t) * sin ang)).
    - auto_derive. exact I.
    - replace ((1 + g * 0) * sin ang) with (sin ang) by ring. exact Hsin. }
  generalize (filter_and _ _ H1 (filter_and _ _ H2 H3)). apply filter_imp.
  intros t (A & B & C). apply (defined_suff L ang HL Hang (mkb t 0 0 0 z 0)); cbn [bx bpx bpy bpz]; fold g; try assumption.
  - replace ((1 + 0) ^ 2 - 0 ^ 2) with 1 by ring. lra.
  - rewrite ax_n0. lra.
Qed.

(* px axis *)
Lemma loc_px : locally 0 (fun t => bb_defined L ang (mkb 0 t 0 0 z 0)).
Proof.
  assert (H0 : locally 0 (fun t => -1 < t < 1)).
  { exists (mkposreal 1 Rlt_0_1). intros t Ht. unfold ball in Ht. simpl in Ht. unfold AbsRing_ball, abs, minus, plus, opp in Ht. simpl in Ht.
    apply Rabs_def2 in Ht. lra. }
  assert (H1 : locally 0 (fun t => 0 < sect_D g ang 0 t 0 0)).
  { apply locally_pos.
    - unfold sect_D, sect_w. auto_derive. kill_sqrt T ang. repeat split; lra.
    - rewrite sect_D_0. lra. }
  assert (H2 : locally 0 (fun t => 0 < sqrt (sect_D g ang 0 t 0 0) + (sect_w t 0 0 * cos ang - t * sin ang))).
  { apply (locally_pos (fun t => sqrt (sect_D g ang 0 t 0 0) + (sect_w t 0 0 * cos ang - t * sin ang))).
    - unfold sect_D, sect_w. auto_derive. kill_sqrt T ang. repeat split; lra.
    - rewrite sect_D_0, sect_w_0, sqrt_1. lra. }
  generalize (filter_and _ _ H0 (filter_and _ _ H1 H2)). apply filter_imp.
  intros t (A & B & C). apply (defined_suff L ang HL Hang (mkb 0 t 0 0 z 0)); cbn [bx bpx bpy bpz]; fold g; try assumption.
  - replace ((1 + 0) ^ 2 - 0 ^ 2) with 1 by ring. lra.
  - rewrite ax_n0. lra.
  - replace ((1 + g * 0) * sin ang) with (sin ang) by ring. exact Hsin.
Qed.

(* pz axis *)
Lemma loc_pz : locally 0 (fun t => bb_defined L ang (mkb 0 0 0 0 z t)).
Proof.
  assert (H0 : locally 0 (fun t => 0 < 1 + t)).
  { apply (locally_pos (fun t => 1 + t)); [auto_derive; exact I|lra]. }
  assert (H1 : locally 0 (fun t => 0 < sect_D g ang 0 0 0 t)).
  { apply locally_pos.
    - unfold sect_D, sect_w. auto_derive. kill_sqrt T ang. repeat split; lra.
    - rewrite sect_D_0. lra. }
  assert (H2 : locally 0 (fun t => 0 < sqrt (sect_D g ang 0 0 0 t) + (sect_w 0 0 t * cos ang - 0 * sin ang))).
  { apply (locally_pos (fun t => sqrt (sect_D g ang 0 0 0 t) + (sect_w 0 0 t * cos ang - 0 * sin ang))).
    - unfold sect_D, sect_w. auto_derive. kill_sqrt T ang. repeat split; lra.
    - rewrite sect_D_0, sect_w_0, sqrt_1. lra. }
  generalize (filter_and _ _ H0 (filter_and _ _ H1 H2)). apply filter_imp.
  intros t (A & B & C).
  assert (N : bb_n 0 t = 1 + t).
  { unfold bb_n. replace ((1 + t) ^ 2 - 0 ^ 2) with ((1 + t) * (1 + t)) by ring. apply sqrt_square. lra. }
  apply (defined_suff L ang HL Hang (mkb 0 0 0 0 z t)); cbn [bx bpx bpy bpz]; fold g; try assumption.
  - replace ((1 + t) ^ 2 - 0 ^ 2) with ((1 + t) * (1 + t)) by ring. nra.
  - rewrite N. lra.
  - replace ((1 + g * 0) * sin ang) with (sin ang) by ring. exact Hsin.
Qed.

(** (c) the Jacobian of the CODED body at the design orbit, rows x' and px', columns x, px, pz *)
Theorem body_jacobian_at_0 :
  is_derive (fun t => bx (bendx_body L ang p0c m (mkb t 0 0 0 z 0))) 0 (cos ang) /\
  is_derive (fun t => bx (bendx_body L ang p0c m (mkb 0 t 0 0 z 0))) 0 (sin ang / g) /\
  is_derive (fun t => bx (bendx_body L ang p0c m (mkb 0 0 0 0 z t))) 0 ((1 - cos ang) / g) /\
  is_derive (fun t => bpx (bendx_body L ang p0c m (mkb t 0 0 0 z 0))) 0 (- g * sin ang) /\
  is_derive (fun t => bpx (bendx_body L ang p0c m (mkb 0 t 0 0 z 0))) 0 (cos ang) /\
  is_derive (fun t => bpx (bendx_body L ang p0c m (mkb 0 0 0 0 z t))) 0 (sin ang).
Proof.
  pose proof (bb_g_nz L ang HL Hang) as Hg. fold g in Hg.
  destruct (sect_jacobian g ang Hg) as (J1 & J2 & J3 & J4 & J5 & J6).
  split; [|split; [|split; [|split; [|split]]]].
  - apply (is_derive_ext_loc (fun t => sect_x g ang t 0 0 0)); [|exact J1].
    generalize loc_x. apply filter_imp. intros t Ht.
    destruct (body_is_sector_map L ang HL Hang p0c m _ Ht) as [_ E]. symmetry. exact E.
  - apply (is_derive_ext_loc (fun t => sect_x g ang 0 t 0 0)); [|exact J2].
    generalize loc_px. apply filter_imp. intros t Ht.
    destruct (body_is_sector_map L ang HL Hang p0c m _ Ht) as [_ E]. symmetry. exact E.
  - apply (is_derive_ext_loc (fun t => sect_x g ang 0 0 0 t)); [|exact J3].
    generalize loc_pz. apply filter_imp. intros t Ht.
    destruct (body_is_sector_map L ang HL Hang p0c m _ Ht) as [_ E]. symmetry. exact E.
  - apply (is_derive_ext_loc (fun t => sect_px g ang t 0 0 0)); [|exact J4].
    generalize loc_x. apply filter_imp. intros t Ht.
    destruct (body_is_sector_map L ang HL Hang p0c m _ Ht) as [E _]. symmetry. exact E.
  - apply (is_derive_ext_loc (fun t => sect_px g ang 0 t 0 0)); [|exact J5].
    generalize loc_px. apply filter_imp. intros t Ht.
    destruct (body_is_sector_map L ang HL Hang p0c m _ Ht) as [E _]. symmetry. exact E.
  - apply (is_derive_ext_loc (fun t => sect_px g ang 0 0 0 t)); [|exact J6].
    generalize loc_pz. apply filter_imp. intros t Ht.
    destruct (body_is_sector_map L ang HL Hang p0c m _ Ht) as [E _]. symmetry. exact E.
Qed.
End Axes.
