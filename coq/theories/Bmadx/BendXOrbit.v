(** The design particle of the Bmad-X dipole body (model: BendX.v): (0,0,0,0,z,0) is mapped to itself -- the reference orbit is a
    closed orbit and its time of flight is the reference one -- for 0 < length and bend angles 0 < |angle| < pi. *)
From Coq Require Import Reals Lra Psatz.
From Cheetah Require Import Bmadx.Coords Bmadx.DriftX Bmadx.Tdc Bmadx.BendX Bmadx.BendXProofs Bmadx.BendXGeom.
Open Scope R_scope.

Lemma tan_shift_m h : sin h <> 0 -> tan (h - PI / 2) = - cos h / sin h.
Proof.
  intros Hs. unfold tan. rewrite sin_minus, cos_minus, cos_PI2, sin_PI2. field. exact Hs.
Qed.
Lemma tan_shift_p h : sin h <> 0 -> tan (h + PI / 2) = - cos h / sin h.
Proof.
  intros Hs. unfold tan. rewrite sin_plus, cos_plus, cos_PI2, sin_PI2. field. exact Hs.
Qed.

Section Orbit.
Variables (L ang p0c m z : R).
Hypotheses (HL : 0 < L) (Hang : ang <> 0) (Hlo : - PI < ang) (Hhi : ang < PI) (Hp : 0 < p0c).
Let g := bb_g L ang.
Let h := ang / 2.

Lemma o_L : L <> 0. Proof. lra. Qed.
Lemma o_g : g <> 0. Proof. apply bb_g_nz; [apply o_L|exact Hang]. Qed.
Lemma o_n : bb_n 0 0 = 1.
Proof. unfold bb_n. replace ((1 + 0) ^ 2 - 0 ^ 2) with 1 by ring. apply sqrt_1. Qed.
Lemma o_phi : bb_phi1 0 0 0 = 0.
Proof. unfold bb_phi1. rewrite o_n. replace (0 / 1) with 0 by field. apply asin_0. Qed.
Lemma o_gp : bb_gp L ang 0 0 = g.
Proof. unfold bb_gp. rewrite o_n. fold g. field. Qed.

Lemma o_sinh : sin h <> 0.
Proof.
  unfold h. destruct (Rlt_dec 0 ang).
  - apply Rgt_not_eq, sin_gt_0; lra.
  - apply Rlt_not_eq. replace (ang / 2) with (- (- ang / 2)) by field. rewrite sin_neg.
    assert (0 < sin (- ang / 2)) by (apply sin_gt_0; lra). lra.
Qed.
Lemma o_cosh : 0 < cos h.
Proof. unfold h. apply cos_gt_0; lra. Qed.
Lemma o_sin : sin ang = 2 * sin h * cos h.
Proof. replace ang with (2 * h) by (unfold h; field). apply sin_2a. Qed.
Lemma o_cos : cos ang = 1 - 2 * sin h * sin h.
Proof. replace ang with (2 * h) by (unfold h; field). apply cos_2a_sin. Qed.
Lemma o_cos_gt : -1 < cos ang.
Proof.
  pose proof o_cosh as C. pose proof (sin2_cos2 h) as T. unfold Rsqr in T. rewrite o_cos. nra.
Qed.
Lemma o_cos_lt : cos ang < 1.
Proof. pose proof o_sinh as S. rewrite o_cos. nra. Qed.

Lemma o_alpha : bb_alpha L ang 0 0 0 0 = sin ang * sin ang / g.
Proof.
  unfold bb_alpha. rewrite o_gp, o_phi. fold g.
  replace (2 * (1 + g * 0) * sin (ang + 0) * L * bx_sinc ang) with (2 * sin (ang + 0) * (L * bx_sinc ang)) by ring.
  replace ((1 + g * 0) * L * bx_sinc ang) with (L * bx_sinc ang) by ring.
  rewrite (bb_S_spec L ang o_L Hang). fold g. rewrite Rplus_0_r. field. apply o_g.
Qed.

Lemma o_rad : cos (ang + bb_phi1 0 0 0) ^ 2 + bb_gp L ang 0 0 * bb_alpha L ang 0 0 0 0 = 1.
Proof.
  rewrite o_alpha, o_gp, o_phi, Rplus_0_r. pose proof (sin2_cos2 ang) as T. unfold Rsqr in T.
  replace (cos ang ^ 2 + g * (sin ang * sin ang / g)) with (sin ang * sin ang + cos ang * cos ang) by (field; apply o_g).
  exact T.
Qed.
Lemma o_t2 : bb_t2 L ang 0 0 0 0 = 1.
Proof. unfold bb_t2. rewrite o_rad. apply sqrt_1. Qed.
Lemma o_t3 : bb_t3 ang 0 0 0 = cos ang.
Proof. unfold bb_t3. rewrite o_phi, Rplus_0_r. reflexivity. Qed.

Lemma o_x2 : bb_x2 L ang 0 0 0 0 = 0.
Proof.
  unfold bb_x2.
  rewrite (bb_x2_branch_irrelevant L ang 0 0 0 0 _ false).
  - cbn [bb_x2_b]. unfold bb_c2, bb_t1. rewrite o_t2, o_t3, o_gp, (bb_K_spec L ang o_L Hang). fold g. field. apply o_g.
  - rewrite o_gp. apply o_g.
  - rewrite o_t2, o_t3. pose proof o_cos_gt. lra.
  - rewrite o_rad. lra.
Qed.

Lemma o_Lcu : bb_Lcu L ang 0 0 = (1 - cos ang) / g.
Proof. unfold bb_Lcu. rewrite (bb_K_spec L ang o_L Hang). fold g. field. apply o_g. Qed.
Lemma o_Lcv : bb_Lcv L ang 0 = - sin ang / g.
Proof.
  unfold bb_Lcv. replace (- L * bx_sinc ang - 0 * sin ang) with (- (L * bx_sinc ang)) by ring.
  rewrite (bb_S_spec L ang o_L Hang). fold g. field. apply o_g.
Qed.

Lemma o_chord : 0 < ((1 - cos ang) / g) ^ 2 + (- sin ang / g) ^ 2.
Proof.
  pose proof o_g as G. pose proof o_cos_lt as C.
  assert (I : / g <> 0) by (apply Rinv_neq_0_compat; exact G).
  pose proof (Rsqr_pos_lt _ I) as I2. unfold Rsqr in I2.
  replace (((1 - cos ang) / g) ^ 2 + (- sin ang / g) ^ 2) with ((/ g * / g) * ((1 - cos ang) * (1 - cos ang) + sin ang * sin ang)) by (field; exact G).
  apply Rmult_lt_0_compat; [exact I2|nra].
Qed.

Lemma o_defined : bb_defined L ang (mkb 0 0 0 0 z 0).
Proof.
  unfold bb_defined. cbn [bx bpx bpy bpz]. rewrite o_n, o_rad, o_t2, o_t3, o_x2.
  repeat split; try lra; try exact Hang.
  - pose proof o_cos_gt. lra.
  - unfold bb_Lc. rewrite o_Lcu, o_Lcv. apply Rgt_not_eq, sqrt_lt_R0, o_chord.
Qed.

(* the polar angle of the chord: arctan2(Lcv, Lcu) = angle/2 - pi/2 for both signs of the angle *)
Lemma o_ratio : (- sin ang / g) / ((1 - cos ang) / g) = - cos h / sin h.
Proof.
  replace (1 - cos ang) with (2 * sin h * sin h) by (rewrite o_cos; ring). rewrite o_sin.
  pose proof o_sinh. pose proof o_g. field. split; assumption.
Qed.

Lemma o_atan2 : atan2 (- sin ang / g) ((1 - cos ang) / g) = h - PI / 2.
Proof.
  pose proof o_sinh as S. pose proof o_cosh as C. pose proof o_cos_lt as C1.
  unfold atan2, quadrant_of. destruct (Rlt_dec 0 ang) as [Hpos|Hneg].
  - assert (Hg : 0 < g) by (unfold g, bb_g; apply Rdiv_lt_0_compat; lra).
    assert (Hu : 0 < (1 - cos ang) / g) by (apply Rdiv_lt_0_compat; lra).
    destruct (Rlt_dec 0 ((1 - cos ang) / g)); [|contradiction]. cbn [atan2_b].
    rewrite o_ratio, <- (tan_shift_m h S). apply atan_tan. unfold h. lra.
  - assert (Hg : g < 0).
    { unfold g, bb_g. assert (0 < - ang / L) by (apply Rdiv_lt_0_compat; lra).
      replace (ang / L) with (- (- ang / L)) by (field; lra). lra. }
    assert (Hu : (1 - cos ang) / g < 0).
    { assert (0 < (1 - cos ang) / - g) by (apply Rdiv_lt_0_compat; lra).
      replace ((1 - cos ang) / g) with (- ((1 - cos ang) / - g)) by (field; lra). lra. }
    assert (Hs : sin ang < 0).
    { replace ang with (- (- ang)) by ring. rewrite sin_neg. assert (0 < sin (- ang)) by (apply sin_gt_0; lra). lra. }
    assert (Hv : - sin ang / g < 0).
    { assert (0 < - sin ang / - g) by (apply Rdiv_lt_0_compat; lra).
      replace (- sin ang / g) with (- (- sin ang / - g)) by (field; lra). lra. }
    destruct (Rlt_dec 0 ((1 - cos ang) / g)); [lra|].
    destruct (Rlt_dec ((1 - cos ang) / g) 0); [|contradiction].
    destruct (Rle_dec 0 (- sin ang / g)); [lra|]. cbn [atan2_b].
    rewrite o_ratio, <- (tan_shift_p h S). rewrite atan_tan; [lra|]. unfold h. lra.
Qed.

Lemma o_thp : bb_thp_b L ang (bb_x2 L ang 0 0 0 0) 0 0 0 0 (bb_quadrant L ang (mkb 0 0 0 0 z 0)) = ang.
Proof.
  pose proof (model_thp L ang (mkb 0 0 0 0 z 0)) as T. cbn [bx bpx bpy bpz] in T. rewrite T.
  rewrite o_x2, o_Lcu, o_Lcv, o_atan2, o_phi. unfold h. field.
Qed.

Lemma o_beta : bb_beta 0 p0c m * L / bb_beta0 p0c m = L.
Proof.
  unfold bb_beta, bb_beta0. replace (p0c * (1 + 0)) with p0c by ring.
  assert (0 < sqrt (p0c ^ 2 + m ^ 2)) by (apply sqrt_lt_R0; nra).
  field. split; lra.
Qed.

(** (b) closed orbit: the design particle stays on the reference orbit and arrives with the reference particle *)
Theorem body_design_orbit : bendx_body L ang p0c m (mkb 0 0 0 0 z 0) = mkb 0 0 0 0 z 0.
Proof.
  pose proof (body_uniform_field L ang o_L Hang p0c m _ o_defined) as U. cbv zeta in U.
  destruct U as (_ & Upx & Ux & _). cbn [bx bpx bpy bpz] in Upx, Ux.
  pose proof (body_arc_length L ang o_L Hang _ o_defined) as A. cbn [bx bpx bpy bpz] in A. rewrite o_thp, o_n in A.
  pose proof (body_y_advance L ang p0c m (mkb 0 0 0 0 z 0)) as Y. cbv zeta in Y. cbn [bx bpx by_ bpy bz bpz] in Y.
  destruct Y as [Yy Yz]. rewrite A, o_n in Yy, Yz. rewrite o_beta in Yz.
  rewrite o_x2 in Ux. rewrite o_n, o_phi in Upx.
  destruct (bendx_body L ang p0c m (mkb 0 0 0 0 z 0)) as [x' px' y' py' z' pz'] eqn:E.
  pose proof (body_py_pz L ang p0c m (mkb 0 0 0 0 z 0)) as [Py Pz]. rewrite E in Py, Pz.
  cbn [bx bpx by_ bpy bz bpz] in *.
  f_equal; try assumption.
  - etransitivity; [exact Upx|]. rewrite Rplus_0_r. ring.
  - etransitivity; [exact Yy|]. field. apply o_g.
  - etransitivity; [exact Yz|]. unfold bb_g. field. split; [apply o_L|exact Hang].
Qed.
End Orbit.
