(** Proofs about the Bmad-X dipole (model: BendX.v): branch selection (masks), the evaluation chain used by the correspondence
    goals, the fringe kicks as the edge matrices of the linear map, invariants of the body, equality of the two exit-position
    branches. *)
From Coq Require Import Reals Lra Psatz.
From Cheetah Require Import Base.Mat Optics.Maps Bmadx.Coords Bmadx.DriftX Bmadx.Tdc Bmadx.QuadXProofs Bmadx.BendX.
Open Scope R_scope.

(* ---------- sinc, cosc *)
Lemma is0_false x : x <> 0 -> is0 x = false.
Proof. intros H. unfold is0. destruct (Req_EM_T x 0); [contradiction|reflexivity]. Qed.
Lemma is0_true x : x = 0 -> is0 x = true.
Proof. intros H. unfold is0. destruct (Req_EM_T x 0); [reflexivity|contradiction]. Qed.
Lemma bx_sinc_nz x : x <> 0 -> bx_sinc x = sin x / x.
Proof. intros H. unfold bx_sinc. rewrite (is0_false _ H). reflexivity. Qed.
Lemma bx_sinc_0 : bx_sinc 0 = 1.
Proof. unfold bx_sinc. rewrite is0_true; reflexivity. Qed.
Lemma bx_cosc_nz x : x <> 0 -> bx_cosc x = - (1 / 2) * (sin (x / 2) / (x / 2)) ^ 2.
Proof. intros H. unfold bx_cosc. rewrite bx_sinc_nz; [reflexivity|]. intro E. apply H. lra. Qed.
(** cosc(x) = (cos x - 1)/x^2, the documented meaning *)
Lemma bx_cosc_spec x : x <> 0 -> bx_cosc x = (cos x - 1) / x ^ 2.
Proof.
  intros H. rewrite (bx_cosc_nz _ H).
  replace (cos x) with (cos (2 * (x / 2))) by (f_equal; field).
  rewrite cos_2a_sin. field. exact H.
Qed.

(* ---------- the masks *)
Lemma bb_sel_true ang px py pz : Rabs (ang + bb_phi1 px py pz) < PI / 2 -> bb_sel ang px py pz = true.
Proof. intros H. unfold bb_sel, bb_temp. destruct (Rlt_dec _ _); [reflexivity|contradiction]. Qed.
Lemma bb_sel_false ang px py pz : PI / 2 <= Rabs (ang + bb_phi1 px py pz) -> bb_sel ang px py pz = false.
Proof. intros H. unfold bb_sel, bb_temp. destruct (Rlt_dec _ _); [lra|reflexivity]. Qed.

Definition sel_cond (sel : bool) (t : R) : Prop := if sel then t < PI / 2 else PI / 2 <= t.
Lemma bb_sel_cond sel ang px py pz : sel_cond sel (Rabs (ang + bb_phi1 px py pz)) -> bb_sel ang px py pz = sel.
Proof. destruct sel; simpl; [apply bb_sel_true|apply bb_sel_false]. Qed.

Definition quad_cond (qd : quadrant) (y x : R) : Prop :=
  match qd with
  | Qright => 0 < x | Qleft_up => x < 0 /\ 0 <= y | Qleft_down => x < 0 /\ y < 0
  | Qaxis_up => x = 0 /\ 0 < y | Qaxis_down => x = 0 /\ y < 0 | Qorigin => x = 0 /\ y = 0
  end.
Lemma quadrant_cond qd y x : quad_cond qd y x -> quadrant_of y x = qd.
Proof.
  unfold quadrant_of. destruct qd; simpl; intros H;
  repeat (match goal with |- context [Rlt_dec ?a ?b] => destruct (Rlt_dec a b) | |- context [Rle_dec ?a ?b] => destruct (Rle_dec a b) end);
  try reflexivity; exfalso; lra.
Qed.

(* ---------- the evaluation chain of the body: every intermediate value of _bmadx_body as a let-bound variable, the branches
   given as data and justified by side conditions on those variables, arcsin written with arctan (asin_atan), sinc/cosc unfolded *)
Definition body_chain (sel : bool) (qd : quadrant) (L ang p0c m x px y py z pz : R) (Q : bpart -> Prop) : Prop :=
  ang <> 0 /\
  let n := sqrt ((1 + pz) ^ 2 - py ^ 2) in
  (-1 < px / n < 1) /\
  let ph := atan (px / n / sqrt (1 - (px / n)²)) in
  let g := ang / L in
  let gp := g / n in
  let sc := sin ang / ang in
  let cc := - (1 / 2) * (sin (ang / 2) / (ang / 2)) ^ 2 in
  let al := 2 * (1 + g * x) * sin (ang + ph) * L * sc - gp * ((1 + g * x) * L * sc) ^ 2 in
  let t1 := x * cos ang + L ^ 2 * g * cc in
  let t3 := cos (ang + ph) in
  let t2 := sqrt (t3 ^ 2 + gp * al) in
  sel_cond sel (Rabs (ang + ph)) /\
  let x2 := if sel then t1 + al / (t2 + t3) else t1 + (t2 - t3) / gp in
  let u := x2 - L ^ 2 * g * cc - x * cos ang in
  let v := - L * sc - x * sin ang in
  quad_cond qd v u /\
  let th := 2 * (ang + ph - PI / 2 - atan2_b qd v u) in
  th / 2 <> 0 /\
  let Lc := sqrt (u ^ 2 + v ^ 2) in
  let Lp := Lc / (sin (th / 2) / (th / 2)) in
  let pxf := n * sin (ang + ph - th) in
  let yf := y + py * Lp / n in
  let zf := z + bb_beta pz p0c m * L / bb_beta0 p0c m - (1 + pz) * Lp / n in
  Q (mkb x2 pxf yf py zf pz).

Lemma body_chain_sound sel qd L ang p0c m x px y py z pz Q :
  body_chain sel qd L ang p0c m x px y py z pz Q -> Q (bendx_body L ang p0c m (mkb x px y py z pz)).
Proof.
  unfold body_chain. intros (Hang & Hasin & H). cbv zeta in H.
  rewrite <- (asin_atan _ Hasin) in H.
  destruct H as (Hsel & Hq & Hz & HQ).
  assert (Es : bb_sel ang px py pz = sel) by (apply bb_sel_cond; exact Hsel).
  assert (Esc : bx_sinc ang = sin ang / ang) by (apply bx_sinc_nz; exact Hang).
  assert (Ecc : bx_cosc ang = - (1 / 2) * (sin (ang / 2) / (ang / 2)) ^ 2) by (apply bx_cosc_nz; exact Hang).
  unfold bendx_body.
  assert (Eq : bb_quadrant L ang (mkb x px y py z pz) = qd).
  { unfold bb_quadrant. apply quadrant_cond. cbn [bx bpx bpy bpz]. unfold bb_x2. rewrite Es.
    unfold bb_Lcv, bb_Lcu, bb_x2_b, bb_c1, bb_c2, bb_t1, bb_t2, bb_t3, bb_alpha, bb_gp, bb_g, bb_phi1, bb_n. rewrite Esc, Ecc.
    exact Hq. }
  assert (Ez : bb_zero L ang (mkb x px y py z pz) = false).
  { unfold bb_zero. rewrite Eq. apply is0_false. cbn [bx bpx bpy bpz]. unfold bb_x2. rewrite Es.
    unfold bb_thp_b, bb_Lcv, bb_Lcu, bb_x2_b, bb_c1, bb_c2, bb_t1, bb_t2, bb_t3, bb_alpha, bb_gp, bb_g, bb_phi1, bb_n. rewrite Esc, Ecc.
    exact Hz. }
  rewrite Eq, Ez. cbn [bx bpx bpy bpz]. rewrite Es.
  unfold bendx_body_b. cbn [bx bpx by_ bpy bz bpz]. cbv zeta.
  unfold bb_pxf_b, bb_Lp_b, bb_Lc, bb_thp_b, bb_Lcv, bb_Lcu, bx_sinc_b, bb_x2_b, bb_c1, bb_c2, bb_t1, bb_t2, bb_t3, bb_alpha, bb_gp, bb_g, bb_phi1, bb_n.
  rewrite Esc, Ecc. exact HQ.
Qed.

(** the whole of Dipole._track_bmadx as an evaluation chain: conversions, offset_particle_set, entrance fringe, body chain,
    exit fringe, offset_particle_unset, conversion back *)
Definition bend_chain (sel : bool) (qd : quadrant) (fen fex : bool) (b : bend_par) (E0 m x px y py tau delta : R) (P : cpart -> Prop) : Prop :=
  let p0c := cb_p0c E0 m in
  let pz := cb_pz delta E0 m in
  let z := cb_z tau delta E0 m in
  let x1 := bx (bendx_entrance fen b (off_set 0 0 (bd_tilt b) (mkb x px y py z pz))) in
  let px1 := bpx (bendx_entrance fen b (off_set 0 0 (bd_tilt b) (mkb x px y py z pz))) in
  let y1 := by_ (bendx_entrance fen b (off_set 0 0 (bd_tilt b) (mkb x px y py z pz))) in
  let py1 := bpy (bendx_entrance fen b (off_set 0 0 (bd_tilt b) (mkb x px y py z pz))) in
  body_chain sel qd (bd_L b) (bd_ang b) p0c m x1 px1 y1 py1 z pz
    (fun q3 => P (to_cheetah p0c m (off_unset 0 0 (bd_tilt b) (bendx_exit fex b q3)))).

Lemma bend_chain_sound sel qd fen fex b E0 m x px y py tau delta P :
  bend_chain sel qd fen fex b E0 m x px y py tau delta P -> P (bend_bmadx_track fen fex b E0 m (mkc x px y py tau delta)).
Proof.
  unfold bend_chain. cbv zeta. intros H. apply body_chain_sound in H.
  unfold bend_bmadx_track, bendx_bmad, to_bmad. cbn [cx cpx cy cpy ctau cdelta].
  set (q1 := bendx_entrance fen b _) in *.
  assert (E : q1 = mkb (bx q1) (bpx q1) (by_ q1) (bpy q1) (cb_z tau delta E0 m) (cb_pz delta E0 m)).
  { unfold q1. destruct fen; reflexivity. }
  rewrite E. exact H.
Qed.

(* ---------- (e) the two exit-position branches are the same number *)
Lemma bb_c1_eq_c2 L ang x px py pz :
  bb_gp L ang py pz <> 0 -> bb_t2 L ang x px py pz + bb_t3 ang px py pz <> 0 ->
  0 <= (cos (ang + bb_phi1 px py pz)) ^ 2 + bb_gp L ang py pz * bb_alpha L ang x px py pz ->
  bb_c1 L ang x px py pz = bb_c2 L ang x px py pz.
Proof.
  intros Hgp Hs Hr. unfold bb_c1, bb_c2. f_equal.
  assert (Q : bb_t2 L ang x px py pz * bb_t2 L ang x px py pz = bb_t3 ang px py pz ^ 2 + bb_gp L ang py pz * bb_alpha L ang x px py pz).
  { unfold bb_t2, bb_t3. apply sqrt_sqrt. exact Hr. }
  set (t2 := bb_t2 L ang x px py pz) in *. set (t3 := bb_t3 ang px py pz) in *.
  set (gp := bb_gp L ang py pz) in *. set (al := bb_alpha L ang x px py pz) in *.
  apply (Rmult_eq_reg_r ((t2 + t3) * gp)); [| apply Rmult_integral_contrapositive_currified; assumption].
  replace (al / (t2 + t3) * ((t2 + t3) * gp)) with (gp * al) by (field; assumption).
  replace ((t2 - t3) / gp * ((t2 + t3) * gp)) with (t2 * t2 - t3 ^ 2) by (field; assumption).
  rewrite Q. ring.
Qed.

(** so the exit position does not depend on the mask: the branch is a numerical choice *)
Lemma bb_x2_branch_irrelevant L ang x px py pz s1 s2 :
  bb_gp L ang py pz <> 0 -> bb_t2 L ang x px py pz + bb_t3 ang px py pz <> 0 ->
  0 <= (cos (ang + bb_phi1 px py pz)) ^ 2 + bb_gp L ang py pz * bb_alpha L ang x px py pz ->
  bb_x2_b L ang s1 x px py pz = bb_x2_b L ang s2 x px py pz.
Proof.
  intros H1 H2 H3. pose proof (bb_c1_eq_c2 L ang x px py pz H1 H2 H3) as E.
  destruct s1, s2; simpl; congruence.
Qed.

(** the change seeded as C07-1 (c2 divides by g instead of gp) is NOT the same number as soon as px_norm <> 1 and the two roots differ *)
Lemma bb_c2_wrong_divisor L ang x px py pz :
  bb_g L ang <> 0 -> bb_n py pz <> 0 -> bb_n py pz <> 1 -> bb_t2 L ang x px py pz <> bb_t3 ang px py pz ->
  bb_t1 L ang x + (bb_t2 L ang x px py pz - bb_t3 ang px py pz) / bb_g L ang <> bb_c2 L ang x px py pz.
Proof.
  intros Hg Hn Hn1 Hd E. unfold bb_c2, bb_gp in E.
  apply Rplus_eq_reg_l in E.
  set (d := bb_t2 L ang x px py pz - bb_t3 ang px py pz) in *.
  assert (Hd' : d <> 0) by (unfold d; lra).
  replace (d / (bb_g L ang / bb_n py pz)) with (d / bb_g L ang * bb_n py pz) in E by (field; split; assumption).
  assert (d / bb_g L ang <> 0).
  { unfold Rdiv. apply Rmult_integral_contrapositive_currified; [exact Hd'|apply Rinv_neq_0_compat; exact Hg]. }
  apply Hn1. apply (Rmult_eq_reg_l (d / bb_g L ang)); [lra|assumption].
Qed.

(* ---------- (a) the fringe kicks *)
(** the kick is linear in (x, y): px' = px + hx x, py' = py + hy y, everything else untouched, and
    hx = g tan e, hy = -g tan(e - phi) with phi = edge_phi fint g gap e, the angle used by Dipole._transfer_map_enter/_exit *)
Lemma fr_hy_edge L ang e fint gap : cos e <> 0 ->
  fr_hy L ang e fint gap = - (ang / L) * tan (e - edge_phi fint (ang / L) gap e).
Proof.
  intros Hc. unfold fr_hy, fr_g, fr_hgap, edge_phi. set (g := ang / L). f_equal. f_equal. f_equal. unfold Rsqr. field. exact Hc.
Qed.


Lemma fringe_is_edge_map L ang e fint gap q : cos e <> 0 ->
  bvec (bendx_fringe L ang e fint gap q) = rmvec (edge_map (ang / L) e (edge_phi fint (ang / L) gap e)) (bvec q).
Proof.
  intros Hc. destruct q as [x px y py z pz]. unfold bendx_fringe, bvec. cbn [bx bpx by_ bpy bz bpz].
  rewrite (fr_hy_edge _ _ _ _ _ Hc). unfold fr_hx, fr_g, edge_map, row.
  cbv [mmul mvec transpose col v7map dot c0 c1 c2 c3 c4 c5 c6]. apply v7_eq; cbv [c0 c1 c2 c3 c4 c5 c6]; ring.
Qed.

(** ... hence, for a dipole of non-zero length, the entrance kick IS the entrance edge matrix of Dipole.transfer_map, and the exit kick
    is the exit edge matrix provided gap_exit = gap (the linear map uses `gap` on both sides, Bmad-X uses `gap_exit` at the exit) *)
Lemma fringe_entrance_is_linear_edge b q : bd_L b <> 0 -> cos (bd_e1 b) <> 0 ->
  let hx := dip_hx (bd_L b) (bd_ang b) in
  bvec (bendx_entrance true b q) = rmvec (edge_map hx (bd_e1 b) (edge_phi (bd_fint b) hx (bd_gap b) (bd_e1 b))) (bvec q).
Proof.
  intros HL Hc hx. unfold hx, dip_hx. destruct (Req_EM_T (bd_L b) 0); [contradiction|].
  apply fringe_is_edge_map. exact Hc.
Qed.
Lemma fringe_exit_is_linear_edge b q : bd_L b <> 0 -> cos (bd_e2 b) <> 0 -> bd_gapx b = bd_gap b ->
  let hx := dip_hx (bd_L b) (bd_ang b) in
  bvec (bendx_exit true b q) = rmvec (edge_map hx (bd_e2 b) (edge_phi (bd_fintx b) hx (bd_gap b) (bd_e2 b))) (bvec q).
Proof.
  intros HL Hc Hg hx. unfold hx, dip_hx. destruct (Req_EM_T (bd_L b) 0); [contradiction|].
  unfold bendx_exit. rewrite Hg. apply fringe_is_edge_map. exact Hc.
Qed.

(** with gap_exit <> gap the two exit kicks use different angles phi: the vertical kick strengths are
    -g tan(e2 - phi(gap_exit)) (Bmad-X) and -g tan(e2 - phi(gap)) (linear map) *)
Lemma fringe_exit_gap_remark b : cos (bd_e2 b) <> 0 ->
  fr_hy (bd_L b) (bd_ang b) (bd_e2 b) (bd_fintx b) (bd_gapx b)
  = - (bd_ang b / bd_L b) * tan (bd_e2 b - edge_phi (bd_fintx b) (bd_ang b / bd_L b) (bd_gapx b) (bd_e2 b)).
Proof. intros Hc. apply fr_hy_edge. exact Hc. Qed.

(* ---------- (b) invariants of the body *)
Lemma body_py_pz L ang p0c m q :
  bpy (bendx_body L ang p0c m q) = bpy q /\ bpz (bendx_body L ang p0c m q) = bpz q.
Proof. split; reflexivity. Qed.

Lemma body_y_advance L ang p0c m q :
  let x2 := bb_x2 L ang (bx q) (bpx q) (bpy q) (bpz q) in
  let Lp := bb_Lp_b L ang x2 (bx q) (bpx q) (bpy q) (bpz q) (bb_quadrant L ang q) (bb_zero L ang q) in
  by_ (bendx_body L ang p0c m q) = by_ q + bpy q * Lp / bb_n (bpy q) (bpz q) /\
  bz (bendx_body L ang p0c m q) = bz q + bb_beta (bpz q) p0c m * L / bb_beta0 p0c m - (1 + bpz q) * Lp / bb_n (bpy q) (bpz q).
Proof. split; reflexivity. Qed.
