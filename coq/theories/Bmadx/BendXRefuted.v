(** Witnesses for the two places where the Bmad-X dipole (model: BendX.v) does NOT do what property C07 says.
    1. Bend angles below -pi: torch.arctan2 returns the polar angle of the chord in (-pi, pi], the true angle angle/2 - pi/2 lies
       below -pi, so theta_p is off by 4 pi and sinc(theta_p/2) is evaluated 2 pi away: the path length Lp is wrong, the design
       particle is displaced longitudinally (finding F70).  For 0 < |angle| < pi BendXOrbit.body_design_orbit proves the contrary.
    2. gap_exit <> gap: the Bmad-X exit fringe uses gap_exit, the linear map Dipole._transfer_map_exit uses gap (documented:
       "gap_exit ... only used with bmadx"), so the vertical exit kicks differ at first order. *)
From Coq Require Import Reals Lra.
From Interval Require Import Tactic.
From Cheetah Require Import Base.Mat Optics.Maps Bmadx.Coords Bmadx.DriftX Bmadx.Tdc Bmadx.BendX Bmadx.BendXProofs Bmadx.BendXTac.
Open Scope R_scope.

(** a 1 m dipole with angle = -4 rad moves the design particle (0,0,0,0,0,0) by more than 3 m in z (p0c = mc2 = 1) *)
Lemma body_design_orbit_refuted : bz (bendx_body 1 (-4) 1 1 (mkb 0 0 0 0 0 0)) < -3.
Proof.
  apply (body_chain_sound false Qleft_up 1 (-4) 1 1 0 0 0 0 0 0 (fun q => bz q < -3)).
  cbv beta delta [body_chain]. bd_chain. bd_final.
Qed.

(** exit kick with gap_exit = 1/10 vs the linear map's gap = 0 (e2 = 0, fint_exit = 1/2, g = 1): vertical strengths tan(1/20) vs 0 *)
Lemma fringe_exit_gap_refuted :
  let b := mkbend 1 1 0 0 (1 / 2) (1 / 2) 0 (1 / 10) 0 in
  fr_hy (bd_L b) (bd_ang b) (bd_e2 b) (bd_fintx b) (bd_gapx b)
  <> c2 (c3 (edge_map (dip_hx (bd_L b) (bd_ang b)) (bd_e2 b) (edge_phi (bd_fintx b) (dip_hx (bd_L b) (bd_ang b)) (bd_gap b) (bd_e2 b)))).
Proof.
  cbv zeta. cbn [bd_L bd_ang bd_e2 bd_fintx bd_gapx bd_gap]. unfold dip_hx. destruct (Req_EM_T 1 0) as [E|_]; [lra|].
  unfold edge_map, row, edge_phi, fr_hy, fr_g, fr_hgap. cbn [c2 c3].
  apply Rgt_not_eq. interval.
Qed.
