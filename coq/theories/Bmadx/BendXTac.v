(** Tactic used by the generated correspondence goals of harness/props/c07.py for the Bmad-X dipole:
      let o := bend_bmadx_track fen fex (mkbend L angle e1 e2 fint fint_exit gap gap_exit tilt) E0 m (mkc x px y py tau delta) in
      Rabs (cx o - observed) <= tol /\ ... (six coordinates)
    The goal is turned into the evaluation chain [bend_chain] (lemma bend_chain_sound): every intermediate value of
    Dipole._track_bmadx becomes a let-bound variable which is enclosed by [interval_intro] at 90 bits; the branches chosen by the
    harness (c1/c2 mask, quadrant of arctan2, sinc(theta_p/2) away from 0, arcsin argument inside (-1,1), angle <> 0) are side
    conditions of the chain, proved by [interval] on the enclosed variables.  Nothing here is trusted: the tactic only produces a
    proof term checked by Qed. *)
From Coq Require Import Reals Lra.
From Interval Require Import Tactic.
From Cheetah Require Import Bmadx.Coords Bmadx.DriftX Bmadx.Tdc Bmadx.BendX Bmadx.BendXProofs Bmadx.BendXFixed.
Open Scope R_scope.

Ltac bd_unf t :=
  eval cbv beta iota zeta delta [cb_p0c cb_pz cb_z cb_beta cb_p cb_energy bc_tau bc_delta bc_beta bc_energy bc_p bc_refE Rsqr
    bendx_entrance bendx_exit bendx_fringe fr_g fr_hgap fr_hx fr_hy off_set off_unset to_cheetah
    bx bpx by_ bpy bz bpz cx cpx cy cpy ctau cdelta bd_L bd_ang bd_e1 bd_e2 bd_fint bd_fintx bd_gap bd_gapx bd_tilt
    bb_beta bb_beta0 atan2_b sel_cond quad_cond] in t.

(* drop the enclosures of variables that do not occur in b: [interval] re-reads every hypothesis (90-bit literals) on each call *)
Ltac bd_clear_unused b :=
  repeat match goal with
  | H : _ <= ?v <= _ |- _ => is_var v; lazymatch b with context [v] => fail | _ => clear H end
  end.

Ltac bd_interval :=
  let g := match goal with |- ?G => G end in bd_clear_unused g; interval with (i_prec 90).

(* side conditions of the chain *)
Ltac bd_side :=
  let g := match goal with |- ?G => G end in let g' := bd_unf g in change g';
  lazymatch goal with
  | |- _ <> 0 => first [ apply Rgt_not_eq; bd_interval | apply Rlt_not_eq; bd_interval ]
  | |- _ /\ _ => split; bd_interval
  | |- _ => bd_interval
  end.

Ltac bd_let :=
  lazymatch goal with
  | |- let v := ?e in _ =>
      let e' := bd_unf e in
      let H := fresh "Hv" in
      eassert (H : _ <= e' <= _);
      [ bd_clear_unused e'; let H' := fresh in interval_intro e' with (i_prec 90) as H'; exact H' | ];
      intro v;
      match type of H with ?lo <= _ <= ?hi => change (lo <= v <= hi) in H end;
      clearbody v
  end.

Ltac bd_chain :=
  repeat first [ bd_let
               | lazymatch goal with |- body_chain _ _ _ _ _ _ _ _ _ _ _ _ _ => cbv beta delta [body_chain] end
               | lazymatch goal with |- body_chain_fixed _ _ _ _ _ _ _ _ _ _ _ _ _ _ => cbv beta delta [body_chain_fixed] end
               | lazymatch goal with |- _ /\ _ => split; [ bd_side | ] end ].

Ltac bd_final :=
  let g := match goal with |- ?G => G end in let g' := bd_unf g in change g';
  repeat split; bd_interval.

(** [sel]: the mask (|angle + phi1| < pi/2); [qd]: the quadrant of (Lcu, Lcv) in arctan2 *)
Ltac bendx_goal sel qd :=
  lazymatch goal with
  | |- let o := bend_bmadx_track ?fen ?fex ?b ?E0 ?m (mkc ?x ?px ?y ?py ?t ?d) in @?P o =>
      change (P (bend_bmadx_track fen fex b E0 m (mkc x px y py t d)));
      apply (bend_chain_sound sel qd fen fex b E0 m x px y py t d P)
  end;
  cbv beta iota delta [bend_chain body_chain bd_L bd_ang bd_e1 bd_e2 bd_fint bd_fintx bd_gap bd_gapx bd_tilt]; bd_chain; bd_final.

(** the same for the code after the repair of finding F70 (model bend_bmadx_track_fixed); [k]: the integer
    torch.round((theta_p - angle)/(4 pi)) chosen by the harness, justified by the side condition |(theta_p - angle)/(4 pi) - k| < 1/2 *)
Ltac bendx_goal_fixed sel qd k :=
  lazymatch goal with
  | |- let o := bend_bmadx_track_fixed ?fen ?fex ?b ?E0 ?m (mkc ?x ?px ?y ?py ?t ?d) in @?P o =>
      change (P (bend_bmadx_track_fixed fen fex b E0 m (mkc x px y py t d)));
      apply (bend_chain_fixed_sound sel qd k fen fex b E0 m x px y py t d P)
  end;
  cbv beta iota delta [bend_chain_fixed body_chain_fixed bd_L bd_ang bd_e1 bd_e2 bd_fint bd_fintx bd_gap bd_gapx bd_tilt]; bd_chain; bd_final.
