(** Model of the longitudinal coordinate changes Cheetah (tau, delta) <-> Bmad (z, pz) of
    cheetah/utils/bmadx.py:7-54, transcribed formula by formula over Coq's reals.
    Definitions only (proofs: CoordsProofs.v).  [m] is mc2 (electron_mass_eV), [E0] the reference energy. *)
From Coq Require Import Reals.
Open Scope R_scope.

(** cheetah_to_bmad_z_pz(tau, delta, ref_energy, mc2) -> (z, pz, p0c) *)
Definition cb_p0c (E0 m : R) : R := sqrt (E0² - m²).                       (* p0c = sqrt(ref_energy**2 - mc2**2) *)
Definition cb_energy (delta E0 m : R) : R := E0 + delta * cb_p0c E0 m.     (* energy = ref_energy + delta*p0c *)
Definition cb_p (delta E0 m : R) : R := sqrt ((cb_energy delta E0 m)² - m²). (* p = sqrt(energy**2 - mc2**2) *)
Definition cb_beta (delta E0 m : R) : R := cb_p delta E0 m / cb_energy delta E0 m.   (* beta = p/energy *)
Definition cb_z (tau delta E0 m : R) : R := - cb_beta delta E0 m * tau.    (* z = -beta*tau *)
Definition cb_pz (delta E0 m : R) : R := (cb_p delta E0 m - cb_p0c E0 m) / cb_p0c E0 m.  (* pz = (p - p0c)/p0c *)

(** bmad_to_cheetah_z_pz(z, pz, p0c, mc2) -> (tau, delta, ref_energy) *)
Definition bc_refE (p0c m : R) : R := sqrt (p0c² + m²).                     (* ref_energy = sqrt(p0c**2 + mc2**2) *)
Definition bc_p (pz p0c : R) : R := (1 + pz) * p0c.                         (* p = (1+pz)*p0c *)
Definition bc_energy (pz p0c m : R) : R := sqrt ((bc_p pz p0c)² + m²).      (* energy = sqrt(p**2 + mc2**2) *)
Definition bc_beta (pz p0c m : R) : R := bc_p pz p0c / bc_energy pz p0c m.  (* beta = p/energy *)
Definition bc_tau (z pz p0c m : R) : R := - z / bc_beta pz p0c m.           (* tau = -z/beta *)
Definition bc_delta (pz p0c m : R) : R := (bc_energy pz p0c m - bc_refE p0c m) / p0c.  (* delta = (energy - ref_energy)/p0c *)

(** region in which the code is defined and physical: rest energy > 0, reference and particle energies above it *)
Definition phys (delta E0 m : R) : Prop := 0 < m /\ m < E0 /\ m < cb_energy delta E0 m.
Definition bphys (pz p0c m : R) : Prop := 0 < m /\ 0 < p0c /\ 0 < 1 + pz.
