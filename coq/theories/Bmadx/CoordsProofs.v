(** Proofs about the Cheetah <-> Bmad longitudinal coordinate changes (model: Coords.v). *)
From Coq Require Import Reals Lra.
From Cheetah Require Import Bmadx.Coords.
Open Scope R_scope.

(* ---------- elementary facts on sqrt(E^2 - m^2) and sqrt(p^2 + m^2) *)
Lemma sqd_pos m E : 0 < m -> m < E -> 0 < E² - m².
Proof. unfold Rsqr; intros; nra. Qed.

Lemma mom_pos m E : 0 < m -> m < E -> 0 < sqrt (E² - m²).
Proof. intros; apply sqrt_lt_R0, sqd_pos; assumption. Qed.

Lemma mom_sqr m E : 0 < m -> m < E -> (sqrt (E² - m²))² = E² - m².
Proof. intros; apply Rsqr_sqrt; left; apply sqd_pos; assumption. Qed.

Lemma energy_of_mom m E : 0 < m -> m < E -> sqrt ((sqrt (E² - m²))² + m²) = E.
Proof.
  intros Hm HE. rewrite mom_sqr by assumption.
  replace (E² - m² + m²) with (E²) by ring. apply sqrt_Rsqr; lra.
Qed.

Lemma en_pos p m : 0 < m -> 0 < sqrt (p² + m²).
Proof. intros; apply sqrt_lt_R0. unfold Rsqr; nra. Qed.

Lemma en_sqr p m : (sqrt (p² + m²))² = p² + m².
Proof. apply Rsqr_sqrt. unfold Rsqr; nra. Qed.

Lemma en_gt_m p m : 0 < m -> 0 < p -> m < sqrt (p² + m²).
Proof.
  intros Hm Hp. rewrite <- (sqrt_Rsqr m) at 1 by lra.
  apply sqrt_lt_1_alt. unfold Rsqr; nra.
Qed.

Lemma mom_of_energy p m : 0 < p -> sqrt ((sqrt (p² + m²))² - m²) = p.
Proof.
  intros Hp. rewrite en_sqr. replace (p² + m² - m²) with (p²) by ring. apply sqrt_Rsqr; lra.
Qed.

(* ---------- the model is defined where the inputs are physical *)
Lemma cb_p0c_pos delta E0 m : phys delta E0 m -> 0 < cb_p0c E0 m.
Proof. intros (Hm & HE & _). apply mom_pos; assumption. Qed.

Lemma cb_p_pos delta E0 m : phys delta E0 m -> 0 < cb_p delta E0 m.
Proof. intros (Hm & _ & HE). apply mom_pos; assumption. Qed.

Lemma cb_energy_pos delta E0 m : phys delta E0 m -> 0 < cb_energy delta E0 m.
Proof. intros (Hm & _ & HE). lra. Qed.

(* forward conversion lands in the Bmad-physical region *)
Lemma cb_bphys delta E0 m : phys delta E0 m -> bphys (cb_pz delta E0 m) (cb_p0c E0 m) m.
Proof.
  intros H. pose proof (cb_p0c_pos _ _ _ H) as H0. pose proof (cb_p_pos _ _ _ H) as Hp.
  destruct H as (Hm & _ & _). repeat split; try assumption.
  unfold cb_pz. replace (1 + (cb_p delta E0 m - cb_p0c E0 m) / cb_p0c E0 m) with (cb_p delta E0 m / cb_p0c E0 m) by (field; lra).
  apply Rdiv_lt_0_compat; assumption.
Qed.

(* the momentum reconstructed by the backward conversion is the particle momentum of the forward one *)
Lemma bc_p_cb delta E0 m : phys delta E0 m -> bc_p (cb_pz delta E0 m) (cb_p0c E0 m) = cb_p delta E0 m.
Proof. intros H. pose proof (cb_p0c_pos _ _ _ H). unfold bc_p, cb_pz. field. lra. Qed.

Lemma bc_energy_cb delta E0 m : phys delta E0 m ->
  bc_energy (cb_pz delta E0 m) (cb_p0c E0 m) m = cb_energy delta E0 m.
Proof.
  intros H. unfold bc_energy. rewrite bc_p_cb by assumption. unfold cb_p.
  destruct H as (Hm & _ & HE). apply energy_of_mom; assumption.
Qed.

Lemma bc_refE_cb delta E0 m : phys delta E0 m -> bc_refE (cb_p0c E0 m) m = E0.
Proof. intros (Hm & HE & _). unfold bc_refE, cb_p0c. apply energy_of_mom; assumption. Qed.

(** documented definitions.  For ANY p, p0 that are the momenta (times c) belonging to the particle's total energy
    E = E0 + delta*p0 and to the reference energy E0 (energy-momentum relation, non-negative root):
    z = -beta*tau with beta = p/E the particle's velocity, pz = (p - p0)/p0, and the returned p0c is p0. *)
Lemma to_bmad_def tau delta E0 m p p0 E :
  0 < m -> m < E0 -> 0 <= p0 -> p0² + m² = E0² ->
  E = E0 + delta * p0 -> m < E -> 0 <= p -> p² + m² = E² ->
  cb_z tau delta E0 m = - (p / E) * tau /\ cb_pz delta E0 m = (p - p0) / p0 /\ cb_p0c E0 m = p0.
Proof.
  intros Hm HE0 Hp0 Hr0 HE HEm Hp Hr.
  assert (E0p : cb_p0c E0 m = p0).
  { unfold cb_p0c. replace (E0² - m²) with (p0²) by (rewrite <- Hr0; ring). apply sqrt_Rsqr; assumption. }
  assert (Een : cb_energy delta E0 m = E) by (unfold cb_energy; rewrite E0p; symmetry; assumption).
  assert (Pp : cb_p delta E0 m = p).
  { unfold cb_p. rewrite Een. replace (E² - m²) with (p²) by (rewrite <- Hr; ring). apply sqrt_Rsqr; assumption. }
  unfold cb_z, cb_pz, cb_beta. rewrite Pp, Een, E0p. repeat split.
Qed.

(** and back: tau = -z/beta, delta = (E - E0)/p0c with E, E0 the energies belonging to p = (1+pz) p0c and p0c *)
Lemma to_cheetah_def z pz p0c m E E0 :
  0 < m -> 0 < p0c -> 0 < 1 + pz ->
  0 <= E -> E² = ((1 + pz) * p0c)² + m² -> 0 <= E0 -> E0² = p0c² + m² ->
  bc_tau z pz p0c m = - z / (((1 + pz) * p0c) / E) /\ bc_delta pz p0c m = (E - E0) / p0c /\ bc_refE p0c m = E0.
Proof.
  intros Hm Hp0 HP HE HEr HE0 HE0r.
  assert (A : bc_energy pz p0c m = E).
  { unfold bc_energy, bc_p. rewrite <- HEr. apply sqrt_Rsqr; assumption. }
  assert (B : bc_refE p0c m = E0).
  { unfold bc_refE. rewrite <- HE0r. apply sqrt_Rsqr; assumption. }
  unfold bc_tau, bc_delta, bc_beta. rewrite A, B. unfold bc_p. repeat split.
Qed.

(** delta = (E - E0)/(p0 c): the particle energy assumed by the forward conversion is E0 + delta*p0c *)
Lemma delta_def delta E0 m : phys delta E0 m ->
  delta = (cb_energy delta E0 m - E0) / cb_p0c E0 m.
Proof. intros H. pose proof (cb_p0c_pos _ _ _ H). unfold cb_energy. field. lra. Qed.

(** round trip Cheetah -> Bmad -> Cheetah, including the returned reference energy *)
Lemma bmad_roundtrip tau delta E0 m : phys delta E0 m ->
  let z := cb_z tau delta E0 m in let pz := cb_pz delta E0 m in let p0c := cb_p0c E0 m in
  bc_tau z pz p0c m = tau /\ bc_delta pz p0c m = delta /\ bc_refE p0c m = E0.
Proof.
  intros H. cbv zeta.
  pose proof (cb_p0c_pos _ _ _ H) as H0. pose proof (cb_p_pos _ _ _ H) as Hp. pose proof (cb_energy_pos _ _ _ H) as He.
  repeat split.
  - unfold bc_tau, bc_beta. rewrite bc_p_cb, bc_energy_cb by assumption. unfold cb_z, cb_beta. field. lra.
  - unfold bc_delta. rewrite bc_energy_cb, (bc_refE_cb delta) by assumption. unfold cb_energy. field. lra.
  - apply (bc_refE_cb delta); assumption.
Qed.

(* ---------- backward then forward *)
Lemma bc_refE_gt pz p0c m : bphys pz p0c m -> m < bc_refE p0c m.
Proof. intros (Hm & Hp & _). apply en_gt_m; assumption. Qed.

Lemma cb_p0c_bc pz p0c m : bphys pz p0c m -> cb_p0c (bc_refE p0c m) m = p0c.
Proof. intros (Hm & Hp & _). unfold cb_p0c, bc_refE. apply mom_of_energy; assumption. Qed.

Lemma cb_energy_bc pz p0c m : bphys pz p0c m ->
  cb_energy (bc_delta pz p0c m) (bc_refE p0c m) m = bc_energy pz p0c m.
Proof.
  intros H. unfold cb_energy. rewrite (cb_p0c_bc pz) by assumption. destruct H as (_ & Hp & _).
  unfold bc_delta. field. lra.
Qed.

Lemma bc_p_pos pz p0c m : bphys pz p0c m -> 0 < bc_p pz p0c.
Proof. intros (_ & Hp & HP). unfold bc_p. apply Rmult_lt_0_compat; assumption. Qed.

Lemma cb_p_bc pz p0c m : bphys pz p0c m ->
  cb_p (bc_delta pz p0c m) (bc_refE p0c m) m = bc_p pz p0c.
Proof.
  intros H. unfold cb_p. rewrite cb_energy_bc by assumption. unfold bc_energy.
  apply mom_of_energy. apply (bc_p_pos pz p0c m); assumption.
Qed.

(* backward conversion lands in the Cheetah-physical region *)
Lemma bc_phys pz p0c m : bphys pz p0c m -> phys (bc_delta pz p0c m) (bc_refE p0c m) m.
Proof.
  intros H. split; [apply H|]. split; [apply (bc_refE_gt pz); assumption|].
  rewrite cb_energy_bc by assumption. unfold bc_energy.
  apply en_gt_m; [apply H | apply (bc_p_pos pz p0c m); assumption].
Qed.

(** round trip Bmad -> Cheetah -> Bmad, including the returned reference momentum *)
Lemma cheetah_roundtrip z pz p0c m : bphys pz p0c m ->
  let tau := bc_tau z pz p0c m in let delta := bc_delta pz p0c m in let E0 := bc_refE p0c m in
  cb_z tau delta E0 m = z /\ cb_pz delta E0 m = pz /\ cb_p0c E0 m = p0c.
Proof.
  intros H. cbv zeta.
  pose proof (bc_p_pos _ _ _ H) as Hp. destruct H as (Hm & Hp0 & HP).
  assert (He : 0 < bc_energy pz p0c m) by (apply en_pos; assumption).
  assert (H : bphys pz p0c m) by (repeat split; assumption).
  repeat split.
  - unfold cb_z, cb_beta. rewrite cb_p_bc, cb_energy_bc by assumption. unfold bc_tau, bc_beta. field. lra.
  - unfold cb_pz. rewrite cb_p_bc, (cb_p0c_bc pz) by assumption. unfold bc_p. field. lra.
  - apply (cb_p0c_bc pz); assumption.
Qed.

(** energy-momentum relation of the quantities both conversions compute *)
Lemma cb_energy_momentum delta E0 m : phys delta E0 m ->
  (cb_energy delta E0 m)² = (cb_p delta E0 m)² + m² /\ E0² = (cb_p0c E0 m)² + m².
Proof.
  intros (Hm & HE0 & HE). unfold cb_p, cb_p0c. rewrite !mom_sqr by assumption. split; ring.
Qed.

Lemma bc_energy_momentum pz p0c m :
  (bc_energy pz p0c m)² = (bc_p pz p0c)² + m² /\ (bc_refE p0c m)² = p0c² + m².
Proof. unfold bc_energy, bc_refE. rewrite !en_sqr. split; reflexivity. Qed.

(* the velocity factor used is a genuine beta: 0 < beta < 1 *)
Lemma cb_beta_range delta E0 m : phys delta E0 m -> 0 < cb_beta delta E0 m < 1.
Proof.
  intros H. pose proof (cb_p_pos _ _ _ H) as Hp. pose proof (cb_energy_pos _ _ _ H) as He.
  pose proof (cb_energy_momentum _ _ _ H) as [Hr _]. destruct H as (Hm & _ & _).
  unfold cb_beta. split.
  - apply Rdiv_lt_0_compat; assumption.
  - apply (Rmult_lt_reg_r (cb_energy delta E0 m)); [assumption|].
    replace (cb_p delta E0 m / cb_energy delta E0 m * cb_energy delta E0 m) with (cb_p delta E0 m) by (field; lra).
    rewrite Rmult_1_l. apply Rsqr_incrst_0; try lra. rewrite Hr. unfold Rsqr; nra.
Qed.

(* non-vacuity witness *)
Lemma phys_example : phys (1/100) 10000000 510998.95.
Proof.
  unfold phys, cb_energy, cb_p0c. pose proof (sqrt_pos ((10000000)² - (510998.95)²)). repeat split; lra.
Qed.
