(** Model of cheetah/utils/bmadx.py: sqrt_one, track_a_drift (lines 260-299), and of Drift._track_bmadx
    (accelerator/drift.py:77-121) = cheetah_to_bmad_z_pz ; track_a_drift ; bmad_to_cheetah_z_pz, over Coq's reals.
    Definitions only (proofs: DriftXProofs.v). *)
From Coq Require Import Reals.
From Cheetah Require Import Bmadx.Coords.
Open Scope R_scope.

(** sqrt_one(x): sq = sqrt(1+x); rad = sq + 1; return x/rad *)
Definition sqrt_one (x : R) : R := x / (sqrt (1 + x) + 1).

(** track_a_drift(length, x, px, y, py, z, pz, p0c, mc2) -> (x_out, y_out, z_out); px, py, pz are not touched *)
Definition dr_P (pz : R) : R := 1 + pz.
Definition dr_Px (px pz : R) : R := px / dr_P pz.
Definition dr_Pxy2 (px py pz : R) : R := (dr_Px px pz)² + (dr_Px py pz)².
Definition dr_Pl (px py pz : R) : R := sqrt (1 - dr_Pxy2 px py pz).
Definition dr_dz (L px py pz p0c m : R) : R :=
  L * (sqrt_one (m² * (2 * pz + pz²) / ((p0c * dr_P pz)² + m²)) + sqrt_one (- dr_Pxy2 px py pz) / dr_Pl px py pz).
Definition dr_x (L x px py pz : R) : R := x + L * dr_Px px pz / dr_Pl px py pz.
Definition dr_y (L y px py pz : R) : R := y + L * dr_Px py pz / dr_Pl px py pz.
Definition dr_z (L px py z pz p0c m : R) : R := z + dr_dz L px py pz p0c m.

(** a particle in Bmad coordinates and the drift as a map on it *)
Record bpart := mkb { bx : R; bpx : R; by_ : R; bpy : R; bz : R; bpz : R }.
Definition driftx (L p0c m : R) (q : bpart) : bpart :=
  mkb (dr_x L (bx q) (bpx q) (bpy q) (bpz q)) (bpx q) (dr_y L (by_ q) (bpx q) (bpy q) (bpz q)) (bpy q)
      (dr_z L (bpx q) (bpy q) (bz q) (bpz q) p0c m) (bpz q).

(** region where track_a_drift is defined: forward-moving particle with a real longitudinal momentum *)
Definition dr_ok (q : bpart) : Prop := 0 < 1 + bpz q /\ dr_Pxy2 (bpx q) (bpy q) (bpz q) < 1.

(** a particle in Cheetah coordinates; Drift._track_bmadx at reference energy E0 (returns the beam energy bc_refE) *)
Record cpart := mkc { cx : R; cpx : R; cy : R; cpy : R; ctau : R; cdelta : R }.
Definition to_bmad (E0 m : R) (v : cpart) : bpart :=
  mkb (cx v) (cpx v) (cy v) (cpy v) (cb_z (ctau v) (cdelta v) E0 m) (cb_pz (cdelta v) E0 m).
Definition to_cheetah (p0c m : R) (q : bpart) : cpart :=
  mkc (bx q) (bpx q) (by_ q) (bpy q) (bc_tau (bz q) (bpz q) p0c m) (bc_delta (bpz q) p0c m).
Definition drift_bmadx_track (L E0 m : R) (v : cpart) : cpart :=
  to_cheetah (cb_p0c E0 m) m (driftx L (cb_p0c E0 m) m (to_bmad E0 m v)).
Definition drift_bmadx_energy (E0 m : R) : R := bc_refE (cb_p0c E0 m) m.
