(** Bmad-X drift in Cheetah coordinates: closed form, and its Jacobian at the design orbit = Drift.transfer_map. *)
From Coq Require Import Reals Lra.
From Coquelicot Require Import Coquelicot.
From Cheetah Require Import Base.Mat Optics.Maps Bmadx.Coords Bmadx.CoordsProofs Bmadx.DriftX Bmadx.DriftXProofs.
Open Scope R_scope.

Section ClosedForm.
Variables (L E0 m : R).
Hypotheses (Hm : 0 < m) (HE : m < E0).
Let p0 := cb_p0c E0 m.

Lemma p0_pos : 0 < p0. Proof. apply mom_pos; assumption. Qed.
Lemma p0_sqr : p0² = E0² - m². Proof. apply mom_sqr; assumption. Qed.

Lemma phys0 : phys 0 E0 m.
Proof. unfold phys, cb_energy. repeat split; lra. Qed.

Lemma cb_p_0 : cb_p 0 E0 m = p0.
Proof. unfold cb_p, cb_energy. replace (E0 + 0 * cb_p0c E0 m) with E0 by ring. reflexivity. Qed.
Lemma cb_pz_0 : cb_pz 0 E0 m = 0.
Proof. unfold cb_pz. rewrite cb_p_0. fold p0. pose proof p0_pos. field. lra. Qed.
Lemma cb_beta_0 : cb_beta 0 E0 m = p0 / E0.
Proof. unfold cb_beta. rewrite cb_p_0. unfold cb_energy. fold p0. f_equal. ring. Qed.

(** Drift._track_bmadx in closed form: transverse momenta and delta are kept, x and y advance along the ray,
    tau advances by L*(1/(beta*Pl) - 1/beta0) (difference of the times of flight times c), reference energy kept *)
Lemma drift_bmadx_closed v : phys (cdelta v) E0 m -> dr_ok (to_bmad E0 m v) ->
  let pz := cb_pz (cdelta v) E0 m in
  drift_bmadx_track L E0 m v =
    mkc (dr_x L (cx v) (cpx v) (cpy v) pz) (cpx v) (dr_y L (cy v) (cpx v) (cpy v) pz) (cpy v)
        (ctau v + L * (1 / (cb_beta (cdelta v) E0 m * dr_Pl (cpx v) (cpy v) pz) - E0 / p0)) (cdelta v)
  /\ drift_bmadx_energy E0 m = E0.
Proof.
  intros Hph [HP Hl]. cbv zeta. destruct v as [x px y py tau delta]; simpl in *.
  pose proof p0_pos as Hp0. fold p0.
  destruct (bmad_roundtrip tau delta E0 m Hph) as (_ & Rd & Re). cbv zeta in Rd, Re. fold p0 in Rd, Re.
  split; [| exact Re].
  unfold drift_bmadx_track, to_cheetah, driftx, to_bmad; simpl. fold p0. f_equal; [| exact Rd].
  assert (Bb : bc_beta (cb_pz delta E0 m) p0 m = cb_beta delta E0 m).
  { unfold bc_beta. unfold p0. rewrite bc_p_cb, bc_energy_cb by assumption. reflexivity. }
  pose proof (cb_beta_range delta E0 m Hph) as [Bp _].
  assert (Pl : 0 < dr_Pl px py (cb_pz delta E0 m)) by (unfold dr_Pl; apply sqrt_lt_R0; lra).
  unfold bc_tau, dr_z. rewrite (driftx_dz p0 m Hp0 Hm) by assumption. rewrite Bb, Re.
  unfold cb_z. field. repeat split; lra.
Qed.
End ClosedForm.

(* ---------- partial derivatives at the design orbit (all coordinates 0) *)
Definition cvec0 := mkc 0 0 0 0 0 0.

Section Jacobian.
Variables (L E0 m : R).
Hypotheses (Hm : 0 < m) (HE : m < E0).
Let p0 := cb_p0c E0 m.

(* the R56 of the linear drift, written with the reference momentum *)
Definition r56_phys : R := - L * m² / (E0² - m²).

Lemma d_x_dpx : is_derive (fun t => dr_x L 0 t 0 0) 0 L.
Proof.
  unfold dr_x, dr_Pl, dr_Pxy2, dr_Px, dr_P, Rsqr. auto_derive.
  - match goal with |- context [sqrt ?e] => replace e with 1 by (unfold Rdiv; field; lra) end.
    rewrite sqrt_1. repeat split; lra.
  - match goal with |- context [sqrt ?e] => replace e with 1 by (unfold Rdiv; field; lra) end.
    rewrite sqrt_1. field.
Qed.

Lemma d_tau_ddelta :
  is_derive (fun t => L * (1 / (cb_beta t E0 m * 1) - E0 / p0)) 0 r56_phys.
Proof.
  pose proof (p0_pos E0 m Hm HE) as Hp. pose proof (p0_sqr E0 m Hm HE) as Hp2. fold p0 in Hp, Hp2.
  unfold cb_beta, cb_p, cb_energy. fold p0. unfold Rsqr at 1 2. unfold r56_phys.
  auto_derive.
  - replace (E0 + 0 * p0) with E0 by ring. replace (E0 * E0 + - (m * m)) with (E0² - m²) by (unfold Rsqr; ring).
    fold (cb_p0c E0 m). fold p0. repeat split; try lra. rewrite <- Hp2. apply Rlt_0_sqr; lra.
    apply Rmult_integral_contrapositive_currified; [apply Rmult_integral_contrapositive_currified; [lra|apply Rinv_neq_0_compat; lra]|lra].
  - replace (E0 + 0 * p0) with E0 by ring. replace (E0 * E0 + - (m * m)) with (E0² - m²) by (unfold Rsqr; ring).
    fold (cb_p0c E0 m). fold p0. clearbody p0. replace (m²) with (E0² - p0²) by lra. unfold Rsqr. field. repeat split; try lra; nra.
Qed.

(* delta-partial of tau through the whole of Drift._track_bmadx (conversions included) *)
Lemma jac_tau_delta :
  is_derive (fun t => ctau (drift_bmadx_track L E0 m (mkc 0 0 0 0 0 t))) 0 r56_phys.
Proof.
  pose proof (p0_pos E0 m Hm HE) as Hp. fold p0 in Hp.
  apply (is_derive_ext_loc (fun t => L * (1 / (cb_beta t E0 m * 1) - E0 / p0))); [| exact d_tau_ddelta].
  assert (He : 0 < (E0 - m) / p0) by (apply Rdiv_lt_0_compat; lra).
  exists (mkposreal _ He). intros t Ht.
  unfold ball in Ht; simpl in Ht; unfold AbsRing_ball, abs, minus, plus, opp in Ht; simpl in Ht.
  assert (Hph : phys t E0 m).
  { unfold phys, cb_energy. fold p0. repeat split; try lra.
    assert (- ((E0 - m) / p0) < t) by (apply Rabs_def2 in Ht; lra).
    assert (- (E0 - m) < t * p0); [| lra].
    replace (- (E0 - m)) with (- ((E0 - m) / p0) * p0) by (field; lra). apply Rmult_lt_compat_r; lra. }
  assert (Z : forall pz, dr_Pxy2 0 0 pz = 0) by (intro; unfold dr_Pxy2, dr_Px, Rdiv, Rsqr; ring).
  assert (Hok : dr_ok (to_bmad E0 m (mkc 0 0 0 0 0 t))).
  { split; simpl; [apply (cb_bphys t E0 m Hph) | rewrite Z; lra]. }
  destruct (drift_bmadx_closed L E0 m Hm HE (mkc 0 0 0 0 0 t) Hph Hok) as [C _]. cbv zeta in C. rewrite C. simpl.
  unfold dr_Pl. rewrite Z, Rminus_0_r, sqrt_1. fold p0. ring.
Qed.

(* px-partial of x through the whole of Drift._track_bmadx *)
Lemma jac_x_px : is_derive (fun t => cx (drift_bmadx_track L E0 m (mkc 0 t 0 0 0 0))) 0 L.
Proof.
  apply (is_derive_ext (fun t => dr_x L 0 t 0 0)); [| exact d_x_dpx].
  intros t. unfold drift_bmadx_track, to_cheetah, driftx, to_bmad; simpl. rewrite (cb_pz_0 E0 m Hm HE). reflexivity.
Qed.

(* x, y do not depend on tau; px, py are returned untouched (for every input) *)
Lemma track_px_py v : cpx (drift_bmadx_track L E0 m v) = cpx v /\ cpy (drift_bmadx_track L E0 m v) = cpy v.
Proof. split; reflexivity. Qed.
End Jacobian.

(** with the electron rest energy of the linear maps, the R56 above is Drift.transfer_map's R56 *)
Lemma r56_phys_is_drift_r56 L E0 : m_e < E0 -> r56_phys L E0 m_e = drift_r56 L E0.
Proof.
  intros HE. assert (Hm : 0 < m_e) by (unfold m_e; lra).
  unfold r56_phys, drift_r56, beta_of, igamma2_of, gamma_of.
  destruct (Req_EM_T (E0 / m_e) 0) as [Z|_].
  { exfalso. assert (E0 = 0); [| lra]. replace E0 with (E0 / m_e * m_e) by (field; lra). rewrite Z; ring. }
  assert (G : 0 < 1 - 1 / (E0 / m_e)²).
  { assert (X : 1 - 1 / (E0 / m_e)² = (E0² - m_e²) / E0²) by (unfold Rsqr; field; lra). rewrite X.
    apply Rdiv_lt_0_compat; [apply sqd_pos; assumption | apply Rlt_0_sqr; lra]. }
  rewrite Rsqr_sqrt by lra. unfold Rsqr in *. field. repeat split; try lra; nra.
Qed.

Lemma drift_jacobian_entries L E0 : m_e < E0 ->
  is_derive (fun t => cx (drift_bmadx_track L E0 m_e (mkc 0 t 0 0 0 0))) 0 (c1 (c0 (drift_map L E0))) /\
  is_derive (fun t => ctau (drift_bmadx_track L E0 m_e (mkc 0 0 0 0 0 t))) 0 (c5 (c4 (drift_map L E0))) /\
  (forall v, cpx (drift_bmadx_track L E0 m_e v) = cpx v /\ cpy (drift_bmadx_track L E0 m_e v) = cpy v).
Proof.
  intros HE. assert (Hm : 0 < m_e) by (unfold m_e; lra). split; [| split].
  - exact (jac_x_px L E0 m_e Hm HE).
  - change (c5 (c4 (drift_map L E0))) with (drift_r56 L E0).
    rewrite <- r56_phys_is_drift_r56 by assumption. exact (jac_tau_delta L E0 m_e Hm HE).
  - intros v. split; reflexivity.
Qed.
