(** Proofs about the Bmad-X drift (model: DriftX.v). *)
From Coq Require Import Reals Lra.
From Cheetah Require Import Bmadx.Coords Bmadx.CoordsProofs Bmadx.DriftX.
Open Scope R_scope.

(** sqrt_one x = sqrt(1+x) - 1 wherever the square root is real *)
Lemma sqrt_one_spec x : -1 <= x -> sqrt_one x = sqrt (1 + x) - 1.
Proof.
  intros H. unfold sqrt_one. pose proof (sqrt_pos (1 + x)) as Hs.
  assert (E : x = (sqrt (1 + x) - 1) * (sqrt (1 + x) + 1)).
  { replace ((sqrt (1 + x) - 1) * (sqrt (1 + x) + 1)) with (sqrt (1 + x) * sqrt (1 + x) - 1) by ring.
    rewrite sqrt_sqrt by lra. ring. }
  rewrite E at 1. field. lra.
Qed.

Section Drift.
Variables (p0c m : R).
Hypotheses (Hp0 : 0 < p0c) (Hm : 0 < m).

(* the velocity ratio hidden in the first sqrt_one *)
Lemma beta_ratio pz : 0 < 1 + pz ->
  sqrt (1 + m² * (2 * pz + pz²) / ((p0c * dr_P pz)² + m²)) = bc_beta pz p0c m / (p0c / bc_refE p0c m) /\
  -1 <= m² * (2 * pz + pz²) / ((p0c * dr_P pz)² + m²).
Proof.
  intros HP. unfold dr_P.
  assert (M2 : 0 < m²) by (apply Rlt_0_sqr; lra).
  assert (D : 0 < (p0c * (1 + pz))² + m²) by (pose proof (Rle_0_sqr (p0c * (1 + pz))); lra).
  assert (He : 0 < bc_energy pz p0c m) by (apply en_pos; assumption).
  assert (Hr : 0 < bc_refE p0c m) by (apply en_pos; assumption).
  assert (He2 : (bc_energy pz p0c m)² = ((1 + pz) * p0c)² + m²) by (unfold bc_energy, bc_p; apply en_sqr).
  assert (Hr2 : (bc_refE p0c m)² = p0c² + m²) by (unfold bc_refE; apply en_sqr).
  assert (X : 1 + m² * (2 * pz + pz²) / ((p0c * (1 + pz))² + m²)
              = ((1 + pz) * bc_refE p0c m / bc_energy pz p0c m)²).
  { rewrite Rsqr_div', (Rsqr_mult (1 + pz) (bc_refE p0c m)), He2, Hr2. unfold Rsqr. field. unfold Rsqr in D. nra. }
  split.
  - rewrite X. rewrite sqrt_Rsqr.
    + unfold bc_beta, bc_p. field. repeat split; lra.
    + apply Rlt_le, Rdiv_lt_0_compat; [apply Rmult_lt_0_compat|]; assumption.
  - pose proof (Rle_0_sqr ((1 + pz) * bc_refE p0c m / bc_energy pz p0c m)). lra.
Qed.

(** the "numerically accurate" dz equals the documented  L * (beta/beta_ref - 1/Pl) *)
Lemma driftx_dz L px py pz : 0 < 1 + pz -> dr_Pxy2 px py pz < 1 ->
  dr_dz L px py pz p0c m = L * (bc_beta pz p0c m / (p0c / bc_refE p0c m) - 1 / dr_Pl px py pz).
Proof.
  intros HP Hl. destruct (beta_ratio pz HP) as [B Bd].
  assert (Pl : 0 < dr_Pl px py pz) by (unfold dr_Pl; apply sqrt_lt_R0; lra).
  unfold dr_dz. rewrite !sqrt_one_spec by (try assumption; lra). rewrite B.
  replace (1 + - dr_Pxy2 px py pz) with (1 - dr_Pxy2 px py pz) by ring. fold (dr_Pl px py pz).
  field. repeat split; try lra. pose proof (en_pos p0c m Hm). unfold bc_refE. lra.
Qed.

(** straight-line motion: with ps = sqrt(P^2 - px^2 - py^2) the longitudinal momentum (over p0), the particle moves
    along the ray of direction (px, py, ps): x advances by L*px/ps, y by L*py/ps, the path length is L*P/ps, and
    z = -beta*c*(t - t_ref) advances by beta*(L/beta_ref - path/beta). *)
Lemma driftx_straight_line L x y px py pz : 0 < 1 + pz -> dr_Pxy2 px py pz < 1 ->
  let P := 1 + pz in let ps := sqrt (P² - px² - py²) in let path := L * P / ps in
  0 < ps /\
  dr_x L x px py pz = x + L * px / ps /\ dr_y L y px py pz = y + L * py / ps /\
  (dr_x L x px py pz - x)² + (dr_y L y px py pz - y)² + L² = path² /\
  dr_dz L px py pz p0c m = bc_beta pz p0c m * (L / (p0c / bc_refE p0c m) - path / bc_beta pz p0c m).
Proof.
  intros HP Hl. cbv zeta.
  assert (Pl : 0 < dr_Pl px py pz) by (unfold dr_Pl; apply sqrt_lt_R0; lra).
  assert (S : sqrt ((1 + pz)² - px² - py²) = (1 + pz) * dr_Pl px py pz).
  { apply sqrt_lem_1.
    - unfold dr_Pxy2, dr_Px, dr_P in Hl. rewrite !Rsqr_div' in Hl.
      assert (0 < (1 + pz)²) by (unfold Rsqr; nra).
      assert ((px² + py²) / (1 + pz)² < 1) by (replace ((px² + py²) / (1 + pz)²) with (px² / (1 + pz)² + py² / (1 + pz)²) by (field; lra); lra).
      assert (px² + py² < (1 + pz)²); [| lra].
      apply (Rmult_lt_reg_r (/ (1 + pz)²)); [apply Rinv_0_lt_compat; assumption|].
      replace ((1 + pz)² * / (1 + pz)²) with 1 by (field; lra). unfold Rdiv in *. lra.
    - apply Rmult_le_pos; lra.
    - replace ((1 + pz) * dr_Pl px py pz * ((1 + pz) * dr_Pl px py pz)) with ((1 + pz)² * (dr_Pl px py pz)²) by (unfold Rsqr; ring).
      unfold dr_Pl. rewrite Rsqr_sqrt by lra. unfold dr_Pxy2, dr_Px, dr_P, Rsqr. field. lra. }
  rewrite S.
  assert (Pl2 : (dr_Pl px py pz)² = 1 - dr_Pxy2 px py pz) by (unfold dr_Pl; apply Rsqr_sqrt; lra).
  assert (B : 0 < bc_beta pz p0c m).
  { unfold bc_beta, bc_p. apply Rdiv_lt_0_compat; [apply Rmult_lt_0_compat; assumption | apply en_pos; assumption]. }
  repeat split.
  - apply Rmult_lt_0_compat; assumption.
  - unfold dr_x, dr_Px, dr_P. field. lra.
  - unfold dr_y, dr_Px, dr_P. field. lra.
  - unfold dr_x, dr_y.
    replace (x + L * dr_Px px pz / dr_Pl px py pz - x) with (L * dr_Px px pz / dr_Pl px py pz) by ring.
    replace (y + L * dr_Px py pz / dr_Pl px py pz - y) with (L * dr_Px py pz / dr_Pl px py pz) by ring.
    rewrite !Rsqr_div', !Rsqr_mult, Pl2.
    assert (Q : dr_Pxy2 px py pz = (dr_Px px pz)² + (dr_Px py pz)²) by reflexivity.
    rewrite Q in *. unfold Rsqr in *. field. split; nra.
  - rewrite driftx_dz by assumption. field. repeat split; try lra.
    pose proof (en_pos p0c m Hm). unfold bc_refE. lra.
Qed.

(** Bmad-X drifts compose exactly: a drift of L1 followed by a drift of L2 is the drift of L1 + L2 *)
Lemma driftx_flow L1 L2 q : driftx L2 p0c m (driftx L1 p0c m q) = driftx (L1 + L2) p0c m q.
Proof.
  destruct q as [x px y py z pz]. unfold driftx; simpl. f_equal.
  - unfold dr_x, Rdiv. ring.
  - unfold dr_y, Rdiv. ring.
  - unfold dr_z, dr_dz. ring.
Qed.
End Drift.
