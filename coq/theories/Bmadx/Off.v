(** C09 -- just enough of the Bmad-X tracking code (cheetah/accelerator/dipole.py `_bmadx_body`, `_bmadx_fringe_linear`,
    cheetah/accelerator/quadrupole.py `_track_bmadx`) to state where it is *undefined* at zero strength / zero length.
    Coq's [/] is total (x/0 = 0) while torch yields inf/nan, so each modelled quotient comes with its definedness guard
    (DESIGN 2.2 "Non-real values"): the guards below list divisors that are evaluated for EVERY particle (the code masks
    branches by multiplication, `c1*(cond) + c2*(~cond)`, so an undefined unselected branch still poisons the result). *)
From Coq Require Import Reals.
Open Scope R_scope.

(** Dipole._bmadx_body:  px_norm = sqrt((1+pz)^2 - py^2);  g = angle / length;  gp = g / px_norm;
    c2 = x2_t1 + (x2_t2 - x2_t3) / gp  *)
Definition bendx_g (L angle : R) : R := angle / L.
Definition bendx_px_norm (py pz : R) : R := sqrt ((1 + pz) ^ 2 - py ^ 2).
Definition bendx_gp (L angle py pz : R) : R := bendx_g L angle / bendx_px_norm py pz.
Definition bendx_defined (L angle py pz : R) : Prop :=
  L <> 0                      (* divisor of g (also in _bmadx_fringe_linear) *)
  /\ 0 < (1 + pz) ^ 2 - py ^ 2  (* radicand of px_norm, divisor of gp and phi1 *)
  /\ bendx_gp L angle py pz <> 0. (* divisor of c2 *)

(** Quadrupole._track_bmadx:  b1 = k1 * length;  k1_step = b1 / (length * rel_p)  *)
Definition quadx_k1 (k1 L relp : R) : R := (k1 * L) / (L * relp).
Definition quadx_defined (L relp : R) : Prop := L * relp <> 0.
