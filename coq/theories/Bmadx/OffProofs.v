(** C09 -- Bmad-X: the definedness guards fail exactly at the switched-off / zero-length points [F8]. *)
From Coq Require Import Reals Lra.
From Cheetah Require Import Bmadx.Off.
Open Scope R_scope.

(* Dipole(tracking_method="bmadx", angle=0): g = 0, gp = 0, c2 = .../0 for every particle *)
Theorem bendx_off_undefined L py pz : ~ bendx_defined L 0 py pz.
Proof. unfold bendx_defined, bendx_gp, bendx_g. intros [_ [_ H]]. apply H. unfold Rdiv. ring. Qed.

(* Dipole(tracking_method="bmadx", length=0): g = angle/0 *)
Theorem bendx_L0_undefined angle py pz : ~ bendx_defined 0 angle py pz.
Proof. unfold bendx_defined. intros [H _]. apply H. reflexivity. Qed.

(* Quadrupole(tracking_method="bmadx", length=0): k1_step = 0/0 *)
Theorem quadx_L0_undefined relp : ~ quadx_defined 0 relp.
Proof. unfold quadx_defined. intros H. apply H. ring. Qed.

(* non-vacuity: the guards hold at ordinary points, and the step strength of a switched-off quadrupole of non-zero length is exactly 0 *)
Theorem bendx_defined_example : bendx_defined 1 (1/10) 0 0.
Proof.
  unfold bendx_defined, bendx_gp, bendx_g, bendx_px_norm. repeat split; try lra.
  replace ((1 + 0) ^ 2 - 0 ^ 2) with 1 by ring. rewrite sqrt_1. lra.
Qed.
Theorem quadx_off_k1 L relp : quadx_defined L relp -> quadx_k1 0 L relp = 0.
Proof. intros _. unfold quadx_k1, Rdiv. ring. Qed.
