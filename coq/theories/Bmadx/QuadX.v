(** Model of the Bmad-X quadrupole: cheetah/utils/bmadx.py `calculate_quadrupole_coefficients` (lines 224-262),
    `low_energy_z_correction` (183-221), `offset_particle_set/unset` (116-179, modelled in Tdc.v as off_set/off_unset)
    and `Quadrupole._track_bmadx` (accelerator/quadrupole.py:116-199), transcribed formula by formula over Coq's reals.
    Definitions only (proofs: QuadXProofs.v, QuadXFlow.v, QuadXJac.v).

    The code selects branches by multiplying with boolean masks, `cos(..)*(k1 <= 0) + cosh(..)*(k1 > 0)` and
    `series*(evaluation < 3e-7 e_tot) + exact*(evaluation >= 3e-7 e_tot)`.  For finite operands (no overflow of cosh, no
    division by zero: length <> 0, 1 + pz > 0) that is an if-then-else; every definition below therefore comes in a form
    with the branch given as a boolean ([.._b]) and in the form with the branch computed from the data as the code does. *)
From Coq Require Import Reals.
From Cheetah Require Import Bmadx.Coords Bmadx.DriftX Bmadx.Tdc.
Open Scope R_scope.

(** double_precision_epsilon = torch.finfo(torch.float64).eps = 2^-52 *)
Definition qx_eps : R := / 4503599627370496.

(** calculate_quadrupole_coefficients(k1, length, rel_p, eps); [foc] is the mask (k1 <= 0) *)
Section Coef.
Variables (foc : bool) (eps k len relp : R).
Definition qc_sqrtk : R := sqrt (Rabs k + eps).                         (* sqrt_k = sqrt(|k1| + eps) *)
Definition qc_skl : R := qc_sqrtk * len.                                (* sk_l = sqrt_k * length *)
Definition qc_cx : R := if foc then cos qc_skl else cosh qc_skl.         (* cx = cos(sk_l)*(k1<=0) + cosh(sk_l)*(k1>0) *)
Definition qc_sx : R := if foc then sin qc_skl / qc_sqrtk else sinh qc_skl / qc_sqrtk.  (* sx = sin(sk_l)/sqrt_k*(k1<=0) + sinh(sk_l)/sqrt_k*(k1>0) *)
Definition qc_a11 : R := qc_cx.
Definition qc_a12 : R := qc_sx / relp.
Definition qc_a21 : R := k * qc_sx * relp.
Definition qc_a22 : R := qc_cx.
Definition qc_c1 : R := k * (- qc_cx * qc_sx + len) / 4.                 (* c1 = k1*(-cx*sx + length)/4 *)
Definition qc_c2 : R := - k * qc_sx² / (2 * relp).                       (* c2 = -k1*sx**2/(2*rel_p) *)
Definition qc_c3 : R := - (qc_cx * qc_sx + len) / (4 * relp²).           (* c3 = -(cx*sx + length)/(4*rel_p**2) *)
End Coef.

(* the mask (k1 <= 0) *)
Definition le0 (k : R) : bool := if Rle_dec k 0 then true else false.

(** low_energy_z_correction(pz, p0c, mc2, ds) *)
Definition lez_beta (pz p0c m : R) : R := (1 + pz) * p0c / sqrt (((1 + pz) * p0c)² + m²).
Definition lez_etot (p0c m : R) : R := sqrt (p0c² + m²).
Definition lez_beta0 (p0c m : R) : R := p0c / sqrt (p0c² + m²).
Definition lez_eval (pz p0c m : R) : R := m * (lez_beta0 p0c m * pz)².       (* evaluation = mc2*(beta0*pz)**2 *)
Definition lez_thr : R := 3e-7.                                              (* the literal 3e-7 (as a real; the harness keeps clear of the edge) *)
Definition lez_series (pz p0c m ds : R) : R :=
  let b0 := lez_beta0 p0c m in let g := m / lez_etot p0c m in
  ds * pz * (1 - 3 * (pz * b0²) / 2 + pz² * b0² * (2 * b0² - g² / 2)) * g².
Definition lez_exact (pz p0c m ds : R) : R :=
  ds * (lez_beta pz p0c m - lez_beta0 p0c m) / lez_beta0 p0c m.
Definition lez_b (ser : bool) (pz p0c m ds : R) : R := if ser then lez_series pz p0c m ds else lez_exact pz p0c m ds.
(* the mask (evaluation < 3e-7*e_tot) *)
Definition lez_small (pz p0c m : R) : bool := if Rlt_dec (lez_eval pz p0c m) (lez_thr * lez_etot p0c m) then true else false.
Definition lez (pz p0c m ds : R) : R := lez_b (lez_small pz p0c m) pz p0c m ds.

(** one pass of the loop body of Quadrupole._track_bmadx.  [Lf] = self.length, [k1] = self.k1, [ds] = step_length *)
Section Step.
Variables (eps Lf k1 ds p0c m : R).
Definition qs_k1 (pz : R) : R := (k1 * Lf) / (Lf * (1 + pz)).               (* k1 = b1/(length*rel_p), b1 = self.k1*self.length *)
Definition quadx_step_b (fx fy ser : bool) (q : bpart) : bpart :=
  let r := 1 + bpz q in let k := qs_k1 (bpz q) in
  let x := bx q in let px := bpx q in let y := by_ q in let py := bpy q in
  mkb (qc_a11 fx eps (- k) ds * x + qc_a12 fx eps (- k) ds r * px)
      (qc_a21 fx eps (- k) ds r * x + qc_a22 fx eps (- k) ds * px)
      (qc_a11 fy eps k ds * y + qc_a12 fy eps k ds r * py)
      (qc_a21 fy eps k ds r * y + qc_a22 fy eps k ds * py)
      (bz q + qc_c1 fx eps (- k) ds * x² + qc_c2 fx eps (- k) ds r * x * px + qc_c3 fx eps (- k) ds r * px²
            + qc_c1 fy eps k ds * y² + qc_c2 fy eps k ds r * y * py + qc_c3 fy eps k ds r * py²
            + lez_b ser (bpz q) p0c m ds)
      (bpz q).
(* the step with the masks computed as the code computes them *)
Definition quadx_step (q : bpart) : bpart :=
  quadx_step_b (le0 (- qs_k1 (bpz q))) (le0 (qs_k1 (bpz q))) (lez_small (bpz q) p0c m) q.
End Step.

Fixpoint iter {A : Type} (n : nat) (f : A -> A) (a : A) : A :=
  match n with O => a | S n' => iter n' f (f a) end.

(** Quadrupole._track_bmadx between the coordinate conversions: offset_particle_set ; num_steps steps of length L/num_steps ;
    offset_particle_unset.  (pz is not touched.) *)
Definition quadx_bmad (eps : R) (n : nat) (L k1 ox oy tilt p0c m : R) (q : bpart) : bpart :=
  off_unset ox oy tilt (iter n (quadx_step eps L k1 (L / INR n) p0c m) (off_set ox oy tilt q)).
Definition quadx_bmad_b (fx fy ser : bool) (eps : R) (n : nat) (L k1 ox oy tilt p0c m : R) (q : bpart) : bpart :=
  off_unset ox oy tilt (iter n (quadx_step_b eps L k1 (L / INR n) p0c m fx fy ser) (off_set ox oy tilt q)).

(** the whole of Quadrupole._track_bmadx in Cheetah coordinates, with the coded eps; returned beam energy: [drift_bmadx_energy E0 m] *)
Definition quad_bmadx_track (n : nat) (L k1 ox oy tilt E0 m : R) (v : cpart) : cpart :=
  to_cheetah (cb_p0c E0 m) m (quadx_bmad qx_eps n L k1 ox oy tilt (cb_p0c E0 m) m (to_bmad E0 m v)).
Definition quad_bmadx_track_b (fx fy ser : bool) (n : nat) (L k1 ox oy tilt E0 m : R) (v : cpart) : cpart :=
  to_cheetah (cb_p0c E0 m) m (quadx_bmad_b fx fy ser qx_eps n L k1 ox oy tilt (cb_p0c E0 m) m (to_bmad E0 m v)).
(* same with eps as a parameter (the theorems about the exact flow use eps := 0) *)
Definition quad_bmadx_track_eps (eps : R) (n : nat) (L k1 ox oy tilt E0 m : R) (v : cpart) : cpart :=
  to_cheetah (cb_p0c E0 m) m (quadx_bmad eps n L k1 ox oy tilt (cb_p0c E0 m) m (to_bmad E0 m v)).
