(** The Bmad-X quadrupole with eps := 0 is an exact flow in the length: transverse coordinates AND z (the quadratic form
    c1 x^2 + c2 x px + c3 px^2 composes exactly), hence independence of num_steps and of cutting the element in two.
    (With the coded eps = 2^-52 the 2x2 blocks have determinant 1 -/+ eps*sx^2 (QuadXProofs.qc_det), so the flow law holds
    only up to O(eps): that part is checked on the implementation with a 1e-10 tolerance.) *)
From Coq Require Import Reals Lra Psatz.
From Cheetah Require Import Base.Mat Base.RealAux Optics.Maps Optics.CS Lattice.SplitProofs Bmadx.Coords Bmadx.DriftX Bmadx.Tdc
  Bmadx.QuadX Bmadx.QuadXProofs.
Open Scope R_scope.

(* the polynomial identity behind the composition of the z quadratic forms; (C, S) any pair with C^2 + k S^2 = 1 *)
Lemma zq_core k l1 l2 C1 S1 C2 S2 x u :
  C1 * C1 + k * S1 * S1 = 1 -> C2 * C2 + k * S2 * S2 = 1 ->
  let C12 := C1 * C2 - k * (S1 * S2) in let S12 := S1 * C2 + C1 * S2 in
  let x' := C1 * x + S1 * u in let u' := - k * S1 * x + C1 * u in
  (- k * (l1 - C1 * S1) / 4 * (x * x) + k * (S1 * S1) / 2 * x * u - (C1 * S1 + l1) / 4 * (u * u))
  + (- k * (l2 - C2 * S2) / 4 * (x' * x') + k * (S2 * S2) / 2 * x' * u' - (C2 * S2 + l2) / 4 * (u' * u'))
  = - k * (l1 + l2 - C12 * S12) / 4 * (x * x) + k * (S12 * S12) / 2 * x * u - (C12 * S12 + l1 + l2) / 4 * (u * u).
Proof.
  intros H1 H2. cbv zeta. apply Rminus_diag_uniq.
  match goal with |- ?d = 0 =>
    replace d with (((-2*C2*C2*u*x - 2*S2*S2*k*u*x - k*l2*(x*x) - l2*(u*u) + 2*u*x) * (C1 * C1 + k * S1 * S1 - 1)
                    + (2*C1*C1*u*x - C1*S1*k*(x*x) + C1*S1*(u*u) - 2*u*x) * (C2 * C2 + k * S2 * S2 - 1)) / 4) by field end.
  rewrite H1, H2. field.
Qed.

Lemma zq_add k r l1 l2 x px : r <> 0 ->
  zq k r l1 x px + zq k r l2 (Cf k l1 * x + Sf k l1 / r * px) (- k * Sf k l1 * r * x + Cf k l1 * px)
  = zq k r (l1 + l2) x px.
Proof.
  intros Hr. unfold zq. rewrite (Cf_add k l1 l2), (Sf_add k l1 l2).
  pose proof (zq_core k l1 l2 (Cf k l1) (Sf k l1) (Cf k l2) (Sf k l2) x (px / r)) as H.
  assert (H1 : Cf k l1 * Cf k l1 + k * Sf k l1 * Sf k l1 = 1) by apply Cf_Sf_id.
  assert (H2 : Cf k l2 * Cf k l2 + k * Sf k l2 * Sf k l2 = 1) by apply Cf_Sf_id.
  specialize (H H1 H2). cbv zeta in H.
  set (C1 := Cf k l1) in *. set (S1 := Sf k l1) in *. set (C2 := Cf k l2) in *. set (S2 := Sf k l2) in *.
  unfold Rsqr.
  transitivity (- k * (l1 - C1 * S1) / 4 * (x * x) + k * (S1 * S1) / 2 * x * (px / r) - (C1 * S1 + l1) / 4 * (px / r * (px / r)) +
     (- k * (l2 - C2 * S2) / 4 * ((C1 * x + S1 * (px / r)) * (C1 * x + S1 * (px / r))) +
      k * (S2 * S2) / 2 * (C1 * x + S1 * (px / r)) * (- k * S1 * x + C1 * (px / r)) -
      (C2 * S2 + l2) / 4 * ((- k * S1 * x + C1 * (px / r)) * (- k * S1 * x + C1 * (px / r))))).
  - field. exact Hr.
  - rewrite H. field. exact Hr.
Qed.

Lemma lez_add pz p0c m a b : lez pz p0c m (a + b) = lez pz p0c m a + lez pz p0c m b.
Proof. unfold lez. apply lez_linear. Qed.
Lemma lez_0 pz p0c m : lez pz p0c m 0 = 0.
Proof. unfold lez, lez_b, lez_series, lez_exact. destruct (lez_small pz p0c m); cbv zeta; unfold Rdiv; ring. Qed.

(** the step with eps := 0 is a one-parameter semigroup in the length (k = k1/(1+pz) is constant along the particle) *)
Lemma qflow_add p0c m k l1 l2 q : 0 < 1 + bpz q ->
  qflow p0c m k l2 (qflow p0c m k l1 q) = qflow p0c m k (l1 + l2) q.
Proof.
  intros HP. destruct q as [x px y py z pz]. simpl in HP. unfold qflow. cbn [bx bpx by_ bpy bz bpz].
  set (r := 1 + pz) in *. assert (Hr : r <> 0) by lra.
  f_equal.
  - rewrite (Cf_add k l1 l2), (Sf_add k l1 l2). field. exact Hr.
  - rewrite (Cf_add k l1 l2), (Sf_add k l1 l2). field. exact Hr.
  - rewrite (Cf_add (- k) l1 l2), (Sf_add (- k) l1 l2). field. exact Hr.
  - rewrite (Cf_add (- k) l1 l2), (Sf_add (- k) l1 l2). field. exact Hr.
  - rewrite <- (zq_add k r l1 l2 x px Hr), <- (zq_add (- k) r l1 l2 y py Hr), lez_add.
    replace (- - k * Sf (- k) l1 * r * y + Cf (- k) l1 * py) with (k * Sf (- k) l1 * r * y + Cf (- k) l1 * py) by ring.
    ring.
Qed.

Lemma qflow_0 p0c m k q : qflow p0c m k 0 q = q.
Proof.
  destruct q as [x px y py z pz]. unfold qflow, zq. cbn [bx bpx by_ bpy bz bpz].
  rewrite !Cf_0, !Sf_0, lez_0. unfold Rsqr, Rdiv. f_equal; ring.
Qed.

Lemma qflow_iter p0c m k l n q : 0 < 1 + bpz q ->
  iter n (qflow p0c m k l) q = qflow p0c m k (INR n * l) q.
Proof.
  revert q. induction n as [|n IH]; intros q HP.
  - simpl. rewrite Rmult_0_l, qflow_0. reflexivity.
  - change (iter (S n) (qflow p0c m k l) q) with (iter n (qflow p0c m k l) (qflow p0c m k l q)).
    rewrite IH by exact HP. rewrite qflow_add by exact HP. rewrite S_INR. f_equal. ring.
Qed.

Section Flow.
Variables (k1 p0c m : R).
Hypothesis (Hk : k1 <> 0).

(** (b) exact flow of the coded step with eps := 0, all six coordinates; the element lengths Lf (used by the code only to form
    b1/(length*rel_p) = k1/rel_p) may differ *)
Theorem quadx_flow_eps0 Lf1 Lf2 Lf3 l1 l2 q : Lf1 <> 0 -> Lf2 <> 0 -> Lf3 <> 0 -> 0 < 1 + bpz q ->
  quadx_step 0 Lf2 k1 l2 p0c m (quadx_step 0 Lf1 k1 l1 p0c m q) = quadx_step 0 Lf3 k1 (l1 + l2) p0c m q.
Proof.
  intros H1 H2 H3 HP.
  rewrite (quadx_step_eps0 Lf1) by assumption. rewrite (quadx_step_eps0 Lf2) by assumption.
  rewrite (quadx_step_eps0 Lf3) by assumption. cbn [bpz qflow]. apply qflow_add. exact HP.
Qed.

Lemma quadx_iter_eps0 Lf ds n q : Lf <> 0 -> 0 < 1 + bpz q ->
  iter n (quadx_step 0 Lf k1 ds p0c m) q = qflow p0c m (k1 / (1 + bpz q)) (INR n * ds) q.
Proof.
  intros HL HP. rewrite <- qflow_iter by exact HP.
  apply (iter_ext_inv (fun a => bpz a = bpz q)).
  - intros a Ha. rewrite step_pz. exact Ha.
  - intros a Ha. rewrite quadx_step_eps0 by (try assumption; rewrite Ha; exact HP). rewrite Ha. reflexivity.
  - reflexivity.
Qed.

(** num_steps-independence: n steps of length L/n are one step of length L, for every misalignment and tilt *)
Theorem quadx_num_steps_eps0 n L ox oy t q : L <> 0 -> n <> O -> 0 < 1 + bpz q ->
  quadx_bmad 0 n L k1 ox oy t p0c m q = quadx_bmad 0 1 L k1 ox oy t p0c m q.
Proof.
  intros HL Hn HP. unfold quadx_bmad.
  rewrite !quadx_iter_eps0 by (try assumption; rewrite off_set_pz; exact HP).
  replace (INR n * (L / INR n)) with L by (field; apply not_0_INR, Hn).
  replace (INR 1 * (L / INR 1)) with L by (simpl; field). reflexivity.
Qed.

(** two consecutive quadrupoles with the same strength, misalignment and tilt are one quadrupole of the total length *)
Theorem quadx_element_flow_eps0 n1 n2 n3 L1 L2 ox oy t q :
  L1 <> 0 -> L2 <> 0 -> L1 + L2 <> 0 -> n1 <> O -> n2 <> O -> n3 <> O -> 0 < 1 + bpz q ->
  quadx_bmad 0 n2 L2 k1 ox oy t p0c m (quadx_bmad 0 n1 L1 k1 ox oy t p0c m q) = quadx_bmad 0 n3 (L1 + L2) k1 ox oy t p0c m q.
Proof.
  intros H1 H2 H3 N1 N2 N3 HP. unfold quadx_bmad. rewrite off_roundtrip'.
  assert (HP' : 0 < 1 + bpz (off_set ox oy t q)) by (rewrite off_set_pz; exact HP).
  rewrite (quadx_iter_eps0 L1) by assumption.
  rewrite (quadx_iter_eps0 L2) by (try assumption; exact HP').
  rewrite (quadx_iter_eps0 (L1 + L2)) by assumption.
  cbn [bpz qflow]. rewrite qflow_add by exact HP'. f_equal. f_equal.
  field. repeat split; apply not_0_INR; assumption.
Qed.
End Flow.
