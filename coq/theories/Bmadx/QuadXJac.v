(** Bmad-X quadrupole, analytic part: (c) the series branch of low_energy_z_correction agrees with the exact branch (= the
    Bmad-X drift's dz) up to 4 |ds| (m/E)^2 beta0^4 pz^4, hence an on-axis particle is moved like a Bmad-X drift up to
    3.6e-13 |L| in z when the series branch is taken; (e) R56 = d tau'/d delta at the origin = the linear map's R56. *)
From Coq Require Import Reals Lra Psatz.
From Coquelicot Require Import Coquelicot.
From Cheetah Require Import Base.Mat Optics.Maps Bmadx.Coords Bmadx.CoordsProofs Bmadx.DriftX Bmadx.DriftXProofs Bmadx.DriftXJac Bmadx.Tdc
  Bmadx.QuadX Bmadx.QuadXProofs.
Open Scope R_scope.

(* ---------- (c) the series branch.  With b = beta0^2 and g2 = 1 - b = (m/E)^2 the exact branch is ds*((1+pz)/sqrt(1 + b(2pz+pz^2)) - 1)
   and the series is its Taylor polynomial of degree 3 in pz; the remainder is g2 b^2 pz^4 q(pz,b) / (s (1 + pz + (1+S) s)) *)
Lemma series_remainder pz b : 0 <= b <= 1 -> -1/10 <= pz <= 1/10 ->
  let g2 := 1 - b in let s := sqrt (1 + b * (2 * pz + pz * pz)) in
  let S := pz * (1 - 3 * (pz * b) / 2 + pz * pz * b * (2 * b - g2 / 2)) * g2 in
  Rabs ((1 + pz) / s - 1 - S) <= 4 * g2 * (b * b) * (pz * pz * pz * pz).
Proof.
  intros Hb Hpz. cbv zeta.
  set (g2 := 1 - b). set (u := 2 * pz + pz * pz).
  set (s := sqrt (1 + b * u)).
  set (w := 1 - 3 * (pz * b) / 2 + pz * pz * b * (2 * b - g2 / 2)).
  set (S := pz * w * g2).
  assert (Hg2 : 0 <= g2 <= 1) by (unfold g2; lra).
  assert (Hu : -1/5 <= u <= 21/100) by (unfold u; nra).
  assert (Hbu : -1/5 <= b * u <= 21/100) by nra.
  assert (Hrad : 79/100 <= 1 + b * u) by lra.
  assert (Hs2 : s * s = 1 + b * u) by (unfold s; apply sqrt_sqrt; lra).
  assert (Hs0 : 0 <= s) by (unfold s; apply sqrt_pos).
  assert (Hs : 22/25 <= s) by nra.
  assert (Hpb : -1/10 <= pz * b <= 1/10) by nra.
  assert (Hp2 : 0 <= pz * pz <= 1/100) by nra.
  assert (Hp2b : 0 <= pz * pz * b <= 1/100) by nra.
  assert (Hc : -1/2 <= 2 * b - g2 / 2 <= 2) by (unfold g2; lra).
  assert (Hw : 4/5 <= w <= 6/5) by (unfold w; nra).
  assert (Hpw : -3/25 <= pz * w <= 3/25) by nra.
  assert (HS : 17/20 <= 1 + S) by (unfold S; nra).
  (* q = q0 + pz q1 + pz^2 q2 + pz^3 q3 + pz^4 q4, all divided by 4 *)
  set (q0 := 15 - 35 * b). set (q1 := 28*b^2 - 62*b + 18). set (q2 := -35*b^3 + 66*b^2 - 34*b + 3).
  set (q3 := 50*b^4 - 100*b^3 + 58*b^2 - 8*b). set (q4 := 25*b^4 - 35*b^3 + 11*b^2 - b).
  set (q := (q0 + pz * q1 + pz * pz * q2 + pz * pz * pz * q3 + pz * pz * pz * pz * q4) / 4).
  assert (B0 : -20 <= q0 <= 15) by (unfold q0; lra).
  assert (Hb2 : 0 <= b * b <= 1) by nra.
  assert (Hb3 : 0 <= b * b * b <= 1) by nra.
  assert (Hb4 : 0 <= b * b * b * b <= 1) by nra.
  assert (B1 : -16 <= q1 <= 18) by (unfold q1; nra).
  assert (B2 : -70 <= q2 <= 70) by (unfold q2; nra).
  assert (B3 : -110 <= q3 <= 110) by (unfold q3; nra).
  assert (B4 : -40 <= q4 <= 40) by (unfold q4; nra).
  assert (T1 : -18/10 <= pz * q1 <= 18/10) by nra.
  assert (T2 : -7/10 <= pz * pz * q2 <= 7/10) by nra.
  assert (Hp3 : -1/1000 <= pz * pz * pz <= 1/1000) by nra.
  assert (T3 : -11/100 <= pz * pz * pz * q3 <= 11/100) by nra.
  assert (Hp4 : 0 <= pz * pz * pz * pz <= 1/10000) by nra.
  assert (T4 : -4/1000 <= pz * pz * pz * pz * q4 <= 4/1000) by nra.
  assert (Hq : -(57/10) <= q <= 57/10) by (unfold q; lra).
  set (den := s * ((1 + pz) + (1 + S) * s)).
  assert (Hden : 145/100 <= den) by (unfold den; nra).
  assert (E : (1 + pz) / s - 1 - S = g2 * (b * b) * (pz * pz * pz * pz) * (q / den)).
  { assert (N : (1 + pz) * (1 + pz) - (1 + S) * (1 + S) * (s * s) = g2 * (b * b) * (pz * pz * pz * pz) * q).
    { rewrite Hs2. unfold S, w, g2, u, q, q0, q1, q2, q3, q4. field. }
    replace ((1 + pz) / s - 1 - S) with (((1 + pz) * (1 + pz) - (1 + S) * (1 + S) * (s * s)) / den).
    - rewrite N. unfold Rdiv. ring.
    - unfold den. field. split; nra. }
  assert (Ht : -4 <= q / den <= 4).
  { split; apply Rmult_le_reg_r with den; try lra; replace (q / den * den) with q by (field; lra); nra. }
  assert (HA : 0 <= g2 * (b * b) * (pz * pz * pz * pz)).
  { apply Rmult_le_pos; [apply Rmult_le_pos; lra|lra]. }
  rewrite E. apply Rabs_le. split; nra.
Qed.

Section Series.
Variables (p0c m : R).
Hypotheses (Hp : 0 < p0c) (Hm : 0 < m).

Lemma lez_series_close pz ds : -1/10 <= pz <= 1/10 ->
  Rabs (lez_series pz p0c m ds - lez_exact pz p0c m ds)
  <= 4 * Rabs ds * (m / lez_etot p0c m)² * ((lez_beta0 p0c m)² * (lez_beta0 p0c m)²) * (pz * pz * pz * pz).
Proof.
  intros Hpz.
  pose proof (en_pos p0c m Hm) as He. pose proof (en_sqr p0c m) as He2.
  set (e := sqrt (p0c² + m²)) in *.
  set (b := (p0c / e)²).
  assert (Hb1 : b + (m / e)² = 1).
  { unfold b. rewrite !Rsqr_div'. replace (p0c² / e² + m² / e²) with ((p0c² + m²) / e²) by (field; unfold Rsqr; nra). rewrite He2. field. unfold Rsqr in *; nra. }
  assert (Hg : (m / e)² = 1 - b) by lra.
  assert (Hb : 0 <= b <= 1). { split; [apply Rle_0_sqr|]. pose proof (Rle_0_sqr (m / e)). lra. }
  pose proof (series_remainder pz b Hb Hpz) as R. cbv zeta in R.
  set (s := sqrt (1 + b * (2 * pz + pz * pz))) in *.
  assert (Hrad : 0 < 1 + b * (2 * pz + pz * pz)) by nra.
  assert (Hs : 0 < s) by (apply sqrt_lt_R0; exact Hrad).
  assert (Hroot : sqrt (((1 + pz) * p0c)² + m²) = e * s).
  { replace (((1 + pz) * p0c)² + m²) with (e² * (1 + b * (2 * pz + pz * pz))).
    - rewrite sqrt_mult by (try lra; apply Rle_0_sqr). rewrite sqrt_Rsqr by lra. reflexivity.
    - rewrite He2. unfold b. rewrite Rsqr_div'. unfold Rsqr. field_simplify_eq; [|lra].
      replace (e ^ 2) with (e²) by (unfold Rsqr; ring). rewrite He2. unfold Rsqr. ring. }
  assert (Ex : lez_exact pz p0c m ds = ds * ((1 + pz) / s - 1)).
  { unfold lez_exact, lez_beta, lez_beta0. fold e. rewrite Hroot. field. repeat split; lra. }
  assert (Se : lez_series pz p0c m ds = ds * (pz * (1 - 3 * (pz * b) / 2 + pz * pz * b * (2 * b - (1 - b) / 2)) * (1 - b))).
  { unfold lez_series, lez_beta0, lez_etot. cbv zeta. fold e. fold b. rewrite Hg. unfold Rsqr. ring. }
  rewrite Ex, Se. unfold lez_etot, lez_beta0. fold e. fold b. rewrite Hg.
  replace (ds * (pz * (1 - 3 * (pz * b) / 2 + pz * pz * b * (2 * b - (1 - b) / 2)) * (1 - b)) - ds * ((1 + pz) / s - 1))
    with (- ds * ((1 + pz) / s - 1 - pz * (1 - 3 * (pz * b) / 2 + pz * pz * b * (2 * b - (1 - b) / 2)) * (1 - b))) by ring.
  rewrite Rabs_mult, Rabs_Ropp.
  replace (4 * Rabs ds * (1 - b) * (b * b) * (pz * pz * pz * pz)) with (Rabs ds * (4 * (1 - b) * (b * b) * (pz * pz * pz * pz))).
  - apply Rmult_le_compat_l; [apply Rabs_pos | exact R].
  - unfold Rsqr. ring.
Qed.

(* under the branch condition evaluation < 3e-7 e_tot the remainder is below 3.6e-13 |ds|, uniformly in the energy *)
Lemma lez_series_close_abs pz ds : -1/10 <= pz <= 1/10 -> lez_small pz p0c m = true ->
  Rabs (lez_series pz p0c m ds - lez_exact pz p0c m ds) <= 3.6e-13 * Rabs ds.
Proof.
  intros Hpz Hs. eapply Rle_trans; [apply lez_series_close; exact Hpz|].
  unfold lez_small in Hs. destruct (Rlt_dec _ _) as [Hlt|]; [clear Hs|discriminate].
  pose proof (en_pos p0c m Hm) as He. unfold lez_eval, lez_thr in Hlt. unfold lez_etot in *.
  set (e := sqrt (p0c² + m²)) in *. set (b0 := lez_beta0 p0c m) in *.
  set (X := (b0 * pz)²) in *. assert (HX : 0 <= X) by apply Rle_0_sqr.
  set (g := m / e). assert (Hg : 0 < g) by (apply Rdiv_lt_0_compat; lra).
  assert (HgX : g * X < 3e-7).
  { unfold g. apply (Rmult_lt_reg_r e); [lra|]. replace (m / e * X * e) with (m * X) by (field; lra). lra. }
  assert (HgX0 : 0 <= g * X) by (apply Rmult_le_pos; lra).
  assert (Hsq : (g * X) * (g * X) <= 3e-7 * 3e-7) by nra.
  replace (4 * Rabs ds * g² * (b0² * b0²) * (pz * pz * pz * pz)) with (4 * ((g * X) * (g * X)) * Rabs ds) by (unfold X, Rsqr; ring).
  pose proof (Rabs_pos ds). nra.
Qed.

(** (c), series branch: an on-axis particle of an aligned quadrupole is moved like the Bmad-X drift of the same length in
    x, px, y, py, pz exactly and in z up to 3.6e-13 |L| (for |pz| <= 0.1) *)
Lemma quadx_onaxis_series_close eps n L k1 t q : 0 < 1 + bpz q -> -1/10 <= bpz q <= 1/10 -> onaxis q -> n <> O ->
  lez_small (bpz q) p0c m = true ->
  let a := quadx_bmad eps n L k1 0 0 t p0c m q in let d := driftx L p0c m q in
  bx a = bx d /\ bpx a = bpx d /\ by_ a = by_ d /\ bpy a = bpy d /\ bpz a = bpz d /\ Rabs (bz a - bz d) <= 3.6e-13 * Rabs L.
Proof.
  intros HP Hpz Hq Hn Hs. cbv zeta. rewrite quadx_onaxis, driftx_onaxis by assumption. cbn [bx bpx by_ bpy bz bpz].
  repeat split. unfold lez. rewrite Hs. simpl lez_b.
  rewrite <- (lez_exact_is_drift_dz p0c m (bpz q) L Hp Hm HP).
  replace (bz q + lez_series (bpz q) p0c m L - (bz q + lez_exact (bpz q) p0c m L))
    with (lez_series (bpz q) p0c m L - lez_exact (bpz q) p0c m L) by ring.
  apply lez_series_close_abs; assumption.
Qed.
End Series.

(* ---------- (e) R56 *)

Section R56.
Variables (n : nat) (L k1 tilt E0 m : R).
Hypotheses (Hm : 0 < m) (HE : m < E0) (Hn : n <> O).
Let p0 := cb_p0c E0 m.

Definition pzf (t : R) : R := (sqrt ((E0 + t * p0) * (E0 + t * p0) - m * m) - p0) / p0.

Lemma pzf_is t : cb_pz t E0 m = pzf t.
Proof. unfold cb_pz, cb_p, cb_energy, pzf, Rsqr. fold p0. reflexivity. Qed.

Lemma d_pzf : is_derive pzf 0 (E0 / p0).
Proof.
  pose proof (p0_pos E0 m Hm HE) as Hp. pose proof (p0_sqr E0 m Hm HE) as Hp2. fold p0 in Hp, Hp2.
  assert (S0 : sqrt (E0 * E0 - m * m) = p0) by (unfold p0, cb_p0c, Rsqr; reflexivity).
  unfold pzf. auto_derive.
  - replace ((E0 + 0 * p0) * (E0 + 0 * p0) + - (m * m)) with (E0 * E0 - m * m) by ring.
    unfold Rsqr in Hp2. nra.
  - replace ((E0 + 0 * p0) * (E0 + 0 * p0) + - (m * m)) with (E0 * E0 - m * m) by ring. rewrite S0. field. lra.
Qed.

(* the tau of an on-axis particle with energy offset t, for t near 0 (series branch) *)
Let b0 := lez_beta0 p0 m.
Let g := m / lez_etot p0 m.
Definition Bf (t : R) : R :=
  - (L * (1 - 3 * (pzf t * b0²) / 2 + (pzf t)² * b0² * (2 * b0² - g² / 2)) * g²) / bc_beta (pzf t) p0 m.

Lemma etot_E0 : lez_etot p0 m = E0.
Proof. unfold lez_etot, p0, cb_p0c. apply energy_of_mom; assumption. Qed.

Lemma ex_d_Bf : ex_derive Bf 0.
Proof.
  pose proof (p0_pos E0 m Hm HE) as Hp. pose proof (p0_sqr E0 m Hm HE) as Hp2. fold p0 in Hp, Hp2.
  assert (S0 : sqrt (E0 * E0 - m * m) = p0) by (unfold p0, cb_p0c, Rsqr; reflexivity).
  unfold Bf, bc_beta, bc_energy, bc_p, pzf, Rsqr. clearbody b0 g. auto_derive.
  replace ((E0 + 0 * p0) * (E0 + 0 * p0) + - (m * m)) with (E0 * E0 - m * m) by ring. rewrite S0.
  replace (p0 + - p0) with 0 by ring. rewrite !Rmult_0_l, !Rplus_0_r, !Rmult_1_l.
  assert (Hs : 0 < sqrt (p0 * p0 + m * m)) by (apply sqrt_lt_R0; nra).
  repeat split; try exact I; try (unfold Rsqr in Hp2; nra); try lra.
  apply Rmult_integral_contrapositive_currified; [lra | apply Rinv_neq_0_compat; lra].
Qed.

Lemma pzf_0 : pzf 0 = 0.
Proof.
  pose proof (p0_pos E0 m Hm HE) as Hp. fold p0 in Hp.
  unfold pzf. replace ((E0 + 0 * p0) * (E0 + 0 * p0) - m * m) with (E0² - m²) by (unfold Rsqr; ring).
  fold (cb_p0c E0 m). fold p0. field. lra.
Qed.

Lemma Bf_0 : Bf 0 = - (L * g²) / (p0 / E0).
Proof.
  unfold Bf. rewrite pzf_0. unfold bc_beta, bc_energy, bc_p.
  replace ((1 + 0) * p0) with p0 by ring. fold (lez_etot p0 m). rewrite etot_E0. unfold Rsqr, Rdiv. ring.
Qed.

Lemma d_AB : is_derive (fun t => pzf t * Bf t) 0 (r56_phys L E0 m).
Proof.
  pose proof (p0_pos E0 m Hm HE) as Hp. pose proof (p0_sqr E0 m Hm HE) as Hp2. fold p0 in Hp, Hp2.
  destruct ex_d_Bf as [dB HdB].
  evar_last.
  - apply (is_derive_mult pzf Bf 0 _ _ d_pzf HdB). intros a c. apply Rmult_comm.
  - unfold plus, mult; simpl. rewrite pzf_0, Bf_0. unfold g. rewrite etot_E0. unfold r56_phys.
    replace (E0² - m²) with (p0²) by lra. unfold Rsqr. field. lra.
Qed.

Lemma small_near_0 : locally 0 (fun t => lez_small (pzf t) p0 m = true).
Proof.
  pose proof (p0_pos E0 m Hm HE) as Hp. pose proof (p0_sqr E0 m Hm HE) as Hp2. fold p0 in Hp, Hp2.
  set (h := fun t => lez_eval (pzf t) p0 m).
  assert (Hc : continuous h 0).
  { apply (@ex_derive_continuous R_AbsRing R_NormedModule h 0). unfold h, lez_eval, pzf, Rsqr. set (bb := lez_beta0 p0 m). clearbody bb. auto_derive.
    replace ((E0 + 0 * p0) * (E0 + 0 * p0) + - (m * m)) with (E0 * E0 - m * m) by ring. repeat split; try exact I; unfold Rsqr in Hp2; nra. }
  assert (H0 : h 0 = 0) by (unfold h, lez_eval; rewrite pzf_0; unfold Rsqr; ring).
  assert (Hthr : 0 < lez_thr * lez_etot p0 m) by (rewrite etot_E0; unfold lez_thr; nra).
  assert (Hl : locally (h 0) (fun y => y < lez_thr * lez_etot p0 m)).
  { exists (mkposreal _ Hthr). intros y Hy. rewrite H0 in Hy.
    unfold ball in Hy; simpl in Hy; unfold AbsRing_ball, abs, minus, plus, opp in Hy; simpl in Hy.
    apply Rabs_def2 in Hy. lra. }
  specialize (Hc _ Hl). unfold filtermap in Hc. revert Hc. apply filter_imp. intros t Ht. apply lez_small_true. exact Ht.
Qed.

(** (e) R56: d tau'/d delta at the origin, through cheetah_to_bmad_z_pz, the n steps (series branch of low_energy_z_correction,
    which is the branch taken near delta = 0) and bmad_to_cheetah_z_pz, for every k1, tilt, number of steps *)
Lemma quadx_r56_phys :
  is_derive (fun t => ctau (quad_bmadx_track n L k1 0 0 tilt E0 m (mkc 0 0 0 0 0 t))) 0 (r56_phys L E0 m).
Proof.
  apply (is_derive_ext_loc (fun t => pzf t * Bf t)); [|exact d_AB].
  generalize small_near_0. apply filter_imp. intros t Hs.
  unfold quad_bmadx_track.
  assert (Hon : onaxis (to_bmad E0 m (mkc 0 0 0 0 0 t))) by (repeat split; reflexivity).
  rewrite (quadx_onaxis qx_eps n L k1 tilt (cb_p0c E0 m) m _ Hon Hn).
  unfold to_cheetah, to_bmad. cbn [ctau bz bpz cx cpx cy cpy cdelta bx bpx by_ bpy]. fold p0.
  rewrite pzf_is. unfold lez. rewrite Hs. unfold bc_tau, cb_z, lez_b, lez_series, Bf. cbv zeta. fold b0. fold g.
  match goal with |- ?a = ?b => change (@eq R a b) end. unfold Rdiv. ring.
Qed.
End R56.

Theorem quadx_r56 n L k1 tilt E0 : m_e < E0 -> n <> O ->
  is_derive (fun t => ctau (quad_bmadx_track n L k1 0 0 tilt E0 m_e (mkc 0 0 0 0 0 t))) 0 (c5 (c4 (base_untilted L k1 0 E0))).
Proof.
  intros HE Hn. assert (Hm : 0 < m_e) by (unfold m_e; lra).
  replace (c5 (c4 (base_untilted L k1 0 E0))) with (drift_r56 L E0).
  - rewrite <- r56_phys_is_drift_r56 by assumption. apply quadx_r56_phys; assumption.
  - unfold base_untilted, r56, drift_r56. simpl. unfold Rsqr, Rdiv. ring.
Qed.
