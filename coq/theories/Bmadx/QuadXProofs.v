(** Proofs about the Bmad-X quadrupole (model: QuadX.v): branch selection, the coefficients as the cosine-like / sine-like
    pair of the linear map, the transverse block at delta = 0, on-axis particles, offset round trip, and the
    constant-coefficient form of the loop used by the correspondence goals. *)
From Coq Require Import Reals Lra Psatz.
From Cheetah Require Import Base.Mat Base.RealAux Optics.Maps Optics.CS Bmadx.Coords Bmadx.CoordsProofs
  Bmadx.DriftX Bmadx.DriftXProofs Bmadx.Tdc Bmadx.TdcProofs Bmadx.QuadX.
Open Scope R_scope.

(* ---------- the masks *)
Lemma le0_true k : k <= 0 -> le0 k = true.
Proof. intros H. unfold le0. destruct (Rle_dec k 0); [reflexivity|contradiction]. Qed.
Lemma le0_false k : 0 < k -> le0 k = false.
Proof. intros H. unfold le0. destruct (Rle_dec k 0); [lra|reflexivity]. Qed.
Lemma lez_small_true pz p0c m : lez_eval pz p0c m < lez_thr * lez_etot p0c m -> lez_small pz p0c m = true.
Proof. intros H. unfold lez_small. destruct (Rlt_dec _ _); [reflexivity|contradiction]. Qed.
Lemma lez_small_false pz p0c m : lez_thr * lez_etot p0c m <= lez_eval pz p0c m -> lez_small pz p0c m = false.
Proof. intros H. unfold lez_small. destruct (Rlt_dec _ _); [lra|reflexivity]. Qed.

(* ---------- pz is never touched *)
Lemma step_b_pz eps Lf k1 ds p0c m fx fy ser q : bpz (quadx_step_b eps Lf k1 ds p0c m fx fy ser q) = bpz q.
Proof. reflexivity. Qed.
Lemma step_pz eps Lf k1 ds p0c m q : bpz (quadx_step eps Lf k1 ds p0c m q) = bpz q.
Proof. reflexivity. Qed.
Lemma off_set_pz ox oy t q : bpz (off_set ox oy t q) = bpz q.
Proof. reflexivity. Qed.

Lemma iter_inv {A} (P : A -> Prop) (f : A -> A) : (forall a, P a -> P (f a)) -> forall n a, P a -> P (iter n f a).
Proof. intros Hf n. induction n as [|n IH]; intros a Ha; simpl; [assumption|]. apply IH, Hf, Ha. Qed.

Lemma iter_ext_inv {A} (P : A -> Prop) (f g : A -> A) :
  (forall a, P a -> P (f a)) -> (forall a, P a -> f a = g a) -> forall n a, P a -> iter n f a = iter n g a.
Proof.
  intros Hf Hfg n. induction n as [|n IH]; intros a Ha; simpl; [reflexivity|].
  rewrite <- (Hfg a Ha). apply IH, Hf, Ha.
Qed.

Lemma iter_pz eps Lf k1 ds p0c m n q : bpz (iter n (quadx_step eps Lf k1 ds p0c m) q) = bpz q.
Proof. apply (iter_inv (fun a => bpz a = bpz q)); [intros a Ha; rewrite step_pz; exact Ha | reflexivity]. Qed.

(** the masks depend on pz (and the element) only, so they are the same in every step: once the three masks are known for
    the particle's pz, the coded tracking is the branch-free model [quadx_bmad_b] *)
Lemma quadx_bmad_resolved fx fy ser eps n L k1 ox oy tilt p0c m q :
  le0 (- qs_k1 L k1 (bpz q)) = fx -> le0 (qs_k1 L k1 (bpz q)) = fy -> lez_small (bpz q) p0c m = ser ->
  quadx_bmad eps n L k1 ox oy tilt p0c m q = quadx_bmad_b fx fy ser eps n L k1 ox oy tilt p0c m q.
Proof.
  intros Hx Hy Hs. unfold quadx_bmad, quadx_bmad_b. f_equal.
  apply (iter_ext_inv (fun a => bpz a = bpz q)).
  - intros a Ha. rewrite step_pz. exact Ha.
  - intros a Ha. unfold quadx_step. rewrite Ha, Hx, Hy, Hs. reflexivity.
  - reflexivity.
Qed.

Lemma quad_track_resolved fx fy ser n L k1 ox oy tilt E0 m v :
  le0 (- qs_k1 L k1 (cb_pz (cdelta v) E0 m)) = fx -> le0 (qs_k1 L k1 (cb_pz (cdelta v) E0 m)) = fy ->
  lez_small (cb_pz (cdelta v) E0 m) (cb_p0c E0 m) m = ser ->
  quad_bmadx_track n L k1 ox oy tilt E0 m v = quad_bmadx_track_b fx fy ser n L k1 ox oy tilt E0 m v.
Proof.
  intros Hx Hy Hs. unfold quad_bmadx_track, quad_bmadx_track_b. f_equal.
  apply quadx_bmad_resolved; assumption.
Qed.

(* ---------- the loop with constant coefficients (pz is constant, hence so are all coefficients) *)
Record qcoef := mkqc { ka11 : R; ka12 : R; ka21 : R; ka22 : R; kc1 : R; kc2 : R; kc3 : R }.
Definition qlin (X Y : qcoef) (dzl : R) (q : bpart) : bpart :=
  mkb (ka11 X * bx q + ka12 X * bpx q) (ka21 X * bx q + ka22 X * bpx q)
      (ka11 Y * by_ q + ka12 Y * bpy q) (ka21 Y * by_ q + ka22 Y * bpy q)
      (bz q + kc1 X * (bx q)² + kc2 X * bx q * bpx q + kc3 X * (bpx q)²
            + kc1 Y * (by_ q)² + kc2 Y * by_ q * bpy q + kc3 Y * (bpy q)² + dzl)
      (bpz q).
(* coefficients from the values cx, sx of one plane *)
Definition qc_of (k len relp cxv sxv : R) : qcoef :=
  mkqc cxv (sxv / relp) (k * sxv * relp) cxv (k * (- cxv * sxv + len) / 4) (- k * sxv² / (2 * relp)) (- (cxv * sxv + len) / (4 * relp²)).

Lemma step_b_qlin eps Lf k1 ds p0c m fx fy ser q :
  let pz := bpz q in let k := qs_k1 Lf k1 pz in let r := 1 + pz in
  quadx_step_b eps Lf k1 ds p0c m fx fy ser q =
  qlin (qc_of (- k) ds r (qc_cx fx eps (- k) ds) (qc_sx fx eps (- k) ds))
       (qc_of k ds r (qc_cx fy eps k ds) (qc_sx fy eps k ds)) (lez_b ser pz p0c m ds) q.
Proof. reflexivity. Qed.

Lemma quadx_bmad_b_qlin fx fy ser eps n L k1 ox oy tilt p0c m q :
  let pz := bpz q in let k := qs_k1 L k1 pz in let r := 1 + pz in let ds := L / INR n in
  quadx_bmad_b fx fy ser eps n L k1 ox oy tilt p0c m q =
  off_unset ox oy tilt (iter n (qlin (qc_of (- k) ds r (qc_cx fx eps (- k) ds) (qc_sx fx eps (- k) ds))
                                     (qc_of k ds r (qc_cx fy eps k ds) (qc_sx fy eps k ds)) (lez_b ser pz p0c m ds))
                         (off_set ox oy tilt q)).
Proof.
  cbv zeta. unfold quadx_bmad_b. f_equal.
  apply (iter_ext_inv (fun a => bpz a = bpz q)).
  - intros a Ha. exact Ha.
  - intros a Ha. rewrite step_b_qlin. cbv zeta. rewrite Ha. reflexivity.
  - reflexivity.
Qed.

Lemma qlin_mk X Y dzl x px y py z pz :
  qlin X Y dzl (mkb x px y py z pz) =
  mkb (ka11 X * x + ka12 X * px) (ka21 X * x + ka22 X * px) (ka11 Y * y + ka12 Y * py) (ka21 Y * y + ka22 Y * py)
      (z + kc1 X * x² + kc2 X * x * px + kc3 X * px² + kc1 Y * y² + kc2 Y * y * py + kc3 Y * py² + dzl) pz.
Proof. reflexivity. Qed.

(* ---------- the coefficients are the cosine-like / sine-like pair of the linear maps, at the strength |k| + eps *)
Definition qc_keff (eps kc : R) : R := if Rle_dec kc 0 then - kc + eps else - kc - eps.

Lemma qc_cx_Cf eps kc len : 0 <= eps -> kc <> 0 \/ 0 < eps -> qc_cx (le0 kc) eps kc len = Cf (qc_keff eps kc) len.
Proof.
  intros He Hnz. unfold qc_cx, qc_skl, qc_sqrtk, le0, qc_keff. destruct (Rle_dec kc 0) as [Hk|Hk].
  - rewrite Rabs_left1 by assumption. rewrite Cf_pos by lra. reflexivity.
  - rewrite Rabs_right by lra. rewrite Cf_neg by lra. replace (- (- kc - eps)) with (kc + eps) by ring. reflexivity.
Qed.
Lemma qc_sx_Sf eps kc len : 0 <= eps -> kc <> 0 \/ 0 < eps -> qc_sx (le0 kc) eps kc len = Sf (qc_keff eps kc) len.
Proof.
  intros He Hnz. unfold qc_sx, qc_skl, qc_sqrtk, le0, qc_keff. destruct (Rle_dec kc 0) as [Hk|Hk].
  - rewrite Rabs_left1 by assumption. rewrite Sf_pos by lra. reflexivity.
  - rewrite Rabs_right by lra. rewrite Sf_neg by lra. replace (- (- kc - eps)) with (kc + eps) by ring. reflexivity.
Qed.
Lemma qc_keff_0 kc : qc_keff 0 kc = - kc.
Proof. unfold qc_keff. destruct (Rle_dec kc 0); ring. Qed.

(** determinant of the coded 2x2 block: 1 up to eps*sx^2 (it is exactly 1 only for eps = 0) *)
Lemma qc_det eps kc len relp : 0 <= eps -> kc <> 0 \/ 0 < eps -> relp <> 0 ->
  let f := le0 kc in
  qc_a11 f eps kc len * qc_a22 f eps kc len - qc_a12 f eps kc len relp * qc_a21 f eps kc len relp
  = 1 - (if Rle_dec kc 0 then eps else - eps) * (qc_sx f eps kc len)².
Proof.
  intros He Hnz Hr. cbv zeta. unfold qc_a11, qc_a22, qc_a12, qc_a21.
  rewrite qc_cx_Cf, qc_sx_Sf by assumption.
  pose proof (Cf_Sf_id (qc_keff eps kc) len) as Hid. unfold qc_keff in *. unfold Rsqr.
  destruct (Rle_dec kc 0); field_simplify_eq; try assumption; nra.
Qed.

Lemma qs_k1_simpl Lf k1 pz : Lf <> 0 -> 1 + pz <> 0 -> qs_k1 Lf k1 pz = k1 / (1 + pz).
Proof. intros. unfold qs_k1. field. split; assumption. Qed.

(** one step with eps := 0 in terms of Cf, Sf:  k = k1/(1+pz) is the focusing strength seen by the particle *)
Definition zq (k r l x px : R) : R :=
  - k * (l - Cf k l * Sf k l) / 4 * x² + k * (Sf k l)² / (2 * r) * x * px - (Cf k l * Sf k l + l) / (4 * r²) * px².
Definition qflow (p0c m k l : R) (q : bpart) : bpart :=
  let r := 1 + bpz q in
  mkb (Cf k l * bx q + Sf k l / r * bpx q) (- k * Sf k l * r * bx q + Cf k l * bpx q)
      (Cf (- k) l * by_ q + Sf (- k) l / r * bpy q) (k * Sf (- k) l * r * by_ q + Cf (- k) l * bpy q)
      (bz q + zq k r l (bx q) (bpx q) + zq (- k) r l (by_ q) (bpy q) + lez (bpz q) p0c m l) (bpz q).

Lemma quadx_step_eps0 Lf k1 ds p0c m q : Lf <> 0 -> k1 <> 0 -> 0 < 1 + bpz q ->
  quadx_step 0 Lf k1 ds p0c m q = qflow p0c m (k1 / (1 + bpz q)) ds q.
Proof.
  intros HL Hk HP. unfold quadx_step, quadx_step_b. cbv zeta.
  rewrite (qs_k1_simpl Lf k1 (bpz q)) by lra.
  set (k := k1 / (1 + bpz q)).
  assert (Hk0 : k <> 0).
  { unfold k. intros H0. apply Hk. replace k1 with (k1 / (1 + bpz q) * (1 + bpz q)) by (field; lra). rewrite H0. ring. }
  assert (Hmk0 : - k <> 0) by lra.
  unfold qc_a11, qc_a12, qc_a21, qc_a22, qc_c1, qc_c2, qc_c3.
  rewrite !qc_cx_Cf, !qc_sx_Sf by (try lra; left; assumption).
  rewrite !qc_keff_0, !Ropp_involutive.
  unfold qflow, zq, lez. cbv zeta. fold k. f_equal; unfold Rsqr, Rdiv; ring.
Qed.

(** (a) transverse block at delta = 0: for pz = 0 and eps := 0 one step of length l acts on (x,px) and (y,py) exactly by the
    2x2 blocks of base_untilted l k1 0 E (the linear quadrupole map), for every k1 <> 0 *)
Lemma quadx_step_linear_block Lf k1 l p0c m E q : Lf <> 0 -> k1 <> 0 -> bpz q = 0 ->
  let M := base_untilted l k1 0 E in let q' := quadx_step 0 Lf k1 l p0c m q in
  bx q' = c0 (c0 M) * bx q + c1 (c0 M) * bpx q /\ bpx q' = c0 (c1 M) * bx q + c1 (c1 M) * bpx q /\
  by_ q' = c2 (c2 M) * by_ q + c3 (c2 M) * bpy q /\ bpy q' = c2 (c3 M) * by_ q + c3 (c3 M) * bpy q.
Proof.
  intros HL Hk Hpz. cbv zeta. rewrite quadx_step_eps0 by (try assumption; rewrite Hpz; lra).
  rewrite Hpz. replace (k1 / (1 + 0)) with k1 by field.
  unfold base_untilted, Maps.cx, Maps.sx, Maps.cy, Maps.sy, kx2, ky2. rewrite k1_guard_nz by assumption.
  unfold qflow; simpl. rewrite Hpz. unfold Rsqr. replace (k1 + 0 * 0) with k1 by ring.
  repeat split; unfold Rdiv; try ring.
  - field.
  - field.
Qed.

(* ---------- (d) offsets *)
Lemma off_roundtrip ox oy t q : off_unset ox oy t (off_set ox oy t q) = q.
Proof.
  destruct q as [x px y py z pz]. unfold off_unset, off_set; simpl.
  pose proof (sin2_cos2 t) as SC. unfold Rsqr in SC. set (s := sin t) in *. set (c := cos t) in *.
  f_equal.
  - replace (((x - ox) * c + (y - oy) * s) * c - (- (x - ox) * s + (y - oy) * c) * s + ox) with ((x - ox) * (s * s + c * c) + ox) by ring. rewrite SC; ring.
  - replace ((px * c + py * s) * c - (- px * s + py * c) * s) with (px * (s * s + c * c)) by ring. rewrite SC; ring.
  - replace (((x - ox) * c + (y - oy) * s) * s + (- (x - ox) * s + (y - oy) * c) * c + oy) with ((y - oy) * (s * s + c * c) + oy) by ring. rewrite SC; ring.
  - replace ((px * c + py * s) * s + (- px * s + py * c) * c) with (py * (s * s + c * c)) by ring. rewrite SC; ring.
Qed.
Lemma off_roundtrip' ox oy t q : off_set ox oy t (off_unset ox oy t q) = q.
Proof.
  destruct q as [x px y py z pz]. unfold off_unset, off_set; simpl.
  pose proof (sin2_cos2 t) as SC. unfold Rsqr in SC. set (s := sin t) in *. set (c := cos t) in *.
  f_equal.
  - replace ((x * c - y * s + ox - ox) * c + (x * s + y * c + oy - oy) * s) with (x * (s * s + c * c)) by ring. rewrite SC; ring.
  - replace ((px * c - py * s) * c + (px * s + py * c) * s) with (px * (s * s + c * c)) by ring. rewrite SC; ring.
  - replace (- (x * c - y * s + ox - ox) * s + (x * s + y * c + oy - oy) * c) with (y * (s * s + c * c)) by ring. rewrite SC; ring.
  - replace (- (px * c - py * s) * s + (px * s + py * c) * c) with (py * (s * s + c * c)) by ring. rewrite SC; ring.
Qed.

(* as affine maps on (x, px, y, py, z, pz, 1) they are the matrices the linear tracking conjugates with *)
Definition bvec (q : bpart) : V7 R := mk7 (bx q) (bpx q) (by_ q) (bpy q) (bz q) (bpz q) 1.
Lemma off_set_matrix ox oy t q : bvec (off_set ox oy t q) = rmvec (rmmul (rot t) (mis_entry ox oy)) (bvec q).
Proof.
  destruct q as [x px y py z pz]. unfold off_set, bvec, rot, mis_entry, shift, row; simpl.
  cbv [mmul mvec transpose col v7map dot c0 c1 c2 c3 c4 c5 c6]. apply v7_eq; cbv [c0 c1 c2 c3 c4 c5 c6]; ring.
Qed.
Lemma off_unset_matrix ox oy t q : bvec (off_unset ox oy t q) = rmvec (rmmul (mis_exit ox oy) (rot (- t))) (bvec q).
Proof.
  destruct q as [x px y py z pz]. unfold off_unset, bvec, rot, mis_exit, shift, row; simpl. rewrite cos_neg, sin_neg.
  cbv [mmul mvec transpose col v7map dot c0 c1 c2 c3 c4 c5 c6]. apply v7_eq; cbv [c0 c1 c2 c3 c4 c5 c6]; ring.
Qed.

(* ---------- (c) on-axis particles *)
Definition onaxis (q : bpart) : Prop := bx q = 0 /\ bpx q = 0 /\ by_ q = 0 /\ bpy q = 0.

Lemma quadx_step_onaxis eps Lf k1 ds p0c m q : onaxis q ->
  quadx_step eps Lf k1 ds p0c m q = mkb 0 0 0 0 (bz q + lez (bpz q) p0c m ds) (bpz q).
Proof.
  intros (Hx & Hpx & Hy & Hpy). unfold quadx_step, quadx_step_b. cbv zeta. rewrite Hx, Hpx, Hy, Hpy.
  unfold lez. f_equal; unfold Rsqr; ring.
Qed.

Lemma iter_onaxis eps Lf k1 ds p0c m n q : onaxis q ->
  iter n (quadx_step eps Lf k1 ds p0c m) q = mkb 0 0 0 0 (bz q + INR n * lez (bpz q) p0c m ds) (bpz q).
Proof.
  revert q. induction n as [|n IH]; intros q Hq.
  - simpl. destruct q as [x px y py z pz]. destruct Hq as (Hx & Hpx & Hy & Hpy). simpl in *. subst. f_equal. ring.
  - change (iter (S n) (quadx_step eps Lf k1 ds p0c m) q) with (iter n (quadx_step eps Lf k1 ds p0c m) (quadx_step eps Lf k1 ds p0c m q)).
    rewrite quadx_step_onaxis by assumption. rewrite IH by (repeat split; reflexivity). simpl bz; simpl bpz.
    rewrite S_INR. f_equal. ring.
Qed.

Lemma lez_linear ser pz p0c m a b : lez_b ser pz p0c m (a + b) = lez_b ser pz p0c m a + lez_b ser pz p0c m b.
Proof. destruct ser; simpl; unfold lez_series, lez_exact, Rdiv; cbv zeta; ring. Qed.
Lemma lez_scale ser pz p0c m c a : lez_b ser pz p0c m (c * a) = c * lez_b ser pz p0c m a.
Proof. destruct ser; simpl; unfold lez_series, lez_exact, Rdiv; cbv zeta; ring. Qed.

(* the exact branch is the drift's dz for px = py = 0 *)
Lemma lez_exact_is_drift_dz p0c m pz ds : 0 < p0c -> 0 < m -> 0 < 1 + pz ->
  lez_exact pz p0c m ds = dr_dz ds 0 0 pz p0c m.
Proof.
  intros Hp Hm HP.
  assert (Z : dr_Pxy2 0 0 pz = 0) by (unfold dr_Pxy2, dr_Px, Rdiv, Rsqr; ring).
  rewrite (driftx_dz p0c m Hp Hm) by (try assumption; rewrite Z; lra).
  unfold dr_Pl. rewrite Z, Rminus_0_r, sqrt_1.
  unfold lez_exact, lez_beta, lez_beta0, bc_beta, bc_energy, bc_p, bc_refE.
  pose proof (en_pos p0c m Hm) as He. pose proof (en_pos ((1 + pz) * p0c) m Hm) as He'.
  field. repeat split; lra.
Qed.

Lemma driftx_onaxis L p0c m q : onaxis q -> driftx L p0c m q = mkb 0 0 0 0 (bz q + dr_dz L 0 0 (bpz q) p0c m) (bpz q).
Proof.
  intros (Hx & Hpx & Hy & Hpy). destruct q as [x px y py z pz]; simpl in *. subst. unfold driftx; simpl.
  f_equal; unfold dr_x, dr_y, dr_Px, Rdiv; ring.
Qed.

Lemma off_set_onaxis t q : onaxis q -> off_set 0 0 t q = q.
Proof.
  intros (Hx & Hpx & Hy & Hpy). destruct q as [x px y py z pz]; simpl in *. subst. unfold off_set; simpl. f_equal; ring.
Qed.
Lemma off_unset_onaxis t q : onaxis q -> off_unset 0 0 t q = q.
Proof.
  intros (Hx & Hpx & Hy & Hpy). destruct q as [x px y py z pz]; simpl in *. subst. unfold off_unset; simpl. f_equal; ring.
Qed.

(** for every eps, k1, tilt, number of steps: an on-axis particle of an aligned quadrupole only gets the low-energy z correction *)
Lemma quadx_onaxis eps n L k1 t p0c m q : onaxis q -> n <> O ->
  quadx_bmad eps n L k1 0 0 t p0c m q = mkb 0 0 0 0 (bz q + lez (bpz q) p0c m L) (bpz q).
Proof.
  intros Hq Hn. unfold quadx_bmad. rewrite off_set_onaxis by assumption. rewrite iter_onaxis by assumption.
  rewrite off_unset_onaxis by (repeat split; reflexivity). f_equal.
  unfold lez. rewrite <- lez_scale. replace (INR n * (L / INR n)) with L by (field; apply not_0_INR, Hn). reflexivity.
Qed.

(** (c), exact branch: ... and that is exactly the Bmad-X drift of the same length *)
Lemma quadx_onaxis_is_driftx eps n L k1 t p0c m q : 0 < p0c -> 0 < m -> 0 < 1 + bpz q -> onaxis q -> n <> O ->
  lez_small (bpz q) p0c m = false ->
  quadx_bmad eps n L k1 0 0 t p0c m q = driftx L p0c m q.
Proof.
  intros Hp Hm HP Hq Hn Hs. rewrite quadx_onaxis, driftx_onaxis by assumption. f_equal.
  unfold lez. rewrite Hs. simpl. rewrite lez_exact_is_drift_dz by assumption. reflexivity.
Qed.

(* ---------- (a) with the coded eps *)
Lemma qc_cx_sx_Cf_Sf eps kc len : 0 <= eps -> kc <> 0 \/ 0 < eps ->
  qc_cx (le0 kc) eps kc len = Cf (qc_keff eps kc) len /\ qc_sx (le0 kc) eps kc len = Sf (qc_keff eps kc) len.
Proof. intros He Hnz. split; [apply qc_cx_Cf | apply qc_sx_Sf]; assumption. Qed.

(** for pz = 0 and ANY eps >= 0 (the code: eps = 2^-52) one step acts on (x,px), (y,py) by the 2x2 blocks of the linear map of a
    quadrupole of strength ke = k1 + eps (k1 > 0), k1 - eps (k1 < 0), except that the two entries a21 use k1 instead of ke:
    the deviation from that linear map is exactly -/+ (ke - k1) * sx * x with |ke - k1| = eps *)
Definition qx_ke (eps k1 : R) : R := if Rle_dec 0 k1 then k1 + eps else k1 - eps.
Lemma qx_ke_dist eps k1 : 0 <= eps -> Rabs (qx_ke eps k1 - k1) = eps.
Proof.
  intros He. unfold qx_ke. destruct (Rle_dec 0 k1).
  - replace (k1 + eps - k1) with eps by ring. apply Rabs_right; lra.
  - replace (k1 - eps - k1) with (- eps) by ring. rewrite Rabs_Ropp. apply Rabs_right; lra.
Qed.

Lemma quadx_step_block_eps eps Lf k1 l p0c m E q : 0 <= eps -> Lf <> 0 -> k1 <> 0 -> bpz q = 0 ->
  let ke := qx_ke eps k1 in let M := base_untilted l ke 0 E in let q' := quadx_step eps Lf k1 l p0c m q in
  bx q' = c0 (c0 M) * bx q + c1 (c0 M) * bpx q /\
  bpx q' = c0 (c1 M) * bx q + c1 (c1 M) * bpx q + (ke - k1) * c1 (c0 M) * bx q /\
  by_ q' = c2 (c2 M) * by_ q + c3 (c2 M) * bpy q /\
  bpy q' = c2 (c3 M) * by_ q + c3 (c3 M) * bpy q - (ke - k1) * c3 (c2 M) * by_ q.
Proof.
  intros He HL Hk Hpz. cbv zeta. unfold quadx_step, quadx_step_b. cbv zeta. rewrite Hpz.
  assert (K : qs_k1 Lf k1 0 = k1) by (unfold qs_k1; field; lra). rewrite K.
  unfold qc_a11, qc_a12, qc_a21, qc_a22. cbn [bx bpx by_ bpy].
  rewrite !qc_cx_Cf, !qc_sx_Sf by (try assumption; left; lra).
  assert (Kx : qc_keff eps (- k1) = qx_ke eps k1).
  { unfold qc_keff, qx_ke. destruct (Rle_dec (- k1) 0), (Rle_dec 0 k1); try lra. }
  assert (Ky : qc_keff eps k1 = - qx_ke eps k1).
  { unfold qc_keff, qx_ke. destruct (Rle_dec k1 0), (Rle_dec 0 k1); try lra. }
  rewrite Kx, Ky.
  assert (Hke : qx_ke eps k1 <> 0) by (unfold qx_ke; destruct (Rle_dec 0 k1); lra).
  unfold base_untilted, Maps.cx, Maps.sx, Maps.cy, Maps.sy, kx2, ky2. rewrite k1_guard_nz by assumption.
  cbn [c0 c1 c2 c3 row]. unfold Rsqr. replace (qx_ke eps k1 + 0 * 0) with (qx_ke eps k1) by ring.
  repeat split; unfold Rdiv; try ring.
  - field.
  - field.
Qed.

Lemma off_roundtrip_both ox oy t q : off_unset ox oy t (off_set ox oy t q) = q /\ off_set ox oy t (off_unset ox oy t q) = q.
Proof. split; [apply off_roundtrip | apply off_roundtrip']. Qed.
Lemma off_matrices ox oy t q :
  bvec (off_set ox oy t q) = rmvec (rmmul (rot t) (mis_entry ox oy)) (bvec q) /\
  bvec (off_unset ox oy t q) = rmvec (rmmul (mis_exit ox oy) (rot (- t))) (bvec q).
Proof. split; [apply off_set_matrix | apply off_unset_matrix]. Qed.
