(** Tactic used by the generated correspondence goals of harness/props/c07.py for the Bmad-X quadrupole:
      Rabs (coordinate (quad_bmadx_track n L k1 ox oy tilt E0 m v) - observed) <= tol   (six coordinates, one conjunction)
    The masks chosen by the harness are justified by side conditions proved with [interval] (lemma quad_track_resolved); the
    model is then evaluated stage by stage: every intermediate real (p0c, pz, k1/(1+pz), the cos/sin/cosh/sinh values,
    the state after each step) is enclosed by [interval_intro] at 90 bits and named, so that every [interval] call sees a small
    expression over a few enclosed variables.  Nothing here is trusted: the tactic only produces a proof term checked by Qed. *)
From Coq Require Import Reals Lra.
From Interval Require Import Tactic.
From Cheetah Require Import Bmadx.Coords Bmadx.DriftX Bmadx.Tdc Bmadx.QuadX Bmadx.QuadXProofs.
Open Scope R_scope.

Lemma to_bmad_mk E0 m x px y py t d : to_bmad E0 m (mkc x px y py t d) = mkb x px y py (cb_z t d E0 m) (cb_pz d E0 m).
Proof. reflexivity. Qed.

Ltac qx_unf t :=
  eval cbv beta iota zeta delta [qc_cx qc_sx qc_skl qc_sqrtk lez_b lez_series lez_exact lez_beta lez_beta0 lez_etot lez_eval lez_thr
    qx_eps qs_k1 bc_tau bc_delta bc_beta bc_energy bc_p bc_refE cb_z cb_pz cb_beta cb_p cb_energy cb_p0c drift_bmadx_energy
    Rsqr cosh sinh INR] in t.

(* keeps a single copy of the tracked particle in the goal while it is evaluated (the six conjuncts share it) *)
Definition qx_wrap (P : cpart -> Prop) (o : cpart) : Prop := P o.

(* drop the enclosures of variables that do not occur in b: [interval] re-reads every hypothesis (90-bit literals) on each call *)
Ltac qx_clear_unused b :=
  repeat match goal with
  | H : _ <= ?v <= _ |- _ => is_var v; lazymatch b with context [v] => fail | _ => clear H end
  end.
(* enclosure of a real expression over enclosed variables, computed in a small side goal (interval_intro's cost grows with the goal it runs in) *)
Ltac qx_encl b H :=
  eassert (H : _ <= b <= _);
  [ qx_clear_unused b; let H' := fresh in interval_intro b with (i_prec 90) as H'; exact H' | ].

(* name the real term t (all its occurrences in the goal) as a fresh variable carrying an interval enclosure; literals and variables are left alone *)
Ltac qx_abs t :=
  lazymatch t with
  | IZR _ => idtac
  | IZR _ / IZR _ => idtac
  | _ => first [ is_var t
               | let b := qx_unf t in
                 let H := fresh "Hv" in let v := fresh "v" in
                 qx_encl b H;
                 set (v := t);
                 match type of H with ?lo <= _ <= ?hi => change (lo <= v <= hi) in H end;
                 clearbody v ]
  end.

Ltac qx_side :=
  cbn [cdelta];
  match goal with |- context [cb_pz ?d ?e ?m] => qx_abs (cb_pz d e m) end;
  let g := match goal with |- ?G => G end in let g' := qx_unf g in change g'; interval with (i_prec 90).

Ltac qx_resolve fx fy ser :=
  rewrite (quad_track_resolved fx fy ser);
  [ | lazymatch fx with true => apply le0_true | false => apply le0_false end; qx_side
    | lazymatch fy with true => apply le0_true | false => apply le0_false end; qx_side
    | lazymatch ser with true => apply lez_small_true | false => apply lez_small_false end; qx_side ].

Ltac qx_loop :=
  repeat match goal with
  | |- context [qlin ?X ?Y ?d (mkb ?x ?px ?y ?py ?z ?pz)] =>
      rewrite (qlin_mk X Y d x px y py z pz);
      cbv beta iota delta [ka11 ka12 ka21 ka22 kc1 kc2 kc3];
      match goal with |- context [mkb ?x1 ?px1 ?y1 ?py1 ?z1 pz] => qx_abs x1; qx_abs px1; qx_abs y1; qx_abs py1; qx_abs z1 end
  end.

Ltac qx_main :=
  unfold quad_bmadx_track_b; rewrite quadx_bmad_b_qlin; cbv zeta;
  rewrite to_bmad_mk; unfold qc_of, off_set;
  cbn [bx bpx by_ bpy bz bpz iter];
  match goal with |- context [cb_p0c ?e ?m] => qx_abs (cb_p0c e m) end;
  match goal with |- context [cb_pz ?d ?e ?m] => qx_abs (cb_pz d e m) end;
  match goal with |- context [cb_z ?t ?d ?e ?m] => qx_abs (cb_z t d e m) end;
  match goal with |- context [qs_k1 ?l ?k ?p] => qx_abs (qs_k1 l k p) end;
  match goal with |- context [qc_cx _ _ _ (?l / INR ?n)] => qx_abs (l / INR n) end;
  repeat match goal with |- context [qc_cx ?f ?e ?k ?l] => qx_abs (qc_cx f e k l) end;
  repeat match goal with |- context [qc_sx ?f ?e ?k ?l] => qx_abs (qc_sx f e k l) end;
  match goal with |- context [lez_b ?s ?p ?q ?m ?l] => qx_abs (lez_b s p q m l) end;
  match goal with |- context [sin ?t] => qx_abs (sin t) end;
  match goal with |- context [cos ?t] => qx_abs (cos t) end;
  match goal with |- context [qlin _ _ _ (mkb ?x ?px ?y ?py _ _)] => qx_abs x; qx_abs px; qx_abs y; qx_abs py end;
  qx_loop;
  unfold qx_wrap; cbv beta; unfold to_cheetah, off_unset; cbn [cx cpx cy cpy ctau cdelta bx bpx by_ bpy bz bpz];
  unfold bc_tau, bc_delta, bc_beta, bc_energy, bc_p, bc_refE, Rsqr;
  repeat split; (let g := match goal with |- ?G => G end in qx_clear_unused g); interval with (i_prec 90).

(** the goal:  let o := quad_bmadx_track ... in Rabs (cx o - _) <= _ /\ ... ; the three booleans are the masks (k1 >= 0), (k1 <= 0),
    (series branch of low_energy_z_correction) selected by the harness *)
Ltac quadx_goal fx fy ser :=
  lazymatch goal with |- let o := ?F in @?P o => change (qx_wrap P F) end;
  qx_resolve fx fy ser; [ qx_main | .. ].
