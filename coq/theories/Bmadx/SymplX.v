(** C03, non-linear part -- Bmad-X maps (cheetah/utils/bmadx.py).  Coordinates here are Bmad's (x,px,y,py,z,pz), in
    which all three pairs are canonical with the POSITIVE sign (S6plus); [coords_flip] shows that the change
    (tau,delta) -> (z,pz), whose Jacobian block has determinant -1, turns S6plus into cheetah's S6. *)
From Coq Require Import Reals Lra.
From Coquelicot Require Import Coquelicot.
From Cheetah Require Import Base.Mat Optics.Maps Optics.Sympl Optics.SymplProofs.
Open Scope R_scope.

(** * literal transcription of track_a_drift (displacements of x, y, z; momenta are unchanged) *)
Definition sqrt_one (x : R) : R := x / (sqrt (1 + x) + 1).
Definition dx_Pxy2 (px py pz : R) : R := (px / (1 + pz)) * (px / (1 + pz)) + (py / (1 + pz)) * (py / (1 + pz)).
Definition dx_Pl (px py pz : R) : R := sqrt (1 - dx_Pxy2 px py pz).
Definition driftx_dx (L px py pz : R) : R := L * (px / (1 + pz)) / dx_Pl px py pz.
Definition driftx_dy (L px py pz : R) : R := L * (py / (1 + pz)) / dx_Pl px py pz.
Definition driftx_g (p0c mc2 pz : R) : R :=
  sqrt_one ((mc2 * mc2 * (2 * pz + pz * pz)) / ((p0c * (1 + pz)) * (p0c * (1 + pz)) + mc2 * mc2)).
Definition driftx_dz (L p0c mc2 px py pz : R) : R :=
  L * (driftx_g p0c mc2 pz + sqrt_one (- dx_Pxy2 px py pz) / dx_Pl px py pz).
(* paraxial region: forward-moving particle with real longitudinal momentum *)
Definition driftx_dom (px py pz : R) : Prop := 0 < 1 + pz /\ dx_Pxy2 px py pz < 1.

(** * gradient form: displacement = grad_p ( - L * D + L * G(pz) ),  D = sqrt((1+pz)^2 - px^2 - py^2) *)
Definition DD (px py pz : R) : R := sqrt ((1 + pz) * (1 + pz) + - (px * px) + - (py * py)).
Definition gx (L px py pz : R) : R := L * px / DD px py pz.
Definition gy (L px py pz : R) : R := L * py / DD px py pz.
Definition gz (L g px py pz : R) : R := L * (g + 1 - (1 + pz) / DD px py pz).
Definition domD (px py pz : R) : Prop := 0 < (1 + pz) * (1 + pz) + - (px * px) + - (py * py).

Lemma dom_domD px py pz : driftx_dom px py pz -> domD px py pz.
Proof.
  intros [H1 H2]. unfold domD, dx_Pxy2 in *.
  replace ((1 + pz) * (1 + pz) + - (px * px) + - (py * py))
    with ((1 + pz) * (1 + pz) * (1 - (px / (1 + pz) * (px / (1 + pz)) + py / (1 + pz) * (py / (1 + pz))))) by (field; lra).
  apply Rmult_lt_0_compat; [apply Rmult_lt_0_compat; lra|lra].
Qed.

Lemma DD_Pl px py pz : driftx_dom px py pz -> DD px py pz = (1 + pz) * dx_Pl px py pz.
Proof.
  intros [H1 H2]. unfold DD, dx_Pl.
  rewrite <- (sqrt_square (1 + pz)) at 3 by lra. rewrite <- sqrt_mult; [|nra|lra].
  f_equal. unfold dx_Pxy2. field. lra.
Qed.
Lemma Pl_pos px py pz : driftx_dom px py pz -> 0 < dx_Pl px py pz.
Proof. intros [_ H]. unfold dx_Pl. apply sqrt_lt_R0. lra. Qed.
Lemma Pl_sq px py pz : driftx_dom px py pz -> dx_Pl px py pz * dx_Pl px py pz = 1 - dx_Pxy2 px py pz.
Proof. intros [_ H]. unfold dx_Pl. apply sqrt_sqrt. lra. Qed.

(* on the whole (open) paraxial region the code's expressions ARE the gradient form *)
Lemma driftx_dx_form L px py pz : driftx_dom px py pz -> driftx_dx L px py pz = gx L px py pz.
Proof.
  intros Hd. pose proof (Pl_pos _ _ _ Hd). unfold driftx_dx, gx. rewrite (DD_Pl _ _ _ Hd). destruct Hd. field. split; lra.
Qed.
Lemma driftx_dy_form L px py pz : driftx_dom px py pz -> driftx_dy L px py pz = gy L px py pz.
Proof.
  intros Hd. pose proof (Pl_pos _ _ _ Hd). unfold driftx_dy, gy. rewrite (DD_Pl _ _ _ Hd). destruct Hd. field. split; lra.
Qed.
Lemma driftx_dz_form L p0c mc2 px py pz : driftx_dom px py pz ->
  driftx_dz L p0c mc2 px py pz = gz L (driftx_g p0c mc2 pz) px py pz.
Proof.
  intros Hd. pose proof (Pl_pos _ _ _ Hd) as HP. pose proof (Pl_sq _ _ _ Hd) as HS.
  unfold driftx_dz, gz. rewrite (DD_Pl _ _ _ Hd). unfold sqrt_one.
  replace (1 + - dx_Pxy2 px py pz) with (1 - dx_Pxy2 px py pz) by ring. fold (dx_Pl px py pz).
  replace (- dx_Pxy2 px py pz) with (dx_Pl px py pz * dx_Pl px py pz - 1) by lra.
  destruct Hd. field. repeat split; lra.
Qed.
Lemma DD_pos px py pz : domD px py pz -> 0 < DD px py pz.
Proof. intros H. apply sqrt_lt_R0. exact H. Qed.

Ltac dd := match goal with |- context [sqrt ?a] => set (s := sqrt a) in * end.

Lemma d_gx_dpy L px py pz : domD px py pz -> is_derive (fun t => gx L px t pz) py (L * px * py / (DD px py pz) ^ 3).
Proof.
  intros Hd. pose proof (DD_pos _ _ _ Hd) as HP. unfold gx, DD, domD in *. auto_derive.
  - split; [exact Hd|split; [lra|exact I]].
  - dd. field. lra.
Qed.
Lemma d_gy_dpx L px py pz : domD px py pz -> is_derive (fun t => gy L t py pz) px (L * px * py / (DD px py pz) ^ 3).
Proof.
  intros Hd. pose proof (DD_pos _ _ _ Hd) as HP. unfold gy, DD, domD in *. auto_derive.
  - split; [exact Hd|split; [lra|exact I]].
  - dd. field. lra.
Qed.
Lemma d_gx_dpz L px py pz : domD px py pz -> is_derive (fun t => gx L px py t) pz (- L * px * (1 + pz) / (DD px py pz) ^ 3).
Proof.
  intros Hd. pose proof (DD_pos _ _ _ Hd) as HP. unfold gx, DD, domD in *. auto_derive.
  - split; [exact Hd|split; [lra|exact I]].
  - dd. field. lra.
Qed.
Lemma d_gz_dpx L g px py pz : domD px py pz -> is_derive (fun t => gz L g t py pz) px (- L * px * (1 + pz) / (DD px py pz) ^ 3).
Proof.
  intros Hd. pose proof (DD_pos _ _ _ Hd) as HP. unfold gz, DD, domD in *. auto_derive.
  - split; [exact Hd|split; [lra|exact I]].
  - dd. field. lra.
Qed.
Lemma d_gy_dpz L px py pz : domD px py pz -> is_derive (fun t => gy L px py t) pz (- L * py * (1 + pz) / (DD px py pz) ^ 3).
Proof.
  intros Hd. pose proof (DD_pos _ _ _ Hd) as HP. unfold gy, DD, domD in *. auto_derive.
  - split; [exact Hd|split; [lra|exact I]].
  - dd. field. lra.
Qed.
Lemma d_gz_dpy L g px py pz : domD px py pz -> is_derive (fun t => gz L g px t pz) py (- L * py * (1 + pz) / (DD px py pz) ^ 3).
Proof.
  intros Hd. pose proof (DD_pos _ _ _ Hd) as HP. unfold gz, DD, domD in *. auto_derive.
  - split; [exact Hd|split; [lra|exact I]].
  - dd. field. lra.
Qed.

(** * a shear (q, p) |-> (q + f(p), p) with symmetric Jacobian F = df/dp is symplectic; so is a kick (q, p + f(q)) *)
Definition shear (fxx fxy fxz fyy fyz fzz : R) : M7 R :=
  mk7 (row 1 fxx 0 fxy 0 fxz 0) (row 0 1 0 0 0 0 0)
      (row 0 fxy 1 fyy 0 fyz 0) (row 0 0 0 1 0 0 0)
      (row 0 fxz 0 fyz 1 fzz 0) (row 0 0 0 0 0 1 0) (row 0 0 0 0 0 0 1).
Definition kick (fxx fxy fxz fyy fyz fzz : R) : M7 R :=
  mk7 (row 1 0 0 0 0 0 0) (row fxx 1 fxy 0 fxz 0 0)
      (row 0 0 1 0 0 0 0) (row fxy 0 fyy 1 fyz 0 0)
      (row 0 0 0 0 1 0 0) (row fxz 0 fyz 0 fzz 1 0) (row 0 0 0 0 0 0 1).
Lemma sympl_shear a b c d e f : symplectic_wrt S6plus (shear a b c d e f).
Proof. unfold shear. entries; ring. Qed.
Lemma sympl_kick a b c d e f : symplectic_wrt S6plus (kick a b c d e f).
Proof. unfold kick. entries; ring. Qed.

(** * Bmad-X drift: at every point of the paraxial region the Jacobian of (x,px,y,py,z,pz) |-> out is a shear
      whose off-diagonal blocks are the cross derivatives below, pairwise EQUAL; hence symplectic *)
Theorem driftx_cross_derivatives L g px py pz : domD px py pz ->
  let D3 := (DD px py pz) ^ 3 in
  is_derive (fun t => gx L px t pz) py (L * px * py / D3) /\ is_derive (fun t => gy L t py pz) px (L * px * py / D3) /\
  is_derive (fun t => gx L px py t) pz (- L * px * (1 + pz) / D3) /\ is_derive (fun t => gz L g t py pz) px (- L * px * (1 + pz) / D3) /\
  is_derive (fun t => gy L px py t) pz (- L * py * (1 + pz) / D3) /\ is_derive (fun t => gz L g px t pz) py (- L * py * (1 + pz) / D3).
Proof.
  intros H. lazy zeta.
  exact (conj (d_gx_dpy L px py pz H) (conj (d_gy_dpx L px py pz H) (conj (d_gx_dpz L px py pz H)
        (conj (d_gz_dpx L g px py pz H) (conj (d_gy_dpz L px py pz H) (d_gz_dpy L g px py pz H)))))).
Qed.

Theorem driftx_sympl L px py pz fxx fyy fzz : 
  let D3 := (DD px py pz) ^ 3 in
  symplectic_wrt S6plus (shear fxx (L * px * py / D3) (- L * px * (1 + pz) / D3) fyy (- L * py * (1 + pz) / D3) fzz).
Proof. intros D3. apply sympl_shear. Qed.

(** * change of longitudinal coordinates: a block-diagonal N = diag(I2, I2, n) with det n = -1 maps S6plus to S6 *)
Definition long_change (n11 n12 n21 n22 : R) : M7 R :=
  mk7 (row 1 0 0 0 0 0 0) (row 0 1 0 0 0 0 0) (row 0 0 1 0 0 0 0) (row 0 0 0 1 0 0 0)
      (row 0 0 0 0 n11 n12 0) (row 0 0 0 0 n21 n22 0) (row 0 0 0 0 0 0 1).
Lemma coords_flip n11 n12 n21 n22 : n11 * n22 - n12 * n21 = -1 ->
  rmmul (transpose (lin6 (long_change n11 n12 n21 n22))) (rmmul S6plus (lin6 (long_change n11 n12 n21 n22))) = S6.
Proof. intros H. unfold long_change. entries; try ring; ring_simplify; lra. Qed.

(* z = - beta tau, pz = (p - p0)/p0 with p = sqrt(E^2 - m^2), E = E0 + delta p0:  d z/d tau = -beta, d pz/d tau = 0,
   d pz/d delta = E / p = 1 / beta: the block [[-beta, *],[0, 1/beta]] has determinant -1 whatever * is *)
Lemma cheetah_to_bmad_det beta star : beta <> 0 -> (- beta) * (1 / beta) - star * 0 = -1.
Proof. intros H. field. exact H. Qed.
Lemma dpz_ddelta E0 p0 m delta : 0 < p0 -> 0 < (E0 + delta * p0) * (E0 + delta * p0) - m * m ->
  is_derive (fun d => (sqrt ((E0 + d * p0) * (E0 + d * p0) - m * m) - p0) / p0) delta
            ((E0 + delta * p0) / sqrt ((E0 + delta * p0) * (E0 + delta * p0) - m * m)).
Proof.
  intros Hp Hd. pose proof (sqrt_lt_R0 _ Hd) as Hs. auto_derive.
  - repeat split; lra.
  - match goal with |- context [sqrt ?a] => replace a with ((E0 + delta * p0) * (E0 + delta * p0) - m * m) by ring end.
    set (s := sqrt _) in *. field. split; lra.
Qed.

(* if J_c (cheetah coordinates) and J_b (Bmad coordinates) are related by N_out J_c = J_b N_in, both N flipping the form,
   then J_b symplectic w.r.t. S6plus  ==>  J_c symplectic w.r.t. S6 *)
Lemma sympl_change_coords Jc Jb Nin Nout :
  rmmul (lin6 Nout) (lin6 Jc) = rmmul (lin6 Jb) (lin6 Nin) ->
  rmmul (transpose (lin6 Nin)) (rmmul S6plus (lin6 Nin)) = S6 ->
  rmmul (transpose (lin6 Nout)) (rmmul S6plus (lin6 Nout)) = S6 ->
  symplectic_wrt S6plus Jb -> symplectic Jc.
Proof.
  intros Hrel Hin Hout Hb. unfold symplectic, symplectic_wrt in *.
  set (c := lin6 Jc) in *. set (b := lin6 Jb) in *. set (ni := lin6 Nin) in *. set (no := lin6 Nout) in *.
  transitivity (rmmul (transpose c) (rmmul (rmmul (transpose no) (rmmul S6plus no)) c)); [rewrite Hout; reflexivity|].
  rewrite (mmul_assoc RRth (transpose no) (rmmul S6plus no) c), (mmul_assoc RRth S6plus no c).
  rewrite <- (mmul_assoc RRth (transpose c) (transpose no)).
  rewrite <- (transpose_mmul RRth no c). rewrite Hrel.
  rewrite (transpose_mmul RRth b ni), (mmul_assoc RRth (transpose ni) (transpose b)).
  rewrite <- (mmul_assoc RRth S6plus b ni).
  rewrite <- (mmul_assoc RRth (transpose b) (rmmul S6plus b) ni).
  rewrite Hb. exact Hin.
Qed.

(** * Bmad-X quadrupole step (calculate_quadrupole_coefficients): 2x2 block determinant.  PARTIAL: because the code uses
      sqrt(|k1| + eps) the determinant is 1 -+ eps*sx^2, not 1: symplectic only up to eps = 2^-52 (exact if eps = 0). *)
Definition qx_sqrtk (k1 eps : R) : R := sqrt (Rabs k1 + eps).
Definition qx_cx (k1 L eps : R) : R := if Rle_dec k1 0 then cos (qx_sqrtk k1 eps * L) else cosh (qx_sqrtk k1 eps * L).
Definition qx_sx (k1 L eps : R) : R :=
  if Rle_dec k1 0 then sin (qx_sqrtk k1 eps * L) / qx_sqrtk k1 eps else sinh (qx_sqrtk k1 eps * L) / qx_sqrtk k1 eps.
(* a11 = cx, a12 = sx/rel_p, a21 = k1*sx*rel_p, a22 = cx *)
Lemma quadx_block_det_partial k1 L eps relp : 0 < eps -> relp <> 0 ->
  det2 (qx_cx k1 L eps) (qx_sx k1 L eps / relp) (k1 * qx_sx k1 L eps * relp) (qx_cx k1 L eps)
  = 1 + (if Rle_dec k1 0 then - eps else eps) * (qx_sx k1 L eps * qx_sx k1 L eps).
Proof.
  intros He Hr. unfold det2, qx_cx, qx_sx.
  assert (Hq : 0 < Rabs k1 + eps) by (pose proof (Rabs_pos k1); lra).
  assert (Hs : qx_sqrtk k1 eps * qx_sqrtk k1 eps = Rabs k1 + eps) by (apply sqrt_sqrt; lra).
  assert (Hs0 : qx_sqrtk k1 eps <> 0) by (intro H0; rewrite H0 in Hs; lra).
  set (q := qx_sqrtk k1 eps) in *.
  destruct (Rle_dec k1 0) as [Hk|Hk].
  - pose proof (sin2_cos2 (q * L)) as H. unfold Rsqr in H.
    assert (Ha : k1 = - (q * q - eps)) by (rewrite Hs, Rabs_left1 by exact Hk; ring).
    set (sn := sin (q * L)) in *. set (cs := cos (q * L)) in *.
    rewrite Ha at 1. transitivity (cs * cs + sn * sn - eps * (sn / q * (sn / q))); [field; split; assumption|]. lra.
  - pose proof (cosh2_sinh2 (q * L)) as H.
    assert (Ha : k1 = q * q - eps) by (rewrite Hs, Rabs_right by lra; ring).
    set (sh := sinh (q * L)) in *. set (ch := cosh (q * L)) in *.
    rewrite Ha at 1. transitivity (ch * ch - sh * sh + eps * (sh / q * (sh / q))); [field; split; assumption|]. lra.
Qed.
