(** C03, non-linear part -- the Bmad-X DIPOLE (model: Bmadx/BendX.v, written for C07) is symplectic wherever it is defined.

    The coded body `_bmadx_body` is the exact sector map (BendXJac.body_is_sector_map for x, px; BendXFlow.body_yz_closed for y, z):
        w   = sqrt((1+pz)^2 - py^2 - px^2)            px' = px cos th + sin th (w - (1 + g x))        w' = sqrt((1+pz)^2 - py^2 - px'^2)
        x'  = (w' - (cos th (w - (1 + g x)) - sin th px) - 1)/g
        y'  = y + py turn/g,   z' = z + zc(pz) - (1+pz) turn/g,   turn = th + asin(px/n) - asin(px'/n),  n = sqrt((1+pz)^2 - py^2)
    ([sect_map]; py, pz invariant).  It factors as  shear(-Phi)(at the exit momenta) o R o shear(Phi)  with
        Phi(P,py,pz) = (P - (P w + n^2 asin(P/n))/2)/g       (x += dPhi/dP = (1 - w)/g,  y += dPhi/dpy = py asin(P/n)/g,  z += dPhi/dpz)
        R: the rotation of (px, U = -g Q) by th (Q = x + (1-w)/g) together with y += py th/g, z += zc(pz) - (1+pz) th/g,
    so its Jacobian is [sect_jac] = shear(-F(P')) * Rmat * shear(F(P)), F the Hessian of Phi.  What is proved:
      * [nice_map_has_jac]: [sect_jac] IS the derivative of the exact sector map along every direction, at every point of the open
        region g <> 0, n^2 > 0, |px| < n, |px'| < n (all 36 entries: no entry is left out)
      * [sect_jac_sympl]: J^T S6plus J = S6plus (product of two shears with symmetric blocks and a rotation)
      * [bendx_body_has_jac]: the same for the CODED body at every point that has a neighbourhood (along lines) in which the code is
        defined (BendX.bb_defined) and arctan2 does not wrap (BendXFlow.bb_nowrap; violated only for bends below -pi, finding F70)
      * [bendx_bmad_has_jac], [bendx_bmad_sympl]: offset_particle_set(tilt) ; entrance fringe kick ; body ; exit fringe kick ;
        offset_particle_unset: Jacobian = product, symplectic (the linear fringe kicks are [kick] matrices); [bendx_cheetah_sympl]. *)
From Coq Require Import Reals Lra Psatz.
From Coquelicot Require Import Coquelicot.
From Cheetah Require Import Base.Mat Optics.Maps Optics.Sympl Optics.SymplProofs Bmadx.Coords Bmadx.DriftX Bmadx.Tdc
  Bmadx.QuadXProofs Bmadx.BendX Bmadx.BendXProofs Bmadx.BendXGeom Bmadx.BendXJac Bmadx.BendXFlow Bmadx.SymplX Bmadx.SymplXJac.
Open Scope R_scope.


Lemma is_derive_asin x : -1 < x < 1 -> is_derive asin x (/ sqrt (1 - x²)).
Proof.
  intros H. apply is_derive_Reals. apply (derive_pt_eq_1 asin x _ (derivable_pt_asin x H)).
  rewrite derive_pt_asin. unfold Rdiv. ring.
Qed.

Local Arguments pow : simpl never.
Ltac sidec := repeat (match goal with |- _ /\ _ => split end); try exact I; try (eexists; eassumption).

Section Line.
Variables (g th x px y py z pz vx vpx vy vpy vz w : R).
Let c := cos th. Let s := sin th.
Let N2 := (1 + pz) ^ 2 - py ^ 2.
Let dN := (1 + pz) * w - py * vpy.        (* half the derivative of N2 along the line *)

Lemma G_px (fW : R -> R) dW : is_derive fW 0 dW ->
  is_derive (fun t => (px + t * vpx) * c + s * (fW t - (1 + g * (x + t * vx)))) 0 (vpx * c + s * (dW - g * vx)).
Proof.
  intros H. auto_derive; [sidec|].
  change (fun x0 : R => fW x0) with fW. rewrite (is_derive_unique _ _ _ H). ring.
Qed.

Lemma G_sqrt (f : R -> R) df : is_derive f 0 df -> 0 < N2 - (f 0) ^ 2 ->
  is_derive (fun t => sqrt ((1 + (pz + t * w)) ^ 2 - (py + t * vpy) ^ 2 - (f t) ^ 2)) 0
            ((dN - f 0 * df) / sqrt (N2 - (f 0) ^ 2)).
Proof.
  intros H Hpos. unfold N2, dN in *. auto_derive.
  - sidec. replace (pz + 0 * w) with pz by ring. replace (py + 0 * vpy) with py by ring. simpl. simpl in Hpos. lra.
  - change (fun x0 : R => f x0) with f. rewrite (is_derive_unique _ _ _ H).
    replace (pz + 0 * w) with pz by ring. replace (py + 0 * vpy) with py by ring.
    match goal with |- context [sqrt ?a] => replace a with ((1 + pz) ^ 2 - py ^ 2 - f 0 ^ 2) by (simpl; ring) end.
    assert (Hs : 0 < sqrt ((1 + pz) ^ 2 - py ^ 2 - f 0 ^ 2)) by (apply sqrt_lt_R0; exact Hpos).
    set (S := sqrt _) in *. simpl. field. lra.
Qed.

Lemma G_asin (f : R -> R) df : is_derive f 0 df -> 0 < N2 -> 0 < N2 - (f 0) ^ 2 ->
  is_derive (fun t => asin (f t / sqrt ((1 + (pz + t * w)) ^ 2 - (py + t * vpy) ^ 2))) 0
            ((df - f 0 * dN / N2) / sqrt (N2 - (f 0) ^ 2)).
Proof.
  intros H HN Hpos. unfold N2, dN in *.
  assert (Hn : 0 < sqrt ((1 + pz) ^ 2 - py ^ 2)) by (apply sqrt_lt_R0; exact HN).
  assert (Hn2 : sqrt ((1 + pz) ^ 2 - py ^ 2) * sqrt ((1 + pz) ^ 2 - py ^ 2) = (1 + pz) ^ 2 - py ^ 2) by (apply sqrt_sqrt; lra).
  set (rat := fun t => f t / sqrt ((1 + (pz + t * w)) ^ 2 - (py + t * vpy) ^ 2)).
  assert (R0 : rat 0 = f 0 / sqrt ((1 + pz) ^ 2 - py ^ 2)).
  { unfold rat. replace (pz + 0 * w) with pz by ring. replace (py + 0 * vpy) with py by ring. reflexivity. }
  assert (Hr : is_derive rat 0 (df / sqrt ((1 + pz) ^ 2 - py ^ 2) - f 0 * ((1 + pz) * w - py * vpy) / (((1 + pz) ^ 2 - py ^ 2) * sqrt ((1 + pz) ^ 2 - py ^ 2)))).
  { unfold rat. auto_derive.
    - sidec; replace (pz + 0 * w) with pz by ring; replace (py + 0 * vpy) with py by ring.
      + simpl; simpl in HN; lra.
      + match goal with |- sqrt ?a <> 0 => replace a with ((1 + pz) ^ 2 - py ^ 2) by (simpl; ring) end. lra.
    - change (fun x0 : R => f x0) with f. rewrite (is_derive_unique _ _ _ H).
      replace (pz + 0 * w) with pz by ring. replace (py + 0 * vpy) with py by ring.
      match goal with |- context [sqrt ?a] => replace a with ((1 + pz) ^ 2 - py ^ 2) by (simpl; ring) end.
      set (n := sqrt _) in *. 
      replace ((1 + pz) ^ 2 - py ^ 2) with (n * n) by (rewrite Hn2; ring). simpl. field. lra. }
  assert (Hrange : -1 < rat 0 < 1).
  { rewrite R0. set (n := sqrt _) in *.
    assert (f 0 * f 0 < n * n) by (rewrite Hn2; simpl in Hpos; lra).
    split; apply (Rmult_lt_reg_r n); try lra; replace (f 0 / n * n) with (f 0) by (field; lra); nra. }
  evar_last.
  - apply (is_derive_comp asin rat 0); [apply is_derive_asin; exact Hrange|exact Hr].
  - unfold scal; simpl. unfold mult; simpl. rewrite R0. set (n := sqrt ((1 + pz) ^ 2 - py ^ 2)) in *.
    assert (E : sqrt (1 - (f 0 / n)²) = sqrt ((1 + pz) ^ 2 - py ^ 2 - f 0 ^ 2) / n).
    { replace (1 - (f 0 / n)²) with (((1 + pz) ^ 2 - py ^ 2 - f 0 ^ 2) / (n * n)) by (rewrite <- Hn2; unfold Rsqr; field; lra).
      rewrite sqrt_div_alt by nra. rewrite sqrt_square by lra. reflexivity. }
    rewrite E. assert (Hs : 0 < sqrt ((1 + pz) ^ 2 - py ^ 2 - f 0 ^ 2)) by (apply sqrt_lt_R0; exact Hpos).
    set (S := sqrt ((1 + pz) ^ 2 - py ^ 2 - f 0 ^ 2)) in *.
    replace ((1 + pz) ^ 2 - py ^ 2) with (n * n) by (rewrite Hn2; ring). field. lra.
Qed.

Lemma G_x (fW fW' : R -> R) dW dW' : is_derive fW 0 dW -> is_derive fW' 0 dW' -> g <> 0 ->
  is_derive (fun t => (fW' t - (c * (fW t - (1 + g * (x + t * vx))) - s * (px + t * vpx)) - 1) / g) 0
            ((dW' - (c * (dW - g * vx) - s * vpx)) / g).
Proof.
  intros H H' Hg. auto_derive; [sidec|].
  change (fun x0 : R => fW x0) with fW. change (fun x0 : R => fW' x0) with fW'.
  rewrite (is_derive_unique _ _ _ H), (is_derive_unique _ _ _ H'). field. exact Hg.
Qed.
Lemma G_y (f1 f2 : R -> R) d1 d2 : is_derive f1 0 d1 -> is_derive f2 0 d2 -> g <> 0 ->
  is_derive (fun t => (y + t * vy) + (py + t * vpy) * (th + f1 t - f2 t) / g) 0
            (vy + vpy * (th + f1 0 - f2 0) / g + py * (d1 - d2) / g).
Proof.
  intros H1 H2 Hg. auto_derive; [sidec|].
  change (fun x0 : R => f1 x0) with f1. change (fun x0 : R => f2 x0) with f2.
  rewrite (is_derive_unique _ _ _ H1), (is_derive_unique _ _ _ H2). field. exact Hg.
Qed.
Lemma G_z (zc f1 f2 : R -> R) dzc d1 d2 : is_derive zc pz dzc -> is_derive f1 0 d1 -> is_derive f2 0 d2 -> g <> 0 ->
  is_derive (fun t => (z + t * vz) + zc (pz + t * w) - (1 + (pz + t * w)) * (th + f1 t - f2 t) / g) 0
            (vz + w * dzc - w * (th + f1 0 - f2 0) / g - (1 + pz) * (d1 - d2) / g).
Proof.
  intros Hz H1 H2 Hg.
  assert (Hz' : is_derive zc (pz + 0 * w) dzc) by (replace (pz + 0 * w) with pz by ring; exact Hz).
  auto_derive; [sidec|].
  change (fun x0 : R => f1 x0) with f1. change (fun x0 : R => f2 x0) with f2. change (fun x0 : R => zc x0) with zc.
  rewrite (is_derive_unique _ _ _ H1), (is_derive_unique _ _ _ H2), (is_derive_unique _ _ _ Hz'). field. exact Hg.
Qed.
End Line.

(** * the exact sector map in all six coordinates *)
Definition sect_turn (g th x px py pz : R) : R := th + bb_phi1 px py pz - bb_phi1 (sect_px g th x px py pz) py pz.
Definition sect_map (g th : R) (zc : R -> R) (q : bpart) : bpart :=
  let x := bx q in let px := bpx q in let y := by_ q in let py := bpy q in let z := bz q in let pz := bpz q in
  mkb (sect_x g th x px py pz) (sect_px g th x px py pz) (y + py * sect_turn g th x px py pz / g) py
      (z + zc pz - (1 + pz) * sect_turn g th x px py pz / g) pz.
(* the same with the exit position written through the exit longitudinal momentum w' = sqrt(px_norm^2 - px'^2) *)
Definition nice_x (g th x px py pz : R) : R :=
  (sect_w (sect_px g th x px py pz) py pz - (cos th * (sect_w px py pz - (1 + g * x)) - sin th * px) - 1) / g.
Definition nice_map (g th : R) (zc : R -> R) (q : bpart) : bpart :=
  let x := bx q in let px := bpx q in let y := by_ q in let py := bpy q in let z := bz q in let pz := bpz q in
  mkb (nice_x g th x px py pz) (sect_px g th x px py pz) (y + py * sect_turn g th x px py pz / g) py
      (z + zc pz - (1 + pz) * sect_turn g th x px py pz / g) pz.

Lemma sect_x_nice g th x px py pz : 0 <= (1 + pz) ^ 2 - py ^ 2 - px ^ 2 -> sect_x g th x px py pz = nice_x g th x px py pz.
Proof.
  intros H. rewrite sect_x_rot. unfold nice_x. rewrite (sect_w_exit g py pz th x px H). unfold sect_U. reflexivity.
Qed.

(** * the Jacobian: shear(-F(P')) * R * shear(F(P)),  F = Hessian of Phi(P,py,pz) = (P - (P W + n^2 asin(P/n))/2)/g *)
Definition shF (sg g P py pz W phi : R) : M7 R :=
  let N2 := (1 + pz) ^ 2 - py ^ 2 in
  shear (sg * (P / (g * W))) (sg * (py / (g * W))) (sg * (- (1 + pz) / (g * W)))
        (sg * (phi / g + py * py * P / (g * N2 * W))) (sg * (- py * P * (1 + pz) / (g * N2 * W)))
        (sg * (- phi / g + (1 + pz) * (1 + pz) * P / (g * N2 * W))).
Definition Rmat (g th dzc : R) : M7 R :=
  mk7 (row (cos th) (sin th / g) 0 0 0 0 0) (row (- sin th * g) (cos th) 0 0 0 0 0)
      (row 0 0 1 (th / g) 0 0 0) (row 0 0 0 1 0 0 0)
      (row 0 0 0 0 1 (dzc - th / g) 0) (row 0 0 0 0 0 1 0) (row 0 0 0 0 0 0 1).
Definition sect_jac (g th dzc : R) (q : bpart) : M7 R :=
  let x := bx q in let px := bpx q in let py := bpy q in let pz := bpz q in
  let P' := sect_px g th x px py pz in
  rmmul (shF (-1) g P' py pz (sect_w P' py pz) (bb_phi1 P' py pz))
        (rmmul (Rmat g th dzc) (shF 1 g px py pz (sect_w px py pz) (bb_phi1 px py pz))).

Lemma affine_shF sg g P py pz W phi : affine (shF sg g P py pz W phi). Proof. reflexivity. Qed.
Lemma affine_Rmat g th dzc : affine (Rmat g th dzc). Proof. reflexivity. Qed.
Lemma affine_sect_jac g th dzc q : affine (sect_jac g th dzc q).
Proof. unfold sect_jac. cbv zeta. apply affine_mul; [apply affine_shF|apply affine_mul; [apply affine_Rmat|apply affine_shF]]. Qed.

Lemma sympl_Rmat g th dzc : g <> 0 -> symplectic_wrt S6plus (Rmat g th dzc).
Proof.
  intros Hg. pose proof (sin2_cos2 th) as H. unfold Rsqr in H. unfold Rmat.
  entries; try ring; field_simplify_eq; try exact Hg; nra.
Qed.
Theorem sect_jac_sympl g th dzc q : g <> 0 -> symplectic_wrt S6plus (sect_jac g th dzc q).
Proof.
  intros Hg. unfold sect_jac. cbv zeta. apply sympl_wrt_mul.
  - apply affine_mul; [apply affine_Rmat|apply affine_shF].
  - unfold shF. cbv zeta. apply sympl_shear.
  - apply sympl_wrt_mul; [apply affine_shF|apply sympl_Rmat; exact Hg|unfold shF; cbv zeta; apply sympl_shear].
Qed.

Theorem nice_map_has_jac g th zc dzc q : g <> 0 ->
  0 < (1 + bpz q) ^ 2 - bpy q ^ 2 ->
  0 < (1 + bpz q) ^ 2 - bpy q ^ 2 - bpx q ^ 2 ->
  0 < (1 + bpz q) ^ 2 - bpy q ^ 2 - (sect_px g th (bx q) (bpx q) (bpy q) (bpz q)) ^ 2 ->
  is_derive zc (bpz q) dzc ->
  has_jac (nice_map g th zc) q (sect_jac g th dzc q).
Proof.
  intros Hg HN HW HW' Hz v. destruct q as [x px y py z pz], v as [vx vpx vy vpy vz w]. cbn [bx bpx by_ bpy bz bpz] in *.
  set (W := sect_w px py pz). set (P' := sect_px g th x px py pz). set (W' := sect_w P' py pz).
  set (N2 := (1 + pz) ^ 2 - py ^ 2) in *. set (dN := (1 + pz) * w - py * vpy).
  set (dW := (dN - px * vpx) / W). set (dP' := vpx * cos th + sin th * (dW - g * vx)). set (dW' := (dN - P' * dP') / W').
  set (d1 := (vpx - px * dN / N2) / W). set (d2 := (dP' - P' * dN / N2) / W').
  assert (HWp : 0 < W) by (apply sqrt_lt_R0; exact HW). assert (HWp' : 0 < W') by (apply sqrt_lt_R0; exact HW').
  (* the building blocks along the line *)
  assert (Hpx : is_derive (fun t => px + t * vpx) 0 vpx) by (auto_derive; [exact I|ring]).
  assert (DW : is_derive (fun t => sect_w (px + t * vpx) (py + t * vpy) (pz + t * w)) 0 dW).
  { evar_last; [apply (G_sqrt py pz vpy w (fun t => px + t * vpx) vpx Hpx)|]; cbv beta; replace (px + 0 * vpx) with px by ring; [exact HW|reflexivity]. }
  assert (DP : is_derive (fun t => sect_px g th (x + t * vx) (px + t * vpx) (py + t * vpy) (pz + t * w)) 0 dP').
  { apply (G_px g th x px vx vpx _ _ DW). }
  assert (P0 : sect_px g th (x + 0 * vx) (px + 0 * vpx) (py + 0 * vpy) (pz + 0 * w) = P').
  { unfold P'. f_equal; ring. }
  assert (DW' : is_derive (fun t => sect_w (sect_px g th (x + t * vx) (px + t * vpx) (py + t * vpy) (pz + t * w)) (py + t * vpy) (pz + t * w)) 0 dW').
  { evar_last; [apply (G_sqrt py pz vpy w _ dP' DP)|]; cbv beta; rewrite P0; [exact HW'|reflexivity]. }
  assert (D1 : is_derive (fun t => bb_phi1 (px + t * vpx) (py + t * vpy) (pz + t * w)) 0 d1).
  { evar_last; [apply (G_asin py pz vpy w (fun t => px + t * vpx) vpx Hpx HN)|]; cbv beta; replace (px + 0 * vpx) with px by ring; [exact HW|reflexivity]. }
  assert (D2 : is_derive (fun t => bb_phi1 (sect_px g th (x + t * vx) (px + t * vpx) (py + t * vpy) (pz + t * w)) (py + t * vpy) (pz + t * w)) 0 d2).
  { evar_last; [apply (G_asin py pz vpy w _ dP' DP HN)|]; cbv beta; rewrite P0; [exact HW'|reflexivity]. }
  assert (T0 : th + bb_phi1 (px + 0 * vpx) (py + 0 * vpy) (pz + 0 * w) - bb_phi1 (sect_px g th (x + 0 * vx) (px + 0 * vpx) (py + 0 * vpy) (pz + 0 * w)) (py + 0 * vpy) (pz + 0 * w)
               = th + bb_phi1 px py pz - bb_phi1 P' py pz).
  { rewrite P0. replace (px + 0 * vpx) with px by ring. replace (py + 0 * vpy) with py by ring. replace (pz + 0 * w) with pz by ring. reflexivity. }
  assert (HN0 : N2 <> 0) by lra.
  unfold nice_map, bline, sect_turn, nice_x. cbn [bx bpx by_ bpy bz bpz].
  split6.
  - evar_last; [apply (G_x g th x px vx vpx _ _ dW dW' DW DW' Hg)|].
    unfold sect_jac, shF, Rmat, shear, dot6, row. cbn [bx bpx by_ bpy bz bpz].
    lazy beta iota zeta delta [mmul transpose col v7map dot c0 c1 c2 c3 c4 c5 c6].
    fold P'. fold W. fold W'. unfold dW', dP', dW. fold N2. unfold dN. field. repeat split; lra.
  - evar_last; [exact DP|].
    unfold sect_jac, shF, Rmat, shear, dot6, row. cbn [bx bpx by_ bpy bz bpz].
    lazy beta iota zeta delta [mmul transpose col v7map dot c0 c1 c2 c3 c4 c5 c6].
    fold P'. fold W. fold W'. unfold dP', dW. fold N2. unfold dN. field. repeat split; lra.
  - evar_last; [apply (G_y g th y py vy vpy _ _ d1 d2 D1 D2 Hg)|]. rewrite T0.
    unfold sect_jac, shF, Rmat, shear, dot6, row. cbn [bx bpx by_ bpy bz bpz].
    lazy beta iota zeta delta [mmul transpose col v7map dot c0 c1 c2 c3 c4 c5 c6].
    fold P'. fold W. fold W'. unfold d1, d2, dP', dW. fold N2. unfold dN. field. repeat split; lra.
  - evar_last; [auto_derive; [exact I|reflexivity]|].
    unfold sect_jac, shF, Rmat, shear, dot6, row. cbn [bx bpx by_ bpy bz bpz].
    lazy beta iota zeta delta [mmul transpose col v7map dot c0 c1 c2 c3 c4 c5 c6]. ring.
  - evar_last; [apply (G_z g th z pz vz w zc _ _ dzc d1 d2 Hz D1 D2 Hg)|]. rewrite T0.
    unfold sect_jac, shF, Rmat, shear, dot6, row. cbn [bx bpx by_ bpy bz bpz].
    lazy beta iota zeta delta [mmul transpose col v7map dot c0 c1 c2 c3 c4 c5 c6].
    fold P'. fold W. fold W'. unfold d1, d2, dP', dW. fold N2. unfold dN. field. repeat split; lra.
  - evar_last; [auto_derive; [exact I|reflexivity]|].
    unfold sect_jac, shF, Rmat, shear, dot6, row. cbn [bx bpx by_ bpy bz bpz].
    lazy beta iota zeta delta [mmul transpose col v7map dot c0 c1 c2 c3 c4 c5 c6]. ring.
Qed.

(** * the coded body *)
Definition bend_zc (L p0c m : R) (p : R) : R := bb_beta p p0c m * L / bb_beta0 p0c m.

Lemma body_is_sect_map L ang p0c m q : L <> 0 -> ang <> 0 -> bb_defined L ang q -> bb_nowrap L ang q ->
  bendx_body L ang p0c m q = sect_map (bb_g L ang) ang (bend_zc L p0c m) q.
Proof.
  intros HL Ha D NW.
  destruct (body_is_sector_map L ang HL Ha p0c m q D) as [Epx Ex].
  destruct (body_yz_closed L ang p0c m q HL Ha D NW) as [Ey Ez]. cbv zeta in Ey, Ez. rewrite Epx in Ey, Ez.
  apply bpart_eq; unfold sect_map, sect_turn, bend_zc; cbn [bx bpx by_ bpy bz bpz]; try assumption; reflexivity.
Qed.

Theorem bendx_body_has_jac L ang p0c m q dzc : L <> 0 -> ang <> 0 ->
  (forall v, locally 0 (fun t => bb_defined L ang (bline q v t) /\ bb_nowrap L ang (bline q v t))) ->
  0 < (1 + bpz q) ^ 2 - bpy q ^ 2 - (bpx (bendx_body L ang p0c m q)) ^ 2 ->
  is_derive (bend_zc L p0c m) (bpz q) dzc ->
  has_jac (bendx_body L ang p0c m) q (sect_jac (bb_g L ang) ang dzc q).
Proof.
  intros HL Ha Hloc HWx Hz.
  assert (Hq : bb_defined L ang q /\ bb_nowrap L ang q).
  { pose proof (locally_singleton _ _ (Hloc q)) as H0. cbv beta in H0. rewrite bline_0 in H0. exact H0. }
  destruct Hq as [D NW].
  assert (N2pos : forall q', bb_defined L ang q' -> 0 < (1 + bpz q') ^ 2 - bpy q' ^ 2 /\ 0 < (1 + bpz q') ^ 2 - bpy q' ^ 2 - bpx q' ^ 2).
  { intros q' D'. destruct D' as (_ & _ & Hr & Hpx & _). cbv zeta in Hr, Hpx. split; [exact Hr|].
    assert (N : bb_n (bpy q') (bpz q') * bb_n (bpy q') (bpz q') = (1 + bpz q') ^ 2 - bpy q' ^ 2) by (unfold bb_n; apply sqrt_sqrt; lra).
    nra. }
  destruct (N2pos q D) as [HN HW].
  assert (HW' : 0 < (1 + bpz q) ^ 2 - bpy q ^ 2 - (sect_px (bb_g L ang) ang (bx q) (bpx q) (bpy q) (bpz q)) ^ 2).
  { destruct (body_is_sector_map L ang HL Ha p0c m q D) as [Epx _]. rewrite <- Epx. exact HWx. }
  apply (has_jac_ext_loc (nice_map (bb_g L ang) ang (bend_zc L p0c m))).
  - intros v. generalize (Hloc v). apply filter_imp. intros t [Dt NWt].
    rewrite (body_is_sect_map L ang p0c m _ HL Ha Dt NWt). destruct (N2pos _ Dt) as [_ Wt].
    unfold sect_map, nice_map. rewrite (sect_x_nice _ _ _ _ _ _ (Rlt_le _ _ Wt)). reflexivity.
  - apply nice_map_has_jac; try assumption. apply (bb_g_nz L ang HL Ha).
Qed.

(** d zc / d pz exists for every massive particle *)
Lemma bend_zc_ex_derive L p0c m pz : 0 < m -> 0 < p0c -> ex_derive (bend_zc L p0c m) pz.
Proof.
  intros Hm Hp. unfold bend_zc, bb_beta, bb_beta0. auto_derive.
  assert (0 < m ^ 2) by (apply pow_lt; exact Hm). pose proof (pow2_ge_0 (p0c * (1 + pz))). pose proof (pow2_ge_0 p0c).
  assert (0 < (p0c * (1 + pz)) ^ 2 + m ^ 2) by lra. assert (0 < p0c ^ 2 + m ^ 2) by lra.
  assert (0 < sqrt (p0c ^ 2 + m ^ 2)) by (apply sqrt_lt_R0; assumption).
  assert (0 < sqrt ((p0c * (1 + pz)) ^ 2 + m ^ 2)) by (apply sqrt_lt_R0; assumption).
  repeat split; try assumption; try lra.
Qed.

(* non-vacuity of the hypotheses of the sector-map theorem: they hold on the design orbit (any y, z), for every curvature and angle *)
Lemma sect_nonvacuous g th L p0c m y z : g <> 0 -> 0 < m -> 0 < p0c ->
  exists dzc, has_jac (nice_map g th (bend_zc L p0c m)) (mkb 0 0 y 0 z 0) (sect_jac g th dzc (mkb 0 0 y 0 z 0))
              /\ symplectic_wrt S6plus (sect_jac g th dzc (mkb 0 0 y 0 z 0)).
Proof.
  intros Hg Hm Hp. destruct (bend_zc_ex_derive L p0c m 0 Hm Hp) as [dzc Hd]. exists dzc.
  split; [|apply sect_jac_sympl; exact Hg].
  assert (P0 : sect_px g th 0 0 0 0 = 0) by (unfold sect_px; rewrite sect_w_0; ring).
  apply nice_map_has_jac; cbn [bx bpx by_ bpy bz bpz]; try assumption; rewrite ?P0; lra.
Qed.

(** * the linear fringe kicks and the whole element *)
Definition fringe_mat (L ang e fint gap : R) : M7 R := kick (fr_hx L ang e) 0 0 (fr_hy L ang e fint gap) 0 0.
Lemma fringe_matrix L ang e fint gap q : bvec (bendx_fringe L ang e fint gap q) = rmvec (fringe_mat L ang e fint gap) (bvec q).
Proof.
  destruct q as [x px y py z pz]. unfold bendx_fringe, fringe_mat, kick, bvec, row. cbn [bx bpx by_ bpy bz bpz].
  lazy beta iota zeta delta [mvec v7map dot c0 c1 c2 c3 c4 c5 c6]. apply v7_eq; lazy beta iota zeta delta [c0 c1 c2 c3 c4 c5 c6]; ring.
Qed.
Definition entr_mat (fen : bool) (b : bend_par) : M7 R :=
  if fen then fringe_mat (bd_L b) (bd_ang b) (bd_e1 b) (bd_fint b) (bd_gap b) else rI.
Definition exit_mat (fex : bool) (b : bend_par) : M7 R :=
  if fex then fringe_mat (bd_L b) (bd_ang b) (bd_e2 b) (bd_fintx b) (bd_gapx b) else rI.
Lemma entr_matrix fen b q : bvec (bendx_entrance fen b q) = rmvec (entr_mat fen b) (bvec q).
Proof. unfold bendx_entrance, entr_mat. destruct fen; [apply fringe_matrix|apply bvec_I]. Qed.
Lemma exit_matrix fex b q : bvec (bendx_exit fex b q) = rmvec (exit_mat fex b) (bvec q).
Proof. unfold bendx_exit, exit_mat. destruct fex; [apply fringe_matrix|apply bvec_I]. Qed.
Lemma affine_entr fen b : affine (entr_mat fen b). Proof. destruct fen; reflexivity. Qed.
Lemma affine_exit fex b : affine (exit_mat fex b). Proof. destruct fex; reflexivity. Qed.
Lemma sympl_entr fen b : symplectic_wrt S6plus (entr_mat fen b).
Proof. unfold entr_mat, fringe_mat. destruct fen; [apply sympl_kick|apply sympl_plus_I]. Qed.
Lemma sympl_exit fex b : symplectic_wrt S6plus (exit_mat fex b).
Proof. unfold exit_mat, fringe_mat. destruct fex; [apply sympl_kick|apply sympl_plus_I]. Qed.

Section Element.
Variables (fen fex : bool) (b : bend_par) (p0c m : R).
Let L := bd_L b. Let ang := bd_ang b. Let tilt := bd_tilt b.
Hypotheses (HL : bd_L b <> 0) (Ha : bd_ang b <> 0).

Definition bend_pre (q : bpart) : bpart := bendx_entrance fen b (off_set 0 0 (bd_tilt b) q).
Definition bend_post (q : bpart) : bpart := off_unset 0 0 (bd_tilt b) (bendx_exit fex b q).
Definition bend_in_mat : M7 R := rmmul (entr_mat fen b) (off_in 0 0 (bd_tilt b)).
Definition bend_out_mat : M7 R := rmmul (off_out 0 0 (bd_tilt b)) (exit_mat fex b).
Definition bendx_elem_jac (q : bpart) (dzc : R) : M7 R :=
  rmmul bend_out_mat (rmmul (sect_jac (bb_g (bd_L b) (bd_ang b)) (bd_ang b) dzc (bend_pre q)) bend_in_mat).

Lemma bend_pre_matrix p : bvec (bend_pre p) = rmvec bend_in_mat (bvec p).
Proof. unfold bend_pre, bend_in_mat. rewrite entr_matrix, off_set_matrix. symmetry. apply (mvec_mmul RRth (entr_mat fen b) (off_in 0 0 (bd_tilt b))). Qed.
Lemma bend_post_matrix p : bvec (bend_post p) = rmvec bend_out_mat (bvec p).
Proof. unfold bend_post, bend_out_mat. rewrite off_unset_matrix, exit_matrix. symmetry. apply (mvec_mmul RRth (off_out 0 0 (bd_tilt b)) (exit_mat fex b)). Qed.
Lemma affine_bend_in : affine bend_in_mat. Proof. apply affine_mul; [apply affine_entr|apply affine_off_in]. Qed.
Lemma affine_bend_out : affine bend_out_mat. Proof. apply affine_mul; [apply affine_off_out|apply affine_exit]. Qed.

Theorem bendx_bmad_has_jac q dzc :
  (forall v, locally 0 (fun t => bb_defined (bd_L b) (bd_ang b) (bline (bend_pre q) v t) /\ bb_nowrap (bd_L b) (bd_ang b) (bline (bend_pre q) v t))) ->
  0 < (1 + bpz (bend_pre q)) ^ 2 - bpy (bend_pre q) ^ 2 - (bpx (bendx_body (bd_L b) (bd_ang b) p0c m (bend_pre q))) ^ 2 ->
  is_derive (bend_zc (bd_L b) p0c m) (bpz (bend_pre q)) dzc ->
  has_jac (bendx_bmad fen fex b p0c m) q (bendx_elem_jac q dzc).
Proof.
  intros Hloc HW Hz. unfold bendx_elem_jac.
  change (bendx_bmad fen fex b p0c m) with (fun p => bend_post (bendx_body (bd_L b) (bd_ang b) p0c m (bend_pre p))).
  apply (has_jac_post bend_out_mat bend_post (fun p => bendx_body (bd_L b) (bd_ang b) p0c m (bend_pre p))).
  - apply affine_mul; [apply affine_sect_jac|apply affine_bend_in].
  - apply bend_post_matrix.
  - apply (has_jac_pre bend_in_mat bend_pre (bendx_body (bd_L b) (bd_ang b) p0c m)); [apply affine_bend_in|apply bend_pre_matrix|].
    apply bendx_body_has_jac; assumption.
Qed.

Theorem bendx_bmad_sympl q dzc : symplectic_wrt S6plus (bendx_elem_jac q dzc).
Proof.
  unfold bendx_elem_jac. apply sympl_wrt_mul.
  - apply affine_mul; [apply affine_sect_jac|apply affine_bend_in].
  - unfold bend_out_mat. apply sympl_wrt_mul; [apply affine_exit|apply sympl_off_out|apply sympl_exit].
  - apply sympl_wrt_mul; [apply affine_bend_in|apply sect_jac_sympl, (bb_g_nz _ _ HL Ha)|].
    unfold bend_in_mat. apply sympl_wrt_mul; [apply affine_off_in|apply sympl_entr|apply sympl_off_in].
Qed.

Theorem bendx_cheetah_sympl q dzc Jc bin sin_ bout sout : bin <> 0 -> bout <> 0 ->
  rmmul (lin6 (long_change (- bout) sout 0 (1 / bout))) (lin6 Jc)
  = rmmul (lin6 (bendx_elem_jac q dzc)) (lin6 (long_change (- bin) sin_ 0 (1 / bin))) ->
  symplectic Jc.
Proof.
  intros Hbi Hbo Hrel.
  apply (sympl_change_coords Jc (bendx_elem_jac q dzc) (long_change (- bin) sin_ 0 (1 / bin)) (long_change (- bout) sout 0 (1 / bout)) Hrel).
  - apply coords_flip. apply cheetah_to_bmad_det. exact Hbi.
  - apply coords_flip. apply cheetah_to_bmad_det. exact Hbo.
  - apply bendx_bmad_sympl.
Qed.
End Element.
