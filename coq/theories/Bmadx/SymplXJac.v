(** C03, non-linear Bmad-X maps -- shared notions for the Jacobian proofs (SymplXQuad.v, SymplXBend.v, SymplXTdc.v).

    [has_jac F q J]: the map F on Bmad phase space (x,px,y,py,z,pz) has, at the point q, a derivative along EVERY direction v
    (not only along the six axes), and that derivative is the linear map J applied to v.  The six partial derivatives are the
    special cases v = e_j.  Directional derivatives along all v are what composition with affine maps needs (misalignment, tilt,
    linear fringe kicks): [has_jac_pre], [has_jac_post].

    [fib]: the shape of a Jacobian of a map that keeps pz, shifts z, and acts on (x,px) and (y,py) by area-preserving 2x2 blocks that
    depend on pz; [sympl_fib]: such a matrix is symplectic w.r.t. S6plus iff (here: if) the z row is a21 b0 - a11 b1, ... (the
    generating-function condition); [fib_defect]: the (x,px) entry of J^T S J is the block determinant. *)
From Coq Require Import Reals Lra Psatz.
From Coquelicot Require Import Coquelicot.
From Cheetah Require Import Base.Mat Optics.Maps Optics.Sympl Optics.SymplProofs Bmadx.Coords Bmadx.DriftX Bmadx.Tdc
  Bmadx.QuadX Bmadx.QuadXProofs Bmadx.SymplX.
Open Scope R_scope.

(** the straight line through q with direction v, and a row of a matrix applied to a direction *)
Definition bline (q v : bpart) (t : R) : bpart :=
  mkb (bx q + t * bx v) (bpx q + t * bpx v) (by_ q + t * by_ v) (bpy q + t * bpy v) (bz q + t * bz v) (bpz q + t * bpz v).
Definition dot6 (r : V7 R) (v : bpart) : R :=
  c0 r * bx v + c1 r * bpx v + c2 r * by_ v + c3 r * bpy v + c4 r * bz v + c5 r * bpz v.
Definition blin (A : M7 R) (v : bpart) : bpart :=
  mkb (dot6 (c0 A) v) (dot6 (c1 A) v) (dot6 (c2 A) v) (dot6 (c3 A) v) (dot6 (c4 A) v) (dot6 (c5 A) v).

Definition has_jac (F : bpart -> bpart) (q : bpart) (J : M7 R) : Prop := forall v : bpart,
  is_derive (fun t => bx (F (bline q v t))) 0 (dot6 (c0 J) v) /\
  is_derive (fun t => bpx (F (bline q v t))) 0 (dot6 (c1 J) v) /\
  is_derive (fun t => by_ (F (bline q v t))) 0 (dot6 (c2 J) v) /\
  is_derive (fun t => bpy (F (bline q v t))) 0 (dot6 (c3 J) v) /\
  is_derive (fun t => bz (F (bline q v t))) 0 (dot6 (c4 J) v) /\
  is_derive (fun t => bpz (F (bline q v t))) 0 (dot6 (c5 J) v).

(* [repeat split] would unfold is_derive: split a 6-fold conjunction only *)
Ltac split6 := split; [|split; [|split; [|split; [|split]]]].

(** the six partial derivatives are instances *)
Definition e_x := mkb 1 0 0 0 0 0.  Definition e_px := mkb 0 1 0 0 0 0.
Definition e_y := mkb 0 0 1 0 0 0.  Definition e_py := mkb 0 0 0 1 0 0.
Definition e_z := mkb 0 0 0 0 1 0.  Definition e_pz := mkb 0 0 0 0 0 1.
Lemma dot6_e r : dot6 r e_x = c0 r /\ dot6 r e_px = c1 r /\ dot6 r e_y = c2 r /\ dot6 r e_py = c3 r /\ dot6 r e_z = c4 r /\ dot6 r e_pz = c5 r.
Proof. unfold dot6, e_x, e_px, e_y, e_py, e_z, e_pz; cbn [bx bpx by_ bpy bz bpz]. repeat split; ring. Qed.

Lemma bvec_inj p q : bvec p = bvec q -> p = q.
Proof.
  destruct p as [x px y py z pz], q as [x' px' y' py' z' pz']. unfold bvec; cbn [bx bpx by_ bpy bz bpz].
  intros H. injection H. intros; subst; reflexivity.
Qed.

(** an affine map with matrix A sends lines to lines *)
Lemma affine_line (A : M7 R) (S : bpart -> bpart) : affine A -> (forall p, bvec (S p) = rmvec A (bvec p)) ->
  forall q v t, S (bline q v t) = bline (S q) (blin A v) t.
Proof.
  intros HA HS q v t. apply bvec_inj. rewrite HS.
  assert (E : bvec (bline (S q) (blin A v) t) =
              mk7 (bx (S q) + t * dot6 (c0 A) v) (bpx (S q) + t * dot6 (c1 A) v) (by_ (S q) + t * dot6 (c2 A) v)
                  (bpy (S q) + t * dot6 (c3 A) v) (bz (S q) + t * dot6 (c4 A) v) (bpz (S q) + t * dot6 (c5 A) v) 1) by reflexivity.
  rewrite E. clear E.
  pose proof (HS q) as Hq.
  assert (Ex : bx (S q) = c0 (bvec (S q))) by reflexivity. assert (Epx : bpx (S q) = c1 (bvec (S q))) by reflexivity.
  assert (Ey : by_ (S q) = c2 (bvec (S q))) by reflexivity. assert (Epy : bpy (S q) = c3 (bvec (S q))) by reflexivity.
  assert (Ez : bz (S q) = c4 (bvec (S q))) by reflexivity. assert (Epz : bpz (S q) = c5 (bvec (S q))) by reflexivity.
  rewrite Ex, Epx, Ey, Epy, Ez, Epz, Hq. clear Ex Epx Ey Epy Ez Epz Hq HS.
  unfold affine in HA. destruct A as [a0 a1 a2 a3 a4 a5 a6]. cbn [c6] in HA. subst a6.
  destruct q as [x px y py z pz], v as [vx vpx vy vpy vz vpz].
  unfold bline, bvec, dot6, row. cbn [bx bpx by_ bpy bz bpz].
  lazy beta iota zeta delta [mvec v7map dot c0 c1 c2 c3 c4 c5 c6].
  apply v7_eq; lazy beta iota zeta delta [c0 c1 c2 c3 c4 c5 c6]; ring.
Qed.

(** F o S, S affine with matrix A: Jacobian J_F(S q) * A *)
Notation rvmat := (@vmat R Rplus Rmult).
Notation rdot := (@dot R Rplus Rmult).
Lemma dot6_vmat (r : V7 R) (A : M7 R) v : affine A -> dot6 (rvmat r A) v = dot6 r (blin A v).
Proof.
  intros HA. unfold affine in HA. destruct A as [a0 a1 a2 a3 a4 a5 a6]. cbn [c6] in HA. subst a6.
  unfold dot6, blin, row. cbn [bx bpx by_ bpy bz bpz].
  lazy beta iota zeta delta [vmat transpose col v7map dot dot6 c0 c1 c2 c3 c4 c5 c6]. ring.
Qed.

Lemma has_jac_pre (A : M7 R) (S F : bpart -> bpart) q J : affine A -> (forall p, bvec (S p) = rmvec A (bvec p)) ->
  has_jac F (S q) J -> has_jac (fun p => F (S p)) q (rmmul J A).
Proof.
  intros HA HS HJ v. specialize (HJ (blin A v)).
  destruct HJ as (H0 & H1 & H2 & H3 & H4 & H5).
  assert (L : forall t, S (bline q v t) = bline (S q) (blin A v) t) by (intros t; apply (affine_line A S HA HS)).
  change (c0 (rmmul J A)) with (rvmat (c0 J) A). change (c1 (rmmul J A)) with (rvmat (c1 J) A).
  change (c2 (rmmul J A)) with (rvmat (c2 J) A). change (c3 (rmmul J A)) with (rvmat (c3 J) A).
  change (c4 (rmmul J A)) with (rvmat (c4 J) A). change (c5 (rmmul J A)) with (rvmat (c5 J) A).
  rewrite !(dot6_vmat _ A v HA).
  split6; (eapply is_derive_ext; [intros t; cbv beta; rewrite (L t); reflexivity|]); assumption.
Qed.

(** U o F, U affine with matrix B: Jacobian B * J_F(q) *)
Lemma has_jac_post (B : M7 R) (U F : bpart -> bpart) q J : affine J -> (forall p, bvec (U p) = rmvec B (bvec p)) ->
  has_jac F q J -> has_jac (fun p => U (F p)) q (rmmul B J).
Proof.
  intros HJa HU HJ v. destruct (HJ v) as (H0 & H1 & H2 & H3 & H4 & H5).
  assert (C : forall p, bx (U p) = c0 (rmvec B (bvec p)) /\ bpx (U p) = c1 (rmvec B (bvec p)) /\ by_ (U p) = c2 (rmvec B (bvec p)) /\
                        bpy (U p) = c3 (rmvec B (bvec p)) /\ bz (U p) = c4 (rmvec B (bvec p)) /\ bpz (U p) = c5 (rmvec B (bvec p))).
  { intros p. rewrite <- (HU p). repeat split; reflexivity. }
  assert (K : forall (r : V7 R), is_derive (fun t => rdot r (bvec (F (bline q v t)))) 0 (dot6 (rvmat r J) v)).
  { intros r. unfold affine in HJa. destruct J as [j0 j1 j2 j3 j4 j5 j6]. cbn [c0 c1 c2 c3 c4 c5 c6] in *. subst j6.
    unfold bvec. lazy beta iota zeta delta [dot c0 c1 c2 c3 c4 c5 c6].
    evar_last.
    - apply @is_derive_plus; [apply @is_derive_plus; [apply @is_derive_plus; [apply @is_derive_plus; [apply @is_derive_plus; [apply @is_derive_plus|]|]|]|]|].
      + apply is_derive_scal. exact H0.
      + apply is_derive_scal. exact H1.
      + apply is_derive_scal. exact H2.
      + apply is_derive_scal. exact H3.
      + apply is_derive_scal. exact H4.
      + apply is_derive_scal. exact H5.
      + apply @is_derive_const.
    - unfold plus, zero, scal, mult; simpl. unfold mult; simpl. unfold dot6, row.
      lazy beta iota zeta delta [vmat transpose col v7map dot c0 c1 c2 c3 c4 c5 c6]. ring. }
  change (c0 (rmmul B J)) with (rvmat (c0 B) J). change (c1 (rmmul B J)) with (rvmat (c1 B) J).
  change (c2 (rmmul B J)) with (rvmat (c2 B) J). change (c3 (rmmul B J)) with (rvmat (c3 B) J).
  change (c4 (rmmul B J)) with (rvmat (c4 B) J). change (c5 (rmmul B J)) with (rvmat (c5 B) J).
  split6; (eapply is_derive_ext; [intros t; cbv beta; destruct (C (F (bline q v t))) as (E0 & E1 & E2 & E3 & E4 & E5)|]).
  - rewrite E0. reflexivity.
  - apply (K (c0 B)).
  - rewrite E1. reflexivity.
  - apply (K (c1 B)).
  - rewrite E2. reflexivity.
  - apply (K (c2 B)).
  - rewrite E3. reflexivity.
  - apply (K (c3 B)).
  - rewrite E4. reflexivity.
  - apply (K (c4 B)).
  - rewrite E5. reflexivity.
  - apply (K (c5 B)).
Qed.

(** a map that agrees with F near q (along every line) has the same Jacobian *)
Lemma has_jac_ext_loc (F G : bpart -> bpart) q J :
  (forall v, locally 0 (fun t => F (bline q v t) = G (bline q v t))) -> has_jac F q J -> has_jac G q J.
Proof.
  intros HL HJ v. destruct (HJ v) as (H0 & H1 & H2 & H3 & H4 & H5). specialize (HL v).
  split6; (eapply is_derive_ext_loc; [|eassumption]); (revert HL; apply filter_imp; intros t Ht; rewrite Ht; reflexivity).
Qed.

(** * the fibred shape *)
Definition fib (a11 a12 a21 a22 e11 e12 e21 e22 b0 b1 b2 b3 d : R) : M7 R :=
  mk7 (row a11 a12 0 0 0 b0 0) (row a21 a22 0 0 0 b1 0)
      (row 0 0 e11 e12 0 b2 0) (row 0 0 e21 e22 0 b3 0)
      (row (a21 * b0 - a11 * b1) (a22 * b0 - a12 * b1) (e21 * b2 - e11 * b3) (e22 * b2 - e12 * b3) 1 d 0)
      (row 0 0 0 0 0 1 0) (row 0 0 0 0 0 0 1).
Lemma sympl_fib a11 a12 a21 a22 e11 e12 e21 e22 b0 b1 b2 b3 d :
  a11 * a22 - a12 * a21 = 1 -> e11 * e22 - e12 * e21 = 1 ->
  symplectic_wrt S6plus (fib a11 a12 a21 a22 e11 e12 e21 e22 b0 b1 b2 b3 d).
Proof. intros H1 H2. unfold fib. entries; try ring; ring_simplify; lra. Qed.
Lemma affine_fib a11 a12 a21 a22 e11 e12 e21 e22 b0 b1 b2 b3 d : affine (fib a11 a12 a21 a22 e11 e12 e21 e22 b0 b1 b2 b3 d).
Proof. reflexivity. Qed.
(* whatever the blocks are, the (x,px) and (y,py) entries of J^T S J are the block determinants *)
Lemma fib_defect a11 a12 a21 a22 e11 e12 e21 e22 b0 b1 b2 b3 d :
  let M := fib a11 a12 a21 a22 e11 e12 e21 e22 b0 b1 b2 b3 d in
  let W := rmmul (transpose (lin6 M)) (rmmul S6plus (lin6 M)) in
  c1 (c0 W) = a11 * a22 - a12 * a21 /\ c3 (c2 W) = e11 * e22 - e12 * e21.
Proof. cbv zeta. unfold fib. sred. split; ring. Qed.

(** continuity gives a neighbourhood *)
Lemma locally_pos0 (f : R -> R) : ex_derive f 0 -> 0 < f 0 -> locally 0 (fun t => 0 < f t).
Proof.
  intros Hd Hp. apply ex_derive_continuous in Hd.
  apply (Hd (fun y => 0 < y)). apply (open_gt 0). exact Hp.
Qed.

(** * misalignment and tilt: offset_particle_set / offset_particle_unset are affine maps with symplectic matrices *)
Lemma sympl_plus_rot a : symplectic_wrt S6plus (rot a).
Proof. pose proof (sin2_cos2 a) as H. unfold Rsqr in H. unfold rot. entries; try ring; try (ring_simplify; lra). Qed.
Lemma sympl_plus_shift mx my : symplectic_wrt S6plus (shift mx my).
Proof. unfold shift. entries; ring. Qed.

Definition off_in (ox oy tilt : R) : M7 R := rmmul (rot tilt) (mis_entry ox oy).
Definition off_out (ox oy tilt : R) : M7 R := rmmul (mis_exit ox oy) (rot (- tilt)).
Lemma affine_off_in ox oy t : affine (off_in ox oy t).
Proof. apply affine_mul; [apply seventh_row_rot|apply seventh_row_shift]. Qed.
Lemma affine_off_out ox oy t : affine (off_out ox oy t).
Proof. apply affine_mul; [apply seventh_row_shift|apply seventh_row_rot]. Qed.
Lemma sympl_off_in ox oy t : symplectic_wrt S6plus (off_in ox oy t).
Proof. apply sympl_wrt_mul; [apply seventh_row_shift|apply sympl_plus_rot|apply sympl_plus_shift]. Qed.
Lemma sympl_off_out ox oy t : symplectic_wrt S6plus (off_out ox oy t).
Proof. apply sympl_wrt_mul; [apply seventh_row_rot|apply sympl_plus_shift|apply sympl_plus_rot]. Qed.

(** conjugation of any Jacobian by the offset maps *)
Lemma conj_off_has_jac (F : bpart -> bpart) ox oy tilt q J : affine J ->
  has_jac F (off_set ox oy tilt q) J ->
  has_jac (fun p => off_unset ox oy tilt (F (off_set ox oy tilt p))) q (rmmul (off_out ox oy tilt) (rmmul J (off_in ox oy tilt))).
Proof.
  intros HJ H.
  apply (has_jac_post (off_out ox oy tilt) (off_unset ox oy tilt) (fun p => F (off_set ox oy tilt p))).
  - apply affine_mul; [exact HJ|apply affine_off_in].
  - intros p. apply off_unset_matrix.
  - apply (has_jac_pre (off_in ox oy tilt) (off_set ox oy tilt) F); [apply affine_off_in|intros p; apply off_set_matrix|exact H].
Qed.
Lemma conj_off_sympl ox oy tilt J : affine J -> symplectic_wrt S6plus J ->
  symplectic_wrt S6plus (rmmul (off_out ox oy tilt) (rmmul J (off_in ox oy tilt))).
Proof.
  intros HA HJ. apply sympl_wrt_mul.
  - apply affine_mul; [exact HA|apply affine_off_in].
  - apply sympl_off_out.
  - apply sympl_wrt_mul; [apply affine_off_in|exact HJ|apply sympl_off_in].
Qed.

(** identity *)
Lemma sympl_plus_I : symplectic_wrt S6plus rI.
Proof. unfold rI, I7, e0, e1, e2, e3, e4, e5, e6. entries; ring. Qed.
Lemma bvec_I q : bvec q = rmvec rI (bvec q).
Proof. symmetry. apply (mvec_I RRth). Qed.
Lemma bline_0 q v : bline q v 0 = q.
Proof. destruct q as [x px y py z pz]. unfold bline; cbn [bx bpx by_ bpy bz bpz]. f_equal; ring. Qed.
Lemma bpart_eq p q : bx p = bx q -> bpx p = bpx q -> by_ p = by_ q -> bpy p = bpy q -> bz p = bz q -> bpz p = bpz q -> p = q.
Proof.
  destruct p as [x px y py z pz], q as [x' px' y' py' z' pz']. cbn [bx bpx by_ bpy bz bpz]. intros; subst; reflexivity.
Qed.

(** * transfer to Cheetah coordinates: N = d(z,pz)/d(tau,delta) has the longitudinal block [[-beta, *],[0, 1/beta]] (determinant -1) *)
Theorem bmadx_cheetah_sympl Jb Jc bin sin_ bout sout : bin <> 0 -> bout <> 0 -> symplectic_wrt S6plus Jb ->
  rmmul (lin6 (long_change (- bout) sout 0 (1 / bout))) (lin6 Jc) = rmmul (lin6 Jb) (lin6 (long_change (- bin) sin_ 0 (1 / bin))) ->
  symplectic Jc.
Proof.
  intros Hbi Hbo HJ Hrel.
  apply (sympl_change_coords Jc Jb (long_change (- bin) sin_ 0 (1 / bin)) (long_change (- bout) sout 0 (1 / bout)) Hrel).
  - apply coords_flip. apply cheetah_to_bmad_det. exact Hbi.
  - apply coords_flip. apply cheetah_to_bmad_det. exact Hbo.
  - exact HJ.
Qed.
