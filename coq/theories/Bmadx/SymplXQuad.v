(** C03, non-linear part -- the Bmad-X QUADRUPOLE (model: Bmadx/QuadX.v, written for C07) is symplectic at EVERY phase-space point.

    With eps := 0 one step of Quadrupole._track_bmadx is (QuadXFlow.quadx_step_eps0)
        (x,px) |-> A(pz) (x,px),  (y,py) |-> E(pz) (y,py),  z |-> z + Qx(pz)(x,px) + Qy(pz)(y,py) + lez(pz),  pz |-> pz
    with A = [[C, S/r], [-k S r, C]], k = k1/(1+pz), r = 1+pz, C = Cf k l, S = Sf k l (and -k for the y plane).  The 6x6 Jacobian at
    the point (x,px,y,py,z,pz) is therefore of the fibred shape [fib] of SymplXJac.v: blocks A, E; column d/dpz of the blocks applied to
    the transverse coordinates; z row = gradient of the quadratic forms.  What is proved:
      * [d_Cf_dk], [d_Sf_dk]: dC/dk = -l S/2, dS/dk = (l C - S)/(2k)                                      (k <> 0)
      * [quadx_step_has_jac]: the matrix [quadx_jac] IS the derivative of the coded step (eps := 0) along every direction, at every
        point with 1 + pz > 0, for every k1 <> 0, step length and reference momentum, wherever low_energy_z_correction is
        differentiable in pz (off its branch threshold; its derivative only enters the irrelevant entry dz'/dpz)
      * [pl_zu_ok], [pl_zpu_ok]: the gradient of the z quadratic form (coefficients c1, c2, c3 of the code) is exactly
        a21 b0 - a11 b1, a22 b0 - a12 b1: the generating-function condition (uses C^2 + k S^2 = 1)
      * [quadx_jac_sympl]: hence J^T S6plus J = S6plus
      * [quadx_bmad_has_jac], [quadx_bmad_sympl]: offset_particle_set ; num_steps steps ; offset_particle_unset: Jacobian
        (mis_exit rot(-tilt)) J (rot(tilt) mis_entry), symplectic; [quadx_cheetah_sympl]: in Cheetah coordinates w.r.t. S6
      * [quadx_eps_defect_partial]: with the coded eps = 2^-52 (sqrt(|k1|+eps)) the (x,px) entry of J^T S J is the block determinant
        1 -+ eps sx^2 (QuadXProofs.qc_det), not 1: the coded step is symplectic only up to eps. *)
From Coq Require Import Reals Lra Psatz.
From Coquelicot Require Import Coquelicot.
From Cheetah Require Import Base.Mat Base.RealAux Optics.Maps Optics.CS Optics.Sympl Optics.SymplProofs
  Bmadx.Coords Bmadx.DriftX Bmadx.Tdc Bmadx.QuadX Bmadx.QuadXProofs Bmadx.QuadXFlow Bmadx.SymplX Bmadx.SymplXJac.
Open Scope R_scope.

(** * derivatives of the cosine-like / sine-like pair with respect to the strength *)
Lemma locally_lt0 k : 0 < k -> locally k (fun u => 0 < u).
Proof. intros H. apply (open_gt 0). exact H. Qed.
Lemma locally_gt0 k : k < 0 -> locally k (fun u => u < 0).
Proof. intros H. apply (open_lt 0). exact H. Qed.

Lemma d_Cf_dk k l : k <> 0 -> is_derive (fun u => Cf u l) k (- l * Sf k l / 2).
Proof.
  intros Hk. destruct (Rlt_dec 0 k) as [Hp|Hn].
  - apply (is_derive_ext_loc (fun u => cos (sqrt u * l))).
    + generalize (locally_lt0 k Hp). apply filter_imp. intros u Hu. rewrite Cf_pos by exact Hu. reflexivity.
    + rewrite Sf_pos by exact Hp. pose proof (sqrt_pos_neq0 _ Hp) as Hs. auto_derive; [repeat split; first [assumption|exact I]|]. field. exact Hs.
  - assert (Hn' : k < 0) by lra.
    apply (is_derive_ext_loc (fun u => cosh (sqrt (- u) * l))).
    + generalize (locally_gt0 k Hn'). apply filter_imp. intros u Hu. rewrite Cf_neg by exact Hu. reflexivity.
    + rewrite Sf_neg by exact Hn'. assert (Hp : 0 < - k) by lra. pose proof (sqrt_pos_neq0 _ Hp) as Hs.
      unfold cosh, sinh. auto_derive; [repeat split; first [assumption|exact I]|]. field. exact Hs.
Qed.

Lemma d_Sf_dk k l : k <> 0 -> is_derive (fun u => Sf u l) k ((l * Cf k l - Sf k l) / (2 * k)).
Proof.
  intros Hk. destruct (Rlt_dec 0 k) as [Hp|Hn].
  - apply (is_derive_ext_loc (fun u => sin (sqrt u * l) / sqrt u)).
    + generalize (locally_lt0 k Hp). apply filter_imp. intros u Hu. rewrite Sf_pos by exact Hu. reflexivity.
    + rewrite Sf_pos, Cf_pos by exact Hp. pose proof (sqrt_pos_neq0 _ Hp) as Hs. pose proof (sqrt_sq _ Hp) as Hk2.
      auto_derive; [repeat split; first [assumption|exact I]|].
      set (s := sqrt k) in *. rewrite Hk2. field. exact Hs.
  - assert (Hn' : k < 0) by lra.
    apply (is_derive_ext_loc (fun u => sinh (sqrt (- u) * l) / sqrt (- u))).
    + generalize (locally_gt0 k Hn'). apply filter_imp. intros u Hu. rewrite Sf_neg by exact Hu. reflexivity.
    + rewrite Sf_neg, Cf_neg by exact Hn'. assert (Hp : 0 < - k) by lra. pose proof (sqrt_pos_neq0 _ Hp) as Hs. pose proof (sqrt_sq _ Hp) as Hk2.
      unfold cosh, sinh. auto_derive; [repeat split; first [assumption|exact I]|].
      set (s := sqrt (- k)) in *. replace k with (- (s * s)) by lra. field. exact Hs.
Qed.

(** * one plane: coefficients as functions of pz, their pz-derivatives, the derivative of the plane map along a line *)
Section Plane.
Variables (kap l : R).
Hypothesis Hk : kap <> 0.
Definition kq (p : R) : R := kap / (1 + p).
Definition Cq (p : R) : R := Cf (kq p) l.
Definition Sq (p : R) : R := Sf (kq p) l.
Definition dCq (p : R) : R := kq p * l * Sq p / (2 * (1 + p)).
Definition dSq (p : R) : R := - (l * Cq p - Sq p) / (2 * (1 + p)).

Lemma kq_nz p : 0 < 1 + p -> kq p <> 0.
Proof. intros H. unfold kq, Rdiv. apply Rmult_integral_contrapositive_currified; [exact Hk|apply Rinv_neq_0_compat; lra]. Qed.
Lemma d_kq p : 0 < 1 + p -> is_derive kq p (- kq p / (1 + p)).
Proof. intros H. unfold kq. auto_derive; [lra|]. field. lra. Qed.
Lemma d_Cq p : 0 < 1 + p -> is_derive Cq p (dCq p).
Proof.
  intros H. unfold Cq. evar_last.
  - apply (is_derive_comp (fun u => Cf u l) kq p); [apply d_Cf_dk, kq_nz, H|apply d_kq, H].
  - unfold scal, dCq, Sq; simpl. unfold mult; simpl. field. lra.
Qed.
Lemma d_Sq p : 0 < 1 + p -> is_derive Sq p (dSq p).
Proof.
  intros H. unfold Sq. evar_last.
  - apply (is_derive_comp (fun u => Sf u l) kq p); [apply d_Sf_dk, kq_nz, H|apply d_kq, H].
  - unfold scal, dSq, Sq, Cq; simpl. unfold mult; simpl. field. split; [lra|apply kq_nz, H].
Qed.
Lemma Cq_Sq_id p : Cq p * Cq p + kq p * Sq p * Sq p = 1.
Proof. apply Cf_Sf_id. Qed.

(** the action on one plane (u, pu) and its contribution to z, as functions of pz = p too *)
Definition pl_u (p u pu : R) : R := Cq p * u + Sq p / (1 + p) * pu.
Definition pl_pu (p u pu : R) : R := - kq p * Sq p * (1 + p) * u + Cq p * pu.
Definition pl_z (p u pu : R) : R :=
  - kq p * (l - Cq p * Sq p) / 4 * (u * u) + kq p * (Sq p * Sq p) / (2 * (1 + p)) * u * pu - (Cq p * Sq p + l) / (4 * ((1 + p) * (1 + p))) * (pu * pu).
(* d/dpz of the two rows, and the gradient of pl_z *)
Definition pl_b0 (p u pu : R) : R := u * dCq p + pu * (dSq p / (1 + p) - Sq p / ((1 + p) * (1 + p))).
Definition pl_b1 (p u pu : R) : R := u * (- kq p * (1 + p) * dSq p) + pu * dCq p.
Definition pl_zu (p u pu : R) : R := 2 * (- kq p * (l - Cq p * Sq p) / 4) * u + kq p * (Sq p * Sq p) / (2 * (1 + p)) * pu.
Definition pl_zpu (p u pu : R) : R := kq p * (Sq p * Sq p) / (2 * (1 + p)) * u + 2 * (- (Cq p * Sq p + l) / (4 * ((1 + p) * (1 + p)))) * pu.
Definition pl_zp (p u pu : R) : R :=
  let k := kq p in let r := 1 + p in let C := Cq p in let S := Sq p in let k' := - k / r in let C' := dCq p in let S' := dSq p in
  - (k' * (l - C * S) - k * (C' * S + C * S')) / 4 * (u * u)
  + (k' * (S * S) / (2 * r) + k * (2 * S * S') / (2 * r) - k * (S * S) / (2 * (r * r))) * u * pu
  + (- (C' * S + C * S') / (4 * (r * r)) + 2 * (C * S + l) / (4 * (r * r * r))) * (pu * pu).

Variables (p w u vu pu vpu : R).
Hypothesis Hp : 0 < 1 + p.

Ltac fin := 
  replace (p + 0 * w) with p by ring;
  change (fun x : R => Cq x) with Cq; change (fun x : R => Sq x) with Sq; change (fun x : R => kq x) with kq;
  rewrite ?(is_derive_unique _ _ _ (d_Cq p Hp)), ?(is_derive_unique _ _ _ (d_Sq p Hp)), ?(is_derive_unique _ _ _ (d_kq p Hp)).
Ltac side := replace (p + 0 * w) with p by ring;
  repeat (match goal with |- _ /\ _ => split end);
  first [exact I | lra | nra | (exists (dCq p); apply (d_Cq p Hp)) | (exists (dSq p); apply (d_Sq p Hp)) | (eexists; apply (d_kq p Hp))].

Lemma d_pl_u : is_derive (fun t => pl_u (p + t * w) (u + t * vu) (pu + t * vpu)) 0
   (Cq p * vu + Sq p / (1 + p) * vpu + w * pl_b0 p u pu).
Proof. unfold pl_u. auto_derive; [side|]. fin. unfold pl_b0. field. lra. Qed.
Lemma d_pl_pu : is_derive (fun t => pl_pu (p + t * w) (u + t * vu) (pu + t * vpu)) 0
   (- kq p * Sq p * (1 + p) * vu + Cq p * vpu + w * pl_b1 p u pu).
Proof. unfold pl_pu. auto_derive; [side|]. fin. unfold pl_b1. field. lra. Qed.
Lemma d_pl_z : is_derive (fun t => pl_z (p + t * w) (u + t * vu) (pu + t * vpu)) 0
   (pl_zu p u pu * vu + pl_zpu p u pu * vpu + w * pl_zp p u pu).
Proof. unfold pl_z. auto_derive; [side|]. fin. unfold pl_zu, pl_zpu, pl_zp. cbv zeta. field. lra. Qed.

(** the generating-function condition: the gradient of the z contribution is what symplecticity requires *)
Lemma pl_zu_ok : pl_zu p u pu = (- kq p * Sq p * (1 + p)) * pl_b0 p u pu - Cq p * pl_b1 p u pu.
Proof.
  pose proof (Cq_Sq_id p) as I. unfold pl_zu, pl_b0, pl_b1, dCq, dSq. set (C := Cq p) in *. set (S := Sq p) in *. set (k := kq p) in *. clearbody C S k.
  field_simplify_eq; [|lra]. apply Rminus_diag_uniq.
  match goal with |- ?d = 0 => replace d with (-4*k*l*u*(p+1)*(1 - (C*C + k*S*S))) by ring end. rewrite I. ring.
Qed.
Lemma pl_zpu_ok : pl_zpu p u pu = Cq p * pl_b0 p u pu - Sq p / (1 + p) * pl_b1 p u pu.
Proof.
  pose proof (Cq_Sq_id p) as I. unfold pl_zpu, pl_b0, pl_b1, dCq, dSq. set (C := Cq p) in *. set (S := Sq p) in *. set (k := kq p) in *. clearbody C S k.
  field_simplify_eq; [|lra]. apply Rminus_diag_uniq.
  match goal with |- ?d = 0 => replace d with (-4*l*pu*(1 - (C*C + k*S*S))) by ring end. rewrite I. ring.
Qed.
Lemma pl_det : Cq p * Cq p - Sq p / (1 + p) * (- kq p * Sq p * (1 + p)) = 1.
Proof. pose proof (Cq_Sq_id p) as I. field_simplify_eq; [|lra]. rewrite <- I. ring. Qed.
End Plane.

(** * the step (eps := 0) in plane form *)
Definition qmapP (k1 l : R) (lz : R -> R) (q : bpart) : bpart :=
  let p := bpz q in
  mkb (pl_u k1 l p (bx q) (bpx q)) (pl_pu k1 l p (bx q) (bpx q))
      (pl_u (- k1) l p (by_ q) (bpy q)) (pl_pu (- k1) l p (by_ q) (bpy q))
      (bz q + pl_z k1 l p (bx q) (bpx q) + pl_z (- k1) l p (by_ q) (bpy q) + lz p) p.

Lemma qflow_qmapP p0c m k1 l q : qflow p0c m (k1 / (1 + bpz q)) l q = qmapP k1 l (fun p => lez p p0c m l) q.
Proof.
  destruct q as [x px y py z pz]. unfold qflow, qmapP, pl_u, pl_pu, pl_z, zq, Cq, Sq, kq. cbn [bx bpx by_ bpy bz bpz].
  assert (E : - k1 / (1 + pz) = - (k1 / (1 + pz))) by (unfold Rdiv; ring). rewrite E.
  f_equal; unfold Rsqr, Rdiv; ring.
Qed.

(** the Jacobian of the step at the point q; [dl] = d lez / d pz *)
Definition quadx_jac (k1 l : R) (q : bpart) (dl : R) : M7 R :=
  let p := bpz q in let x := bx q in let px := bpx q in let y := by_ q in let py := bpy q in
  mk7 (row (Cq k1 l p) (Sq k1 l p / (1 + p)) 0 0 0 (pl_b0 k1 l p x px) 0)
      (row (- kq k1 p * Sq k1 l p * (1 + p)) (Cq k1 l p) 0 0 0 (pl_b1 k1 l p x px) 0)
      (row 0 0 (Cq (- k1) l p) (Sq (- k1) l p / (1 + p)) 0 (pl_b0 (- k1) l p y py) 0)
      (row 0 0 (- kq (- k1) p * Sq (- k1) l p * (1 + p)) (Cq (- k1) l p) 0 (pl_b1 (- k1) l p y py) 0)
      (row (pl_zu k1 l p x px) (pl_zpu k1 l p x px) (pl_zu (- k1) l p y py) (pl_zpu (- k1) l p y py) 1
           (pl_zp k1 l p x px + pl_zp (- k1) l p y py + dl) 0)
      (row 0 0 0 0 0 1 0) (row 0 0 0 0 0 0 1).
Lemma affine_quadx_jac k1 l q dl : affine (quadx_jac k1 l q dl).
Proof. reflexivity. Qed.

Lemma qmapP_has_jac k1 l lz q dl : k1 <> 0 -> 0 < 1 + bpz q -> is_derive lz (bpz q) dl ->
  has_jac (qmapP k1 l lz) q (quadx_jac k1 l q dl).
Proof.
  intros Hk Hp Hl v. destruct q as [x px y py z pz], v as [vx vpx vy vpy vz w]. cbn [bpz] in Hp, Hl.
  assert (Hk' : - k1 <> 0) by lra.
  assert (Hl' : is_derive lz (pz + 0 * w) dl) by (replace (pz + 0 * w) with pz by ring; exact Hl).
  unfold qmapP, bline, quadx_jac, dot6, row. cbn [bx bpx by_ bpy bz bpz c0 c1 c2 c3 c4 c5 c6].
  split6.
  - evar_last; [apply (d_pl_u k1 l Hk pz w x vx px vpx Hp)|ring].
  - evar_last; [apply (d_pl_pu k1 l Hk pz w x vx px vpx Hp)|ring].
  - evar_last; [apply (d_pl_u (- k1) l Hk' pz w y vy py vpy Hp)|ring].
  - evar_last; [apply (d_pl_pu (- k1) l Hk' pz w y vy py vpy Hp)|ring].
  - evar_last.
    + apply @is_derive_plus; [apply @is_derive_plus; [apply @is_derive_plus|]|].
      * instantiate (1 := vz). auto_derive; [exact I|ring].
      * apply (d_pl_z k1 l Hk pz w x vx px vpx Hp).
      * apply (d_pl_z (- k1) l Hk' pz w y vy py vpy Hp).
      * apply (is_derive_comp lz (fun t => pz + t * w) 0 dl w Hl'). auto_derive; [exact I|ring].
    + unfold plus, scal; simpl. unfold mult; simpl. ring.
  - auto_derive; [exact I|ring].
Qed.

(** the coded step with eps := 0 *)
Theorem quadx_step_has_jac Lf k1 l p0c m q dl : Lf <> 0 -> k1 <> 0 -> 0 < 1 + bpz q ->
  is_derive (fun p => lez p p0c m l) (bpz q) dl ->
  has_jac (quadx_step 0 Lf k1 l p0c m) q (quadx_jac k1 l q dl).
Proof.
  intros HL Hk Hp Hl. apply (has_jac_ext_loc (qmapP k1 l (fun p => lez p p0c m l))); [|apply qmapP_has_jac; assumption].
  intros v. generalize (locally_pos0 (fun t => 1 + (bpz q + t * bpz v))). intros Hloc.
  assert (Hl0 : locally 0 (fun t => 0 < 1 + (bpz q + t * bpz v))).
  { apply Hloc; [auto_derive; exact I | lra]. }
  revert Hl0. apply filter_imp. intros t Ht.
  rewrite quadx_step_eps0 by (try assumption; exact Ht). rewrite qflow_qmapP. reflexivity.
Qed.

(** the Jacobian is of the fibred shape, and symplectic *)
Lemma quadx_jac_fib k1 l q dl : 0 < 1 + bpz q ->
  let p := bpz q in let x := bx q in let px := bpx q in let y := by_ q in let py := bpy q in
  quadx_jac k1 l q dl =
  fib (Cq k1 l p) (Sq k1 l p / (1 + p)) (- kq k1 p * Sq k1 l p * (1 + p)) (Cq k1 l p)
      (Cq (- k1) l p) (Sq (- k1) l p / (1 + p)) (- kq (- k1) p * Sq (- k1) l p * (1 + p)) (Cq (- k1) l p)
      (pl_b0 k1 l p x px) (pl_b1 k1 l p x px) (pl_b0 (- k1) l p y py) (pl_b1 (- k1) l p y py)
      (pl_zp k1 l p x px + pl_zp (- k1) l p y py + dl).
Proof.
  intros Hp. cbv zeta. unfold quadx_jac, fib. cbv zeta.
  rewrite (pl_zu_ok k1 l (bpz q) (bx q) (bpx q) Hp), (pl_zpu_ok k1 l (bpz q) (bx q) (bpx q) Hp),
          (pl_zu_ok (- k1) l (bpz q) (by_ q) (bpy q) Hp), (pl_zpu_ok (- k1) l (bpz q) (by_ q) (bpy q) Hp).
  reflexivity.
Qed.

Theorem quadx_jac_sympl k1 l q dl : 0 < 1 + bpz q -> symplectic_wrt S6plus (quadx_jac k1 l q dl).
Proof.
  intros Hp. rewrite (quadx_jac_fib k1 l q dl Hp). cbv zeta.
  apply sympl_fib; apply pl_det; exact Hp.
Qed.

(** * the element: offset_particle_set ; num_steps steps of length L/num_steps ; offset_particle_unset *)
Section Element.
Variables (n : nat) (L k1 ox oy tilt p0c m : R).
Hypotheses (HL : L <> 0) (Hk : k1 <> 0) (Hn : n <> O).

Definition quadx_elem_jac (q : bpart) (dl : R) : M7 R :=
  rmmul (off_out ox oy tilt) (rmmul (quadx_jac k1 L (off_set ox oy tilt q) dl) (off_in ox oy tilt)).

(* the num_steps steps are one step of the whole length (exact flow, QuadXFlow.quadx_iter_eps0) *)
Lemma quadx_iter_has_jac q dl : 0 < 1 + bpz q -> is_derive (fun p => lez p p0c m L) (bpz q) dl ->
  has_jac (iter n (quadx_step 0 L k1 (L / INR n) p0c m)) q (quadx_jac k1 L q dl).
Proof.
  intros Hp Hl. apply (has_jac_ext_loc (qmapP k1 L (fun p => lez p p0c m L))); [|apply qmapP_has_jac; assumption].
  intros v. assert (Hl0 : locally 0 (fun t => 0 < 1 + (bpz q + t * bpz v))).
  { apply (locally_pos0 (fun t => 1 + (bpz q + t * bpz v))); [auto_derive; exact I | lra]. }
  revert Hl0. apply filter_imp. intros t Ht.
  rewrite (quadx_iter_eps0 k1 p0c m Hk L (L / INR n) n _ HL) by exact Ht.
  replace (INR n * (L / INR n)) with L by (field; apply not_0_INR, Hn).
  rewrite qflow_qmapP. reflexivity.
Qed.

Theorem quadx_bmad_has_jac q dl : 0 < 1 + bpz q -> is_derive (fun p => lez p p0c m L) (bpz q) dl ->
  has_jac (quadx_bmad 0 n L k1 ox oy tilt p0c m) q (quadx_elem_jac q dl).
Proof.
  intros Hp Hl. unfold quadx_bmad, quadx_elem_jac.
  apply (conj_off_has_jac (iter n (quadx_step 0 L k1 (L / INR n) p0c m))); [apply affine_quadx_jac|].
  apply quadx_iter_has_jac; rewrite ?off_set_pz; assumption.
Qed.

Theorem quadx_bmad_sympl q dl : 0 < 1 + bpz q -> symplectic_wrt S6plus (quadx_elem_jac q dl).
Proof.
  intros Hp. unfold quadx_elem_jac. apply conj_off_sympl; [apply affine_quadx_jac|].
  apply quadx_jac_sympl. rewrite off_set_pz. exact Hp.
Qed.

(** in Cheetah coordinates: any matrix Jc tied to the Bmad Jacobian by the chain rule N_out Jc = Jb N_in, where N_in, N_out are
    the Jacobians of (tau,delta) -> (z,pz) at the entrance / exit point (blocks [[-beta, *],[0, 1/beta]], determinant -1), is
    symplectic w.r.t. cheetah's S6 = diag(J2,J2,-J2) *)
Theorem quadx_cheetah_sympl q dl Jc bin sin_ bout sout : 0 < 1 + bpz q -> bin <> 0 -> bout <> 0 ->
  rmmul (lin6 (long_change (- bout) sout 0 (1 / bout))) (lin6 Jc)
  = rmmul (lin6 (quadx_elem_jac q dl)) (lin6 (long_change (- bin) sin_ 0 (1 / bin))) ->
  symplectic Jc.
Proof.
  intros Hp Hbi Hbo Hrel.
  apply (sympl_change_coords Jc (quadx_elem_jac q dl) (long_change (- bin) sin_ 0 (1 / bin)) (long_change (- bout) sout 0 (1 / bout)) Hrel).
  - apply coords_flip. apply cheetah_to_bmad_det. exact Hbi.
  - apply coords_flip. apply cheetah_to_bmad_det. exact Hbo.
  - apply quadx_bmad_sympl. exact Hp.
Qed.
End Element.

(** * the hypothesis on low_energy_z_correction holds off its branch threshold (non-vacuity) *)
Lemma locally_pos_at (f : R -> R) x : ex_derive f x -> 0 < f x -> locally x (fun t => 0 < f t).
Proof.
  intros Hd Hp. apply ex_derive_continuous in Hd.
  apply (Hd (fun y => 0 < y)). apply (open_gt 0). exact Hp.
Qed.

Lemma lt_of_pos1 (a b : R) : 0 < 1 * (a - b) -> b < a. Proof. lra. Qed.
Lemma le_of_posm1 (a b : R) : 0 < -1 * (a - b) -> a <= b. Proof. lra. Qed.

(** low_energy_z_correction is differentiable in pz away from its branch threshold *)
Lemma lez_ex_derive p0c m l pz : 0 < m -> 0 < p0c -> 0 < 1 + pz ->
  lez_eval pz p0c m <> lez_thr * lez_etot p0c m -> ex_derive (fun p => lez p p0c m l) pz.
Proof.
  intros Hm Hp Hr Hne.
  assert (Hev : forall c, ex_derive (fun p => c * (lez_thr * lez_etot p0c m - lez_eval p p0c m)) pz).
  { intros c. unfold lez_eval, Rsqr. auto_derive. exact I. }
  destruct (Rlt_dec (lez_eval pz p0c m) (lez_thr * lez_etot p0c m)) as [Hlt|Hge].
  - apply (ex_derive_ext_loc (fun p => lez_series p p0c m l)).
    + assert (L : locally pz (fun p : R => 0 < 1 * (lez_thr * lez_etot p0c m - lez_eval p p0c m))) by (apply locally_pos_at; [apply Hev|lra]).
      revert L. apply filter_imp. intros p Hp'. unfold lez. rewrite lez_small_true by (apply lt_of_pos1; exact Hp'). reflexivity.
    + unfold lez_series, Rsqr. cbv zeta. auto_derive. exact I.
  - assert (Hgt : lez_thr * lez_etot p0c m < lez_eval pz p0c m) by lra.
    apply (ex_derive_ext_loc (fun p => lez_exact p p0c m l)).
    + assert (L : locally pz (fun p : R => 0 < -1 * (lez_thr * lez_etot p0c m - lez_eval p p0c m))) by (apply locally_pos_at; [apply Hev|lra]).
      revert L. apply filter_imp. intros p Hp'. unfold lez. rewrite lez_small_false by (apply le_of_posm1; exact Hp'). reflexivity.
    + unfold lez_exact, lez_beta, lez_beta0, Rsqr. auto_derive.
      assert (0 < m * m) by nra. pose proof (Rle_0_sqr ((1 + pz) * p0c)) as Q1. pose proof (Rle_0_sqr p0c) as Q2. unfold Rsqr in Q1, Q2.
      assert (0 < (1 + pz) * p0c * ((1 + pz) * p0c) + m * m) by lra.
      assert (0 < p0c * p0c + m * m) by lra.
      assert (0 < sqrt (p0c * p0c + m * m)) by (apply sqrt_lt_R0; assumption).
      assert (0 < sqrt ((1 + pz) * p0c * ((1 + pz) * p0c) + m * m)) by (apply sqrt_lt_R0; assumption).
      repeat split; try assumption; try lra.
Qed.

(* non-vacuity: at pz = 0 (and near it) the series branch is taken and the hypothesis of the Jacobian theorems holds *)
Lemma lez_ex_derive_0 p0c m l : 0 < m -> 0 < p0c -> ex_derive (fun p => lez p p0c m l) 0.
Proof.
  intros Hm Hp. apply lez_ex_derive; try assumption; try lra.
  unfold lez_eval, lez_thr, lez_etot, Rsqr. rewrite Rmult_0_r, Rmult_0_l, Rmult_0_r.
  assert (0 < sqrt (p0c * p0c + m * m)) by (apply sqrt_lt_R0; nra). lra.
Qed.

(** everything together for one step: at every point with 1 + pz > 0 off the branch threshold of low_energy_z_correction the coded step
    (eps := 0) has a Jacobian, it is [quadx_jac], and it is symplectic *)
Theorem quadx_step_sympl_everywhere Lf k1 l p0c m q : 0 < m -> 0 < p0c -> Lf <> 0 -> k1 <> 0 -> 0 < 1 + bpz q ->
  lez_eval (bpz q) p0c m <> lez_thr * lez_etot p0c m ->
  exists dl, has_jac (quadx_step 0 Lf k1 l p0c m) q (quadx_jac k1 l q dl) /\ symplectic_wrt S6plus (quadx_jac k1 l q dl).
Proof.
  intros Hm Hp HL Hk Hr Hne. destruct (lez_ex_derive p0c m l (bpz q) Hm Hp Hr Hne) as [dl Hdl].
  exists dl. split; [apply quadx_step_has_jac; assumption|apply quadx_jac_sympl; exact Hr].
Qed.
Lemma quadx_nonvacuous Lf k1 l p0c m x px y py z : 0 < m -> 0 < p0c -> Lf <> 0 -> k1 <> 0 ->
  exists dl, has_jac (quadx_step 0 Lf k1 l p0c m) (mkb x px y py z 0) (quadx_jac k1 l (mkb x px y py z 0) dl)
             /\ symplectic_wrt S6plus (quadx_jac k1 l (mkb x px y py z 0) dl).
Proof.
  intros Hm Hp HL Hk. destruct (lez_ex_derive_0 p0c m l Hm Hp) as [dl Hdl].
  exists dl. split; [apply quadx_step_has_jac; try assumption; cbn [bpz]; lra|apply quadx_jac_sympl; cbn [bpz]; lra].
Qed.

(** * the coded eps = 2^-52: the step is linear in (x,px) with the 2x2 block below, whose determinant is 1 -+ eps sx^2; any Jacobian with
      that block (fibred shape) has that number, not 1, in the (x,px) entry of J^T S J.  PARTIAL: symplectic up to eps only. *)
Theorem quadx_eps_defect_partial eps kc len relp e11 e12 e21 e22 b0 b1 b2 b3 d : 0 <= eps -> kc <> 0 \/ 0 < eps -> relp <> 0 ->
  let f := le0 kc in
  let M := fib (qc_a11 f eps kc len) (qc_a12 f eps kc len relp) (qc_a21 f eps kc len relp) (qc_a22 f eps kc len) e11 e12 e21 e22 b0 b1 b2 b3 d in
  c1 (c0 (rmmul (transpose (lin6 M)) (rmmul S6plus (lin6 M)))) = 1 - (if Rle_dec kc 0 then eps else - eps) * (qc_sx f eps kc len)².
Proof.
  intros He Hnz Hr. cbv zeta.
  destruct (fib_defect (qc_a11 (le0 kc) eps kc len) (qc_a12 (le0 kc) eps kc len relp) (qc_a21 (le0 kc) eps kc len relp) (qc_a22 (le0 kc) eps kc len)
                       e11 e12 e21 e22 b0 b1 b2 b3 d) as [D _]. cbv zeta in D. rewrite D.
  apply (qc_det eps kc len relp He Hnz Hr).
Qed.
