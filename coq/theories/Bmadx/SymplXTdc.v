(** C03, non-linear part -- the RF kick of TransverseDeflectingCavity._track_bmadx (model: Bmadx/Tdc.v) is a symplectic kick.

    In the canonical pairs (x,px), (zeta, eps) with zeta = z/beta(pz) (= -c t) and eps = E/p0c (dz ^ dpz = dzeta ^ deps: [long_det1],
    [d_eps_dpz]) the coded kick is
        px' = px + dV/dx,   eps' = eps + dV/dzeta,   x' = x, zeta' = zeta,     V(x,zeta) = volt * x * sin(2 pi (phi0 + zeta f/c))
    ([tdc_kick_canonical]), the gradient of ONE potential: its Jacobian is the [kick] matrix with the symmetric block
    [[0, volt krf cos psi],[volt krf cos psi, -volt krf^2 x sin psi]] ([tdc_cross_derivatives]), hence symplectic ([tdc_kick_sympl]);
    any Jacobian Jb in (z,pz) tied to it by the chain rule N_out Jb = K N_in is symplectic w.r.t. S6plus ([tdc_bmad_sympl]). *)
From Coq Require Import Reals Lra Psatz.
From Coquelicot Require Import Coquelicot.
From Cheetah Require Import Base.Mat Optics.Maps Optics.Sympl Optics.SymplProofs Bmadx.Coords Bmadx.CoordsProofs Bmadx.DriftX Bmadx.Tdc
  Bmadx.SymplX.
Open Scope R_scope.

Ltac eqR := match goal with |- ?a = ?b => change (@eq R a b) end.

Section Kick.
Variables (V phi0 f cl p0c m : R).
Hypotheses (Hp0 : 0 < p0c) (Hm : 0 < m) (Hcl : cl <> 0).

Definition t_zeta (z pz : R) : R := z / k_beta p0c m pz.
Definition t_eps (pz : R) : R := k_Eold p0c m pz / p0c.
Definition t_psi (zeta : R) : R := 2 * PI * (phi0 + zeta * f / cl).
Definition t_pot (x zeta : R) : R := k_volt V p0c * x * sin (t_psi zeta).

Lemma t_beta_pos pz : 0 < 1 + pz -> 0 < k_beta p0c m pz.
Proof.
  intros HP. unfold k_beta. apply Rdiv_lt_0_compat; [apply Rmult_lt_0_compat; assumption|apply en_pos; assumption].
Qed.
Lemma t_phase z pz : 0 < 1 + pz -> k_phase phi0 f cl p0c m z pz = t_psi (t_zeta z pz).
Proof.
  intros HP. pose proof (t_beta_pos pz HP). unfold k_phase, k_time, t_psi, t_zeta. f_equal. field. split; first [exact Hcl|lra].
Qed.
Lemma t_Eold pz : 0 < 1 + pz -> k_Eold p0c m pz = sqrt (((1 + pz) * p0c)² + m²).
Proof.
  intros HP. assert (0 < (1 + pz) * p0c) by (apply Rmult_lt_0_compat; assumption).
  pose proof (en_pos ((1 + pz) * p0c) m Hm). unfold k_Eold, k_beta. field. lra.
Qed.

(** the kick in canonical variables *)
Theorem tdc_kick_canonical q : 0 < 1 + bpz q -> m < k_Enew V phi0 f cl p0c m (bx q) (bz q) (bpz q) ->
  let q' := tdc_kick V phi0 f cl p0c m q in
  let zeta := t_zeta (bz q) (bpz q) in
  bx q' = bx q /\ by_ q' = by_ q /\ bpy q' = bpy q /\
  bpx q' = bpx q + k_volt V p0c * sin (t_psi zeta) /\
  t_eps (bpz q') = t_eps (bpz q) + k_volt V p0c * k_krf f cl * bx q * cos (t_psi zeta) /\
  t_zeta (bz q') (bpz q') = zeta /\ 0 < 1 + bpz q'.
Proof.
  intros HP HE. destruct q as [x px y py z pz]. cbn [bx bpx by_ bpy bz bpz] in *. cbv zeta.
  unfold tdc_kick. cbn [bx bpx by_ bpy bz bpz].
  rewrite (t_phase z pz HP).
  set (En := k_Enew V phi0 f cl p0c m x z pz) in *.
  set (pc := k_pc V phi0 f cl p0c m x z pz).
  assert (Hpc2 : pc * pc = En * En - m * m). { unfold pc, k_pc. fold En. apply sqrt_sqrt. unfold Rsqr. nra. }
  assert (Hpc : 0 < pc). { unfold pc, k_pc. fold En. apply sqrt_lt_R0. unfold Rsqr. nra. }
  assert (H1 : 1 + (pc - p0c) / p0c = pc / p0c) by (field; lra).
  assert (HP' : 0 < 1 + (pc - p0c) / p0c) by (rewrite H1; apply Rdiv_lt_0_compat; assumption).
  assert (Hroot : sqrt (((1 + (pc - p0c) / p0c) * p0c)² + m²) = En).
  { replace ((1 + (pc - p0c) / p0c) * p0c) with pc by (field; lra). unfold Rsqr. rewrite Hpc2.
    replace (En * En - m * m + m * m) with (En * En) by ring. apply sqrt_square. lra. }
  assert (Hb' : k_beta p0c m ((pc - p0c) / p0c) = pc / En).
  { unfold k_beta. rewrite Hroot. field. split; lra. }
  pose proof (t_beta_pos pz HP) as Hb.
  repeat split; try reflexivity.
  - unfold t_eps. rewrite (t_Eold _ HP'), Hroot. unfold En at 1, k_Enew. rewrite (t_phase z pz HP). field. lra.
  - unfold t_zeta. rewrite Hb'. field. repeat split; lra.
  - exact HP'.
Qed.

(** the two kicks are the partial derivatives of one potential, and the cross derivatives agree *)
Theorem tdc_cross_derivatives x zeta :
  is_derive (fun u => t_pot u zeta) x (k_volt V p0c * sin (t_psi zeta)) /\
  is_derive (fun s => t_pot x s) zeta (k_volt V p0c * k_krf f cl * x * cos (t_psi zeta)) /\
  is_derive (fun s => k_volt V p0c * sin (t_psi s)) zeta (k_volt V p0c * k_krf f cl * cos (t_psi zeta)) /\
  is_derive (fun u => k_volt V p0c * k_krf f cl * u * cos (t_psi zeta)) x (k_volt V p0c * k_krf f cl * cos (t_psi zeta)) /\
  is_derive (fun s => k_volt V p0c * k_krf f cl * x * cos (t_psi s)) zeta (- (k_volt V p0c * k_krf f cl * k_krf f cl * x * sin (t_psi zeta))).
Proof.
  unfold t_pot, t_psi, k_krf.
  split; [auto_derive; [exact I|eqR; ring]|]. split; [auto_derive; [exact I|eqR; unfold Rdiv; ring]|].
  split; [auto_derive; [exact I|eqR; unfold Rdiv; ring]|]. split; [auto_derive; [exact I|eqR; ring]|].
  auto_derive; [exact I|eqR; unfold Rdiv; ring].
Qed.

(** d eps / d pz = beta: the change (z,pz) -> (zeta,eps) has the longitudinal block [[1/beta, *],[0, beta]], determinant 1 *)
Lemma d_eps_dpz pz : 0 < 1 + pz -> is_derive (fun p => sqrt (((1 + p) * p0c)² + m²) / p0c) pz (k_beta p0c m pz).
Proof.
  intros HP. assert (0 < (1 + pz) * p0c) by (apply Rmult_lt_0_compat; assumption).
  pose proof (en_pos ((1 + pz) * p0c) m Hm) as He. unfold k_beta, Rsqr in *. auto_derive.
  - repeat split; try exact I; nra.
  - set (s := sqrt _) in *. field. split; lra.
Qed.
End Kick.

(** a longitudinal block of determinant +1 keeps the all-positive form *)
Lemma long_det1 n11 n12 n21 n22 : n11 * n22 - n12 * n21 = 1 -> symplectic_wrt S6plus (long_change n11 n12 n21 n22).
Proof. intros H. unfold long_change. entries; try ring; ring_simplify; lra. Qed.

(** Jacobian of the kick in (x,px,y,py,zeta,eps) *)
Definition tdc_K (volt krf x psi : R) : M7 R := kick 0 0 (volt * krf * cos psi) 0 0 (- (volt * krf * krf * x * sin psi)).
Theorem tdc_kick_sympl volt krf x psi : symplectic_wrt S6plus (tdc_K volt krf x psi).
Proof. apply sympl_kick. Qed.

(* change of coordinates within the all-positive form *)
Lemma sympl_change_coords_plus Jb K Nin Nout :
  rmmul (lin6 Nout) (lin6 Jb) = rmmul (lin6 K) (lin6 Nin) ->
  symplectic_wrt S6plus Nin -> symplectic_wrt S6plus Nout -> symplectic_wrt S6plus K -> symplectic_wrt S6plus Jb.
Proof.
  intros Hrel Hin Hout Hb. unfold symplectic_wrt in *.
  set (c := lin6 Jb) in *. set (b := lin6 K) in *. set (ni := lin6 Nin) in *. set (no := lin6 Nout) in *.
  transitivity (rmmul (transpose c) (rmmul (rmmul (transpose no) (rmmul S6plus no)) c)); [rewrite Hout; reflexivity|].
  rewrite (mmul_assoc RRth (transpose no) (rmmul S6plus no) c), (mmul_assoc RRth S6plus no c).
  rewrite <- (mmul_assoc RRth (transpose c) (transpose no)).
  rewrite <- (transpose_mmul RRth no c). rewrite Hrel.
  rewrite (transpose_mmul RRth b ni), (mmul_assoc RRth (transpose ni) (transpose b)).
  rewrite <- (mmul_assoc RRth S6plus b ni).
  rewrite <- (mmul_assoc RRth (transpose b) (rmmul S6plus b) ni).
  rewrite Hb. exact Hin.
Qed.

(** in Bmad coordinates: N = d(zeta,eps)/d(z,pz) = [[1/beta, *],[0, beta]] at the entrance (beta_in) and exit (beta_out) point *)
Theorem tdc_bmad_sympl volt krf x psi Jb bin sin_ bout sout : bin <> 0 -> bout <> 0 ->
  rmmul (lin6 (long_change (1 / bout) sout 0 bout)) (lin6 Jb)
  = rmmul (lin6 (tdc_K volt krf x psi)) (lin6 (long_change (1 / bin) sin_ 0 bin)) ->
  symplectic_wrt S6plus Jb.
Proof.
  intros Hbi Hbo Hrel.
  apply (sympl_change_coords_plus Jb (tdc_K volt krf x psi) (long_change (1 / bin) sin_ 0 bin) (long_change (1 / bout) sout 0 bout) Hrel).
  - apply long_det1. field. exact Hbi.
  - apply long_det1. field. exact Hbo.
  - apply tdc_kick_sympl.
Qed.
