(** Model of TransverseDeflectingCavity._track_bmadx (accelerator/transverse_deflecting_cavity.py:131-215) in Bmad
    coordinates: offset_particle_set ; half drift ; RF kick ; half drift ; offset_particle_unset.  Definitions only. *)
From Coq Require Import Reals.
From Cheetah Require Import Bmadx.Coords Bmadx.DriftX.
Open Scope R_scope.

(** bmadx.offset_particle_set / unset (utils/bmadx.py:116-179) *)
Definition off_set (ox oy tilt : R) (q : bpart) : bpart :=
  let s := sin tilt in let c := cos tilt in
  let xi := bx q - ox in let yi := by_ q - oy in
  mkb (xi * c + yi * s) (bpx q * c + bpy q * s) (- xi * s + yi * c) (- bpx q * s + bpy q * c) (bz q) (bpz q).
Definition off_unset (ox oy tilt : R) (q : bpart) : bpart :=
  let s := sin tilt in let c := cos tilt in
  mkb (bx q * c - by_ q * s + ox) (bpx q * c - bpy q * s) (bx q * s + by_ q * c + oy) (bpx q * s + bpy q * c) (bz q) (bpz q).

(** the kick between the two half drifts; [cl] = speed_of_light *)
Section Kick.
Variables (V phi0 f cl p0c m : R).
Definition k_beta (pz : R) : R := (1 + pz) * p0c / sqrt (((1 + pz) * p0c)² + m²).      (* beta_old, also particle_rf_time's beta *)
Definition k_time (z pz : R) : R := - z / (k_beta pz * cl).                              (* particle_rf_time *)
Definition k_phase (z pz : R) : R := 2 * PI * (phi0 - k_time z pz * f).
Definition k_volt : R := V / p0c.
Definition k_krf : R := 2 * PI * f / cl.
Definition k_Eold (pz : R) : R := (1 + pz) * p0c / k_beta pz.
Definition k_Enew (x z pz : R) : R := k_Eold pz + k_volt * cos (k_phase z pz) * k_krf * x * p0c.
Definition k_pc (x z pz : R) : R := sqrt ((k_Enew x z pz)² - m²).
Definition tdc_kick (q : bpart) : bpart :=
  mkb (bx q) (bpx q + k_volt * sin (k_phase (bz q) (bpz q))) (by_ q) (bpy q)
      (bz q * (k_pc (bx q) (bz q) (bpz q) / k_Enew (bx q) (bz q) (bpz q)) / k_beta (bpz q))
      ((k_pc (bx q) (bz q) (bpz q) - p0c) / p0c).
End Kick.

Definition tdc_bmad (L V phi0 f cl ox oy tilt p0c m : R) (q : bpart) : bpart :=
  off_unset ox oy tilt (driftx (L / 2) p0c m (tdc_kick V phi0 f cl p0c m (driftx (L / 2) p0c m (off_set ox oy tilt q)))).
