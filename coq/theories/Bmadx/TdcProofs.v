(** A transverse deflecting cavity at zero voltage is exactly a Bmad-X drift (model: Tdc.v). *)
From Coq Require Import Reals Lra.
From Cheetah Require Import Bmadx.Coords Bmadx.CoordsProofs Bmadx.DriftX Bmadx.DriftXProofs Bmadx.Tdc.
Open Scope R_scope.

Section TdcOff.
Variables (phi0 f cl p0c m : R).
Hypotheses (Hp0 : 0 < p0c) (Hm : 0 < m).

(** at V = 0 the kick is the identity on every forward-moving particle *)
Lemma tdc_kick_off q : 0 < 1 + bpz q -> tdc_kick 0 phi0 f cl p0c m q = q.
Proof.
  intros HP. destruct q as [x px y py z pz]; simpl in *. unfold tdc_kick; simpl.
  assert (Pp : 0 < (1 + pz) * p0c) by (apply Rmult_lt_0_compat; assumption).
  assert (He : 0 < sqrt (((1 + pz) * p0c)² + m²)) by (apply en_pos; assumption).
  assert (Kb : 0 < k_beta p0c m pz) by (unfold k_beta; apply Rdiv_lt_0_compat; assumption).
  assert (Eo : k_Eold p0c m pz = sqrt (((1 + pz) * p0c)² + m²)) by (unfold k_Eold, k_beta; field; lra).
  assert (En : k_Enew 0 phi0 f cl p0c m x z pz = sqrt (((1 + pz) * p0c)² + m²)).
  { unfold k_Enew, k_volt. rewrite Eo. unfold Rdiv. ring. }
  assert (Pc : k_pc 0 phi0 f cl p0c m x z pz = (1 + pz) * p0c).
  { unfold k_pc. rewrite En. apply mom_of_energy. assumption. }
  rewrite Pc, En. unfold k_volt. f_equal.
  - unfold Rdiv. ring.
  - unfold k_beta. field. lra.
  - field. lra.
Qed.

(* the drift commutes with a misalignment and a roll about the axis *)
Lemma driftx_offset L ox oy tilt q :
  off_unset ox oy tilt (driftx L p0c m (off_set ox oy tilt q)) = driftx L p0c m q.
Proof.
  destruct q as [x px y py z pz]. unfold off_unset, off_set, driftx; simpl.
  pose proof (sin2_cos2 tilt) as SC. unfold Rsqr in SC.
  set (s := sin tilt) in *. set (c := cos tilt) in *.
  assert (Q : dr_Pxy2 (px * c + py * s) (- px * s + py * c) pz = dr_Pxy2 px py pz).
  { unfold dr_Pxy2, dr_Px, Rsqr, Rdiv.
    replace ((px * c + py * s) * / dr_P pz * ((px * c + py * s) * / dr_P pz) + (- px * s + py * c) * / dr_P pz * ((- px * s + py * c) * / dr_P pz))
      with ((px * px + py * py) * (s * s + c * c) * (/ dr_P pz * / dr_P pz)) by ring.
    rewrite SC. ring. }
  assert (Pl : dr_Pl (px * c + py * s) (- px * s + py * c) pz = dr_Pl px py pz) by (unfold dr_Pl; rewrite Q; reflexivity).
  f_equal.
  - unfold dr_x. rewrite Pl. unfold dr_Px, Rdiv.
    replace ((x - ox) * c + (y - oy) * s + L * ((px * c + py * s) * / dr_P pz) * / dr_Pl px py pz) with
      (((x - ox) + L * (px * / dr_P pz) * / dr_Pl px py pz) * c + ((y - oy) + L * (py * / dr_P pz) * / dr_Pl px py pz) * s) by ring.
    unfold dr_y. rewrite Pl. unfold dr_Px, Rdiv.
    replace (- (x - ox) * s + (y - oy) * c + L * ((- px * s + py * c) * / dr_P pz) * / dr_Pl px py pz) with
      (- ((x - ox) + L * (px * / dr_P pz) * / dr_Pl px py pz) * s + ((y - oy) + L * (py * / dr_P pz) * / dr_Pl px py pz) * c) by ring.
    set (X := x - ox + L * (px * / dr_P pz) * / dr_Pl px py pz). set (Y := y - oy + L * (py * / dr_P pz) * / dr_Pl px py pz).
    replace ((X * c + Y * s) * c - (- X * s + Y * c) * s + ox) with (X * (s * s + c * c) + ox) by ring. rewrite SC. unfold X. ring.
  - replace ((px * c + py * s) * c - (- px * s + py * c) * s) with (px * (s * s + c * c)) by ring. rewrite SC; ring.
  - unfold dr_x, dr_y. rewrite Pl. unfold dr_Px, Rdiv.
    set (X := x - ox + L * (px * / dr_P pz) * / dr_Pl px py pz). set (Y := y - oy + L * (py * / dr_P pz) * / dr_Pl px py pz).
    replace ((x - ox) * c + (y - oy) * s + L * ((px * c + py * s) * / dr_P pz) * / dr_Pl px py pz) with (X * c + Y * s) by (unfold X, Y; ring).
    replace (- (x - ox) * s + (y - oy) * c + L * ((- px * s + py * c) * / dr_P pz) * / dr_Pl px py pz) with (- X * s + Y * c) by (unfold X, Y; ring).
    replace ((X * c + Y * s) * s + (- X * s + Y * c) * c + oy) with (Y * (s * s + c * c) + oy) by ring. rewrite SC. unfold Y. ring.
  - replace ((px * c + py * s) * s + (- px * s + py * c) * c) with (py * (s * s + c * c)) by ring. rewrite SC; ring.
  - unfold dr_z, dr_dz. rewrite Pl, Q. reflexivity.
Qed.

(** TDC(V = 0) = Bmad-X drift of the same length, for every misalignment, tilt, phase, frequency *)
Lemma tdc_off_is_driftx L ox oy tilt q : 0 < 1 + bpz q ->
  tdc_bmad L 0 phi0 f cl ox oy tilt p0c m q = driftx L p0c m q.
Proof.
  intros HP. unfold tdc_bmad. rewrite tdc_kick_off.
  - rewrite driftx_flow. replace (L / 2 + L / 2) with L by field. apply driftx_offset.
  - destruct q; simpl in *. assumption.
Qed.
End TdcOff.
