(** Model of cheetah/accelerator/aperture.py (Aperture.track) and of the blocking part of
    cheetah/accelerator/screen.py (Screen.track), over Q (float64 values are exact dyadic
    rationals).  Half-sizes may be infinite ([Inf], the constructor default).  Nothing is proved
    here -- see ApertureProofs.v. *)
From Coq Require Import List Bool QArith.
Import ListNotations.
Open Scope Q_scope.

Inductive Qinf := Fin (q : Q) | Inf.
Inductive shape := Rect | Ellip.

Record aperture := mkap { ap_xmax : Qinf; ap_ymax : Qinf; ap_shape : shape; ap_active : bool }.

(* strict comparison on Q as a boolean *)
Definition Qltb (a b : Q) : bool := negb (Qle_bool b a).

(* incoming.x < x_max  and  incoming.x > -x_max ; a finite float is < inf and > -inf *)
Definition lt_max (x : Q) (m : Qinf) : bool := match m with Fin q => Qltb x q | Inf => true end.
Definition gt_negmax (x : Q) (m : Qinf) : bool := match m with Fin q => Qltb (- q) x | Inf => true end.

(* logical_and(logical_and(x > -x_max, x < x_max), logical_and(y > -y_max, y < y_max)) *)
Definition rect_in (x y : Q) (xm ym : Qinf) : bool :=
  (gt_negmax x xm && lt_max x xm) && (gt_negmax y ym && lt_max y ym).

(* x**2 / x_max**2 : 0 for an infinite half-size; inf or nan (never <= 1) for a zero half-size *)
Definition ell_term (x : Q) (m : Qinf) : option Q :=
  match m with
  | Inf => Some 0
  | Fin q => if Qeq_bool q 0 then None else Some (x * x / (q * q))
  end.

(* (x**2 / x_max**2 + y**2 / y_max**2) <= 1.0 *)
Definition ell_in (x y : Q) (xm ym : Qinf) : bool :=
  match ell_term x xm, ell_term y ym with
  | Some a, Some b => Qle_bool (a + b) 1
  | _, _ => false
  end.

(* a particle is its coordinate row (x, px, y, py, tau, delta, 1) *)
Definition px_ (p : list Q) : Q := nth 0 p 0.
Definition py_ (p : list Q) : Q := nth 2 p 0.

Definition inside (a : aperture) (p : list Q) : bool :=
  match ap_shape a with
  | Rect => rect_in (px_ p) (py_ p) (ap_xmax a) (ap_ymax a)
  | Ellip => ell_in (px_ p) (py_ p) (ap_xmax a) (ap_ymax a)
  end.

(* survived_mask as a number *)
Definition mask (a : aperture) (p : list Q) : Q := if inside a p then 1 else 0.

Record pbeam := mkpb { parts : list (list Q); energy : Q; charges : list Q; surv : list Q }.
Record parambeam := mkqb { mu : list Q; cov : list (list Q); penergy : Q; qb_charge : Q }.
Inductive beam := PBeam (b : pbeam) | QBeam (b : parambeam).

(* incoming.survival_probabilities * survived_mask *)
Fixpoint mask_surv (a : aperture) (ps : list (list Q)) (ss : list Q) : list Q :=
  match ss with
  | [] => []
  | s :: ss' => s * mask a (hd [] ps) :: mask_surv a (tl ps) ss'
  end.

Definition ap_track_p (a : aperture) (b : pbeam) : pbeam :=
  mkpb (parts b) (energy b) (charges b) (mask_surv a (parts b) (surv b)).

(* Aperture.track: `if not (isinstance(incoming, ParticleBeam) and self.is_active): return incoming` *)
Definition ap_track (a : aperture) (b : beam) : beam :=
  match b with
  | PBeam pb => if ap_active a then PBeam (ap_track_p a pb) else b
  | QBeam _ => b
  end.

(* Screen.track, as far as the outgoing beam is concerned *)
Record screen := mkscr { scr_active : bool; scr_blocking : bool }.
Definition scr_track (s : screen) (b : beam) : beam :=
  if scr_active s && scr_blocking s then
    match b with
    | PBeam pb => PBeam (mkpb (parts pb) (energy pb) (charges pb) (map (fun _ => 0) (surv pb)))
    | QBeam qb => QBeam (mkqb (mu qb) (cov qb) (penergy qb) 0)
    end
  else b.

(* ---- readable (Prop) descriptions of "strictly inside" / "strictly outside"; a particle
   exactly on the edge satisfies neither and nothing is claimed about it *)
Definition halfsize_pos (m : Qinf) : Prop := match m with Fin q => 0 < q | Inf => True end.
Definition within (x : Q) (m : Qinf) : Prop := match m with Fin q => - q < x /\ x < q | Inf => True end.
Definition beyond (x : Q) (m : Qinf) : Prop := match m with Fin q => x < - q \/ q < x | Inf => False end.
Definition ell_val (x y : Q) (xm ym : Qinf) : Q :=
  (match xm with Fin q => x * x / (q * q) | Inf => 0 end) +
  (match ym with Fin q => y * y / (q * q) | Inf => 0 end).

Definition strictly_inside (a : aperture) (p : list Q) : Prop :=
  match ap_shape a with
  | Rect => within (px_ p) (ap_xmax a) /\ within (py_ p) (ap_ymax a)
  | Ellip => halfsize_pos (ap_xmax a) /\ halfsize_pos (ap_ymax a) /\
             ell_val (px_ p) (py_ p) (ap_xmax a) (ap_ymax a) < 1
  end.
Definition strictly_outside (a : aperture) (p : list Q) : Prop :=
  match ap_shape a with
  | Rect => beyond (px_ p) (ap_xmax a) \/ beyond (py_ p) (ap_ymax a)
  | Ellip => halfsize_pos (ap_xmax a) /\ halfsize_pos (ap_ymax a) /\
             1 < ell_val (px_ p) (py_ p) (ap_xmax a) (ap_ymax a)
  end.

(* ---- case checker used by the correspondence run (harness/props/c10.py) *)
Definition qlist_eqb (l1 l2 : list Q) : bool :=
  Nat.eqb (length l1) (length l2) && forallb (fun p => Qeq_bool (fst p) (snd p)) (combine l1 l2).
Definition qmat_eqb (l1 l2 : list (list Q)) : bool :=
  Nat.eqb (length l1) (length l2) && forallb (fun p => qlist_eqb (fst p) (snd p)) (combine l1 l2).
Definition pbeam_eqb (b1 b2 : pbeam) : bool :=
  qmat_eqb (parts b1) (parts b2) && Qeq_bool (energy b1) (energy b2) &&
  qlist_eqb (charges b1) (charges b2) && qlist_eqb (surv b1) (surv b2).

(* one aperture, one particle beam: model output = observed output *)
Record apcase := mkapcase { ac_ap : aperture; ac_in : pbeam; ac_out : pbeam }.
Definition ap_check (c : apcase) : bool :=
  match ap_track (ac_ap c) (PBeam (ac_in c)) with
  | PBeam o => pbeam_eqb o (ac_out c)
  | QBeam _ => false
  end.
