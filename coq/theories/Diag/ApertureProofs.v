(** Proofs about the aperture / blocking-screen model (Aperture.v). *)
From Coq Require Import List Bool QArith Lia.
From Cheetah Require Import Diag.Aperture.
Import ListNotations.
Open Scope Q_scope.

Lemma Qltb_iff : forall a b, Qltb a b = true <-> a < b.
Proof.
  intros a b. unfold Qltb. rewrite negb_true_iff. split; intros H.
  - apply Qnot_le_lt. intros Hle. apply Qle_bool_iff in Hle. congruence.
  - destruct (Qle_bool b a) eqn:E; [|reflexivity].
    apply Qle_bool_iff in E. exfalso. exact (Qlt_not_le _ _ H E).
Qed.

Lemma Qltb_false_iff : forall a b, Qltb a b = false <-> b <= a.
Proof.
  intros a b. unfold Qltb. rewrite negb_false_iff. apply Qle_bool_iff.
Qed.

Lemma mask_01 : forall a p, mask a p = 1 \/ mask a p = 0.
Proof. intros a p. unfold mask. destruct (inside a p); auto. Qed.

Lemma mask_inside : forall a p, inside a p = true -> mask a p = 1.
Proof. intros a p H. unfold mask. rewrite H. reflexivity. Qed.
Lemma mask_outside : forall a p, inside a p = false -> mask a p = 0.
Proof. intros a p H. unfold mask. rewrite H. reflexivity. Qed.

(* ---- rectangular *)
Lemma within_in : forall x m, within x m -> gt_negmax x m && lt_max x m = true.
Proof.
  intros x [q|] H; cbn in *; [|reflexivity]. destruct H as [H1 H2].
  apply andb_true_intro. split; apply Qltb_iff; assumption.
Qed.

Lemma beyond_out : forall x m, beyond x m -> gt_negmax x m && lt_max x m = false.
Proof.
  intros x [q|] H; cbn in *; [|contradiction]. apply andb_false_iff. destruct H as [H|H].
  - left. apply Qltb_false_iff. apply Qlt_le_weak, H.
  - right. apply Qltb_false_iff. apply Qlt_le_weak, H.
Qed.

(* the rectangular test is exactly "strictly within both half-sizes" (no gap, no overlap) *)
Lemma rect_in_iff : forall x y xm ym, rect_in x y xm ym = true <-> within x xm /\ within y ym.
Proof.
  intros x y xm ym. unfold rect_in. rewrite !andb_true_iff.
  destruct xm as [q|], ym as [r|]; cbn; rewrite ?Qltb_iff; tauto.
Qed.

(* ---- elliptical *)
Lemma ell_term_pos : forall x m, halfsize_pos m ->
  ell_term x m = Some (match m with Fin q => x * x / (q * q) | Inf => 0 end).
Proof.
  intros x [q|] H; cbn in *; [|reflexivity].
  destruct (Qeq_bool q 0) eqn:E; [|reflexivity].
  apply Qeq_bool_iff in E. rewrite E in H. exfalso. exact (Qlt_irrefl _ H).
Qed.

Lemma ell_in_pos : forall x y xm ym, halfsize_pos xm -> halfsize_pos ym ->
  ell_in x y xm ym = Qle_bool (ell_val x y xm ym) 1.
Proof.
  intros x y xm ym Hx Hy. unfold ell_in. rewrite (ell_term_pos x xm Hx), (ell_term_pos y ym Hy). reflexivity.
Qed.

(* a zero half-size of an elliptical aperture loses every particle (inf or nan is never <= 1) *)
Lemma ell_zero_halfsize : forall x y xm ym, (xm = Fin 0 \/ ym = Fin 0) -> ell_in x y xm ym = false.
Proof.
  intros x y xm ym [H|H]; subst; unfold ell_in; cbn; [reflexivity|].
  destruct (ell_term x xm); reflexivity.
Qed.

Lemma inside_strict : forall a p, strictly_inside a p -> inside a p = true.
Proof.
  intros a p. unfold strictly_inside, inside. destruct (ap_shape a).
  - intros H. apply rect_in_iff, H.
  - intros (Hx & Hy & Hv). rewrite ell_in_pos by assumption. apply Qle_bool_iff, Qlt_le_weak, Hv.
Qed.

Lemma outside_strict : forall a p, strictly_outside a p -> inside a p = false.
Proof.
  intros a p. unfold strictly_outside, inside. destruct (ap_shape a).
  - intros [H|H]; unfold rect_in.
    + rewrite (beyond_out _ _ H). reflexivity.
    + rewrite (beyond_out _ _ H). apply andb_false_r.
  - intros (Hx & Hy & Hv). rewrite ell_in_pos by assumption.
    destruct (Qle_bool _ 1) eqn:E; [|reflexivity].
    apply Qle_bool_iff in E. exfalso. exact (Qlt_not_le _ _ Hv E).
Qed.

(* ---- survival vector *)
Lemma length_mask_surv : forall a ss ps, length (mask_surv a ps ss) = length ss.
Proof. intros a ss. induction ss as [|s r IH]; intros ps; cbn; [reflexivity|]. f_equal. apply IH. Qed.

Lemma nth_mask_surv : forall a ss ps i, (i < length ss)%nat ->
  nth i (mask_surv a ps ss) 0 = nth i ss 0 * mask a (nth i ps []).
Proof.
  intros a ss. induction ss as [|s r IH]; intros ps i Hs; cbn in *; [lia|].
  destruct i as [|i].
  - destruct ps; reflexivity.
  - rewrite IH by lia. destruct ps; cbn; [destruct i|]; reflexivity.
Qed.

Section Thms.
Variables (a : aperture) (b : pbeam).
Hypothesis Hlen : length (parts b) = length (surv b).

(* an active aperture sets the survival probability of a particle strictly outside to exactly 0 *)
Theorem aperture_zero_outside : forall i, (i < length (parts b))%nat ->
  strictly_outside a (nth i (parts b) []) -> nth i (surv (ap_track_p a b)) 0 == 0.
Proof.
  intros i Hi Ho. cbn. rewrite nth_mask_surv by (rewrite <- Hlen; exact Hi).
  rewrite (mask_outside _ _ (outside_strict _ _ Ho)). ring.
Qed.

(* ... and keeps that of a particle strictly inside *)
Theorem aperture_inside_kept : forall i, (i < length (parts b))%nat ->
  strictly_inside a (nth i (parts b) []) -> nth i (surv (ap_track_p a b)) 0 == nth i (surv b) 0.
Proof.
  intros i Hi Ho. cbn. rewrite nth_mask_surv by (rewrite <- Hlen; exact Hi).
  rewrite (mask_inside _ _ (inside_strict _ _ Ho)). ring.
Qed.

(* every outgoing survival probability is the incoming one or 0 *)
Theorem aperture_kept_or_zero : forall i, (i < length (parts b))%nat ->
  nth i (surv (ap_track_p a b)) 0 == nth i (surv b) 0 \/ nth i (surv (ap_track_p a b)) 0 == 0.
Proof.
  intros i Hi. cbn. rewrite nth_mask_surv by (rewrite <- Hlen; exact Hi).
  destruct (mask_01 a (nth i (parts b) [])) as [E|E]; rewrite E; [left|right]; ring.
Qed.
End Thms.

Theorem aperture_coords_untouched : forall a b,
  parts (ap_track_p a b) = parts b /\ energy (ap_track_p a b) = energy b /\ charges (ap_track_p a b) = charges b.
Proof. intros. cbn. auto. Qed.

Theorem aperture_active : forall a b, ap_active a = true -> ap_track a (PBeam b) = PBeam (ap_track_p a b).
Proof. intros a b H. cbn. rewrite H. reflexivity. Qed.

Theorem aperture_inactive_identity : forall a b, ap_active a = false -> ap_track a b = b.
Proof. intros a [pb|qb] H; cbn; [rewrite H|]; reflexivity. Qed.

Theorem aperture_parameter_passthrough : forall a qb, ap_track a (QBeam qb) = QBeam qb.
Proof. reflexivity. Qed.

Definition in01 (s : Q) : Prop := 0 <= s /\ s <= 1.

Lemma mask_mul_range : forall s m, (m = 1 \/ m = 0) -> in01 s -> in01 (s * m) /\ s * m <= s.
Proof.
  intros s m [E|E] [H0 H1]; subst; unfold in01.
  - setoid_replace (s * 1) with s by ring. repeat split; try assumption. apply Qle_refl.
  - setoid_replace (s * 0) with 0 by ring. repeat split; try assumption; try apply Qle_refl. discriminate.
Qed.

(* survival probabilities stay in [0,1] and do not increase, pointwise *)
Theorem aperture_surv_shrinks : forall a ss ps,
  Forall2 (fun s' s => in01 s -> in01 s' /\ s' <= s) (mask_surv a ps ss) ss.
Proof.
  intros a ss. induction ss as [|s r IH]; intros ps; cbn; constructor.
  - intros Hs. apply mask_mul_range; [apply mask_01 | exact Hs].
  - apply IH.
Qed.

Lemma shrinks_range_mono : forall l' l, Forall2 (fun s' s => in01 s -> in01 s' /\ s' <= s) l' l ->
  Forall in01 l -> Forall in01 l' /\ Forall2 Qle l' l.
Proof.
  intros l' l F. induction F as [|s' s l' l Hs F IH]; intros Hr; [split; constructor|].
  inversion Hr; subst. destruct (IH H2) as [I1 I2]. destruct (Hs H1) as [J1 J2].
  split; constructor; assumption.
Qed.

Theorem surv_range : forall a b, length (parts b) = length (surv b) ->
  Forall in01 (surv b) -> Forall in01 (surv (ap_track_p a b)).
Proof. intros a b Hl Hr. exact (proj1 (@shrinks_range_mono _ _ (aperture_surv_shrinks a (surv b) (parts b)) Hr)). Qed.

Theorem surv_monotone : forall a b, length (parts b) = length (surv b) ->
  Forall in01 (surv b) -> Forall2 Qle (surv (ap_track_p a b)) (surv b).
Proof. intros a b Hl Hr. exact (proj2 (@shrinks_range_mono _ _ (aperture_surv_shrinks a (surv b) (parts b)) Hr)). Qed.

Theorem charges_const : forall a b, match ap_track a (PBeam b) with PBeam o => charges o = charges b /\ length (parts o) = length (parts b) | QBeam _ => False end.
Proof. intros a b. cbn. destruct (ap_active a); cbn; auto. Qed.

(* ---- blocking screen *)
Theorem screen_blocking_zero : forall s pb, scr_active s = true -> scr_blocking s = true ->
  scr_track s (PBeam pb) = PBeam (mkpb (parts pb) (energy pb) (charges pb) (map (fun _ => 0) (surv pb))).
Proof. intros s pb H1 H2. unfold scr_track. rewrite H1, H2. reflexivity. Qed.

Theorem screen_blocking_zero_param : forall s qb, scr_active s = true -> scr_blocking s = true ->
  scr_track s (QBeam qb) = QBeam (mkqb (mu qb) (cov qb) (penergy qb) 0).
Proof. intros s qb H1 H2. unfold scr_track. rewrite H1, H2. reflexivity. Qed.

Theorem screen_transparent : forall s b, scr_active s && scr_blocking s = false -> scr_track s b = b.
Proof. intros s b H. unfold scr_track. rewrite H. reflexivity. Qed.
