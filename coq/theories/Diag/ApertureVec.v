(** C10 (round 4): VECTORISED apertures.  Half sizes with a batch shape are a list of (x_max, y_max) pairs, each
    entry finite or infinite independently ([Fin] / [Inf]); the beam is shared by the entries (broadcast) or has
    a batch of its own.  Aperture.track computes the mask elementwise, so entry i of the outgoing survival tensor
    is the scalar aperture of entry i applied to the beam of entry i: the model of the vectorised element is the
    map of the scalar model (Diag/Aperture.v, unchanged) over the batch.  The theorems say what that implies and
    what a whole-batch shortcut would break: an infinite entry never opens a finite neighbour. *)
From Coq Require Import List Bool QArith Lia.
From Cheetah Require Import Diag.Aperture Diag.ApertureProofs.
Import ListNotations.
Open Scope Q_scope.

Record vaperture := mkvap { v_halves : list (Qinf * Qinf); v_shape : shape; v_active : bool }.
Definition entry_ap (v : vaperture) (h : Qinf * Qinf) : aperture := mkap (fst h) (snd h) (v_shape v) (v_active v).

(* one beam, broadcast against the batch of half sizes: survival tensor of shape (batch, particles) *)
Definition vap_track (v : vaperture) (b : pbeam) : list pbeam := map (fun h => ap_track_p (entry_ap v h) b) (v_halves v).
(* a batch of beams lined up with the batch of half sizes *)
Fixpoint vap_track_zip (v : vaperture) (hs : list (Qinf * Qinf)) (bs : list pbeam) : list pbeam :=
  match hs, bs with
  | h :: hs', b :: bs' => ap_track_p (entry_ap v h) b :: vap_track_zip v hs' bs'
  | _, _ => []
  end.
(* every beam against every entry (outer broadcast): shape (beams, batch, particles) *)
Definition vap_track_outer (v : vaperture) (bs : list pbeam) : list (list pbeam) := map (vap_track v) bs.

Lemma vap_length : forall v b, length (vap_track v b) = length (v_halves v).
Proof. intros. unfold vap_track. apply map_length. Qed.

Lemma vap_nth : forall v b k, (k < length (v_halves v))%nat ->
  nth k (vap_track v b) b = ap_track_p (entry_ap v (nth k (v_halves v) (Inf, Inf))) b.
Proof.
  intros v b k H. unfold vap_track.
  rewrite (nth_indep _ b (ap_track_p (entry_ap v (Inf, Inf)) b)) by (rewrite map_length; exact H).
  apply (map_nth (fun h => ap_track_p (entry_ap v h) b)).
Qed.

(* entry by entry: the scalar theorems *)
Theorem vap_entry_zero_outside : forall v b k i, length (parts b) = length (surv b) ->
  (k < length (v_halves v))%nat -> (i < length (parts b))%nat ->
  strictly_outside (entry_ap v (nth k (v_halves v) (Inf, Inf))) (nth i (parts b) []) ->
  nth i (surv (nth k (vap_track v b) b)) 0 == 0.
Proof. intros v b k i Hl Hk Hi Ho. rewrite vap_nth by exact Hk. apply aperture_zero_outside; assumption. Qed.

Theorem vap_entry_inside_kept : forall v b k i, length (parts b) = length (surv b) ->
  (k < length (v_halves v))%nat -> (i < length (parts b))%nat ->
  strictly_inside (entry_ap v (nth k (v_halves v) (Inf, Inf))) (nth i (parts b) []) ->
  nth i (surv (nth k (vap_track v b) b)) 0 == nth i (surv b) 0.
Proof. intros v b k i Hl Hk Hi Ho. rewrite vap_nth by exact Hk. apply aperture_inside_kept; assumption. Qed.

Theorem vap_entry_untouched : forall v b k, (k < length (v_halves v))%nat ->
  parts (nth k (vap_track v b) b) = parts b /\ energy (nth k (vap_track v b) b) = energy b /\
  charges (nth k (vap_track v b) b) = charges b /\ length (surv (nth k (vap_track v b) b)) = length (surv b).
Proof.
  intros v b k Hk. rewrite vap_nth by exact Hk.
  destruct (aperture_coords_untouched (entry_ap v (nth k (v_halves v) (Inf, Inf))) b) as (A & B & C).
  repeat split; try assumption. apply length_mask_surv.
Qed.

(* an entry with both half sizes infinite is fully open (rectangular) ... *)
Theorem vap_open_entry : forall b k v, v_shape v = Rect -> length (parts b) = length (surv b) ->
  (k < length (v_halves v))%nat -> nth k (v_halves v) (Inf, Inf) = (Inf, Inf) ->
  forall i, (i < length (parts b))%nat -> nth i (surv (nth k (vap_track v b) b)) 0 == nth i (surv b) 0.
Proof.
  intros b k v Hs Hl Hk He i Hi. apply vap_entry_inside_kept; try assumption.
  rewrite He. unfold strictly_inside, entry_ap; cbn. rewrite Hs. cbn. split; exact I.
Qed.

(* ... and does not open its neighbours: a concrete batch (x_max = [inf, 1/2], y_max = inf) in which the same particle
   at x = 1 keeps its survival in entry 0 and loses it in entry 1 *)
Definition vec_witness_ap : vaperture := mkvap [(Inf, Inf); (Fin (1#2), Inf)] Rect true.
Definition vec_witness_beam : pbeam := mkpb [[1; 0; 0; 0; 0; 0; 1]; [(1#4); 0; 3; 0; 0; 0; 1]] 100 [1; 1] [1; (1#2)].
Lemma vec_witness : map surv (vap_track vec_witness_ap vec_witness_beam) = [[1 * 1; (1#2) * 1]; [1 * 0; (1#2) * 1]].
Proof. reflexivity. Qed.

(* lined-up and outer broadcasting have the broadcast shape *)
Lemma vap_zip_length : forall v hs bs, length hs = length bs -> length (vap_track_zip v hs bs) = length hs.
Proof. intros v hs. induction hs as [|h hs IH]; intros [|b bs] H; cbn in *; try lia. rewrite IH; lia. Qed.
Lemma vap_outer_shape : forall v bs, length (vap_track_outer v bs) = length bs /\
  Forall (fun row => length row = length (v_halves v)) (vap_track_outer v bs).
Proof.
  intros v bs. unfold vap_track_outer. split; [apply map_length|].
  apply Forall_forall. intros row H. apply in_map_iff in H. destruct H as (b & <- & _). apply vap_length.
Qed.
