(** Model of cheetah/accelerator/screen.py (Screen: effective_resolution, extent, pixel_bin_edges,
    pixel_bin_centers, track, reading in histogram mode, the shape and sampling grid of the
    ParameterBeam image) and of cheetah/accelerator/bpm.py (BPM.track), over Z and Q.
    Floating-point values that are small dyadic numbers are exact rationals, so the model is compared
    with the code by equality.  The model follows the code as it is, including
      - F14: the ParticleBeam branch of Screen.track subtracts misalignment[1] from particles[...,1]
             (px), not from particles[...,2] (y);
      - F15: the ParameterBeam image is built on meshgrid(arange(left,right,hstep), arange(bottom,top,vstep),
             indexing="ij"), i.e. it has shape (#x samples, #y samples) and is sampled at left/bottom
             pixel edges.
    Nothing is proved here -- see ScreenProofs.v. *)
From Coq Require Import List Bool ZArith QArith Qabs.
Import ListNotations.
Open Scope Q_scope.

(* ------------------------------------------------------------------ screen parameters *)
Record screen := mkscreen {
  sW : Z; sH : Z;            (* resolution = (width, height) in pixels *)
  sbin : Z;                  (* binning *)
  spx : Q; spy : Q;          (* pixel_size = (width, height) of a pixel *)
  sdx : Q; sdy : Q;          (* misalignment = (x, y) *)
  sactive : bool; sblocking : bool }.

(* effective_resolution = (resolution[0] // binning, resolution[1] // binning) *)
Definition eff_res (s : screen) : Z * Z := ((sW s / sbin s)%Z, (sH s / sbin s)%Z).
Definition nbx (s : screen) : nat := Z.to_nat (sW s / sbin s).
Definition nby (s : screen) : nat := Z.to_nat (sH s / sbin s).

(* extent = (-W*px/2, W*px/2, -H*py/2, H*py/2) *)
Definition xlo (s : screen) : Q := - inject_Z (sW s) * spx s / 2.
Definition xhi (s : screen) : Q := inject_Z (sW s) * spx s / 2.
Definition ylo (s : screen) : Q := - inject_Z (sH s) * spy s / 2.
Definition yhi (s : screen) : Q := inject_Z (sH s) * spy s / 2.
Definition extent (s : screen) : list Q := [xlo s; xhi s; ylo s; yhi s].

(* torch.linspace(lo, hi, n + 1) in exact arithmetic *)
Definition qnat (i : nat) : Q := inject_Z (Z.of_nat i).
Definition edge (lo hi : Q) (n i : nat) : Q := lo + (hi - lo) * qnat i / qnat n.
Definition linspace (lo hi : Q) (n : nat) : list Q := map (edge lo hi n) (seq 0 (S n)).

(* pixel_bin_edges *)
Definition edges_x (s : screen) : list Q := linspace (xlo s) (xhi s) (nbx s).
Definition edges_y (s : screen) : list Q := linspace (ylo s) (yhi s) (nby s).

(* pixel_bin_centers = (edges[1:] + edges[:-1]) / 2 *)
Fixpoint mids (es : list Q) : list Q :=
  match es with
  | a :: ((b :: _) as t) => (b + a) / 2 :: mids t
  | _ => []
  end.
Definition centers_x (s : screen) : list Q := mids (edges_x s).
Definition centers_y (s : screen) : list Q := mids (edges_y s).

(* ------------------------------------------------------------------ torch.histogramdd, one axis
   (aten HistogramKernel.cpp, explicit bin edges):
     if !(elt >= leftmost_edge && elt <= rightmost_edge) skip;
     pos = upper_bound(edges, elt) - edges - 1;      -- number of edges <= elt, minus one
     if (pos == num_edges - 1) pos -= 1;             -- the rightmost bin is closed *)
Definition count_le (es : list Q) (v : Q) : nat := length (filter (fun e => Qle_bool e v) es).
Definition bin_index (es : list Q) (v : Q) : option nat :=
  match es with
  | [] => None
  | e0 :: _ =>
      if Qle_bool e0 v && Qle_bool v (last es 0) then
        let pos := (count_le es v - 1)%nat in
        Some (if Nat.eqb pos (length es - 1) then (pos - 1)%nat else pos)
      else None
  end.

(* ------------------------------------------------------------------ beams (the coordinates a screen touches) *)
Record particle := mkP { p_x : Q; p_px : Q; p_y : Q; p_py : Q; p_q : Q; p_s : Q }.
Inductive beam :=
| Particles (ps : list particle)
| Params (mu_x mu_px mu_y mu_py : Q) (total_charge : Q).

(* Screen.track, ParticleBeam branch:  particles[..., 0] -= misalignment[..., 0];
                                       particles[..., 1] -= misalignment[..., 1]      (F14: index 1 is px) *)
Definition read_particle (s : screen) (p : particle) : particle :=
  mkP (p_x p - sdx s) (p_px p - sdy s) (p_y p) (p_py p) (p_q p) (p_s p).
(* the repaired code (index 2) -- used only to state what the fix achieves *)
Definition read_particle_fixed (s : screen) (p : particle) : particle :=
  mkP (p_x p - sdx s) (p_px p) (p_y p - sdy s) (p_py p) (p_q p) (p_s p).

(* ParameterBeam branch: _mu[..., 0] -= misalignment[..., 0]; _mu[..., 2] -= misalignment[..., 1] *)
Definition read_beam (s : screen) (b : beam) : beam :=
  match b with
  | Particles ps => Particles (map (read_particle s) ps)
  | Params mx mpx my mpy q => Params (mx - sdx s) mpx (my - sdy s) mpy q
  end.

Definition block (b : beam) : beam :=
  match b with
  | Particles ps => Particles (map (fun p => mkP (p_x p) (p_px p) (p_y p) (p_py p) (p_q p) 0) ps)
  | Params mx mpx my mpy q => Params mx mpx my mpy 0
  end.

(* Screen.track: (outgoing beam, new read beam or None when the screen is inactive) *)
Definition screen_track (s : screen) (b : beam) : beam * option beam :=
  (if sactive s && sblocking s then block b else b,
   if sactive s then Some (read_beam s b) else None).

(* ------------------------------------------------------------------ images as shaped index functions *)
Record tensor2 := mkT { rows : nat; cols : nat; at2 : nat -> nat -> Q }.
Definition transposeT (t : tensor2) : tensor2 := mkT (cols t) (rows t) (fun i j => at2 t j i).
Definition flipudT (t : tensor2) : tensor2 := mkT (rows t) (cols t) (fun i j => at2 t (rows t - 1 - i)%nat j).
Definition fliplrT (t : tensor2) : tensor2 := mkT (rows t) (cols t) (fun i j => at2 t i (cols t - 1 - j)%nat).
Definition to_lists (t : tensor2) : list (list Q) :=
  map (fun i => map (fun j => at2 t i j) (seq 0 (cols t))) (seq 0 (rows t)).

Definition weight (p : particle) : Q := p_q p * p_s p.   (* particle_charges * survival_probabilities *)

(* the pair of bin indices histogramdd assigns to a (read-beam) particle *)
Definition bins_of (s : screen) (p : particle) : option (nat * nat) :=
  match bin_index (edges_x s) (p_x p), bin_index (edges_y s) (p_y p) with
  | Some ix, Some iy => Some (ix, iy)
  | _, _ => None
  end.
Definition hits (o : option (nat * nat)) (i j : nat) : bool :=
  match o with Some (a, b) => Nat.eqb a i && Nat.eqb b j | None => false end.
Definition sumQ (l : list Q) : Q := fold_right Qplus 0 l.

(* histogramdd(stack((x, y)).T, bins=pixel_bin_edges, weight=q*surv)  : shape (nbx, nby) *)
Definition hist (s : screen) (ps : list particle) : tensor2 :=
  mkT (nbx s) (nby s) (fun ix iy => sumQ (map (fun p => if hits (bins_of s p) ix iy then weight p else 0) ps)).
(* image = flipud(image.T) *)
Definition hist_image (s : screen) (ps : list particle) : tensor2 := flipudT (transposeT (hist s ps)).

(* (row, column) of the image a read-beam particle is counted in *)
Definition pixel_of (s : screen) (p : particle) : option (nat * nat) :=
  match bins_of s p with
  | Some (ix, iy) => Some ((nby s - 1 - iy)%nat, ix)
  | None => None
  end.

(* inside the screen as histogramdd sees it (closed on both outer edges) *)
Definition inside (s : screen) (p : particle) : bool :=
  (Qle_bool (xlo s) (p_x p) && Qle_bool (p_x p) (xhi s)) && (Qle_bool (ylo s) (p_y p) && Qle_bool (p_y p) (yhi s)).

(* ------------------------------------------------------------------ ParameterBeam image: shape and sampling grid
   x, y = meshgrid(arange(left, right, hstep), arange(bottom, top, vstep), indexing="ij");
   image = flip(pdf(dstack(x, y)), dims=[1]) *)
Definition cdivZ (a b : Z) : Z := (- ((- a) / b))%Z.                  (* ceil(a / b), b > 0 *)
(* len(arange(lo, hi, step)) = ceil((hi - lo) / step) *)
Definition arange_len (lo hi step : Q) : nat := Z.to_nat (cdivZ (Qnum ((hi - lo) / step)) (Zpos (Qden ((hi - lo) / step)))).
Definition param_nx (s : screen) : nat := arange_len (xlo s) (xhi s) (spx s * inject_Z (sbin s)).
Definition param_ny (s : screen) : nat := arange_len (ylo s) (yhi s) (spy s * inject_Z (sbin s)).
Definition param_shape (s : screen) : nat * nat := (param_nx s, param_ny s).
Definition param_sample_x (s : screen) (i : nat) : Q := xlo s + qnat i * (spx s * inject_Z (sbin s)).
Definition param_sample_y (s : screen) (j : nat) : Q := ylo s + qnat j * (spy s * inject_Z (sbin s)).
(* image[i][j] is the density at this point *)
Definition param_point (s : screen) (i j : nat) : Q * Q :=
  (param_sample_x s i, param_sample_y s (param_ny s - 1 - j)%nat).

(* index of the sample closest to v among lo + k*step, k < n (first one on ties, like argmax) *)
Fixpoint argmin_dist (lo step v : Q) (n : nat) : nat :=
  match n with
  | O => O
  | S O => O
  | S m => let k := argmin_dist lo step v m in
           if Qle_bool (Qabs (lo + qnat k * step - v)) (Qabs (lo + qnat m * step - v)) then k else m
  end.
(* for a Gaussian with diagonal covariance the largest sample is at the grid point nearest to the mean *)
Definition param_peak (s : screen) (mx my : Q) : nat * nat :=
  (argmin_dist (xlo s) (spx s * inject_Z (sbin s)) mx (param_nx s),
   (param_ny s - 1 - argmin_dist (ylo s) (spy s * inject_Z (sbin s)) my (param_ny s))%nat).

(* shape of Screen.reading *)
Definition reading_shape (s : screen) (rd : option beam) : nat * nat :=
  match rd with
  | None => (nby s, nbx s)                               (* torch.zeros((eff[1], eff[0])) *)
  | Some (Particles _) => (nby s, nbx s)
  | Some (Params _ _ _ _ _) => param_shape s
  end.

(* ------------------------------------------------------------------ BPM *)
(* ParticleBeam.mu_x = sum(x * survival) / sum(survival) ; ParameterBeam.mu_x = _mu[0] *)
Definition centroid (f : particle -> Q) (ps : list particle) : Q :=
  sumQ (map (fun p => f p * p_s p) ps) / sumQ (map p_s ps).
Definition beam_mu_x (b : beam) : Q := match b with Particles ps => centroid p_x ps | Params mx _ _ _ _ => mx end.
Definition beam_mu_y (b : beam) : Q := match b with Particles ps => centroid p_y ps | Params _ _ my _ _ => my end.
(* BPM.track: reading = stack([mu_x, mu_y]) (recorded whatever is_active says); returns incoming.clone() *)
Definition bpm_track (active : bool) (b : beam) : beam * (Q * Q) := (b, (beam_mu_x b, beam_mu_y b)).
