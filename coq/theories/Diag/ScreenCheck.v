(** Case checkers for the C20 correspondence: the harness writes screen parameters, the incoming beam and
    everything observed on the real Screen / BPM as Coq terms; these functions evaluate the model of
    Screen.v on the same input and compare (vm_compute). *)
From Coq Require Import List Bool ZArith QArith Qabs.
From Cheetah Require Import Diag.Screen.
Import ListNotations.
Open Scope Q_scope.

Fixpoint list_eqb {A : Type} (eqb : A -> A -> bool) (a b : list A) : bool :=
  match a, b with
  | [], [] => true
  | x :: a', y :: b' => eqb x y && list_eqb eqb a' b'
  | _, _ => false
  end.

Definition close (tol a b : Q) : bool := Qle_bool (Qabs (a - b)) tol.

Definition particle_eqb (a b : particle) : bool :=
  Qeq_bool (p_x a) (p_x b) && Qeq_bool (p_px a) (p_px b) && Qeq_bool (p_y a) (p_y b) &&
  Qeq_bool (p_py a) (p_py b) && Qeq_bool (p_q a) (p_q b) && Qeq_bool (p_s a) (p_s b).

Definition beam_particles (b : beam) : list particle := match b with Particles ps => ps | _ => [] end.

(* ------------------------------------------------------------------ ParticleBeam on a histogram screen *)
Record c20case := mkc20 {
  c_s : screen; c_ps : list particle;
  o_eff : Z * Z;                          (* effective_resolution *)
  o_ex : list Q; o_ey : list Q;           (* pixel_bin_edges *)
  o_cx : list Q; o_cy : list Q;           (* pixel_bin_centers *)
  o_ext : list Q;                         (* extent *)
  o_read : option (list particle);        (* get_read_beam() after track *)
  o_img : list (list Q);                  (* reading *)
  o_out : list particle }.                (* the returned beam *)

(* Screen.track on a ParticleBeam with the read-beam shift [rp]; [rp = read_particle] is the code as it is *)
Definition screen_track_with (rp : screen -> particle -> particle) (s : screen) (ps : list particle) : beam * option beam :=
  (if sactive s && sblocking s then block (Particles ps) else Particles ps,
   if sactive s then Some (Particles (map (rp s) ps)) else None).

Lemma screen_track_with_faithful : forall s ps, screen_track_with read_particle s ps = screen_track s (Particles ps).
Proof. reflexivity. Qed.

Definition c20_check_gen (rp : screen -> particle -> particle) (c : c20case) : bool :=
  let s := c_s c in
  let '(out, rd) := screen_track_with rp s (c_ps c) in
  let tolx := (xhi s - xlo s) * (1 # 1000000) in
  let toly := (yhi s - ylo s) * (1 # 1000000) in
  (Z.eqb (fst (eff_res s)) (fst (o_eff c)) && Z.eqb (snd (eff_res s)) (snd (o_eff c))) &&
  list_eqb (close tolx) (edges_x s) (o_ex c) && list_eqb (close toly) (edges_y s) (o_ey c) &&
  list_eqb (close tolx) (centers_x s) (o_cx c) && list_eqb (close toly) (centers_y s) (o_cy c) &&
  list_eqb (close (tolx + toly)) (extent s) (o_ext c) &&
  list_eqb particle_eqb (beam_particles out) (o_out c) &&
  match rd, o_read c with
  | None, None =>
      (* never read: zeros of shape (eff[1], eff[0]) *)
      list_eqb (list_eqb Qeq_bool) (to_lists (mkT (nby s) (nbx s) (fun _ _ => 0))) (o_img c)
  | Some b, Some obs =>
      list_eqb particle_eqb (beam_particles b) obs &&
      list_eqb (list_eqb Qeq_bool) (to_lists (hist_image s (beam_particles b))) (o_img c)
  | _, _ => false
  end.

Definition c20_check : c20case -> bool := c20_check_gen read_particle.
(* for a tree in which finding F14 has been repaired (y-misalignment applied to index 2) *)
Definition c20_check_fixed : c20case -> bool := c20_check_gen read_particle_fixed.

(* ------------------------------------------------------------------ ParameterBeam image: shape, peak, read beam *)
Record c20pcase := mkc20p {
  cp_s : screen; cp_mx : Q; cp_mpx : Q; cp_my : Q; cp_mpy : Q; cp_q : Q;
  op_shape : nat * nat;                   (* reading.shape *)
  op_peak : option (nat * nat);           (* argmax of the reading (None: not unique / all zero) *)
  op_read : list Q;                       (* read beam mu[0], mu[1], mu[2], mu[3] *)
  op_outq : Q }.                          (* total charge of the returned beam *)

Definition pair_eqb (a b : nat * nat) : bool := Nat.eqb (fst a) (fst b) && Nat.eqb (snd a) (snd b).

Definition c20_pcheck (c : c20pcase) : bool :=
  let s := cp_s c in
  match screen_track s (Params (cp_mx c) (cp_mpx c) (cp_my c) (cp_mpy c) (cp_q c)) with
  | (Params _ _ _ _ qo, Some (Params rx rpx ry rpy _)) =>
      pair_eqb (reading_shape s (Some (Params rx rpx ry rpy 0))) (op_shape c) &&
      match op_peak c with Some pk => pair_eqb (param_peak s rx ry) pk | None => true end &&
      list_eqb Qeq_bool [rx; rpx; ry; rpy] (op_read c) &&
      Qeq_bool qo (op_outq c)
  | _ => false
  end.

(* ------------------------------------------------------------------ BPM reading (float64, to round-off) *)
Record c20bcase := mkc20b { cb_ps : list particle; cb_active : bool; ob_x : Q; ob_y : Q; cb_tol : Q }.
Definition c20_bcheck (c : c20bcase) : bool :=
  let '(_, (rx, ry)) := bpm_track (cb_active c) (Particles (cb_ps c)) in
  close (cb_tol c) rx (ob_x c) && close (cb_tol c) ry (ob_y c).
