(** Proofs about the screen / BPM model of Screen.v. *)
From Coq Require Import List Bool ZArith QArith Qabs Lia Lqa Arith.
From Cheetah Require Import Diag.Screen.
Import ListNotations.
Open Scope Q_scope.

(* ------------------------------------------------------------------ sums *)
Lemma sumQ_app : forall a b, sumQ (a ++ b) == sumQ a + sumQ b.
Proof. induction a; intros; simpl; [ring | rewrite IHa; ring]. Qed.

Lemma sumQ_map_ext : forall (A : Type) (f g : A -> Q) l,
  (forall x, In x l -> f x == g x) -> sumQ (map f l) == sumQ (map g l).
Proof.
  induction l; intros; simpl; [reflexivity|].
  rewrite (H a (or_introl eq_refl)), IHl; [reflexivity|]. intros; apply H; right; assumption.
Qed.

Lemma sumQ_map_add : forall (A : Type) (f g : A -> Q) l,
  sumQ (map (fun x => f x + g x) l) == sumQ (map f l) + sumQ (map g l).
Proof. induction l; simpl; [ring | rewrite IHl; ring]. Qed.

Lemma sumQ_map_zero : forall (A : Type) (l : list A), sumQ (map (fun _ => 0) l) == 0.
Proof. induction l; simpl; [reflexivity | rewrite IHl; ring]. Qed.

Lemma sumQ_map_scale : forall (A : Type) (f : A -> Q) k l,
  sumQ (map (fun x => k * f x) l) == k * sumQ (map f l).
Proof. induction l; simpl; [ring | rewrite IHl; ring]. Qed.

(* sum of an indicator that singles out index k *)
Lemma sum_ind : forall (a : Q) (k n : nat) (f : nat -> bool),
  (forall i, (i < n)%nat -> f i = Nat.eqb i k) ->
  sumQ (map (fun i => if f i then a else 0) (seq 0 n)) == if Nat.ltb k n then a else 0.
Proof.
  induction n; intros f Hf; [reflexivity|].
  rewrite seq_S, map_app, sumQ_app. simpl.
  rewrite IHn by (intros; apply Hf; lia).
  rewrite Hf by lia.
  destruct (Nat.eqb_spec n k).
  - subst. replace (k <? k)%nat with false by (symmetry; apply Nat.ltb_ge; lia).
    replace (k <? S k)%nat with true by (symmetry; apply Nat.ltb_lt; lia). ring.
  - destruct (Nat.ltb_spec k n).
    + replace (k <? S n)%nat with true by (symmetry; apply Nat.ltb_lt; lia). ring.
    + replace (k <? S n)%nat with false by (symmetry; apply Nat.ltb_ge; lia). ring.
Qed.

(* ------------------------------------------------------------------ shapes *)
Lemma to_lists_rows : forall t, length (to_lists t) = rows t.
Proof. intros; unfold to_lists; rewrite map_length, seq_length; reflexivity. Qed.

Lemma to_lists_cols : forall t, Forall (fun r => length r = cols t) (to_lists t).
Proof.
  intros; unfold to_lists. apply Forall_forall. intros r Hr.
  apply in_map_iff in Hr. destruct Hr as [i [<- _]]. rewrite map_length, seq_length; reflexivity.
Qed.

(* image shape = (vertical pixels, horizontal pixels) after binning *)
Lemma image_shape : forall s ps,
  length (to_lists (hist_image s ps)) = Z.to_nat (sH s / sbin s) /\
  Forall (fun r => length r = Z.to_nat (sW s / sbin s)) (to_lists (hist_image s ps)).
Proof. intros; split; [rewrite to_lists_rows | apply (to_lists_cols (hist_image s ps))]; reflexivity. Qed.

Lemma reading_shape_particles : forall s ps,
  reading_shape s (Some (Particles ps)) = (rows (hist_image s ps), cols (hist_image s ps)).
Proof. reflexivity. Qed.

(* ------------------------------------------------------------------ bin edges *)
Lemma qnat_pos : forall n, (0 < n)%nat -> 0 < qnat n.
Proof. intros; unfold qnat. change 0 with (inject_Z 0). rewrite <- Zlt_Qlt. lia. Qed.

Lemma qnat_le : forall i j, (i <= j)%nat -> qnat i <= qnat j.
Proof. intros; unfold qnat. rewrite <- Zle_Qle. lia. Qed.

Lemma qnat_lt : forall i j, (i < j)%nat -> qnat i < qnat j.
Proof. intros; unfold qnat. rewrite <- Zlt_Qlt. lia. Qed.

Lemma qnat_S : forall i, qnat (S i) == qnat i + 1.
Proof. intros; unfold qnat. rewrite Nat2Z.inj_succ. unfold Z.succ. rewrite inject_Z_plus. reflexivity. Qed.

Lemma edge_alt : forall lo hi n i, (0 < n)%nat -> edge lo hi n i == lo + ((hi - lo) / qnat n) * qnat i.
Proof. intros. unfold edge. pose proof (qnat_pos n H). field. lra. Qed.

Lemma edge_0 : forall lo hi n, edge lo hi n 0 == lo.
Proof. intros; unfold edge, qnat, Qdiv. simpl. ring. Qed.

Lemma edge_n : forall lo hi n, (0 < n)%nat -> edge lo hi n n == hi.
Proof. intros. unfold edge. pose proof (qnat_pos n H). field. lra. Qed.

Lemma step_pos : forall lo hi n, (0 < n)%nat -> lo < hi -> 0 < (hi - lo) / qnat n.
Proof.
  intros. pose proof (qnat_pos n H). unfold Qdiv. apply Qmult_lt_0_compat; [lra|]. apply Qinv_lt_0_compat; assumption.
Qed.

Lemma edge_le : forall lo hi n i j, (0 < n)%nat -> lo < hi -> (i <= j)%nat -> edge lo hi n i <= edge lo hi n j.
Proof.
  intros. rewrite !edge_alt by assumption. pose proof (step_pos lo hi n H H0). pose proof (qnat_le i j H1).
  assert ((hi - lo) / qnat n * qnat i <= (hi - lo) / qnat n * qnat j) by (apply Qmult_le_l; assumption). lra.
Qed.

Lemma edge_lt : forall lo hi n i j, (0 < n)%nat -> lo < hi -> (i < j)%nat -> edge lo hi n i < edge lo hi n j.
Proof.
  intros. rewrite !edge_alt by assumption. pose proof (step_pos lo hi n H H0). pose proof (qnat_lt i j H1).
  assert ((hi - lo) / qnat n * qnat i < (hi - lo) / qnat n * qnat j) by (apply Qmult_lt_l; assumption). lra.
Qed.

(* every pixel of the ideal grid is (hi - lo)/n wide *)
Lemma edge_width : forall lo hi n i, (0 < n)%nat -> edge lo hi n (S i) - edge lo hi n i == (hi - lo) / qnat n.
Proof. intros. rewrite !edge_alt by assumption. rewrite qnat_S. ring. Qed.

Lemma linspace_length : forall lo hi n, length (linspace lo hi n) = S n.
Proof. intros; unfold linspace; rewrite map_length, seq_length; reflexivity. Qed.

Lemma linspace_nth : forall lo hi n i, (i <= n)%nat -> nth i (linspace lo hi n) 0 = edge lo hi n i.
Proof.
  intros. unfold linspace.
  rewrite nth_indep with (d' := edge lo hi n 0%nat) by (rewrite map_length, seq_length; lia).
  rewrite map_nth. rewrite seq_nth by lia. reflexivity.
Qed.

Lemma linspace_hd : forall lo hi n, hd 0 (linspace lo hi n) = edge lo hi n 0.
Proof. reflexivity. Qed.

Lemma linspace_last : forall lo hi n, last (linspace lo hi n) 0 = edge lo hi n n.
Proof. intros. unfold linspace. rewrite seq_S, map_app. simpl. apply last_last. Qed.

(* ------------------------------------------------------------------ histogramdd along one axis *)
Lemma filter_seq_count : forall (g : nat -> bool) c m,
  (forall i, (i < m)%nat -> g i = Nat.leb i c) -> length (filter g (seq 0 m)) = Nat.min m (S c).
Proof.
  induction m; intros Hg; [reflexivity|].
  rewrite seq_S, filter_app, app_length, IHm by (intros; apply Hg; lia).
  simpl. rewrite Hg by lia. destruct (Nat.leb_spec m c); simpl; lia.
Qed.

Lemma count_le_linspace : forall lo hi n v c,
  (forall i, (i <= n)%nat -> Qle_bool (edge lo hi n i) v = Nat.leb i c) ->
  count_le (linspace lo hi n) v = Nat.min (S n) (S c).
Proof.
  intros. unfold count_le, linspace.
  assert (E : forall l, length (filter (fun e => Qle_bool e v) (map (edge lo hi n) l)) =
                        length (filter (fun i => Qle_bool (edge lo hi n i) v) l)).
  { induction l; simpl; [reflexivity|]. destruct (Qle_bool (edge lo hi n a) v); simpl; rewrite IHl; reflexivity. }
  rewrite E. apply filter_seq_count. intros; apply H; lia.
Qed.

Lemma bin_index_unfold : forall es v, es <> [] ->
  bin_index es v =
  if Qle_bool (hd 0 es) v && Qle_bool v (last es 0) then
    Some (if Nat.eqb (count_le es v - 1) (length es - 1) then (count_le es v - 1 - 1)%nat else (count_le es v - 1)%nat)
  else None.
Proof. intros. destruct es; [congruence | reflexivity]. Qed.

Lemma linspace_nonempty : forall lo hi n, linspace lo hi n <> [].
Proof. intros lo hi n E. apply (f_equal (@length Q)) in E. rewrite linspace_length in E. discriminate. Qed.

Lemma Qle_bool_false : forall a b, b < a -> Qle_bool a b = false.
Proof. intros. destruct (Qle_bool a b) eqn:E; [|reflexivity]. apply Qle_bool_iff in E. lra. Qed.

Lemma Qle_bool_true : forall a b, a <= b -> Qle_bool a b = true.
Proof. intros. apply Qle_bool_iff; assumption. Qed.

(* half-open bins; the last one is closed *)
Lemma bin_index_spec : forall lo hi n v c,
  (0 < n)%nat -> lo < hi -> (c < n)%nat ->
  edge lo hi n c <= v -> (v < edge lo hi n (S c) \/ (S c = n /\ v <= hi)) ->
  bin_index (linspace lo hi n) v = Some c.
Proof.
  intros lo hi n v c Hn Hlh Hc Hl Hr.
  rewrite bin_index_unfold by apply linspace_nonempty.
  rewrite linspace_hd, linspace_last, linspace_length.
  pose proof (edge_le lo hi n 0 c Hn Hlh ltac:(lia)) as H0c.
  pose proof (edge_n lo hi n Hn) as Hen.
  assert (Hvn : v <= edge lo hi n n).
  { destruct Hr as [Hr | [_ Hr]]; [|lra]. pose proof (edge_le lo hi n (S c) n Hn Hlh ltac:(lia)). lra. }
  rewrite (Qle_bool_true _ _ (Qle_trans _ _ _ H0c Hl)), (Qle_bool_true _ _ Hvn). simpl andb. cbv iota.
  destruct (Qlt_le_dec v (edge lo hi n (S c))) as [Hlt | Hge].
  - (* strictly inside bin c *)
    rewrite (count_le_linspace lo hi n v c).
    + replace (Nat.min (S n) (S c) - 1)%nat with c by lia.
      replace (S n - 1)%nat with n by lia.
      destruct (Nat.eqb_spec c n); [lia | reflexivity].
    + intros i Hi. destruct (Nat.leb_spec i c).
      * apply Qle_bool_true. pose proof (edge_le lo hi n i c Hn Hlh H). lra.
      * apply Qle_bool_false. pose proof (edge_le lo hi n (S c) i Hn Hlh ltac:(lia)). lra.
  - (* on the closed right end of the last bin *)
    destruct Hr as [Hr | [Hsc Hr]]; [lra|].
    rewrite (count_le_linspace lo hi n v n).
    + replace (Nat.min (S n) (S n) - 1)%nat with n by lia.
      replace (S n - 1)%nat with n by lia. rewrite Nat.eqb_refl. f_equal. lia.
    + intros i Hi. replace (i <=? n)%nat with true by (symmetry; apply Nat.leb_le; lia).
      apply Qle_bool_true. pose proof (edge_le lo hi n i n Hn Hlh Hi). rewrite Hsc in Hge. lra.
Qed.

Lemma count_le_bound : forall es v, (count_le es v <= length es)%nat.
Proof. intros; unfold count_le. induction es; simpl; [lia|]. destruct (Qle_bool a v); simpl; lia. Qed.

(* an assigned bin index is always a valid one *)
Lemma bin_index_bound : forall es v i, (2 <= length es)%nat -> bin_index es v = Some i -> (i < length es - 1)%nat.
Proof.
  intros es v i Hlen H. destruct es as [|e0 t]; [discriminate|].
  unfold bin_index in H.
  destruct (Qle_bool e0 v && Qle_bool v (last (e0 :: t) 0)) eqn:E; [|discriminate].
  injection H as <-.
  pose proof (count_le_bound (e0 :: t) v).
  simpl length in *.
  match goal with |- context [Nat.eqb ?a ?b] => destruct (Nat.eqb_spec a b) end; lia.
Qed.

Lemma bin_index_none : forall es v, es <> [] ->
  (bin_index es v = None <-> Qle_bool (hd 0 es) v && Qle_bool v (last es 0) = false).
Proof.
  intros. rewrite bin_index_unfold by assumption.
  destruct (Qle_bool (hd 0 es) v && Qle_bool v (last es 0)); split; intros; congruence.
Qed.

(* the bin index grows with the coordinate *)
Lemma count_le_mono : forall es v w, v <= w -> (count_le es v <= count_le es w)%nat.
Proof.
  intros; unfold count_le. induction es; simpl; [lia|].
  destruct (Qle_bool a v) eqn:E.
  - apply Qle_bool_iff in E. rewrite (Qle_bool_true a w) by lra. simpl; lia.
  - destruct (Qle_bool a w); simpl; lia.
Qed.

Lemma bin_index_mono : forall es v w i j, v <= w -> bin_index es v = Some i -> bin_index es w = Some j -> (i <= j)%nat.
Proof.
  intros es v w i j Hvw Hi Hj. destruct es as [|e0 t]; [discriminate|].
  unfold bin_index in Hi, Hj.
  destruct (Qle_bool e0 v && Qle_bool v (last (e0 :: t) 0)); [|discriminate].
  destruct (Qle_bool e0 w && Qle_bool w (last (e0 :: t) 0)); [|discriminate].
  injection Hi as <-. injection Hj as <-.
  pose proof (count_le_mono (e0 :: t) v w Hvw).
  pose proof (count_le_bound (e0 :: t) w).
  simpl length in *.
  repeat match goal with |- context [Nat.eqb ?a ?b] => destruct (Nat.eqb_spec a b) end; lia.
Qed.

(* ------------------------------------------------------------------ screen geometry *)
Definition good (s : screen) : Prop :=
  (0 < nbx s)%nat /\ (0 < nby s)%nat /\ 0 < spx s /\ 0 < spy s /\ (0 < sW s)%Z /\ (0 < sH s)%Z.

Lemma x_range : forall s, good s -> xlo s < xhi s.
Proof.
  intros s (Hx & _ & Hp & _ & H & _). unfold xlo, xhi.
  assert (0 < inject_Z (sW s)) by (change 0 with (inject_Z 0); rewrite <- Zlt_Qlt; assumption).
  assert (0 < inject_Z (sW s) * spx s) by (apply Qmult_lt_0_compat; assumption).
  set (a := inject_Z (sW s) * spx s) in *.
  assert (E: - inject_Z (sW s) * spx s / 2 == - (a * (1#2))) by (unfold a; field).
  assert (E2: a / 2 == a * (1#2)) by field.
  rewrite E, E2. clearbody a. lra.
Qed.

Lemma y_range : forall s, good s -> ylo s < yhi s.
Proof.
  intros s (_ & Hy & _ & Hp & _ & H). unfold ylo, yhi.
  assert (0 < inject_Z (sH s)) by (change 0 with (inject_Z 0); rewrite <- Zlt_Qlt; assumption).
  assert (0 < inject_Z (sH s) * spy s) by (apply Qmult_lt_0_compat; assumption).
  set (a := inject_Z (sH s) * spy s) in *.
  assert (E: - inject_Z (sH s) * spy s / 2 == - (a * (1#2))) by (unfold a; field).
  assert (E2: a / 2 == a * (1#2)) by field.
  rewrite E, E2. clearbody a. lra.
Qed.

(* the edges are increasing, start at the left/bottom end of the extent and stop at the right/top end *)
Lemma edges_x_sorted : forall s i j, good s -> (i < j)%nat ->
  edge (xlo s) (xhi s) (nbx s) i < edge (xlo s) (xhi s) (nbx s) j.
Proof. intros s i j G Hij. apply edge_lt; [apply G | apply x_range; assumption | assumption]. Qed.

(* ------------------------------------------------------------------ the pixel a particle is counted in *)
Lemma bins_of_spec : forall s p c k, good s ->
  (c < nbx s)%nat -> (k < nby s)%nat ->
  edge (xlo s) (xhi s) (nbx s) c <= p_x p < edge (xlo s) (xhi s) (nbx s) (S c) ->
  edge (ylo s) (yhi s) (nby s) k <= p_y p < edge (ylo s) (yhi s) (nby s) (S k) ->
  bins_of s p = Some (c, k).
Proof.
  intros s p c k G Hc Hk [Hx1 Hx2] [Hy1 Hy2]. unfold bins_of, edges_x, edges_y.
  rewrite (bin_index_spec (xlo s) (xhi s) (nbx s) (p_x p) c); try assumption; try apply G; [|apply x_range; assumption|left; assumption].
  rewrite (bin_index_spec (ylo s) (yhi s) (nby s) (p_y p) k); try assumption; try apply G; [|apply y_range; assumption|left; assumption].
  reflexivity.
Qed.

(* pixel (r, c) of the image, for the particle as the screen recorded it *)
Lemma pixel_of_spec : forall s p r c, good s ->
  (c < nbx s)%nat -> (r < nby s)%nat ->
  edge (xlo s) (xhi s) (nbx s) c <= p_x p < edge (xlo s) (xhi s) (nbx s) (S c) ->
  edge (ylo s) (yhi s) (nby s) (nby s - 1 - r) <= p_y p < edge (ylo s) (yhi s) (nby s) (nby s - r) ->
  pixel_of s p = Some (r, c).
Proof.
  intros s p r c G Hc Hr Hx Hy. unfold pixel_of.
  rewrite (bins_of_spec s p c (nby s - 1 - r)%nat); try assumption; try lia.
  - f_equal. f_equal. lia.
  - replace (S (nby s - 1 - r)) with (nby s - r)%nat by lia. assumption.
Qed.

Lemma bins_of_bound : forall s p ix iy, (0 < nbx s)%nat -> (0 < nby s)%nat ->
  bins_of s p = Some (ix, iy) -> (ix < nbx s)%nat /\ (iy < nby s)%nat.
Proof.
  intros s p ix iy Hx Hy H. unfold bins_of in H.
  destruct (bin_index (edges_x s) (p_x p)) as [a|] eqn:Ea; [|discriminate].
  destruct (bin_index (edges_y s) (p_y p)) as [b|] eqn:Eb; [|discriminate].
  injection H as <- <-.
  apply bin_index_bound in Ea; [|unfold edges_x; rewrite linspace_length; lia].
  apply bin_index_bound in Eb; [|unfold edges_y; rewrite linspace_length; lia].
  unfold edges_x in Ea; unfold edges_y in Eb. rewrite linspace_length in *. lia.
Qed.

(* what one more particle adds to the image *)
Lemma image_cons : forall s p ps r c,
  at2 (hist_image s (p :: ps)) r c ==
  (if hits (bins_of s p) c (nby s - 1 - r) then weight p else 0) + at2 (hist_image s ps) r c.
Proof. intros. reflexivity. Qed.

Lemma hits_pixel : forall s p r c, (0 < nbx s)%nat -> (0 < nby s)%nat -> (r < nby s)%nat ->
  hits (bins_of s p) c (nby s - 1 - r) = true <-> pixel_of s p = Some (r, c).
Proof.
  intros s p r c Hx Hy Hr. unfold pixel_of, hits.
  destruct (bins_of s p) as [[ix iy]|] eqn:E; [|split; intros; discriminate].
  apply bins_of_bound in E; try assumption. destruct E as [E1 E2].
  rewrite andb_true_iff, !Nat.eqb_eq. split.
  - intros [-> ->]. f_equal. f_equal. lia.
  - intros H. injection H as <- <-. split; [reflexivity | lia].
Qed.

(* a particle in pixel (r, c) is counted there, with its charge times its survival probability ... *)
Lemma image_counts : forall s p ps r c, (0 < nbx s)%nat -> (0 < nby s)%nat -> (r < nby s)%nat ->
  pixel_of s p = Some (r, c) ->
  at2 (hist_image s (p :: ps)) r c == weight p + at2 (hist_image s ps) r c.
Proof.
  intros s p ps r c Hx Hy Hr H. rewrite image_cons.
  apply (hits_pixel s p r c Hx Hy Hr) in H. rewrite H. reflexivity.
Qed.

(* ... and nowhere else *)
Lemma image_counts_not : forall s p ps r c, (0 < nbx s)%nat -> (0 < nby s)%nat -> (r < nby s)%nat ->
  pixel_of s p <> Some (r, c) ->
  at2 (hist_image s (p :: ps)) r c == at2 (hist_image s ps) r c.
Proof.
  intros s p ps r c Hx Hy Hr H. rewrite image_cons.
  destruct (hits (bins_of s p) c (nby s - 1 - r)) eqn:E.
  - apply (hits_pixel s p r c Hx Hy Hr) in E. contradiction.
  - ring.
Qed.

(* ------------------------------------------------------------------ property clauses *)
(* strictly inside pixel (r, c) of the ideal grid centred on the (misaligned) screen centre (cx, cy) *)
Definition in_pixel (s : screen) (cx cy x y : Q) (r c : nat) : Prop :=
  (c < nbx s)%nat /\ (r < nby s)%nat /\
  edge (xlo s) (xhi s) (nbx s) c < x - cx < edge (xlo s) (xhi s) (nbx s) (S c) /\
  edge (ylo s) (yhi s) (nby s) (nby s - 1 - r) < y - cy < edge (ylo s) (yhi s) (nby s) (nby s - r).

(* code as it is: correct for every x-misalignment, when the y-misalignment is zero *)
Lemma pixel_contains : forall s p r c, good s -> sdy s == 0 ->
  in_pixel s (sdx s) (sdy s) (p_x p) (p_y p) r c ->
  pixel_of s (read_particle s p) = Some (r, c).
Proof.
  intros s p r c G Hdy (Hc & Hr & Hx & Hy).
  apply pixel_of_spec; try assumption; simpl; lra.
Qed.

(* with the y-misalignment applied to y (index 2) it would hold for every misalignment *)
Lemma pixel_contains_fixed : forall s p r c, good s ->
  in_pixel s (sdx s) (sdy s) (p_x p) (p_y p) r c ->
  pixel_of s (read_particle_fixed s p) = Some (r, c).
Proof.
  intros s p r c G (Hc & Hr & Hx & Hy).
  apply pixel_of_spec; try assumption; simpl; lra.
Qed.

(* F14: a y-misaligned screen puts the particle into the wrong row (and shifts px instead) *)
Definition f14_screen : screen := mkscreen 6 4 1 (1#2) (1#4) 0 (1#4) true false.
Definition f14_particle : particle := mkP (1#4) 0 (1#8) 0 1 1.
Lemma misalign_y_refuted :
  good f14_screen /\
  in_pixel f14_screen (sdx f14_screen) (sdy f14_screen) (p_x f14_particle) (p_y f14_particle) 2 3 /\
  pixel_of f14_screen (read_particle f14_screen f14_particle) = Some (1%nat, 3%nat) /\
  p_px (read_particle f14_screen f14_particle) == - (1#4).
Proof.
  split; [|split; [|split]].
  - unfold good; vm_compute; repeat split; try lia; reflexivity.
  - unfold in_pixel; vm_compute. repeat split; try lia; try reflexivity.
  - vm_compute; reflexivity.
  - vm_compute; reflexivity.
Qed.

(* row 0 is the top: the top row collects exactly the highest y-bin, and rows go down as y goes up *)
Lemma row0_is_top : forall s p c, good s -> (c < nbx s)%nat ->
  edge (xlo s) (xhi s) (nbx s) c <= p_x p < edge (xlo s) (xhi s) (nbx s) (S c) ->
  edge (ylo s) (yhi s) (nby s) (nby s - 1) <= p_y p <= yhi s ->
  pixel_of s p = Some (0%nat, c).
Proof.
  intros s p c G Hc [Hx1 Hx2] [Hy1 Hy2]. destruct G as (Gx & Gy & Gp) eqn:EG. clear EG.
  unfold pixel_of, bins_of, edges_x, edges_y.
  rewrite (bin_index_spec (xlo s) (xhi s) (nbx s) (p_x p) c); try assumption; [|apply x_range; assumption|left; assumption].
  rewrite (bin_index_spec (ylo s) (yhi s) (nby s) (p_y p) (nby s - 1)); try assumption; try lia;
    [|apply y_range; assumption|right; split; [lia|assumption]].
  f_equal. f_equal. lia.
Qed.

Lemma rows_descend : forall s p1 p2 r1 c1 r2 c2, (0 < nbx s)%nat -> (0 < nby s)%nat ->
  pixel_of s p1 = Some (r1, c1) -> pixel_of s p2 = Some (r2, c2) -> p_y p1 <= p_y p2 -> (r2 <= r1)%nat.
Proof.
  intros s p1 p2 r1 c1 r2 c2 Hx Hy H1 H2 Hle. unfold pixel_of in *.
  destruct (bins_of s p1) as [[a1 b1]|] eqn:E1; [|discriminate].
  destruct (bins_of s p2) as [[a2 b2]|] eqn:E2; [|discriminate].
  injection H1 as <- <-. injection H2 as <- <-.
  unfold bins_of in E1, E2.
  destruct (bin_index (edges_x s) (p_x p1)); [|discriminate].
  destruct (bin_index (edges_y s) (p_y p1)) eqn:F1; [|discriminate].
  destruct (bin_index (edges_x s) (p_x p2)); [|discriminate].
  destruct (bin_index (edges_y s) (p_y p2)) eqn:F2; [|discriminate].
  injection E1 as <- <-. injection E2 as <- <-.
  pose proof (bin_index_mono _ _ _ _ _ Hle F1 F2). lia.
Qed.

Lemma cols_ascend : forall s p1 p2 r1 c1 r2 c2,
  pixel_of s p1 = Some (r1, c1) -> pixel_of s p2 = Some (r2, c2) -> p_x p1 <= p_x p2 -> (c1 <= c2)%nat.
Proof.
  intros s p1 p2 r1 c1 r2 c2 H1 H2 Hle. unfold pixel_of in *.
  destruct (bins_of s p1) as [[a1 b1]|] eqn:E1; [|discriminate].
  destruct (bins_of s p2) as [[a2 b2]|] eqn:E2; [|discriminate].
  injection H1 as <- <-. injection H2 as <- <-.
  unfold bins_of in E1, E2.
  destruct (bin_index (edges_x s) (p_x p1)) eqn:F1; [|discriminate].
  destruct (bin_index (edges_y s) (p_y p1)); [|discriminate].
  destruct (bin_index (edges_x s) (p_x p2)) eqn:F2; [|discriminate].
  destruct (bin_index (edges_y s) (p_y p2)); [|discriminate].
  injection E1 as <- <-. injection E2 as <- <-.
  exact (bin_index_mono _ _ _ _ _ Hle F1 F2).
Qed.

(* ------------------------------------------------------------------ total of the histogram image *)
Definition total (t : tensor2) : Q :=
  sumQ (map (fun i => sumQ (map (fun j => at2 t i j) (seq 0 (cols t)))) (seq 0 (rows t))).

Lemma inside_bins : forall s p, good s -> (inside s p = true <-> bins_of s p <> None).
Proof.
  intros s p G. pose proof (x_range s G) as HX. pose proof (y_range s G) as HY.
  destruct G as (Gx & Gy & _).
  unfold inside, bins_of.
  pose proof (bin_index_none (edges_x s) (p_x p) (linspace_nonempty _ _ _)) as Nx.
  pose proof (bin_index_none (edges_y s) (p_y p) (linspace_nonempty _ _ _)) as Ny.
  unfold edges_x in Nx at 2 3; unfold edges_y in Ny at 2 3.
  rewrite linspace_hd, linspace_last in Nx, Ny.
  assert (Ex : Qle_bool (edge (xlo s) (xhi s) (nbx s) 0) (p_x p) && Qle_bool (p_x p) (edge (xlo s) (xhi s) (nbx s) (nbx s))
               = Qle_bool (xlo s) (p_x p) && Qle_bool (p_x p) (xhi s)).
  { pose proof (edge_0 (xlo s) (xhi s) (nbx s)). pose proof (edge_n (xlo s) (xhi s) (nbx s) Gx).
    apply eq_true_iff_eq. rewrite !andb_true_iff, !Qle_bool_iff. rewrite H, H0. reflexivity. }
  assert (Ey : Qle_bool (edge (ylo s) (yhi s) (nby s) 0) (p_y p) && Qle_bool (p_y p) (edge (ylo s) (yhi s) (nby s) (nby s))
               = Qle_bool (ylo s) (p_y p) && Qle_bool (p_y p) (yhi s)).
  { pose proof (edge_0 (ylo s) (yhi s) (nby s)). pose proof (edge_n (ylo s) (yhi s) (nby s) Gy).
    apply eq_true_iff_eq. rewrite !andb_true_iff, !Qle_bool_iff. rewrite H, H0. reflexivity. }
  rewrite Ex in Nx. rewrite Ey in Ny.
  destruct (bin_index (edges_x s) (p_x p)); destruct (bin_index (edges_y s) (p_y p));
    destruct (Qle_bool (xlo s) (p_x p) && Qle_bool (p_x p) (xhi s));
    destruct (Qle_bool (ylo s) (p_y p) && Qle_bool (p_y p) (yhi s)); simpl; split; intros; try congruence;
    try (destruct Nx as [Nx1 Nx2]; try (specialize (Nx1 eq_refl)); try (specialize (Nx2 eq_refl)); congruence);
    try (destruct Ny as [Ny1 Ny2]; try (specialize (Ny1 eq_refl)); try (specialize (Ny2 eq_refl)); congruence).
Qed.

Lemma total_one : forall s p, good s ->
  sumQ (map (fun r => sumQ (map (fun c => if hits (bins_of s p) c (nby s - 1 - r) then weight p else 0) (seq 0 (nbx s)))) (seq 0 (nby s)))
  == if inside s p then weight p else 0.
Proof.
  intros s p G. pose proof (inside_bins s p G) as HI. destruct G as (Gx & Gy & _).
  destruct (bins_of s p) as [[ix iy]|] eqn:E.
  - assert (inside s p = true) by (apply HI; congruence). rewrite H.
    destruct (bins_of_bound s p ix iy Gx Gy E) as [Bx By].
    rewrite sumQ_map_ext with (g := fun r => if Nat.eqb r (nby s - 1 - iy) then weight p else 0).
    + rewrite (sum_ind (weight p) (nby s - 1 - iy) (nby s) (fun r => Nat.eqb r (nby s - 1 - iy))) by reflexivity.
      replace (nby s - 1 - iy <? nby s)%nat with true by (symmetry; apply Nat.ltb_lt; lia). reflexivity.
    + intros r Hr. apply in_seq in Hr. simpl hits.
      destruct (Nat.eqb_spec iy (nby s - 1 - r)).
      * rewrite (sum_ind (weight p) ix (nbx s) (fun c => Nat.eqb ix c && true)).
        -- replace (ix <? nbx s)%nat with true by (symmetry; apply Nat.ltb_lt; lia).
           replace (r =? nby s - 1 - iy)%nat with true by (symmetry; apply Nat.eqb_eq; lia). reflexivity.
        -- intros. rewrite andb_true_r. apply Nat.eqb_sym.
      * rewrite sumQ_map_ext with (g := fun _ => 0).
        -- rewrite sumQ_map_zero. replace (r =? nby s - 1 - iy)%nat with false by (symmetry; apply Nat.eqb_neq; lia). reflexivity.
        -- intros. rewrite andb_false_r. reflexivity.
  - assert (inside s p = false).
    { destruct (inside s p); [|reflexivity]. exfalso. apply (proj1 HI eq_refl). reflexivity. }
    rewrite H. simpl hits.
    rewrite sumQ_map_ext with (g := fun _ => 0); [apply sumQ_map_zero|].
    intros. apply sumQ_map_zero.
Qed.

(* the histogram image sums to the surviving charge that falls inside the screen *)
Lemma hist_sum : forall s ps, good s ->
  total (hist_image s ps) == sumQ (map (fun p => if inside s p then weight p else 0) ps).
Proof.
  intros s ps G. unfold total. change (rows (hist_image s ps)) with (nby s). change (cols (hist_image s ps)) with (nbx s).
  induction ps as [|p ps IH].
  - simpl map at 3. simpl sumQ at 3.
    rewrite sumQ_map_ext with (g := fun _ => 0); [apply sumQ_map_zero|].
    intros. apply (sumQ_map_zero nat).
  - rewrite sumQ_map_ext with
      (g := fun r => sumQ (map (fun c => if hits (bins_of s p) c (nby s - 1 - r) then weight p else 0) (seq 0 (nbx s)))
                     + sumQ (map (fun c => at2 (hist_image s ps) r c) (seq 0 (nbx s)))).
    + rewrite sumQ_map_add, IH, total_one by assumption. reflexivity.
    + intros r _. rewrite <- sumQ_map_add. apply sumQ_map_ext. intros c _. apply image_cons.
Qed.

(* ------------------------------------------------------------------ BPM *)
Lemma centroid_sum : forall (f : particle -> Q) m ps,
  sumQ (map (fun p => (f p - m) * p_s p) ps) == sumQ (map (fun p => f p * p_s p) ps) - m * sumQ (map p_s ps).
Proof. induction ps; simpl; [ring | rewrite IHps; ring]. Qed.

(* the reading is the survival-weighted centroid: first moments about it vanish *)
Lemma bpm_centroid : forall active ps, ~ sumQ (map p_s ps) == 0 ->
  let '(out, (rx, ry)) := bpm_track active (Particles ps) in
  out = Particles ps /\
  sumQ (map (fun p => (p_x p - rx) * p_s p) ps) == 0 /\
  sumQ (map (fun p => (p_y p - ry) * p_s p) ps) == 0.
Proof.
  intros active ps H. simpl. split; [reflexivity|]. unfold centroid.
  split; rewrite centroid_sum; field; assumption.
Qed.

Lemma bpm_param : forall active mx mpx my mpy q,
  bpm_track active (Params mx mpx my mpy q) = (Params mx mpx my mpy q, (mx, my)).
Proof. reflexivity. Qed.

(* a screen does not move the BPM's view except by its own misalignment: shifting the beam shifts the reading *)
Lemma centroid_shift : forall ps d, ~ sumQ (map p_s ps) == 0 ->
  centroid (fun p => p_x p + d) ps == centroid p_x ps + d.
Proof.
  intros ps d H. unfold centroid.
  assert (sumQ (map (fun p => (p_x p + d) * p_s p) ps) == sumQ (map (fun p => p_x p * p_s p) ps) + d * sumQ (map p_s ps)).
  { clear H. induction ps; simpl; [ring | rewrite IHps; ring]. }
  rewrite H0. field. assumption.
Qed.

(* ------------------------------------------------------------------ inactive / blocking *)
Lemma inactive_passthrough : forall s b, sactive s = false -> screen_track s b = (b, None).
Proof. intros s b H. unfold screen_track. rewrite H. reflexivity. Qed.

Lemma bpm_passthrough : forall active b, fst (bpm_track active b) = b.
Proof. reflexivity. Qed.

Lemma active_nonblocking_passthrough : forall s b, sactive s = true -> sblocking s = false ->
  screen_track s b = (b, Some (read_beam s b)).
Proof. intros s b H1 H2. unfold screen_track. rewrite H1, H2. reflexivity. Qed.

Lemma blocking_kills : forall s ps, sactive s = true -> sblocking s = true ->
  exists ps', fst (screen_track s (Particles ps)) = Particles ps' /\
    map p_x ps' = map p_x ps /\ map p_y ps' = map p_y ps /\ map p_q ps' = map p_q ps /\ map p_s ps' = map (fun _ => 0) ps.
Proof.
  intros s ps H1 H2. unfold screen_track. rewrite H1, H2. simpl.
  eexists; split; [reflexivity|]. rewrite !map_map. simpl. repeat split.
Qed.

(* no beam read yet, or a particle beam: the reading has the shape (vertical, horizontal) *)
Lemma reading_shape_ok : forall s rd, (rd = None \/ exists ps, rd = Some (Particles ps)) ->
  reading_shape s rd = (Z.to_nat (sH s / sbin s), Z.to_nat (sW s / sbin s)).
Proof. intros s rd [-> | [ps ->]]; reflexivity. Qed.

(* F15: a ParameterBeam image on a 6 x 4 screen has shape (6, 4), not (4, 6), and is sampled at the
   left pixel edges *)
Definition f15_screen : screen := mkscreen 6 4 1 (1#2) (1#4) 0 0 true false.
Lemma param_image_shape_refuted :
  good f15_screen /\
  reading_shape f15_screen (Some (Params 0 0 0 0 1)) = (6%nat, 4%nat) /\
  (Z.to_nat (sH f15_screen / sbin f15_screen), Z.to_nat (sW f15_screen / sbin f15_screen)) = (4%nat, 6%nat) /\
  param_sample_x f15_screen 3 == edge (xlo f15_screen) (xhi f15_screen) (nbx f15_screen) 3 /\
  ~ param_sample_x f15_screen 3 == nth 3 (centers_x f15_screen) 0.
Proof.
  split; [|split; [|split; [|split]]].
  - unfold good; vm_compute; repeat split; try lia; reflexivity.
  - vm_compute; reflexivity.
  - vm_compute; reflexivity.
  - vm_compute; reflexivity.
  - vm_compute. discriminate.
Qed.

(* in general the x samples of the ParameterBeam image are the left edges of the pixels (when binning divides the width) *)
Lemma param_samples_at_left_edges : forall s i, (0 < nbx s)%nat -> (0 < sbin s)%Z ->
  (sW s = sbin s * (sW s / sbin s))%Z ->
  param_sample_x s i == edge (xlo s) (xhi s) (nbx s) i.
Proof.
  intros s i Hn Hb Hdiv. rewrite edge_alt by assumption. unfold param_sample_x.
  assert (E : inject_Z (sW s) == inject_Z (sbin s) * qnat (nbx s)).
  { unfold qnat, nbx. rewrite Z2Nat.id by (unfold nbx in Hn; lia). rewrite <- inject_Z_mult. rewrite <- Hdiv. reflexivity. }
  pose proof (qnat_pos (nbx s) Hn). unfold xhi, xlo. rewrite E. field. lra.
Qed.

(* F15 on a SQUARE screen: same shape, but the ParameterBeam peak is at [x index][flipped y index] of the nearest
   left/bottom pixel EDGES -- (7, 4) -- while the particle image of the same point peaks in pixel (row 5, column 6) *)
Definition f15b_screen : screen := mkscreen 8 8 1 (1#2) (1#2) 0 0 true false.
Lemma param_peak_refuted :
  reading_shape f15b_screen (Some (Params 0 0 0 0 1)) = reading_shape f15b_screen (Some (Particles [])) /\
  pixel_of f15b_screen (mkP (21#16) 0 (-(11#16)) 0 1 1) = Some (5%nat, 6%nat) /\
  param_peak f15b_screen (21#16) (-(11#16)) = (7%nat, 4%nat).
Proof. repeat split; vm_compute; reflexivity. Qed.
