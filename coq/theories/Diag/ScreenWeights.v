(** C20, survival weights: a histogram screen weighs every particle with charge * survival probability.
    Consequences proved here (model Diag/Screen.v, unchanged): a lost particle (survival 0) is invisible in every
    pixel; the image of a beam equals the image of the beam with the lost particles deleted; a particle with
    charge q and survival s shows exactly like one with charge q*s and survival 1; the image is additive in
    the weight (a pixel's value is the weighted count of the particles recorded in it). *)
From Coq Require Import List Bool ZArith QArith Lia Lqa.
From Cheetah Require Import Diag.Screen Diag.ScreenProofs.
Import ListNotations.
Open Scope Q_scope.

Lemma lost_invisible : forall s p ps r c, p_s p == 0 ->
  at2 (hist_image s (p :: ps)) r c == at2 (hist_image s ps) r c.
Proof.
  intros s p ps r c H. rewrite image_cons. unfold weight.
  destruct (hits (bins_of s p) c (nby s - 1 - r)); [rewrite H|]; ring.
Qed.

Definition survives (p : particle) : bool := negb (Qeq_bool (p_s p) 0).

Lemma image_cons_congr : forall s p ps ps' r c,
  at2 (hist_image s ps) r c == at2 (hist_image s ps') r c ->
  at2 (hist_image s (p :: ps)) r c == at2 (hist_image s (p :: ps')) r c.
Proof. intros. rewrite !image_cons. rewrite H. reflexivity. Qed.

(* the image of a beam == the image of the beam with the lost particles deleted, pixel by pixel *)
Lemma lost_deleted : forall s ps r c,
  at2 (hist_image s ps) r c == at2 (hist_image s (filter survives ps)) r c.
Proof.
  intros s ps r c. induction ps as [|p ps IH]; [reflexivity|].
  simpl filter. unfold survives at 1. destruct (Qeq_bool (p_s p) 0) eqn:E; simpl negb; cbv iota.
  - apply Qeq_bool_iff in E. rewrite lost_invisible by assumption. exact IH.
  - apply image_cons_congr. exact IH.
Qed.

(* only the product charge * survival matters *)
Definition fold_weight (p : particle) : particle := mkP (p_x p) (p_px p) (p_y p) (p_py p) (p_q p * p_s p) 1.

Lemma weight_folded : forall s ps r c,
  at2 (hist_image s ps) r c == at2 (hist_image s (map fold_weight ps)) r c.
Proof.
  intros s ps r c. induction ps as [|p ps IH]; [reflexivity|].
  simpl map. rewrite !image_cons. rewrite IH.
  assert (Hb : bins_of s (fold_weight p) = bins_of s p) by reflexivity.
  rewrite Hb. unfold weight, fold_weight; simpl.
  destruct (hits (bins_of s p) c (nby s - 1 - r)); ring.
Qed.

(* a pixel is the weighted count of the particles recorded in it *)
Lemma pixel_weighted_count : forall s ps r c,
  at2 (hist_image s ps) r c ==
  sumQ (map (fun p => if hits (bins_of s p) c (nby s - 1 - r) then p_q p * p_s p else 0) ps).
Proof.
  intros s ps r c. induction ps as [|p ps IH].
  - reflexivity.
  - rewrite image_cons, IH. simpl. unfold weight. reflexivity.
Qed.
