(** Support for the GENERATED transcription of cheetah's Bmad-X tracking code and coordinate conversions
    (Gen/BmadxGen.v, written by harness/translate_bmadx.py from /repo's source text) and for the proofs that it coincides
    with the hand-written models Bmadx/*.v and Beam/SI.v (Gen/BmadxGenEquiv.v).

    This file fixes the Coq meaning of the PRIMITIVES the translator emits (its "primitive table"):
      [m_e], [c_light]   electron_mass_eV, speed_of_light: the constants of Optics/Maps.v (values asserted numerically by the harness)
      [dp_eps]           double_precision_epsilon = torch.finfo(torch.float64).eps = 2^-52
      [tsinc]            torch.sinc(x) = sin(pi x)/(pi x), 1 at x = 0
      [atan2], [rnd]     torch.arctan2, torch.round: the definitions of Bmadx/BendX.v (quadrant-wise atan; ties to even)
      [py_for]           for _ in range(n): state = body(state)
    and proves the helper lemmas about masks used as factors ([e * (a < b)] is [e * (if Rlt_dec a b then 1 else 0)]). *)
From Coq Require Import Reals Lra Lia.
From Cheetah Require Optics.Maps Bmadx.BendX.
Open Scope R_scope.

Definition m_e : R := Optics.Maps.m_e.
Definition c_light : R := Optics.Maps.c_light.
Definition dp_eps : R := / 4503599627370496.
Definition tsinc (x : R) : R := if Req_EM_T x 0 then 1 else sin (PI * x) / (PI * x).
Definition atan2 (y x : R) : R := Bmadx.BendX.atan2 y x.
Definition rnd (x : R) : R := Bmadx.BendX.rnd x.
Definition py_for {A : Type} (n : nat) (body : A -> A) (init : A) : A := Nat.iter n body init.

(** ** masks as factors: two complementary masks make an if-then-else (over R; for finite operands in floating point) *)
Lemma mask_le_gt (a b x y : R) :
  a * (if Rle_dec x y then 1 else 0) + b * (if Rlt_dec y x then 1 else 0) = if Rle_dec x y then a else b.
Proof. destruct (Rle_dec x y), (Rlt_dec y x); try lra; ring. Qed.

Lemma mask_lt_ge (a b x y : R) :
  a * (if Rlt_dec x y then 1 else 0) + b * (if Rle_dec y x then 1 else 0) = if Rlt_dec x y then a else b.
Proof. destruct (Rlt_dec x y), (Rle_dec y x); try lra; ring. Qed.

Lemma if_bool_R {T} (P : Prop) (d : {P} + {~ P}) (a b : T) :
  (if (if d then true else false) then a else b) = if d then a else b.
Proof. destruct d; reflexivity. Qed.

(** ** the loop: [py_for] against a tail-recursive iteration, and a simulation principle *)
Lemma py_for_S {A} (n : nat) (f : A -> A) (a : A) : py_for (S n) f a = py_for n f (f a).
Proof.
  unfold py_for. revert a. induction n as [|n IH]; intro a; [reflexivity|].
  change (Nat.iter (S (S n)) f a) with (f (Nat.iter (S n) f a)). rewrite IH. reflexivity.
Qed.

(** if one pass of the generated body on the image [proj q] of a model state is the image of the model's step, then the
    generated loop computes the image of the iterated model step ([inv] is an invariant of the model step) *)
Lemma py_for_sim {A B} (proj : B -> A) (inv : B -> Prop) (f : A -> A) (g : B -> B)
  (iterB : nat -> (B -> B) -> B -> B)
  (iterB_0 : forall h b, iterB O h b = b) (iterB_S : forall n h b, iterB (S n) h b = iterB n h (h b)) :
  (forall q, inv q -> f (proj q) = proj (g q) /\ inv (g q)) ->
  forall n q, inv q -> py_for n f (proj q) = proj (iterB n g q).
Proof.
  intros H n. induction n as [|n IH]; intros q Hq.
  - rewrite iterB_0. reflexivity.
  - rewrite py_for_S, iterB_S. destruct (H q Hq) as [E I]. rewrite E. apply IH. exact I.
Qed.

(** ** torch.sinc against sin x / x *)
Lemma tsinc_div_PI (x : R) : tsinc (x / PI) = if Req_EM_T x 0 then 1 else sin x / x.
Proof.
  unfold tsinc. pose proof PI_RGT_0 as HP.
  destruct (Req_EM_T (x / PI) 0) as [e|ne], (Req_EM_T x 0) as [e'|ne']; try reflexivity.
  - exfalso. apply ne'. apply (Rmult_eq_compat_r PI) in e. unfold Rdiv in e. rewrite Rmult_assoc, Rinv_l, Rmult_1_r, Rmult_0_l in e by lra. exact e.
  - exfalso. apply ne. rewrite e'. unfold Rdiv. ring.
  - replace (PI * (x / PI)) with x by (field; lra). reflexivity.
Qed.

Lemma pow2_Rsqr (x : R) : x ^ 2 = x².
Proof. unfold Rsqr. ring. Qed.
