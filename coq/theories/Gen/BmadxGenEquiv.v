(** generated transcription (Gen/BmadxGen.v, regenerated from /repo's source text on every run by
    harness/translate_bmadx.py)  =  hand-written models (Bmadx/Coords.v, DriftX.v, QuadX.v, BendX.v, Tdc.v, Beam/SI.v),
    definition by definition.

    The proofs unfold, zeta-expand the generated [let]s, rewrite the lemmas of the callees and compare (syntactic /
    convertible equality first, ring identities as a fallback), so they are insensitive to renamed locals, comments and layout
    of the Python source, while a change of a formula, mask, constant or order of operations makes the statement FALSE.
    Masks: the generated terms contain the code's mask products literally ([e * (if Rlt_dec a b then 1 else 0)]); that two
    complementary masks make the model's if-then-else is proved here with mask_le_gt / mask_lt_ge (BmadxGenBase.v).
    harness/translate_stage.py compiles this file against the fresh BmadxGen.v (the import line below is redirected to the
    fresh copy; it must stay on one line, exactly as written). *)
From Coq Require Import Reals Lra.
From Cheetah Require Import Bmadx.Coords Bmadx.DriftX Bmadx.Tdc Bmadx.QuadX Bmadx.BendX Beam.SI Gen.BmadxGenBase.
From Cheetah.Gen Require Import BmadxGen.
Open Scope R_scope.

Ltac tuples := repeat match goal with |- (_, _) = (_, _) => apply f_equal2 end.
Ltac entry := first [ reflexivity | unfold Rdiv, Rsqr; ring ].
Ltac gopen f := cbv beta iota zeta delta [f].
Ltac gopen2 f := cbv beta iota zeta delta [f]; rewrite ?pow2_Rsqr.

Lemma if_dec_ext {T} (P : Prop) (d : {P} + {~ P}) (a a' b b' : T) :
  a = a' -> b = b' -> (if d then a else b) = (if d then a' else b').
Proof. intros -> ->. reflexivity. Qed.

Lemma half_dec : 5e-1 = 1 / 2.
Proof. lra. Qed.

(** ** cheetah/utils/bmadx.py: longitudinal coordinate changes (Bmadx/Coords.v) *)
Lemma gen_cheetah_to_bmad_z_pz_eq (tau delta E0 m : R) :
  gen_cheetah_to_bmad_z_pz tau delta E0 m = (cb_z tau delta E0 m, cb_pz delta E0 m, cb_p0c E0 m).
Proof. gopen2 gen_cheetah_to_bmad_z_pz. tuples; entry. Qed.

Lemma gen_bmad_to_cheetah_z_pz_eq (z pz p0c m : R) :
  gen_bmad_to_cheetah_z_pz z pz p0c m = (bc_tau z pz p0c m, bc_delta pz p0c m, bc_refE p0c m).
Proof. gopen2 gen_bmad_to_cheetah_z_pz. tuples; entry. Qed.

(* whole-vector versions: columns 0..3 pass through, (4, 5) are converted, column 6 of the Cheetah vector is 1 *)
Lemma gen_cheetah_to_bmad_coords_eq (x px y py tau delta one E0 m : R) :
  gen_cheetah_to_bmad_coords x px y py tau delta one E0 m =
  (let q := to_bmad E0 m (mkc x px y py tau delta) in (bx q, bpx q, by_ q, bpy q, bz q, bpz q), cb_p0c E0 m).
Proof. gopen gen_cheetah_to_bmad_coords. rewrite gen_cheetah_to_bmad_z_pz_eq. reflexivity. Qed.

Lemma gen_bmad_to_cheetah_coords_eq (x px y py z pz p0c m : R) :
  gen_bmad_to_cheetah_coords x px y py z pz p0c m =
  (let v := to_cheetah p0c m (mkb x px y py z pz) in (cx v, cpx v, cy v, cpy v, ctau v, cdelta v, 1), bc_refE p0c m).
Proof. gopen gen_bmad_to_cheetah_coords. rewrite gen_bmad_to_cheetah_z_pz_eq. reflexivity. Qed.

(** ** offset_particle_set / unset (Bmadx/Tdc.v off_set / off_unset; z, pz are not arguments of the code) *)
Lemma gen_offset_particle_set_eq (ox oy tilt x px y py z pz : R) :
  gen_offset_particle_set ox oy tilt x px y py =
  (let q := off_set ox oy tilt (mkb x px y py z pz) in (bx q, bpx q, by_ q, bpy q)).
Proof. gopen gen_offset_particle_set. cbv beta iota zeta delta [off_set bx bpx by_ bpy]. tuples; entry. Qed.

Lemma gen_offset_particle_unset_eq (ox oy tilt x px y py z pz : R) :
  gen_offset_particle_unset ox oy tilt x px y py =
  (let q := off_unset ox oy tilt (mkb x px y py z pz) in (bx q, bpx q, by_ q, bpy q)).
Proof. gopen gen_offset_particle_unset. cbv beta iota zeta delta [off_unset bx bpx by_ bpy]. tuples; entry. Qed.

(** ** sqrt_one, track_a_drift, Drift._track_bmadx (Bmadx/DriftX.v) *)
Lemma gen_sqrt_one_eq (x : R) : gen_sqrt_one x = sqrt_one x.
Proof. reflexivity. Qed.

Lemma gen_track_a_drift_eq (L x px y py z pz p0c m : R) :
  gen_track_a_drift L x px y py z pz p0c m =
  (let q := driftx L p0c m (mkb x px y py z pz) in (bx q, by_ q, bz q)).
Proof.
  gopen2 gen_track_a_drift. rewrite !gen_sqrt_one_eq.
  cbv beta iota zeta delta [driftx bx bpx by_ bpy bz bpz dr_x dr_y dr_z dr_dz dr_Pl dr_Pxy2 dr_Px dr_P]. tuples; entry.
Qed.

Definition ctuple (v : cpart) (E : R) := (cx v, cpx v, cy v, cpy v, ctau v, cdelta v, E).

Lemma gen_Drift__track_bmadx_eq (L x px y py tau delta E0 : R) :
  gen_Drift__track_bmadx L x px y py tau delta E0 =
  ctuple (drift_bmadx_track L E0 m_e (mkc x px y py tau delta)) (drift_bmadx_energy E0 m_e).
Proof.
  gopen gen_Drift__track_bmadx. rewrite gen_cheetah_to_bmad_z_pz_eq. cbv beta iota zeta.
  rewrite gen_track_a_drift_eq. cbv beta iota zeta. rewrite gen_bmad_to_cheetah_z_pz_eq. reflexivity.
Qed.

(** ** low_energy_z_correction, calculate_quadrupole_coefficients, Quadrupole._track_bmadx (Bmadx/QuadX.v) *)
Lemma gen_low_energy_z_correction_eq (pz p0c m ds : R) : gen_low_energy_z_correction pz p0c m ds = lez pz p0c m ds.
Proof.
  gopen2 gen_low_energy_z_correction. rewrite mask_lt_ge.
  unfold lez, lez_b, lez_small. rewrite if_bool_R. apply if_dec_ext.
  - unfold lez_series, lez_beta0, lez_etot. entry.
  - unfold lez_exact, lez_beta, lez_beta0. entry.
Qed.

Lemma gen_calculate_quadrupole_coefficients_eq (k len relp eps : R) :
  gen_calculate_quadrupole_coefficients k len relp eps =
  (((qc_a11 (le0 k) eps k len, qc_a12 (le0 k) eps k len relp), (qc_a21 (le0 k) eps k len relp, qc_a22 (le0 k) eps k len)),
   (qc_c1 (le0 k) eps k len, qc_c2 (le0 k) eps k len relp, qc_c3 (le0 k) eps k len relp)).
Proof.
  gopen2 gen_calculate_quadrupole_coefficients. rewrite !mask_le_gt.
  unfold qc_a11, qc_a12, qc_a21, qc_a22, qc_c1, qc_c2, qc_c3, qc_cx, qc_sx, qc_skl, qc_sqrtk, le0.
  destruct (Rle_dec k 0); tuples; entry.
Qed.

(* double_precision_epsilon *)
Lemma dp_eps_eq : dp_eps = qx_eps.
Proof. reflexivity. Qed.

Definition proj5 (q : bpart) := (bx q, bpx q, by_ q, bpy q, bz q).

Lemma gen_Quadrupole__track_bmadx_eq (L k1 ox oy tilt : R) (n : nat) (x px y py tau delta E0 : R) :
  gen_Quadrupole__track_bmadx L k1 ox oy tilt n x px y py tau delta E0 =
  ctuple (quad_bmadx_track n L k1 ox oy tilt E0 m_e (mkc x px y py tau delta)) (drift_bmadx_energy E0 m_e).
Proof.
  gopen gen_Quadrupole__track_bmadx. rewrite gen_cheetah_to_bmad_z_pz_eq. cbv beta iota zeta.
  set (Z := cb_z tau delta E0 m_e). set (PZ := cb_pz delta E0 m_e). set (P0 := cb_p0c E0 m_e).
  rewrite (gen_offset_particle_set_eq ox oy tilt x px y py Z PZ). cbv beta iota zeta.
  set (Q0 := off_set ox oy tilt (mkb x px y py Z PZ)).
  match goal with |- context [py_for n ?f ?a] =>
    assert (HL : py_for n f a = proj5 (iter n (quadx_step qx_eps L k1 (L / INR n) P0 m_e) Q0)) end.
  { apply (py_for_sim proj5 (fun q => bpz q = PZ) _ (quadx_step qx_eps L k1 (L / INR n) P0 m_e) (@iter bpart)); [reflexivity | reflexivity | | reflexivity].
    intros q Hq. split; [| exact Hq].
    unfold proj5. cbv beta iota zeta. rewrite !gen_calculate_quadrupole_coefficients_eq. cbv beta iota zeta.
    rewrite gen_low_energy_z_correction_eq, dp_eps_eq.
    unfold quadx_step, quadx_step_b, qs_k1, lez. rewrite Hq.
    cbv beta iota zeta delta [bx bpx by_ bpy bz bpz]. tuples; entry. }
  rewrite HL. unfold proj5. cbv beta iota zeta.
  set (Q1 := iter n (quadx_step qx_eps L k1 (L / INR n) P0 m_e) Q0).
  assert (HPZ : bpz Q1 = PZ).
  { unfold Q1. assert (G : forall k q, bpz q = PZ -> bpz (iter k (quadx_step qx_eps L k1 (L / INR n) P0 m_e) q) = PZ).
    { induction k as [|k IH]; intros q Hq; [exact Hq | apply IH; exact Hq]. }
    apply G. reflexivity. }
  rewrite (gen_offset_particle_unset_eq ox oy tilt (bx Q1) (bpx Q1) (by_ Q1) (bpy Q1) (bz Q1) (bpz Q1)). cbv beta iota zeta.
  rewrite gen_bmad_to_cheetah_z_pz_eq, Rmult_1_r.
  unfold ctuple, quad_bmadx_track, quadx_bmad, to_cheetah, to_bmad, drift_bmadx_energy.
  cbv beta iota zeta delta [cx cpx cy cpy ctau cdelta].
  fold Z PZ P0 Q0 Q1.
  replace (mkb (bx Q1) (bpx Q1) (by_ Q1) (bpy Q1) (bz Q1) (bpz Q1)) with Q1 by (destruct Q1; reflexivity).
  assert (HU : bz (off_unset ox oy tilt Q1) = bz Q1 /\ bpz (off_unset ox oy tilt Q1) = PZ) by (split; [reflexivity | exact HPZ]).
  destruct HU as [HU1 HU2]. rewrite HU1, HU2. reflexivity.
Qed.

(** ** sinc, cosc, Dipole._bmadx_fringe_linear, Dipole._bmadx_body, Dipole._track_bmadx (Bmadx/BendX.v; the working tree
       carries the repair of finding F70, so the body is compared with [bendx_body_fixed]) *)
Lemma gen_sinc_eq (x : R) : gen_sinc x = bx_sinc x.
Proof. gopen gen_sinc. rewrite tsinc_div_PI. unfold bx_sinc, bx_sinc_b, is0. destruct (Req_EM_T x 0); reflexivity. Qed.

Lemma gen_cosc_eq (x : R) : gen_cosc x = bx_cosc x.
Proof. gopen gen_cosc. rewrite gen_sinc_eq. unfold bx_cosc. generalize (bx_sinc (x / 2) ^ 2). intro t. lra. Qed.

Lemma gen_Dipole__bmadx_fringe_linear_entrance_eq (L ang e1 e2 fint fintx gap gapx x px y py z pz : R) :
  gen_Dipole__bmadx_fringe_linear_entrance L ang e1 e2 fint fintx gap gapx x px y py =
  (let q := bendx_fringe L ang e1 fint gap (mkb x px y py z pz) in (bpx q, bpy q)).
Proof.
  gopen gen_Dipole__bmadx_fringe_linear_entrance. rewrite ?Rmult_1_r, ?Rmult_0_r, ?Rplus_0_r, ?Rplus_0_l, half_dec.
  cbv beta iota zeta delta [bendx_fringe bpx bpy bx by_ fr_hx fr_hy fr_g fr_hgap]. tuples; entry.
Qed.

Lemma gen_Dipole__bmadx_fringe_linear_exit_eq (L ang e1 e2 fint fintx gap gapx x px y py z pz : R) :
  gen_Dipole__bmadx_fringe_linear_exit L ang e1 e2 fint fintx gap gapx x px y py =
  (let q := bendx_fringe L ang e2 fintx gapx (mkb x px y py z pz) in (bpx q, bpy q)).
Proof.
  gopen gen_Dipole__bmadx_fringe_linear_exit. rewrite ?Rmult_1_r, ?Rmult_0_r, ?Rplus_0_r, ?Rplus_0_l, half_dec.
  cbv beta iota zeta delta [bendx_fringe bpx bpy bx by_ fr_hx fr_hy fr_g fr_hgap]. tuples; entry.
Qed.

Definition btuple (q : bpart) := (bx q, bpx q, by_ q, bpy q, bz q, bpz q).

Lemma gen_Dipole__bmadx_body_eq (L ang x px y py z pz p0c m : R) :
  gen_Dipole__bmadx_body L ang x px y py z pz p0c m = btuple (bendx_body_fixed L ang p0c m (mkb x px y py z pz)).
Proof.
  gopen gen_Dipole__bmadx_body. rewrite !gen_sinc_eq, !gen_cosc_eq, mask_lt_ge.
  unfold btuple, bendx_body_fixed, bendx_body_fixed_b.
  cbv beta iota zeta delta [bx bpx by_ bpy bz bpz].
  unfold bb_zerof, bb_krq, bb_quadrant. cbv beta iota zeta delta [bx bpx by_ bpy bz bpz].
  unfold bb_x2, bb_x2_b, bb_sel. rewrite !if_bool_R.
  reflexivity.
Qed.

Definition bend_of (L ang e1 e2 fint fintx gap gapx tilt : R) : bend_par := mkbend L ang e1 e2 fint fintx gap gapx tilt.

(* the four values of self.fringe_at; [fen], [fex] of the model are the outcomes of the code's two string tests *)
Ltac bend_track f :=
  gopen f; rewrite gen_cheetah_to_bmad_z_pz_eq; cbv beta iota zeta;
  rewrite (gen_offset_particle_set_eq _ _ _ _ _ _ _ 0 0); cbv beta iota zeta;
  rewrite ?(gen_Dipole__bmadx_fringe_linear_entrance_eq _ _ _ _ _ _ _ _ _ _ _ _ 0 0); cbv beta iota zeta;
  rewrite gen_Dipole__bmadx_body_eq; cbv beta iota zeta delta [btuple];
  rewrite ?(gen_Dipole__bmadx_fringe_linear_exit_eq _ _ _ _ _ _ _ _ _ _ _ _ 0 0); cbv beta iota zeta;
  rewrite (gen_offset_particle_unset_eq _ _ _ _ _ _ _ 0 0); cbv beta iota zeta;
  rewrite gen_bmad_to_cheetah_z_pz_eq; reflexivity.

Lemma gen_Dipole__track_bmadx_neither_eq (L ang e1 e2 fint fintx gap gapx tilt x px y py tau delta E0 : R) :
  gen_Dipole__track_bmadx_neither L ang e1 e2 fint fintx gap gapx tilt x px y py tau delta E0 =
  ctuple (bend_bmadx_track_fixed false false (bend_of L ang e1 e2 fint fintx gap gapx tilt) E0 m_e (mkc x px y py tau delta))
         (drift_bmadx_energy E0 m_e).
Proof. bend_track gen_Dipole__track_bmadx_neither. Qed.

Lemma gen_Dipole__track_bmadx_entrance_eq (L ang e1 e2 fint fintx gap gapx tilt x px y py tau delta E0 : R) :
  gen_Dipole__track_bmadx_entrance L ang e1 e2 fint fintx gap gapx tilt x px y py tau delta E0 =
  ctuple (bend_bmadx_track_fixed true false (bend_of L ang e1 e2 fint fintx gap gapx tilt) E0 m_e (mkc x px y py tau delta))
         (drift_bmadx_energy E0 m_e).
Proof. bend_track gen_Dipole__track_bmadx_entrance. Qed.

Lemma gen_Dipole__track_bmadx_exit_eq (L ang e1 e2 fint fintx gap gapx tilt x px y py tau delta E0 : R) :
  gen_Dipole__track_bmadx_exit L ang e1 e2 fint fintx gap gapx tilt x px y py tau delta E0 =
  ctuple (bend_bmadx_track_fixed false true (bend_of L ang e1 e2 fint fintx gap gapx tilt) E0 m_e (mkc x px y py tau delta))
         (drift_bmadx_energy E0 m_e).
Proof. bend_track gen_Dipole__track_bmadx_exit. Qed.

Lemma gen_Dipole__track_bmadx_both_eq (L ang e1 e2 fint fintx gap gapx tilt x px y py tau delta E0 : R) :
  gen_Dipole__track_bmadx_both L ang e1 e2 fint fintx gap gapx tilt x px y py tau delta E0 =
  ctuple (bend_bmadx_track_fixed true true (bend_of L ang e1 e2 fint fintx gap gapx tilt) E0 m_e (mkc x px y py tau delta))
         (drift_bmadx_energy E0 m_e).
Proof. bend_track gen_Dipole__track_bmadx_both. Qed.

(** ** particle_rf_time, TransverseDeflectingCavity._track_bmadx (Bmadx/Tdc.v) *)
Lemma gen_particle_rf_time_eq (z pz p0c m : R) : gen_particle_rf_time z pz p0c m = k_time c_light p0c m z pz.
Proof. gopen2 gen_particle_rf_time. reflexivity. Qed.

Lemma gen_TransverseDeflectingCavity__track_bmadx_eq (L V phi f ox oy tilt x px y py tau delta E0 : R) :
  gen_TransverseDeflectingCavity__track_bmadx L V phi f ox oy tilt x px y py tau delta E0 =
  ctuple (to_cheetah (cb_p0c E0 m_e) m_e
            (tdc_bmad L V phi f c_light ox oy tilt (cb_p0c E0 m_e) m_e (to_bmad E0 m_e (mkc x px y py tau delta))))
         (drift_bmadx_energy E0 m_e).
Proof.
  gopen2 gen_TransverseDeflectingCavity__track_bmadx. rewrite gen_cheetah_to_bmad_z_pz_eq; cbv beta iota zeta.
  rewrite (gen_offset_particle_set_eq _ _ _ _ _ _ _ 0 0); cbv beta iota zeta.
  rewrite gen_track_a_drift_eq; cbv beta iota zeta. rewrite gen_particle_rf_time_eq.
  rewrite gen_track_a_drift_eq; cbv beta iota zeta.
  rewrite (gen_offset_particle_unset_eq _ _ _ _ _ _ _ 0 0); cbv beta iota zeta.
  rewrite gen_bmad_to_cheetah_z_pz_eq, ?pow2_Rsqr. reflexivity.
Qed.

(** ** cheetah/particles/beam.py, particle_beam.py: reference quantities, energies/momenta, SI conversions (Beam/SI.v) *)
Lemma gen_Beam_relativistic_gamma_eq (E : R) : gen_Beam_relativistic_gamma E = si_gamma0 E m_e.
Proof. reflexivity. Qed.

Lemma gen_Beam_relativistic_beta_eq (E : R) : gen_Beam_relativistic_beta E = si_beta0 E m_e.
Proof.
  gopen2 gen_Beam_relativistic_beta. rewrite gen_Beam_relativistic_gamma_eq. unfold si_beta0.
  destruct (Rlt_dec 0 (Rabs (si_gamma0 E m_e))) as [h|h], (Req_EM_T (si_gamma0 E m_e) 0) as [e|e]; try reflexivity.
  - rewrite e, Rabs_R0 in h. lra.
  - exfalso. apply h. apply Rabs_pos_lt. exact e.
Qed.

(* the masked write  beta[|gamma| > 0] = sqrt(1 - 1/gamma[gamma > 0]**2)  raises unless both masks agree: gamma >= 0 *)
Lemma gen_Beam_relativistic_beta_pre_eq (E : R) : gen_Beam_relativistic_beta_pre E <-> 0 <= si_gamma0 E m_e.
Proof.
  unfold gen_Beam_relativistic_beta_pre. rewrite gen_Beam_relativistic_gamma_eq. set (g := si_gamma0 E m_e).
  split.
  - intros [H _]. destruct (Rle_dec 0 g) as [h|h]; [exact h|]. exfalso.
    assert (Rabs g > 0) by (apply Rabs_pos_lt; lra). specialize (H H0). lra.
  - intros H. split; intro H1; [| apply Rabs_pos_lt; lra].
    destruct (Req_EM_T g 0) as [e|e]; [rewrite e, Rabs_R0 in H1; lra | lra].
Qed.

Lemma gen_Beam_p0c_eq (E : R) : gen_Beam_p0c E = beam_p0c E m_e.
Proof. gopen gen_Beam_p0c. rewrite gen_Beam_relativistic_beta_eq, gen_Beam_relativistic_gamma_eq. reflexivity. Qed.

Lemma gen_ParticleBeam_energies_eq (x px y py tau delta one E0 : R) :
  gen_ParticleBeam_energies x px y py tau delta one E0 = energies delta E0 m_e.
Proof. gopen gen_ParticleBeam_energies. rewrite gen_Beam_p0c_eq. reflexivity. Qed.

Lemma gen_ParticleBeam_momenta_eq (x px y py tau delta one E0 : R) :
  gen_ParticleBeam_momenta x px y py tau delta one E0 = momenta delta E0 m_e.
Proof. gopen2 gen_ParticleBeam_momenta. rewrite gen_ParticleBeam_energies_eq. reflexivity. Qed.

Lemma gen_ParticleBeam_to_xyz_pxpypz_eq (mkg x px y py tau delta one E0 : R) :
  gen_ParticleBeam_to_xyz_pxpypz mkg x px y py tau delta one E0 =
  (x, to_px px E0 m_e mkg c_light, y, to_px py E0 m_e mkg c_light, to_z tau E0 m_e, to_pz px py delta E0 m_e mkg c_light, one).
Proof.
  gopen2 gen_ParticleBeam_to_xyz_pxpypz. rewrite !gen_Beam_relativistic_beta_eq, !gen_Beam_relativistic_gamma_eq.
  unfold to_px, to_z, to_pz, si_p0, si_mom, si_beta, si_gamma. tuples; entry.
Qed.

(* [mc] of Beam/SI.v (the sub-expression electron_mass * speed_of_light) is the product of the two constants *)
Lemma gen_ParticleBeam_from_xyz_pxpypz_eq (mkg X PX Y PY Z PZ one E0 : R) :
  gen_ParticleBeam_from_xyz_pxpypz mkg X PX Y PY Z PZ one E0 =
  (X, fr_px PX E0 m_e mkg c_light, Y, fr_px PY E0 m_e mkg c_light, fr_tau Z E0 m_e, fr_delta PX PY PZ E0 m_e (mkg * c_light), E0).
Proof.
  gopen2 gen_ParticleBeam_from_xyz_pxpypz. rewrite !gen_Beam_relativistic_beta_eq, !gen_Beam_relativistic_gamma_eq.
  unfold fr_px, fr_tau, fr_delta, fr_gamma, fr_p, si_p0. tuples; entry.
Qed.
