(** Final statements of the translator tie for the Bmad-X tracking code and the coordinate / SI conversions: every definition
    regenerated from /repo's source text by harness/translate_bmadx.py (Gen/BmadxGen.v) equals the hand-written model
    (Bmadx/Coords.v, DriftX.v, Tdc.v, QuadX.v, BendX.v, Beam/SI.v) that carries the theorems of C07, C03, C09 and C18.
    Statements are spelled out; proofs are in Gen/BmadxGenEquiv.v.  Like that file, this one is compiled by
    harness/translate_stage.py against the FRESH BmadxGen.v (import lines redirected; keep them on one line each).
    Reading of the statements: a `_track_bmadx` method is a function of the element's parameters, the six coordinates of ONE
    incoming particle and the reference energy, and returns the six outgoing coordinates and the outgoing reference energy. *)
From Coq Require Import Reals.
From Cheetah Require Import Bmadx.Coords Bmadx.DriftX Bmadx.Tdc Bmadx.QuadX Bmadx.BendX Beam.SI Gen.BmadxGenBase.
From Cheetah.Gen Require Import BmadxGen.
From Cheetah.Gen Require Import BmadxGenEquiv.
Open Scope R_scope.

Theorem trx_cheetah_to_bmad_z_pz : forall tau delta E0 m : R,
  gen_cheetah_to_bmad_z_pz tau delta E0 m = (cb_z tau delta E0 m, cb_pz delta E0 m, cb_p0c E0 m).
Proof. exact gen_cheetah_to_bmad_z_pz_eq. Qed.
Print Assumptions trx_cheetah_to_bmad_z_pz.

Theorem trx_bmad_to_cheetah_z_pz : forall z pz p0c m : R,
  gen_bmad_to_cheetah_z_pz z pz p0c m = (bc_tau z pz p0c m, bc_delta pz p0c m, bc_refE p0c m).
Proof. exact gen_bmad_to_cheetah_z_pz_eq. Qed.
Print Assumptions trx_bmad_to_cheetah_z_pz.

Theorem trx_cheetah_to_bmad_coords : forall x px y py tau delta one E0 m : R,
  gen_cheetah_to_bmad_coords x px y py tau delta one E0 m =
  (let q := to_bmad E0 m (mkc x px y py tau delta) in (bx q, bpx q, by_ q, bpy q, bz q, bpz q), cb_p0c E0 m).
Proof. exact gen_cheetah_to_bmad_coords_eq. Qed.
Print Assumptions trx_cheetah_to_bmad_coords.

Theorem trx_bmad_to_cheetah_coords : forall x px y py z pz p0c m : R,
  gen_bmad_to_cheetah_coords x px y py z pz p0c m =
  (let v := to_cheetah p0c m (mkb x px y py z pz) in (cx v, cpx v, cy v, cpy v, ctau v, cdelta v, 1), bc_refE p0c m).
Proof. exact gen_bmad_to_cheetah_coords_eq. Qed.
Print Assumptions trx_bmad_to_cheetah_coords.

Theorem trx_offset_particle_set : forall ox oy tilt x px y py z pz : R,
  gen_offset_particle_set ox oy tilt x px y py =
  (let q := off_set ox oy tilt (mkb x px y py z pz) in (bx q, bpx q, by_ q, bpy q)).
Proof. exact gen_offset_particle_set_eq. Qed.
Print Assumptions trx_offset_particle_set.

Theorem trx_offset_particle_unset : forall ox oy tilt x px y py z pz : R,
  gen_offset_particle_unset ox oy tilt x px y py =
  (let q := off_unset ox oy tilt (mkb x px y py z pz) in (bx q, bpx q, by_ q, bpy q)).
Proof. exact gen_offset_particle_unset_eq. Qed.
Print Assumptions trx_offset_particle_unset.

Theorem trx_sqrt_one : forall x : R,
  gen_sqrt_one x = sqrt_one x.
Proof. exact gen_sqrt_one_eq. Qed.
Print Assumptions trx_sqrt_one.

Theorem trx_track_a_drift : forall L x px y py z pz p0c m : R,
  gen_track_a_drift L x px y py z pz p0c m = (let q := driftx L p0c m (mkb x px y py z pz) in (bx q, by_ q, bz q)).
Proof. exact gen_track_a_drift_eq. Qed.
Print Assumptions trx_track_a_drift.

Theorem trx_Drift_track_bmadx : forall L x px y py tau delta E0 : R,
  gen_Drift__track_bmadx L x px y py tau delta E0 =
  (let v := drift_bmadx_track L E0 m_e (mkc x px y py tau delta) in
   (cx v, cpx v, cy v, cpy v, ctau v, cdelta v, drift_bmadx_energy E0 m_e)).
Proof. exact gen_Drift__track_bmadx_eq. Qed.
Print Assumptions trx_Drift_track_bmadx.

(* the code's sum of two masked branches = the model's if-then-else on (evaluation < 3e-7 * e_tot) *)
Theorem trx_low_energy_z_correction : forall pz p0c m ds : R,
  gen_low_energy_z_correction pz p0c m ds = lez pz p0c m ds.
Proof. exact gen_low_energy_z_correction_eq. Qed.
Print Assumptions trx_low_energy_z_correction.

(* cos(..)*(k1 <= 0) + cosh(..)*(k1 > 0) = the model's branch on the mask (k1 <= 0) *)
Theorem trx_calculate_quadrupole_coefficients : forall k len relp eps : R,
  gen_calculate_quadrupole_coefficients k len relp eps =
  (((qc_a11 (le0 k) eps k len, qc_a12 (le0 k) eps k len relp), (qc_a21 (le0 k) eps k len relp, qc_a22 (le0 k) eps k len)),
   (qc_c1 (le0 k) eps k len, qc_c2 (le0 k) eps k len relp, qc_c3 (le0 k) eps k len relp)).
Proof. exact gen_calculate_quadrupole_coefficients_eq. Qed.
Print Assumptions trx_calculate_quadrupole_coefficients.

(* double_precision_epsilon = torch.finfo(torch.float64).eps = 2^-52, the default of `eps` *)
Theorem trx_double_precision_epsilon : dp_eps = qx_eps.
Proof. exact dp_eps_eq. Qed.
Print Assumptions trx_double_precision_epsilon.

(* the Python loop `for _ in range(num_steps)` = the model's [iter n (quadx_step ..)], for every number of steps *)
Theorem trx_Quadrupole_track_bmadx : forall (L k1 ox oy tilt : R) (n : nat) (x px y py tau delta E0 : R),
  gen_Quadrupole__track_bmadx L k1 ox oy tilt n x px y py tau delta E0 =
  (let v := quad_bmadx_track n L k1 ox oy tilt E0 m_e (mkc x px y py tau delta) in
   (cx v, cpx v, cy v, cpy v, ctau v, cdelta v, drift_bmadx_energy E0 m_e)).
Proof. exact gen_Quadrupole__track_bmadx_eq. Qed.
Print Assumptions trx_Quadrupole_track_bmadx.

(* torch.sinc(x / pi) = sin x / x, 1 at 0 *)
Theorem trx_sinc : forall x : R,
  gen_sinc x = bx_sinc x.
Proof. exact gen_sinc_eq. Qed.
Print Assumptions trx_sinc.

Theorem trx_cosc : forall x : R,
  gen_cosc x = bx_cosc x.
Proof. exact gen_cosc_eq. Qed.
Print Assumptions trx_cosc.

Theorem trx_Dipole_bmadx_fringe_linear_entrance : forall L ang e1 e2 fint fintx gap gapx x px y py z pz : R,
  gen_Dipole__bmadx_fringe_linear_entrance L ang e1 e2 fint fintx gap gapx x px y py =
  (let q := bendx_fringe L ang e1 fint gap (mkb x px y py z pz) in (bpx q, bpy q)).
Proof. exact gen_Dipole__bmadx_fringe_linear_entrance_eq. Qed.
Print Assumptions trx_Dipole_bmadx_fringe_linear_entrance.

Theorem trx_Dipole_bmadx_fringe_linear_exit : forall L ang e1 e2 fint fintx gap gapx x px y py z pz : R,
  gen_Dipole__bmadx_fringe_linear_exit L ang e1 e2 fint fintx gap gapx x px y py =
  (let q := bendx_fringe L ang e2 fintx gapx (mkb x px y py z pz) in (bpx q, bpy q)).
Proof. exact gen_Dipole__bmadx_fringe_linear_exit_eq. Qed.
Print Assumptions trx_Dipole_bmadx_fringe_linear_exit.

(* the working tree carries the repair of finding F70: the body is the repaired transcription [bendx_body_fixed] *)
Theorem trx_Dipole_bmadx_body : forall L ang x px y py z pz p0c m : R,
  gen_Dipole__bmadx_body L ang x px y py z pz p0c m =
  (let q := bendx_body_fixed L ang p0c m (mkb x px y py z pz) in (bx q, bpx q, by_ q, bpy q, bz q, bpz q)).
Proof. exact gen_Dipole__bmadx_body_eq. Qed.
Print Assumptions trx_Dipole_bmadx_body.

(* fringe_at = "neither" *)
Theorem trx_Dipole_track_bmadx_neither : forall L ang e1 e2 fint fintx gap gapx tilt x px y py tau delta E0 : R,
  gen_Dipole__track_bmadx_neither L ang e1 e2 fint fintx gap gapx tilt x px y py tau delta E0 =
  (let v := bend_bmadx_track_fixed false false (mkbend L ang e1 e2 fint fintx gap gapx tilt) E0 m_e (mkc x px y py tau delta) in
   (cx v, cpx v, cy v, cpy v, ctau v, cdelta v, drift_bmadx_energy E0 m_e)).
Proof. exact gen_Dipole__track_bmadx_neither_eq. Qed.
Print Assumptions trx_Dipole_track_bmadx_neither.

(* fringe_at = "entrance" *)
Theorem trx_Dipole_track_bmadx_entrance : forall L ang e1 e2 fint fintx gap gapx tilt x px y py tau delta E0 : R,
  gen_Dipole__track_bmadx_entrance L ang e1 e2 fint fintx gap gapx tilt x px y py tau delta E0 =
  (let v := bend_bmadx_track_fixed true false (mkbend L ang e1 e2 fint fintx gap gapx tilt) E0 m_e (mkc x px y py tau delta) in
   (cx v, cpx v, cy v, cpy v, ctau v, cdelta v, drift_bmadx_energy E0 m_e)).
Proof. exact gen_Dipole__track_bmadx_entrance_eq. Qed.
Print Assumptions trx_Dipole_track_bmadx_entrance.

(* fringe_at = "exit" *)
Theorem trx_Dipole_track_bmadx_exit : forall L ang e1 e2 fint fintx gap gapx tilt x px y py tau delta E0 : R,
  gen_Dipole__track_bmadx_exit L ang e1 e2 fint fintx gap gapx tilt x px y py tau delta E0 =
  (let v := bend_bmadx_track_fixed false true (mkbend L ang e1 e2 fint fintx gap gapx tilt) E0 m_e (mkc x px y py tau delta) in
   (cx v, cpx v, cy v, cpy v, ctau v, cdelta v, drift_bmadx_energy E0 m_e)).
Proof. exact gen_Dipole__track_bmadx_exit_eq. Qed.
Print Assumptions trx_Dipole_track_bmadx_exit.

(* fringe_at = "both" *)
Theorem trx_Dipole_track_bmadx_both : forall L ang e1 e2 fint fintx gap gapx tilt x px y py tau delta E0 : R,
  gen_Dipole__track_bmadx_both L ang e1 e2 fint fintx gap gapx tilt x px y py tau delta E0 =
  (let v := bend_bmadx_track_fixed true true (mkbend L ang e1 e2 fint fintx gap gapx tilt) E0 m_e (mkc x px y py tau delta) in
   (cx v, cpx v, cy v, cpy v, ctau v, cdelta v, drift_bmadx_energy E0 m_e)).
Proof. exact gen_Dipole__track_bmadx_both_eq. Qed.
Print Assumptions trx_Dipole_track_bmadx_both.

Theorem trx_particle_rf_time : forall z pz p0c m : R,
  gen_particle_rf_time z pz p0c m = k_time c_light p0c m z pz.
Proof. exact gen_particle_rf_time_eq. Qed.
Print Assumptions trx_particle_rf_time.

Theorem trx_TransverseDeflectingCavity_track_bmadx : forall L V phi f ox oy tilt x px y py tau delta E0 : R,
  gen_TransverseDeflectingCavity__track_bmadx L V phi f ox oy tilt x px y py tau delta E0 =
  (let v := to_cheetah (cb_p0c E0 m_e) m_e
             (tdc_bmad L V phi f c_light ox oy tilt (cb_p0c E0 m_e) m_e (to_bmad E0 m_e (mkc x px y py tau delta))) in
   (cx v, cpx v, cy v, cpy v, ctau v, cdelta v, drift_bmadx_energy E0 m_e)).
Proof. exact gen_TransverseDeflectingCavity__track_bmadx_eq. Qed.
Print Assumptions trx_TransverseDeflectingCavity_track_bmadx.

Theorem trx_Beam_relativistic_gamma : forall E : R,
  gen_Beam_relativistic_gamma E = si_gamma0 E m_e.
Proof. exact gen_Beam_relativistic_gamma_eq. Qed.
Print Assumptions trx_Beam_relativistic_gamma.

Theorem trx_Beam_relativistic_beta : forall E : R,
  gen_Beam_relativistic_beta E = si_beta0 E m_e.
Proof. exact gen_Beam_relativistic_beta_eq. Qed.
Print Assumptions trx_Beam_relativistic_beta.

(* the masked write of relativistic_beta uses two different masks (|gamma| > 0 on the left, gamma > 0 on the right): torch raises for a negative reference energy; Beam/SI.v is total there *)
Theorem trx_Beam_relativistic_beta_pre : forall E : R,
  gen_Beam_relativistic_beta_pre E <-> 0 <= si_gamma0 E m_e.
Proof. exact gen_Beam_relativistic_beta_pre_eq. Qed.
Print Assumptions trx_Beam_relativistic_beta_pre.

Theorem trx_Beam_p0c : forall E : R,
  gen_Beam_p0c E = beam_p0c E m_e.
Proof. exact gen_Beam_p0c_eq. Qed.
Print Assumptions trx_Beam_p0c.

Theorem trx_ParticleBeam_energies : forall x px y py tau delta one E0 : R,
  gen_ParticleBeam_energies x px y py tau delta one E0 = energies delta E0 m_e.
Proof. exact gen_ParticleBeam_energies_eq. Qed.
Print Assumptions trx_ParticleBeam_energies.

Theorem trx_ParticleBeam_momenta : forall x px y py tau delta one E0 : R,
  gen_ParticleBeam_momenta x px y py tau delta one E0 = momenta delta E0 m_e.
Proof. exact gen_ParticleBeam_momenta_eq. Qed.
Print Assumptions trx_ParticleBeam_momenta.

(* [mkg] is the module constant electron_mass (kg) *)
Theorem trx_ParticleBeam_to_xyz_pxpypz : forall mkg x px y py tau delta one E0 : R,
  gen_ParticleBeam_to_xyz_pxpypz mkg x px y py tau delta one E0 =
  (x, to_px px E0 m_e mkg c_light, y, to_px py E0 m_e mkg c_light, to_z tau E0 m_e, to_pz px py delta E0 m_e mkg c_light, one).
Proof. exact gen_ParticleBeam_to_xyz_pxpypz_eq. Qed.
Print Assumptions trx_ParticleBeam_to_xyz_pxpypz.

(* columns 0..5 of the created beam and its reference energy; [mc] of Beam/SI.v is mkg * c_light over the reals *)
Theorem trx_ParticleBeam_from_xyz_pxpypz : forall mkg X PX Y PY Z PZ one E0 : R,
  gen_ParticleBeam_from_xyz_pxpypz mkg X PX Y PY Z PZ one E0 =
  (X, fr_px PX E0 m_e mkg c_light, Y, fr_px PY E0 m_e mkg c_light, fr_tau Z E0 m_e, fr_delta PX PY PZ E0 m_e (mkg * c_light), E0).
Proof. exact gen_ParticleBeam_from_xyz_pxpypz_eq. Qed.
Print Assumptions trx_ParticleBeam_from_xyz_pxpypz.
