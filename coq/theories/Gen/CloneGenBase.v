(** Vocabulary of the generated file Gen/CloneGen.v (harness/translate_clone.py): what the translated Python expressions of
    `defining_features` and `Element.clone` mean.  Hand-written, stable; no proofs here.

      list.remove(x)              [df_remove x]: the first occurrence is removed (the translator refuses a remove of an absent item,
                                  which raises ValueError in Python)
      {k: v for f in L}           [dictcomp]: the association list in iteration order (the keys are the defining features, which
                                  [introspection_ok] requires to be duplicate-free)
      self.__class__( ** kwargs)  [call_class]: the constructor of the element's class, Ops/ClassTableSpec.v [construct]; the keyword
                                  "name" is taken out because names live in the tree in the model (Ops/Clone.v clone_name)
      kinds_from                  kind of a feature = kind of the constructor parameter of that name, read from its annotation *)
From Coq Require Import List Bool String.
From Cheetah Require Import Ops.ClassTableSpec.
Import ListNotations.
Open Scope string_scope.

Fixpoint df_remove (x : string) (l : list string) : list string :=
  match l with [] => [] | y :: r => if String.eqb x y then r else y :: df_remove x r end.

Definition kinds_from (ann : list (string * string)) (fs : list string) : list (string * string) :=
  map (fun f => (f, match alookup ann f with Some k => k | None => "?not-a-parameter" end)) fs.

Definition dictcomp {A B : Type} (f : A -> B) (l : list A) : list B := map f l.

Definition call_class {V : Type} (dflt : cls_rec -> string -> V) (c : cls_rec) (kwargs : list (string * V)) : option (element V) :=
  construct dflt c (filter (fun kv => negb (String.eqb (fst kv) "name")) kwargs).

(* [f(x) for x in l] where f may raise: the first exception (None) propagates; evaluation left to right *)
Fixpoint list_comp_opt {A B : Type} (f : A -> option B) (l : list A) : option (list B) :=
  match l with
  | [] => Some []
  | x :: r => match f x with
              | None => None
              | Some y => match list_comp_opt f r with None => None | Some r' => Some (y :: r') end
              end
  end.

(* ---- comparison of a translated row with a row of the live-class introspection (harness/introspect.py) *)
Definition pairs_eq (a b : list (string * string)) : bool :=
  slist_eq (map fst a) (map fst b) && slist_eq (map snd a) (map snd b).
Definition row_agrees (g l : cls_rec) : bool :=
  String.eqb (cname g) (cname l) && slist_eq (ctor_params g) (ctor_params l) && slist_eq (required g) (required l)
  && slist_eq (features g) (features l) && pairs_eq (kinds g) (kinds l) && same_set (echoed g) (echoed l)
  && String.eqb (probe g) (probe l).
Definition table_agrees (g l : list cls_rec) : bool :=
  Nat.eqb (List.length g) (List.length l) && forallb (fun p => row_agrees (fst p) (snd p)) (combine g l).
Definition rows_differing (g l : list cls_rec) : list string :=
  map (fun p => cname (fst p)) (filter (fun p => negb (row_agrees (fst p) (snd p))) (combine g l)).

(* ---- keyword tables of the beam clones: (keyword, (attribute read, cloned?)) *)
Definition kw_all_cloned (kw : list (string * (string * bool))) : bool := forallb (fun k => snd (snd k)) kw.
Definition kw_tensor_cloned (ctor : list (string * string)) (kw : list (string * (string * bool))) : bool :=
  forallb (fun k => match alookup ctor (fst k) with
                    | Some kind => if String.eqb kind "tensor" then snd (snd k) else true
                    | None => false end) kw.
Definition kw_passes_all (ctor : list (string * string)) (kw : list (string * (string * bool))) : bool :=
  same_set (map fst ctor) (map fst kw) && nodupb (map fst kw).     (* keyword order is immaterial *)
Definition kw_reads_own_slot (stores : list (string * string)) (kw : list (string * (string * bool))) : bool :=
  forallb (fun k => match alookup stores (fst k) with Some s => String.eqb s (fst (snd k)) | None => false end) kw.
