(** Equivalence of the regenerated transcription Gen/CloneGen.v (harness/translate_clone.py: class rows, Element.clone,
    RBend.clone, the beam clones, all read from the SOURCE TEXT) with the hand-written model of C15
    (Ops/ClassTableSpec.v, Ops/Clone.v, Ops/CloneHistory.v).  Recompiled against a fresh Gen/CloneGen.v on every run. *)
From Coq Require Import List Bool String.
From Cheetah Require Import Ops.ClassTableSpec Ops.Json Ops.Clone Ops.CloneHistory Gen.CloneGenBase.
From Cheetah.Gen Require Import CloneGen.
Import ListNotations.
Open Scope string_scope.

(* ---------------------------------------------------------------- (i) the AST-derived class table *)
(* the same obligation the live-class table of harness/introspect.py has to meet (build/<pid>/ClassCheck.v) *)
Lemma gen_table_ok : table_ok gen_table = true.
Proof. vm_compute. reflexivity. Qed.

Lemma gen_table_rejected : rejected gen_table = [].
Proof. vm_compute. reflexivity. Qed.

(* every class passes on its own, without the exception list (known_offenders is empty since fix b273117) *)
Lemma gen_table_checked : forallb class_checked gen_table = true.
Proof. vm_compute. reflexivity. Qed.

(* the pinned rows of Ops/ClassTableSpec.v: Drift is unchanged; the four offenders of finding F12 no longer have their
   pinned (defective) shape -- exactly what the live table reports as pinned_rows_changed *)
Lemma gen_table_pinned : pinned_differ gen_table = ["Quadrupole"; "Screen"; "Undulator"; "SpaceChargeKick"].
Proof. vm_compute. reflexivity. Qed.

Lemma gen_table_drift_pinned : existsb (fun c => same_shape c drift_cls) gen_table = true.
Proof. vm_compute. reflexivity. Qed.

(* the repaired shape of the four offenders: nothing missing, nothing extra *)
Lemma gen_table_offenders_repaired :
  map (fun c => (cname c, (missing c, extra c)))
      (filter (fun c => mem (cname c) (map oname offenders_before_fix)) gen_table)
  = [("Quadrupole", ([], [])); ("Screen", ([], [])); ("SpaceChargeKick", ([], [])); ("Undulator", ([], []))].
Proof. vm_compute. reflexivity. Qed.

(* every constructor parameter (but device / dtype) of every class has an entry in the storage table *)
Lemma gen_storage_complete :
  forallb (fun c => match find (fun s => String.eqb (fst s) (cname c)) gen_storage with
                    | Some s => slist_eq (map fst (snd s)) (minus (ctor_params c) ["device"; "dtype"])
                    | None => false end) gen_table = true.
Proof. vm_compute. reflexivity. Qed.

(* ---------------------------------------------------------------- (ii) Element.clone, for every element *)
Lemma filter_name_map {V : Type} (g : string -> V) (l : list string) :
  filter (fun kv : string * V => negb (String.eqb (fst kv) "name")) (map (fun f => (f, g f)) l)
  = map (fun f => (f, g f)) (minus l ["name"]).
Proof.
  unfold minus. induction l as [|x r IH]; [reflexivity|].
  cbn [map filter fst mem existsb]. rewrite orb_false_r.
  destruct (String.eqb x "name"); cbn [negb]; [exact IH|]. cbn [map]. now rewrite IH.
Qed.

Section ElementClone.
Variables (V : Type) (dflt : cls_rec -> string -> V) (other : cls_rec -> list (string * V) -> string -> V).
Variables (is_tensor : V -> bool) (tclone deepcopy : V -> V).

(* tensor.clone() for tensors, deepcopy for everything else: the [copy] of Ops/Clone.v *)
Definition py_copy (v : V) : V := if is_tensor v then tclone v else deepcopy v.

Lemma gen_Element_clone_eq : forall e : element V,
  gen_Element_clone V dflt other is_tensor tclone deepcopy e = clone_elem V dflt other py_copy e.
Proof.
  intro e. unfold gen_Element_clone, clone_elem, call_class, dictcomp, fvals, py_copy.
  rewrite (filter_name_map (fun f => if is_tensor (getattr other e f) then tclone (getattr other e f) else deepcopy (getattr other e f))).
  reflexivity.
Qed.
End ElementClone.

(* ---------------------------------------------------------------- Segment.clone, any nesting: with the recursive call being the model's
   clone_tree on the children, the translated method is clone_tree on the segment node *)
Lemma gen_Segment_clone_eq : forall (V : Type) (dflt : cls_rec -> string -> V) (other : cls_rec -> list (string * V) -> string -> V)
    (autoname : string) (copy : V -> V) (n : string) (ts : list (tree (element V))),
  gen_Segment_clone V (clone_tree V dflt other autoname copy) n ts = clone_tree V dflt other autoname copy (Sg n ts).
Proof.
  intros. unfold gen_Segment_clone. cbn [clone_tree]. f_equal.
  induction ts as [|t r IH]; [reflexivity|].
  cbn [list_comp_opt]. rewrite IH.
  destruct (clone_tree V dflt other autoname copy t); [|reflexivity].
  match goal with |- match ?g with _ => _ end = match ?g' with _ => _ end => change g' with g; destruct g end; reflexivity.
Qed.

(* ---------------------------------------------------------------- RBend.clone: the stored state is copied slot by slot,
   whatever the arithmetic of `rbend_e + angle / 2` does (no algebraic law of add / sub / half is used) *)
Lemma gen_RBend_clone_eq : forall (V : Type) (add sub : V -> V -> V) (half copy : V -> V) (s : bend V),
  gen_RBend_clone V add sub half copy s = mkbend (copy (b_angle s)) (copy (b_e1 s)) (copy (b_e2 s)).
Proof. intros. reflexivity. Qed.

Lemma gen_RBend_clone_sets_eq :
  gen_RBend_clone_sets = [("dipole_e1", ("dipole_e1", true)); ("dipole_e2", ("dipole_e2", true))].
Proof. reflexivity. Qed.

(* ---------------------------------------------------------------- (iii) the beam clones *)
Lemma gen_ParticleBeam_clone_eq : forall (V : Type) (copy : V -> V) (bdflt : string -> V) (b : pbeam V),
  gen_ParticleBeam_clone V copy bdflt b = clone_pbeam V copy b.
Proof. intros. reflexivity. Qed.

Lemma gen_ParameterBeam_clone_eq : forall (V : Type) (copy : V -> V) (bdflt : string -> V) (b : mbeam V),
  gen_ParameterBeam_clone V copy bdflt b = clone_mbeam V copy b.
Proof. intros. reflexivity. Qed.

(* every constructor-settable attribute is passed, read from the buffer the constructor stores it in, and every
   tensor-valued keyword is `.clone()`d (no aliasing) *)
Lemma gen_ParticleBeam_kwargs_ok :
  kw_passes_all gen_ParticleBeam_ctor gen_ParticleBeam_clone_kwargs
  && kw_reads_own_slot gen_ParticleBeam_stores gen_ParticleBeam_clone_kwargs
  && kw_tensor_cloned gen_ParticleBeam_ctor gen_ParticleBeam_clone_kwargs = true.
Proof. vm_compute. reflexivity. Qed.

Lemma gen_ParameterBeam_kwargs_ok :
  kw_passes_all gen_ParameterBeam_ctor gen_ParameterBeam_clone_kwargs
  && kw_reads_own_slot gen_ParameterBeam_stores gen_ParameterBeam_clone_kwargs
  && kw_tensor_cloned gen_ParameterBeam_ctor gen_ParameterBeam_clone_kwargs = true.
Proof. vm_compute. reflexivity. Qed.
