(** Final statements of the second tie for C15 (clone): the Coq text regenerated from the SOURCE TEXT of
    cheetah/accelerator/*.py and cheetah/particles/*.py (Gen/CloneGen.v, harness/translate_clone.py) meets the class-table
    obligation of Ops/ClassTableSpec.v and coincides with the hand-written clone models of Ops/Clone.v / Ops/CloneHistory.v.
    Only statements closed by [exact] of a lemma of Gen/CloneGenEquiv.v, each followed by [Print Assumptions]. *)
From Coq Require Import List Bool String.
From Cheetah Require Import Ops.ClassTableSpec Ops.Json Ops.Clone Ops.CloneHistory Gen.CloneGenBase.
From Cheetah.Gen Require Import CloneGen.
From Cheetah.Gen Require Import CloneGenEquiv.
Import ListNotations.
Open Scope string_scope.

(* the class table read from the source text (signatures, defining_features through the hierarchy, storage of every
   constructor parameter) passes the obligation the live-class table has to pass: every constructor-settable parameter of every
   Element subclass is a defining feature and vice versa, with no exception *)
Theorem CLONE_table_ok : table_ok gen_table = true.
Proof. exact gen_table_ok. Qed.

Theorem CLONE_table_rejected : rejected gen_table = [].
Proof. exact gen_table_rejected. Qed.

Theorem CLONE_table_checked : forallb class_checked gen_table = true.
Proof. exact gen_table_checked. Qed.

(* against the pinned rows: Drift as pinned; the four classes of finding F12 have left their pinned defective shape ... *)
Theorem CLONE_table_pinned : pinned_differ gen_table = ["Quadrupole"; "Screen"; "Undulator"; "SpaceChargeKick"].
Proof. exact gen_table_pinned. Qed.

Theorem CLONE_table_drift_pinned : existsb (fun c => same_shape c drift_cls) gen_table = true.
Proof. exact gen_table_drift_pinned. Qed.

(* ... for a repaired one: no constructor parameter is missing from, and no foreign name is in, their defining features *)
Theorem CLONE_table_offenders_repaired :
  map (fun c => (cname c, (missing c, extra c)))
      (filter (fun c => mem (cname c) (map oname offenders_before_fix)) gen_table)
  = [("Quadrupole", ([], [])); ("Screen", ([], [])); ("SpaceChargeKick", ([], [])); ("Undulator", ([], []))].
Proof. exact gen_table_offenders_repaired. Qed.

Theorem CLONE_storage_complete :
  forallb (fun c => match find (fun s => String.eqb (fst s) (cname c)) gen_storage with
                    | Some s => slist_eq (map fst (snd s)) (minus (ctor_params c) ["device"; "dtype"])
                    | None => false end) gen_table = true.
Proof. exact gen_storage_complete. Qed.

(* Element.clone as written in element.py (dict comprehension over defining_features, tensor -> .clone(), anything else ->
   deepcopy, then self.__class__ called with these keywords) IS the model's clone_elem, for every class row, every element and
   every value domain; [copy] is "clone() if tensor else deepcopy" *)
Theorem CLONE_element_clone : forall (V : Type) (dflt : cls_rec -> string -> V) (other : cls_rec -> list (string * V) -> string -> V)
    (is_tensor : V -> bool) (tclone deepcopy : V -> V) (e : element V),
  gen_Element_clone V dflt other is_tensor tclone deepcopy e
  = clone_elem V dflt other (fun v => if is_tensor v then tclone v else deepcopy v) e.
Proof. exact gen_Element_clone_eq. Qed.

(* Segment.clone as written in segment.py (a new Segment of the children's clones, same name; a child's exception propagates) is
   the model's clone_tree on a segment node, the recursive call `element.clone()` being clone_tree on the children *)
Theorem CLONE_segment_clone : forall (V : Type) (dflt : cls_rec -> string -> V) (other : cls_rec -> list (string * V) -> string -> V)
    (autoname : string) (copy : V -> V) (n : string) (ts : list (tree (element V))),
  gen_Segment_clone V (clone_tree V dflt other autoname copy) n ts = clone_tree V dflt other autoname copy (Sg n ts).
Proof. exact gen_Segment_clone_eq. Qed.

(* RBend.clone (super().clone(), then the two stored pole-face angles are assigned from clones of the original's): the stored
   state (angle, _e1, _e2) of the copy is the slot-by-slot copy of the original's, for ANY arithmetic of `e + angle / 2` *)
Theorem CLONE_rbend_clone : forall (V : Type) (add sub : V -> V -> V) (half copy : V -> V) (s : bend V),
  gen_RBend_clone V add sub half copy s = mkbend (copy (b_angle s)) (copy (b_e1 s)) (copy (b_e2 s)).
Proof. exact gen_RBend_clone_eq. Qed.

Theorem CLONE_rbend_clone_sets :
  gen_RBend_clone_sets = [("dipole_e1", ("dipole_e1", true)); ("dipole_e2", ("dipole_e2", true))].
Proof. exact gen_RBend_clone_sets_eq. Qed.

(* the two beam clones are the model's, field by field *)
Theorem CLONE_particle_beam : forall (V : Type) (copy : V -> V) (bdflt : string -> V) (b : pbeam V),
  gen_ParticleBeam_clone V copy bdflt b = clone_pbeam V copy b.
Proof. exact gen_ParticleBeam_clone_eq. Qed.

Theorem CLONE_parameter_beam : forall (V : Type) (copy : V -> V) (bdflt : string -> V) (b : mbeam V),
  gen_ParameterBeam_clone V copy bdflt b = clone_mbeam V copy b.
Proof. exact gen_ParameterBeam_clone_eq. Qed.

(* every data parameter of the beam constructors is passed by clone(), read from the buffer the constructor stores that
   parameter in, and every tensor-valued one is .clone()d *)
Theorem CLONE_particle_beam_kwargs :
  kw_passes_all gen_ParticleBeam_ctor gen_ParticleBeam_clone_kwargs
  && kw_reads_own_slot gen_ParticleBeam_stores gen_ParticleBeam_clone_kwargs
  && kw_tensor_cloned gen_ParticleBeam_ctor gen_ParticleBeam_clone_kwargs = true.
Proof. exact gen_ParticleBeam_kwargs_ok. Qed.

Theorem CLONE_parameter_beam_kwargs :
  kw_passes_all gen_ParameterBeam_ctor gen_ParameterBeam_clone_kwargs
  && kw_reads_own_slot gen_ParameterBeam_stores gen_ParameterBeam_clone_kwargs
  && kw_tensor_cloned gen_ParameterBeam_ctor gen_ParameterBeam_clone_kwargs = true.
Proof. exact gen_ParameterBeam_kwargs_ok. Qed.

Print Assumptions CLONE_table_ok.
Print Assumptions CLONE_table_rejected.
Print Assumptions CLONE_table_checked.
Print Assumptions CLONE_table_pinned.
Print Assumptions CLONE_table_drift_pinned.
Print Assumptions CLONE_table_offenders_repaired.
Print Assumptions CLONE_storage_complete.
Print Assumptions CLONE_element_clone.
Print Assumptions CLONE_segment_clone.
Print Assumptions CLONE_rbend_clone.
Print Assumptions CLONE_rbend_clone_sets.
Print Assumptions CLONE_particle_beam.
Print Assumptions CLONE_parameter_beam.
Print Assumptions CLONE_particle_beam_kwargs.
Print Assumptions CLONE_parameter_beam_kwargs.
