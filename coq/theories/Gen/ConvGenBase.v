(** Support for the GENERATED transcription of cheetah's lattice converters and LatticeJSON code (Gen/ConvGen.v, written
    by harness/translate_conv.py from /repo's source text) and for the proofs that it coincides with the hand-written
    models Parse/LatticeLang.v, Parse/Lines.v and Ops/Json.v (Gen/ConvGenEquiv.v).  This file fixes the READING of the
    Python constructs and of the cheetah constructors; it is part of the trusted base of this tie and is quoted in the
    docstring of harness/translate_conv.py.  No axioms; numbers are the kernel's binary64 [PrimFloat] values, as in
    Parse/LatticeLang.v.

      option A                    result of a Python computation: [Some a] or [None] = some exception was raised (KeyError,
                                  AssertionError, TypeError, ValueError ..; which one is not recorded)
      x <- m ;; k                 sequencing (left-to-right evaluation; the first exception wins); notation of LatticeLang.v
      pv                          a Python value of the converter fragment: float/int (one binary64 number, ints below 2^53),
                                  str, None, a 2-d tensor (list of rows)
      props / ctx                 Python dicts as the association lists of LatticeLang.v (newest binding first) *)
From Coq Require Import List String Ascii Bool ZArith PrimFloat Arith.
From Cheetah.Parse Require Import LatticeLang.
Import ListNotations.
Open Scope string_scope.

(* ------------------------------------------------------------------ values *)
Definition mat := list (list float).
Inductive pv := VN (x : float) | VS (s : string) | VNone | VMat (m : mat).
Definition of_pval (v : pval) : pv := match v with PNum x => VN x | PStr s => VS s end.

(* ------------------------------------------------------------------ the parsed context: context[name], isinstance *)
Definition ctx_getitem (c : ctx) (k : string) : option cval := get c k.            (* KeyError = None *)
Definition is_list (v : cval) : bool := match v with VLine _ => true | _ => false end.
Definition is_dict (v : cval) : bool := match v with VElem _ => true | _ => false end.
(* the value seen as a list / dict; only used under the corresponding isinstance test (checked by the translator) *)
Definition as_list (v : cval) : list string := match v with VLine l => l | _ => [] end.
Definition as_dict (v : cval) : props := match v with VElem ps => ps | _ => [] end.

(* ------------------------------------------------------------------ dict operations on an element dict *)
Definition getitem (d : props) (k : string) : option pv := option_map of_pval (get d k).                 (* d[k] *)
Definition get_default (d : props) (k : string) (dflt : pv) : pv :=                                       (* d.get(k, dflt) *)
  match get d k with Some v => of_pval v | None => dflt end.
Definition contains (d : props) (k : string) : bool := has d k.                                           (* k in d *)
Definition dict_keys (d : props) : list string := map fst d.      (* `for k in d`: every binding (a shadowed one repeats a key) *)

(* ------------------------------------------------------------------ arithmetic on Python numbers.
   A str operand is read as raising at the operation: the translator accepts arithmetic only inside the argument of
   torch.tensor(..), which raises on any str (2 * "ab" is "abab" in Python, and torch.tensor("abab") raises). *)
Definition num2 (f : float -> float -> float) (a b : pv) : option pv :=
  match a, b with VN x, VN y => Some (VN (f x y)) | _, _ => None end.
Definition py_mul := num2 PrimFloat.mul.
Definition py_add := num2 PrimFloat.add.
Definition py_sub := num2 PrimFloat.sub.
Definition py_div (a b : pv) : option pv :=
  match a, b with VN x, VN y => if is_zero y then None else Some (VN (PrimFloat.div x y)) | _, _ => None end.
Definition py_neg (a : pv) : option pv := match a with VN x => Some (VN (PrimFloat.opp x)) | _ => None end.
Definition np_degrees (a : pv) : option pv := match a with VN x => Some (VN (PrimFloat.mul x rad2deg)) | _ => None end.
Definition np_pi : pv := VN c_pi.
(* torch.tensor(python number) with the default dtype float32 (dtype=dtype with convert_element's default torch.float32):
   round to nearest even binary32; anything else raises *)
Definition torch_tensor (a : pv) : option pv := match a with VN x => Some (VN (round32 x)) | _ => None end.

(* comparisons *)
Definition py_eq_str (a : pv) (s : string) : bool := match a with VS t => String.eqb t s | _ => false end.   (* a == "s" *)
Definition py_in_strs (a : pv) (l : list string) : bool := match a with VS t => mem t l | _ => false end.    (* a in ["s", ..] *)
Definition py_ne_num (a : pv) (x : float) : bool := match a with VN y => negb (PrimFloat.eqb y x) | _ => true end.  (* a != 1 *)

(* ------------------------------------------------------------------ re.fullmatch on the pattern subset used by the
   validation lists: a pattern without regex metacharacters (only letters, digits, '_', '%') matches exactly itself;
   otherwise a sequence of literal characters and character ranges [a-b] *)
Inductive pit := PLit (c : ascii) | PRange (lo hi : ascii).
Inductive pat := Plain (s : string) | Rx (items : list pit).
Definition pit_match (p : pit) (c : ascii) : bool :=
  match p with
  | PLit d => Ascii.eqb d c
  | PRange lo hi => (nat_of_ascii lo <=? nat_of_ascii c)%nat && (nat_of_ascii c <=? nat_of_ascii hi)%nat
  end.
Fixpoint rx_match (items : list pit) (s : list ascii) : bool :=
  match items, s with
  | [], [] => true
  | p :: items', c :: s' => pit_match p c && rx_match items' s'
  | _, _ => false
  end.
Definition re_fullmatch (p : pat) (s : string) : bool :=
  match p with Plain t => String.eqb s t | Rx items => rx_match items (list_ascii_of_string s) end.

(* fortran_namelist.validate_understood_properties(understood, properties):
   for property in properties: assert any([re.fullmatch(pattern, property) for pattern in understood]) *)
Definition validate_understood_properties (understood : list pat) (d : props) : option unit :=
  guard (forallb (fun property => existsb (fun pattern => re_fullmatch pattern property) understood) (dict_keys d)).

(* ------------------------------------------------------------------ small pieces for the ematrix branch *)
Definition digit_char (n : nat) : ascii := ascii_of_nat (48 + n).
(* str(n) of a natural number, written for n < 100 (the f-strings of the fragment format 1..6) *)
Definition py_str_nat (n : nat) : string :=
  if (n <? 10)%nat then String (digit_char n) EmptyString
  else String (digit_char (n / 10)) (String (digit_char (n mod 10)) EmptyString).
Definition py_range (n : nat) : list nat := seq 0 n.
Definition nat_succ_f (n : nat) : nat := n + 1.
Definition torch_zeros (r c : nat) : mat := repeat (repeat zero c) r.
(* torch.tensor(list of lists of python numbers, dtype=float32) *)
Definition num_of (a : pv) : option float := match a with VN x => Some (round32 x) | _ => None end.
Definition tensor_rows (rows : list (list pv)) : option mat := collect (map (fun r => collect (map num_of r)) rows).
Definition tensor_vec (v : list pv) : option (list float) := collect (map num_of v).
Fixpoint set_prefix {A} (old new : list A) : list A :=                 (* old with its first [length new] items replaced *)
  match new, old with
  | [], _ => old
  | x :: new', _ :: old' => x :: set_prefix old' new'
  | _ :: _, [] => []
  end.
Definition shape_ok (r c : nat) (m : mat) : bool := (List.length m =? r)%nat && forallb (fun row => (List.length row =? c)%nat) m.
(* R[:r, :c] = blk    (a shape mismatch raises) *)
Definition set_block (R : mat) (r c : nat) (blk : mat) : option mat :=
  if shape_ok r c blk && (r <=? List.length R)%nat && forallb (fun row => (c <=? List.length row)%nat) R then
    Some (set_prefix R (map (fun p => set_prefix (fst p) (snd p)) (combine (firstn r R) blk)))
  else None.
Fixpoint set_nth {A} (l : list A) (k : nat) (x : A) : list A :=
  match l, k with
  | [], _ => []
  | _ :: r, 0 => x :: r
  | y :: r, S k' => y :: set_nth r k' x
  end.
(* R[:r, j] = col *)
Definition set_col (R : mat) (r j : nat) (col : list float) : option mat :=
  if (List.length col =? r)%nat && (r <=? List.length R)%nat && forallb (fun row => (j <? List.length row)%nat) R then
    Some (set_prefix R (map (fun p => set_nth (fst p) j (snd p)) (combine (firstn r R) col)))
  else None.

(* ------------------------------------------------------------------ the cheetah constructors.
   ctor cls name kwargs: `cheetah.<cls>(k1=v1, .., name=name, device=device, dtype=dtype)`; the result is the leaf of
   Parse/LatticeLang.v's [ctree]: class, name and the parameters the correspondence of C13 reads back, with the
   constructor's own defaults for the keywords that are not given.  [kw_num kw k dflt]: a tensor-valued keyword
   (None default = required parameter: TypeError).  An unknown keyword is a TypeError. *)
Definition kwargs := list (string * pv).
Fixpoint kwget (kw : kwargs) (k : string) : option pv :=
  match kw with [] => None | (k', v) :: r => if String.eqb k' k then Some v else kwget r k end.
Definition kw_num (kw : kwargs) (k : string) (dflt : option float) : option float :=
  match kwget kw k with
  | Some (VN x) => Some x
  | Some _ => None
  | None => dflt
  end.
Definition kw_only (kw : kwargs) (allowed : list string) : bool := forallb (fun kv => mem (fst kv) allowed) kw.
Definition pz : option float := Some (round32 zero).       (* a default `torch.tensor(0.0)` of a constructor *)

Definition dipole_kw : list string :=
  ["length"; "angle"; "k1"; "dipole_e1"; "dipole_e2"; "tilt"; "gap"; "fringe_integral"; "fringe_integral_exit"].
Definition rbend_kw : list string :=
  ["length"; "angle"; "k1"; "rbend_e1"; "rbend_e2"; "tilt"; "gap"; "fringe_integral"; "fringe_integral_exit"].

(* fringe_integral_exit=None (or not given): Dipole.__init__ uses fringe_integral *)
Definition kw_fintx (kw : kwargs) (fint : float) : option float :=
  match kwget kw "fringe_integral_exit" with
  | Some (VN x) => Some x
  | Some VNone | None => Some fint
  | Some _ => None
  end.

Definition mat_params (m : mat) : list (string * pval) :=
  flat_map (fun ir => map (fun jx => ("m" ++ midx (fst ir) ++ midx (fst jx), PNum (snd jx)))
                          (combine (seq 0 (List.length (snd ir))) (snd ir)))
           (combine (seq 0 (List.length m)) m).

Definition ctor (cls name : string) (kw : kwargs) : option ctree :=
  if String.eqb cls "Marker" then _ <- guard (kw_only kw []) ;; Some (CLeaf "Marker" name [])
  else if String.eqb cls "BPM" then _ <- guard (kw_only kw []) ;; Some (CLeaf "BPM" name [])
  else if String.eqb cls "Drift" then
    _ <- guard (kw_only kw ["length"]) ;; l <- kw_num kw "length" None ;;
    Some (CLeaf "Drift" name [("length", PNum l)])
  else if String.eqb cls "Undulator" then
    _ <- guard (kw_only kw ["length"]) ;; l <- kw_num kw "length" None ;;
    Some (CLeaf "Undulator" name [("length", PNum l)])
  else if String.eqb cls "HorizontalCorrector" || String.eqb cls "VerticalCorrector" then
    _ <- guard (kw_only kw ["length"; "angle"]) ;; l <- kw_num kw "length" None ;; a <- kw_num kw "angle" pz ;;
    Some (CLeaf cls name [("length", PNum l); ("angle", PNum a)])
  else if String.eqb cls "Quadrupole" then
    _ <- guard (kw_only kw ["length"; "k1"; "tilt"]) ;;
    l <- kw_num kw "length" None ;; k1 <- kw_num kw "k1" pz ;; t <- kw_num kw "tilt" pz ;;
    Some (CLeaf "Quadrupole" name [("length", PNum l); ("k1", PNum k1); ("tilt", PNum t)])
  else if String.eqb cls "Solenoid" then
    _ <- guard (kw_only kw ["length"; "k"]) ;; l <- kw_num kw "length" None ;; k <- kw_num kw "k" pz ;;
    Some (CLeaf "Solenoid" name [("length", PNum l); ("k", PNum k)])
  else if String.eqb cls "Cavity" || String.eqb cls "TransverseDeflectingCavity" then
    _ <- guard (kw_only kw ["length"; "voltage"; "phase"; "frequency"]) ;;
    l <- kw_num kw "length" None ;; v <- kw_num kw "voltage" pz ;; ph <- kw_num kw "phase" pz ;; f <- kw_num kw "frequency" pz ;;
    Some (CLeaf cls name [("length", PNum l); ("voltage", PNum v); ("phase", PNum ph); ("frequency", PNum f)])
  else if String.eqb cls "Aperture" then
    _ <- guard (kw_only kw ["x_max"; "y_max"; "shape"]) ;;
    xm <- kw_num kw "x_max" (Some infinity) ;; ym <- kw_num kw "y_max" (Some infinity) ;;
    sh <- match kwget kw "shape" with Some (VS s) => Some s | None => Some "rectangular" | Some _ => None end ;;
    Some (CLeaf "Aperture" name [("x_max", PNum xm); ("y_max", PNum ym); ("shape", PStr sh)])
  else if String.eqb cls "Dipole" then
    _ <- guard (kw_only kw dipole_kw) ;;
    l <- kw_num kw "length" None ;; a <- kw_num kw "angle" pz ;; k1 <- kw_num kw "k1" pz ;;
    e1 <- kw_num kw "dipole_e1" pz ;; e2 <- kw_num kw "dipole_e2" pz ;; t <- kw_num kw "tilt" pz ;;
    g <- kw_num kw "gap" pz ;; fi <- kw_num kw "fringe_integral" pz ;; fx <- kw_fintx kw fi ;;
    Some (CLeaf "Dipole" name [("length", PNum l); ("angle", PNum a); ("k1", PNum k1); ("e1", PNum e1); ("e2", PNum e2);
                               ("tilt", PNum t); ("gap", PNum g); ("fint", PNum fi); ("fintx", PNum fx)])
  else if String.eqb cls "RBend" then
    (* RBend.__init__: dipole_e = rbend_e + angle / 2 on the binary32 tensors, handed on to Dipole.__init__ *)
    _ <- guard (kw_only kw rbend_kw) ;;
    l <- kw_num kw "length" None ;; a <- kw_num kw "angle" pz ;; k1 <- kw_num kw "k1" pz ;;
    e1 <- kw_num kw "rbend_e1" pz ;; e2 <- kw_num kw "rbend_e2" pz ;; t <- kw_num kw "tilt" pz ;;
    g <- kw_num kw "gap" pz ;; fi <- kw_num kw "fringe_integral" pz ;; fx <- kw_fintx kw fi ;;
    Some (CLeaf "RBend" name [("length", PNum l); ("angle", PNum a); ("k1", PNum k1);
                              ("e1", f32 (f32add e1 (half a))); ("e2", f32 (f32add e2 (half a)));
                              ("tilt", PNum t); ("gap", PNum g); ("fint", PNum fi); ("fintx", PNum fx)])
  else if String.eqb cls "CustomTransferMap" then
    _ <- guard (kw_only kw ["length"; "predefined_transfer_map"]) ;; l <- kw_num kw "length" pz ;;
    match kwget kw "predefined_transfer_map" with
    | Some (VMat m) => if shape_ok 7 7 m then Some (CLeaf "CustomTransferMap" name (("length", PNum l) :: mat_params m)) else None
    | _ => None
    end
  else None.

(* cheetah.Segment(elements=[..], name=n) *)
Definition mk_segment (name : string) (elements : list ctree) : ctree := CSeg (Some name) elements.

(* [f(x) for x in xs] where f may raise *)
Definition map_raising {A B} (f : A -> option B) (xs : list A) : option (list B) := collect (map f xs).

(* ================================================================== LatticeJSON (cheetah/latticejson.py, model Ops/Json.v)
   An Element object is a value of Json.v's [tree P]: a leaf with its name and payload (class + attributes), or a Segment
   with its name and elements.  Python dicts that are only written and merged (convert_segment) are Json.v's association
   lists, newest binding first: {} = [], d[k] = v is (k, v) :: d, d.update(d') is d' ++ d; d[k] as a read is [lookup]
   (KeyError = None), k in d is [dict_has].  Loops over a list with local variables assigned in the body are [foldM] over
   the tuple of these variables. *)
From Cheetah.Ops Require Import Json.

Fixpoint foldM {S A : Type} (f : S -> A -> option S) (xs : list A) (s : S) : option S :=
  match xs with
  | [] => Some s
  | x :: r => match f s x with Some s' => foldM f r s' | None => None end
  end.

Definition is_segment {P} (t : tree P) : bool := negb (is_leaf t).                       (* isinstance(x, cheetah.Segment) *)
Definition seg_elements {P} (t : tree P) : option (list (tree P)) :=                      (* x.elements (AttributeError on a leaf) *)
  match t with Sg _ ts => Some ts | Lf _ _ => None end.
Definition leaf_payload {P} (t : tree P) : option P :=                                    (* the attributes of a non-Segment element *)
  match t with Lf _ p => Some p | Sg _ _ => None end.
Definition dict_has {A} (d : dict A) (k : string) : bool := match lookup d k with Some _ => true | None => false end.
Definition dict_set {A} (d : dict A) (k : string) (v : A) : dict A := (k, v) :: d.
Definition dict_update {A} (d d' : dict A) : dict A := (d' ++ d)%list.
(* {k: v for ..} built from its items in iteration order *)
Definition dict_of_items {A} (items : list (string * A)) : dict A := rev items.

(* ================================================================== the line front end: pinned texts.
   The regex of fortran_namelist.define_element that Parse/Lines.v [define_header true] is a model of (F40 repaired: white space
   allowed between the element type and the first comma).  re.fullmatch itself stays an opaque primitive (tested by C13). *)
Definition define_element_pattern_fixed : string := "([a-z0-9_\.]+)\s*\:\s*([a-z0-9_]+)\s*(\,(.*))?".
(* merge_delimiter_continued_lines is NOT translated (index arithmetic on a list with holes; Parse/Lines.v [merge_fixed] is its
   hand transcription as a list traversal, argued in the header of Lines.v and tested by C13).  Pinned instead: the sha256 of the
   function's AST (docstring and annotations removed, local names numbered) for the text that [merge_fixed] transcribes (F41
   repaired: `while merged_lines[i].endswith(delimiter) and i + num_added_lines < len(merged_lines)`). *)
Definition merge_delimiter_continued_lines_ast_sha256_fixed : string := "ade480cd79dc76ac7ca9f8312699f0178f7e35a1cd31bb166336c07f06d36ed4".
