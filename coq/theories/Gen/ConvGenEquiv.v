(** Equivalence of the regenerated transcription (Gen/ConvGen.v, harness/translate_conv.py) with the hand-written models
    Parse/LatticeLang.v (the REPAIRED converter variants: convert_bmad_v all_fixes, convert_elegant), Parse/Lines.v and Ops/Json.v.
    One lemma [<generated name>_eq] per generated definition; gen_*_convert_element_eq tie the whole recursive importer step to
    [expand_v]. *)
From Coq Require Import List String Ascii Bool ZArith PrimFloat Arith Lia.
From Cheetah.Parse Require Import LatticeLang Lines.
From Cheetah.Ops Require Import Json.
From Cheetah.Gen Require Import ConvGenBase.
From Cheetah.Gen Require Import ConvGen.
Import ListNotations.
Open Scope string_scope.

Arguments round32 : simpl never.

Lemma forallb_map_fst : forall {A B} (f : A -> bool) (l : list (A * B)), forallb f (map fst l) = forallb (fun kv => f (fst kv)) l.
Proof. induction l as [|[a b] l IH]; simpl; [reflexivity | now rewrite IH]. Qed.

(* ------------------------------------------------------------------ validate_understood_properties *)
Lemma gen_validate_understood_properties_eq : forall pats ps,
  gen_validate_understood_properties pats ps
  = guard (forallb (fun kv => existsb (fun p => re_fullmatch p (fst kv)) pats) ps).
Proof. intros. unfold gen_validate_understood_properties, dict_keys. now rewrite forallb_map_fst. Qed.

(* on a list of Plain patterns (no regex metacharacter) the validation is the model's [understood] *)
Lemma validate_plain : forall names ps,
  gen_validate_understood_properties (map Plain names) ps = guard (understood names ps).
Proof.
  intros. rewrite gen_validate_understood_properties_eq. unfold understood. f_equal.
  induction ps as [|[k v] ps IHps]; [reflexivity|]. simpl. rewrite IHps. f_equal.
  clear IHps. unfold mem. induction names as [|n r IH]; simpl; [reflexivity | now rewrite IH].
Qed.

Ltac plain_lists :=
  repeat match goal with
  | |- context [gen_validate_understood_properties ?l ?ps] =>
    lazymatch l with
    | map Plain _ => fail
    | _ => let names := eval cbv in (map (fun p => match p with Plain s => s | Rx _ => EmptyString end) l) in
           change l with (map Plain names); rewrite (validate_plain names ps)
    end
  end.

Ltac kill_get ps k :=
  let x := fresh "x" in let s := fresh "s" in
  destruct (get ps k) as [[x|s]|] eqn:?; cbn; try reflexivity.

Ltac gets ps :=
  repeat (unfold sbend_angle, get_default, req, opt, has;
          match goal with
          | H : get ps ?k = _ |- context [get ps ?k] => rewrite H; cbn; try reflexivity
          | |- context [get ps ?k] => kill_get ps k
          end).

Ltac branch ps :=
  unfold sbend_angle, get_default, req, opt, has, contains, getitem;
  match goal with
  | |- context [guard (understood ?n ps)] => destruct (understood n ps); cbn; [|reflexivity]
  | _ => idtac
  end; gets ps; try reflexivity.

Ltac consts := cbn [String.eqb Ascii.eqb Bool.eqb orb mem existsb fx_kick fx_g fx_e1 fx_ecol all_fixes kicker_names].
Ltac br_bmad ps := unfold convert_bmad_v; consts; plain_lists; branch ps.
Ltac br_elegant ps := unfold convert_elegant, rfcw_names, csrcsben_names; consts; plain_lists; branch ps.


Lemma gen_bmad_convert_element__marker_eq : forall name ps,
  gen_bmad_convert_element__marker name ps = convert_bmad_v all_fixes name "marker" ps.
Proof. intros name ps. unfold gen_bmad_convert_element__marker; br_bmad ps. Qed.

Lemma gen_bmad_convert_element__monitor_eq : forall name ps,
  gen_bmad_convert_element__monitor name ps = convert_bmad_v all_fixes name "monitor" ps.
Proof. intros name ps. unfold gen_bmad_convert_element__monitor; br_bmad ps. Qed.

Lemma gen_bmad_convert_element__instrument_eq : forall name ps,
  gen_bmad_convert_element__instrument name ps = convert_bmad_v all_fixes name "instrument" ps.
Proof. intros name ps. unfold gen_bmad_convert_element__instrument; br_bmad ps. Qed.

Lemma gen_bmad_convert_element__pipe_eq : forall name ps,
  gen_bmad_convert_element__pipe name ps = convert_bmad_v all_fixes name "pipe" ps.
Proof. intros name ps. unfold gen_bmad_convert_element__pipe; br_bmad ps. Qed.

Lemma gen_bmad_convert_element__drift_eq : forall name ps,
  gen_bmad_convert_element__drift name ps = convert_bmad_v all_fixes name "drift" ps.
Proof. intros name ps. unfold gen_bmad_convert_element__drift; br_bmad ps. Qed.

Lemma gen_bmad_convert_element__hkicker_eq : forall name ps,
  gen_bmad_convert_element__hkicker name ps = convert_bmad_v all_fixes name "hkicker" ps.
Proof. intros name ps. unfold gen_bmad_convert_element__hkicker; br_bmad ps. Qed.

Lemma gen_bmad_convert_element__vkicker_eq : forall name ps,
  gen_bmad_convert_element__vkicker name ps = convert_bmad_v all_fixes name "vkicker" ps.
Proof. intros name ps. unfold gen_bmad_convert_element__vkicker; br_bmad ps. Qed.

Lemma gen_bmad_convert_element__sbend_eq : forall name ps,
  gen_bmad_convert_element__sbend name ps = convert_bmad_v all_fixes name "sbend" ps.
Proof. intros name ps. unfold gen_bmad_convert_element__sbend; br_bmad ps. Qed.

Lemma gen_bmad_convert_element__quadrupole_eq : forall name ps,
  gen_bmad_convert_element__quadrupole name ps = convert_bmad_v all_fixes name "quadrupole" ps.
Proof. intros name ps. unfold gen_bmad_convert_element__quadrupole; br_bmad ps. Qed.

Lemma gen_bmad_convert_element__solenoid_eq : forall name ps,
  gen_bmad_convert_element__solenoid name ps = convert_bmad_v all_fixes name "solenoid" ps.
Proof. intros name ps. unfold gen_bmad_convert_element__solenoid; br_bmad ps. Qed.

Lemma gen_bmad_convert_element__lcavity_eq : forall name ps,
  gen_bmad_convert_element__lcavity name ps = convert_bmad_v all_fixes name "lcavity" ps.
Proof. intros name ps. unfold gen_bmad_convert_element__lcavity; br_bmad ps. Qed.

Lemma gen_bmad_convert_element__rcollimator_eq : forall name ps,
  gen_bmad_convert_element__rcollimator name ps = convert_bmad_v all_fixes name "rcollimator" ps.
Proof. intros name ps. unfold gen_bmad_convert_element__rcollimator; br_bmad ps. Qed.

Lemma gen_bmad_convert_element__ecollimator_eq : forall name ps,
  gen_bmad_convert_element__ecollimator name ps = convert_bmad_v all_fixes name "ecollimator" ps.
Proof. intros name ps. unfold gen_bmad_convert_element__ecollimator; br_bmad ps. Qed.

Lemma gen_bmad_convert_element__wiggler_eq : forall name ps,
  gen_bmad_convert_element__wiggler name ps = convert_bmad_v all_fixes name "wiggler" ps.
Proof. intros name ps. unfold gen_bmad_convert_element__wiggler; br_bmad ps. Qed.

Lemma gen_bmad_convert_element__patch_eq : forall name ps,
  gen_bmad_convert_element__patch name ps = convert_bmad_v all_fixes name "patch" ps.
Proof. intros name ps. unfold gen_bmad_convert_element__patch; br_bmad ps. Qed.

(* the fallback: an element type that none of the branches names becomes a Drift of its length *)
Lemma gen_bmad_convert_element__otherwise_eq : forall name ps,
  gen_bmad_convert_element__otherwise name ps = (l <- opt ps "l" zero ;; Some (drift name l)).
Proof. intros name ps. unfold gen_bmad_convert_element__otherwise. branch ps. Qed.

Lemma gen_elegant_convert_element__sole_eq : forall name ps,
  gen_elegant_convert_element__sole name ps = convert_elegant name "sole" ps.
Proof. intros name ps. unfold gen_elegant_convert_element__sole; br_elegant ps. Qed.

Lemma gen_elegant_convert_element__hkick_hkic_eq : forall name ps,
  gen_elegant_convert_element__hkick_hkic name ps = convert_elegant name "hkick" ps /\
  gen_elegant_convert_element__hkick_hkic name ps = convert_elegant name "hkic" ps.
Proof. intros name ps. repeat split; unfold gen_elegant_convert_element__hkick_hkic; br_elegant ps. Qed.

Lemma gen_elegant_convert_element__vkick_vkic_eq : forall name ps,
  gen_elegant_convert_element__vkick_vkic name ps = convert_elegant name "vkick" ps /\
  gen_elegant_convert_element__vkick_vkic name ps = convert_elegant name "vkic" ps.
Proof. intros name ps. repeat split; unfold gen_elegant_convert_element__vkick_vkic; br_elegant ps. Qed.

Lemma gen_elegant_convert_element__mark_eq : forall name ps,
  gen_elegant_convert_element__mark name ps = convert_elegant name "mark" ps.
Proof. intros name ps. unfold gen_elegant_convert_element__mark; br_elegant ps. Qed.

Lemma gen_elegant_convert_element__kick_eq : forall name ps,
  gen_elegant_convert_element__kick name ps = convert_elegant name "kick" ps.
Proof. intros name ps. unfold gen_elegant_convert_element__kick; br_elegant ps. Qed.

Lemma gen_elegant_convert_element__drift_drif_eq : forall name ps,
  gen_elegant_convert_element__drift_drif name ps = convert_elegant name "drift" ps /\
  gen_elegant_convert_element__drift_drif name ps = convert_elegant name "drif" ps.
Proof. intros name ps. repeat split; unfold gen_elegant_convert_element__drift_drif; br_elegant ps. Qed.

Lemma gen_elegant_convert_element__csrdrift_csrdrif_eq : forall name ps,
  gen_elegant_convert_element__csrdrift_csrdrif name ps = convert_elegant name "csrdrift" ps /\
  gen_elegant_convert_element__csrdrift_csrdrif name ps = convert_elegant name "csrdrif" ps.
Proof. intros name ps. repeat split; unfold gen_elegant_convert_element__csrdrift_csrdrif; br_elegant ps. Qed.

Lemma gen_elegant_convert_element__lscdrift_lscdrif_eq : forall name ps,
  gen_elegant_convert_element__lscdrift_lscdrif name ps = convert_elegant name "lscdrift" ps /\
  gen_elegant_convert_element__lscdrift_lscdrif name ps = convert_elegant name "lscdrif" ps.
Proof. intros name ps. repeat split; unfold gen_elegant_convert_element__lscdrift_lscdrif; br_elegant ps. Qed.

Lemma gen_elegant_convert_element__ecol_eq : forall name ps,
  gen_elegant_convert_element__ecol name ps = convert_elegant name "ecol" ps.
Proof. intros name ps. unfold gen_elegant_convert_element__ecol; br_elegant ps. Qed.

Lemma gen_elegant_convert_element__rcol_eq : forall name ps,
  gen_elegant_convert_element__rcol name ps = convert_elegant name "rcol" ps.
Proof. intros name ps. unfold gen_elegant_convert_element__rcol; br_elegant ps. Qed.

Lemma gen_elegant_convert_element__quad_eq : forall name ps,
  gen_elegant_convert_element__quad name ps = convert_elegant name "quad" ps.
Proof. intros name ps. unfold gen_elegant_convert_element__quad; br_elegant ps. Qed.

Lemma gen_elegant_convert_element__sext_eq : forall name ps,
  gen_elegant_convert_element__sext name ps = convert_elegant name "sext" ps.
Proof. intros name ps. unfold gen_elegant_convert_element__sext; br_elegant ps. Qed.

Lemma gen_elegant_convert_element__moni_eq : forall name ps,
  gen_elegant_convert_element__moni name ps = convert_elegant name "moni" ps.
Proof. intros name ps. unfold gen_elegant_convert_element__moni; br_elegant ps. Qed.

(* ------------------------------------------------------------------ Elegant ematrix.
   The 36 + 6 matrix entries are read in a different ORDER by the code (all r_ij, then all c_i) and by the model (row by
   row, c_i behind r_i6); which entry raises first is therefore different, and both raise iff some entry is a string.  The
   lemma is stated for element dicts whose matrix entries are numbers or absent (precondition [ematrix_entries_numeric]);
   the validation list (with its two regex patterns), the `order` test, the affine column, the zero seventh row and the
   length are covered for every such dict. *)
Definition ematrix_entry_keys : list string :=
  flat_map (fun i => map (fun j => "r" ++ idx i ++ idx j) (seq 0 6)) (seq 0 6) ++ map (fun i => "c" ++ idx i) (seq 0 6).
Definition ematrix_entries_numeric (ps : props) : Prop :=
  forall k s, mem k ematrix_entry_keys = true -> get ps k <> Some (PStr s).
Definition valraw (ps : props) (k : string) : float := match get ps k with Some (PNum x) => x | _ => zero end.

Lemma gd_num : forall ps k, ematrix_entries_numeric ps -> mem k ematrix_entry_keys = true ->
  get_default ps k (VN 0) = VN (valraw ps k).
Proof.
  intros ps k H M. unfold get_default, valraw. specialize (H k). destruct (get ps k) as [[x|s]|]; try reflexivity.
  exfalso. now apply (H s).
Qed.
Lemma opt_num : forall ps k, ematrix_entries_numeric ps -> mem k ematrix_entry_keys = true ->
  opt ps k zero = Some (valraw ps k).
Proof.
  intros ps k H M. unfold opt, valraw. specialize (H k). destruct (get ps k) as [[x|s]|]; try reflexivity.
  exfalso. now apply (H s).
Qed.

Lemma ematrix_patterns : forall k,
  existsb (fun p => re_fullmatch p k)
    [Plain "element_type"; Plain "l"; Plain "order"; Rx [PLit "c"; PRange "1" "6"]; Rx [PLit "r"; PRange "1" "6"; PRange "1" "6"]; Plain "group"]
  = ematrix_key k.
Proof.
  intros k. unfold ematrix_key, mem. cbn [existsb re_fullmatch].
  destruct (String.eqb k "element_type"), (String.eqb k "l"), (String.eqb k "order"), (String.eqb k "group"); cbn [orb];
    rewrite ?orb_true_r; try reflexivity.
  rewrite !orb_false_r.
  destruct (list_ascii_of_string k) as [|a [|b [|c [|d l]]]]; cbn [rx_match pit_match andb orb]; try reflexivity.
  all: unfold digit16; change (nat_of_ascii "1") with 49%nat; change (nat_of_ascii "6") with 54%nat;
    rewrite ?(Ascii.eqb_sym a "c"), ?(Ascii.eqb_sym a "r");
    repeat match goal with
    | |- context [Ascii.eqb ?x ?y] => destruct (Ascii.eqb x y)
    | |- context [Nat.leb ?x ?y] => destruct (Nat.leb x y)
    end; reflexivity.
Qed.

Lemma ematrix_validation : forall ps,
  gen_validate_understood_properties
    [Plain "element_type"; Plain "l"; Plain "order"; Rx [PLit "c"; PRange "1" "6"]; Rx [PLit "r"; PRange "1" "6"; PRange "1" "6"]; Plain "group"] ps
  = guard (forallb (fun kv => ematrix_key (fst kv)) ps).
Proof.
  intros. rewrite gen_validate_understood_properties_eq. f_equal.
  induction ps as [|[k v] ps IH]; [reflexivity|]. cbn [forallb fst]. now rewrite IH, ematrix_patterns.
Qed.

Lemma ematrix_core : forall name ps, ematrix_entries_numeric ps ->
  (v_44 <- tensor_rows (map (fun i => map (fun j => get_default ps ("r" ++ py_str_nat (i + 1) ++ py_str_nat (j + 1)) (VN 0)) (py_range 6)) (py_range 6)) ;;
   R_1 <- set_block (torch_zeros 7 7) 6 6 v_44 ;;
   v_45 <- tensor_vec (map (fun i_1 => get_default ps ("c" ++ py_str_nat (i_1 + 1)) (VN 0)) (py_range 6)) ;;
   R_2 <- set_col R_1 6 6 v_45 ;;
   v_46 <- getitem ps "l" ;;
   v_47 <- torch_tensor v_46 ;;
   ctor "CustomTransferMap" name [("length", v_47); ("predefined_transfer_map", VMat R_2)])
  = (m <- ematrix_params ps ;; l <- req ps "l" ;; Some (CLeaf "CustomTransferMap" name (("length", f32 l) :: m))).
Proof.
  intros name ps Hn.
  Local Arguments get_default : simpl never.
  Local Arguments opt : simpl never.
  Local Arguments getitem : simpl never.
  Local Arguments req : simpl never.
  unfold ematrix_params. cbn.
  rewrite !(gd_num ps _ Hn) by reflexivity.
  rewrite !(opt_num ps _ Hn) by reflexivity.
  cbn. unfold getitem, req.
  destruct (get ps "l") as [[x|s]|]; cbn; reflexivity.
Qed.

Lemma gen_elegant_convert_element__ematrix_eq : forall name ps, ematrix_entries_numeric ps ->
  gen_elegant_convert_element__ematrix name ps = convert_elegant name "ematrix" ps.
Proof.
  intros name ps Hn. unfold gen_elegant_convert_element__ematrix, convert_elegant. consts.
  rewrite ematrix_validation.
  destruct (forallb (fun kv => ematrix_key (fst kv)) ps); cbn [guard]; [|reflexivity].
  unfold py_ne_num, opt at 1, get_default at 1.
  destruct (get ps "order") as [[o|s]|]; try reflexivity.
  - cbn [of_pval]. change one with 1%float. destruct (PrimFloat.eqb o 1); cbn [negb guard]; [|reflexivity].
    apply ematrix_core; assumption.
  - change (PrimFloat.eqb 1 1) with true. change (PrimFloat.eqb one one) with true. cbn [negb guard].
    apply ematrix_core; assumption.
Qed.

Lemma gen_elegant_convert_element__rfca_eq : forall name ps,
  gen_elegant_convert_element__rfca name ps = convert_elegant name "rfca" ps.
Proof. intros name ps. unfold gen_elegant_convert_element__rfca; br_elegant ps. Qed.

Lemma gen_elegant_convert_element__rfcw_eq : forall name ps,
  gen_elegant_convert_element__rfcw name ps = convert_elegant name "rfcw" ps.
Proof. intros name ps. unfold gen_elegant_convert_element__rfcw; br_elegant ps. Qed.

Lemma gen_elegant_convert_element__rfdf_eq : forall name ps,
  gen_elegant_convert_element__rfdf name ps = convert_elegant name "rfdf" ps.
Proof. intros name ps. unfold gen_elegant_convert_element__rfdf; br_elegant ps. Qed.

Lemma gen_elegant_convert_element__sben_eq : forall name ps,
  gen_elegant_convert_element__sben name ps = convert_elegant name "sben" ps.
Proof. intros name ps. unfold gen_elegant_convert_element__sben; br_elegant ps. Qed.

Lemma gen_elegant_convert_element__rben_eq : forall name ps,
  gen_elegant_convert_element__rben name ps = convert_elegant name "rben" ps.
Proof. intros name ps. unfold gen_elegant_convert_element__rben; br_elegant ps. Qed.

Lemma gen_elegant_convert_element__csrcsben_eq : forall name ps,
  gen_elegant_convert_element__csrcsben name ps = convert_elegant name "csrcsben" ps.
Proof. intros name ps. unfold gen_elegant_convert_element__csrcsben; br_elegant ps. Qed.

Lemma gen_elegant_convert_element__watch_eq : forall name ps,
  gen_elegant_convert_element__watch name ps = convert_elegant name "watch" ps.
Proof. intros name ps. unfold gen_elegant_convert_element__watch; br_elegant ps. Qed.

Lemma gen_elegant_convert_element__charge_wake_eq : forall name ps,
  gen_elegant_convert_element__charge_wake name ps = convert_elegant name "charge" ps /\
  gen_elegant_convert_element__charge_wake name ps = convert_elegant name "wake" ps.
Proof. intros name ps. repeat split; unfold gen_elegant_convert_element__charge_wake; br_elegant ps. Qed.

(* the fallback: an element type that none of the branches names becomes a Drift of its length *)
Lemma gen_elegant_convert_element__otherwise_eq : forall name ps,
  gen_elegant_convert_element__otherwise name ps = (l <- opt ps "l" zero ;; Some (drift name l)).
Proof. intros name ps. unfold gen_elegant_convert_element__otherwise. branch ps. Qed.

(* ------------------------------------------------------------------ the dispatch on the element type *)
Ltac split_type ty tac :=
  repeat match goal with
  | |- context [String.eqb ty ?s] =>
    let E := fresh "E" in
    destruct (String.eqb ty s) eqn:E;
    [apply String.eqb_eq in E; subst ty; cbn [String.eqb Ascii.eqb Bool.eqb orb]; tac | cbn [orb]]
  end.
Ltac rewrite_false ty :=
  repeat match goal with H : String.eqb ty _ = false |- _ => rewrite H; clear H end.

(* the branch bodies stay folded while the dispatch is analysed *)
Local Opaque gen_bmad_convert_element__marker gen_bmad_convert_element__monitor gen_bmad_convert_element__instrument gen_bmad_convert_element__pipe gen_bmad_convert_element__drift gen_bmad_convert_element__hkicker gen_bmad_convert_element__vkicker gen_bmad_convert_element__sbend gen_bmad_convert_element__quadrupole gen_bmad_convert_element__solenoid gen_bmad_convert_element__lcavity gen_bmad_convert_element__rcollimator gen_bmad_convert_element__ecollimator gen_bmad_convert_element__wiggler gen_bmad_convert_element__patch gen_bmad_convert_element__otherwise gen_elegant_convert_element__sole gen_elegant_convert_element__hkick_hkic gen_elegant_convert_element__vkick_vkic gen_elegant_convert_element__mark gen_elegant_convert_element__kick gen_elegant_convert_element__drift_drif gen_elegant_convert_element__csrdrift_csrdrif gen_elegant_convert_element__lscdrift_lscdrif gen_elegant_convert_element__ecol gen_elegant_convert_element__rcol gen_elegant_convert_element__quad gen_elegant_convert_element__sext gen_elegant_convert_element__moni gen_elegant_convert_element__ematrix gen_elegant_convert_element__rfca gen_elegant_convert_element__rfcw gen_elegant_convert_element__rfdf gen_elegant_convert_element__sben gen_elegant_convert_element__rben gen_elegant_convert_element__csrcsben gen_elegant_convert_element__watch gen_elegant_convert_element__charge_wake gen_elegant_convert_element__otherwise.
(* element dicts whose "element_type" is a string *)
Lemma gen_bmad_dispatch : forall rec c name ps ty,
  get c name = Some (VElem ps) -> get ps "element_type" = Some (PStr ty) ->
  gen_bmad_convert_element rec c name = convert_bmad_v all_fixes name ty ps.
Proof.
  intros rec c name ps ty Hc Ht.
  unfold gen_bmad_convert_element, ctx_getitem. rewrite Hc. cbn [is_list is_dict as_dict andb].
  unfold contains, has, getitem. rewrite Ht. cbn [option_map of_pval py_eq_str py_in_strs mem existsb].
  split_type ty ltac:(solve [apply gen_bmad_convert_element__marker_eq | apply gen_bmad_convert_element__monitor_eq | apply gen_bmad_convert_element__instrument_eq | apply gen_bmad_convert_element__pipe_eq | apply gen_bmad_convert_element__drift_eq | apply gen_bmad_convert_element__hkicker_eq | apply gen_bmad_convert_element__vkicker_eq | apply gen_bmad_convert_element__sbend_eq | apply gen_bmad_convert_element__quadrupole_eq | apply gen_bmad_convert_element__solenoid_eq | apply gen_bmad_convert_element__lcavity_eq | apply gen_bmad_convert_element__rcollimator_eq | apply gen_bmad_convert_element__ecollimator_eq | apply gen_bmad_convert_element__wiggler_eq | apply gen_bmad_convert_element__patch_eq]).
  rewrite gen_bmad_convert_element__otherwise_eq. unfold convert_bmad_v. cbn [mem existsb]. rewrite_false ty. reflexivity.
Qed.

Lemma gen_elegant_dispatch : forall rec c name ps ty,
  get c name = Some (VElem ps) -> get ps "element_type" = Some (PStr ty) ->
  (ty = "ematrix" -> ematrix_entries_numeric ps) ->
  gen_elegant_convert_element rec c name = convert_elegant name ty ps.
Proof.
  intros rec c name ps ty Hc Ht Hm.
  unfold gen_elegant_convert_element, ctx_getitem. rewrite Hc. cbn [is_list is_dict as_dict andb].
  unfold contains, has, getitem. rewrite Ht. cbn [option_map of_pval py_eq_str py_in_strs mem existsb].
  split_type ty ltac:(solve [apply gen_elegant_convert_element__sole_eq | apply gen_elegant_convert_element__hkick_hkic_eq | apply gen_elegant_convert_element__vkick_vkic_eq | apply gen_elegant_convert_element__mark_eq | apply gen_elegant_convert_element__kick_eq | apply gen_elegant_convert_element__drift_drif_eq | apply gen_elegant_convert_element__csrdrift_csrdrif_eq | apply gen_elegant_convert_element__lscdrift_lscdrif_eq | apply gen_elegant_convert_element__ecol_eq | apply gen_elegant_convert_element__rcol_eq | apply gen_elegant_convert_element__quad_eq | apply gen_elegant_convert_element__sext_eq | apply gen_elegant_convert_element__moni_eq | apply gen_elegant_convert_element__rfca_eq | apply gen_elegant_convert_element__rfcw_eq | apply gen_elegant_convert_element__rfdf_eq | apply gen_elegant_convert_element__sben_eq | apply gen_elegant_convert_element__rben_eq | apply gen_elegant_convert_element__csrcsben_eq | apply gen_elegant_convert_element__watch_eq | apply gen_elegant_convert_element__charge_wake_eq | apply gen_elegant_convert_element__ematrix_eq; apply Hm; reflexivity]).
  rewrite gen_elegant_convert_element__otherwise_eq. unfold convert_elegant. cbn [mem existsb]. rewrite_false ty. reflexivity.
Qed.

(* ------------------------------------------------------------------ the whole converter step: context lookup, lines
   (recursion through [rec]), element dicts, everything else raises.  [rec] is instantiated with the model's importer at
   the smaller fuel: these are the unfolding equations of [expand_v] (open recursion).
   MODELLING ERROR of Parse/LatticeLang.v found by this tie: for an element dict whose "element_type" is a NUMBER
   (`q1[element_type] = 3` in a lattice file) the code compares it with every type name, finds none equal and returns the
   fallback Drift (confirmed on cheetah), whereas [convert_v] answers None.  The equalities are stated for contexts without
   such a dict ([type_not_number]); gen_*_convert_element_number_type states what the code does on them. *)
Definition type_not_number (c : ctx) (name : string) : Prop :=
  forall ps x, get c name = Some (VElem ps) -> get ps "element_type" <> Some (PNum x).
Definition ematrix_numeric_at (c : ctx) (name : string) : Prop :=
  forall ps, get c name = Some (VElem ps) -> get ps "element_type" = Some (PStr "ematrix") -> ematrix_entries_numeric ps.

Lemma gen_bmad_convert_element_eq : forall f c name, type_not_number c name ->
  gen_bmad_convert_element (expand_v all_fixes f Bmad c) c name = expand_v all_fixes (S f) Bmad c name.
Proof.
  intros f c name Hn. cbn [expand_v].
  destruct (get c name) as [[x|s|ps|items]|] eqn:Hc.
  1, 2, 5: unfold gen_bmad_convert_element, ctx_getitem; rewrite Hc; reflexivity.
  - unfold convert_v. destruct (get ps "element_type") as [[x|ty]|] eqn:Ht.
    + exfalso. exact (Hn ps x Hc Ht).
    + exact (gen_bmad_dispatch _ c name ps ty Hc Ht).
    + unfold gen_bmad_convert_element, ctx_getitem. rewrite Hc. cbn [is_list is_dict as_dict andb]. unfold contains, has. now rewrite Ht.
  - unfold gen_bmad_convert_element, ctx_getitem. rewrite Hc. reflexivity.
Qed.

Lemma gen_elegant_convert_element_eq : forall fx f c name, type_not_number c name -> ematrix_numeric_at c name ->
  gen_elegant_convert_element (expand_v fx f Elegant c) c name = expand_v fx (S f) Elegant c name.
Proof.
  intros fx f c name Hn Hm. cbn [expand_v].
  destruct (get c name) as [[x|s|ps|items]|] eqn:Hc.
  1, 2, 5: unfold gen_elegant_convert_element, ctx_getitem; rewrite Hc; reflexivity.
  - unfold convert_v. destruct (get ps "element_type") as [[x|ty]|] eqn:Ht.
    + exfalso. exact (Hn ps x Hc Ht).
    + apply (gen_elegant_dispatch _ c name ps ty Hc Ht). intros ->. exact (Hm ps Hc Ht).
    + unfold gen_elegant_convert_element, ctx_getitem. rewrite Hc. cbn [is_list is_dict as_dict andb]. unfold contains, has. now rewrite Ht.
  - unfold gen_elegant_convert_element, ctx_getitem. rewrite Hc. reflexivity.
Qed.

(* what the code does on a numeric element type: no comparison holds, the fallback branch is taken *)
Lemma gen_bmad_convert_element_number_type : forall rec c name ps x,
  get c name = Some (VElem ps) -> get ps "element_type" = Some (PNum x) ->
  gen_bmad_convert_element rec c name = (l <- opt ps "l" zero ;; Some (drift name l)).
Proof.
  intros rec c name ps x Hc Ht.
  unfold gen_bmad_convert_element, ctx_getitem. rewrite Hc. cbn [is_list is_dict as_dict andb].
  unfold contains, has, getitem. rewrite Ht. cbn [option_map of_pval py_eq_str py_in_strs].
  apply gen_bmad_convert_element__otherwise_eq.
Qed.
Lemma gen_elegant_convert_element_number_type : forall rec c name ps x,
  get c name = Some (VElem ps) -> get ps "element_type" = Some (PNum x) ->
  gen_elegant_convert_element rec c name = (l <- opt ps "l" zero ;; Some (drift name l)).
Proof.
  intros rec c name ps x Hc Ht.
  unfold gen_elegant_convert_element, ctx_getitem. rewrite Hc. cbn [is_list is_dict as_dict andb].
  unfold contains, has, getitem. rewrite Ht. cbn [option_map of_pval py_eq_str py_in_strs].
  apply gen_elegant_convert_element__otherwise_eq.
Qed.

(* ================================================================== the line front end *)
(* the three continuation passes of convert_lattice_to_cheetah, in the order and with the flags of Lines.v's [merge_all_fixed] *)
Lemma gen_bmad_merge_passes_eq : forall ls, gen_bmad_merge_passes merge_fixed ls = merge_all_fixed ls.
Proof. reflexivity. Qed.
Lemma gen_elegant_merge_passes_eq : forall ls, gen_elegant_merge_passes merge_fixed ls = merge_all_fixed ls.
Proof. reflexivity. Qed.
(* pinned texts (see Gen/ConvGenBase.v) *)
Lemma gen_define_element_pattern_eq : gen_define_element_pattern = define_element_pattern_fixed.
Proof. reflexivity. Qed.
Lemma gen_merge_delimiter_continued_lines_ast_sha256_eq :
  gen_merge_delimiter_continued_lines_ast_sha256 = merge_delimiter_continued_lines_ast_sha256_fixed.
Proof. reflexivity. Qed.

(* ================================================================== LatticeJSON: Ops/Json.v *)
Section LatticeJSONEquiv.
Variables (P J V Jv Cls : Type).
Variable class_name : P -> string.
Variable defining_features : P -> list string.
Variable getattr_ : P -> string -> V.
Variable feature2nontorch : V -> Jv.
Variable mk_entry : string -> dict Jv -> J.
Variable entry_class : J -> option string.
Variable entry_params : J -> option (dict Jv).
Variable cheetah_class : string -> option Cls.
Variable nontorch2feature : Jv -> V.
Variable construct : Cls -> string -> dict V -> option P.

(* what latticejson.convert_element writes for a leaf: every defining feature but "name", through feature2nontorch *)
Definition lj_params (p : P) : dict Jv :=
  dict_of_items (map (fun f => (f, feature2nontorch (getattr_ p f)))
                     (filter (fun f => negb (String.eqb f "name")) (defining_features p))).
(* Json.v's [sv]: the entry [class name, params] *)
Definition lj_sv (p : P) : J := mk_entry (class_name p) (lj_params p).
(* Json.v's [ld]: parse_element on the entry found under the name *)
Definition lj_ld (name : string) (j : J) : option P :=
  c <- entry_class j ;; k <- cheetah_class c ;; ps <- entry_params j ;;
  construct k name (map (fun '(key, value) => (key, nontorch2feature value)) ps).

Notation Gen_convert_element := (gen_lj_convert_element P V Jv class_name defining_features getattr_ feature2nontorch).
Notation Gen_convert_segment := (gen_lj_convert_segment P J V Jv class_name defining_features getattr_ feature2nontorch mk_entry).
Notation Gen_parse_element := (gen_lj_parse_element P J V Jv Cls entry_class entry_params cheetah_class nontorch2feature construct).
Notation Gen_parse_segment := (gen_lj_parse_segment P J V Jv Cls entry_class entry_params cheetah_class nontorch2feature construct).
Notation Conv := (conv P J lj_sv).
Notation Parse := (parse P J lj_ld).

Lemma gen_lj_convert_element_eq : forall n p,
  Gen_convert_element (Lf n p) = Some (n, class_name p, lj_params p).
Proof. reflexivity. Qed.

(* the inner loop of Json.v's [conv] *)
Definition conv_go : list (tree P) -> dict J -> dict (list string) -> list string -> dict J * dict (list string) * list string :=
  fix go (ts : list (tree P)) (E : dict J) (LL : dict (list string)) (cell : list string) :=
    match ts with
    | [] => (E, LL, cell)
    | t' :: r =>
      match t' with
      | Lf m p => go r ((m, lj_sv p) :: E) LL (cell ++ [m])%list
      | Sg m _ => let '(E', L') := Conv t' in go r (E' ++ E)%list (L' ++ LL)%list (cell ++ [m])%list
      end
    end.
Lemma conv_seg : forall n ts, Conv (Sg n ts) = let '(E, LL, cell) := conv_go ts [] [] [] in (E, (n, cell) :: LL).
Proof. reflexivity. Qed.

Lemma gen_lj_convert_segment_eq : forall n ts,
  Gen_convert_segment (fun t => Some (Conv t)) (Sg n ts) = Some (Conv (Sg n ts)).
Proof.
  intros n ts. rewrite conv_seg. unfold gen_lj_convert_segment. cbn [seg_elements].
  assert (H : forall ts E LL cell,
    foldM (fun '(elements_2, lattices_1, cell_1) element =>
       if is_segment element then
         r <- Some (Conv element) ;;
         let '(segment_elements, segment_lattices) := r in
         let elements_3 := dict_update elements_2 segment_elements in
         let lattices_2 := dict_update lattices_1 segment_lattices in
         let cell_2 := (cell_1 ++ [tname element])%list in Some (elements_3, lattices_2, cell_2)
       else
         r_1 <- Gen_convert_element element ;;
         let '(element_name, element_class, element_params) := r_1 in
         let elements_4 := dict_set elements_2 element_name (mk_entry element_class element_params) in
         let cell_3 := (cell_1 ++ [tname element])%list in Some (elements_4, lattices_1, cell_3)) ts (E, LL, cell)
    = Some (conv_go ts E LL cell)).
  { induction ts0 as [|t' r IH]; intros E LL cell; [reflexivity|].
    cbn [foldM conv_go]. destruct t' as [m p | m ts']; cbn [is_segment is_leaf negb].
    - rewrite gen_lj_convert_element_eq. cbn. apply IH.
    - destruct (Conv (Sg m ts')) as [E' L']. lazy beta iota zeta. cbn [tname]. unfold dict_update. apply IH. }
  rewrite H. destruct (conv_go ts [] [] []) as [[E LL] cell]. reflexivity.
Qed.

Lemma gen_lj_parse_element_eq : forall name E LL,
  Gen_parse_element name E LL
  = match lookup E name with Some j => option_map (Lf name) (lj_ld name j) | None => None end.
Proof.
  intros. unfold gen_lj_parse_element, lj_ld. destruct (lookup E name) as [j|]; [|reflexivity].
  destruct (entry_class j) as [c|]; [|reflexivity]. destruct (cheetah_class c) as [k|]; [|reflexivity].
  destruct (entry_params j) as [ps|]; [|reflexivity].
  destruct (construct k name _); reflexivity.
Qed.

Lemma foldM_ext : forall {S A} (f g : S -> A -> option S), (forall s x, f s x = g s x) -> forall xs s, foldM f xs s = foldM g xs s.
Proof. intros S A f g H. induction xs as [|x r IH]; intros s; [reflexivity|]. cbn. rewrite H. destruct (g s x); [apply IH | reflexivity]. Qed.

Lemma foldM_snoc : forall {A B} (g : A -> option B) xs acc,
  foldM (fun acc x => match g x with Some y => Some (acc ++ [y])%list | None => None end) xs acc
  = option_map (app acc) (mapM g xs).
Proof.
  intros A B g. induction xs as [|x r IH]; intros acc; cbn.
  - now rewrite app_nil_r.
  - destruct (g x) as [y|]; [|reflexivity]. rewrite IH. destruct (mapM g r) as [ys|]; cbn; [|reflexivity].
    now rewrite <- app_assoc.
Qed.

Lemma gen_lj_parse_segment_eq : forall f E LL name,
  Gen_parse_segment (Parse f E LL) name E LL = Parse (S f) E LL name.
Proof.
  intros f E LL name. unfold gen_lj_parse_segment. cbn [parse].
  destruct (lookup LL name) as [cell|]; [|reflexivity].
  rewrite (foldM_ext _ (fun acc x => match (match lookup LL x with
                                            | Some _ => Parse f E LL x
                                            | None => match lookup E x with Some j => option_map (Lf x) (lj_ld x j) | None => None end
                                            end) with Some y => Some (acc ++ [y])%list | None => None end)).
  - rewrite foldM_snoc. cbn [app]. destruct (mapM _ cell); reflexivity.
  - intros acc x. unfold dict_has. rewrite gen_lj_parse_element_eq. destruct (lookup LL x); [|destruct (lookup E x) as [j|]; [destruct (lj_ld x j)|]]; reflexivity.
Qed.
End LatticeJSONEquiv.
