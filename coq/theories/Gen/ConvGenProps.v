(** Final statements of the second tie for the lattice converters and LatticeJSON: the Coq transcription regenerated from the
    source text of cheetah/converters/{bmad,elegant}.py, converters/utils/fortran_namelist.py and latticejson.py (Gen/ConvGen.v,
    harness/translate_conv.py) coincides with the hand-written models Parse/LatticeLang.v, Parse/Lines.v and Ops/Json.v that carry
    the theorems of C13 and C14.  Only statements closed by [exact] of a lemma of Gen/ConvGenEquiv.v, each followed by
    [Print Assumptions].  The converter statements mention binary64 numbers ([PrimFloat]); their only assumptions are the
    standard library's axioms that specify the kernel's primitive floats and 63-bit integers (as for Props/C13.v). *)
From Coq Require Import List Bool String Ascii.
From Coq Require PrimFloat.
From Cheetah.Parse Require Import LatticeLang Lines.
From Cheetah.Ops Require Import Json.
From Cheetah.Gen Require Import ConvGenBase.
From Cheetah.Gen Require Import ConvGen.
From Cheetah.Gen Require Import ConvGenEquiv.
Import ListNotations.
Open Scope string_scope.

(* bmad.convert_element, one importer step (context lookup; a line -> Segment of the recursively converted items; an element dict
   -> the dispatch on its type; anything else raises), is the model's [expand_v] with ALL repairs on (F18a, F18b, F42, F43),
   for every context in which the element's type is not a number *)
Theorem CONV_bmad_convert_element : forall f c name, type_not_number c name ->
  gen_bmad_convert_element (expand_v all_fixes f Bmad c) c name = expand_v all_fixes (S f) Bmad c name.
Proof. exact gen_bmad_convert_element_eq. Qed.

Theorem CONV_elegant_convert_element : forall fx f c name, type_not_number c name -> ematrix_numeric_at c name ->
  gen_elegant_convert_element (expand_v fx f Elegant c) c name = expand_v fx (S f) Elegant c name.
Proof. exact gen_elegant_convert_element_eq. Qed.

(* the dispatch alone, on an element dict whose type is the string ty *)
Theorem CONV_bmad_dispatch : forall rec c name ps ty,
  get c name = Some (VElem ps) -> get ps "element_type" = Some (PStr ty) ->
  gen_bmad_convert_element rec c name = convert_bmad_v all_fixes name ty ps.
Proof. exact gen_bmad_dispatch. Qed.

Theorem CONV_elegant_dispatch : forall rec c name ps ty,
  get c name = Some (VElem ps) -> get ps "element_type" = Some (PStr ty) ->
  (ty = "ematrix" -> ematrix_entries_numeric ps) ->
  gen_elegant_convert_element rec c name = convert_elegant name ty ps.
Proof. exact gen_elegant_dispatch. Qed.

(* a numeric element type: the code takes the fallback branch (the model [convert_v] answers None there: modelling error of
   Parse/LatticeLang.v, confirmed on cheetah) *)
Theorem CONV_bmad_number_type : forall rec c name ps x,
  get c name = Some (VElem ps) -> get ps "element_type" = Some (PNum x) ->
  gen_bmad_convert_element rec c name = (l <- opt ps "l" PrimFloat.zero ;; Some (drift name l)).
Proof. exact gen_bmad_convert_element_number_type. Qed.
Theorem CONV_elegant_number_type : forall rec c name ps x,
  get c name = Some (VElem ps) -> get ps "element_type" = Some (PNum x) ->
  gen_elegant_convert_element rec c name = (l <- opt ps "l" PrimFloat.zero ;; Some (drift name l)).
Proof. exact gen_elegant_convert_element_number_type. Qed.

(* validate_understood_properties; on patterns without regex metacharacters it is the model's [understood] *)
Theorem CONV_validate : forall pats ps,
  gen_validate_understood_properties pats ps
  = guard (forallb (fun kv => existsb (fun p => re_fullmatch p (fst kv)) pats) ps).
Proof. exact gen_validate_understood_properties_eq. Qed.
Theorem CONV_validate_plain : forall names ps,
  gen_validate_understood_properties (map Plain names) ps = guard (understood names ps).
Proof. exact validate_plain. Qed.

(* ---- per element type: the body of each branch of the two dispatches *)

Theorem CONV_bmad_marker : forall name ps,
  gen_bmad_convert_element__marker name ps = convert_bmad_v all_fixes name "marker" ps.
Proof. exact gen_bmad_convert_element__marker_eq. Qed.

Theorem CONV_bmad_monitor : forall name ps,
  gen_bmad_convert_element__monitor name ps = convert_bmad_v all_fixes name "monitor" ps.
Proof. exact gen_bmad_convert_element__monitor_eq. Qed.

Theorem CONV_bmad_instrument : forall name ps,
  gen_bmad_convert_element__instrument name ps = convert_bmad_v all_fixes name "instrument" ps.
Proof. exact gen_bmad_convert_element__instrument_eq. Qed.

Theorem CONV_bmad_pipe : forall name ps,
  gen_bmad_convert_element__pipe name ps = convert_bmad_v all_fixes name "pipe" ps.
Proof. exact gen_bmad_convert_element__pipe_eq. Qed.

Theorem CONV_bmad_drift : forall name ps,
  gen_bmad_convert_element__drift name ps = convert_bmad_v all_fixes name "drift" ps.
Proof. exact gen_bmad_convert_element__drift_eq. Qed.

Theorem CONV_bmad_hkicker : forall name ps,
  gen_bmad_convert_element__hkicker name ps = convert_bmad_v all_fixes name "hkicker" ps.
Proof. exact gen_bmad_convert_element__hkicker_eq. Qed.

Theorem CONV_bmad_vkicker : forall name ps,
  gen_bmad_convert_element__vkicker name ps = convert_bmad_v all_fixes name "vkicker" ps.
Proof. exact gen_bmad_convert_element__vkicker_eq. Qed.

Theorem CONV_bmad_sbend : forall name ps,
  gen_bmad_convert_element__sbend name ps = convert_bmad_v all_fixes name "sbend" ps.
Proof. exact gen_bmad_convert_element__sbend_eq. Qed.

Theorem CONV_bmad_quadrupole : forall name ps,
  gen_bmad_convert_element__quadrupole name ps = convert_bmad_v all_fixes name "quadrupole" ps.
Proof. exact gen_bmad_convert_element__quadrupole_eq. Qed.

Theorem CONV_bmad_solenoid : forall name ps,
  gen_bmad_convert_element__solenoid name ps = convert_bmad_v all_fixes name "solenoid" ps.
Proof. exact gen_bmad_convert_element__solenoid_eq. Qed.

Theorem CONV_bmad_lcavity : forall name ps,
  gen_bmad_convert_element__lcavity name ps = convert_bmad_v all_fixes name "lcavity" ps.
Proof. exact gen_bmad_convert_element__lcavity_eq. Qed.

Theorem CONV_bmad_rcollimator : forall name ps,
  gen_bmad_convert_element__rcollimator name ps = convert_bmad_v all_fixes name "rcollimator" ps.
Proof. exact gen_bmad_convert_element__rcollimator_eq. Qed.

Theorem CONV_bmad_ecollimator : forall name ps,
  gen_bmad_convert_element__ecollimator name ps = convert_bmad_v all_fixes name "ecollimator" ps.
Proof. exact gen_bmad_convert_element__ecollimator_eq. Qed.

Theorem CONV_bmad_wiggler : forall name ps,
  gen_bmad_convert_element__wiggler name ps = convert_bmad_v all_fixes name "wiggler" ps.
Proof. exact gen_bmad_convert_element__wiggler_eq. Qed.

Theorem CONV_bmad_patch : forall name ps,
  gen_bmad_convert_element__patch name ps = convert_bmad_v all_fixes name "patch" ps.
Proof. exact gen_bmad_convert_element__patch_eq. Qed.

Theorem CONV_bmad_otherwise : forall name ps,
  gen_bmad_convert_element__otherwise name ps = (l <- opt ps "l" PrimFloat.zero ;; Some (drift name l)).
Proof. exact gen_bmad_convert_element__otherwise_eq. Qed.

Theorem CONV_elegant_sole : forall name ps,
  gen_elegant_convert_element__sole name ps = convert_elegant name "sole" ps.
Proof. exact gen_elegant_convert_element__sole_eq. Qed.

Theorem CONV_elegant_hkick_hkic : forall name ps,
  gen_elegant_convert_element__hkick_hkic name ps = convert_elegant name "hkick" ps /\
  gen_elegant_convert_element__hkick_hkic name ps = convert_elegant name "hkic" ps.
Proof. exact gen_elegant_convert_element__hkick_hkic_eq. Qed.

Theorem CONV_elegant_vkick_vkic : forall name ps,
  gen_elegant_convert_element__vkick_vkic name ps = convert_elegant name "vkick" ps /\
  gen_elegant_convert_element__vkick_vkic name ps = convert_elegant name "vkic" ps.
Proof. exact gen_elegant_convert_element__vkick_vkic_eq. Qed.

Theorem CONV_elegant_mark : forall name ps,
  gen_elegant_convert_element__mark name ps = convert_elegant name "mark" ps.
Proof. exact gen_elegant_convert_element__mark_eq. Qed.

Theorem CONV_elegant_kick : forall name ps,
  gen_elegant_convert_element__kick name ps = convert_elegant name "kick" ps.
Proof. exact gen_elegant_convert_element__kick_eq. Qed.

Theorem CONV_elegant_drift_drif : forall name ps,
  gen_elegant_convert_element__drift_drif name ps = convert_elegant name "drift" ps /\
  gen_elegant_convert_element__drift_drif name ps = convert_elegant name "drif" ps.
Proof. exact gen_elegant_convert_element__drift_drif_eq. Qed.

Theorem CONV_elegant_csrdrift_csrdrif : forall name ps,
  gen_elegant_convert_element__csrdrift_csrdrif name ps = convert_elegant name "csrdrift" ps /\
  gen_elegant_convert_element__csrdrift_csrdrif name ps = convert_elegant name "csrdrif" ps.
Proof. exact gen_elegant_convert_element__csrdrift_csrdrif_eq. Qed.

Theorem CONV_elegant_lscdrift_lscdrif : forall name ps,
  gen_elegant_convert_element__lscdrift_lscdrif name ps = convert_elegant name "lscdrift" ps /\
  gen_elegant_convert_element__lscdrift_lscdrif name ps = convert_elegant name "lscdrif" ps.
Proof. exact gen_elegant_convert_element__lscdrift_lscdrif_eq. Qed.

Theorem CONV_elegant_ecol : forall name ps,
  gen_elegant_convert_element__ecol name ps = convert_elegant name "ecol" ps.
Proof. exact gen_elegant_convert_element__ecol_eq. Qed.

Theorem CONV_elegant_rcol : forall name ps,
  gen_elegant_convert_element__rcol name ps = convert_elegant name "rcol" ps.
Proof. exact gen_elegant_convert_element__rcol_eq. Qed.

Theorem CONV_elegant_quad : forall name ps,
  gen_elegant_convert_element__quad name ps = convert_elegant name "quad" ps.
Proof. exact gen_elegant_convert_element__quad_eq. Qed.

Theorem CONV_elegant_sext : forall name ps,
  gen_elegant_convert_element__sext name ps = convert_elegant name "sext" ps.
Proof. exact gen_elegant_convert_element__sext_eq. Qed.

Theorem CONV_elegant_moni : forall name ps,
  gen_elegant_convert_element__moni name ps = convert_elegant name "moni" ps.
Proof. exact gen_elegant_convert_element__moni_eq. Qed.

Theorem CONV_elegant_ematrix : forall name ps, ematrix_entries_numeric ps ->
  gen_elegant_convert_element__ematrix name ps = convert_elegant name "ematrix" ps.
Proof. exact gen_elegant_convert_element__ematrix_eq. Qed.

Theorem CONV_elegant_rfca : forall name ps,
  gen_elegant_convert_element__rfca name ps = convert_elegant name "rfca" ps.
Proof. exact gen_elegant_convert_element__rfca_eq. Qed.

Theorem CONV_elegant_rfcw : forall name ps,
  gen_elegant_convert_element__rfcw name ps = convert_elegant name "rfcw" ps.
Proof. exact gen_elegant_convert_element__rfcw_eq. Qed.

Theorem CONV_elegant_rfdf : forall name ps,
  gen_elegant_convert_element__rfdf name ps = convert_elegant name "rfdf" ps.
Proof. exact gen_elegant_convert_element__rfdf_eq. Qed.

Theorem CONV_elegant_sben : forall name ps,
  gen_elegant_convert_element__sben name ps = convert_elegant name "sben" ps.
Proof. exact gen_elegant_convert_element__sben_eq. Qed.

Theorem CONV_elegant_rben : forall name ps,
  gen_elegant_convert_element__rben name ps = convert_elegant name "rben" ps.
Proof. exact gen_elegant_convert_element__rben_eq. Qed.

Theorem CONV_elegant_csrcsben : forall name ps,
  gen_elegant_convert_element__csrcsben name ps = convert_elegant name "csrcsben" ps.
Proof. exact gen_elegant_convert_element__csrcsben_eq. Qed.

Theorem CONV_elegant_watch : forall name ps,
  gen_elegant_convert_element__watch name ps = convert_elegant name "watch" ps.
Proof. exact gen_elegant_convert_element__watch_eq. Qed.

Theorem CONV_elegant_charge_wake : forall name ps,
  gen_elegant_convert_element__charge_wake name ps = convert_elegant name "charge" ps /\
  gen_elegant_convert_element__charge_wake name ps = convert_elegant name "wake" ps.
Proof. exact gen_elegant_convert_element__charge_wake_eq. Qed.

Theorem CONV_elegant_otherwise : forall name ps,
  gen_elegant_convert_element__otherwise name ps = (l <- opt ps "l" PrimFloat.zero ;; Some (drift name l)).
Proof. exact gen_elegant_convert_element__otherwise_eq. Qed.

(* ---- the line front end *)
Theorem CONV_bmad_merge_passes : forall ls, gen_bmad_merge_passes merge_fixed ls = merge_all_fixed ls.
Proof. exact gen_bmad_merge_passes_eq. Qed.
Theorem CONV_elegant_merge_passes : forall ls, gen_elegant_merge_passes merge_fixed ls = merge_all_fixed ls.
Proof. exact gen_elegant_merge_passes_eq. Qed.
(* pinned: the regex of define_element is the text Lines.v [define_header true] models; the AST of
   merge_delimiter_continued_lines is the one Lines.v [merge_fixed] transcribes (a pin, not a translation) *)
Theorem CONV_define_element_pattern : gen_define_element_pattern = "([a-z0-9_\.]+)\s*\:\s*([a-z0-9_]+)\s*(\,(.*))?".
Proof. exact gen_define_element_pattern_eq. Qed.
Theorem CONV_merge_loop_pinned : gen_merge_delimiter_continued_lines_ast_sha256 = merge_delimiter_continued_lines_ast_sha256_fixed.
Proof. exact gen_merge_delimiter_continued_lines_ast_sha256_eq. Qed.

(* ---- LatticeJSON (Ops/Json.v), for every payload type and every reading of the opaque value layer *)
Section LJ.
Variables (P J V Jv Cls : Type) (class_name : P -> string) (defining_features : P -> list string) (getattr_ : P -> string -> V).
Variables (feature2nontorch : V -> Jv) (mk_entry : string -> dict Jv -> J) (entry_class : J -> option string).
Variables (entry_params : J -> option (dict Jv)) (cheetah_class : string -> option Cls) (nontorch2feature : Jv -> V).
Variable construct : Cls -> string -> dict V -> option P.
Notation Sv := (lj_sv P J V Jv class_name defining_features getattr_ feature2nontorch mk_entry).
Notation Ld := (lj_ld P J V Jv Cls entry_class entry_params cheetah_class nontorch2feature construct).

(* latticejson.convert_element: name, class name, {feature: feature2nontorch(getattr(element, feature))} without "name" *)
Theorem CONV_lj_convert_element : forall n p,
  gen_lj_convert_element P V Jv class_name defining_features getattr_ feature2nontorch (Lf n p)
  = Some (n, class_name p,
          dict_of_items (map (fun f => (f, feature2nontorch (getattr_ p f)))
                             (filter (fun f => negb (String.eqb f "name")) (defining_features p)))).
Proof. exact (gen_lj_convert_element_eq P V Jv class_name defining_features getattr_ feature2nontorch). Qed.

(* latticejson.convert_segment is Json.v's REPAIRED [conv] (F11: the name appended to the cell is element.name) on every
   segment, given that it is so on the sub-segments (open recursion) *)
Theorem CONV_lj_convert_segment : forall n ts,
  gen_lj_convert_segment P J V Jv class_name defining_features getattr_ feature2nontorch mk_entry
    (fun t => Some (conv P J Sv t)) (Sg n ts) = Some (conv P J Sv (Sg n ts)).
Proof. exact (gen_lj_convert_segment_eq P J V Jv class_name defining_features getattr_ feature2nontorch mk_entry). Qed.

Theorem CONV_lj_parse_element : forall name E LL,
  gen_lj_parse_element P J V Jv Cls entry_class entry_params cheetah_class nontorch2feature construct name E LL
  = match lookup E name with Some j => option_map (Lf name) (Ld name j) | None => None end.
Proof. exact (gen_lj_parse_element_eq P J V Jv Cls entry_class entry_params cheetah_class nontorch2feature construct). Qed.

(* latticejson.parse_segment is one unfolding of Json.v's [parse] (lattices looked up first, then elements) *)
Theorem CONV_lj_parse_segment : forall f E LL name,
  gen_lj_parse_segment P J V Jv Cls entry_class entry_params cheetah_class nontorch2feature construct (parse P J Ld f E LL) name E LL
  = parse P J Ld (S f) E LL name.
Proof. exact (gen_lj_parse_segment_eq P J V Jv Cls entry_class entry_params cheetah_class nontorch2feature construct). Qed.
End LJ.


Print Assumptions CONV_bmad_convert_element.
Print Assumptions CONV_elegant_convert_element.
Print Assumptions CONV_bmad_dispatch.
Print Assumptions CONV_elegant_dispatch.
Print Assumptions CONV_bmad_number_type.
Print Assumptions CONV_elegant_number_type.
Print Assumptions CONV_validate.
Print Assumptions CONV_validate_plain.
Print Assumptions CONV_bmad_marker.
Print Assumptions CONV_bmad_monitor.
Print Assumptions CONV_bmad_instrument.
Print Assumptions CONV_bmad_pipe.
Print Assumptions CONV_bmad_drift.
Print Assumptions CONV_bmad_hkicker.
Print Assumptions CONV_bmad_vkicker.
Print Assumptions CONV_bmad_sbend.
Print Assumptions CONV_bmad_quadrupole.
Print Assumptions CONV_bmad_solenoid.
Print Assumptions CONV_bmad_lcavity.
Print Assumptions CONV_bmad_rcollimator.
Print Assumptions CONV_bmad_ecollimator.
Print Assumptions CONV_bmad_wiggler.
Print Assumptions CONV_bmad_patch.
Print Assumptions CONV_bmad_otherwise.
Print Assumptions CONV_elegant_sole.
Print Assumptions CONV_elegant_hkick_hkic.
Print Assumptions CONV_elegant_vkick_vkic.
Print Assumptions CONV_elegant_mark.
Print Assumptions CONV_elegant_kick.
Print Assumptions CONV_elegant_drift_drif.
Print Assumptions CONV_elegant_csrdrift_csrdrif.
Print Assumptions CONV_elegant_lscdrift_lscdrif.
Print Assumptions CONV_elegant_ecol.
Print Assumptions CONV_elegant_rcol.
Print Assumptions CONV_elegant_quad.
Print Assumptions CONV_elegant_sext.
Print Assumptions CONV_elegant_moni.
Print Assumptions CONV_elegant_ematrix.
Print Assumptions CONV_elegant_rfca.
Print Assumptions CONV_elegant_rfcw.
Print Assumptions CONV_elegant_rfdf.
Print Assumptions CONV_elegant_sben.
Print Assumptions CONV_elegant_rben.
Print Assumptions CONV_elegant_csrcsben.
Print Assumptions CONV_elegant_watch.
Print Assumptions CONV_elegant_charge_wake.
Print Assumptions CONV_elegant_otherwise.
Print Assumptions CONV_bmad_merge_passes.
Print Assumptions CONV_elegant_merge_passes.
Print Assumptions CONV_define_element_pattern.
Print Assumptions CONV_merge_loop_pinned.
Print Assumptions CONV_lj_convert_element.
Print Assumptions CONV_lj_convert_segment.
Print Assumptions CONV_lj_parse_element.
Print Assumptions CONV_lj_parse_segment.
