(** Support for the GENERATED transcription Gen/DiagGen.v (written by harness/translate_diag.py from /repo's source text:
    the `split` methods, Cavity._track_beam, Screen / BPM) and for the proofs that it coincides with the hand-written models
    (Gen/DiagGenEquiv.v).  Primitives of the readings (documented in the docstring of harness/translate_diag.py) and helper
    lemmas only. *)
From Coq Require Import List ZArith QArith Qround Lia.
Import ListNotations.

(** ** PART split *)
(** [py_repeat_range n x] is the reading of the comprehension  [E for v in range(n)]  whose element E does not mention v:
    n copies of E, none for n <= 0 (as Python's range). *)
Definition py_repeat_range {A : Type} (n : Z) (x : A) : list A := repeat x (Z.to_nat n).

Lemma inject_Z_of_to_nat_pos (p : positive) : inject_Z (Z.of_nat (Z.to_nat (Zpos p))) = inject_Z (Zpos p).
Proof. rewrite Z2Nat.id by lia. reflexivity. Qed.

(** ** PART cavity *)
From Coq Require Import Reals Lra.
From Cheetah Require Import Base.Mat Optics.Maps.
(** row vector times matrix over R: the per-particle reading of  torch.matmul(particles, B)  (Base/Mat.v [vmat]) *)
Notation rvmat := (@vmat R Rplus Rmult).

(** particles @ tm^T applies tm to the particle *)
Lemma rvmat_transpose (p : V7 R) (m : M7 R) : rvmat p (transpose m) = rmvec m p.
Proof. apply (vmat_transpose RRth). Qed.

(** ** PART screen *)
From Cheetah Require Import Diag.Screen.
Open Scope Q_scope.

(** torch.linspace(lo, hi, steps): the [steps] values lo + i (hi - lo) / (steps - 1), i = 0 .. steps - 1, in exact arithmetic
    (no value for steps <= 0; torch raises for a negative count) *)
Definition py_linspace (lo hi : Q) (steps : Z) : list Q :=
  let n := Z.to_nat steps in map (fun i => lo + (hi - lo) * qnat i / qnat (n - 1)) (seq 0 n).
(** a + b of two 1-d tensors of the same length, a / d *)
Definition py_ladd (a b : list Q) : list Q := map (fun p => fst p + snd p) (combine a b).
Definition py_ldiv (a : list Q) (d : Q) : list Q := map (fun x => x / d) a.
(** torch.zeros((r, c)) *)
Definition py_zeros2 (r c : Z) : tensor2 := mkT (Z.to_nat r) (Z.to_nat c) (fun _ _ => 0).
(** torch.histogramdd(sample, bins=(ex, ey), weight=w) for a sample of two columns (fx, fy) over the particle list: the
    OPAQUE, DOCUMENTED primitive of the screen reading.  Column k of the sample is binned along axis k with the explicit
    edges bins[k]; the result has shape (len(ex) - 1, len(ey) - 1); the bin of a value is Diag/Screen.v [bin_index]
    (aten HistogramKernel.cpp: upper_bound minus one, the rightmost bin closed, values outside [first edge, last edge]
    dropped) and entry (ix, iy) is the sum of the weights of the particles in bin ix of axis 0 and bin iy of axis 1. *)
Definition py_histogramdd2 (fx fy : particle -> Q) (ex ey : list Q) (w : particle -> Q) (ps : list particle) : tensor2 :=
  mkT (length ex - 1) (length ey - 1)
      (fun ix iy => sumQ (map (fun p => if hits (match bin_index ex (fx p), bin_index ey (fy p) with
                                                 | Some a, Some b => Some (a, b) | _, _ => None end) ix iy
                                        then w p else 0) ps)).

Lemma py_linspace_model (lo hi : Q) (z : Z) : (0 <= z)%Z -> py_linspace lo hi (z + 1) = linspace lo hi (Z.to_nat z).
Proof.
  intro H. unfold py_linspace, linspace. rewrite Z2Nat.inj_add by lia. change (Z.to_nat 1) with 1%nat.
  rewrite Nat.add_1_r. cbv zeta. rewrite Nat.sub_succ, Nat.sub_0_r. reflexivity.
Qed.

Lemma py_centers_model (l : list Q) : py_ldiv (py_ladd (tl l) (removelast l)) 2 = mids l.
Proof.
  unfold py_ldiv, py_ladd. destruct l as [|a l]; [reflexivity|]. revert a.
  induction l as [|b t IH]; intro a; [reflexivity|].
  change (tl (a :: b :: t)) with (b :: t). change (removelast (a :: b :: t)) with (a :: removelast (b :: t)).
  cbn [combine map fst snd mids]. f_equal. exact (IH b).
Qed.
