(** Equivalence of the GENERATED transcription Gen/DiagGen.v (harness/translate_diag.py, from /repo's source text) with the
    hand-written models.  One lemma [gen_<f>_eq] per generated definition; the file is cut into the PARTS of DiagGen.v
    (a line "PART <name>" in a doc comment starts a part; the stage compiles only the requested parts).

      PART split    Element.split of every class      = Lattice/Split.v [split_fixed] (F29 repaired in /repo), over Q, Leibniz equality
      PART cavity   Cavity._track_beam, per beam type = Beam/MomCavity.v [cav1] (one particle) / [cavity_param], over R; the generated
                    functions are option-valued: [None] is the path on which the code raises UnboundLocalError (energy + V cos(phi) <= 0),
                    which the model leaves unspecified (it returns the beam unchanged there); hypothesis V <> 0 -> E <> 0 as in
                    Gen/MapsGenEquiv.v (the branch E = 0 of _cavity_rmatrix is not modelled)
*)
From Coq Require Import List ZArith QArith Qround Lia.
From Cheetah Require Import Gen.DiagGenBase.
From Cheetah.Gen Require Import DiagGen.
Import ListNotations.

(** PART split *)
From Coq Require Import String.
From Cheetah Require Import Lattice.Split.
Open Scope Q_scope.

(** the pieces: num_splits = ceil(L / res) as an integer; `range` of a non-positive count is empty, so [Z.to_nat] loses nothing *)
Lemma repeat_range_eq (f : Q -> sel) (L res : Q) :
  py_repeat_range (Qceiling (L / res)) (f (inject_Z (Qceiling (L / res))))
  = repeat (f (qn (nsplit L res))) (nsplit L res).
Proof.
  unfold py_repeat_range, nsplit, qn. destruct (Qceiling (L / res)) as [|p|p]; [reflexivity | | reflexivity].
  rewrite inject_Z_of_to_nat_pos. reflexivity.
Qed.

Lemma gen_Drift_split_eq (L : Q) (m : string) (res : Q) : gen_Drift_split L m res = split_fixed res (SDrift L m).
Proof. cbv beta zeta delta [gen_Drift_split]. cbn [split_fixed]. exact (repeat_range_eq (fun d => SDrift (L / d) m) L res). Qed.

Lemma gen_Quadrupole_split_eq (L k1 mx my tilt : Q) (steps : Z) (m : string) (res : Q) :
  gen_Quadrupole_split L k1 mx my tilt steps m res = split_fixed res (SQuad L k1 mx my tilt steps m).
Proof. cbv beta zeta delta [gen_Quadrupole_split]. cbn [split_fixed]. exact (repeat_range_eq (fun d => SQuad (L / d) k1 mx my tilt steps m) L res). Qed.

(** the repaired correctors: num_splits < 1 returns the element itself *)
Lemma corrector_range_eq (f : Q -> sel) (e : sel) (L res : Q) :
  (if (Qceiling (L / res) <? 1)%Z then [e] else py_repeat_range (Qceiling (L / res)) (f (inject_Z (Qceiling (L / res)))))
  = match nsplit L res with O => [e] | n => repeat (f (qn n)) n end.
Proof.
  unfold py_repeat_range, nsplit, qn. destruct (Qceiling (L / res)) as [|p|p]; [reflexivity | | reflexivity].
  replace (Z.pos p <? 1)%Z with false by (symmetry; apply Z.ltb_ge; lia).
  destruct (Z.to_nat (Z.pos p)) eqn:E; [lia|]. rewrite <- E, inject_Z_of_to_nat_pos. reflexivity.
Qed.

Lemma gen_HorizontalCorrector_split_eq (L a res : Q) : gen_HorizontalCorrector_split L a res = split_fixed res (SHCor L a).
Proof. cbv beta zeta delta [gen_HorizontalCorrector_split]. cbn [split_fixed]. exact (corrector_range_eq (fun d => SHCor (L / d) (a / d)) _ L res). Qed.

Lemma gen_VerticalCorrector_split_eq (L a res : Q) : gen_VerticalCorrector_split L a res = split_fixed res (SVCor L a).
Proof. cbv beta zeta delta [gen_VerticalCorrector_split]. cbn [split_fixed]. exact (corrector_range_eq (fun d => SVCor (L / d) (a / d)) _ L res). Qed.

(** every other class returns [self]: the model's [SOther] *)
Lemma gen_Aperture_split_eq (L res : Q) : gen_Aperture_split (SOther "Aperture" L) res = split_fixed res (SOther "Aperture" L).
Proof. reflexivity. Qed.
Lemma gen_BPM_split_eq (L res : Q) : gen_BPM_split (SOther "BPM" L) res = split_fixed res (SOther "BPM" L).
Proof. reflexivity. Qed.
Lemma gen_Cavity_split_eq (L res : Q) : gen_Cavity_split (SOther "Cavity" L) res = split_fixed res (SOther "Cavity" L).
Proof. reflexivity. Qed.
Lemma gen_CustomTransferMap_split_eq (L res : Q) :
  gen_CustomTransferMap_split (SOther "CustomTransferMap" L) res = split_fixed res (SOther "CustomTransferMap" L).
Proof. reflexivity. Qed.
Lemma gen_Dipole_split_eq (c : string) (L res : Q) : gen_Dipole_split (SOther c L) res = split_fixed res (SOther c L).
Proof. reflexivity. Qed.
Lemma gen_Marker_split_eq (L res : Q) : gen_Marker_split (SOther "Marker" L) res = split_fixed res (SOther "Marker" L).
Proof. reflexivity. Qed.
Lemma gen_Screen_split_eq (L res : Q) : gen_Screen_split (SOther "Screen" L) res = split_fixed res (SOther "Screen" L).
Proof. reflexivity. Qed.
Lemma gen_Solenoid_split_eq (L res : Q) : gen_Solenoid_split (SOther "Solenoid" L) res = split_fixed res (SOther "Solenoid" L).
Proof. reflexivity. Qed.
Lemma gen_SpaceChargeKick_split_eq (L res : Q) :
  gen_SpaceChargeKick_split (SOther "SpaceChargeKick" L) res = split_fixed res (SOther "SpaceChargeKick" L).
Proof. reflexivity. Qed.
Lemma gen_TransverseDeflectingCavity_split_eq (L res : Q) :
  gen_TransverseDeflectingCavity_split (SOther "TransverseDeflectingCavity" L) res = split_fixed res (SOther "TransverseDeflectingCavity" L).
Proof. reflexivity. Qed.
Lemma gen_Undulator_split_eq (L res : Q) : gen_Undulator_split (SOther "Undulator" L) res = split_fixed res (SOther "Undulator" L).
Proof. reflexivity. Qed.

(** where the code before the repair of F29 ([split]) and the repaired code agree: a corrector with a length *)
Lemma gen_corrector_split_old (L a res : Q) : (0 < nsplit L res)%nat ->
  gen_HorizontalCorrector_split L a res = split res (SHCor L a) /\ gen_VerticalCorrector_split L a res = split res (SVCor L a).
Proof.
  intro H. rewrite gen_HorizontalCorrector_split_eq, gen_VerticalCorrector_split_eq. cbn [split split_fixed].
  destruct (nsplit L res); [lia | split; reflexivity].
Qed.

(** PART cavity *)
From Coq Require Import Reals Lra.
From Cheetah Require Import Base.Mat Optics.Maps Beam.Moments Beam.MomCavity Gen.GenBase.
From Cheetah.Gen Require Import MapsGen.
From Cheetah.Gen Require Import MapsGenEquiv.
Open Scope R_scope.

Lemma neg1_mul (x : R) : -1 * x = - x.
Proof. ring. Qed.
Lemma dec_15 : 15e-1 = 1.5.
Proof. lra. Qed.
(* entry-wise comparison: syntactic equality first, ring identities (division as multiplication by the inverse, no side
   conditions) as a fallback for harmless re-association in the source *)
Ltac cav_entry := first [ reflexivity | unfold Rdiv; ring | rewrite ?dec_15; unfold Rdiv; ring ].

(** Cavity.transfer_map as generated (Gen/MapsGen.v) is the [cav_tm] of Beam/MomCavity.v, phase in degrees *)
Lemma cav_tm_as_generated (L V phase f E : R) : (V <> 0 -> E <> 0) ->
  gen_Cavity_transfer_map L V phase f E = cav_tm L V (deg2rad phase) f E.
Proof.
  intro H. unfold cav_tm. rewrite gen_Cavity_transfer_map_eq. destruct (Req_EM_T V 0) as [|HV]; [reflexivity|].
  apply gen_Cavity__cavity_rmatrix_eq; auto.
Qed.

(** one particle of a ParticleBeam *)
Lemma gen_Cavity__track_beam_particle_eq (L V phase f : R) (p : V7 R) (E : R) : (V <> 0 -> E <> 0) ->
  gen_Cavity__track_beam_particle L V phase f p E =
  if Rlt_dec 0 (ctk_E1 V (deg2rad phase) E)
  then Some (cav1 L V (deg2rad phase) f E p, ctk_E1 V (deg2rad phase) E) else None.
Proof.
  intro H. cbv beta delta [gen_Cavity__track_beam_particle].
  rewrite !gen_compute_relativistic_factors_eq, (cav_tm_as_generated _ _ _ _ _ H).
  cbv beta iota zeta. rewrite !rvmat_transpose.
  unfold ctk_E1, ctk_dE.
  destruct (Rlt_dec 0 (E + V * cos (deg2rad phase))) as [H1|H1]; [|reflexivity].
  rewrite !gen_compute_relativistic_factors_eq. cbv beta iota zeta.
  unfold cav1, cav_quad, cav_T566, cav_T556, cav_T555, cav_T566_off, cav_delta, ctk_E1, ctk_dE, cav_kk, cav_dgamma.
  cbv beta iota zeta.
  destruct (Rlt_dec 0 (V * cos (deg2rad phase))) as [H2|H2].
  - f_equal. f_equal. apply v7_eq; lazy beta iota delta [c0 c1 c2 c3 c4 c5 c6 vset]; rewrite ?neg1_mul; cav_entry.
  - f_equal. f_equal. apply v7_eq; lazy beta iota delta [c0 c1 c2 c3 c4 c5 c6 vset]; rewrite ?neg1_mul; cav_entry.
Qed.

(** a ParameterBeam: mu, the covariance with its three overwritten entries (as coded), the energy *)
Lemma gen_Cavity__track_beam_param_eq (L V phase f : R) (mu : V7 R) (S : M7 R) (E q : R) : (V <> 0 -> E <> 0) ->
  gen_Cavity__track_beam_param L V phase f mu S E =
  if Rlt_dec 0 (ctk_E1 V (deg2rad phase) E)
  then Some (pmu (cavity_param L V (deg2rad phase) f (mkParam mu S E q)),
             pcov (cavity_param L V (deg2rad phase) f (mkParam mu S E q)),
             qE (cavity_param L V (deg2rad phase) f (mkParam mu S E q)))
  else None.
Proof.
  intro H. cbv beta delta [gen_Cavity__track_beam_param].
  rewrite !gen_compute_relativistic_factors_eq, (cav_tm_as_generated _ _ _ _ _ H).
  cbv beta iota zeta.
  unfold cavity_param. cbn [qE pmu pcov]. unfold ctk_E1, ctk_dE.
  destruct (Rlt_dec 0 (E + V * cos (deg2rad phase))) as [H1|H1]; [|reflexivity].
  rewrite !gen_compute_relativistic_factors_eq. cbv beta iota zeta. cbn [qE pmu pcov].
  unfold cav_quad, cav_T566, cav_T556, cav_T555, cav_T566_off, cav_delta, ctk_E1, ctk_dE, cav_kk, cav_dgamma, cong.
  cbv beta iota zeta.
  destruct (Rlt_dec 0 (V * cos (deg2rad phase))) as [H2|H2].
  - apply f_equal. apply f_equal2; [apply f_equal2|reflexivity].
    + apply v7_eq; lazy beta iota delta [c0 c1 c2 c3 c4 c5 c6 vset]; rewrite ?neg1_mul; cav_entry.
    + apply v7_eq; lazy beta iota delta [c0 c1 c2 c3 c4 c5 c6 mset vset]; try reflexivity;
      apply v7_eq; lazy beta iota delta [c0 c1 c2 c3 c4 c5 c6 mset vset]; cav_entry.
  - apply f_equal. apply f_equal2; [apply f_equal2|reflexivity].
    + apply v7_eq; lazy beta iota delta [c0 c1 c2 c3 c4 c5 c6 vset]; rewrite ?neg1_mul; cav_entry.
    + apply v7_eq; lazy beta iota delta [c0 c1 c2 c3 c4 c5 c6 mset vset]; try reflexivity;
      apply v7_eq; lazy beta iota delta [c0 c1 c2 c3 c4 c5 c6 mset vset]; cav_entry.
Qed.

(** the whole ParticleBeam: the model [cavity_part] maps the one-particle function over the particles *)
Lemma gen_cavity_part (L V phase f : R) (b : PartBeam R) : (V <> 0 -> pE b <> 0) -> 0 < ctk_E1 V (deg2rad phase) (pE b) ->
  cavity_part L V (deg2rad phase) f b =
  mkPart (List.map (fun p => match gen_Cavity__track_beam_particle L V phase f p (pE b) with Some (p', _) => p' | None => p end) (parts b))
         (pE b + V * cos (deg2rad phase)) (charges b) (surv b).
Proof.
  intros H H1. unfold cavity_part. cbv zeta. destruct (Rlt_dec 0 (ctk_E1 V (deg2rad phase) (pE b))) as [_|n]; [|contradiction].
  f_equal. apply List.map_ext. intro p. rewrite (gen_Cavity__track_beam_particle_eq _ _ _ _ _ _ H).
  destruct (Rlt_dec 0 (ctk_E1 V (deg2rad phase) (pE b))) as [_|n]; [reflexivity|contradiction].
Qed.

(** PART screen *)
From Coq Require Import Bool.
From Cheetah Require Import Diag.Screen Diag.ScreenProofs.
Open Scope Q_scope.

(** ** the geometry properties of Screen, over the record [screen] of Diag/Screen.v *)
Lemma gen_Screen_effective_resolution_eq (s : screen) : gen_Screen_effective_resolution s = eff_res s.
Proof. reflexivity. Qed.

(* no model definition of its own: it is the sampling step of the ParameterBeam image ([param_sample_x] / [param_sample_y]) *)
Lemma gen_Screen_effective_pixel_size_eq (s : screen) :
  gen_Screen_effective_pixel_size s = (spx s * inject_Z (sbin s), spy s * inject_Z (sbin s)) /\
  (forall i, param_sample_x s i = xlo s + qnat i * fst (gen_Screen_effective_pixel_size s)) /\
  (forall j, param_sample_y s j = ylo s + qnat j * snd (gen_Screen_effective_pixel_size s)).
Proof. repeat split. Qed.

Lemma gen_Screen_extent_eq (s : screen) : gen_Screen_extent s = extent s.
Proof. reflexivity. Qed.

(* a negative pixel count (negative resolution or binning) makes torch.linspace raise; the model is total there *)
Lemma gen_Screen_pixel_bin_edges_eq (s : screen) : (0 <= sW s / sbin s)%Z -> (0 <= sH s / sbin s)%Z ->
  gen_Screen_pixel_bin_edges s = (edges_x s, edges_y s).
Proof.
  intros Hx Hy. unfold gen_Screen_pixel_bin_edges, gen_Screen_effective_resolution. cbn [fst snd].
  rewrite (py_linspace_model _ _ _ Hx), (py_linspace_model _ _ _ Hy). reflexivity.
Qed.

Lemma gen_Screen_pixel_bin_centers_eq (s : screen) : (0 <= sW s / sbin s)%Z -> (0 <= sH s / sbin s)%Z ->
  gen_Screen_pixel_bin_centers s = (centers_x s, centers_y s).
Proof.
  intros Hx Hy. unfold gen_Screen_pixel_bin_centers. rewrite (gen_Screen_pixel_bin_edges_eq s Hx Hy). cbn [fst snd].
  rewrite !py_centers_model. reflexivity.
Qed.

(** ** Screen.track.  The model's [screen_track] still carries F14 (y-misalignment subtracted from px) in its read beam; /repo
    is repaired (22a0e46), so the faithful variant of the read beam is [read_particle_fixed] (index 2); the outgoing beam is
    [screen_track]'s.  For a ParameterBeam the two coincide. *)
Lemma gen_Screen_track_particles_eq (s : screen) (ps : list particle) :
  gen_Screen_track_particles s ps =
  (fst (screen_track s (Particles ps)), if sactive s then Some (Particles (map (read_particle_fixed s) ps)) else None).
Proof. unfold gen_Screen_track_particles, screen_track. destruct (sactive s), (sblocking s); reflexivity. Qed.

Lemma gen_Screen_track_params_eq (s : screen) (mx mpx my mpy q : Q) :
  gen_Screen_track_params s mx mpx my mpy q = screen_track s (Params mx mpx my mpy q).
Proof. unfold gen_Screen_track_params, screen_track. destruct (sactive s), (sblocking s); reflexivity. Qed.

(** ** Screen.reading (method "histogram"): no read beam, or a ParticleBeam read beam [ps] *)
Lemma gen_Screen_reading_none_eq (s : screen) :
  (rows (gen_Screen_reading_none s), cols (gen_Screen_reading_none s)) = reading_shape s None /\
  forall i j, at2 (gen_Screen_reading_none s) i j = 0.
Proof. split; reflexivity. Qed.

Lemma gen_Screen_reading_particles_eq (s : screen) (ps : list particle) : (0 <= sW s / sbin s)%Z -> (0 <= sH s / sbin s)%Z ->
  gen_Screen_reading_particles s ps = hist_image s ps.
Proof.
  intros Hx Hy. unfold gen_Screen_reading_particles. rewrite (gen_Screen_pixel_bin_edges_eq s Hx Hy). cbn [fst snd].
  unfold hist_image, hist, py_histogramdd2, edges_x, edges_y. rewrite !linspace_length, !Nat.sub_succ, !Nat.sub_0_r. reflexivity.
Qed.

(** ** BPM.track: the reading is recorded whatever is_active says; the beam is passed on *)
Lemma gen_BPM_track_particles_eq (active : bool) (ps : list particle) :
  gen_BPM_track_particles active ps
  = (fst (bpm_track active (Particles ps)), [fst (snd (bpm_track active (Particles ps))); snd (snd (bpm_track active (Particles ps)))]).
Proof. reflexivity. Qed.

Lemma gen_BPM_track_params_eq (active : bool) (mx mpx my mpy q : Q) :
  gen_BPM_track_params active mx mpx my mpy q
  = (fst (bpm_track active (Params mx mpx my mpy q)),
     [fst (snd (bpm_track active (Params mx mpx my mpy q))); snd (snd (bpm_track active (Params mx mpx my mpy q)))]).
Proof. reflexivity. Qed.
