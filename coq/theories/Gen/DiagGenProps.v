(** Final statements of the translator tie for the `split` methods, Cavity._track_beam and Screen / BPM: every definition
    regenerated from /repo's source text by harness/translate_diag.py (Gen/DiagGen.v) equals the hand-written model.
    Statements are spelled out; proofs are in Gen/DiagGenEquiv.v.  Like that file, this one is compiled by
    harness/translate_stage.py against the FRESH DiagGen.v (import lines redirected; keep them on one line each) and is cut
    into the same PARTS. *)
From Coq Require Import List ZArith QArith Qround.
From Cheetah Require Import Gen.DiagGenBase.
From Cheetah.Gen Require Import DiagGen.
From Cheetah.Gen Require Import DiagGenEquiv.
Import ListNotations.

(** PART split *)
From Coq Require Import String.
From Cheetah Require Import Lattice.Split Lattice.SplitProofs.
Open Scope Q_scope.

(** ** Element.split as coded = Lattice/Split.v [split_fixed] (the model after the repair of F29), for all lengths and resolutions *)
Theorem trd_Drift_split : forall (L : Q) (method : string) (res : Q), gen_Drift_split L method res = split_fixed res (SDrift L method).
Proof. exact gen_Drift_split_eq. Qed.
Print Assumptions trd_Drift_split.

Theorem trd_Quadrupole_split : forall (L k1 mx my tilt : Q) (steps : Z) (method : string) (res : Q),
  gen_Quadrupole_split L k1 mx my tilt steps method res = split_fixed res (SQuad L k1 mx my tilt steps method).
Proof. exact gen_Quadrupole_split_eq. Qed.
Print Assumptions trd_Quadrupole_split.

Theorem trd_HorizontalCorrector_split : forall (L angle res : Q), gen_HorizontalCorrector_split L angle res = split_fixed res (SHCor L angle).
Proof. exact gen_HorizontalCorrector_split_eq. Qed.
Print Assumptions trd_HorizontalCorrector_split.

Theorem trd_VerticalCorrector_split : forall (L angle res : Q), gen_VerticalCorrector_split L angle res = split_fixed res (SVCor L angle).
Proof. exact gen_VerticalCorrector_split_eq. Qed.
Print Assumptions trd_VerticalCorrector_split.

(** the classes that return [self] (RBend inherits Dipole.split: the lemma for Dipole holds for every class name) *)
Theorem trd_unsplittable_split : forall (cls : string) (L res : Q),
  gen_Aperture_split (SOther "Aperture" L) res = split_fixed res (SOther "Aperture" L) /\
  gen_BPM_split (SOther "BPM" L) res = split_fixed res (SOther "BPM" L) /\
  gen_Cavity_split (SOther "Cavity" L) res = split_fixed res (SOther "Cavity" L) /\
  gen_CustomTransferMap_split (SOther "CustomTransferMap" L) res = split_fixed res (SOther "CustomTransferMap" L) /\
  gen_Dipole_split (SOther cls L) res = split_fixed res (SOther cls L) /\
  gen_Marker_split (SOther "Marker" L) res = split_fixed res (SOther "Marker" L) /\
  gen_Screen_split (SOther "Screen" L) res = split_fixed res (SOther "Screen" L) /\
  gen_Solenoid_split (SOther "Solenoid" L) res = split_fixed res (SOther "Solenoid" L) /\
  gen_SpaceChargeKick_split (SOther "SpaceChargeKick" L) res = split_fixed res (SOther "SpaceChargeKick" L) /\
  gen_TransverseDeflectingCavity_split (SOther "TransverseDeflectingCavity" L) res = split_fixed res (SOther "TransverseDeflectingCavity" L) /\
  gen_Undulator_split (SOther "Undulator" L) res = split_fixed res (SOther "Undulator" L).
Proof.
  intros cls L res.
  exact (conj (gen_Aperture_split_eq L res) (conj (gen_BPM_split_eq L res) (conj (gen_Cavity_split_eq L res)
        (conj (gen_CustomTransferMap_split_eq L res) (conj (gen_Dipole_split_eq cls L res) (conj (gen_Marker_split_eq L res)
        (conj (gen_Screen_split_eq L res) (conj (gen_Solenoid_split_eq L res) (conj (gen_SpaceChargeKick_split_eq L res)
        (conj (gen_TransverseDeflectingCavity_split_eq L res) (gen_Undulator_split_eq L res))))))))))).
Qed.
Print Assumptions trd_unsplittable_split.

(** where a corrector has pieces the code before the repair ([split]) is the same function *)
Theorem trd_corrector_split_old_model : forall (L angle res : Q), (0 < nsplit L res)%nat ->
  gen_HorizontalCorrector_split L angle res = split res (SHCor L angle) /\
  gen_VerticalCorrector_split L angle res = split res (SVCor L angle).
Proof. exact gen_corrector_split_old. Qed.
Print Assumptions trd_corrector_split_old_model.

(** C16's statements, transported to the code as translated: the pieces of a Drift add up to its length and none is longer
    than the resolution; the angles of the pieces of a corrector add up to its angle whatever its length *)
Theorem trd_split_as_coded_preserves : forall (L angle : Q) (method : string) (res : Q), 0 < res -> 0 <= L ->
  fold_right (fun p a => slen p + a) 0 (gen_Drift_split L method res) == L /\
  Forall (fun p => slen p <= res) (gen_Drift_split L method res) /\
  fold_right (fun p s => sangle p + s) 0 (gen_HorizontalCorrector_split L angle res) == angle /\
  fold_right (fun p s => sangle p + s) 0 (gen_VerticalCorrector_split L angle res) == angle.
Proof.
  intros L angle method res Hres HL.
  rewrite gen_Drift_split_eq, gen_HorizontalCorrector_split_eq, gen_VerticalCorrector_split_eq.
  split; [exact (split_fixed_sum res (SDrift L method) Hres HL)|].
  split; [| exact (corrector_split_angle_fixed res L angle)].
  pose proof (split_fixed_bound res (SDrift L method) Hres HL) as H.
  rewrite Forall_forall in H |- *. intros p Hp. apply (H p Hp).
  cbn [split_fixed] in Hp. apply repeat_spec in Hp. subst p. reflexivity.
Qed.
Print Assumptions trd_split_as_coded_preserves.

(** PART cavity *)
From Coq Require Import Reals.
From Cheetah Require Import Base.Mat Optics.Maps Beam.Moments Beam.MomCavity Gen.GenBase.
From Cheetah.Gen Require Import MapsGen.
Open Scope R_scope.

(** ** Cavity._track_beam as coded = Beam/MomCavity.v.  [phase] is in degrees as in the code, the model takes radians.
    The generated functions return [None] on the path on which the code raises UnboundLocalError (outgoing_energy is only
    assigned when energy + voltage cos(phi) > 0); hypothesis V <> 0 -> E <> 0: the branch E = 0 of _cavity_rmatrix is not
    modelled (Gen/MapsGenProps.v). *)
Theorem trd_Cavity__track_beam_particle : forall (L V phase f : R) (p : V7 R) (E : R), (V <> 0 -> E <> 0) ->
  gen_Cavity__track_beam_particle L V phase f p E =
  if Rlt_dec 0 (E + V * cos (deg2rad phase))
  then Some (cav1 L V (deg2rad phase) f E p, E + V * cos (deg2rad phase)) else None.
Proof. exact gen_Cavity__track_beam_particle_eq. Qed.
Print Assumptions trd_Cavity__track_beam_particle.

Theorem trd_Cavity__track_beam_param : forall (L V phase f : R) (mu : V7 R) (S : M7 R) (E q : R), (V <> 0 -> E <> 0) ->
  gen_Cavity__track_beam_param L V phase f mu S E =
  if Rlt_dec 0 (E + V * cos (deg2rad phase))
  then Some (pmu (cavity_param L V (deg2rad phase) f (mkParam mu S E q)),
             pcov (cavity_param L V (deg2rad phase) f (mkParam mu S E q)),
             qE (cavity_param L V (deg2rad phase) f (mkParam mu S E q)))
  else None.
Proof. exact gen_Cavity__track_beam_param_eq. Qed.
Print Assumptions trd_Cavity__track_beam_param.

(** the model of a whole ParticleBeam is the translated one-particle function mapped over the particles, with the energy
    gain V cos(phi), charges and survival probabilities passed through *)
Theorem trd_cavity_part_as_coded : forall (L V phase f : R) (b : PartBeam R), (V <> 0 -> pE b <> 0) ->
  0 < pE b + V * cos (deg2rad phase) ->
  cavity_part L V (deg2rad phase) f b =
  mkPart (List.map (fun p => match gen_Cavity__track_beam_particle L V phase f p (pE b) with Some (p', _) => p' | None => p end) (parts b))
         (pE b + V * cos (deg2rad phase)) (charges b) (surv b).
Proof. exact gen_cavity_part. Qed.
Print Assumptions trd_cavity_part_as_coded.

(** C10 (energy accounting): the code as translated returns the reference energy E + V cos(phi) for both beam types, and it
    returns a beam exactly when that energy is positive *)
Theorem trd_cavity_energy_as_coded : forall (L V phase f : R) (p mu : V7 R) (S : M7 R) (E : R), (V <> 0 -> E <> 0) ->
  (forall p' E', gen_Cavity__track_beam_particle L V phase f p E = Some (p', E') -> E' = E + V * cos (deg2rad phase) /\ 0 < E') /\
  (forall mu' S' E', gen_Cavity__track_beam_param L V phase f mu S E = Some (mu', S', E') -> E' = E + V * cos (deg2rad phase) /\ 0 < E') /\
  (gen_Cavity__track_beam_particle L V phase f p E = None <-> ~ 0 < E + V * cos (deg2rad phase)) /\
  (gen_Cavity__track_beam_param L V phase f mu S E = None <-> ~ 0 < E + V * cos (deg2rad phase)).
Proof.
  intros L V phase f p mu S E H.
  rewrite (gen_Cavity__track_beam_particle_eq L V phase f p E H), (gen_Cavity__track_beam_param_eq L V phase f mu S E 0 H).
  unfold cavity_param, ctk_E1, ctk_dE. cbv zeta. cbn [qE]. unfold ctk_E1, ctk_dE.
  destruct (Rlt_dec 0 (E + V * cos (deg2rad phase))) as [H1|H1].
  - split; [|split; [|split; split; intro; [discriminate | contradiction | discriminate | contradiction]]].
    + intros p' E' Heq. injection Heq as _ <-. split; [reflexivity | exact H1].
    + intros mu' S' E' Heq. injection Heq as _ _ <-. split; [reflexivity | exact H1].
  - split; [|split; [|split; split; intro; solve [reflexivity | assumption]]]; intros; discriminate.
Qed.
Print Assumptions trd_cavity_energy_as_coded.

(** C06's correspondence formulas: the new delta and tau of the translated particle are [cav_delta] and row 4 of the transfer
    map plus the second-order term [cav_quad] (T566 delta^2 + T556 tau delta + T555 tau^2) *)
Theorem trd_cavity_delta_tau_as_coded : forall (L V phase f : R) (p p' : V7 R) (E E' : R), (V <> 0 -> E <> 0) ->
  gen_Cavity__track_beam_particle L V phase f p E = Some (p', E') ->
  c5 p' = cav_delta V (deg2rad phase) f E (c4 p) (c5 p) /\
  c4 p' = dot Rplus Rmult (c4 (cav_tm L V (deg2rad phase) f E)) p + cav_quad L V (deg2rad phase) f E (c5 p ^ 2) (c4 p * c5 p) (c4 p ^ 2).
Proof.
  intros L V phase f p p' E E' H. rewrite (gen_Cavity__track_beam_particle_eq L V phase f p E H).
  destruct (Rlt_dec 0 (ctk_E1 V (deg2rad phase) E)); [|discriminate]. intro Heq. injection Heq as <- _. split; reflexivity.
Qed.
Print Assumptions trd_cavity_delta_tau_as_coded.

(** PART screen *)
From Coq Require Import Bool Lia.
From Cheetah Require Import Diag.Screen Diag.ScreenProofs.
From Cheetah Require Diag.Aperture.
Open Scope Q_scope.

(** ** the geometry of Screen as coded = Diag/Screen.v, over the record [screen] (resolution, binning, pixel size,
    misalignment, is_active, is_blocking) *)
Theorem trd_Screen_effective_resolution : forall s : screen,
  gen_Screen_effective_resolution s = ((sW s / sbin s)%Z, (sH s / sbin s)%Z).
Proof. exact gen_Screen_effective_resolution_eq. Qed.
Print Assumptions trd_Screen_effective_resolution.

Theorem trd_Screen_effective_pixel_size : forall s : screen,
  gen_Screen_effective_pixel_size s = (spx s * inject_Z (sbin s), spy s * inject_Z (sbin s)) /\
  (forall i, param_sample_x s i = xlo s + qnat i * fst (gen_Screen_effective_pixel_size s)) /\
  (forall j, param_sample_y s j = ylo s + qnat j * snd (gen_Screen_effective_pixel_size s)).
Proof. exact gen_Screen_effective_pixel_size_eq. Qed.
Print Assumptions trd_Screen_effective_pixel_size.

Theorem trd_Screen_extent : forall s : screen,
  gen_Screen_extent s = [- inject_Z (sW s) * spx s / 2; inject_Z (sW s) * spx s / 2; - inject_Z (sH s) * spy s / 2; inject_Z (sH s) * spy s / 2].
Proof. exact gen_Screen_extent_eq. Qed.
Print Assumptions trd_Screen_extent.

(** pixel_bin_edges = linspace(extent, effective_resolution + 1), pixel_bin_centers = the mid points; the pixel counts must not
    be negative (torch.linspace raises otherwise; the model is total) *)
Theorem trd_Screen_pixel_bin_edges : forall s : screen, (0 <= sW s / sbin s)%Z -> (0 <= sH s / sbin s)%Z ->
  gen_Screen_pixel_bin_edges s = (linspace (xlo s) (xhi s) (nbx s), linspace (ylo s) (yhi s) (nby s)).
Proof. exact gen_Screen_pixel_bin_edges_eq. Qed.
Print Assumptions trd_Screen_pixel_bin_edges.

Theorem trd_Screen_pixel_bin_centers : forall s : screen, (0 <= sW s / sbin s)%Z -> (0 <= sH s / sbin s)%Z ->
  gen_Screen_pixel_bin_centers s = (mids (edges_x s), mids (edges_y s)).
Proof. exact gen_Screen_pixel_bin_centers_eq. Qed.
Print Assumptions trd_Screen_pixel_bin_centers.

(** ** Screen.track as coded: (beam passed on, new read beam or None when nothing is recorded).  The outgoing beam is the
    model's; the read beam of a ParticleBeam is the REPAIRED variant (x - dx at index 0, y - dy at index 2; finding F14 was
    repaired in /repo), not the [read_particle] of the model of the code as it was *)
Theorem trd_Screen_track_particles : forall (s : screen) (ps : list particle),
  gen_Screen_track_particles s ps =
  (if sactive s && sblocking s then Particles (map (fun p => mkP (p_x p) (p_px p) (p_y p) (p_py p) (p_q p) 0) ps) else Particles ps,
   if sactive s then Some (Particles (map (fun p => mkP (p_x p - sdx s) (p_px p) (p_y p - sdy s) (p_py p) (p_q p) (p_s p)) ps)) else None).
Proof. exact gen_Screen_track_particles_eq. Qed.
Print Assumptions trd_Screen_track_particles.

Theorem trd_Screen_track_params : forall (s : screen) (mx mpx my mpy q : Q),
  gen_Screen_track_params s mx mpx my mpy q = screen_track s (Params mx mpx my mpy q).
Proof. exact gen_Screen_track_params_eq. Qed.
Print Assumptions trd_Screen_track_params.

(** the model of the code as it was (F14) differs exactly in the read beam: px instead of y *)
Theorem trd_Screen_track_vs_F14_model : forall (s : screen) (ps : list particle),
  fst (gen_Screen_track_particles s ps) = fst (screen_track s (Particles ps)) /\
  (snd (gen_Screen_track_particles s ps) = if sactive s then Some (Particles (map (read_particle_fixed s) ps)) else None) /\
  (snd (screen_track s (Particles ps)) = if sactive s then Some (Particles (map (read_particle s) ps)) else None).
Proof. intros s ps. rewrite gen_Screen_track_particles_eq. repeat split. Qed.
Print Assumptions trd_Screen_track_vs_F14_model.

(** C20: the read beam recorded by the code as translated puts every particle into the pixel that contains it, for every
    misalignment of the screen (ScreenProofs.pixel_contains_fixed transported to the translated track) *)
Theorem trd_screen_shows_particle_as_coded : forall (s : screen) (ps : list particle), good s -> sactive s = true ->
  exists rs, snd (gen_Screen_track_particles s ps) = Some (Particles rs) /\ List.length rs = List.length ps /\
    forall (i r c : nat) (d : particle), (i < List.length ps)%nat ->
      in_pixel s (sdx s) (sdy s) (p_x (nth i ps d)) (p_y (nth i ps d)) r c ->
      pixel_of s (nth i rs (read_particle_fixed s d)) = Some (r, c).
Proof.
  intros s ps G Ha. exists (map (read_particle_fixed s) ps). rewrite gen_Screen_track_particles_eq, Ha. cbn [snd].
  split; [reflexivity|]. split; [apply map_length|]. intros i r c d Hi Hp.
  rewrite map_nth. apply pixel_contains_fixed; assumption.
Qed.
Print Assumptions trd_screen_shows_particle_as_coded.

(** C10: blocking as coded is Diag/Aperture.v [scr_track] (survival probabilities zeroed, charges and coordinates kept;
    active and non-blocking or inactive: the beam is passed on unchanged) *)
Definition to_ap (E : Q) (b : beam) : Aperture.beam :=
  match b with
  | Particles ps => Aperture.PBeam (Aperture.mkpb (map (fun p => [p_x p; p_px p; p_y p; p_py p]) ps) E (map p_q ps) (map p_s ps))
  | Params mx mpx my mpy q => Aperture.QBeam (Aperture.mkqb [mx; mpx; my; mpy] [] E q)
  end.
Theorem trd_Screen_blocking_as_coded : forall (s : screen) (E : Q) (ps : list particle) (mx mpx my mpy q : Q),
  to_ap E (fst (gen_Screen_track_particles s ps)) = Aperture.scr_track (Aperture.mkscr (sactive s) (sblocking s)) (to_ap E (Particles ps)) /\
  to_ap E (fst (gen_Screen_track_params s mx mpx my mpy q))
  = Aperture.scr_track (Aperture.mkscr (sactive s) (sblocking s)) (to_ap E (Params mx mpx my mpy q)).
Proof.
  intros s E ps mx mpx my mpy q. rewrite gen_Screen_track_particles_eq, gen_Screen_track_params_eq.
  unfold screen_track, Aperture.scr_track. cbn [fst Aperture.scr_active Aperture.scr_blocking].
  destruct (sactive s && sblocking s); split; try reflexivity.
  cbn [block to_ap Aperture.parts Aperture.energy Aperture.charges Aperture.surv]. rewrite !map_map. reflexivity.
Qed.
Print Assumptions trd_Screen_blocking_as_coded.

(** ** Screen.reading as coded (method "histogram") *)
Theorem trd_Screen_reading_none : forall s : screen,
  (rows (gen_Screen_reading_none s), cols (gen_Screen_reading_none s)) = (nby s, nbx s) /\
  forall i j, at2 (gen_Screen_reading_none s) i j = 0.
Proof. exact gen_Screen_reading_none_eq. Qed.
Print Assumptions trd_Screen_reading_none.

(** x goes to histogram axis 0 and y to axis 1, with the x / y edges; the weights are charge * survival; the image is
    flipud(hist.T): shape (rows, columns) = (y pixels, x pixels), row 0 at the top *)
Theorem trd_Screen_reading_particles : forall (s : screen) (ps : list particle), (0 <= sW s / sbin s)%Z -> (0 <= sH s / sbin s)%Z ->
  gen_Screen_reading_particles s ps = flipudT (transposeT (hist s ps)).
Proof. exact gen_Screen_reading_particles_eq. Qed.
Print Assumptions trd_Screen_reading_particles.

(** C20's theorems about the image, for the image as translated: shape, and a read-beam particle is counted in exactly the
    pixel [pixel_of] names *)
Theorem trd_image_as_coded : forall (s : screen) (p : particle) (ps : list particle) (r c : nat), good s -> (0 < sbin s)%Z ->
  (r < nby s)%nat ->
  rows (gen_Screen_reading_particles s ps) = nby s /\ cols (gen_Screen_reading_particles s ps) = nbx s /\
  (pixel_of s p = Some (r, c) ->
   at2 (gen_Screen_reading_particles s (p :: ps)) r c == weight p + at2 (gen_Screen_reading_particles s ps) r c).
Proof.
  intros s p ps r c G Hb Hr. destruct G as (Gx & Gy & Gpx & Gpy & GW & GH) eqn:EG.
  assert (Hx : (0 <= sW s / sbin s)%Z) by (apply Z.div_pos; lia).
  assert (Hy : (0 <= sH s / sbin s)%Z) by (apply Z.div_pos; lia).
  rewrite !(gen_Screen_reading_particles_eq s _ Hx Hy).
  split; [reflexivity|]. split; [reflexivity|]. intro Hp.
  exact (image_counts s p ps r c Gx Gy Hr Hp).
Qed.
Print Assumptions trd_image_as_coded.

(** ** BPM.track as coded: reading = [mu_x, mu_y] of the incoming beam (recorded whatever is_active says), beam passed on *)
Theorem trd_BPM_track : forall (active : bool) (ps : list particle) (mx mpx my mpy q : Q),
  gen_BPM_track_particles active ps = (Particles ps, [centroid p_x ps; centroid p_y ps]) /\
  gen_BPM_track_params active mx mpx my mpy q = (Params mx mpx my mpy q, [mx; my]).
Proof. intros. split; [exact (gen_BPM_track_particles_eq active ps) | exact (gen_BPM_track_params_eq active mx mpx my mpy q)]. Qed.
Print Assumptions trd_BPM_track.
