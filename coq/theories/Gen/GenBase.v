(** Support for the GENERATED transcription of cheetah's linear maps (Gen/MapsGen.v, written by
    harness/translate_maps.py from /repo's source text) and for the proofs that it coincides with the
    hand-written model Optics/Maps.v (Gen/MapsGenEquiv.v).

    [mset i j x m] is the scalar reading of the Python statement  m[..., i, j] = x  on a 7x7 tensor
    (functional update of one entry; an index outside 0..6 leaves the matrix unchanged -- the translator
    refuses such indices, Python would raise IndexError).
    [deg2rad] is the scalar reading of torch.deg2rad. *)
From Coq Require Import Reals Lra Lia.
From Cheetah Require Import Base.Mat Optics.Maps.
Open Scope R_scope.

Definition vset {A : Type} (j : nat) (x : A) (v : V7 A) : V7 A :=
  match j with
  | 0%nat => mk7 x (c1 v) (c2 v) (c3 v) (c4 v) (c5 v) (c6 v)
  | 1%nat => mk7 (c0 v) x (c2 v) (c3 v) (c4 v) (c5 v) (c6 v)
  | 2%nat => mk7 (c0 v) (c1 v) x (c3 v) (c4 v) (c5 v) (c6 v)
  | 3%nat => mk7 (c0 v) (c1 v) (c2 v) x (c4 v) (c5 v) (c6 v)
  | 4%nat => mk7 (c0 v) (c1 v) (c2 v) (c3 v) x (c5 v) (c6 v)
  | 5%nat => mk7 (c0 v) (c1 v) (c2 v) (c3 v) (c4 v) x (c6 v)
  | 6%nat => mk7 (c0 v) (c1 v) (c2 v) (c3 v) (c4 v) (c5 v) x
  | _ => v
  end.

Definition mset {A : Type} (i j : nat) (x : A) (m : M7 A) : M7 A :=
  match i with
  | 0%nat => mk7 (vset j x (c0 m)) (c1 m) (c2 m) (c3 m) (c4 m) (c5 m) (c6 m)
  | 1%nat => mk7 (c0 m) (vset j x (c1 m)) (c2 m) (c3 m) (c4 m) (c5 m) (c6 m)
  | 2%nat => mk7 (c0 m) (c1 m) (vset j x (c2 m)) (c3 m) (c4 m) (c5 m) (c6 m)
  | 3%nat => mk7 (c0 m) (c1 m) (c2 m) (vset j x (c3 m)) (c4 m) (c5 m) (c6 m)
  | 4%nat => mk7 (c0 m) (c1 m) (c2 m) (c3 m) (vset j x (c4 m)) (c5 m) (c6 m)
  | 5%nat => mk7 (c0 m) (c1 m) (c2 m) (c3 m) (c4 m) (vset j x (c5 m)) (c6 m)
  | 6%nat => mk7 (c0 m) (c1 m) (c2 m) (c3 m) (c4 m) (c5 m) (vset j x (c6 m))
  | _ => m
  end.

(** specification of [mset] against the accessor of Base/Mat.v *)
Lemma vset_same {A} (j : nat) (x : A) v : (j < 7)%nat -> v7nth (vset j x v) j = x.
Proof. intro H. do 7 (destruct j as [|j]; [reflexivity|]). lia. Qed.
Lemma vset_other {A} (j k : nat) (x : A) v : (k < 7)%nat -> j <> k -> v7nth (vset j x v) k = v7nth v k.
Proof.
  intros Hk H. destruct v as [a0 a1 a2 a3 a4 a5 a6].
  do 7 (destruct j as [|j]; [ do 7 (destruct k as [|k]; [first [reflexivity | congruence]|]); lia |]).
  reflexivity.
Qed.
Lemma mset_same {A} (i j : nat) (x : A) m : (i < 7)%nat -> (j < 7)%nat -> m7nth (mset i j x m) i j = x.
Proof.
  intros Hi Hj. unfold m7nth.
  do 7 (destruct i as [|i]; [cbn [mset v7nth c0 c1 c2 c3 c4 c5 c6]; apply vset_same; assumption|]).
  lia.
Qed.
Lemma mset_other {A} (i j k l : nat) (x : A) m : (k < 7)%nat -> (l < 7)%nat -> (i <> k \/ j <> l) -> m7nth (mset i j x m) k l = m7nth m k l.
Proof.
  intros Hk Hl H. unfold m7nth. destruct m as [r0 r1 r2 r3 r4 r5 r6].
  do 7 (destruct i as [|i]; [
    do 7 (destruct k as [|k]; [ cbn [mset v7nth c0 c1 c2 c3 c4 c5 c6]; first [reflexivity | apply vset_other; [assumption | destruct H; congruence]] |]);
    lia |]).
  reflexivity.
Qed.

Definition deg2rad (x : R) : R := x * (PI / 180).

(** reduction of generated matrix terms to explicit rows *)
Ltac gred := lazy beta iota zeta delta [mset vset rI I7 e0 e1 e2 e3 e4 e5 e6 c0 c1 c2 c3 c4 c5 c6 row fst snd].
Ltac gmred := lazy beta iota zeta delta [mset vset rI I7 e0 e1 e2 e3 e4 e5 e6 c0 c1 c2 c3 c4 c5 c6 row fst snd
                                          mmul vmat mvec transpose col v7map v7map2 dot].
Ltac gmeq := apply v7_eq; lazy beta iota delta [c0 c1 c2 c3 c4 c5 c6]; apply v7_eq; lazy beta iota delta [c0 c1 c2 c3 c4 c5 c6].

Lemma pow2_sqr (x : R) : x ^ 2 = x².
Proof. unfold Rsqr. ring. Qed.

Lemma Req_EM_T_refl {T} (x : R) (a b : T) : (if Req_EM_T x x then a else b) = a.
Proof. destruct (Req_EM_T x x) as [_|n]; [reflexivity | exfalso; apply n; reflexivity]. Qed.

Lemma base_rmatrix_untilted (L k1 hx E : R) : base_rmatrix L k1 hx 0 E = base_untilted L k1 hx E.
Proof. unfold base_rmatrix. apply Req_EM_T_refl. Qed.
