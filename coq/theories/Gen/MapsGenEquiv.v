(** generated transcription (Gen/MapsGen.v, regenerated from /repo's source text on every run by
    harness/translate_maps.py)  =  hand-written model (Optics/Maps.v), definition by definition.

    The proofs only unfold, zeta-expand the generated [let]s, evaluate the entry assignments [mset] and compare
    entry by entry, so they are insensitive to renamed locals, reordered independent assignments, comments and
    layout of the Python source, while any change of a formula, index, guard or constant makes the statement
    FALSE (hence unprovable).  harness/translate_stage.py compiles this file against the fresh MapsGen.v
    (the import line below is redirected to the fresh copy; it must stay on one line, exactly as written). *)
From Coq Require Import Reals Lra.
From Cheetah Require Import Base.Mat Optics.Maps Gen.GenBase.
From Cheetah.Gen Require Import MapsGen.
Open Scope R_scope.

Lemma Rdiv_one (x : R) : x / 1 = x.
Proof. unfold Rdiv. rewrite Rinv_1. apply Rmult_1_r. Qed.

Lemma conj_ext (a b b' c : M7 R) : b = b' -> rmmul a (rmmul b c) = rmmul a (rmmul b' c).
Proof. intros ->. reflexivity. Qed.

(* entry-wise comparison: syntactic/convertible equality first, ring identities (division as multiplication by the
   inverse, no side conditions) as a fallback for harmless re-association in the source *)
Ltac entry := first [ reflexivity | unfold Rdiv, Rsqr; ring ].
Ltac mat_entries := gmeq; entry.

(** ** cheetah/utils/physics.py *)
Lemma gen_compute_relativistic_factors_eq (E : R) :
  gen_compute_relativistic_factors E = (gamma_of E, igamma2_of E, beta_of E).
Proof. cbv beta iota zeta delta [gen_compute_relativistic_factors]. rewrite ?pow2_sqr. reflexivity. Qed.

Ltac gen_open f :=
  cbv beta iota zeta delta [f]; rewrite ?gen_compute_relativistic_factors_eq; cbv beta iota zeta; rewrite ?pow2_sqr.

(** ** cheetah/track_methods.py *)
Lemma gen_rotation_matrix_eq (a : R) : gen_rotation_matrix a = rot a.
Proof. gen_open gen_rotation_matrix. unfold rot. gred. mat_entries. Qed.

Lemma gen_base_rmatrix_eq (L k1 hx tilt E : R) :
  gen_base_rmatrix L k1 hx (Some tilt) (Some E) = base_rmatrix L k1 hx tilt E.
Proof.
  gen_open gen_base_rmatrix. rewrite ?gen_rotation_matrix_eq. unfold base_rmatrix.
  assert (H : forall X Y : M7 R, X = Y ->
              (if Req_EM_T tilt 0 then X else rmmul (rot (- tilt)) (rmmul X (rot tilt)))
              = (if Req_EM_T tilt 0 then Y else rmmul (rot (- tilt)) (rmmul Y (rot tilt)))) by (intros X Y ->; reflexivity).
  apply H. unfold base_untilted, dx, r56, cx, sx, cy, sy, kx2, ky2, k1_guard. gred. mat_entries.
Qed.

(* the defaults of the optional parameters: tilt = None, energy = None mean 0 *)
Lemma gen_base_rmatrix_defaults (L k1 hx : R) :
  gen_base_rmatrix L k1 hx None None = gen_base_rmatrix L k1 hx (Some 0) (Some 0).
Proof. reflexivity. Qed.

Lemma gen_misalignment_matrix_eq (mx my : R) :
  gen_misalignment_matrix mx my = (mis_entry mx my, mis_exit mx my).
Proof.
  gen_open gen_misalignment_matrix. unfold mis_entry, mis_exit, shift. gred.
  apply f_equal2; mat_entries.
Qed.

(* R_exit * R * R_entry unless both offsets vanish *)
Lemma misaligned_ext (mx my : R) (X Y : M7 R) : X = Y ->
  (if Req_EM_T mx 0 then (if Req_EM_T my 0 then X else rmmul (mis_exit mx my) (rmmul X (mis_entry mx my)))
   else rmmul (mis_exit mx my) (rmmul X (mis_entry mx my))) = misaligned mx my Y.
Proof. intros ->. reflexivity. Qed.

(** ** accelerator/drift.py, horizontal_corrector.py, vertical_corrector.py, undulator.py *)
Lemma gen_Drift_transfer_map_eq (L E : R) : gen_Drift_transfer_map L E = drift_map L E.
Proof. gen_open gen_Drift_transfer_map. unfold drift_map, drift_r56. gred. mat_entries. Qed.

Lemma gen_HorizontalCorrector_transfer_map_eq (L angle E : R) :
  gen_HorizontalCorrector_transfer_map L angle E = hcor_map L angle E.
Proof. gen_open gen_HorizontalCorrector_transfer_map. unfold hcor_map, drift_r56. gred. mat_entries. Qed.

Lemma gen_VerticalCorrector_transfer_map_eq (L angle E : R) :
  gen_VerticalCorrector_transfer_map L angle E = vcor_map L angle E.
Proof. gen_open gen_VerticalCorrector_transfer_map. unfold vcor_map, drift_r56. gred. mat_entries. Qed.

(* the working tree carries the repair of finding F3: R56 = - L / beta^2 * igamma2 *)
Lemma gen_Undulator_transfer_map_eq (L E : R) : gen_Undulator_transfer_map L E = und_map_fixed L E.
Proof. gen_open gen_Undulator_transfer_map. unfold und_map_fixed. gred. mat_entries. Qed.

(** ** accelerator/solenoid.py *)
Lemma gen_Solenoid_transfer_map_eq (L k mx my E : R) :
  gen_Solenoid_transfer_map L k mx my E = sol_map L k mx my E.
Proof.
  gen_open gen_Solenoid_transfer_map. rewrite ?gen_misalignment_matrix_eq. cbv beta iota zeta.
  unfold sol_map. apply misaligned_ext.
  unfold sol_body, sol_sk, sol_r56. gred. mat_entries.
Qed.

(** ** accelerator/quadrupole.py *)
Lemma gen_Quadrupole_transfer_map_eq (L k1 mx my tilt E : R) :
  gen_Quadrupole_transfer_map L k1 mx my tilt E = quad_map L k1 mx my tilt E.
Proof.
  gen_open gen_Quadrupole_transfer_map. rewrite ?gen_misalignment_matrix_eq. cbv beta iota zeta.
  unfold quad_map. apply misaligned_ext. apply gen_base_rmatrix_eq.
Qed.

(** ** accelerator/dipole.py *)
Lemma gen_Dipole_hx_eq (L angle : R) : gen_Dipole_hx L angle = dip_hx L angle.
Proof. reflexivity. Qed.

Lemma gen_Dipole__transfer_map_enter_eq (L angle e1 fint gap : R) :
  gen_Dipole__transfer_map_enter L angle e1 fint gap
  = edge_map (dip_hx L angle) e1 (edge_phi fint (dip_hx L angle) gap e1).
Proof.
  gen_open gen_Dipole__transfer_map_enter. rewrite ?gen_Dipole_hx_eq. unfold edge_map, edge_phi. gred. mat_entries.
Qed.

Lemma gen_Dipole__transfer_map_exit_eq (L angle e2 fint_exit gap : R) :
  gen_Dipole__transfer_map_exit L angle e2 fint_exit gap
  = edge_map (dip_hx L angle) e2 (edge_phi fint_exit (dip_hx L angle) gap e2).
Proof.
  gen_open gen_Dipole__transfer_map_exit. rewrite ?gen_Dipole_hx_eq. unfold edge_map, edge_phi. gred. mat_entries.
Qed.

Lemma gen_Dipole_transfer_map_eq (L angle k1 e1 e2 tilt gap fint fint_exit E : R) :
  gen_Dipole_transfer_map L angle k1 e1 e2 tilt gap fint fint_exit E
  = dip_map L angle k1 e1 e2 tilt gap fint fint_exit E.
Proof.
  gen_open gen_Dipole_transfer_map.
  rewrite ?gen_Dipole__transfer_map_enter_eq, ?gen_Dipole__transfer_map_exit_eq, ?gen_rotation_matrix_eq,
          ?gen_base_rmatrix_eq, ?gen_Dipole_hx_eq, ?base_rmatrix_untilted.
  cbv beta zeta delta [dip_map dip_body].
  destruct (Req_EM_T L 0) as [HL|HL].
  - apply conj_ext. apply f_equal. apply (f_equal (fun X => rmmul X _)).
    unfold dip_thin. gred. mat_entries.
  - reflexivity.
Qed.

(** ** accelerator/rbend.py: what RBend.__init__ hands to Dipole.__init__ as dipole_e1, dipole_e2 *)
Lemma gen_RBend_init_edges_eq (angle re1 re2 : R) :
  gen_RBend_init_edges (Some angle) (Some re1) (Some re2) = (re1 + angle / 2, re2 + angle / 2).
Proof. reflexivity. Qed.

Lemma gen_RBend_init_edges_defaults :
  gen_RBend_init_edges None None None = (0 + 0 / 2, 0 + 0 / 2).
Proof. reflexivity. Qed.

(* RBend inherits the Dipole methods (the translator checks that it does not redefine them); Dipole.__init__ stores
   dipole_e1/dipole_e2 as self._e1/self._e2 (class machinery, not translated) *)
Lemma gen_RBend_transfer_map_eq (L angle k1 re1 re2 tilt gap fint fint_exit E : R) :
  gen_Dipole_transfer_map L angle k1 (fst (gen_RBend_init_edges (Some angle) (Some re1) (Some re2)))
                          (snd (gen_RBend_init_edges (Some angle) (Some re1) (Some re2))) tilt gap fint fint_exit E
  = rbend_map L angle k1 re1 re2 tilt gap fint fint_exit E.
Proof. rewrite gen_RBend_init_edges_eq. cbv beta iota delta [fst snd]. unfold rbend_map. apply gen_Dipole_transfer_map_eq. Qed.

(** ** accelerator/cavity.py *)
Lemma gen_Cavity__cavity_rmatrix_pre_eq (L V phase f E : R) :
  gen_Cavity__cavity_rmatrix_pre L V phase f E <-> cav_Ei E > 0.
Proof.
  cbv beta iota zeta delta [gen_Cavity__cavity_rmatrix_pre]. unfold cav_Ei.
  destruct (Req_EM_T V 0); [|destruct (Req_EM_T E 0)]; tauto.
Qed.

Lemma gen_Cavity__cavity_rmatrix_eq (L V phase f E : R) : V <> 0 -> E <> 0 ->
  gen_Cavity__cavity_rmatrix L V phase f E = cavity_on_map L V (deg2rad phase) f E.
Proof.
  intros HV HE. gen_open gen_Cavity__cavity_rmatrix.
  destruct (Req_EM_T V 0) as [HV0|_]; [contradiction|]. destruct (Req_EM_T E 0) as [HE0|_]; [contradiction|].
  rewrite ?Rdiv_one, ?Rmult_1_r.
  unfold cavity_on_map, cav_r11, cav_r12, cav_r21, cav_r22, cav_r55_cor, cav_r56, cav_r65, cav_r66, cav_k, cav_beta0, cav_beta1,
         cav_alpha, cav_Ep, cav_Ef, cav_Ei, cav_dE.
  gred. mat_entries.
Qed.

Lemma gen_Cavity_transfer_map_eq (L V phase f E : R) :
  gen_Cavity_transfer_map L V phase f E
  = if Req_EM_T V 0 then cavity_off_map L E else gen_Cavity__cavity_rmatrix L V phase f E.
Proof. gen_open gen_Cavity_transfer_map. rewrite ?gen_base_rmatrix_eq. reflexivity. Qed.

Lemma gen_Cavity_transfer_map_on (L V phase f E : R) : V <> 0 -> E <> 0 ->
  gen_Cavity_transfer_map L V phase f E = cavity_on_map L V (deg2rad phase) f E.
Proof.
  intros HV HE. rewrite gen_Cavity_transfer_map_eq. destruct (Req_EM_T V 0) as [HV0|_]; [contradiction|].
  apply gen_Cavity__cavity_rmatrix_eq; assumption.
Qed.

Lemma gen_Cavity_transfer_map_off (L phase f E : R) :
  gen_Cavity_transfer_map L 0 phase f E = cavity_off_map L E.
Proof. rewrite gen_Cavity_transfer_map_eq. apply Req_EM_T_refl. Qed.
