(** Final statements of the translator tie: every definition regenerated from /repo's source text by
    harness/translate_maps.py (Gen/MapsGen.v) equals the hand-written model of Optics/Maps.v.
    Statements are spelled out; proofs are in Gen/MapsGenEquiv.v.  Like that file, this one is compiled by
    harness/translate_stage.py against the FRESH MapsGen.v (import lines redirected; keep them on one line each). *)
From Coq Require Import Reals.
From Cheetah Require Import Base.Mat Optics.Maps Gen.GenBase.
From Cheetah.Gen Require Import MapsGen.
From Cheetah.Gen Require Import MapsGenEquiv.
Open Scope R_scope.

Theorem tr_compute_relativistic_factors : forall E : R,
  gen_compute_relativistic_factors E = (gamma_of E, igamma2_of E, beta_of E).
Proof. exact gen_compute_relativistic_factors_eq. Qed.
Print Assumptions tr_compute_relativistic_factors.

Theorem tr_rotation_matrix : forall a : R, gen_rotation_matrix a = rot a.
Proof. exact gen_rotation_matrix_eq. Qed.
Print Assumptions tr_rotation_matrix.

Theorem tr_base_rmatrix : forall L k1 hx tilt E : R,
  gen_base_rmatrix L k1 hx (Some tilt) (Some E) = base_rmatrix L k1 hx tilt E.
Proof. exact gen_base_rmatrix_eq. Qed.
Print Assumptions tr_base_rmatrix.

Theorem tr_base_rmatrix_defaults : forall L k1 hx : R,
  gen_base_rmatrix L k1 hx None None = base_rmatrix L k1 hx 0 0.
Proof. intros. rewrite gen_base_rmatrix_defaults. apply gen_base_rmatrix_eq. Qed.
Print Assumptions tr_base_rmatrix_defaults.

Theorem tr_misalignment_matrix : forall mx my : R,
  gen_misalignment_matrix mx my = (mis_entry mx my, mis_exit mx my).
Proof. exact gen_misalignment_matrix_eq. Qed.
Print Assumptions tr_misalignment_matrix.

Theorem tr_Drift_transfer_map : forall L E : R, gen_Drift_transfer_map L E = drift_map L E.
Proof. exact gen_Drift_transfer_map_eq. Qed.
Print Assumptions tr_Drift_transfer_map.

Theorem tr_HorizontalCorrector_transfer_map : forall L angle E : R,
  gen_HorizontalCorrector_transfer_map L angle E = hcor_map L angle E.
Proof. exact gen_HorizontalCorrector_transfer_map_eq. Qed.
Print Assumptions tr_HorizontalCorrector_transfer_map.

Theorem tr_VerticalCorrector_transfer_map : forall L angle E : R,
  gen_VerticalCorrector_transfer_map L angle E = vcor_map L angle E.
Proof. exact gen_VerticalCorrector_transfer_map_eq. Qed.
Print Assumptions tr_VerticalCorrector_transfer_map.

Theorem tr_Solenoid_transfer_map : forall L k mx my E : R,
  gen_Solenoid_transfer_map L k mx my E = sol_map L k mx my E.
Proof. exact gen_Solenoid_transfer_map_eq. Qed.
Print Assumptions tr_Solenoid_transfer_map.

(* the working tree carries the repair of finding F3 *)
Theorem tr_Undulator_transfer_map : forall L E : R, gen_Undulator_transfer_map L E = und_map_fixed L E.
Proof. exact gen_Undulator_transfer_map_eq. Qed.
Print Assumptions tr_Undulator_transfer_map.

Theorem tr_Quadrupole_transfer_map : forall L k1 mx my tilt E : R,
  gen_Quadrupole_transfer_map L k1 mx my tilt E = quad_map L k1 mx my tilt E.
Proof. exact gen_Quadrupole_transfer_map_eq. Qed.
Print Assumptions tr_Quadrupole_transfer_map.

Theorem tr_Dipole_hx : forall L angle : R, gen_Dipole_hx L angle = dip_hx L angle.
Proof. exact gen_Dipole_hx_eq. Qed.
Print Assumptions tr_Dipole_hx.

Theorem tr_Dipole_transfer_map_enter : forall L angle e1 fint gap : R,
  gen_Dipole__transfer_map_enter L angle e1 fint gap = edge_map (dip_hx L angle) e1 (edge_phi fint (dip_hx L angle) gap e1).
Proof. exact gen_Dipole__transfer_map_enter_eq. Qed.
Print Assumptions tr_Dipole_transfer_map_enter.

Theorem tr_Dipole_transfer_map_exit : forall L angle e2 fint_exit gap : R,
  gen_Dipole__transfer_map_exit L angle e2 fint_exit gap = edge_map (dip_hx L angle) e2 (edge_phi fint_exit (dip_hx L angle) gap e2).
Proof. exact gen_Dipole__transfer_map_exit_eq. Qed.
Print Assumptions tr_Dipole_transfer_map_exit.

Theorem tr_Dipole_transfer_map : forall L angle k1 e1 e2 tilt gap fint fint_exit E : R,
  gen_Dipole_transfer_map L angle k1 e1 e2 tilt gap fint fint_exit E = dip_map L angle k1 e1 e2 tilt gap fint fint_exit E.
Proof. exact gen_Dipole_transfer_map_eq. Qed.
Print Assumptions tr_Dipole_transfer_map.

Theorem tr_RBend_init_edges : forall angle re1 re2 : R,
  gen_RBend_init_edges (Some angle) (Some re1) (Some re2) = (re1 + angle / 2, re2 + angle / 2).
Proof. exact gen_RBend_init_edges_eq. Qed.
Print Assumptions tr_RBend_init_edges.

Theorem tr_RBend_transfer_map : forall L angle k1 re1 re2 tilt gap fint fint_exit E : R,
  gen_Dipole_transfer_map L angle k1 (fst (gen_RBend_init_edges (Some angle) (Some re1) (Some re2)))
                          (snd (gen_RBend_init_edges (Some angle) (Some re1) (Some re2))) tilt gap fint fint_exit E
  = rbend_map L angle k1 re1 re2 tilt gap fint fint_exit E.
Proof. exact gen_RBend_transfer_map_eq. Qed.
Print Assumptions tr_RBend_transfer_map.

Theorem tr_Cavity_cavity_rmatrix_pre : forall L V phase f E : R,
  gen_Cavity__cavity_rmatrix_pre L V phase f E <-> E / m_e > 0.
Proof. exact gen_Cavity__cavity_rmatrix_pre_eq. Qed.
Print Assumptions tr_Cavity_cavity_rmatrix_pre.

Theorem tr_Cavity_cavity_rmatrix : forall L V phase f E : R, V <> 0 -> E <> 0 ->
  gen_Cavity__cavity_rmatrix L V phase f E = cavity_on_map L V (phase * (PI / 180)) f E.
Proof. exact gen_Cavity__cavity_rmatrix_eq. Qed.
Print Assumptions tr_Cavity_cavity_rmatrix.

Theorem tr_Cavity_transfer_map_on : forall L V phase f E : R, V <> 0 -> E <> 0 ->
  gen_Cavity_transfer_map L V phase f E = cavity_on_map L V (phase * (PI / 180)) f E.
Proof. exact gen_Cavity_transfer_map_on. Qed.
Print Assumptions tr_Cavity_transfer_map_on.

Theorem tr_Cavity_transfer_map_off : forall L phase f E : R,
  gen_Cavity_transfer_map L 0 phase f E = cavity_off_map L E.
Proof. exact gen_Cavity_transfer_map_off. Qed.
Print Assumptions tr_Cavity_transfer_map_off.
