(** Support for the GENERATED transcription of cheetah's SpaceChargeKick formulas (Gen/ScGen.v, written by
    harness/translate_sc.py from /repo's source text) and for the proofs that it coincides with the hand-written models
    SpaceCharge/Igf.v, Cic.v and Hockney.v (Gen/ScGenEquiv.v).

    SpaceCharge/Cic.v takes the grid geometry (g_dim, g_cell) as an INPUT of the model.  The hand-written reading of the lines of
    SpaceChargeKick.track that compute it is fixed here (nothing is proved in this file):
      grid_dimensions_a = grid_extend_a * sigma_a            cell_size_a = 2 * grid_dimensions_a / (n_a - 1)
    and [sc_geom] packs it as the [geom] of Cic.v.  The 7 columns of to_xyz_pxpypz() are (x, px, y, py, z, pz, 1): [cols7] lists the
    six SI coordinates of an [spart] followed by the untouched seventh column. *)
From Coq Require Import ZArith QArith Bool List.
From Cheetah Require Import SpaceCharge.Cic.
Open Scope Q_scope.

Definition grid_dims_spec (ex ey et sx sy st : Q) : q3 := (ex * sx, ey * sy, et * st).

Definition cell_size_spec (d : q3) (nx ny nz : Q) : q3 :=
  let '(dx, dy, dz) := d in (2 * dx / (nx - 1), 2 * dy / (ny - 1), 2 * dz / (nz - 1)).

(* the geometry SpaceChargeKick.track hands to _compute_forces, for extents ex.., beam sizes sx.. and grid shape (nx, ny, nz) *)
Definition sc_geom (ex ey et sx sy st : Q) (sh : idx) : geom :=
  let '(nx, ny, nz) := sh in
  let d := grid_dims_spec ex ey et sx sy st in
  mkgeom d (cell_size_spec d (inject_Z nx) (inject_Z ny) (inject_Z nz)) sh.

Definition cols7 (p : spart) (one : Q) : Q * Q * Q * Q * Q * Q * Q :=
  (s_x p, s_px p, s_y p, s_py p, s_z p, s_pz p, one).

(** ** cloud-in-cell: the per-particle list of entries handed to index_put_(accumulate=True), on the model side *)
Definition dep_entry := (idx * bool * Q)%type.

(* the 8 (grid index, valid, weight * charge * survival) entries of particle p *)
Definition deposit_terms (g : geom) (p : spart) : list dep_entry :=
  List.map (fun c => (c, valid (g_shape g) c, cw (nrm g p) c * (s_q p * s_s p))) (corners (cell_of (nrm g p))).

(* what index_put_(.., accumulate=True) adds at grid point k for one list of entries (entries with valid = false are dropped) *)
Definition hit_sum (k : idx) (l : list dep_entry) : Q :=
  sumQ (List.map (fun e => let '(c, v, x) := e in if idx_eqb c k && v then x else 0) l).

(* same index, same validity, equal value *)
Definition entry_rel (a b : dep_entry) : Prop :=
  fst (fst a) = fst (fst b) /\ snd (fst a) = snd (fst b) /\ snd a == snd b.

Definition sp_of (x y z q s : Q) : spart := mksp x 0 y 0 z 0 q s.
Definition geom_of (dx dy dz cx cy cz : Q) (nx ny nz : Z) : geom := mkgeom (dx, dy, dz) (cx, cy, cz) (nx, ny, nz).
