(** generated = model, definition by definition, for Gen/ScGen.v (regenerated from /repo's source text by harness/translate_sc.py)
    against SpaceCharge/Igf.v (ipot), SpaceCharge/Cic.v (dt_of, dP, kick_one, nrm) and SpaceCharge/Hockney.v (ig2_of, grad, field).
    Compiled by harness/translate_stage_sc.py against the FRESH ScGen.v (keep the import line of ScGen on one line). *)
From Coq Require Import Reals Lra ZArith QArith Qround Bool Arith Lia List.
From Cheetah Require Import SpaceCharge.Igf SpaceCharge.Cic SpaceCharge.CicProofs SpaceCharge.Hockney Gen.ScGenBase.
From Cheetah.Gen Require Import ScGen.

(** ** 1. _integrated_potential = ipot (all reals; no definedness hypothesis is needed: both sides use Coq's total division and
    sqrt, and torch.asinh is read as Coq's arcsinh, which is what the model uses) *)
Lemma gen_integrated_potential_eq : forall x y t : R, gen_integrated_potential x y t = ipot x y t.
Proof. intros. unfold gen_integrated_potential, ipot. cbv zeta. lra. Qed.

(** ** 1b. G_values of _integrated_green_function = igf, with the longitudinal cell size scaled by gamma (dtau = cell_size[2] * gamma);
    the grid index is any real (the code evaluates it at the naturals 0 .. n-1 of torch.arange) *)
Lemma gen_G_values_eq : forall cx cy cz gamma i j k : R,
  gen_G_values cx cy cz gamma i j k = igf cx cy (cz * gamma) i j k.
Proof.
  intros. unfold gen_G_values, igf. rewrite !gen_integrated_potential_eq.
  replace (1 / 2)%R with (/ 2)%R by lra. reflexivity.
Qed.

Lemma gen_G_values_abs : forall cx cy cz gamma i j k : R,
  gen_G_values cx cy cz gamma i j k = gen_G_values cx cy cz gamma (Rabs i) (Rabs j) (Rabs k).
Proof. intros. rewrite !gen_G_values_eq. apply igf_abs. Qed.

Open Scope Q_scope.

(** ** 2. the kick step of track *)
Lemma gen_grid_dimensions_eq : forall ex ey et sx sy st : Q,
  gen_grid_dimensions ex ey et sx sy st = grid_dims_spec ex ey et sx sy st.
Proof. reflexivity. Qed.

Lemma gen_cell_size_eq : forall ex ey et sx sy st nx ny nz : Q,
  gen_cell_size ex ey et sx sy st nx ny nz = cell_size_spec (gen_grid_dimensions ex ey et sx sy st) nx ny nz.
Proof. reflexivity. Qed.

(* the two arguments handed to _compute_forces are the geometry [sc_geom] *)
Lemma gen_geometry_eq : forall (ex ey et sx sy st : Q) (nx ny nz : Z),
  mkgeom (gen_grid_dimensions ex ey et sx sy st)
         (gen_cell_size ex ey et sx sy st (inject_Z nx) (inject_Z ny) (inject_Z nz)) (nx, ny, nz)
  = sc_geom ex ey et sx sy st (nx, ny, nz).
Proof. reflexivity. Qed.

(* what this geometry means for the deposition of Cic.v: the normalised position of a particle sitting at -grid_dimensions is 0 and
   at +grid_dimensions it is n - 1, the last grid point, on every axis *)
Lemma span_aux : forall d n : Q, ~ d == 0 -> ~ n == 1 -> (d + d) * / (2 * d / (n - 1)) == n - 1.
Proof.
  intros d n Hd Hn. assert (Hn' : ~ n - 1 == 0) by (intro H; apply Hn; rewrite <- (Qplus_0_r 1), <- H; ring).
  field. auto.
Qed.

Lemma zero_aux : forall d c : Q, (- d + d) * / c == 0.
Proof. intros. ring. Qed.

Lemma gen_geometry_span : forall (ex ey et sx sy st : Q) (nx ny nz : Z) (p : spart),
  let g := mkgeom (gen_grid_dimensions ex ey et sx sy st)
                  (gen_cell_size ex ey et sx sy st (inject_Z nx) (inject_Z ny) (inject_Z nz)) (nx, ny, nz) in
  ~ ex * sx == 0 -> ~ ey * sy == 0 -> ~ et * st == 0 ->
  ~ inject_Z nx == 1 -> ~ inject_Z ny == 1 -> ~ inject_Z nz == 1 ->
  (let '(a, b, c) := nrm g (mksp (- (ex * sx)) (s_px p) (- (ey * sy)) (s_py p) (- (et * st)) (s_pz p) (s_q p) (s_s p)) in
   a == 0 /\ b == 0 /\ c == 0) /\
  (let '(a, b, c) := nrm g (mksp (ex * sx) (s_px p) (ey * sy) (s_py p) (et * st) (s_pz p) (s_q p) (s_s p)) in
   a == inject_Z nx - 1 /\ b == inject_Z ny - 1 /\ c == inject_Z nz - 1).
Proof.
  intros ex ey et sx sy st nx ny nz p g Hx Hy Ht Nx Ny Nt.
  unfold g, nrm, gen_grid_dimensions, gen_cell_size. cbn [g_dim g_cell s_x s_y s_z].
  split; (split; [|split]); first [apply zero_aux | apply span_aux; assumption].
Qed.

Section Kick.
Variable solve : nat -> (idx -> Q) -> idx -> Q.

(* the seven columns after the kick are those of kick_one, with dt = dt_of L c beta, when the three abstract force arguments are
   the gathered forces of Cic.v; columns 0, 2, 4 and 6 are returned untouched *)
Lemma gen_kick_eq : forall (g : geom) (e L c beta one : Q) (ps : list spart) (p : spart),
  gen_kick (s_x p) (s_px p) (s_y p) (s_py p) (s_z p) (s_pz p) one
           (gather g e (solve 0%nat (rho g ps)) p) (gather g e (solve 1%nat (rho g ps)) p) (gather g e (solve 2%nat (rho g ps)) p)
           L c beta
  = cols7 (kick_one solve g e (dt_of L c beta) ps p) one.
Proof. reflexivity. Qed.

(* the same with the forces left abstract: px += F_x dt, py += F_y dt, pz += F_z dt, nothing else *)
Lemma gen_kick_columns : forall x0 x1 x2 x3 x4 x5 x6 f0 f1 f2 L c beta : Q,
  gen_kick x0 x1 x2 x3 x4 x5 x6 f0 f1 f2 L c beta
  = (x0, x1 + f0 * dt_of L c beta, x2, x3 + f1 * dt_of L c beta, x4, x5 + f2 * dt_of L c beta, x6).
Proof. reflexivity. Qed.
End Kick.

(** ** 3. _E_plus_vB_field = field (grad ..) with igamma2 = ig2_of gamma, at every grid index (boundary planes included) *)
Lemma ig2_aux : forall gamma : Q,
  (if Qeq_bool gamma 0 then 0 else 1 / gamma ^ 2) == ig2_of gamma.
Proof.
  intros. unfold ig2_of. destruct (Qeq_bool gamma 0); [reflexivity|].
  change (gamma ^ 2) with (gamma * gamma). unfold Qdiv. ring.
Qed.

Lemma gen_E_plus_vB_field_eq : forall (nx ny nz : nat) (cx cy cz gamma : Q) (phi : grid) (i j k : nat),
  let '(fx, fy, ft) := gen_E_plus_vB_field nx ny nz cx cy cz gamma phi i j k in
  fx == field (nx, ny, nz) (cx, cy, cz) (ig2_of gamma) 0 phi i j k /\
  fy == field (nx, ny, nz) (cx, cy, cz) (ig2_of gamma) 1 phi i j k /\
  ft == field (nx, ny, nz) (cx, cy, cz) (ig2_of gamma) 2 phi i j k.
Proof.
  intros. unfold gen_E_plus_vB_field, field, grad, interior.
  rewrite !ig2_aux.
  split; [|split].
  - destruct ((1 <=? i)%nat && (i + 1 <? nx)%nat); unfold Qdiv; ring.
  - destruct ((1 <=? j)%nat && (j + 1 <? ny)%nat); unfold Qdiv; ring.
  - destruct ((1 <=? k)%nat && (k + 1 <? nz)%nat); unfold Qdiv; ring.
Qed.

(** ** 4. cloud-in-cell: _deposit_charge_on_grid and _compute_forces, per sample and per particle *)
Lemma floor_mul_aux : forall a c : Q, Qfloor (a * (1 / c)) = Qfloor (a * / c).
Proof. intros. apply Qfloor_comp. unfold Qdiv. ring. Qed.

Ltac cic_model :=
  cbv beta iota delta [deposit_terms geom_of sp_of corners cell_of nrm offsets List.map g_dim g_cell g_shape
                       s_x s_y s_z s_q s_s valid gather];
  rewrite ?Z.add_0_r.
Ltac cic_weight := unfold cw; rewrite ?w1_floor, ?w1_floor1; unfold Qdiv; ring.

(* the code's weights (1 - fraction / fraction, written without abs) are the model's products of 1 - |n - i| *)
Lemma gen_deposit_weights_eq : forall x y z dx dy dz cx cy cz nx ny nz,
  let g := geom_of dx dy dz cx cy cz nx ny nz in let p := sp_of x y z 0 0 in
  Forall2 Qeq (gen_deposit_weights x y z dx dy dz cx cy cz nx ny nz) (List.map (cw (nrm g p)) (corners (cell_of (nrm g p)))).
Proof.
  intros. unfold g, p, gen_deposit_weights. rewrite !floor_mul_aux. cic_model.
  repeat (apply Forall2_cons || apply Forall2_nil); cic_weight.
Qed.

Lemma gen_gather_weights_eq : forall x y z dx dy dz cx cy cz nx ny nz,
  let g := geom_of dx dy dz cx cy cz nx ny nz in let p := sp_of x y z 0 0 in
  Forall2 Qeq (gen_gather_weights x y z dx dy dz cx cy cz nx ny nz) (List.map (cw (nrm g p)) (corners (cell_of (nrm g p)))).
Proof.
  intros. unfold g, p, gen_gather_weights. unfold Qdiv. cic_model.
  repeat (apply Forall2_cons || apply Forall2_nil); cic_weight.
Qed.

(* deposition and gathering use the same weights *)
Lemma gen_weights_shared : forall x y z dx dy dz cx cy cz nx ny nz,
  Forall2 Qeq (gen_deposit_weights x y z dx dy dz cx cy cz nx ny nz) (gen_gather_weights x y z dx dy dz cx cy cz nx ny nz).
Proof.
  intros. unfold gen_deposit_weights, gen_gather_weights. rewrite !floor_mul_aux. unfold Qdiv.
  repeat (apply Forall2_cons || apply Forall2_nil); ring.
Qed.

(* the 8 entries of one particle: same grid indices (= corners (cell_of (nrm g p))), same validity (= valid), value = cw * (q * s) *)
Lemma gen_deposit_terms_eq : forall x y z dx dy dz cx cy cz nx ny nz q s,
  Forall2 entry_rel (gen_deposit_terms x y z dx dy dz cx cy cz nx ny nz q s)
                    (deposit_terms (geom_of dx dy dz cx cy cz nx ny nz) (sp_of x y z q s)).
Proof.
  intros. unfold gen_deposit_terms. rewrite !floor_mul_aux. cic_model.
  repeat (apply Forall2_cons || apply Forall2_nil); unfold entry_rel; cbn [fst snd];
    (split; [reflexivity | split; [reflexivity | cic_weight]]).
Qed.

Lemma hit_sum_rel : forall k l l', Forall2 entry_rel l l' -> hit_sum k l == hit_sum k l'.
Proof.
  intros k l l' H. induction H as [|a b l l' H HF IH]; [reflexivity|].
  unfold hit_sum in *. simpl. rewrite IH.
  destruct a as [[c v] x], b as [[c' v'] x']. destruct H as (H1 & H2 & H3). simpl in H1, H2, H3. subst.
  destruct (idx_eqb c' k && v'); rewrite ?H3; reflexivity.
Qed.

Lemma hit_sum_deposit_terms : forall g p k, hit_sum k (deposit_terms g p) == contrib g p k * (s_q p * s_s p).
Proof.
  intros. unfold hit_sum, deposit_terms, contrib. rewrite map_map.
  induction (corners (cell_of (nrm g p))) as [|c l IH]; simpl; [ring|].
  rewrite IH. destruct (idx_eqb c k && valid (g_shape g) c); ring.
Qed.

(* what index_put_(accumulate=True) adds at grid point k for one particle is contrib * charge * survival of THAT particle *)
Lemma gen_deposit_contrib : forall x y z dx dy dz cx cy cz nx ny nz q s k,
  hit_sum k (gen_deposit_terms x y z dx dy dz cx cy cz nx ny nz q s)
  == contrib (geom_of dx dy dz cx cy cz nx ny nz) (sp_of x y z q s) k * (q * s).
Proof. intros. rewrite (hit_sum_rel k _ _ (gen_deposit_terms_eq _ _ _ _ _ _ _ _ _ _ _ _ _ _)). apply hit_sum_deposit_terms. Qed.

Lemma gen_deposit_scale_eq : forall dx dy dz cx cy cz nx ny nz,
  gen_deposit_scale cx cy cz == inv_vol (geom_of dx dy dz cx cy cz nx ny nz).
Proof. intros. unfold gen_deposit_scale, inv_vol, geom_of. cbn [g_cell]. unfold Qdiv. ring. Qed.

(* the whole deposition: the accumulated grid times the normalisation is rho of Cic.v *)
Lemma gen_deposit_rho : forall dx dy dz cx cy cz nx ny nz (ps : list spart) k,
  rho (geom_of dx dy dz cx cy cz nx ny nz) ps k ==
  sumQ (List.map (fun p => hit_sum k (gen_deposit_terms (s_x p) (s_y p) (s_z p) dx dy dz cx cy cz nx ny nz (s_q p) (s_s p))) ps)
  * gen_deposit_scale cx cy cz.
Proof.
  intros. unfold rho. rewrite (gen_deposit_scale_eq dx dy dz cx cy cz nx ny nz).
  apply Qmult_comp; [|reflexivity]. apply sumQ_map_ext. intros p _.
  rewrite gen_deposit_contrib. reflexivity.
Qed.

Lemma clamp_id : forall i n : Z, (0 <=? i)%Z = true -> (i <? n)%Z = true -> Z.min (Z.max i 0) (n - 1) = i.
Proof. intros i n H1 H2. apply Z.leb_le in H1. apply Z.ltb_lt in H2. lia. Qed.

Ltac split_valid V :=
  repeat (let W := fresh "W" in apply andb_prop in V; destruct V as [V W]).
Ltac cic_gather_term :=
  let V := fresh "V" in
  match goal with
  | |- _ * (if ?b then _ else 0) == _ => destruct b eqn:V; [|ring]
  end;
  split_valid V; rewrite !clamp_id by assumption; cic_weight.

(* the 8 entries summed by scatter_add are Cic.gather, for each of the three force grids *)
Lemma gen_gather_terms_eq : forall x y z dx dy dz cx cy cz nx ny nz e (F0 F1 F2 : idx -> Q),
  let g := geom_of dx dy dz cx cy cz nx ny nz in let p := sp_of x y z 0 0 in
  let l := gen_gather_terms x y z dx dy dz cx cy cz nx ny nz e F0 F1 F2 in
  sumQ (List.map (fun t => fst (fst t)) l) == gather g e F0 p /\
  sumQ (List.map (fun t => snd (fst t)) l) == gather g e F1 p /\
  sumQ (List.map (fun t => snd t) l) == gather g e F2 p.
Proof.
  intros. unfold l, g, p, gen_gather_terms. unfold Qdiv. cic_model. unfold sumQ. cbn [List.map fst snd fold_right].
  split; [|split]; repeat (apply Qplus_comp; [|try reflexivity]); cic_gather_term.
Qed.
