(** Final statements of the translator tie for the space-charge kick (property C19): every definition regenerated from /repo's
    source text by harness/translate_sc.py (Gen/ScGen.v) equals the hand-written model (SpaceCharge/Igf.v, Cic.v, Hockney.v; the
    grid geometry, an input of Cic.v, is the reading fixed in Gen/ScGenBase.v).  Statements are spelled out; proofs are in
    Gen/ScGenEquiv.v.  Like that file, this one is compiled by harness/translate_stage_sc.py against the FRESH ScGen.v (import
    lines redirected; keep them on one line each).
    Reading of the statements: the kick step is per sample of the flattened vector dimension and per particle (the three
    interpolated force components are arguments); _E_plus_vB_field is per sample and per grid index (the potential grid is an
    argument). *)
From Coq Require Import Reals ZArith QArith Bool List.
From Cheetah Require Import SpaceCharge.Igf SpaceCharge.Cic SpaceCharge.Hockney Gen.ScGenBase.
From Cheetah.Gen Require Import ScGen.
From Cheetah.Gen Require Import ScGenEquiv.

Theorem trx_integrated_potential : forall x y tau : R,
  gen_integrated_potential x y tau = ipot x y tau.
Proof. exact gen_integrated_potential_eq. Qed.
Print Assumptions trx_integrated_potential.

Theorem trx_G_values : forall cx cy cz gamma i j k : R,
  gen_G_values cx cy cz gamma i j k = igf cx cy (cz * gamma) i j k.
Proof. exact gen_G_values_eq. Qed.
Print Assumptions trx_G_values.

(* hence the values copied into the mirrored parts of the doubled array only depend on the absolute index offsets *)
Theorem trx_G_values_even : forall cx cy cz gamma i j k : R,
  gen_G_values cx cy cz gamma i j k = gen_G_values cx cy cz gamma (Rabs i) (Rabs j) (Rabs k).
Proof. exact gen_G_values_abs. Qed.
Print Assumptions trx_G_values_even.

Open Scope Q_scope.

Theorem trx_grid_dimensions : forall ex ey et sx sy st : Q,
  gen_grid_dimensions ex ey et sx sy st = (ex * sx, ey * sy, et * st).
Proof. exact gen_grid_dimensions_eq. Qed.
Print Assumptions trx_grid_dimensions.

Theorem trx_cell_size : forall ex ey et sx sy st nx ny nz : Q,
  gen_cell_size ex ey et sx sy st nx ny nz =
  (2 * (ex * sx) / (nx - 1), 2 * (ey * sy) / (ny - 1), 2 * (et * st) / (nz - 1)).
Proof. exact gen_cell_size_eq. Qed.
Print Assumptions trx_cell_size.

Theorem trx_geometry : forall (ex ey et sx sy st : Q) (nx ny nz : Z),
  mkgeom (gen_grid_dimensions ex ey et sx sy st)
         (gen_cell_size ex ey et sx sy st (inject_Z nx) (inject_Z ny) (inject_Z nz)) (nx, ny, nz)
  = sc_geom ex ey et sx sy st (nx, ny, nz).
Proof. exact gen_geometry_eq. Qed.
Print Assumptions trx_geometry.

Theorem trx_geometry_span : forall (ex ey et sx sy st : Q) (nx ny nz : Z) (p : spart),
  let g := mkgeom (gen_grid_dimensions ex ey et sx sy st)
                  (gen_cell_size ex ey et sx sy st (inject_Z nx) (inject_Z ny) (inject_Z nz)) (nx, ny, nz) in
  ~ ex * sx == 0 -> ~ ey * sy == 0 -> ~ et * st == 0 ->
  ~ inject_Z nx == 1 -> ~ inject_Z ny == 1 -> ~ inject_Z nz == 1 ->
  (let '(a, b, c) := nrm g (mksp (- (ex * sx)) (s_px p) (- (ey * sy)) (s_py p) (- (et * st)) (s_pz p) (s_q p) (s_s p)) in
   a == 0 /\ b == 0 /\ c == 0) /\
  (let '(a, b, c) := nrm g (mksp (ex * sx) (s_px p) (ey * sy) (s_py p) (et * st) (s_pz p) (s_q p) (s_s p)) in
   a == inject_Z nx - 1 /\ b == inject_Z ny - 1 /\ c == inject_Z nz - 1).
Proof. exact gen_geometry_span. Qed.
Print Assumptions trx_geometry_span.

Theorem trx_kick : forall (solve : nat -> (idx -> Q) -> idx -> Q) (g : geom) (e L c beta one : Q) (ps : list spart) (p : spart),
  gen_kick (s_x p) (s_px p) (s_y p) (s_py p) (s_z p) (s_pz p) one
           (gather g e (solve 0%nat (rho g ps)) p) (gather g e (solve 1%nat (rho g ps)) p) (gather g e (solve 2%nat (rho g ps)) p)
           L c beta
  = (let q := kick_one solve g e (dt_of L c beta) ps p in (s_x q, s_px q, s_y q, s_py q, s_z q, s_pz q, one)).
Proof. exact gen_kick_eq. Qed.
Print Assumptions trx_kick.

Theorem trx_kick_columns : forall x0 x1 x2 x3 x4 x5 x6 f0 f1 f2 L c beta : Q,
  gen_kick x0 x1 x2 x3 x4 x5 x6 f0 f1 f2 L c beta
  = (x0, x1 + f0 * dt_of L c beta, x2, x3 + f1 * dt_of L c beta, x4, x5 + f2 * dt_of L c beta, x6).
Proof. exact gen_kick_columns. Qed.
Print Assumptions trx_kick_columns.

Theorem trx_E_plus_vB_field : forall (nx ny nz : nat) (cx cy cz gamma : Q) (phi : nat -> nat -> nat -> Q) (i j k : nat),
  let '(fx, fy, ft) := gen_E_plus_vB_field nx ny nz cx cy cz gamma phi i j k in
  fx == field (nx, ny, nz) (cx, cy, cz) (ig2_of gamma) 0 phi i j k /\
  fy == field (nx, ny, nz) (cx, cy, cz) (ig2_of gamma) 1 phi i j k /\
  ft == field (nx, ny, nz) (cx, cy, cz) (ig2_of gamma) 2 phi i j k.
Proof. exact gen_E_plus_vB_field_eq. Qed.
Print Assumptions trx_E_plus_vB_field.

(** cloud-in-cell code (_deposit_charge_on_grid, _compute_forces), per sample and per particle.  [geom_of dx dy dz cx cy cz nx ny nz]
    is the geometry (grid_dimensions, cell_size, grid_shape); [sp_of x y z q s] a particle at (x, y, z) with charge q and survival s. *)
Theorem trx_deposit_terms : forall x y z dx dy dz cx cy cz nx ny nz q s,
  Forall2 (fun a b : (Z * Z * Z) * bool * Q => fst (fst a) = fst (fst b) /\ snd (fst a) = snd (fst b) /\ snd a == snd b)
    (gen_deposit_terms x y z dx dy dz cx cy cz nx ny nz q s)
    (let g := mkgeom (dx, dy, dz) (cx, cy, cz) (nx, ny, nz) in let p := mksp x 0 y 0 z 0 q s in
     List.map (fun c => (c, valid (g_shape g) c, cw (nrm g p) c * (q * s))) (corners (cell_of (nrm g p)))).
Proof. exact gen_deposit_terms_eq. Qed.
Print Assumptions trx_deposit_terms.

Theorem trx_deposit_contrib : forall x y z dx dy dz cx cy cz nx ny nz q s (k : Z * Z * Z),
  sumQ (List.map (fun e : (Z * Z * Z) * bool * Q => let '(c, v, w) := e in if idx_eqb c k && v then w else 0)
                 (gen_deposit_terms x y z dx dy dz cx cy cz nx ny nz q s))
  == contrib (mkgeom (dx, dy, dz) (cx, cy, cz) (nx, ny, nz)) (mksp x 0 y 0 z 0 q s) k * (q * s).
Proof. exact gen_deposit_contrib. Qed.
Print Assumptions trx_deposit_contrib.

Theorem trx_deposit_scale : forall dx dy dz cx cy cz nx ny nz,
  gen_deposit_scale cx cy cz == inv_vol (mkgeom (dx, dy, dz) (cx, cy, cz) (nx, ny, nz)).
Proof. exact gen_deposit_scale_eq. Qed.
Print Assumptions trx_deposit_scale.

Theorem trx_deposit_rho : forall dx dy dz cx cy cz nx ny nz (ps : list spart) (k : Z * Z * Z),
  rho (mkgeom (dx, dy, dz) (cx, cy, cz) (nx, ny, nz)) ps k ==
  sumQ (List.map (fun p => hit_sum k (gen_deposit_terms (s_x p) (s_y p) (s_z p) dx dy dz cx cy cz nx ny nz (s_q p) (s_s p))) ps)
  * gen_deposit_scale cx cy cz.
Proof. exact gen_deposit_rho. Qed.
Print Assumptions trx_deposit_rho.

Theorem trx_deposit_weights : forall x y z dx dy dz cx cy cz nx ny nz,
  Forall2 Qeq (gen_deposit_weights x y z dx dy dz cx cy cz nx ny nz)
    (let g := mkgeom (dx, dy, dz) (cx, cy, cz) (nx, ny, nz) in let p := mksp x 0 y 0 z 0 0 0 in
     List.map (cw (nrm g p)) (corners (cell_of (nrm g p)))).
Proof. exact gen_deposit_weights_eq. Qed.
Print Assumptions trx_deposit_weights.

Theorem trx_gather_weights : forall x y z dx dy dz cx cy cz nx ny nz,
  Forall2 Qeq (gen_gather_weights x y z dx dy dz cx cy cz nx ny nz)
    (let g := mkgeom (dx, dy, dz) (cx, cy, cz) (nx, ny, nz) in let p := mksp x 0 y 0 z 0 0 0 in
     List.map (cw (nrm g p)) (corners (cell_of (nrm g p)))).
Proof. exact gen_gather_weights_eq. Qed.
Print Assumptions trx_gather_weights.

Theorem trx_weights_shared : forall x y z dx dy dz cx cy cz nx ny nz,
  Forall2 Qeq (gen_deposit_weights x y z dx dy dz cx cy cz nx ny nz) (gen_gather_weights x y z dx dy dz cx cy cz nx ny nz).
Proof. exact gen_weights_shared. Qed.
Print Assumptions trx_weights_shared.

Theorem trx_gather_terms : forall x y z dx dy dz cx cy cz nx ny nz e (F0 F1 F2 : Z * Z * Z -> Q),
  let g := mkgeom (dx, dy, dz) (cx, cy, cz) (nx, ny, nz) in let p := mksp x 0 y 0 z 0 0 0 in
  let l := gen_gather_terms x y z dx dy dz cx cy cz nx ny nz e F0 F1 F2 in
  sumQ (List.map (fun t => fst (fst t)) l) == gather g e F0 p /\
  sumQ (List.map (fun t => snd (fst t)) l) == gather g e F1 p /\
  sumQ (List.map (fun t => snd t) l) == gather g e F2 p.
Proof. exact gen_gather_terms_eq. Qed.
Print Assumptions trx_gather_terms.
