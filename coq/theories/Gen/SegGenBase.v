(** Support for the GENERATED transcription of the structural (control-flow) code of
    cheetah/accelerator/segment.py and of Element.track (Gen/SegGen.v, written by harness/translate_seg.py from
    /repo's source text) and for the proofs that it coincides with the hand-written models Lattice/*.v
    (Gen/SegGenEquiv.v).  This file fixes the READING of the Python control constructs; it is part of the trusted
    base of the second tie and is quoted in the docstring of harness/translate_seg.py.

      exc A                       result of a Python computation: [Ok a] or [Raise] (some exception: IndexError,
                                  AttributeError, TypeError ..; which one is not recorded)
      x <- m ;; k                 sequencing (left-to-right evaluation; the first exception wins)
      loop f xs s                 `for x in xs: body` over the tuple [s] of the local variables the body assigns;
                                  the body ends in [Next s'] (fall through / `continue`) or [Break s'] (`break`)
      obj = Ref e | New e         an item of a local list through which the function MUTATES an element
                                  (`todos[-1].elements.append(x)`): [Ref e] is an object of the lattice (shared with
                                  the caller), [New e] an object constructed in this call and reachable only through
                                  this list slot.  Mutating a [Ref] is outside the functional reading: [Raise].
      last_item l / item l k      l[-1] / l[k]   (IndexError = Raise)
      need o                      a value that may be Python's None used where a tensor is required (TypeError) *)
From Coq Require Import List Bool String Arith.
From Cheetah Require Import Lattice.Track.
Import ListNotations.

Set Implicit Arguments.

Inductive exc (A : Type) : Type := Ok (a : A) | Raise.
Arguments Raise {A}.

Definition bind {A C : Type} (m : exc A) (f : A -> exc C) : exc C :=
  match m with Ok a => f a | Raise => Raise end.

Declare Scope exc_scope.
Delimit Scope exc_scope with exc.
Notation "x <- m ;; k" := (bind m (fun x => k)) (at level 61, m at next level, right associativity) : exc_scope.
Open Scope exc_scope.

Inductive ctl (S : Type) : Type := Next (s : S) | Break (s : S).

Fixpoint loop {S A : Type} (f : S -> A -> exc (ctl S)) (xs : list A) (s : S) : exc S :=
  match xs with
  | [] => Ok s
  | x :: r => match f s x with
              | Ok (Next s') => loop f r s'
              | Ok (Break s') => Ok s'
              | Raise => Raise
              end
  end.

(* comprehensions whose element expression / condition may raise *)
Fixpoint mapM {A C : Type} (f : A -> exc C) (xs : list A) : exc (list C) :=
  match xs with
  | [] => Ok []
  | x :: r => y <- f x ;; ys <- mapM f r ;; Ok (y :: ys)
  end.
Fixpoint filterM {A : Type} (f : A -> exc bool) (xs : list A) : exc (list A) :=
  match xs with
  | [] => Ok []
  | x :: r => c <- f x ;; ys <- filterM f r ;; Ok (if c then x :: ys else ys)
  end.

Definition need {A : Type} (o : option A) : exc A := match o with Some a => Ok a | None => Raise end.
Definition item {A : Type} (l : list A) (k : nat) : exc A := need (nth_error l k).
Fixpoint last_item {A : Type} (l : list A) : exc A :=
  match l with [] => Raise | [x] => Ok x | _ :: r => last_item r end.
Fixpoint set_last {A : Type} (l : list A) (y : A) : list A :=
  match l with [] => [] | [_] => [y] | x :: r => x :: set_last r y end.
(* truth value of a list *)
Definition nonempty {A : Type} (l : list A) : bool := match l with [] => false | _ => true end.

(* sep.join(strings) *)
Fixpoint join_with (sep : string) (l : list string) : string :=
  match l with
  | [] => EmptyString
  | [a] => a
  | a :: r => String.append a (String.append sep (join_with sep r))
  end.

Section Objects.
Variable L : Type.
Notation elem := (elem L).

Inductive obj : Type := Ref (e : elem) | New (e : elem).
Definition val (o : obj) : elem := match o with Ref e => e | New e => e end.

(* isinstance(x, Segment) *)
Definition is_segment (e : elem) : bool := match e with Seg _ _ => true | Leaf _ => false end.
(* x.elements : only a Segment has the attribute *)
Definition elements_of (e : elem) : exc (list elem) := match e with Seg _ es => Ok es | Leaf _ => Raise end.
(* o.elements.append(x) on an item of an object list *)
Definition obj_elements_append (o : obj) (x : elem) : exc obj :=
  match o with
  | New (Seg n es) => Ok (New (Seg n (es ++ [x])))
  | New (Leaf _) => Raise        (* AttributeError *)
  | Ref _ => Raise               (* would modify an object of the caller's lattice: outside the functional reading *)
  end.
End Objects.
Arguments Ref {L} e.
Arguments New {L} e.

(** Element.track in the abstraction of Lattice/Track.v ([app] IS "Element.track with the map tm"):
      tm = self.transfer_map(incoming.energy) ; <new beam from tm and incoming>
    [self_tm] is the dynamic dispatch of `self.transfer_map`; a result None where a tensor is needed raises.
    The two concrete branches of the body are tied to Beam/Moments.v separately (lemmas gen_Element_track_param, gen_Element_track_part). *)
Definition Element_track {M B E : Type} (app : M -> B -> B) (en : B -> E)
           (self_tm : E -> exc (option M)) (incoming : B) : exc B :=
  o <- self_tm (en incoming) ;; tm <- need o ;; Ok (app tm incoming).

(** ---------------------------------------------------------------- lemmas about the combinators *)
Lemma bind_ok {A C} (a : A) (f : A -> exc C) : bind (Ok a) f = f a.
Proof. reflexivity. Qed.

Lemma loop_pure {S A} (g : S -> A -> S) xs s :
  loop (fun s x => Ok (Next (g s x))) xs s = Ok (fold_left g xs s).
Proof. revert s. induction xs as [|x r IH]; intro s; cbn; [reflexivity|apply IH]. Qed.

Lemma loop_ext {S A} (f g : S -> A -> exc (ctl S)) xs s :
  (forall s x, f s x = g s x) -> loop f xs s = loop g xs s.
Proof. intro H. revert s. induction xs as [|x r IH]; intro s; cbn; [reflexivity|]. rewrite H. destruct (g s x) as [[s'|s']|]; auto. Qed.

Lemma mapM_pure {A C} (g : A -> C) xs : mapM (fun x => Ok (g x)) xs = Ok (map g xs).
Proof. induction xs as [|x r IH]; cbn; [reflexivity|]. rewrite IH. reflexivity. Qed.

Lemma filterM_pure {A} (g : A -> bool) xs : filterM (fun x => Ok (g x)) xs = Ok (filter g xs).
Proof. induction xs as [|x r IH]; cbn; [reflexivity|]. rewrite IH. cbn. destruct (g x); reflexivity. Qed.

Lemma mapM_ext {A C} (f g : A -> exc C) xs : (forall x, f x = g x) -> mapM f xs = mapM g xs.
Proof. intro H. induction xs as [|x r IH]; cbn; [reflexivity|]. rewrite H, IH. reflexivity. Qed.

Lemma filterM_ext {A} (f g : A -> exc bool) xs : (forall x, f x = g x) -> filterM f xs = filterM g xs.
Proof. intro H. induction xs as [|x r IH]; cbn; [reflexivity|]. rewrite H, IH. reflexivity. Qed.

Lemma last_item_snoc {A} (l : list A) x : last_item (l ++ [x]) = Ok x.
Proof.
  induction l as [|a r IH]; cbn; [reflexivity|].
  destruct (r ++ [x]) eqn:Hr; [destruct r; discriminate|]. exact IH.
Qed.

Lemma set_last_snoc {A} (l : list A) x y : set_last (l ++ [x]) y = l ++ [y].
Proof.
  induction l as [|a r IH]; cbn; [reflexivity|].
  destruct (r ++ [x]) eqn:Hr; [destruct r; discriminate|]. rewrite IH. reflexivity.
Qed.

Lemma nonempty_snoc {A} (l : list A) x : nonempty (l ++ [x]) = true.
Proof. destruct l; reflexivity. Qed.

Lemma fold_left_map {A C S} (g : S -> C -> S) (h : A -> C) xs s :
  fold_left g (map h xs) s = fold_left (fun a x => g a (h x)) xs s.
Proof. revert s. induction xs as [|x r IH]; intro s; cbn; [reflexivity|apply IH]. Qed.
