(** Equivalence of the GENERATED transcription of segment.py / Element.track (Gen/SegGen.v, regenerated from /repo's
    source text on every run) with the hand-written models Lattice/Track.v, Merge.v, Filter.v and Beam/Moments.v.

    Every lemma [gen_<Class>_<method>_eq] instantiates the dynamic-dispatch variables of the generated definition
    with the model's functions and states  generated = Ok (model ..):  the Seg-case unfolding equation of the model
    ("the model is the solution of the class-dispatch equations"), together with the fact that the structural code
    raises no exception of its own (IndexError on l[-1] / l[0], AttributeError on .elements / .is_active, None used
    as a tensor, mutation of a lattice object). *)
From Coq Require Import List Bool String Arith Lia.
From Cheetah Require Import Base.Mat Lattice.Track Lattice.TrackProofs Lattice.Merge Lattice.MergeProofs Lattice.Filter
  Beam.Moments Gen.SegGenBase.
From Cheetah.Gen Require Import SegGen.
Import ListNotations.
Open Scope exc_scope.
Open Scope string_scope.
Open Scope list_scope.

Section Equiv.
Variables (M B E L Len Res : Type).
Variable one : M.
Variable mul : M -> M -> M.
Variable app : M -> B -> B.
Variable en : B -> E.
Variable skip : L -> bool.
Variable tmap : L -> E -> M.
Variable ltrack : L -> B -> B.
Variable lname : L -> string.
Variable llen : L -> Len.
Variable lzero : Len.
Variable ladd : Len -> Len -> Len.

Notation elem := (elem L).
Notation obj := (obj L).
Notation skippable := (skippable skip).
Notation emap := (emap one mul tmap).
Notation runmap := (runmap one mul tmap).
Notation flush := (flush one mul app en tmap).
Notation track := (track one mul app en skip tmap ltrack).
Notation ename := (ename lname).
Notation elen := (elen llen lzero ladd).
Notation group := (group skip).
Notation todo_track := (todo_track one mul app en skip tmap ltrack).

(** what `x.transfer_map(energy)` returns in the model: a leaf's map; a Segment's product, or None when the
    Segment is not skippable (segment.py: `else: return None`).  [emap] itself is total: it is only ever used on
    skippable runs. *)
Definition omap (e : elem) (x : E) : option M :=
  match e with
  | Leaf l => Some (tmap l x)
  | Seg _ es => if forallb skippable es then Some (emap e x) else None
  end.

Lemma omap_skippable : forall e x, skippable e = true -> omap e x = Some (emap e x).
Proof. intros [l|n es] x H; cbn in *; [reflexivity|]. rewrite H. reflexivity. Qed.

(** ------------------------------------------------------------------ Segment.is_skippable *)
Lemma gen_Segment_is_skippable_eq : forall n es,
  gen_Segment_is_skippable L skippable n es = Ok (skippable (Seg n es)).
Proof. reflexivity. Qed.

(** ------------------------------------------------------------------ Segment.length *)
Lemma gen_Segment_length_eq : forall n es,
  gen_Segment_length L Len lzero ladd elen n es = Ok (elen (Seg n es)).
Proof.
  intros n es. unfold gen_Segment_length. rewrite fold_left_map. reflexivity.
Qed.

(** ------------------------------------------------------------------ Segment.transfer_map *)
Lemma tm_loop : forall es x T, forallb skippable es = true ->
  loop (fun st_ element => tm <- need (omap element x) ;; Ok (Next (mul tm st_))) es T
  = Ok (fold_left (fun T e' => mul (emap e' x) T) es T).
Proof.
  induction es as [|e r IH]; intros x T H; cbn [loop fold_left]; [reflexivity|].
  cbn in H. apply andb_prop in H as [He Hr].
  rewrite (omap_skippable e x He). cbn. apply IH, Hr.
Qed.

Lemma gen_Segment_transfer_map_eq : forall n es x,
  gen_Segment_transfer_map M E L one mul skippable omap n es x = Ok (omap (Seg n es) x).
Proof.
  intros n es x. unfold gen_Segment_transfer_map. rewrite gen_Segment_is_skippable_eq. cbn [bind SegGenBase.bind].
  cbn [Track.skippable omap]. destruct (forallb skippable es) eqn:H; [|reflexivity].
  rewrite (tm_loop es x one H). reflexivity.
Qed.

(** ------------------------------------------------------------------ Segment.track *)
(* the object list the first loop of Segment.track builds for a grouping of the model *)
Definition otodo (t : todo L) : obj :=
  match t with TRun run => New (Seg "temporary_todo" run) | TOne e => Ref e end.
(* the pending run of the model is the last, still growing temporary segment *)
Definition orun (run : list elem) : list obj :=
  match run with [] => [] | _ => [New (Seg "temporary_todo" run)] end.
(* the list does not end in a skippable object *)
Definition ends_nonskip (ts : list obj) : Prop :=
  match last_item ts with Ok o => skippable (val o) = false | Raise => True end.

Notation track_body1 := (fun (st_ : list obj) (element : elem) =>
  if negb (skippable element) then Ok (Next (st_ ++ [Ref element]))
  else c_ <- (if negb (nonempty st_) then Ok true else o_ <- last_item st_ ;; Ok (negb (skippable (val o_)))) ;;
       if c_ then Ok (Next (st_ ++ [New (Seg "temporary_todo" [element])]))
       else o1 <- last_item st_ ;; o2 <- obj_elements_append o1 element ;; Ok (Next (set_last st_ o2))).

Lemma ends_nonskip_nil : ends_nonskip [].
Proof. exact I. Qed.
Lemma ends_nonskip_snoc : forall ts e, skippable e = false -> ends_nonskip (ts ++ [Ref e]).
Proof. intros ts e H. unfold ends_nonskip. rewrite last_item_snoc. exact H. Qed.

Lemma track_loop1 : forall es ts run,
  forallb skippable run = true -> ends_nonskip ts ->
  loop track_body1 es (ts ++ orun run) = Ok (ts ++ map otodo (group es run)).
Proof.
  induction es as [|e r IH]; intros ts run Hrun Hts; cbn [loop Track.group].
  - destruct run; reflexivity.
  - destruct (skippable e) eqn:He; cbn [negb].
    + (* skippable: open a temporary segment or extend the last one *)
      destruct run as [|e0 r0].
      * cbn [orun]. rewrite app_nil_r.
        assert (Hc : (if negb (nonempty ts) then Ok true else o_ <- last_item ts ;; Ok (negb (skippable (val o_)))) = Ok true).
        { unfold ends_nonskip in Hts. destruct ts as [|t0 tr]; [reflexivity|]. cbn [nonempty negb].
          destruct (last_item (t0 :: tr)) as [o|] eqn:Hl.
          - cbn [bind SegGenBase.bind]. rewrite Hts. reflexivity.
          - exfalso. clear -Hl. revert t0 Hl. induction tr as [|t1 tr' IHt]; intros t0 Hl; cbn in Hl; [discriminate|]. apply (IHt t1 Hl). }
        rewrite Hc. cbn [bind SegGenBase.bind].
        change (ts ++ [New (Seg "temporary_todo" [e])]) with (ts ++ orun ([] ++ [e])).
        apply IH; [cbn; rewrite He; reflexivity|exact Hts].
      * cbn [orun]. rewrite nonempty_snoc. cbn [negb]. rewrite last_item_snoc. cbn [bind SegGenBase.bind val].
        cbn [Track.skippable]. rewrite Hrun. cbn [negb obj_elements_append]. cbn [SegGenBase.bind]. rewrite set_last_snoc.
        assert (Ho : [New (Seg "temporary_todo" ((e0 :: r0) ++ [e]))] = orun ((e0 :: r0) ++ [e])) by reflexivity.
        rewrite Ho. apply IH; [|exact Hts]. rewrite forallb_app, Hrun. cbn. rewrite He. reflexivity.
    + (* not skippable: the element itself becomes a todo; a pending run is closed *)
      destruct run as [|e0 r0].
      * cbn [orun]. rewrite app_nil_r. cbn [map otodo].
        pose proof (IH (ts ++ [Ref e]) [] eq_refl (ends_nonskip_snoc ts e He)) as H0.
        cbn [orun] in H0. rewrite app_nil_r in H0. rewrite H0, <- app_assoc. reflexivity.
      * cbn [orun map otodo].
        pose proof (IH ((ts ++ [New (Seg "temporary_todo" (e0 :: r0))]) ++ [Ref e]) [] eq_refl
                       (ends_nonskip_snoc (ts ++ [New (Seg "temporary_todo" (e0 :: r0))]) e He)) as H0.
        cbn [orun] in H0. rewrite app_nil_r in H0. rewrite H0, <- !app_assoc. reflexivity.
Qed.

(* tracking through a todo object is the model's [todo_track], given that runs are skippable and non-empty *)
Lemma track_loop2 : forall g prev b, todos_ok skip g prev = true ->
  loop (fun (st_ : B) (todo : obj) => Ok (Next (track (val todo) st_))) (map otodo g) b = Ok (fold_left todo_track g b).
Proof.
  induction g as [|t g IH]; intros prev b Hok; cbn [map loop fold_left]; [reflexivity|].
  destruct t as [run|e]; cbn [todos_ok] in Hok.
  - apply andb_prop in Hok as [Hok Hg]. apply andb_prop in Hok as [Hok Hrun]. apply andb_prop in Hok as [_ Hne].
    cbn [otodo val TrackProofs.todo_track Track.track]. rewrite Hrun.
    assert (Hf : app (runmap run (en b)) b = flush run b) by (destruct run; [discriminate|reflexivity]).
    rewrite Hf. apply (IH true), Hg.
  - apply andb_prop in Hok as [_ Hg]. cbn [otodo val TrackProofs.todo_track]. apply (IH false), Hg.
Qed.

Lemma Element_track_segment : forall n es b, forallb skippable es = true ->
  Element_track app en (fun energy => gen_Segment_transfer_map M E L one mul skippable omap n es energy) b
  = Ok (app (runmap es (en b)) b).
Proof.
  intros n es b H. unfold Element_track. rewrite gen_Segment_transfer_map_eq. cbn [bind SegGenBase.bind omap].
  rewrite H. reflexivity.
Qed.

Lemma gen_Segment_track_eq : forall n es b,
  gen_Segment_track M B E L one mul app en skippable omap track n es b = Ok (track (Seg n es) b).
Proof.
  intros n es b. unfold gen_Segment_track. rewrite gen_Segment_is_skippable_eq. cbn [bind SegGenBase.bind Track.skippable].
  destruct (forallb skippable es) eqn:H.
  - rewrite (Element_track_segment n es b H). cbn [bind SegGenBase.bind Track.track]. rewrite H. reflexivity.
  - pose proof (track_loop1 es [] [] eq_refl ends_nonskip_nil) as H1. cbn [orun List.app] in H1.
    rewrite H1. cbn [bind SegGenBase.bind].
    rewrite (track_loop2 (group es []) false b (group_ok skip es [] eq_refl)). cbn [bind SegGenBase.bind].
    rewrite (track_group one mul app en skip tmap ltrack n es b H). reflexivity.
Qed.

(** ------------------------------------------------------------------ Segment.subcell *)
(* self.__class__(subcell): a new Segment with a generated name [uname] *)
Lemma gen_Segment_subcell_eq : forall uname n es start stop,
  gen_Segment_subcell L ename uname n es start stop = Ok (Seg uname (subcell lname es start stop)).
Proof.
  intros uname n es start stop. unfold gen_Segment_subcell. cbv zeta.
  match goal with |- context [loop ?f es _] =>
    assert (H : forall es acc i, exists i', loop f es (i, acc) = Ok (i', acc ++ subcell_go lname es start stop i)) end.
  { clear es. induction es as [|e r IH]; intros acc i; cbn [loop subcell_go].
    - exists i. rewrite app_nil_r. reflexivity.
    - destruct (String.eqb (ename e) start) eqn:Hs; destruct i; cbn [orb];
        destruct (String.eqb (ename e) stop) eqn:Ht;
        first [ eexists; rewrite ?app_nil_r; reflexivity
              | match goal with |- context [loop _ r (?j, ?a)] =>
                  destruct (IH a j) as [i' Hi]; exists i'; rewrite Hi, <- ?app_assoc; reflexivity end ]. }
  destruct (H es [] false) as [i' Hi]. rewrite Hi. reflexivity.
Qed.

(** ------------------------------------------------------------------ Segment.flattened *)
(* x.flattened(): only a Segment has the method *)
Definition dflat (e : elem) : exc elem :=
  match e with Seg _ _ => Ok (flattened e) | Leaf _ => Raise end.

Lemma gen_Segment_flattened_eq : forall n es,
  gen_Segment_flattened L dflat n es = Ok (flattened (Seg n es)).
Proof.
  intros n es. unfold gen_Segment_flattened. cbv zeta.
  match goal with |- context [loop ?f es _] =>
    assert (H : forall es acc, loop f es acc = Ok (acc ++ flat_map (@flat L) es)) end.
  { clear es. induction es as [|e r IH]; intros acc; cbn [loop flat_map].
    - rewrite app_nil_r. reflexivity.
    - destruct e as [l|m es']; cbn [is_segment dflat SegGenBase.bind flattened elements_of].
      + rewrite IH, <- app_assoc. reflexivity.
      + rewrite IH, <- app_assoc. reflexivity. }
  rewrite H. reflexivity.
Qed.

(** ------------------------------------------------------------------ Segment.transfer_maps_merged *)
Variable mkctm : M -> Len -> string -> L.
Notation from_merging := (from_merging one mul app en skip tmap ltrack lname llen lzero ladd mkctm).
Notation merged := (merged one mul app en skip tmap ltrack lname llen lzero ladd mkctm).
Notation mergeable := (mergeable skip lname).

(* `if except_for is None: except_for = []` *)
Definition exf (o : option (list string)) : list string := match o with Some l => l | None => [] end.

Lemma merged_loop : forall (f : list elem * list elem * B -> elem -> exc (ctl (list elem * list elem * B))) ex,
  (forall out run b e, f (run, out, b) e =
     if mergeable ex e then Ok (Next (run ++ [e], out, b))
     else if Nat.eqb (List.length run) 1
          then o <- item run 0 ;; o' <- item run 0 ;; Ok (Next ([], (out ++ [o]) ++ [e], track e (track o' b)))
          else if Nat.ltb 1 (List.length run)
               then o <- last_item (out ++ [from_merging run b]) ;;
                    Ok (Next ([], (out ++ [from_merging run b]) ++ [e], track e (track o b)))
               else Ok (Next ([], out ++ [e], track e b))) ->
  forall es out run b, exists out' run' b',
    loop f es (run, out, b) = Ok (run', out', b') /\
    (if Nat.ltb 0 (List.length run') then out' ++ [from_merging run' b'] else out') = out ++ merged ex es run b.
Proof.
  intros f ex Hf. induction es as [|e r IH]; intros out run b; cbn [loop Merge.merged].
  - exists out, run, b. split; [reflexivity|]. destruct run; cbn; rewrite ?app_nil_r; reflexivity.
  - rewrite Hf. destruct (mergeable ex e) eqn:Hm.
    + apply IH.
    + destruct run as [|e0 [|e1 r1]]; cbn [List.length Nat.eqb Nat.ltb Nat.leb item nth_error need SegGenBase.bind flush_m].
      * destruct (IH (out ++ [e]) [] (track e b)) as (o' & r' & b' & H1 & H2).
        exists o', r', b'. split; [exact H1|]. cbn [Nat.ltb Nat.leb] in H2. rewrite H2, <- app_assoc. reflexivity.
      * destruct (IH ((out ++ [e0]) ++ [e]) [] (track e (track e0 b))) as (o' & r' & b' & H1 & H2).
        exists o', r', b'. split; [exact H1|]. cbn [Nat.ltb Nat.leb] in H2. rewrite H2, <- !app_assoc. reflexivity.
      * rewrite last_item_snoc. cbn [SegGenBase.bind].
        destruct (IH ((out ++ [from_merging (e0 :: e1 :: r1) b]) ++ [e]) [] (track e (track (from_merging (e0 :: e1 :: r1) b) b)))
          as (o' & r' & b' & H1 & H2).
        exists o', r', b'. split; [exact H1|]. cbn [Nat.ltb Nat.leb] in H2. rewrite H2, <- !app_assoc. reflexivity.
Qed.

Lemma gen_Segment_transfer_maps_merged_eq : forall n es b oex,
  gen_Segment_transfer_maps_merged B L skippable ename track from_merging n es b oex
  = Ok (transfer_maps_merged one mul app en skip tmap ltrack lname llen lzero ladd mkctm (Seg n es) b (exf oex)).
Proof.
  intros n es b oex. unfold gen_Segment_transfer_maps_merged, transfer_maps_merged.
  assert (Hbody : forall ex (f : list elem * list elem * B -> elem -> exc (ctl (list elem * list elem * B))) (k : list elem * list elem * B -> exc elem),
    (forall out run b0 e, f (run, out, b0) e =
       if mergeable ex e then Ok (Next (run ++ [e], out, b0))
       else if Nat.eqb (List.length run) 1
            then o <- item run 0 ;; o' <- item run 0 ;; Ok (Next ([], (out ++ [o]) ++ [e], track e (track o' b0)))
            else if Nat.ltb 1 (List.length run)
                 then o <- last_item (out ++ [from_merging run b0]) ;;
                      Ok (Next ([], (out ++ [from_merging run b0]) ++ [e], track e (track o b0)))
                 else Ok (Next ([], out ++ [e], track e b0))) ->
    (forall out run b0, k (run, out, b0) = Ok (Seg n (if Nat.ltb 0 (List.length run) then out ++ [from_merging run b0] else out))) ->
    (st <- loop f es ([], [], b) ;; k st) = Ok (Seg n (merged ex es [] b))).
  { intros ex f k Hf Hk. destruct (merged_loop f ex Hf es [] [] b) as (o' & r' & b' & H1 & H2).
    rewrite H1. cbn [SegGenBase.bind]. rewrite Hk, H2. reflexivity. }
  destruct oex as [ex|]; cbv zeta; cbn [exf].
  - apply (Hbody ex).
    + intros out run b0 e. unfold Merge.mergeable, inex. destruct (skippable e && negb (existsb (String.eqb (ename e)) ex)); [reflexivity|].
      destruct (Nat.eqb (List.length run) 1); [reflexivity|]. destruct (Nat.ltb 1 (List.length run)); reflexivity.
    + intros out run b0. cbv beta iota. destruct (Nat.ltb 0 (List.length run)); reflexivity.
  - apply (Hbody []).
    + intros out run b0 e. unfold Merge.mergeable, inex. destruct (skippable e && negb (existsb (String.eqb (ename e)) [])); [reflexivity|].
      destruct (Nat.eqb (List.length run) 1); [reflexivity|]. destruct (Nat.ltb 1 (List.length run)); reflexivity.
    + intros out run b0. cbv beta iota. destruct (Nat.ltb 0 (List.length run)); reflexivity.
Qed.

(** ------------------------------------------------------------------ CustomTransferMap.from_merging_elements *)
Lemma join_with_us : forall l, join_with "_" l = join_us l.
Proof. induction l as [|a [|a' r] IH]; [reflexivity|reflexivity|]. cbn [join_with join_us] in *. rewrite IH. reflexivity. Qed.

(* on a non-empty run of skippable elements the classmethod returns the model's [from_merging] .. *)
Lemma gen_CustomTransferMap_from_merging_elements_eq : forall run b, run <> [] -> forallb skippable run = true ->
  gen_CustomTransferMap_from_merging_elements M B E L Len one mul en lzero ladd skippable ename elen omap track mkctm run b
  = Ok (from_merging run b).
Proof.
  intros run b Hne Hs. unfold gen_CustomTransferMap_from_merging_elements.
  change (forallb (fun element : elem => skippable element) run) with (forallb skippable run). rewrite Hs.
  destruct run as [|e0 r]; [contradiction|]. cbn [item nth_error need SegGenBase.bind].
  assert (He0 : skippable e0 = true) by (cbn in Hs; apply andb_prop in Hs; tauto).
  rewrite (omap_skippable e0 (en b) He0). cbn [need SegGenBase.bind]. cbv zeta.
  match goal with |- context [loop ?f (e0 :: r) _] =>
    assert (H : forall run T b0, forallb skippable run = true ->
      loop f run (T, b0) = Ok (merge_map one mul app en skip tmap ltrack run T b0, fold_left (fun b1 e => track e b1) run b0)) end.
  { induction run as [|e r' IH]; intros T b0 Hr; cbn [loop merge_map fold_left]; [reflexivity|].
    cbn in Hr. apply andb_prop in Hr as [He Hr]. rewrite (omap_skippable e (en b0) He). cbn [need SegGenBase.bind].
    apply IH, Hr. }
  rewrite (H (e0 :: r) one b Hs). cbn [SegGenBase.bind]. cbv beta iota.
  unfold Merge.from_merging, sum_len, combined_name. rewrite fold_left_map, join_with_us. reflexivity.
Qed.

(* .. and it raises on an empty run (elements[0]: IndexError) or when an element is not skippable (the assert);
   Merge.v's [from_merging] is total, Segment.transfer_maps_merged calls it on non-empty mergeable runs only
   (Lattice/MergeProofs.v, merged_blocks_ok) *)
Lemma gen_CustomTransferMap_from_merging_elements_raises : forall run b, run = [] \/ forallb skippable run = false ->
  gen_CustomTransferMap_from_merging_elements M B E L Len one mul en lzero ladd skippable ename elen omap track mkctm run b = Raise.
Proof.
  intros run b [H|H]; unfold gen_CustomTransferMap_from_merging_elements;
    change (forallb (fun element : elem => skippable element) run) with (forallb skippable run);
    [subst; reflexivity|rewrite H; reflexivity].
Qed.

(** ------------------------------------------------------------------ the three filters *)
Variable lmarker : L -> bool.
Variable lhas_active : L -> bool.
Variable lactive : L -> bool.
Variable len_anypos : Len -> bool.
Variable len_allzero : Len -> bool.
Variable mkdrift : Len -> string -> L.

(* hasattr(x, "is_active") and x.is_active for the model: a Segment has no such attribute *)
Definition ehas (e : elem) : bool := match e with Leaf l => lhas_active l | Seg _ _ => false end.
Definition eact (e : elem) : exc bool :=
  match e with Leaf l => if lhas_active l then Ok (lactive l) else Raise | Seg _ _ => Raise end.

Lemma active_idiom : forall e,
  (if ehas e then act <- eact e ;; Ok act else Ok false) = Ok (eactive lhas_active lactive e).
Proof. intros [l|n es]; cbn; [|reflexivity]. destruct (lhas_active l); reflexivity. Qed.

Lemma gen_Segment_without_inactive_markers_eq : forall n es oex,
  gen_Segment_without_inactive_markers L ename (is_marker lmarker) n es oex
  = Ok (without_inactive_markers lname lmarker (Seg n es) (exf oex)).
Proof. intros n es [ex|]; reflexivity. Qed.

Lemma gen_Segment_without_inactive_zero_length_elements_eq : forall n es oex,
  gen_Segment_without_inactive_zero_length_elements L Len ename elen ehas eact len_anypos n es oex
  = Ok (without_inactive_zero_length_elements lname llen lzero ladd lhas_active lactive len_anypos (Seg n es) (exf oex)).
Proof.
  intros n es oex. unfold gen_Segment_without_inactive_zero_length_elements, without_inactive_zero_length_elements, zero_length_removed.
  destruct oex as [ex|]; cbv zeta; cbn [exf];
    (erewrite filterM_ext; [rewrite filterM_pure; reflexivity|]; intro e; cbv beta;
     rewrite active_idiom; unfold keep_zero, inex; destruct (len_anypos (elen e)); reflexivity).
Qed.

Lemma gen_Segment_inactive_elements_as_drifts_eq : forall n es oex,
  gen_Segment_inactive_elements_as_drifts L Len ename elen ehas eact len_allzero mkdrift n es oex
  = Ok (inactive_elements_as_drifts lname llen lzero ladd lhas_active lactive len_allzero mkdrift (Seg n es) (exf oex)).
Proof.
  intros n es oex. unfold gen_Segment_inactive_elements_as_drifts, inactive_elements_as_drifts, as_drifts.
  destruct oex as [ex|]; cbv zeta; cbn [exf];
    (erewrite mapM_ext; [rewrite mapM_pure; reflexivity|]; intro e; cbv beta;
     rewrite active_idiom; reflexivity).
Qed.

(** ------------------------------------------------------------------ Segment.split, Segment.clone *)
(* the pieces of the elements, in order (Lattice/Split.v: split res (SSeg es) = flat_map (split res) es) *)
Lemma gen_Segment_split_eq : forall (dsplit : elem -> Res -> list elem) n es res,
  gen_Segment_split L Res dsplit n es res = Ok (flat_map (fun e => dsplit e res) es).
Proof. reflexivity. Qed.

(* a new Segment of the elements' clones under the same name *)
Lemma gen_Segment_clone_eq : forall (dclone : elem -> elem) n es,
  gen_Segment_clone L dclone n es = Ok (Seg n (map dclone es)).
Proof. reflexivity. Qed.

End Equiv.

(** ------------------------------------------------------------------ Element.track (both beam types) *)
Section ElementTrack.
Variable A : Type.
Variables (add amul : A -> A -> A).
Notation beam := (beam A).

Definition bapp (tm : M7 A) (b : beam) : beam :=
  match b with BParam q => BParam (app_param add amul tm q) | BPart p => BPart (app_part add amul tm p) end.
Definition ben (b : beam) : A := match b with BParam q => qE q | BPart p => pE p end.

(* Element.track is "apply the element's own transfer map, taken at the beam's energy": the form Track.v's [app]
   abstracts, with the two branches of Beam/Moments.v; all other fields are passed through *)
Lemma gen_Element_track_eq : forall (self_tm : A -> exc (option (M7 A))) (b : beam),
  gen_Element_track A add amul self_tm b = Element_track bapp ben self_tm b.
Proof.
  intros self_tm [q|p]; unfold gen_Element_track, Element_track; cbn [ben bapp];
    [destruct (self_tm (qE q)) as [[tm|]|]|destruct (self_tm (pE p)) as [[tm|]|]]; reflexivity.
Qed.

End ElementTrack.
