(** Final statements of the second tie for the lattice layer: the Coq transcription regenerated from the source text of
    cheetah/accelerator/segment.py and element.py (Gen/SegGen.v, harness/translate_seg.py) coincides with the
    hand-written models of Lattice/*.v that carry the theorems of C01, C08, C10 and C16.  Only statements closed by
    [exact] of a lemma of Gen/SegGenEquiv.v, each followed by [Print Assumptions]: all are closed under the global
    context (no axiom at all). *)
From Coq Require Import List Bool String.
From Cheetah Require Import Base.Mat Lattice.Track Lattice.TrackProofs Lattice.Merge Lattice.Filter Beam.Moments Gen.SegGenBase.
From Cheetah.Gen Require Import SegGen.
From Cheetah.Gen Require Import SegGenEquiv.
Import ListNotations.

Section Tie.
Variables (M B E L Len Res : Type) (one : M) (mul : M -> M -> M) (app : M -> B -> B) (en : B -> E).
Variables (skip : L -> bool) (tmap : L -> E -> M) (ltrack : L -> B -> B) (lname : L -> string).
Variables (llen : L -> Len) (lzero : Len) (ladd : Len -> Len -> Len).

Notation Skippable := (skippable skip).
Notation Track := (track one mul app en skip tmap ltrack).
Notation Omap := (omap M E L one mul skip tmap).

(* Segment.track, as written in segment.py (is_skippable shortcut through Element.track, the `todos` loop with its
   temporary segments, the tracking loop), is the model's [track] on a Seg node -- for every lattice and beam -- and
   raises no exception of its own *)
Theorem SEG_track : forall n (es : list (elem L)) b,
  gen_Segment_track M B E L one mul app en Skippable Omap Track n es b = Ok (Track (Seg n es) b).
Proof. exact (gen_Segment_track_eq M B E L one mul app en skip tmap ltrack). Qed.

Theorem SEG_is_skippable : forall n (es : list (elem L)),
  gen_Segment_is_skippable L Skippable n es = Ok (Skippable (Seg n es)).
Proof. exact (gen_Segment_is_skippable_eq L skip). Qed.

(* Segment.transfer_map: the ordered product (later elements on the left) when skippable, Python's None otherwise *)
Theorem SEG_transfer_map : forall n (es : list (elem L)) x,
  gen_Segment_transfer_map M E L one mul Skippable Omap n es x
  = Ok (if Skippable (Seg n es) then Some (emap one mul tmap (Seg n es) x) else None).
Proof. exact (gen_Segment_transfer_map_eq M E L one mul skip tmap). Qed.

Theorem SEG_length : forall n (es : list (elem L)),
  gen_Segment_length L Len lzero ladd (elen llen lzero ladd) n es = Ok (elen llen lzero ladd (Seg n es)).
Proof. exact (gen_Segment_length_eq L Len llen lzero ladd). Qed.

(* Segment.subcell(start, end): a new Segment (generated name [uname]) of the model's slice *)
Theorem SEG_subcell : forall uname n (es : list (elem L)) start stop,
  gen_Segment_subcell L (ename lname) uname n es start stop = Ok (Seg uname (subcell lname es start stop)).
Proof. exact (gen_Segment_subcell_eq L lname). Qed.

(* Segment.flattened, the recursive call `element.flattened()` being the model's [flattened] on nested segments *)
Theorem SEG_flattened : forall n (es : list (elem L)),
  gen_Segment_flattened L (dflat L) n es = Ok (flattened (Seg n es)).
Proof. exact (gen_Segment_flattened_eq L). Qed.

(* Segment.transfer_maps_merged(incoming_beam, except_for), CustomTransferMap.from_merging_elements being Merge.v's
   [from_merging] (its body is in custom_transfer_map.py and is not part of this tie) *)
Variable mkctm : M -> Len -> string -> L.
Theorem SEG_transfer_maps_merged : forall n (es : list (elem L)) b oex,
  gen_Segment_transfer_maps_merged B L Skippable (ename lname) Track
    (from_merging one mul app en skip tmap ltrack lname llen lzero ladd mkctm) n es b oex
  = Ok (transfer_maps_merged one mul app en skip tmap ltrack lname llen lzero ladd mkctm (Seg n es) b
          (match oex with Some ex => ex | None => [] end)).
Proof. exact (gen_Segment_transfer_maps_merged_eq M B E L Len one mul app en skip tmap ltrack lname llen lzero ladd mkctm). Qed.

(* CustomTransferMap.from_merging_elements (custom_transfer_map.py): on a non-empty run of skippable elements it is
   Merge.v's [from_merging] (maps multiplied in order, each taken at the energy of the beam tracked so far; lengths
   summed; name "combined_" + "_".join(names)); on an empty run or a non-skippable element it raises, where the
   model is total -- Segment.transfer_maps_merged calls it on non-empty mergeable runs only (MergeProofs.merged_blocks_ok) *)
Theorem CTM_from_merging_elements : forall (run : list (elem L)) b, run <> [] -> forallb Skippable run = true ->
  gen_CustomTransferMap_from_merging_elements M B E L Len one mul en lzero ladd Skippable (ename lname) (elen llen lzero ladd) Omap Track mkctm run b
  = Ok (from_merging one mul app en skip tmap ltrack lname llen lzero ladd mkctm run b).
Proof. exact (gen_CustomTransferMap_from_merging_elements_eq M B E L Len one mul app en skip tmap ltrack lname llen lzero ladd mkctm). Qed.

Theorem CTM_from_merging_elements_raises : forall (run : list (elem L)) b, run = [] \/ forallb Skippable run = false ->
  gen_CustomTransferMap_from_merging_elements M B E L Len one mul en lzero ladd Skippable (ename lname) (elen llen lzero ladd) Omap Track mkctm run b
  = Raise.
Proof. exact (gen_CustomTransferMap_from_merging_elements_raises M B E L Len one mul app en skip tmap ltrack lname llen lzero ladd mkctm). Qed.

(* the three filters *)
Variables (lmarker lhas_active lactive : L -> bool) (len_anypos len_allzero : Len -> bool) (mkdrift : Len -> string -> L).
Notation Ehas := (ehas L lhas_active).
Notation Eact := (eact L lhas_active lactive).

Theorem SEG_without_inactive_markers : forall n (es : list (elem L)) oex,
  gen_Segment_without_inactive_markers L (ename lname) (is_marker lmarker) n es oex
  = Ok (without_inactive_markers lname lmarker (Seg n es) (match oex with Some ex => ex | None => [] end)).
Proof. exact (gen_Segment_without_inactive_markers_eq L lname lmarker). Qed.

Theorem SEG_without_inactive_zero_length_elements : forall n (es : list (elem L)) oex,
  gen_Segment_without_inactive_zero_length_elements L Len (ename lname) (elen llen lzero ladd) Ehas Eact len_anypos n es oex
  = Ok (without_inactive_zero_length_elements lname llen lzero ladd lhas_active lactive len_anypos (Seg n es)
          (match oex with Some ex => ex | None => [] end)).
Proof. exact (gen_Segment_without_inactive_zero_length_elements_eq L Len lname llen lzero ladd lhas_active lactive len_anypos). Qed.

Theorem SEG_inactive_elements_as_drifts : forall n (es : list (elem L)) oex,
  gen_Segment_inactive_elements_as_drifts L Len (ename lname) (elen llen lzero ladd) Ehas Eact len_allzero mkdrift n es oex
  = Ok (inactive_elements_as_drifts lname llen lzero ladd lhas_active lactive len_allzero mkdrift (Seg n es)
          (match oex with Some ex => ex | None => [] end)).
Proof. exact (gen_Segment_inactive_elements_as_drifts_eq L Len lname llen lzero ladd lhas_active lactive len_allzero mkdrift). Qed.

(* Segment.split: the pieces of the elements in order; Segment.clone: the clones of the elements under the same name *)
Theorem SEG_split : forall (dsplit : elem L -> Res -> list (elem L)) n es res,
  gen_Segment_split L Res dsplit n es res = Ok (flat_map (fun e => dsplit e res) es).
Proof. exact (gen_Segment_split_eq L Res). Qed.

Theorem SEG_clone : forall (dclone : elem L -> elem L) n es,
  gen_Segment_clone L dclone n es = Ok (Seg n (map dclone es)).
Proof. exact (gen_Segment_clone_eq L). Qed.

End Tie.

(* Element.track (element.py): for a ParameterBeam  mu' = tm mu, cov' = tm cov tm^T,  for a ParticleBeam
   particles' = particles tm^T, energy / charges / survival probabilities passed through, with
   tm = self.transfer_map(incoming.energy): exactly Beam/Moments.v's [app_param] / [app_part] in the form
   "apply the own map at the beam's energy" that Track.v's [app] abstracts (SEG_track uses it through super().track) *)
Theorem ELEM_track : forall (A : Type) (add amul : A -> A -> A) (self_tm : A -> exc (option (M7 A))) (b : beam A),
  gen_Element_track A add amul self_tm b
  = match b with
    | BParam q => o <- self_tm (qE q) ;; tm <- need o ;; Ok (BParam (app_param add amul tm q))
    | BPart p => o <- self_tm (pE p) ;; tm <- need o ;; Ok (BPart (app_part add amul tm p))
    end%exc.
Proof. intros A add amul self_tm [q|p]; exact (gen_Element_track_eq A add amul self_tm _). Qed.

Print Assumptions SEG_track.
Print Assumptions SEG_is_skippable.
Print Assumptions SEG_transfer_map.
Print Assumptions SEG_length.
Print Assumptions SEG_subcell.
Print Assumptions SEG_flattened.
Print Assumptions SEG_transfer_maps_merged.
Print Assumptions CTM_from_merging_elements.
Print Assumptions CTM_from_merging_elements_raises.
Print Assumptions SEG_without_inactive_markers.
Print Assumptions SEG_without_inactive_zero_length_elements.
Print Assumptions SEG_inactive_elements_as_drifts.
Print Assumptions SEG_split.
Print Assumptions SEG_clone.
Print Assumptions ELEM_track.
