(** Support for the GENERATED transcription of cheetah's beam statistics and diagnostics (Gen/StatsGen.v, written
    by harness/translate_stats.py from /repo's source text) and for the proofs that it coincides with the
    hand-written models (Gen/StatsGenEquiv.v).

    [gsum f l] is the sample reading of  torch.sum(f, dim=-1)  over the particle axis: the particle axis is a list
    [l : list S] of samples of an arbitrary type S and a tensor along it is a function S -> R.  It is the [sumf] of
    Beam/WStats.v for an arbitrary sample type (convertible to it at S = smp). *)
From Coq Require Import Reals List Lra Lia.
From Cheetah Require Import Base.Mat Beam.WStats.
Import ListNotations.
Open Scope R_scope.

Definition gsum {S : Type} (f : S -> R) (l : list S) : R := fold_right (fun p acc => f p + acc) 0 l.

Lemma gsum_sumf (f : smp -> R) (l : list smp) : gsum f l = sumf f l.
Proof. reflexivity. Qed.
Lemma gsum_cons {S} (f : S -> R) p r : gsum f (p :: r) = f p + gsum f r.
Proof. reflexivity. Qed.
Lemma gsum_ext {S} (f g : S -> R) l : (forall p, f p = g p) -> gsum f l = gsum g l.
Proof. intro H. induction l as [|p r IH]; [reflexivity|]. rewrite !gsum_cons, H, IH. reflexivity. Qed.
Lemma gsum_map {S T} (f : T -> R) (g : S -> T) l : gsum f (map g l) = gsum (fun p => f (g p)) l.
Proof. induction l as [|p r IH]; [reflexivity|]. cbn [map]. rewrite !gsum_cons, IH. reflexivity. Qed.
Lemma gsum_scal {S} k (f : S -> R) l : gsum (fun p => k * f p) l = k * gsum f l.
Proof. induction l as [|p r IH]; [cbn; ring|]. rewrite !gsum_cons, IH. ring. Qed.

(** the sum over a zipped list is the sum of the zipped products (Beam/Moments.v [lsum]/[zipmul], Beam/WMoments.v) *)
Lemma gsum_combine_fst (ws : list R) {T} (xs : list T) :
  length ws = length xs -> gsum (fun p : R * T => fst p) (combine ws xs) = fold_right Rplus 0 ws.
Proof.
  revert xs. induction ws as [|w r IH]; intros [|x xs] H; try discriminate; [reflexivity|].
  cbn [combine fold_right]. rewrite gsum_cons. cbn [fst]. rewrite IH by (cbn in H; lia). reflexivity.
Qed.

Lemma pow2_mul (x : R) : x ^ 2 = x * x.
Proof. ring. Qed.

(** ** extended reals: the half sizes of an aperture (the constructor default is +inf) *)
Inductive xR := XFin (r : R) | XPInf | XNInf.
Inductive apshape := Rectangular | Elliptical.

Definition xopp (m : xR) : xR := match m with XFin r => XFin (- r) | XPInf => XNInf | XNInf => XPInf end.
(* m ** n for a literal n >= 1 (IEEE: (+inf)^n = +inf, (-inf)^n = +-inf by parity) *)
Definition xpow (m : xR) (n : nat) : xR :=
  match m with
  | XFin r => XFin (r ^ n)
  | XPInf => match n with O => XFin 1 | _ => XPInf end
  | XNInf => match n with O => XFin 1 | _ => if Nat.even n then XPInf else XNInf end
  end.
(* a / m for a finite a (IEEE: a / +-inf = +-0).  For m = XFin 0 IEEE yields +-inf or nan, which no real number
   represents: statements about xdiv are made for non-zero finite m only. *)
Definition xdiv (a : R) (m : xR) : R := match m with XFin r => a / r | _ => 0 end.
Definition Rltx (a : R) (m : xR) : Prop := match m with XFin r => a < r | XPInf => True | XNInf => False end.
Definition Rgtx (a : R) (m : xR) : Prop := match m with XFin r => a > r | XPInf => False | XNInf => True end.
Definition Rlex (a : R) (m : xR) : Prop := match m with XFin r => a <= r | XPInf => True | XNInf => False end.
Definition Rgex (a : R) (m : xR) : Prop := match m with XFin r => a >= r | XPInf => False | XNInf => True end.
Definition Rltx_dec a m : {Rltx a m} + {~ Rltx a m}.
Proof. destruct m; cbn; [apply Rlt_dec | left; exact I | right; tauto]. Defined.
Definition Rgtx_dec a m : {Rgtx a m} + {~ Rgtx a m}.
Proof. destruct m; cbn; [apply Rgt_dec | right; tauto | left; exact I]. Defined.
Definition Rlex_dec a m : {Rlex a m} + {~ Rlex a m}.
Proof. destruct m; cbn; [apply Rle_dec | left; exact I | right; tauto]. Defined.
Definition Rgex_dec a m : {Rgex a m} + {~ Rgex a m}.
Proof. destruct m; cbn; [apply Rge_dec | right; tauto | left; exact I]. Defined.
