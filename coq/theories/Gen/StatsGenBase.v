(** Support for the GENERATED transcription of cheetah's beam statistics and diagnostics (Gen/StatsGen.v, written
    by harness/translate_stats.py from /repo's source text) and for the proofs that it coincides with the
    hand-written models (Gen/StatsGenEquiv.v).

    [gsum f l] is the sample reading of  torch.sum(f, dim=-1)  over the particle axis: the particle axis is a list
    [l : list S] of samples of an arbitrary type S and a tensor along it is a function S -> R.  It is the [sumf] of
    Beam/WStats.v for an arbitrary sample type (convertible to it at S = smp). *)
From Coq Require Import Reals List Lra Lia.
From Cheetah Require Import Base.Mat Beam.WStats.
Import ListNotations.
Open Scope R_scope.

Definition gsum {S : Type} (f : S -> R) (l : list S) : R := fold_right (fun p acc => f p + acc) 0 l.

Lemma gsum_sumf (f : smp -> R) (l : list smp) : gsum f l = sumf f l.
Proof. reflexivity. Qed.
Lemma gsum_cons {S} (f : S -> R) p r : gsum f (p :: r) = f p + gsum f r.
Proof. reflexivity. Qed.
Lemma gsum_ext {S} (f g : S -> R) l : (forall p, f p = g p) -> gsum f l = gsum g l.
Proof. intro H. induction l as [|p r IH]; [reflexivity|]. rewrite !gsum_cons, H, IH. reflexivity. Qed.
Lemma gsum_map {S T} (f : T -> R) (g : S -> T) l : gsum f (map g l) = gsum (fun p => f (g p)) l.
Proof. induction l as [|p r IH]; [reflexivity|]. cbn [map]. rewrite !gsum_cons, IH. reflexivity. Qed.
Lemma gsum_scal {S} k (f : S -> R) l : gsum (fun p => k * f p) l = k * gsum f l.
Proof. induction l as [|p r IH]; [cbn; ring|]. rewrite !gsum_cons, IH. ring. Qed.

(** the sum over a zipped list is the sum of the zipped products (Beam/Moments.v [lsum]/[zipmul], Beam/WMoments.v) *)
Lemma gsum_combine_fst (ws : list R) {T} (xs : list T) :
  length ws = length xs -> gsum (fun p : R * T => fst p) (combine ws xs) = fold_right Rplus 0 ws.
Proof.
  revert xs. induction ws as [|w r IH]; intros [|x xs] H; try discriminate; [reflexivity|].
  cbn [combine fold_right]. rewrite gsum_cons. cbn [fst]. rewrite IH by (cbn in H; lia). reflexivity.
Qed.

Lemma pow2_mul (x : R) : x ^ 2 = x * x.
Proof. ring. Qed.
