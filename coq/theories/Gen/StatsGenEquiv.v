(** generated transcription (Gen/StatsGen.v, regenerated from /repo's source text on every run by
    harness/translate_stats.py)  =  hand-written models, definition by definition:
      cheetah/utils/statistics.py          = Beam/WStats.v   (wcov, wvar, wstd; C17)
      ParticleBeam mu_* / sigma_* / cov    = Beam/WStats.v + Beam/TwCorr.v (pb_sigx ..; C17),
                                             Beam/WMoments.v at R (entries of wmean / wcov; C06), Beam/Moments.v total_charge
      Beam Twiss getters                   = Beam/Twiss.v (emittance, tbeta, talpha, norm_emittance; C17), Beam/SI.v (gamma, beta)
      ParameterBeam getters                = Beam/Twiss.v (psigma, pemittance ..; C17)

    The particle axis of the code is a list of samples of an arbitrary type S here (sample reading, see
    harness/translate_stats.py); the models of Beam/WStats.v are stated on lists of triples (x, y, w), so the general
    form of a lemma is   gen_f x y w l = model (map (fun i => (x i, y i, w i)) l)   and the instance S = smp,
    x = sx, y = sy, w = sw is the model itself.

    harness/translate_stage.py compiles this file against the fresh StatsGen.v (the import line below is redirected
    to the fresh copy; it must stay on one line, exactly as written). *)
From Coq Require Import Reals List Lra Lia.
From Cheetah Require Import Base.Mat Optics.Maps Beam.Moments Beam.WMoments Beam.WStats Beam.Twiss Beam.TwCorr Beam.SI Gen.StatsGenBase.
From Cheetah.Gen Require Import StatsGen.
Import ListNotations.
Open Scope R_scope.

(* comparison of two statistics built from the same sums: syntactic equality first; ring identities under the sums as a
   fallback for harmless re-association in the source *)
Ltac gs :=
  lazymatch goal with
  | |- gsum _ ?l = gsum _ ?l => first [reflexivity | apply gsum_ext; intro; gs]
  | |- ?a / ?b = ?c / ?d => first [reflexivity | apply (f_equal2 Rdiv); gs]
  | |- ?a - ?b = ?c - ?d => first [reflexivity | apply (f_equal2 Rminus); gs]
  | |- sqrt _ = sqrt _ => first [reflexivity | apply f_equal; gs]
  | |- _ => first [reflexivity | unfold Rdiv; ring]
  end.

(** ** cheetah/utils/statistics.py  vs  Beam/WStats.v *)
Section Stat.
Context {S : Type} (x y w : S -> R).
Definition tri (i : S) : smp := (x i, y i, w i).

Lemma wtot_tri l : wtot (map tri l) = gsum w l.
Proof. unfold wtot. rewrite <- gsum_sumf, gsum_map. reflexivity. Qed.
Lemma wmean_x_tri l : wmean_x (map tri l) = gsum (fun i => x i * w i) l / gsum w l.
Proof. unfold wmean_x. rewrite wtot_tri, <- gsum_sumf, gsum_map. reflexivity. Qed.
Lemma wmean_y_tri l : wmean_y (map tri l) = gsum (fun i => y i * w i) l / gsum w l.
Proof. unfold wmean_y. rewrite wtot_tri, <- gsum_sumf, gsum_map. reflexivity. Qed.
Lemma wcorr_tri l : wcorr (map tri l) = gsum w l - gsum (fun i => w i ^ 2) l / gsum w l.
Proof. unfold wcorr. rewrite wtot_tri, <- gsum_sumf, gsum_map. reflexivity. Qed.

Lemma gen_unbiased_weighted_covariance_gen l :
  gen_unbiased_weighted_covariance x y w l = wcov (map tri l).
Proof.
  cbv beta zeta delta [gen_unbiased_weighted_covariance]. unfold wcov.
  rewrite wcorr_tri, wmean_x_tri, wmean_y_tri, <- gsum_sumf, gsum_map. cbn [tri sx sy sw fst snd]. gs.
Qed.

Lemma gen_unbiased_weighted_variance_gen l :
  gen_unbiased_weighted_variance x w l = wvar (map tri l).
Proof.
  cbv beta zeta delta [gen_unbiased_weighted_variance]. unfold wvar.
  rewrite wcorr_tri, wmean_x_tri, <- gsum_sumf, gsum_map. cbn [tri sx sy sw fst snd]. gs.
Qed.

Lemma gen_unbiased_weighted_std_gen l :
  gen_unbiased_weighted_std x w l = wstd (map tri l).
Proof.
  cbv beta zeta delta [gen_unbiased_weighted_std]. unfold wstd. rewrite <- gen_unbiased_weighted_variance_gen. reflexivity.
Qed.
End Stat.

Lemma map_tri_id (l : list smp) : map (tri sx sy sw) l = l.
Proof. induction l as [|[[a b] c] r IH]; [reflexivity|]. cbn [map]. rewrite IH. reflexivity. Qed.

Lemma gen_unbiased_weighted_covariance_eq (l : list smp) : gen_unbiased_weighted_covariance sx sy sw l = wcov l.
Proof. rewrite gen_unbiased_weighted_covariance_gen, map_tri_id. reflexivity. Qed.
Lemma gen_unbiased_weighted_variance_eq (l : list smp) : gen_unbiased_weighted_variance sx sw l = wvar l.
Proof. rewrite (gen_unbiased_weighted_variance_gen sx sy sw), map_tri_id. reflexivity. Qed.
Lemma gen_unbiased_weighted_std_eq (l : list smp) : gen_unbiased_weighted_std sx sw l = wstd l.
Proof. rewrite (gen_unbiased_weighted_std_gen sx sy sw), map_tri_id. reflexivity. Qed.

(* wvar / wstd do not look at the y component *)
Lemma wvar_tri_y {S} (x y y' w : S -> R) l : wvar (map (tri x y w) l) = wvar (map (tri x y' w) l).
Proof. rewrite <- !gen_unbiased_weighted_variance_gen. reflexivity. Qed.
Lemma wstd_tri_y {S} (x y y' w : S -> R) l : wstd (map (tri x y w) l) = wstd (map (tri x y' w) l).
Proof. unfold wstd. rewrite (wvar_tri_y x y y'). reflexivity. Qed.

(** ** ParticleBeam: coordinate getters, charge, survivors *)
Section PB.
Context {S : Type} (P : S -> V7 R) (q s : S -> R).

Lemma gen_ParticleBeam_x_eq i : gen_ParticleBeam_x P i = c0 (P i).
Proof. reflexivity. Qed.
Lemma gen_ParticleBeam_px_eq i : gen_ParticleBeam_px P i = c1 (P i).
Proof. reflexivity. Qed.
Lemma gen_ParticleBeam_y_eq i : gen_ParticleBeam_y P i = c2 (P i).
Proof. reflexivity. Qed.
Lemma gen_ParticleBeam_py_eq i : gen_ParticleBeam_py P i = c3 (P i).
Proof. reflexivity. Qed.
Lemma gen_ParticleBeam_tau_eq i : gen_ParticleBeam_tau P i = c4 (P i).
Proof. reflexivity. Qed.
Lemma gen_ParticleBeam_p_eq i : gen_ParticleBeam_p P i = c5 (P i).
Proof. reflexivity. Qed.

(* the (a, b, survival) triples of one plane, as in Beam/TwCorr.v: l = [(x, px, survival)] *)
Definition plane (a b : V7 R -> R) (i : S) : smp := (a (P i), b (P i), s i).

Lemma gen_ParticleBeam_num_particles_survived_eq l a b :
  gen_ParticleBeam_num_particles_survived s l = wtot (map (plane a b) l).
Proof. unfold gen_ParticleBeam_num_particles_survived. rewrite (wtot_tri (fun i => a (P i)) (fun i => b (P i)) s). reflexivity. Qed.

(* mu_* = wmean_x of the plane whose first component is that coordinate *)
Lemma mu_plane (a b : V7 R -> R) l :
  gsum (fun i => a (P i) * s i) l / gsum s l = wmean_x (map (plane a b) l).
Proof. unfold plane. rewrite (wmean_x_tri (fun i => a (P i)) (fun i => b (P i)) s). reflexivity. Qed.

Lemma gen_ParticleBeam_mu_x_eq l : gen_ParticleBeam_mu_x P s l = wmean_x (map (plane (@c0 R) (@c1 R)) l).
Proof. rewrite <- mu_plane. cbv beta delta [gen_ParticleBeam_mu_x gen_ParticleBeam_x]. gs. Qed.
Lemma gen_ParticleBeam_mu_px_eq l : gen_ParticleBeam_mu_px P s l = wmean_y (map (plane (@c0 R) (@c1 R)) l).
Proof.
  unfold plane. rewrite (wmean_y_tri (fun i => c0 (P i)) (fun i => c1 (P i)) s).
  cbv beta delta [gen_ParticleBeam_mu_px gen_ParticleBeam_px]. gs.
Qed.
Lemma gen_ParticleBeam_mu_y_eq l : gen_ParticleBeam_mu_y P s l = wmean_x (map (plane (@c2 R) (@c3 R)) l).
Proof. rewrite <- mu_plane. cbv beta delta [gen_ParticleBeam_mu_y gen_ParticleBeam_y]. gs. Qed.
Lemma gen_ParticleBeam_mu_py_eq l : gen_ParticleBeam_mu_py P s l = wmean_y (map (plane (@c2 R) (@c3 R)) l).
Proof.
  unfold plane. rewrite (wmean_y_tri (fun i => c2 (P i)) (fun i => c3 (P i)) s).
  cbv beta delta [gen_ParticleBeam_mu_py gen_ParticleBeam_py]. gs.
Qed.
Lemma gen_ParticleBeam_mu_tau_eq l : gen_ParticleBeam_mu_tau P s l = wmean_x (map (plane (@c4 R) (@c5 R)) l).
Proof. rewrite <- mu_plane. cbv beta delta [gen_ParticleBeam_mu_tau gen_ParticleBeam_tau]. gs. Qed.
Lemma gen_ParticleBeam_mu_p_eq l : gen_ParticleBeam_mu_p P s l = wmean_y (map (plane (@c4 R) (@c5 R)) l).
Proof.
  unfold plane. rewrite (wmean_y_tri (fun i => c4 (P i)) (fun i => c5 (P i)) s).
  cbv beta delta [gen_ParticleBeam_mu_p gen_ParticleBeam_p]. gs.
Qed.

(* sigma_* = wstd of the triples (coordinate, coordinate, survival): pb_sigx / pb_sigpx of Beam/TwCorr.v *)
Lemma std_plane_x (a b : V7 R -> R) l :
  gen_unbiased_weighted_std (fun i => a (P i)) s l = pb_sigx (map (plane a b) l).
Proof.
  unfold pb_sigx. rewrite map_map. rewrite (gen_unbiased_weighted_std_gen (fun i => a (P i)) (fun i => a (P i)) s). reflexivity.
Qed.
Lemma std_plane_y (a b : V7 R -> R) l :
  gen_unbiased_weighted_std (fun i => b (P i)) s l = pb_sigpx (map (plane a b) l).
Proof.
  unfold pb_sigpx. rewrite map_map. rewrite (gen_unbiased_weighted_std_gen (fun i => b (P i)) (fun i => b (P i)) s). reflexivity.
Qed.

Lemma gen_ParticleBeam_sigma_x_eq l : gen_ParticleBeam_sigma_x P s l = pb_sigx (map (plane (@c0 R) (@c1 R)) l).
Proof. rewrite <- std_plane_x. reflexivity. Qed.
Lemma gen_ParticleBeam_sigma_px_eq l : gen_ParticleBeam_sigma_px P s l = pb_sigpx (map (plane (@c0 R) (@c1 R)) l).
Proof. rewrite <- std_plane_y. reflexivity. Qed.
Lemma gen_ParticleBeam_sigma_y_eq l : gen_ParticleBeam_sigma_y P s l = pb_sigx (map (plane (@c2 R) (@c3 R)) l).
Proof. rewrite <- std_plane_x. reflexivity. Qed.
Lemma gen_ParticleBeam_sigma_py_eq l : gen_ParticleBeam_sigma_py P s l = pb_sigpx (map (plane (@c2 R) (@c3 R)) l).
Proof. rewrite <- std_plane_y. reflexivity. Qed.
Lemma gen_ParticleBeam_sigma_tau_eq l : gen_ParticleBeam_sigma_tau P s l = pb_sigx (map (plane (@c4 R) (@c5 R)) l).
Proof. rewrite <- std_plane_x. reflexivity. Qed.
Lemma gen_ParticleBeam_sigma_p_eq l : gen_ParticleBeam_sigma_p P s l = pb_sigpx (map (plane (@c4 R) (@c5 R)) l).
Proof. rewrite <- std_plane_y. reflexivity. Qed.

Lemma gen_ParticleBeam_sigma_xpx_eq l : gen_ParticleBeam_sigma_xpx P s l = wcov (map (plane (@c0 R) (@c1 R)) l).
Proof.
  unfold plane. rewrite <- (gen_unbiased_weighted_covariance_gen (fun i => c0 (P i)) (fun i => c1 (P i)) s). reflexivity.
Qed.
Lemma gen_ParticleBeam_sigma_ypy_eq l : gen_ParticleBeam_sigma_ypy P s l = wcov (map (plane (@c2 R) (@c3 R)) l).
Proof.
  unfold plane. rewrite <- (gen_unbiased_weighted_covariance_gen (fun i => c2 (P i)) (fun i => c3 (P i)) s). reflexivity.
Qed.
End PB.

(* ParticleBeam.total_charge = Beam/Moments.v total_charge at R (the zip of charges and survival probabilities) *)
Lemma gen_ParticleBeam_total_charge_eq (qs ss : list R) :
  gen_ParticleBeam_total_charge (fun p : R * R => fst p) (fun p => snd p) (combine qs ss)
  = @lsum R 0 Rplus (zipmul Rmult qs ss).
Proof.
  unfold gen_ParticleBeam_total_charge, lsum. revert ss.
  induction qs as [|a r IH]; intros [|b ss]; try reflexivity.
  cbn [combine zipmul fold_right]. rewrite gsum_cons, IH. reflexivity.
Qed.

(** ** Beam: reference quantities (Beam/SI.v) and Twiss getters (Beam/Twiss.v) *)
Lemma gen_Beam_relativistic_gamma_eq (E : R) : gen_Beam_relativistic_gamma E = si_gamma0 E m_e.
Proof. reflexivity. Qed.

Lemma gen_Beam_relativistic_beta_eq (E : R) : gen_Beam_relativistic_beta E = si_beta0 E m_e.
Proof.
  cbv beta zeta delta [gen_Beam_relativistic_beta]. rewrite gen_Beam_relativistic_gamma_eq. unfold si_beta0.
  destruct (Req_EM_T (si_gamma0 E m_e) 0) as [e|ne].
  - rewrite e, Rabs_R0. destruct (Rlt_dec 0 0) as [h|_]; [lra | reflexivity].
  - destruct (Rlt_dec 0 (Rabs (si_gamma0 E m_e))) as [_|h].
    + unfold Rsqr. rewrite pow2_mul. reflexivity.
    + exfalso. apply h. apply Rabs_pos_lt. exact ne.
Qed.

(* the masked write  beta[|gamma| > 0] = sqrt(1 - 1 / gamma[gamma > 0]^2)  is well-shaped iff gamma >= 0 *)
Lemma gen_Beam_relativistic_beta_pre_eq (E : R) : gen_Beam_relativistic_beta_pre E <-> 0 <= si_gamma0 E m_e.
Proof.
  cbv beta zeta delta [gen_Beam_relativistic_beta_pre]. rewrite gen_Beam_relativistic_gamma_eq.
  set (g := si_gamma0 E m_e). split.
  - intros [[H1 H2] _]. destruct (Rle_dec 0 g) as [h|h]; [exact h|].
    exfalso. assert (Hg : g < 0) by lra. assert (Ha : Rabs g > 0) by (apply Rabs_pos_lt; lra). apply H1 in Ha. lra.
  - intro H. split; [|exact I]. split; intro H1.
    + rewrite Rabs_right in H1 by lra. exact H1.
    + rewrite Rabs_right by lra. exact H1.
Qed.

Section TwissGetters.
Variable tiny : R.

Lemma gen_Beam_emittance_x_eq sx spx sxpx : gen_Beam_emittance_x tiny sx spx sxpx = emittance tiny sx spx sxpx.
Proof. reflexivity. Qed.
Lemma gen_Beam_emittance_y_eq sy spy sypy : gen_Beam_emittance_y tiny sy spy sypy = emittance tiny sy spy sypy.
Proof. reflexivity. Qed.
Lemma gen_Beam_beta_x_eq sx spx sxpx : gen_Beam_beta_x tiny sx spx sxpx = tbeta tiny sx spx sxpx.
Proof. reflexivity. Qed.
Lemma gen_Beam_beta_y_eq sy spy sypy : gen_Beam_beta_y tiny sy spy sypy = tbeta tiny sy spy sypy.
Proof. reflexivity. Qed.
Lemma gen_Beam_alpha_x_eq sx spx sxpx : gen_Beam_alpha_x tiny sx spx sxpx = talpha tiny sx spx sxpx.
Proof. reflexivity. Qed.
Lemma gen_Beam_alpha_y_eq sy spy sypy : gen_Beam_alpha_y tiny sy spy sypy = talpha tiny sy spy sypy.
Proof. reflexivity. Qed.
Lemma gen_Beam_normalized_emittance_x_eq sx spx sxpx E :
  gen_Beam_normalized_emittance_x tiny sx spx sxpx E = norm_emittance tiny sx spx sxpx (si_beta0 E m_e) (si_gamma0 E m_e).
Proof.
  cbv beta delta [gen_Beam_normalized_emittance_x]. rewrite gen_Beam_relativistic_beta_eq, gen_Beam_relativistic_gamma_eq. reflexivity.
Qed.
Lemma gen_Beam_normalized_emittance_y_eq sy spy sypy E :
  gen_Beam_normalized_emittance_y tiny sy spy sypy E = norm_emittance tiny sy spy sypy (si_beta0 E m_e) (si_gamma0 E m_e).
Proof.
  cbv beta delta [gen_Beam_normalized_emittance_y]. rewrite gen_Beam_relativistic_beta_eq, gen_Beam_relativistic_gamma_eq. reflexivity.
Qed.

(* the Twiss parameters of a ParticleBeam (Beam/TwCorr.v) are the Beam getters applied to the ParticleBeam getters
   (the inheritance ParticleBeam(Beam) itself is checked by the translator, not proved) *)
Lemma pb_emittance_compose {S} (P : S -> V7 R) (s : S -> R) l :
  gen_Beam_emittance_x tiny (gen_ParticleBeam_sigma_x P s l) (gen_ParticleBeam_sigma_px P s l) (gen_ParticleBeam_sigma_xpx P s l)
  = pb_emittance tiny (map (plane P s (@c0 R) (@c1 R)) l).
Proof. rewrite gen_ParticleBeam_sigma_x_eq, gen_ParticleBeam_sigma_px_eq, gen_ParticleBeam_sigma_xpx_eq. reflexivity. Qed.
Lemma pb_beta_compose {S} (P : S -> V7 R) (s : S -> R) l :
  gen_Beam_beta_x tiny (gen_ParticleBeam_sigma_x P s l) (gen_ParticleBeam_sigma_px P s l) (gen_ParticleBeam_sigma_xpx P s l)
  = pb_beta tiny (map (plane P s (@c0 R) (@c1 R)) l).
Proof. rewrite gen_ParticleBeam_sigma_x_eq, gen_ParticleBeam_sigma_px_eq, gen_ParticleBeam_sigma_xpx_eq. reflexivity. Qed.
Lemma pb_alpha_compose {S} (P : S -> V7 R) (s : S -> R) l :
  gen_Beam_alpha_x tiny (gen_ParticleBeam_sigma_x P s l) (gen_ParticleBeam_sigma_px P s l) (gen_ParticleBeam_sigma_xpx P s l)
  = pb_alpha tiny (map (plane P s (@c0 R) (@c1 R)) l).
Proof. rewrite gen_ParticleBeam_sigma_x_eq, gen_ParticleBeam_sigma_px_eq, gen_ParticleBeam_sigma_xpx_eq. reflexivity. Qed.
Lemma pb_emittance_y_compose {S} (P : S -> V7 R) (s : S -> R) l :
  gen_Beam_emittance_y tiny (gen_ParticleBeam_sigma_y P s l) (gen_ParticleBeam_sigma_py P s l) (gen_ParticleBeam_sigma_ypy P s l)
  = pb_emittance tiny (map (plane P s (@c2 R) (@c3 R)) l).
Proof. rewrite gen_ParticleBeam_sigma_y_eq, gen_ParticleBeam_sigma_py_eq, gen_ParticleBeam_sigma_ypy_eq. reflexivity. Qed.
End TwissGetters.

(** ** ParameterBeam getters (Beam/Twiss.v: psigma, pemittance ..) *)
Section QB.
Variables (mu : V7 R) (cov : M7 R).
Lemma gen_ParameterBeam_mu_x_eq : gen_ParameterBeam_mu_x mu = c0 mu.
Proof. reflexivity. Qed.
Lemma gen_ParameterBeam_mu_px_eq : gen_ParameterBeam_mu_px mu = c1 mu.
Proof. reflexivity. Qed.
Lemma gen_ParameterBeam_mu_y_eq : gen_ParameterBeam_mu_y mu = c2 mu.
Proof. reflexivity. Qed.
Lemma gen_ParameterBeam_mu_py_eq : gen_ParameterBeam_mu_py mu = c3 mu.
Proof. reflexivity. Qed.
Lemma gen_ParameterBeam_mu_tau_eq : gen_ParameterBeam_mu_tau mu = c4 mu.
Proof. reflexivity. Qed.
Lemma gen_ParameterBeam_mu_p_eq : gen_ParameterBeam_mu_p mu = c5 mu.
Proof. reflexivity. Qed.
Lemma gen_ParameterBeam_sigma_x_eq : gen_ParameterBeam_sigma_x cov = psigma (m7nth cov 0 0).
Proof. reflexivity. Qed.
Lemma gen_ParameterBeam_sigma_px_eq : gen_ParameterBeam_sigma_px cov = psigma (m7nth cov 1 1).
Proof. reflexivity. Qed.
Lemma gen_ParameterBeam_sigma_y_eq : gen_ParameterBeam_sigma_y cov = psigma (m7nth cov 2 2).
Proof. reflexivity. Qed.
Lemma gen_ParameterBeam_sigma_py_eq : gen_ParameterBeam_sigma_py cov = psigma (m7nth cov 3 3).
Proof. reflexivity. Qed.
Lemma gen_ParameterBeam_sigma_tau_eq : gen_ParameterBeam_sigma_tau cov = psigma (m7nth cov 4 4).
Proof. reflexivity. Qed.
Lemma gen_ParameterBeam_sigma_p_eq : gen_ParameterBeam_sigma_p cov = psigma (m7nth cov 5 5).
Proof. reflexivity. Qed.
Lemma gen_ParameterBeam_sigma_xpx_eq : gen_ParameterBeam_sigma_xpx cov = m7nth cov 0 1.
Proof. reflexivity. Qed.
Lemma gen_ParameterBeam_sigma_ypy_eq : gen_ParameterBeam_sigma_ypy cov = m7nth cov 2 3.
Proof. reflexivity. Qed.

Lemma qb_emittance_compose tiny :
  gen_Beam_emittance_x tiny (gen_ParameterBeam_sigma_x cov) (gen_ParameterBeam_sigma_px cov) (gen_ParameterBeam_sigma_xpx cov)
  = pemittance tiny (m7nth cov 0 0) (m7nth cov 0 1) (m7nth cov 1 1).
Proof. reflexivity. Qed.
Lemma qb_beta_compose tiny :
  gen_Beam_beta_x tiny (gen_ParameterBeam_sigma_x cov) (gen_ParameterBeam_sigma_px cov) (gen_ParameterBeam_sigma_xpx cov)
  = pbeta tiny (m7nth cov 0 0) (m7nth cov 0 1) (m7nth cov 1 1).
Proof. reflexivity. Qed.
Lemma qb_alpha_compose tiny :
  gen_Beam_alpha_x tiny (gen_ParameterBeam_sigma_x cov) (gen_ParameterBeam_sigma_px cov) (gen_ParameterBeam_sigma_xpx cov)
  = palpha tiny (m7nth cov 0 0) (m7nth cov 0 1) (m7nth cov 1 1).
Proof. reflexivity. Qed.
End QB.
