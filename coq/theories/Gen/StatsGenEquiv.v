(** generated transcription (Gen/StatsGen.v, regenerated from /repo's source text on every run by
    harness/translate_stats.py)  =  hand-written models, definition by definition:
      cheetah/utils/statistics.py          = Beam/WStats.v   (wcov, wvar, wstd; C17)
      ParticleBeam mu_* / sigma_* / cov    = Beam/WStats.v + Beam/TwCorr.v (pb_sigx ..; C17),
                                             Beam/WMoments.v at R (entries of wmean / wcov; C06), Beam/Moments.v total_charge
      Beam Twiss getters                   = Beam/Twiss.v (emittance, tbeta, talpha, norm_emittance; C17), Beam/SI.v (gamma, beta)
      ParameterBeam getters                = Beam/Twiss.v (psigma, pemittance ..; C17)
      Aperture.track (one particle)        = Diag/Aperture.v (s * mask a p over Q, transported by Q2R; C10)
      ParticleBeam.mu_x / mu_y             = Diag/Screen.v centroid (the BPM reading, over Q, transported by Q2R; C20)

    The particle axis of the code is a list of samples of an arbitrary type S here (sample reading, see
    harness/translate_stats.py); the models of Beam/WStats.v are stated on lists of triples (x, y, w), so the general
    form of a lemma is   gen_f x y w l = model (map (fun i => (x i, y i, w i)) l)   and the instance S = smp,
    x = sx, y = sy, w = sw is the model itself.

    harness/translate_stage.py compiles this file against the fresh StatsGen.v (the import line below is redirected
    to the fresh copy; it must stay on one line, exactly as written). *)
From Coq Require Import QArith Qreals Reals List Lra Lia.
From Cheetah Require Import Base.Mat Optics.Maps Beam.Moments Beam.WMoments Beam.WStats Beam.Twiss Beam.TwCorr Beam.SI Gen.StatsGenBase.
From Cheetah Require Diag.Aperture Diag.Screen.
From Cheetah.Gen Require Import StatsGen.
Import ListNotations.
Open Scope R_scope.

(* comparison of two statistics built from the same sums: syntactic equality first; ring identities under the sums as a
   fallback for harmless re-association in the source *)
Ltac gs :=
  lazymatch goal with
  | |- gsum _ ?l = gsum _ ?l => first [reflexivity | apply gsum_ext; intro; gs]
  | |- ?a / ?b = ?c / ?d => first [reflexivity | apply (f_equal2 Rdiv); gs]
  | |- ?a - ?b = ?c - ?d => first [reflexivity | apply (f_equal2 Rminus); gs]
  | |- sqrt _ = sqrt _ => first [reflexivity | apply f_equal; gs]
  | |- _ => first [reflexivity | unfold Rdiv; ring]
  end.

(** ** cheetah/utils/statistics.py  vs  Beam/WStats.v *)
Section Stat.
Context {S : Type} (x y w : S -> R).
Definition tri (i : S) : smp := (x i, y i, w i).

Lemma wtot_tri l : wtot (map tri l) = gsum w l.
Proof. unfold wtot. rewrite <- gsum_sumf, gsum_map. reflexivity. Qed.
Lemma wmean_x_tri l : wmean_x (map tri l) = gsum (fun i => x i * w i) l / gsum w l.
Proof. unfold wmean_x. rewrite wtot_tri, <- gsum_sumf, gsum_map. reflexivity. Qed.
Lemma wmean_y_tri l : wmean_y (map tri l) = gsum (fun i => y i * w i) l / gsum w l.
Proof. unfold wmean_y. rewrite wtot_tri, <- gsum_sumf, gsum_map. reflexivity. Qed.
Lemma wcorr_tri l : wcorr (map tri l) = gsum w l - gsum (fun i => w i ^ 2) l / gsum w l.
Proof. unfold wcorr. rewrite wtot_tri, <- gsum_sumf, gsum_map. reflexivity. Qed.

Lemma gen_unbiased_weighted_covariance_gen l :
  gen_unbiased_weighted_covariance x y w l = wcov (map tri l).
Proof.
  cbv beta zeta delta [gen_unbiased_weighted_covariance]. unfold wcov.
  rewrite wcorr_tri, wmean_x_tri, wmean_y_tri, <- gsum_sumf, gsum_map. cbn [tri sx sy sw fst snd]. gs.
Qed.

Lemma gen_unbiased_weighted_variance_gen l :
  gen_unbiased_weighted_variance x w l = wvar (map tri l).
Proof.
  cbv beta zeta delta [gen_unbiased_weighted_variance]. unfold wvar.
  rewrite wcorr_tri, wmean_x_tri, <- gsum_sumf, gsum_map. cbn [tri sx sy sw fst snd]. gs.
Qed.

Lemma gen_unbiased_weighted_std_gen l :
  gen_unbiased_weighted_std x w l = wstd (map tri l).
Proof.
  cbv beta zeta delta [gen_unbiased_weighted_std]. unfold wstd. rewrite <- gen_unbiased_weighted_variance_gen. reflexivity.
Qed.
End Stat.

Lemma map_tri_id (l : list smp) : map (tri sx sy sw) l = l.
Proof. induction l as [|[[a b] c] r IH]; [reflexivity|]. cbn [map]. rewrite IH. reflexivity. Qed.

Lemma gen_unbiased_weighted_covariance_eq (l : list smp) : gen_unbiased_weighted_covariance sx sy sw l = wcov l.
Proof. rewrite gen_unbiased_weighted_covariance_gen, map_tri_id. reflexivity. Qed.
Lemma gen_unbiased_weighted_variance_eq (l : list smp) : gen_unbiased_weighted_variance sx sw l = wvar l.
Proof. rewrite (gen_unbiased_weighted_variance_gen sx sy sw), map_tri_id. reflexivity. Qed.
Lemma gen_unbiased_weighted_std_eq (l : list smp) : gen_unbiased_weighted_std sx sw l = wstd l.
Proof. rewrite (gen_unbiased_weighted_std_gen sx sy sw), map_tri_id. reflexivity. Qed.

(* wvar / wstd do not look at the y component *)
Lemma wvar_tri_y {S} (x y y' w : S -> R) l : wvar (map (tri x y w) l) = wvar (map (tri x y' w) l).
Proof. rewrite <- !gen_unbiased_weighted_variance_gen. reflexivity. Qed.
Lemma wstd_tri_y {S} (x y y' w : S -> R) l : wstd (map (tri x y w) l) = wstd (map (tri x y' w) l).
Proof. unfold wstd. rewrite (wvar_tri_y x y y'). reflexivity. Qed.

(** ** ParticleBeam: coordinate getters, charge, survivors *)
Section PB.
Context {S : Type} (P : S -> V7 R) (q s : S -> R).

Lemma gen_ParticleBeam_x_eq i : gen_ParticleBeam_x P i = c0 (P i).
Proof. reflexivity. Qed.
Lemma gen_ParticleBeam_px_eq i : gen_ParticleBeam_px P i = c1 (P i).
Proof. reflexivity. Qed.
Lemma gen_ParticleBeam_y_eq i : gen_ParticleBeam_y P i = c2 (P i).
Proof. reflexivity. Qed.
Lemma gen_ParticleBeam_py_eq i : gen_ParticleBeam_py P i = c3 (P i).
Proof. reflexivity. Qed.
Lemma gen_ParticleBeam_tau_eq i : gen_ParticleBeam_tau P i = c4 (P i).
Proof. reflexivity. Qed.
Lemma gen_ParticleBeam_p_eq i : gen_ParticleBeam_p P i = c5 (P i).
Proof. reflexivity. Qed.

(* the (a, b, survival) triples of one plane, as in Beam/TwCorr.v: l = [(x, px, survival)] *)
Definition plane (a b : V7 R -> R) (i : S) : smp := (a (P i), b (P i), s i).

Lemma gen_ParticleBeam_num_particles_survived_eq l a b :
  gen_ParticleBeam_num_particles_survived s l = wtot (map (plane a b) l).
Proof. unfold gen_ParticleBeam_num_particles_survived. rewrite (wtot_tri (fun i => a (P i)) (fun i => b (P i)) s). reflexivity. Qed.

(* mu_* = wmean_x of the plane whose first component is that coordinate *)
Lemma mu_plane (a b : V7 R -> R) l :
  gsum (fun i => a (P i) * s i) l / gsum s l = wmean_x (map (plane a b) l).
Proof. unfold plane. rewrite (wmean_x_tri (fun i => a (P i)) (fun i => b (P i)) s). reflexivity. Qed.

Lemma gen_ParticleBeam_mu_x_eq l : gen_ParticleBeam_mu_x P s l = wmean_x (map (plane (@c0 R) (@c1 R)) l).
Proof. rewrite <- mu_plane. cbv beta delta [gen_ParticleBeam_mu_x gen_ParticleBeam_x]. gs. Qed.
Lemma gen_ParticleBeam_mu_px_eq l : gen_ParticleBeam_mu_px P s l = wmean_y (map (plane (@c0 R) (@c1 R)) l).
Proof.
  unfold plane. rewrite (wmean_y_tri (fun i => c0 (P i)) (fun i => c1 (P i)) s).
  cbv beta delta [gen_ParticleBeam_mu_px gen_ParticleBeam_px]. gs.
Qed.
Lemma gen_ParticleBeam_mu_y_eq l : gen_ParticleBeam_mu_y P s l = wmean_x (map (plane (@c2 R) (@c3 R)) l).
Proof. rewrite <- mu_plane. cbv beta delta [gen_ParticleBeam_mu_y gen_ParticleBeam_y]. gs. Qed.
Lemma gen_ParticleBeam_mu_py_eq l : gen_ParticleBeam_mu_py P s l = wmean_y (map (plane (@c2 R) (@c3 R)) l).
Proof.
  unfold plane. rewrite (wmean_y_tri (fun i => c2 (P i)) (fun i => c3 (P i)) s).
  cbv beta delta [gen_ParticleBeam_mu_py gen_ParticleBeam_py]. gs.
Qed.
Lemma gen_ParticleBeam_mu_tau_eq l : gen_ParticleBeam_mu_tau P s l = wmean_x (map (plane (@c4 R) (@c5 R)) l).
Proof. rewrite <- mu_plane. cbv beta delta [gen_ParticleBeam_mu_tau gen_ParticleBeam_tau]. gs. Qed.
Lemma gen_ParticleBeam_mu_p_eq l : gen_ParticleBeam_mu_p P s l = wmean_y (map (plane (@c4 R) (@c5 R)) l).
Proof.
  unfold plane. rewrite (wmean_y_tri (fun i => c4 (P i)) (fun i => c5 (P i)) s).
  cbv beta delta [gen_ParticleBeam_mu_p gen_ParticleBeam_p]. gs.
Qed.

(* sigma_* = wstd of the triples (coordinate, coordinate, survival): pb_sigx / pb_sigpx of Beam/TwCorr.v *)
Lemma std_plane_x (a b : V7 R -> R) l :
  gen_unbiased_weighted_std (fun i => a (P i)) s l = pb_sigx (map (plane a b) l).
Proof.
  unfold pb_sigx. rewrite map_map. rewrite (gen_unbiased_weighted_std_gen (fun i => a (P i)) (fun i => a (P i)) s). reflexivity.
Qed.
Lemma std_plane_y (a b : V7 R -> R) l :
  gen_unbiased_weighted_std (fun i => b (P i)) s l = pb_sigpx (map (plane a b) l).
Proof.
  unfold pb_sigpx. rewrite map_map. rewrite (gen_unbiased_weighted_std_gen (fun i => b (P i)) (fun i => b (P i)) s). reflexivity.
Qed.

Lemma gen_ParticleBeam_sigma_x_eq l : gen_ParticleBeam_sigma_x P s l = pb_sigx (map (plane (@c0 R) (@c1 R)) l).
Proof. rewrite <- std_plane_x. reflexivity. Qed.
Lemma gen_ParticleBeam_sigma_px_eq l : gen_ParticleBeam_sigma_px P s l = pb_sigpx (map (plane (@c0 R) (@c1 R)) l).
Proof. rewrite <- std_plane_y. reflexivity. Qed.
Lemma gen_ParticleBeam_sigma_y_eq l : gen_ParticleBeam_sigma_y P s l = pb_sigx (map (plane (@c2 R) (@c3 R)) l).
Proof. rewrite <- std_plane_x. reflexivity. Qed.
Lemma gen_ParticleBeam_sigma_py_eq l : gen_ParticleBeam_sigma_py P s l = pb_sigpx (map (plane (@c2 R) (@c3 R)) l).
Proof. rewrite <- std_plane_y. reflexivity. Qed.
Lemma gen_ParticleBeam_sigma_tau_eq l : gen_ParticleBeam_sigma_tau P s l = pb_sigx (map (plane (@c4 R) (@c5 R)) l).
Proof. rewrite <- std_plane_x. reflexivity. Qed.
Lemma gen_ParticleBeam_sigma_p_eq l : gen_ParticleBeam_sigma_p P s l = pb_sigpx (map (plane (@c4 R) (@c5 R)) l).
Proof. rewrite <- std_plane_y. reflexivity. Qed.

Lemma gen_ParticleBeam_sigma_xpx_eq l : gen_ParticleBeam_sigma_xpx P s l = wcov (map (plane (@c0 R) (@c1 R)) l).
Proof.
  unfold plane. rewrite <- (gen_unbiased_weighted_covariance_gen (fun i => c0 (P i)) (fun i => c1 (P i)) s). reflexivity.
Qed.
Lemma gen_ParticleBeam_sigma_ypy_eq l : gen_ParticleBeam_sigma_ypy P s l = wcov (map (plane (@c2 R) (@c3 R)) l).
Proof.
  unfold plane. rewrite <- (gen_unbiased_weighted_covariance_gen (fun i => c2 (P i)) (fun i => c3 (P i)) s). reflexivity.
Qed.
End PB.

(* ParticleBeam.total_charge = Beam/Moments.v total_charge at R (the zip of charges and survival probabilities) *)
Lemma gen_ParticleBeam_total_charge_eq (qs ss : list R) :
  gen_ParticleBeam_total_charge (fun p : R * R => fst p) (fun p => snd p) (combine qs ss)
  = @lsum R 0 Rplus (zipmul Rmult qs ss).
Proof.
  unfold gen_ParticleBeam_total_charge, lsum. revert ss.
  induction qs as [|a r IH]; intros [|b ss]; try reflexivity.
  cbn [combine zipmul fold_right]. rewrite gsum_cons, IH. reflexivity.
Qed.

(** ** Beam: reference quantities (Beam/SI.v) and Twiss getters (Beam/Twiss.v) *)
Lemma gen_Beam_relativistic_gamma_eq (E : R) : gen_Beam_relativistic_gamma E = si_gamma0 E m_e.
Proof. reflexivity. Qed.

Lemma gen_Beam_relativistic_beta_eq (E : R) : gen_Beam_relativistic_beta E = si_beta0 E m_e.
Proof.
  cbv beta zeta delta [gen_Beam_relativistic_beta]. rewrite gen_Beam_relativistic_gamma_eq. unfold si_beta0.
  destruct (Req_EM_T (si_gamma0 E m_e) 0) as [e|ne].
  - rewrite e, Rabs_R0. destruct (Rlt_dec 0 0) as [h|_]; [lra | reflexivity].
  - destruct (Rlt_dec 0 (Rabs (si_gamma0 E m_e))) as [_|h].
    + unfold Rsqr. rewrite pow2_mul. reflexivity.
    + exfalso. apply h. apply Rabs_pos_lt. exact ne.
Qed.

(* the masked write  beta[|gamma| > 0] = sqrt(1 - 1 / gamma[gamma > 0]^2)  is well-shaped iff gamma >= 0 *)
Lemma gen_Beam_relativistic_beta_pre_eq (E : R) : gen_Beam_relativistic_beta_pre E <-> 0 <= si_gamma0 E m_e.
Proof.
  cbv beta zeta delta [gen_Beam_relativistic_beta_pre]. rewrite gen_Beam_relativistic_gamma_eq.
  set (g := si_gamma0 E m_e). split.
  - intros [[H1 H2] _]. destruct (Rle_dec 0 g) as [h|h]; [exact h|].
    exfalso. assert (Hg : g < 0) by lra. assert (Ha : Rabs g > 0) by (apply Rabs_pos_lt; lra). apply H1 in Ha. lra.
  - intro H. split; [|exact I]. split; intro H1.
    + rewrite Rabs_right in H1 by lra. exact H1.
    + rewrite Rabs_right by lra. exact H1.
Qed.

Section TwissGetters.
Variable tiny : R.

Lemma gen_Beam_emittance_x_eq sx spx sxpx : gen_Beam_emittance_x tiny sx spx sxpx = emittance tiny sx spx sxpx.
Proof. reflexivity. Qed.
Lemma gen_Beam_emittance_y_eq sy spy sypy : gen_Beam_emittance_y tiny sy spy sypy = emittance tiny sy spy sypy.
Proof. reflexivity. Qed.
Lemma gen_Beam_beta_x_eq sx spx sxpx : gen_Beam_beta_x tiny sx spx sxpx = tbeta tiny sx spx sxpx.
Proof. reflexivity. Qed.
Lemma gen_Beam_beta_y_eq sy spy sypy : gen_Beam_beta_y tiny sy spy sypy = tbeta tiny sy spy sypy.
Proof. reflexivity. Qed.
Lemma gen_Beam_alpha_x_eq sx spx sxpx : gen_Beam_alpha_x tiny sx spx sxpx = talpha tiny sx spx sxpx.
Proof. reflexivity. Qed.
Lemma gen_Beam_alpha_y_eq sy spy sypy : gen_Beam_alpha_y tiny sy spy sypy = talpha tiny sy spy sypy.
Proof. reflexivity. Qed.
Lemma gen_Beam_normalized_emittance_x_eq sx spx sxpx E :
  gen_Beam_normalized_emittance_x tiny sx spx sxpx E = norm_emittance tiny sx spx sxpx (si_beta0 E m_e) (si_gamma0 E m_e).
Proof.
  cbv beta delta [gen_Beam_normalized_emittance_x]. rewrite gen_Beam_relativistic_beta_eq, gen_Beam_relativistic_gamma_eq. reflexivity.
Qed.
Lemma gen_Beam_normalized_emittance_y_eq sy spy sypy E :
  gen_Beam_normalized_emittance_y tiny sy spy sypy E = norm_emittance tiny sy spy sypy (si_beta0 E m_e) (si_gamma0 E m_e).
Proof.
  cbv beta delta [gen_Beam_normalized_emittance_y]. rewrite gen_Beam_relativistic_beta_eq, gen_Beam_relativistic_gamma_eq. reflexivity.
Qed.

(* the Twiss parameters of a ParticleBeam (Beam/TwCorr.v) are the Beam getters applied to the ParticleBeam getters
   (the inheritance ParticleBeam(Beam) itself is checked by the translator, not proved) *)
Lemma pb_emittance_compose {S} (P : S -> V7 R) (s : S -> R) l :
  gen_Beam_emittance_x tiny (gen_ParticleBeam_sigma_x P s l) (gen_ParticleBeam_sigma_px P s l) (gen_ParticleBeam_sigma_xpx P s l)
  = pb_emittance tiny (map (plane P s (@c0 R) (@c1 R)) l).
Proof. rewrite gen_ParticleBeam_sigma_x_eq, gen_ParticleBeam_sigma_px_eq, gen_ParticleBeam_sigma_xpx_eq. reflexivity. Qed.
Lemma pb_beta_compose {S} (P : S -> V7 R) (s : S -> R) l :
  gen_Beam_beta_x tiny (gen_ParticleBeam_sigma_x P s l) (gen_ParticleBeam_sigma_px P s l) (gen_ParticleBeam_sigma_xpx P s l)
  = pb_beta tiny (map (plane P s (@c0 R) (@c1 R)) l).
Proof. rewrite gen_ParticleBeam_sigma_x_eq, gen_ParticleBeam_sigma_px_eq, gen_ParticleBeam_sigma_xpx_eq. reflexivity. Qed.
Lemma pb_alpha_compose {S} (P : S -> V7 R) (s : S -> R) l :
  gen_Beam_alpha_x tiny (gen_ParticleBeam_sigma_x P s l) (gen_ParticleBeam_sigma_px P s l) (gen_ParticleBeam_sigma_xpx P s l)
  = pb_alpha tiny (map (plane P s (@c0 R) (@c1 R)) l).
Proof. rewrite gen_ParticleBeam_sigma_x_eq, gen_ParticleBeam_sigma_px_eq, gen_ParticleBeam_sigma_xpx_eq. reflexivity. Qed.
Lemma pb_emittance_y_compose {S} (P : S -> V7 R) (s : S -> R) l :
  gen_Beam_emittance_y tiny (gen_ParticleBeam_sigma_y P s l) (gen_ParticleBeam_sigma_py P s l) (gen_ParticleBeam_sigma_ypy P s l)
  = pb_emittance tiny (map (plane P s (@c2 R) (@c3 R)) l).
Proof. rewrite gen_ParticleBeam_sigma_y_eq, gen_ParticleBeam_sigma_py_eq, gen_ParticleBeam_sigma_ypy_eq. reflexivity. Qed.
End TwissGetters.

(** ** ParameterBeam getters (Beam/Twiss.v: psigma, pemittance ..) *)
Section QB.
Variables (mu : V7 R) (cov : M7 R).
Lemma gen_ParameterBeam_mu_x_eq : gen_ParameterBeam_mu_x mu = c0 mu.
Proof. reflexivity. Qed.
Lemma gen_ParameterBeam_mu_px_eq : gen_ParameterBeam_mu_px mu = c1 mu.
Proof. reflexivity. Qed.
Lemma gen_ParameterBeam_mu_y_eq : gen_ParameterBeam_mu_y mu = c2 mu.
Proof. reflexivity. Qed.
Lemma gen_ParameterBeam_mu_py_eq : gen_ParameterBeam_mu_py mu = c3 mu.
Proof. reflexivity. Qed.
Lemma gen_ParameterBeam_mu_tau_eq : gen_ParameterBeam_mu_tau mu = c4 mu.
Proof. reflexivity. Qed.
Lemma gen_ParameterBeam_mu_p_eq : gen_ParameterBeam_mu_p mu = c5 mu.
Proof. reflexivity. Qed.
Lemma gen_ParameterBeam_sigma_x_eq : gen_ParameterBeam_sigma_x cov = psigma (m7nth cov 0 0).
Proof. reflexivity. Qed.
Lemma gen_ParameterBeam_sigma_px_eq : gen_ParameterBeam_sigma_px cov = psigma (m7nth cov 1 1).
Proof. reflexivity. Qed.
Lemma gen_ParameterBeam_sigma_y_eq : gen_ParameterBeam_sigma_y cov = psigma (m7nth cov 2 2).
Proof. reflexivity. Qed.
Lemma gen_ParameterBeam_sigma_py_eq : gen_ParameterBeam_sigma_py cov = psigma (m7nth cov 3 3).
Proof. reflexivity. Qed.
Lemma gen_ParameterBeam_sigma_tau_eq : gen_ParameterBeam_sigma_tau cov = psigma (m7nth cov 4 4).
Proof. reflexivity. Qed.
Lemma gen_ParameterBeam_sigma_p_eq : gen_ParameterBeam_sigma_p cov = psigma (m7nth cov 5 5).
Proof. reflexivity. Qed.
Lemma gen_ParameterBeam_sigma_xpx_eq : gen_ParameterBeam_sigma_xpx cov = m7nth cov 0 1.
Proof. reflexivity. Qed.
Lemma gen_ParameterBeam_sigma_ypy_eq : gen_ParameterBeam_sigma_ypy cov = m7nth cov 2 3.
Proof. reflexivity. Qed.

Lemma qb_emittance_compose tiny :
  gen_Beam_emittance_x tiny (gen_ParameterBeam_sigma_x cov) (gen_ParameterBeam_sigma_px cov) (gen_ParameterBeam_sigma_xpx cov)
  = pemittance tiny (m7nth cov 0 0) (m7nth cov 0 1) (m7nth cov 1 1).
Proof. reflexivity. Qed.
Lemma qb_beta_compose tiny :
  gen_Beam_beta_x tiny (gen_ParameterBeam_sigma_x cov) (gen_ParameterBeam_sigma_px cov) (gen_ParameterBeam_sigma_xpx cov)
  = pbeta tiny (m7nth cov 0 0) (m7nth cov 0 1) (m7nth cov 1 1).
Proof. reflexivity. Qed.
Lemma qb_alpha_compose tiny :
  gen_Beam_alpha_x tiny (gen_ParameterBeam_sigma_x cov) (gen_ParameterBeam_sigma_px cov) (gen_ParameterBeam_sigma_xpx cov)
  = palpha tiny (m7nth cov 0 0) (m7nth cov 0 1) (m7nth cov 1 1).
Proof. reflexivity. Qed.
End QB.

(** ** ParticleBeam getters  vs  Beam/WMoments.v at R (C06: survival-weighted mean vector and covariance matrix) *)
Notation rwvsum := (@WMoments.wvsum R 0 Rplus Rmult).
Notation rwmean := (@WMoments.wmean R 0 Rplus Rmult Rinv).
Notation rwcorr := (@WMoments.wcorr R 0 Rplus Rmult Rminus Rinv).
Notation rwscatter := (@WMoments.wscatter R 0 Rplus Rmult Rminus).
Notation rwcov := (@WMoments.wcov R 0 Rplus Rmult Rminus Rinv).

Lemma v7nth_map {A B} (f : A -> B) v i : v7nth (v7map f v) i = f (v7nth v i).
Proof. do 6 (destruct i as [|i]; [reflexivity|]). reflexivity. Qed.
Lemma v7nth_map2 {A B C} (f : A -> B -> C) u v i : v7nth (v7map2 f u v) i = f (v7nth u i) (v7nth v i).
Proof. do 6 (destruct i as [|i]; [reflexivity|]). reflexivity. Qed.
Lemma v7nth_vzero i : v7nth (@vzero R 0) i = 0.
Proof. do 6 (destruct i as [|i]; [reflexivity|]). reflexivity. Qed.
Lemma m7nth_Z7 i j : m7nth (@Z7 R 0) i j = 0.
Proof. unfold m7nth. do 6 (destruct i as [|i]; [apply v7nth_vzero|]). apply v7nth_vzero. Qed.

Lemma gsum_combine_f (f : R -> R) (ws : list R) {T} (xs : list T) :
  length ws = length xs -> gsum (fun p : R * T => f (fst p)) (combine ws xs) = @lsum R 0 Rplus (map f ws).
Proof.
  revert xs. induction ws as [|w r IH]; intros [|x xs] H; try discriminate; [reflexivity|].
  cbn [combine map]. unfold lsum in *. cbn [fold_right]. rewrite gsum_cons. cbn [fst]. rewrite IH by (cbn in H; lia). reflexivity.
Qed.
Lemma lsum_gsum (ws : list R) {T} (xs : list T) : length ws = length xs -> @lsum R 0 Rplus ws = gsum (fun p : R * T => fst p) (combine ws xs).
Proof. intro H. rewrite (gsum_combine_f (fun w => w)) by exact H. rewrite map_id. reflexivity. Qed.

Lemma wvsum_nth (l : list (R * V7 R)) i :
  v7nth (@vsum R 0 Rplus (map (fun p => @vscale R Rmult (fst p) (snd p)) l)) i = gsum (fun p => fst p * v7nth (snd p) i) l.
Proof.
  induction l as [|p r IH]; [apply v7nth_vzero|].
  cbn [map]. unfold vsum in *. cbn [fold_right]. unfold vadd at 1. rewrite v7nth_map2, IH, gsum_cons.
  unfold vscale. rewrite v7nth_map. reflexivity.
Qed.

Lemma wmean_nth (ws : list R) (xs : list (V7 R)) i : length ws = length xs ->
  v7nth (rwmean ws xs) i = gsum (fun p => v7nth (snd p) i * fst p) (combine ws xs) / gsum (fun p => fst p) (combine ws xs).
Proof.
  intro H. unfold WMoments.wmean, WMoments.wvsum. unfold vscale at 1. rewrite v7nth_map, wvsum_nth, (lsum_gsum ws xs H).
  unfold Rdiv. rewrite Rmult_comm. f_equal. apply gsum_ext. intro p. ring.
Qed.

Lemma wscatter_nth (l : list (R * V7 R)) (m : V7 R) i j :
  m7nth (@msum R 0 Rplus (map (@WMoments.wouter R Rmult Rminus m) l)) i j
  = gsum (fun p => fst p * (v7nth (snd p) i - v7nth m i) * (v7nth (snd p) j - v7nth m j)) l.
Proof.
  induction l as [|p r IH]; [apply m7nth_Z7|].
  cbn [map]. unfold msum in *. cbn [fold_right]. rewrite gsum_cons, <- IH.
  unfold m7nth, madd at 1. rewrite v7nth_map2. unfold vadd at 1. rewrite v7nth_map2. f_equal.
  unfold WMoments.wouter, mscale, outer, vscale, vsub. rewrite !v7nth_map, !v7nth_map2. ring.
Qed.

Lemma wcorr_gsum (ws : list R) (xs : list (V7 R)) : length ws = length xs ->
  rwcorr ws = gsum (fun p => fst p) (combine ws xs) - gsum (fun p => fst p ^ 2) (combine ws xs) / gsum (fun p => fst p) (combine ws xs).
Proof.
  intro H. unfold WMoments.wcorr. rewrite (lsum_gsum ws xs H). rewrite <- (gsum_combine_f (fun w => w * w) ws xs H).
  unfold Rdiv. f_equal. f_equal. apply gsum_ext. intro p. ring.
Qed.

(* entry (i, j) of the weighted covariance matrix = unbiased_weighted_covariance of columns i and j *)
Lemma wcov_nth (ws : list R) (xs : list (V7 R)) i j : length ws = length xs ->
  m7nth (rwcov ws xs) i j
  = gen_unbiased_weighted_covariance (fun p => v7nth (snd p) i) (fun p => v7nth (snd p) j) (fun p : R * V7 R => fst p) (combine ws xs).
Proof.
  intro H. cbv beta zeta delta [gen_unbiased_weighted_covariance]. rewrite <- !(wmean_nth ws xs _ H), <- (wcorr_gsum ws xs H).
  unfold WMoments.wcov, WMoments.wscatter, m7nth, mscale. rewrite v7nth_map. unfold vscale. rewrite v7nth_map.
  fold (m7nth (@msum R 0 Rplus (map (@WMoments.wouter R Rmult Rminus (rwmean ws xs)) (combine ws xs))) i j).
  rewrite wscatter_nth. unfold Rdiv. apply Rmult_comm.
Qed.

(* the diagonal: unbiased_weighted_variance *)
Lemma wvar_is_wcov {S} (x w : S -> R) l : gen_unbiased_weighted_variance x w l = gen_unbiased_weighted_covariance x x w l.
Proof.
  cbv beta zeta delta [gen_unbiased_weighted_variance gen_unbiased_weighted_covariance]. f_equal. apply gsum_ext. intro p. ring.
Qed.

Section WM.
Variables (ws : list R) (xs : list (V7 R)).
Hypothesis Hlen : length ws = length xs.
Let l := combine ws xs.
Let P := fun p : R * V7 R => snd p.
Let s := fun p : R * V7 R => fst p.

Lemma wmoments_mu :
  c0 (rwmean ws xs) = gen_ParticleBeam_mu_x P s l /\ c1 (rwmean ws xs) = gen_ParticleBeam_mu_px P s l /\
  c2 (rwmean ws xs) = gen_ParticleBeam_mu_y P s l /\ c3 (rwmean ws xs) = gen_ParticleBeam_mu_py P s l /\
  c4 (rwmean ws xs) = gen_ParticleBeam_mu_tau P s l /\ c5 (rwmean ws xs) = gen_ParticleBeam_mu_p P s l.
Proof.
  repeat split;
  [ change (c0 (rwmean ws xs)) with (v7nth (rwmean ws xs) 0) | change (c1 (rwmean ws xs)) with (v7nth (rwmean ws xs) 1)
  | change (c2 (rwmean ws xs)) with (v7nth (rwmean ws xs) 2) | change (c3 (rwmean ws xs)) with (v7nth (rwmean ws xs) 3)
  | change (c4 (rwmean ws xs)) with (v7nth (rwmean ws xs) 4) | change (c5 (rwmean ws xs)) with (v7nth (rwmean ws xs) 5) ];
  rewrite (wmean_nth ws xs _ Hlen); reflexivity.
Qed.

Lemma wmoments_cov :
  m7nth (rwcov ws xs) 0 1 = gen_ParticleBeam_sigma_xpx P s l /\ m7nth (rwcov ws xs) 2 3 = gen_ParticleBeam_sigma_ypy P s l.
Proof. split; rewrite (wcov_nth ws xs _ _ Hlen); reflexivity. Qed.

Lemma wmoments_sigma :
  sqrt (m7nth (rwcov ws xs) 0 0) = gen_ParticleBeam_sigma_x P s l /\ sqrt (m7nth (rwcov ws xs) 1 1) = gen_ParticleBeam_sigma_px P s l /\
  sqrt (m7nth (rwcov ws xs) 2 2) = gen_ParticleBeam_sigma_y P s l /\ sqrt (m7nth (rwcov ws xs) 3 3) = gen_ParticleBeam_sigma_py P s l /\
  sqrt (m7nth (rwcov ws xs) 4 4) = gen_ParticleBeam_sigma_tau P s l /\ sqrt (m7nth (rwcov ws xs) 5 5) = gen_ParticleBeam_sigma_p P s l.
Proof.
  repeat split; rewrite (wcov_nth ws xs _ _ Hlen), <- wvar_is_wcov; reflexivity.
Qed.
End WM.

(** ** Aperture.track  vs  Diag/Aperture.v (over Q, transported by Q2R) *)
Definition xinj (m : Aperture.Qinf) : xR := match m with Aperture.Fin q => XFin (Q2R q) | Aperture.Inf => XPInf end.
Definition shinj (s : Aperture.shape) : apshape := match s with Aperture.Rect => Rectangular | Aperture.Ellip => Elliptical end.
Definition half_nonzero (m : Aperture.Qinf) : Prop := match m with Aperture.Fin q => ~ (q == 0)%Q | Aperture.Inf => True end.

Lemma Q2R_1 : Q2R 1 = 1.
Proof. unfold Q2R. cbn. lra. Qed.
Lemma Q2R_0 : Q2R 0 = 0.
Proof. unfold Q2R. cbn. lra. Qed.

Lemma Qltb_Rlt (a b : Q) : Aperture.Qltb a b = true <-> Q2R a < Q2R b.
Proof.
  unfold Aperture.Qltb. rewrite Bool.negb_true_iff. split.
  - intro H. apply Qlt_Rlt. apply Qnot_le_lt. intro H'. apply Qle_bool_iff in H'. congruence.
  - intro H. destruct (Qle_bool b a) eqn:E; [|reflexivity]. apply Qle_bool_iff in E. apply Qle_Rle in E. lra.
Qed.

Lemma lt_max_Rltx x m : Aperture.lt_max x m = true <-> Rltx (Q2R x) (xinj m).
Proof. destruct m as [q|]; cbn; [apply Qltb_Rlt | tauto]. Qed.
Lemma gt_negmax_Rgtx x m : Aperture.gt_negmax x m = true <-> Rgtx (Q2R x) (xopp (xinj m)).
Proof. destruct m as [q|]; cbn; [rewrite Qltb_Rlt, Q2R_opp; lra | tauto]. Qed.

Lemma if_dec_bool {P : Prop} (d : {P} + {~ P}) (b : bool) (u v : R) : (b = true <-> P) -> (if d then u else v) = (if b then u else v).
Proof. intros [H1 H2]. destruct d as [p|np], b; try reflexivity; [specialize (H2 p); discriminate | exfalso; apply np, H1; reflexivity]. Qed.

Lemma ell_term_xdiv x m : half_nonzero m ->
  exists a, Aperture.ell_term x m = Some a /\ Q2R a = xdiv (Q2R x ^ 2) (xpow (xinj m) 2).
Proof.
  destruct m as [q|]; cbn [half_nonzero Aperture.ell_term xinj xpow xdiv]; intro H.
  - destruct (Qeq_bool q 0) eqn:E; [apply Qeq_bool_iff in E; contradiction|].
    eexists; split; [reflexivity|].
    rewrite Q2R_div by (intro H0; apply H; apply Qmult_integral in H0; tauto).
    rewrite !Q2R_mult. unfold Rdiv. f_equal; [ring | f_equal; ring].
  - exists 0%Q. split; [reflexivity | apply Q2R_0].
Qed.

Lemma gen_Aperture_track_eq (a : Aperture.aperture) {S : Type} (P : S -> V7 R) (sv : S -> R) (i : S) (p : list Q) (s : Q) :
  c0 (P i) = Q2R (Aperture.px_ p) -> c2 (P i) = Q2R (Aperture.py_ p) -> sv i = Q2R s ->
  (Aperture.ap_shape a = Aperture.Ellip -> half_nonzero (Aperture.ap_xmax a) /\ half_nonzero (Aperture.ap_ymax a)) ->
  gen_Aperture_track (xinj (Aperture.ap_xmax a)) (xinj (Aperture.ap_ymax a)) (shinj (Aperture.ap_shape a)) P sv i
  = Q2R (s * Aperture.mask a p).
Proof.
  destruct a as [xm ym sh act]. cbn [Aperture.ap_xmax Aperture.ap_ymax Aperture.ap_shape]. intros Hx Hy Hs Hnz.
  rewrite Q2R_mult, <- Hs. unfold Aperture.mask, Aperture.inside. cbn [Aperture.ap_xmax Aperture.ap_ymax Aperture.ap_shape].
  destruct sh; cbv beta iota zeta delta [gen_Aperture_track shinj gen_ParticleBeam_x gen_ParticleBeam_y]; rewrite Hx, Hy; f_equal.
  - unfold Aperture.rect_in.
    rewrite (if_dec_bool _ (Aperture.gt_negmax (Aperture.px_ p) xm)) by apply gt_negmax_Rgtx.
    rewrite (if_dec_bool _ (Aperture.lt_max (Aperture.px_ p) xm)) by apply lt_max_Rltx.
    rewrite (if_dec_bool _ (Aperture.gt_negmax (Aperture.py_ p) ym)) by apply gt_negmax_Rgtx.
    rewrite (if_dec_bool _ (Aperture.lt_max (Aperture.py_ p) ym)) by apply lt_max_Rltx.
    destruct (Aperture.gt_negmax (Aperture.px_ p) xm), (Aperture.lt_max (Aperture.px_ p) xm),
             (Aperture.gt_negmax (Aperture.py_ p) ym), (Aperture.lt_max (Aperture.py_ p) ym); cbn; auto using Q2R_1, Q2R_0.
  - destruct (Hnz eq_refl) as [Hnx Hny].
    destruct (ell_term_xdiv (Aperture.px_ p) xm Hnx) as [ta [Ea Ra]].
    destruct (ell_term_xdiv (Aperture.py_ p) ym Hny) as [tb [Eb Rb]].
    unfold Aperture.ell_in. rewrite Ea, Eb, <- Ra, <- Rb.
    rewrite (if_dec_bool _ (Qle_bool (ta + tb) 1)).
    + destruct (Qle_bool (ta + tb) 1); auto using Q2R_1, Q2R_0.
    + rewrite Qle_bool_iff. rewrite <- Q2R_plus, <- Q2R_1 at 1. split; [apply Qle_Rle | apply Rle_Qle].
Qed.

(* precondition (the first assert of track): both half sizes are >= 0 *)
Lemma gen_Aperture_track_pre_eq (xm ym : xR) (sh : apshape) {S : Type} (P : S -> V7 R) (sv : S -> R) :
  gen_Aperture_track_pre xm ym sh P sv <-> Rlex 0 xm /\ Rlex 0 ym.
Proof. cbv beta iota zeta delta [gen_Aperture_track_pre]. destruct sh; tauto. Qed.

(** ** BPM reading of a ParticleBeam (Diag/Screen.v [centroid], over Q)  =  ParticleBeam.mu_x / mu_y  (C20)
    BPM.track itself (which getters it stacks, the dispatch on the beam type) is not translated. *)
Lemma Q2R_sumQ {T} (g : T -> Q) (l : list T) : Q2R (Screen.sumQ (map g l)) = gsum (fun p => Q2R (g p)) l.
Proof.
  induction l as [|p r IH]; [unfold Q2R; cbn; lra|].
  cbn [map]. unfold Screen.sumQ in *. cbn [fold_right]. rewrite Q2R_plus, IH. reflexivity.
Qed.

(* a Screen.v particle as a sample: coordinates (x, px, y, py, 0, 0, 1), survival probability p_s *)
Definition scr_row (p : Screen.particle) : V7 R :=
  mk7 (Q2R (Screen.p_x p)) (Q2R (Screen.p_px p)) (Q2R (Screen.p_y p)) (Q2R (Screen.p_py p)) 0 0 1.
Definition scr_surv (p : Screen.particle) : R := Q2R (Screen.p_s p).

Lemma bpm_centroid_mu_x (ps : list Screen.particle) : ~ (Screen.sumQ (map Screen.p_s ps) == 0)%Q ->
  gen_ParticleBeam_mu_x scr_row scr_surv ps = Q2R (Screen.centroid Screen.p_x ps).
Proof.
  intro H. unfold Screen.centroid. rewrite Q2R_div by exact H. rewrite !Q2R_sumQ.
  cbv beta delta [gen_ParticleBeam_mu_x gen_ParticleBeam_x]. unfold Rdiv. f_equal.
  apply gsum_ext. intro p. rewrite Q2R_mult. reflexivity.
Qed.
Lemma bpm_centroid_mu_y (ps : list Screen.particle) : ~ (Screen.sumQ (map Screen.p_s ps) == 0)%Q ->
  gen_ParticleBeam_mu_y scr_row scr_surv ps = Q2R (Screen.centroid Screen.p_y ps).
Proof.
  intro H. unfold Screen.centroid. rewrite Q2R_div by exact H. rewrite !Q2R_sumQ.
  cbv beta delta [gen_ParticleBeam_mu_y gen_ParticleBeam_y]. unfold Rdiv. f_equal.
  apply gsum_ext. intro p. rewrite Q2R_mult. reflexivity.
Qed.
