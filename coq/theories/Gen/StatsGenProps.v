(** Final statements of the translator tie for the beam statistics and diagnostics: every definition regenerated from
    /repo's source text by harness/translate_stats.py (Gen/StatsGen.v) equals the hand-written model.  Statements are
    spelled out; proofs are in Gen/StatsGenEquiv.v.  Like that file, this one is compiled by harness/translate_stage.py
    against the FRESH StatsGen.v (import lines redirected; keep them on one line each).

    Reading of the statements: the particle axis is a list [l] of samples of an arbitrary type [S]; [x y w : S -> R] are
    tensors along it; [P : S -> V7 R] are the particles, [s] the survival probabilities, [q] the charges;
    [tri x y w i = (x i, y i, w i)] and [plane P s a b i = (a (P i), b (P i), s i)] are the triples (x, y, weight) on
    which Beam/WStats.v and Beam/TwCorr.v are stated. *)
From Coq Require Import QArith Qreals Reals List.
From Cheetah Require Import Base.Mat Optics.Maps Beam.Moments Beam.WMoments Beam.WStats Beam.Twiss Beam.TwCorr Beam.SI Gen.StatsGenBase.
From Cheetah Require Diag.Aperture Diag.Screen.
From Cheetah.Gen Require Import StatsGen.
From Cheetah.Gen Require Import StatsGenEquiv.
Import ListNotations.
Open Scope R_scope.

(** ** cheetah/utils/statistics.py = Beam/WStats.v *)
Theorem tr_unbiased_weighted_covariance : forall l : list smp, gen_unbiased_weighted_covariance sx sy sw l = wcov l.
Proof. exact gen_unbiased_weighted_covariance_eq. Qed.
Print Assumptions tr_unbiased_weighted_covariance.

Theorem tr_unbiased_weighted_variance : forall l : list smp, gen_unbiased_weighted_variance sx sw l = wvar l.
Proof. exact gen_unbiased_weighted_variance_eq. Qed.
Print Assumptions tr_unbiased_weighted_variance.

Theorem tr_unbiased_weighted_std : forall l : list smp, gen_unbiased_weighted_std sx sw l = wstd l.
Proof. exact gen_unbiased_weighted_std_eq. Qed.
Print Assumptions tr_unbiased_weighted_std.

Theorem tr_unbiased_weighted_covariance_any_sample : forall (S : Type) (x y w : S -> R) (l : list S),
  gen_unbiased_weighted_covariance x y w l = wcov (map (fun i => (x i, y i, w i)) l).
Proof. intros. apply gen_unbiased_weighted_covariance_gen. Qed.
Print Assumptions tr_unbiased_weighted_covariance_any_sample.

Theorem tr_unbiased_weighted_variance_any_sample : forall (S : Type) (x y w : S -> R) (l : list S),
  gen_unbiased_weighted_variance x w l = wvar (map (fun i => (x i, y i, w i)) l).
Proof. intros. apply (gen_unbiased_weighted_variance_gen x y w). Qed.
Print Assumptions tr_unbiased_weighted_variance_any_sample.

Theorem tr_unbiased_weighted_std_any_sample : forall (S : Type) (x y w : S -> R) (l : list S),
  gen_unbiased_weighted_std x w l = wstd (map (fun i => (x i, y i, w i)) l).
Proof. intros. apply (gen_unbiased_weighted_std_gen x y w). Qed.
Print Assumptions tr_unbiased_weighted_std_any_sample.

(** ** ParticleBeam getters = Beam/WStats.v / Beam/TwCorr.v on the triples (coordinate, coordinate', survival) *)
Theorem tr_ParticleBeam_coordinates : forall (S : Type) (P : S -> V7 R) (i : S),
  gen_ParticleBeam_x P i = c0 (P i) /\ gen_ParticleBeam_px P i = c1 (P i) /\ gen_ParticleBeam_y P i = c2 (P i) /\
  gen_ParticleBeam_py P i = c3 (P i) /\ gen_ParticleBeam_tau P i = c4 (P i) /\ gen_ParticleBeam_p P i = c5 (P i).
Proof. intros. repeat split. Qed.
Print Assumptions tr_ParticleBeam_coordinates.

Theorem tr_ParticleBeam_mu : forall (S : Type) (P : S -> V7 R) (s : S -> R) (l : list S),
  gen_ParticleBeam_mu_x P s l = wmean_x (map (fun i => (c0 (P i), c1 (P i), s i)) l) /\
  gen_ParticleBeam_mu_px P s l = wmean_y (map (fun i => (c0 (P i), c1 (P i), s i)) l) /\
  gen_ParticleBeam_mu_y P s l = wmean_x (map (fun i => (c2 (P i), c3 (P i), s i)) l) /\
  gen_ParticleBeam_mu_py P s l = wmean_y (map (fun i => (c2 (P i), c3 (P i), s i)) l) /\
  gen_ParticleBeam_mu_tau P s l = wmean_x (map (fun i => (c4 (P i), c5 (P i), s i)) l) /\
  gen_ParticleBeam_mu_p P s l = wmean_y (map (fun i => (c4 (P i), c5 (P i), s i)) l).
Proof.
  intros. repeat split;
    [apply gen_ParticleBeam_mu_x_eq | apply gen_ParticleBeam_mu_px_eq | apply gen_ParticleBeam_mu_y_eq
    | apply gen_ParticleBeam_mu_py_eq | apply gen_ParticleBeam_mu_tau_eq | apply gen_ParticleBeam_mu_p_eq].
Qed.
Print Assumptions tr_ParticleBeam_mu.

Theorem tr_ParticleBeam_sigma : forall (S : Type) (P : S -> V7 R) (s : S -> R) (l : list S),
  gen_ParticleBeam_sigma_x P s l = pb_sigx (map (fun i => (c0 (P i), c1 (P i), s i)) l) /\
  gen_ParticleBeam_sigma_px P s l = pb_sigpx (map (fun i => (c0 (P i), c1 (P i), s i)) l) /\
  gen_ParticleBeam_sigma_y P s l = pb_sigx (map (fun i => (c2 (P i), c3 (P i), s i)) l) /\
  gen_ParticleBeam_sigma_py P s l = pb_sigpx (map (fun i => (c2 (P i), c3 (P i), s i)) l) /\
  gen_ParticleBeam_sigma_tau P s l = pb_sigx (map (fun i => (c4 (P i), c5 (P i), s i)) l) /\
  gen_ParticleBeam_sigma_p P s l = pb_sigpx (map (fun i => (c4 (P i), c5 (P i), s i)) l).
Proof.
  intros. repeat split;
    [apply gen_ParticleBeam_sigma_x_eq | apply gen_ParticleBeam_sigma_px_eq | apply gen_ParticleBeam_sigma_y_eq
    | apply gen_ParticleBeam_sigma_py_eq | apply gen_ParticleBeam_sigma_tau_eq | apply gen_ParticleBeam_sigma_p_eq].
Qed.
Print Assumptions tr_ParticleBeam_sigma.

Theorem tr_ParticleBeam_cov : forall (S : Type) (P : S -> V7 R) (s : S -> R) (l : list S),
  gen_ParticleBeam_sigma_xpx P s l = wcov (map (fun i => (c0 (P i), c1 (P i), s i)) l) /\
  gen_ParticleBeam_sigma_ypy P s l = wcov (map (fun i => (c2 (P i), c3 (P i), s i)) l).
Proof. intros. split; [apply gen_ParticleBeam_sigma_xpx_eq | apply gen_ParticleBeam_sigma_ypy_eq]. Qed.
Print Assumptions tr_ParticleBeam_cov.

Theorem tr_ParticleBeam_total_charge : forall qs ss : list R,
  gen_ParticleBeam_total_charge (fun p : R * R => fst p) (fun p => snd p) (combine qs ss) = @lsum R 0 Rplus (zipmul Rmult qs ss).
Proof. exact gen_ParticleBeam_total_charge_eq. Qed.
Print Assumptions tr_ParticleBeam_total_charge.

Theorem tr_ParticleBeam_num_particles_survived : forall (S : Type) (P : S -> V7 R) (s : S -> R) (l : list S),
  gen_ParticleBeam_num_particles_survived s l = wtot (map (fun i => (c0 (P i), c1 (P i), s i)) l).
Proof. intros. apply (gen_ParticleBeam_num_particles_survived_eq P s l (@c0 R) (@c1 R)). Qed.
Print Assumptions tr_ParticleBeam_num_particles_survived.

(** ** Beam: reference quantities = Beam/SI.v, Twiss getters = Beam/Twiss.v *)
Theorem tr_Beam_relativistic_gamma : forall E : R, gen_Beam_relativistic_gamma E = si_gamma0 E m_e.
Proof. exact gen_Beam_relativistic_gamma_eq. Qed.
Print Assumptions tr_Beam_relativistic_gamma.

Theorem tr_Beam_relativistic_beta : forall E : R, gen_Beam_relativistic_beta E = si_beta0 E m_e.
Proof. exact gen_Beam_relativistic_beta_eq. Qed.
Print Assumptions tr_Beam_relativistic_beta.

Theorem tr_Beam_relativistic_beta_pre : forall E : R, gen_Beam_relativistic_beta_pre E <-> 0 <= si_gamma0 E m_e.
Proof. exact gen_Beam_relativistic_beta_pre_eq. Qed.
Print Assumptions tr_Beam_relativistic_beta_pre.

Theorem tr_Beam_twiss_x : forall tiny sx spx sxpx : R,
  gen_Beam_emittance_x tiny sx spx sxpx = emittance tiny sx spx sxpx /\
  gen_Beam_beta_x tiny sx spx sxpx = tbeta tiny sx spx sxpx /\
  gen_Beam_alpha_x tiny sx spx sxpx = talpha tiny sx spx sxpx.
Proof. intros. repeat split. Qed.
Print Assumptions tr_Beam_twiss_x.

Theorem tr_Beam_twiss_y : forall tiny sy spy sypy : R,
  gen_Beam_emittance_y tiny sy spy sypy = emittance tiny sy spy sypy /\
  gen_Beam_beta_y tiny sy spy sypy = tbeta tiny sy spy sypy /\
  gen_Beam_alpha_y tiny sy spy sypy = talpha tiny sy spy sypy.
Proof. intros. repeat split. Qed.
Print Assumptions tr_Beam_twiss_y.

Theorem tr_Beam_normalized_emittance : forall tiny s sp spp E : R,
  gen_Beam_normalized_emittance_x tiny s sp spp E = norm_emittance tiny s sp spp (si_beta0 E m_e) (si_gamma0 E m_e) /\
  gen_Beam_normalized_emittance_y tiny s sp spp E = norm_emittance tiny s sp spp (si_beta0 E m_e) (si_gamma0 E m_e).
Proof. intros. split; [apply gen_Beam_normalized_emittance_x_eq | apply gen_Beam_normalized_emittance_y_eq]. Qed.
Print Assumptions tr_Beam_normalized_emittance.

(* the Twiss parameters of a ParticleBeam: Beam getters on ParticleBeam getters = Beam/TwCorr.v *)
Theorem tr_ParticleBeam_twiss : forall (tiny : R) (S : Type) (P : S -> V7 R) (s : S -> R) (l : list S),
  let sig_x := gen_ParticleBeam_sigma_x P s l in let sig_px := gen_ParticleBeam_sigma_px P s l in
  let sig_xpx := gen_ParticleBeam_sigma_xpx P s l in
  gen_Beam_emittance_x tiny sig_x sig_px sig_xpx = pb_emittance tiny (map (fun i => (c0 (P i), c1 (P i), s i)) l) /\
  gen_Beam_beta_x tiny sig_x sig_px sig_xpx = pb_beta tiny (map (fun i => (c0 (P i), c1 (P i), s i)) l) /\
  gen_Beam_alpha_x tiny sig_x sig_px sig_xpx = pb_alpha tiny (map (fun i => (c0 (P i), c1 (P i), s i)) l).
Proof. intros. repeat split; [apply pb_emittance_compose | apply pb_beta_compose | apply pb_alpha_compose]. Qed.
Print Assumptions tr_ParticleBeam_twiss.

(** ** ParameterBeam getters = Beam/Twiss.v *)
Theorem tr_ParameterBeam_mu : forall mu : V7 R,
  gen_ParameterBeam_mu_x mu = c0 mu /\ gen_ParameterBeam_mu_px mu = c1 mu /\ gen_ParameterBeam_mu_y mu = c2 mu /\
  gen_ParameterBeam_mu_py mu = c3 mu /\ gen_ParameterBeam_mu_tau mu = c4 mu /\ gen_ParameterBeam_mu_p mu = c5 mu.
Proof. intros. repeat split. Qed.
Print Assumptions tr_ParameterBeam_mu.

Theorem tr_ParameterBeam_sigma : forall cov : M7 R,
  gen_ParameterBeam_sigma_x cov = sqrt (Rmax (m7nth cov 0 0) 1e-20) /\ gen_ParameterBeam_sigma_px cov = sqrt (Rmax (m7nth cov 1 1) 1e-20) /\
  gen_ParameterBeam_sigma_y cov = sqrt (Rmax (m7nth cov 2 2) 1e-20) /\ gen_ParameterBeam_sigma_py cov = sqrt (Rmax (m7nth cov 3 3) 1e-20) /\
  gen_ParameterBeam_sigma_tau cov = sqrt (Rmax (m7nth cov 4 4) 1e-20) /\ gen_ParameterBeam_sigma_p cov = sqrt (Rmax (m7nth cov 5 5) 1e-20) /\
  gen_ParameterBeam_sigma_xpx cov = m7nth cov 0 1 /\ gen_ParameterBeam_sigma_ypy cov = m7nth cov 2 3.
Proof. intros. repeat split. Qed.
Print Assumptions tr_ParameterBeam_sigma.

Theorem tr_ParameterBeam_twiss : forall (tiny : R) (cov : M7 R),
  let sig_x := gen_ParameterBeam_sigma_x cov in let sig_px := gen_ParameterBeam_sigma_px cov in
  let sig_xpx := gen_ParameterBeam_sigma_xpx cov in
  gen_Beam_emittance_x tiny sig_x sig_px sig_xpx = pemittance tiny (m7nth cov 0 0) (m7nth cov 0 1) (m7nth cov 1 1) /\
  gen_Beam_beta_x tiny sig_x sig_px sig_xpx = pbeta tiny (m7nth cov 0 0) (m7nth cov 0 1) (m7nth cov 1 1) /\
  gen_Beam_alpha_x tiny sig_x sig_px sig_xpx = palpha tiny (m7nth cov 0 0) (m7nth cov 0 1) (m7nth cov 1 1).
Proof. intros. repeat split. Qed.
Print Assumptions tr_ParameterBeam_twiss.

(** ** ParticleBeam getters = entries of the survival-weighted mean vector / covariance matrix of Beam/WMoments.v at R (C06).
    The beam is the zip of the survival probabilities [ws] and the particle rows [xs] (equal lengths, as torch demands). *)
Theorem tr_ParticleBeam_wmoments_mu : forall (ws : list R) (xs : list (V7 R)), length ws = length xs ->
  let m := @WMoments.wmean R 0 Rplus Rmult Rinv ws xs in
  let P := fun p : R * V7 R => snd p in let s := fun p : R * V7 R => fst p in let l := combine ws xs in
  c0 m = gen_ParticleBeam_mu_x P s l /\ c1 m = gen_ParticleBeam_mu_px P s l /\ c2 m = gen_ParticleBeam_mu_y P s l /\
  c3 m = gen_ParticleBeam_mu_py P s l /\ c4 m = gen_ParticleBeam_mu_tau P s l /\ c5 m = gen_ParticleBeam_mu_p P s l.
Proof. intros ws xs H. exact (wmoments_mu ws xs H). Qed.
Print Assumptions tr_ParticleBeam_wmoments_mu.

Theorem tr_ParticleBeam_wmoments_cov : forall (ws : list R) (xs : list (V7 R)), length ws = length xs ->
  let C := @WMoments.wcov R 0 Rplus Rmult Rminus Rinv ws xs in
  let P := fun p : R * V7 R => snd p in let s := fun p : R * V7 R => fst p in let l := combine ws xs in
  m7nth C 0 1 = gen_ParticleBeam_sigma_xpx P s l /\ m7nth C 2 3 = gen_ParticleBeam_sigma_ypy P s l /\
  sqrt (m7nth C 0 0) = gen_ParticleBeam_sigma_x P s l /\ sqrt (m7nth C 1 1) = gen_ParticleBeam_sigma_px P s l /\
  sqrt (m7nth C 2 2) = gen_ParticleBeam_sigma_y P s l /\ sqrt (m7nth C 3 3) = gen_ParticleBeam_sigma_py P s l /\
  sqrt (m7nth C 4 4) = gen_ParticleBeam_sigma_tau P s l /\ sqrt (m7nth C 5 5) = gen_ParticleBeam_sigma_p P s l.
Proof.
  intros ws xs H. cbv zeta. destruct (wmoments_cov ws xs H) as [H1 H2]. split; [exact H1|]. split; [exact H2|]. exact (wmoments_sigma ws xs H).
Qed.
Print Assumptions tr_ParticleBeam_wmoments_cov.

(* every entry of the weighted covariance matrix is unbiased_weighted_covariance of the two columns *)
Theorem tr_wcov_entry : forall (ws : list R) (xs : list (V7 R)) (i j : nat), length ws = length xs ->
  m7nth (@WMoments.wcov R 0 Rplus Rmult Rminus Rinv ws xs) i j
  = gen_unbiased_weighted_covariance (fun p => v7nth (snd p) i) (fun p => v7nth (snd p) j) (fun p : R * V7 R => fst p) (combine ws xs).
Proof. exact wcov_nth. Qed.
Print Assumptions tr_wcov_entry.

(** ** Aperture.track = Diag/Aperture.v (C10).  For ONE particle [p] (row of coordinates over Q) with incoming survival
    probability [s]: the regenerated new survival probability, on the Q2R images of the inputs, is Q2R of the model's
    [s * mask a p].  [Aperture.Inf] (the constructor default +inf) is the extended real XPInf.  For the elliptical shape
    a zero half size is excluded: the code divides by it (IEEE inf / nan, never <= 1; the model says "not inside"),
    which the real-number reading of the division cannot express. *)
Theorem tr_Aperture_track : forall (a : Aperture.aperture) (S : Type) (P : S -> V7 R) (sv : S -> R) (i : S) (p : list Q) (s : Q),
  c0 (P i) = Q2R (Aperture.px_ p) -> c2 (P i) = Q2R (Aperture.py_ p) -> sv i = Q2R s ->
  (Aperture.ap_shape a = Aperture.Ellip ->
     (match Aperture.ap_xmax a with Aperture.Fin q => ~ (q == 0)%Q | Aperture.Inf => True end) /\
     (match Aperture.ap_ymax a with Aperture.Fin q => ~ (q == 0)%Q | Aperture.Inf => True end)) ->
  gen_Aperture_track (match Aperture.ap_xmax a with Aperture.Fin q => XFin (Q2R q) | Aperture.Inf => XPInf end)
                     (match Aperture.ap_ymax a with Aperture.Fin q => XFin (Q2R q) | Aperture.Inf => XPInf end)
                     (match Aperture.ap_shape a with Aperture.Rect => Rectangular | Aperture.Ellip => Elliptical end) P sv i
  = Q2R (s * Aperture.mask a p).
Proof. intros a S P sv i p s. exact (@gen_Aperture_track_eq a S P sv i p s). Qed.
Print Assumptions tr_Aperture_track.

Theorem tr_Aperture_track_pre : forall (xm ym : xR) (sh : apshape) (S : Type) (P : S -> V7 R) (sv : S -> R),
  gen_Aperture_track_pre xm ym sh P sv <-> Rlex 0 xm /\ Rlex 0 ym.
Proof. intros. apply gen_Aperture_track_pre_eq. Qed.
Print Assumptions tr_Aperture_track_pre.

(** ** the BPM reading of a ParticleBeam (Diag/Screen.v [centroid] over Q) = ParticleBeam.mu_x / mu_y (C20).
    A Screen.v particle is the sample with row (x, px, y, py, 0, 0, 1) and survival probability p_s, through Q2R. *)
Theorem tr_bpm_centroid : forall ps : list Screen.particle, ~ (Screen.sumQ (map Screen.p_s ps) == 0)%Q ->
  let P := fun p => mk7 (Q2R (Screen.p_x p)) (Q2R (Screen.p_px p)) (Q2R (Screen.p_y p)) (Q2R (Screen.p_py p)) 0 0 1 in
  let s := fun p => Q2R (Screen.p_s p) in
  gen_ParticleBeam_mu_x P s ps = Q2R (Screen.centroid Screen.p_x ps) /\
  gen_ParticleBeam_mu_y P s ps = Q2R (Screen.centroid Screen.p_y ps).
Proof. intros ps H. split; [exact (bpm_centroid_mu_x ps H) | exact (bpm_centroid_mu_y ps H)]. Qed.
Print Assumptions tr_bpm_centroid.
