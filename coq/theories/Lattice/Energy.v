(** Accounting along a lattice (energy, charges, survival): definitions on top of the generic
    Segment model (Track.v).  [leaves] is the flattened leaf order; [Chain ls b b'] says that [b']
    is reached from [b] by the leaf transitions of [ls], in order, interleaved with "neutral"
    steps [N] (what applying a merged linear transfer map does).  Also the executable Q instance
    [qtrack] (apertures, screens, exact drifts, energy kicks) used by the correspondence run.
    Nothing is proved here -- see EnergyProofs.v. *)
From Coq Require Import List Bool String QArith.
From Cheetah Require Import Lattice.Track Diag.Aperture.
Import ListNotations.

Set Implicit Arguments.
Section Defs.
Variables (B L : Type).
Variable skip : L -> bool.                 (* leaf.is_skippable *)
Variable ltrack : L -> B -> B.             (* leaf.track *)
Variable N : B -> B -> Prop.               (* neutral step *)

(* leaves in flattened order *)
Fixpoint leaves (e : elem L) : list L :=
  match e with Leaf l => [l] | Seg _ es => flat_map leaves es end.

(* a skippable leaf may have been merged into a transfer map (neutral); any other is tracked by its own track *)
Definition lstep (l : L) (b0 b1 : B) : Prop := if skip l then N b0 b1 else b1 = ltrack l b0.

Fixpoint Chain (ls : list L) (b b' : B) : Prop :=
  match ls with
  | [] => N b b'
  | l :: r => exists b0 b1, N b b0 /\ lstep l b0 b1 /\ Chain r b1 b'
  end.
End Defs.

(** ---- executable instance over Q *)
Open Scope Q_scope.

Inductive qkind :=
| QAp (a : aperture)           (* Aperture *)
| QScr (s : screen)            (* Screen (outgoing beam only) *)
| QDrift (len : Q)             (* Drift, transverse part: x += L px, y += L py *)
| QCav (V c : Q)               (* energy kick: E += V * c  (c stands for cos(phase)); skippable iff V = 0 *)
| QMark.                       (* Marker *)

Definition drift_map (len : Q) (p : list Q) : list Q :=
  match p with
  | [x; px; y; py; t; d; o] => [x + len * px; px; y + len * py; py; t; d; o]
  | _ => p
  end.

Definition qmap := list Q -> list Q.
Definition qapp (f : qmap) (b : beam) : beam :=
  match b with
  | PBeam pb => PBeam (mkpb (map f (parts pb)) (energy pb) (charges pb) (surv pb))
  | QBeam qb => QBeam (mkqb (f (mu qb)) (cov qb) (penergy qb) (qb_charge qb))
  end.
Definition qen (b : beam) : Q := match b with PBeam pb => energy pb | QBeam qb => penergy qb end.
Definition qskip (k : qkind) : bool :=
  match k with
  | QAp a => negb (ap_active a)
  | QScr s => negb (scr_active s)
  | QDrift _ => true
  | QCav V _ => Qeq_bool V 0
  | QMark => true
  end.
Definition qtmap (k : qkind) (_ : Q) : qmap :=
  match k with QDrift len => drift_map len | _ => fun p => p end.
Definition add_energy (g : Q) (b : beam) : beam :=
  match b with
  | PBeam pb => PBeam (mkpb (parts pb) (energy pb + g) (charges pb) (surv pb))
  | QBeam qb => QBeam (mkqb (mu qb) (cov qb) (penergy qb + g) (qb_charge qb))
  end.
Definition qltrack (k : qkind) (b : beam) : beam :=
  match k with
  | QAp a => ap_track a b
  | QScr s => scr_track s b
  | QDrift len => qapp (drift_map len) b
  | QCav V c => if Qeq_bool V 0 then b else add_energy (V * c) b
  | QMark => b
  end.

Definition qtrack : elem qkind -> beam -> beam :=
  track (fun p => p) (fun f g p => f (g p)) qapp qen qskip qtmap qltrack.

(* observables of either beam type *)
Definition bsurv (b : beam) : list Q := match b with PBeam pb => surv pb | QBeam _ => [] end.
Definition bcharges (b : beam) : list Q := match b with PBeam pb => charges pb | QBeam _ => [] end.
Definition bcount (b : beam) : nat := match b with PBeam pb => List.length (parts pb) | QBeam _ => 0%nat end.
(* total (surviving) charge: sum(q * s) for particles, the total_charge attribute otherwise *)
Definition btotal (b : beam) : Q :=
  match b with
  | PBeam pb => (fix dot (qs ss : list Q) : Q := match qs, ss with q :: qr, s :: sr => q * s + dot qr sr | _, _ => 0 end) (charges pb) (surv pb)
  | QBeam qb => qb_charge qb
  end.
Definition qblocks (k : qkind) : bool := match k with QScr s => scr_active s && scr_blocking s | _ => false end.

(* ---- case checker of the correspondence run: a lattice of apertures / screens / drifts / markers,
   nested arbitrarily, tracked by the real Segment.track; x, px, y, py, charges, survival, energy compared *)
Definition first4 (p : list Q) : list Q := firstn 4 p.
Record latcase := mklat { lc_tree : elem qkind; lc_in : pbeam; lc_out : pbeam }.
Definition lat_check (c : latcase) : bool :=
  match qtrack (lc_tree c) (PBeam (lc_in c)) with
  | PBeam o => qmat_eqb (map first4 (parts o)) (map first4 (parts (lc_out c))) &&
               Qeq_bool (energy o) (energy (lc_out c)) &&
               qlist_eqb (charges o) (charges (lc_out c)) && qlist_eqb (surv o) (surv (lc_out c))
  | QBeam _ => false
  end.
