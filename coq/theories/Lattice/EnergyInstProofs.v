(** The executable Q instance [qtrack] (Energy.v) meets the leaf contracts of EnergyProofs.v:
    the contracts are discharged for the modelled classes (Aperture, Screen, Drift, energy kick,
    Marker), so the accounting theorems hold of the very function that is run against cheetah. *)
From Coq Require Import List Bool String QArith Lia.
From Cheetah Require Import Lattice.Track Lattice.Energy Lattice.EnergyProofs Diag.Aperture Diag.ApertureProofs.
Import ListNotations.
Open Scope Q_scope.

Lemma bsurv_app : forall f b, bsurv (qapp f b) = bsurv b.
Proof. intros f [pb|qb]; reflexivity. Qed.

Lemma zeros_shrink : forall l, shrinks (map (fun _ => 0) l) l.
Proof.
  induction l as [|s l IH]; constructor; [|exact IH].
  intros [H0 H1]. split; [split; [apply Qle_refl|discriminate]|assumption].
Qed.

Lemma bsurv_leaf : forall k b, shrinks (bsurv (qltrack k b)) (bsurv b).
Proof.
  intros [a|s|len|V c|] [pb|qb]; cbn; try apply shrinks_refl.
  - destruct (ap_active a); cbn; [apply aperture_surv_shrinks | apply shrinks_refl].
  - unfold scr_track. destruct (scr_active s && scr_blocking s); cbn; [apply zeros_shrink | apply shrinks_refl].
  - unfold scr_track. destruct (scr_active s && scr_blocking s); cbn; apply shrinks_refl.
  - destruct (Qeq_bool V 0); cbn; apply shrinks_refl.
  - destruct (Qeq_bool V 0); cbn; apply shrinks_refl.
Qed.

Lemma bsurv_skip : forall k b, qskip k = true -> bsurv (qltrack k b) = bsurv b.
Proof.
  intros [a|s|len|V c|] b H; cbn in *; try reflexivity.
  - apply negb_true_iff in H. rewrite (aperture_inactive_identity a b H). reflexivity.
  - apply negb_true_iff in H. unfold scr_track. rewrite H. reflexivity.
  - apply bsurv_app.
  - rewrite H. reflexivity.
Qed.

Theorem qtrack_surv_shrinks : forall e b, shrinks (bsurv (qtrack e b)) (bsurv b).
Proof. intros e b. apply lattice_surv_shrinks; [apply bsurv_app | apply bsurv_leaf | apply bsurv_skip]. Qed.

Theorem qtrack_surv_range : forall e b, Forall in01 (bsurv b) -> Forall in01 (bsurv (qtrack e b)).
Proof. intros e b. apply lattice_surv_range; [apply bsurv_app | apply bsurv_leaf | apply bsurv_skip]. Qed.

Theorem qtrack_surv_monotone : forall e b, Forall in01 (bsurv b) -> Forall2 Qle (bsurv (qtrack e b)) (bsurv b).
Proof. intros e b. apply lattice_surv_monotone; [apply bsurv_app | apply bsurv_leaf | apply bsurv_skip]. Qed.

Lemma qblocks_nonskip : forall k, qblocks k = true -> qskip k = false.
Proof. intros [a|s|len|V c|] H; cbn in *; try discriminate. apply andb_prop in H as [H _]. rewrite H. reflexivity. Qed.

Lemma qblocks_zero : forall k b, qblocks k = true -> Forall (fun s => s == 0) (bsurv (qltrack k b)).
Proof.
  intros [a|s|len|V c|] b H; cbn in *; try discriminate. unfold scr_track. rewrite H.
  destruct b as [pb|qb]; cbn; [|constructor].
  induction (surv pb); cbn; constructor; [reflexivity|assumption].
Qed.

Theorem qtrack_blocking_screen : forall e b, existsb qblocks (leaves e) = true ->
  Forall (fun s => s == 0) (bsurv (qtrack e b)).
Proof.
  intros e b. apply lattice_blocking_screen with (blocks := qblocks);
    [apply bsurv_app | apply bsurv_leaf | apply bsurv_skip | apply qblocks_nonskip | apply qblocks_zero].
Qed.

(* individual charges and the number of particles never change *)
Theorem qtrack_charges_const : forall e b, bcharges (qtrack e b) = bcharges b.
Proof.
  intros e b. apply obs_const.
  - intros f [pb|qb]; reflexivity.
  - intros [a|s|len|V c|] [pb|qb]; cbn; try reflexivity.
    + destruct (ap_active a); reflexivity.
    + unfold scr_track. destruct (_ && _); reflexivity.
    + unfold scr_track. destruct (_ && _); reflexivity.
    + destruct (Qeq_bool V 0); reflexivity.
    + destruct (Qeq_bool V 0); reflexivity.
Qed.

Theorem qtrack_count_const : forall e b, bcount (qtrack e b) = bcount b.
Proof.
  intros e b. apply obs_const.
  - intros f [pb|qb]; cbn; [apply map_length|reflexivity].
  - intros [a|s|len|V c|] [pb|qb]; cbn; try reflexivity.
    + destruct (ap_active a); reflexivity.
    + unfold scr_track. destruct (_ && _); reflexivity.
    + unfold scr_track. destruct (_ && _); reflexivity.
    + apply map_length.
    + destruct (Qeq_bool V 0); reflexivity.
    + destruct (Qeq_bool V 0); reflexivity.
Qed.

(* reference energy: only the energy kicks change it, identically for both beam types *)
Definition qgain (k : qkind) (x : Q) : Q :=
  match k with QCav V c => if Qeq_bool V 0 then x else x + V * c | _ => x end.

Theorem qtrack_energy : forall e b, qen (qtrack e b) = fold_left (fun x k => qgain k x) (leaves e) (qen b).
Proof.
  intros e b. apply (@obs_fold qmap beam Q qkind (fun p => p) (fun f g p => f (g p)) qapp qen qskip qtmap qltrack Q qen qgain).
  - intros f [pb|qb]; reflexivity.
  - intros [a|s|len|V c|] [pb|qb]; cbn; try reflexivity.
    + destruct (ap_active a); reflexivity.
    + unfold scr_track. destruct (_ && _); reflexivity.
    + unfold scr_track. destruct (_ && _); reflexivity.
    + destruct (Qeq_bool V 0); reflexivity.
    + destruct (Qeq_bool V 0); reflexivity.
  - intros [a|s|len|V c|] x H; cbn in *; try reflexivity. rewrite H. reflexivity.
Qed.

(* ParameterBeam: the total charge is forwarded by everything except a blocking active screen, which zeroes it *)
Definition ptotal (b : beam) : Q := match b with QBeam qb => qb_charge qb | PBeam _ => 0 end.

Lemma fold_blocks : forall ls x, fold_left (fun x k => if qblocks k then 0 else x) ls x = if existsb qblocks ls then 0 else x.
Proof.
  induction ls as [|k r IH]; intros x; cbn; [reflexivity|]. rewrite IH.
  destruct (qblocks k); cbn; [destruct (existsb qblocks r)|]; reflexivity.
Qed.

Theorem qtrack_param_charge : forall e qb,
  ptotal (qtrack e (QBeam qb)) = if existsb qblocks (leaves e) then 0 else qb_charge qb.
Proof.
  intros e qb. rewrite <- (fold_blocks (leaves e)).
  apply (@obs_fold qmap beam Q qkind (fun p => p) (fun f g p => f (g p)) qapp qen qskip qtmap qltrack Q ptotal
          (fun k x => if qblocks k then 0 else x)).
  - intros f [pb|b]; reflexivity.
  - intros [a|s|len|V c|] [pb|b]; cbn; try reflexivity.
    + destruct (ap_active a); reflexivity.
    + unfold scr_track. destruct (_ && _); reflexivity.
    + unfold scr_track. destruct (_ && _); reflexivity.
    + destruct (Qeq_bool V 0); reflexivity.
    + destruct (Qeq_bool V 0); reflexivity.
  - intros k x H. destruct (qblocks k) eqn:Bk; [|reflexivity].
    rewrite (qblocks_nonskip _ Bk) in H. discriminate.
Qed.

(* ParticleBeam: all survival zero => no surviving charge *)
Lemma btotal_zero : forall pb, Forall (fun s => s == 0) (surv pb) -> btotal (PBeam pb) == 0.
Proof.
  intros pb. cbn. generalize (charges pb) as qs. induction (surv pb) as [|s ss IH]; intros qs H.
  - destruct qs; reflexivity.
  - destruct qs as [|q qs]; [reflexivity|]. inversion H; subst. rewrite IH by assumption. rewrite H2. ring.
Qed.

Theorem qtrack_blocking_no_charge : forall e pb, existsb qblocks (leaves e) = true ->
  btotal (qtrack e (PBeam pb)) == 0.
Proof.
  intros e pb H. pose proof (qtrack_blocking_screen e (PBeam pb) H) as Z.
  destruct (qtrack e (PBeam pb)) as [o|qo] eqn:Eo.
  - apply btotal_zero, Z.
  - (* a particle beam stays a particle beam: count is preserved, but even without that: *)
    pose proof (qtrack_param_charge) as _. cbn.
    (* the count observable distinguishes the beam types only when non-empty; use an explicit type observable *)
    assert (T : (fun b => match b with PBeam _ => true | QBeam _ => false end) (qtrack e (PBeam pb)) = true).
    { apply (@obs_const qmap beam Q qkind (fun p => p) (fun f g p => f (g p)) qapp qen qskip qtmap qltrack bool
              (fun b => match b with PBeam _ => true | QBeam _ => false end)).
      - intros f [x|x]; reflexivity.
      - intros [a|s|len|V c|] [x|x]; cbn; try reflexivity.
        + destruct (ap_active a); reflexivity.
        + unfold scr_track. destruct (_ && _); reflexivity.
        + unfold scr_track. destruct (_ && _); reflexivity.
        + destruct (Qeq_bool V 0); reflexivity.
        + destruct (Qeq_bool V 0); reflexivity. }
    rewrite Eo in T. discriminate.
Qed.
