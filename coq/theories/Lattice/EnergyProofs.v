(** Accounting along any lattice, proved on the model of Segment.track itself (the `todos`
    grouping algorithm of Track.v), for any leaves meeting an explicit leaf contract.

    Unlike [track_eq_fold] (C01) the contract used here does NOT ask a skippable leaf to track by
    its own transfer map (which fails for Cavity(voltage=0), finding F1): it only asks that merged
    maps and skippable leaves are *neutral* for the observable at hand. *)
From Coq Require Import List Bool String QArith Reals Lra Lia.
From Cheetah Require Import Lattice.Track Lattice.TrackProofs Lattice.Energy Diag.Aperture Diag.ApertureProofs.
Import ListNotations.

Section Generic.
Variables (M B E L : Type).
Variable one : M.
Variable mul : M -> M -> M.
Variable app : M -> B -> B.
Variable en : B -> E.
Variable skip : L -> bool.
Variable tmap : L -> E -> M.
Variable ltrack : L -> B -> B.

Notation elem := (elem L).
Notation skippable := (skippable skip).
Notation track := (track one mul app en skip tmap ltrack).
Notation flush := (flush one mul app en tmap).
Notation runmap := (runmap one mul tmap).

Section ChainThm.
Variable N : B -> B -> Prop.
Hypothesis N_refl : forall b, N b b.
Hypothesis N_trans : forall a b c, N a b -> N b c -> N a c.
Hypothesis N_app : forall m b, N b (app m b).                          (* merged linear maps are neutral *)
Hypothesis N_skip : forall l b, skip l = true -> N b (ltrack l b).      (* so is a skippable leaf tracked alone *)

Notation Chain := (Chain skip ltrack N).

Lemma chain_N_l : forall ls a b c, N a b -> Chain ls b c -> Chain ls a c.
Proof.
  intros [|l r] a b c Hab H; cbn in *.
  - eapply N_trans; eassumption.
  - destruct H as (b0 & b1 & H0 & H1 & H2). exists b0, b1. split; [eapply N_trans; eassumption|]. split; assumption.
Qed.

Lemma chain_app : forall l1 l2 a b c, Chain l1 a b -> Chain l2 b c -> Chain (l1 ++ l2) a c.
Proof.
  induction l1 as [|l r IH]; intros l2 a b c H1 H2; cbn in *.
  - eapply chain_N_l; eassumption.
  - destruct H1 as (b0 & b1 & H0 & Hs & Hr). exists b0, b1. split; [assumption|]. split; [assumption|].
    eapply IH; eassumption.
Qed.

Lemma chain_skip : forall ls a b, Forall (fun l => skip l = true) ls -> N a b -> Chain ls a b.
Proof.
  induction ls as [|l r IH]; intros a b HF Hab; cbn; [assumption|].
  inversion HF as [|? ? Hl Hr]; subst. exists a, a. split; [apply N_refl|]. split.
  - unfold lstep. rewrite Hl. apply N_refl.
  - apply IH; assumption.
Qed.

Lemma leaves_skippable : forall e, skippable e = true -> Forall (fun l => skip l = true) (leaves e).
Proof.
  induction e as [l|n es IH] using elem_ind'; intros H; cbn in *.
  - constructor; [assumption|constructor].
  - induction es as [|e r IHr]; cbn in *; [constructor|].
    apply andb_prop in H as [He Hr]. inversion IH as [|? ? I1 I2]; subst.
    apply Forall_app. split; [apply I1, He | apply IHr; assumption].
Qed.

Lemma leaves_run_skippable : forall run, forallb skippable run = true ->
  Forall (fun l => skip l = true) (flat_map (@leaves L) run).
Proof.
  induction run as [|e r IH]; intros H; cbn in *; [constructor|].
  apply andb_prop in H as [He Hr]. apply Forall_app. split; [apply leaves_skippable, He | apply IH, Hr].
Qed.

Lemma chain_flush : forall run b, forallb skippable run = true ->
  Chain (flat_map (@leaves L) run) b (flush run b).
Proof.
  intros run b H. apply chain_skip; [apply leaves_run_skippable, H|].
  destruct run; cbn; [apply N_refl | apply N_app].
Qed.

(** Segment.track runs the leaf transitions of the flattened lattice, in order, up to neutral steps *)
Theorem track_chain : forall e b, Chain (leaves e) b (track e b).
Proof.
  induction e as [l|n es IH] using elem_ind'; intros b.
  - cbn. exists b, (ltrack l b). split; [apply N_refl|]. split; [|apply N_refl].
    unfold lstep. destruct (skip l) eqn:Hs; [apply N_skip, Hs | reflexivity].
  - cbn [Track.track leaves]. destruct (forallb skippable es) eqn:Hall.
    + apply chain_skip; [apply leaves_run_skippable, Hall | apply N_app].
    + clear Hall.
      enough (G : forall es run b, Forall (fun e => forall b, Chain (leaves e) b (track e b)) es ->
                 forallb skippable run = true ->
                 Chain (flat_map (@leaves L) (run ++ es)) b
                   ((fix go (es : list elem) (run : list elem) (b : B) : B :=
                      match es with
                      | [] => flush run b
                      | e' :: r => if skippable e' then go r (run ++ [e']) b
                                   else go r [] (track e' (flush run b))
                      end) es run b)).
      { apply (G es [] b IH eq_refl). }
      clear IH b es. intros es. induction es as [|e r IHr]; intros run b HF Hrun.
      * rewrite app_nil_r. apply chain_flush, Hrun.
      * inversion HF as [|? ? He HFr]; subst.
        destruct (skippable e) eqn:Hse.
        -- replace (run ++ e :: r) with ((run ++ [e]) ++ r) by (rewrite <- app_assoc; reflexivity).
           apply IHr; [exact HFr|]. rewrite forallb_app, Hrun. cbn. rewrite Hse. reflexivity.
        -- rewrite flat_map_app. cbn [flat_map].
           eapply chain_app; [apply chain_flush, Hrun|].
           eapply chain_app; [apply He|].
           apply (IHr [] _ HFr eq_refl).
Qed.
End ChainThm.

(** ---- an observable that every leaf updates by a function of its old value *)
Section ObsFold.
Variable X : Type.
Variable f : B -> X.
Variable step : L -> X -> X.
Hypothesis f_app : forall m b, f (app m b) = f b.
Hypothesis f_leaf : forall l b, f (ltrack l b) = step l (f b).
Hypothesis step_skip : forall l x, skip l = true -> step l x = x.

Lemma chain_obs : forall ls b b', Chain skip ltrack (fun b b' => f b' = f b) ls b b' ->
  f b' = fold_left (fun x l => step l x) ls (f b).
Proof.
  induction ls as [|l r IH]; intros b b' H; cbn in *; [assumption|].
  destruct H as (b0 & b1 & H0 & Hs & Hr). rewrite (IH _ _ Hr). f_equal.
  unfold lstep in Hs. destruct (skip l) eqn:Esk.
  - rewrite step_skip by assumption. congruence.
  - subst b1. rewrite f_leaf. congruence.
Qed.

Theorem obs_fold : forall e b, f (track e b) = fold_left (fun x l => step l x) (leaves e) (f b).
Proof.
  intros e b. apply chain_obs. apply track_chain.
  - reflexivity.
  - intros a b0 c H1 H2. congruence.
  - intros m b0. apply f_app.
  - intros l b0 Hs. rewrite f_leaf. apply step_skip, Hs.
Qed.
End ObsFold.

(** number of particles, individual charges, ...: anything every leaf forwards is constant along any lattice *)
Theorem obs_const : forall (X : Type) (f : B -> X),
  (forall m b, f (app m b) = f b) -> (forall l b, f (ltrack l b) = f b) ->
  forall e b, f (track e b) = f b.
Proof.
  intros X f Ha Hl e b. rewrite (@obs_fold X f (fun _ x => x)); auto.
  induction (leaves e); cbn; auto.
Qed.

(** ---- reference energy over R: changed only by cavities, by exactly V cos(phi) each *)
Section EnergyR.
Inductive ekind := KCavity (voltage phase_deg : R) | KOther.
Variable kind : L -> ekind.
Variable enR : B -> R.
Open Scope R_scope.
Definition gain (l : L) : R :=
  match kind l with KCavity V ph => V * cos (ph * PI / 180) | KOther => 0 end.
Fixpoint sumR (l : list R) : R := match l with [] => 0 | x :: r => x + sumR r end.

(* leaf contract' *)
Hypothesis en_app : forall m b, enR (app m b) = enR b.
Hypothesis en_other : forall l b, kind l = KOther -> enR (ltrack l b) = enR b.
Hypothesis en_cavity : forall l b V ph, kind l = KCavity V ph -> enR (ltrack l b) = enR b + V * cos (ph * PI / 180).
Hypothesis cavity_skip : forall l V ph, skip l = true -> kind l = KCavity V ph -> V = 0.

Lemma fold_gain : forall ls x, fold_left (fun x l => x + gain l) ls x = x + sumR (map gain ls).
Proof. induction ls as [|l r IH]; intros x; cbn; [lra|]. rewrite IH. lra. Qed.

Theorem energy_accounting : forall e b,
  enR (track e b) = enR b + sumR (map gain (leaves e)).
Proof.
  intros e b. rewrite <- fold_gain. apply (@obs_fold R enR (fun l x => x + gain l)).
  - exact en_app.
  - intros l b0. unfold gain. destruct (kind l) eqn:K.
    + apply (en_cavity _ _ _ _ K).
    + rewrite (en_other _ _ K). lra.
  - intros l x Hs. unfold gain. destruct (kind l) eqn:K; [|lra].
    rewrite (cavity_skip _ _ _ Hs K). lra.
Qed.

(* a lattice without cavities keeps the reference energy *)
Corollary energy_const_without_cavities : forall e b,
  Forall (fun l => kind l = KOther) (leaves e) -> enR (track e b) = enR b.
Proof.
  intros e b H. rewrite energy_accounting.
  assert (Z : sumR (map gain (leaves e)) = 0).
  { induction H as [|l r Hl Hr IH]; cbn; [reflexivity|]. rewrite IH. unfold gain. rewrite Hl. lra. }
  rewrite Z. lra.
Qed.
End EnergyR.

(** ---- survival probabilities *)
Section Survival.
Variable sv : B -> list Q.
Open Scope Q_scope.
Definition shrinks (l' l : list Q) : Prop := Forall2 (fun s' s => in01 s -> in01 s' /\ s' <= s) l' l.

Lemma shrinks_refl : forall l, shrinks l l.
Proof. induction l; constructor; [|assumption]. intros H. split; [assumption|apply Qle_refl]. Qed.

Lemma shrinks_trans : forall l1 l2 l3, shrinks l1 l2 -> shrinks l2 l3 -> shrinks l1 l3.
Proof.
  intros l1 l2 l3 H. revert l3. induction H as [|a b l1 l2 Hab H IH]; intros l3 H23; inversion H23; subst; constructor.
  - intros Hy. destruct (H2 Hy) as [Hb Hby]. destruct (Hab Hb) as [Ha Hab']. split; [assumption|].
    eapply Qle_trans; eassumption.
  - apply IH. assumption.
Qed.

(* leaf contract' for survival *)
Hypothesis sv_app : forall m b, sv (app m b) = sv b.
Hypothesis sv_leaf : forall l b, shrinks (sv (ltrack l b)) (sv b).
Hypothesis sv_skip : forall l b, skip l = true -> sv (ltrack l b) = sv b.

Lemma chain_shrinks : forall ls b b', Chain skip ltrack (fun b b' => sv b' = sv b) ls b b' -> shrinks (sv b') (sv b).
Proof.
  induction ls as [|l r IH]; intros b b' H; cbn in *.
  - rewrite H. apply shrinks_refl.
  - destruct H as (b0 & b1 & H0 & Hs & Hr). eapply shrinks_trans; [apply (IH _ _ Hr)|].
    unfold lstep in Hs. destruct (skip l).
    + rewrite Hs, H0. apply shrinks_refl.
    + subst b1. rewrite <- H0. apply sv_leaf.
Qed.

Lemma sv_chain : forall e b, Chain skip ltrack (fun b b' => sv b' = sv b) (leaves e) b (track e b).
Proof.
  intros e b. apply track_chain.
  - reflexivity.
  - intros a b0 c H1 H2. congruence.
  - intros m b0. apply sv_app.
  - intros l b0 Hs. apply sv_skip, Hs.
Qed.

Theorem lattice_surv_shrinks : forall e b, shrinks (sv (track e b)) (sv b).
Proof. intros e b. apply (chain_shrinks (leaves e)), sv_chain. Qed.

(* survival probabilities stay within [0,1] ... *)
Theorem lattice_surv_range : forall e b, Forall in01 (sv b) -> Forall in01 (sv (track e b)).
Proof. intros e b H. exact (proj1 (@shrinks_range_mono _ _ (lattice_surv_shrinks e b) H)). Qed.

(* ... and never increase along a lattice *)
Theorem lattice_surv_monotone : forall e b, Forall in01 (sv b) -> Forall2 Qle (sv (track e b)) (sv b).
Proof. intros e b H. exact (proj2 (@shrinks_range_mono _ _ (lattice_surv_shrinks e b) H)). Qed.

(* blocking active screen: everything downstream has survival 0, whatever follows *)
Variable blocks : L -> bool.
Hypothesis blocks_nonskip : forall l, blocks l = true -> skip l = false.
Hypothesis blocks_zero : forall l b, blocks l = true -> Forall (fun s => s == 0) (sv (ltrack l b)).

Lemma shrinks_zero : forall l' l, shrinks l' l -> Forall (fun s => s == 0) l -> Forall (fun s => s == 0) l'.
Proof.
  intros l' l H. induction H as [|a b l' l Hab H IH]; intros Hz; [constructor|].
  inversion Hz; subst. constructor; [|apply IH; assumption].
  assert (Hb : in01 b). { unfold in01. rewrite H2. split; [apply Qle_refl|discriminate]. }
  destruct (Hab Hb) as [[Ha0 _] Hab']. rewrite H2 in Hab'. apply Qle_antisym; assumption.
Qed.

Lemma chain_blocks : forall ls b b', Chain skip ltrack (fun b b' => sv b' = sv b) ls b b' ->
  existsb blocks ls = true -> Forall (fun s => s == 0) (sv b').
Proof.
  induction ls as [|l r IH]; intros b b' H Hex; cbn in *; [discriminate|].
  destruct H as (b0 & b1 & H0 & Hs & Hr).
  destruct (blocks l) eqn:Bl; cbn in Hex.
  - unfold lstep in Hs. rewrite (blocks_nonskip _ Bl) in Hs. subst b1.
    eapply shrinks_zero; [apply (chain_shrinks r _ _ Hr)|]. apply blocks_zero, Bl.
  - apply (IH _ _ Hr Hex).
Qed.

Theorem lattice_blocking_screen : forall e b, existsb blocks (leaves e) = true ->
  Forall (fun s => s == 0) (sv (track e b)).
Proof. intros e b H. apply (chain_blocks (leaves e) b), H. apply sv_chain. Qed.
End Survival.
End Generic.

(** the flattened order used above is Segment.flattened's *)
Lemma leaves_flat : forall L (e : elem L), map (@Leaf L) (leaves e) = flat e.
Proof.
  intros L. induction e as [l|n es IH] using elem_ind'; cbn; [reflexivity|].
  induction es as [|e r IHr]; cbn; [reflexivity|].
  inversion IH; subst. rewrite map_app. f_equal; [assumption|apply IHr; assumption].
Qed.
