(** Models of Segment.without_inactive_markers, without_inactive_zero_length_elements and
    inactive_elements_as_drifts (cheetah/accelerator/segment.py:124-213).  All three are list
    comprehensions over the *top-level* elements; nested segments are single elements (they
    have no `is_active` attribute, their length is the sum of their elements' lengths).
    Definitions only; proofs are in FilterProofs.v. *)
From Coq Require Import List Bool String.
From Cheetah Require Import Lattice.Track Lattice.Merge.
Import ListNotations.

Set Implicit Arguments.

Section Filter.
Variables (L Len : Type).
Variable lname : L -> string.
Variable llen : L -> Len.
Variable lzero : Len.
Variable ladd : Len -> Len -> Len.
Variable lmarker : L -> bool.             (* isinstance(element, Marker) *)
Variable lhas_active : L -> bool.         (* hasattr(element, "is_active") *)
Variable lactive : L -> bool.             (* element.is_active (meaningful only if lhas_active) *)
Variable len_anypos : Len -> bool.        (* torch.any(element.length > 0.0) *)
Variable len_allzero : Len -> bool.       (* torch.all(element.length == 0.0) *)
Variable mkdrift : Len -> string -> L.    (* Drift(length, name=...) *)

Notation elem := (elem L).
Notation ename := (ename lname).
Notation elen := (elen llen lzero ladd).

Definition is_marker (e : elem) : bool := match e with Leaf l => lmarker l | Seg _ _ => false end.

(* hasattr(element, "is_active") and element.is_active ; a Segment has no is_active *)
Definition eactive (e : elem) : bool :=
  match e with Leaf l => lhas_active l && lactive l | Seg _ _ => false end.

(* -------- without_inactive_markers *)
Definition keep_marker (ex : list string) (e : elem) : bool := negb (is_marker e) || inex ex (ename e).
Definition markers_removed (ex : list string) (es : list elem) : list elem := filter (keep_marker ex) es.
Definition without_inactive_markers (e : elem) (ex : list string) : elem :=
  match e with Leaf l => Leaf l | Seg n es => Seg n (markers_removed ex es) end.

(* -------- without_inactive_zero_length_elements *)
Definition keep_zero (ex : list string) (e : elem) : bool :=
  len_anypos (elen e) || eactive e || inex ex (ename e).
Definition zero_length_removed (ex : list string) (es : list elem) : list elem := filter (keep_zero ex) es.
Definition without_inactive_zero_length_elements (e : elem) (ex : list string) : elem :=
  match e with Leaf l => Leaf l | Seg n es => Seg n (zero_length_removed ex es) end.

(* -------- inactive_elements_as_drifts *)
Definition keep_as_is (ex : list string) (e : elem) : bool :=
  eactive e || len_allzero (elen e) || inex ex (ename e).
Definition drift_of (e : elem) : elem := Leaf (mkdrift (elen e) (ename e)).
Definition as_drifts (ex : list string) (es : list elem) : list elem :=
  map (fun e => if keep_as_is ex e then e else drift_of e) es.
Definition inactive_elements_as_drifts (e : elem) (ex : list string) : elem :=
  match e with Leaf l => Leaf l | Seg n es => Seg n (as_drifts ex es) end.

End Filter.

(** Which concrete cheetah Element classes have an `is_active` attribute (property or instance
    attribute), and which can be instantiated with length 0.  This table is compared with the
    live classes on every run of the C08 check (hasattr on a probe instance of every concrete
    Element subclass exported by cheetah). *)
Local Open Scope string_scope.
Definition class_has_is_active : list (string * bool) :=
  [ ("Aperture", true); ("BPM", true); ("Cavity", true); ("CustomTransferMap", false);
    ("Dipole", true); ("Drift", false); ("HorizontalCorrector", true); ("Marker", false);
    ("Quadrupole", true); ("RBend", true); ("Screen", true); ("Segment", false);
    ("Solenoid", true); ("SpaceChargeKick", false); ("TransverseDeflectingCavity", true);
    ("Undulator", true); ("VerticalCorrector", true) ].
Definition has_is_active (cls : string) : bool :=
  match find (fun p => String.eqb (fst p) cls) class_has_is_active with Some p => snd p | None => false end.
