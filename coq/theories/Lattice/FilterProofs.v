(** Proofs about without_inactive_markers, without_inactive_zero_length_elements and
    inactive_elements_as_drifts (models in Filter.v). *)
From Coq Require Import List Bool String Lia.
From Cheetah Require Import Lattice.Track Lattice.TrackProofs Lattice.Merge Lattice.Filter.
Import ListNotations.

Set Implicit Arguments.

Section Proofs.
Variables (M B E L Len : Type).
Variable one : M.
Variable mul : M -> M -> M.
Variable app : M -> B -> B.
Variable en : B -> E.
Variable skip : L -> bool.
Variable tmap : L -> E -> M.
Variable ltrack : L -> B -> B.
Variable lname : L -> string.
Variable llen : L -> Len.
Variable lzero : Len.
Variable ladd : Len -> Len -> Len.
Variable lmarker : L -> bool.
Variable lhas_active : L -> bool.
Variable lactive : L -> bool.
Variable len_anypos : Len -> bool.
Variable len_allzero : Len -> bool.
Variable mkdrift : Len -> string -> L.

Hypothesis app_one : forall b, app one b = b.
Hypothesis app_mul : forall a c b, app (mul a c) b = app a (app c b).
Hypothesis en_app : forall m b, en (app m b) = en b.
Hypothesis contract : leaf_contract app en skip tmap ltrack.

Notation elem := (elem L).
Notation track := (track one mul app en skip tmap ltrack).
Notation track1 := (track1 ltrack).
Notation seq := (seq ltrack).
Notation ename := (ename lname).
Notation elen := (elen llen lzero ladd).
Notation sum_len := (sum_len llen lzero ladd).
Notation is_marker := (is_marker lmarker).
Notation markers_removed := (markers_removed lname lmarker).
Notation keep_marker := (keep_marker lname lmarker).
Notation keep_zero := (keep_zero lname llen lzero ladd lhas_active lactive len_anypos).
Notation zero_length_removed := (zero_length_removed lname llen lzero ladd lhas_active lactive len_anypos).
Notation keep_as_is := (keep_as_is lname llen lzero ladd lhas_active lactive len_allzero).
Notation as_drifts := (as_drifts lname llen lzero ladd lhas_active lactive len_allzero mkdrift).
Notation drift_of := (drift_of lname llen lzero ladd mkdrift).

Let Teq : forall e b, track e b = track1 e b :=
  @track_eq_fold M B E L one mul app en skip tmap ltrack app_one app_mul en_app contract.

(** generic: dropping elements that track as the identity / replacing elements by elements
    that track alike does not change the result *)
Lemma filter_seq : forall (keep : elem -> bool) es,
  (forall e, In e es -> keep e = false -> forall b, track1 e b = b) ->
  forall b, seq (filter keep es) b = seq es b.
Proof.
  intros keep es. induction es as [|a r IH]; intros H b; [reflexivity|].
  cbn [filter]. destruct (keep a) eqn:Hk.
  - unfold Track.seq in *. cbn [fold_left]. apply IH. intros e He. apply H. now right.
  - unfold Track.seq in *. cbn [fold_left]. rewrite (H a (or_introl eq_refl) Hk b).
    apply IH. intros e He. apply H. now right.
Qed.

Lemma map_seq : forall (f : elem -> elem) es,
  (forall e, In e es -> forall b, track1 (f e) b = track1 e b) ->
  forall b, seq (map f es) b = seq es b.
Proof.
  intros f es. induction es as [|a r IH]; intros H b; [reflexivity|].
  unfold Track.seq in *. cbn [map fold_left]. rewrite (H a (or_introl eq_refl) b).
  apply IH. intros e He. apply H. now right.
Qed.

Lemma filter_keeps : forall (keep : elem -> bool) es e, In e es -> keep e = true -> In e (filter keep es).
Proof. intros. apply filter_In. split; assumption. Qed.

(** ---------- without_inactive_markers *)
Hypothesis marker_id : forall l b, lmarker l = true -> ltrack l b = b.   (* Marker.track returns the incoming beam *)
Hypothesis marker_len : forall l, lmarker l = true -> llen l = lzero.     (* Marker has the default length 0 *)

Theorem markers_removed_track : forall n ex es b,
  track (Seg n (markers_removed ex es)) b = track (Seg n es) b.
Proof.
  intros. rewrite !Teq. cbn [Track.track1]. apply (filter_seq (keep_marker ex)).
  intros e _ Hk b'. unfold Filter.keep_marker in Hk. apply orb_false_elim in Hk as [Hm _].
  apply negb_false_iff in Hm. destruct e as [l|m es']; [|discriminate]. cbn in *. apply marker_id, Hm.
Qed.

Theorem markers_removed_keeps_excepted : forall ex es e,
  In e es -> inex ex (ename e) = true -> In e (markers_removed ex es).
Proof.
  intros ex es e Hin Hex. apply filter_keeps; [exact Hin|]. unfold Filter.keep_marker. rewrite Hex. apply orb_true_r.
Qed.

Theorem markers_removed_keeps_nonmarkers : forall ex es e,
  In e es -> is_marker e = false -> In e (markers_removed ex es).
Proof.
  intros ex es e Hin Hm. apply filter_keeps; [exact Hin|]. unfold Filter.keep_marker. rewrite Hm. reflexivity.
Qed.

Theorem markers_removed_only_excepted_markers : forall ex es e,
  In e (markers_removed ex es) -> In e es /\ (is_marker e = true -> inex ex (ename e) = true).
Proof.
  intros ex es e H. apply filter_In in H as [Hin Hk]. split; [exact Hin|]. intros Hm.
  unfold Filter.keep_marker in Hk. rewrite Hm in Hk. exact Hk.
Qed.

(** lengths *)
Hypothesis ladd_0_l : forall x, ladd lzero x = x.
Hypothesis ladd_0_r : forall x, ladd x lzero = x.
Hypothesis ladd_assoc : forall x y z, ladd (ladd x y) z = ladd x (ladd y z).

Let sl_app : forall es1 es2 : list elem, sum_len (es1 ++ es2) = ladd (sum_len es1) (sum_len es2) :=
  @sumlen_app L Len llen lzero ladd ladd_0_l ladd_0_r ladd_assoc.
Let sl_one : forall e : elem, sum_len [e] = elen e.
Proof. intros. unfold Merge.sum_len. cbn [fold_left]. apply ladd_0_l. Qed.

Lemma filter_sum_len : forall (keep : elem -> bool) es,
  (forall e, In e es -> keep e = false -> elen e = lzero) ->
  sum_len (filter keep es) = sum_len es.
Proof.
  intros keep es. induction es as [|a r IH]; intros H; [reflexivity|].
  cbn [filter]. change (a :: r) with ([a] ++ r). rewrite sl_app.
  assert (IH' : sum_len (filter keep r) = sum_len r) by (apply IH; intros e He; apply H; now right).
  destruct (keep a) eqn:Hk.
  - change (a :: filter keep r) with ([a] ++ filter keep r). rewrite sl_app, IH'. reflexivity.
  - rewrite IH', sl_one, (H a (or_introl eq_refl) Hk), ladd_0_l. reflexivity.
Qed.

Lemma map_sum_len : forall (f : elem -> elem) es,
  (forall e, In e es -> elen (f e) = elen e) -> sum_len (map f es) = sum_len es.
Proof.
  intros f es. induction es as [|a r IH]; intros H; [reflexivity|].
  cbn [map]. change (f a :: map f r) with ([f a] ++ map f r). change (a :: r) with ([a] ++ r).
  rewrite !sl_app, !sl_one, (H a (or_introl eq_refl)), IH; [reflexivity|]. intros e He. apply H. now right.
Qed.

Theorem markers_removed_length : forall n ex es,
  elen (Seg n (markers_removed ex es)) = elen (Seg n es).
Proof.
  intros. apply (filter_sum_len (keep_marker ex)). intros e _ Hk.
  unfold Filter.keep_marker in Hk. apply orb_false_elim in Hk as [Hm _]. apply negb_false_iff in Hm.
  destruct e as [l|m es']; [|discriminate]. cbn in *. apply marker_len, Hm.
Qed.

(** ---------- without_inactive_zero_length_elements: correct for a lattice whose removable
    elements (no positive length, no truthy `is_active`, not excepted) track as the identity *)
Theorem zero_length_removed_track : forall n ex es,
  (forall e, In e es -> keep_zero ex e = false -> forall b, track1 e b = b) ->
  forall b, track (Seg n (zero_length_removed ex es)) b = track (Seg n es) b.
Proof. intros n ex es H b. rewrite !Teq. cbn [Track.track1]. apply (filter_seq (keep_zero ex)), H. Qed.

Theorem zero_length_removed_length : forall n ex es,
  (forall x, len_anypos x = false -> x = lzero) ->      (* lengths are non-negative scalars *)
  elen (Seg n (zero_length_removed ex es)) = elen (Seg n es).
Proof.
  intros n ex es Hpos. apply (filter_sum_len (keep_zero ex)). intros e _ Hk.
  unfold Filter.keep_zero in Hk. apply orb_false_elim in Hk as [Hk _]. apply orb_false_elim in Hk as [Hk _].
  apply Hpos, Hk.
Qed.

Theorem zero_length_removed_keeps_excepted : forall ex es e,
  In e es -> inex ex (ename e) = true -> In e (zero_length_removed ex es).
Proof.
  intros ex es e Hin Hex. apply filter_keeps; [exact Hin|]. unfold Filter.keep_zero. rewrite Hex. apply orb_true_r.
Qed.

(** ---------- inactive_elements_as_drifts: correct for a lattice whose replaceable elements
    track like a Drift of their length *)
Hypothesis drift_len : forall len nm, llen (mkdrift len nm) = len.
Hypothesis drift_name : forall len nm, lname (mkdrift len nm) = nm.

Theorem as_drifts_track : forall n ex es,
  (forall e, In e es -> keep_as_is ex e = false ->
     forall b, track1 e b = ltrack (mkdrift (elen e) (ename e)) b) ->
  forall b, track (Seg n (as_drifts ex es)) b = track (Seg n es) b.
Proof.
  intros n ex es H b. rewrite !Teq. cbn [Track.track1]. apply map_seq. intros e He b'.
  destruct (keep_as_is ex e) eqn:Hk; [reflexivity|]. symmetry. apply (H e He Hk).
Qed.

Theorem as_drifts_length : forall n ex es, elen (Seg n (as_drifts ex es)) = elen (Seg n es).
Proof.
  intros. apply map_sum_len. intros e _. destruct (keep_as_is ex e); [reflexivity|]. cbn. apply drift_len.
Qed.

Theorem as_drifts_names : forall ex es, map ename (as_drifts ex es) = map ename es.
Proof.
  intros. unfold Filter.as_drifts. rewrite map_map. apply map_ext. intros e.
  destruct (keep_as_is ex e); [reflexivity|]. cbn. apply drift_name.
Qed.

Theorem as_drifts_keeps_excepted : forall ex es e,
  In e es -> inex ex (ename e) = true -> In e (as_drifts ex es).
Proof.
  intros ex es e Hin Hex. unfold Filter.as_drifts. apply in_map_iff. exists e. split; [|exact Hin].
  unfold Filter.keep_as_is. rewrite Hex, orb_true_r. reflexivity.
Qed.

End Proofs.
