(** Model of Segment.transfer_maps_merged (cheetah/accelerator/segment.py:74-122) and of
    CustomTransferMap.from_merging_elements (custom_transfer_map.py:51-92), on the element
    trees of Track.v.  Definitions only; proofs are in MergeProofs.v.

    The code walks over the *top-level* elements of the segment (nested segments are single
    elements: skippable iff all their children are, named by the segment's name):

      - a skippable element whose name is not in `except_for` is appended to the pending run;
      - any other element flushes the run: a run of exactly one element is emitted unchanged,
        a run of two or more is replaced by CustomTransferMap.from_merging_elements(run,
        incoming_beam = the running beam); the running beam is tracked through what was
        emitted, then through the element itself, which is emitted unchanged;
      - the trailing run is always replaced by a CustomTransferMap, even a single element.

    from_merging_elements multiplies the elements' transfer maps, each evaluated at the energy
    of the *running* beam (which it tracks through every element of the run in turn), sums
    the lengths (Python `sum`, i.e. 0 + l1 + l2 + ...) and names the result
    "combined_" + "_".join(names). *)
From Coq Require Import List Bool String.
From Cheetah Require Import Lattice.Track.
Import ListNotations.

Set Implicit Arguments.

Section Merge.
Variables (M B E L Len : Type).
Variable one : M.
Variable mul : M -> M -> M.
Variable app : M -> B -> B.
Variable en : B -> E.
Variable skip : L -> bool.
Variable tmap : L -> E -> M.
Variable ltrack : L -> B -> B.
Variable lname : L -> string.
Variable llen : L -> Len.
Variable lzero : Len.
Variable ladd : Len -> Len -> Len.
(* CustomTransferMap(predefined_transfer_map, length, name) *)
Variable mkctm : M -> Len -> string -> L.

Notation elem := (elem L).
Notation skippable := (skippable skip).
Notation emap := (emap one mul tmap).
Notation track := (track one mul app en skip tmap ltrack).
Notation ename := (ename lname).
Notation elen := (elen llen lzero ladd).

(* `name in except_for` *)
Definition inex (ex : list string) (nm : string) : bool := existsb (String.eqb nm) ex.

(* "_".join(names) *)
Fixpoint join_us (names : list string) : string :=
  match names with
  | [] => EmptyString
  | [a] => a
  | a :: r => a ++ "_" ++ join_us r
  end.
Definition combined_name (run : list elem) : string := "combined_" ++ join_us (map ename run).

(* sum(element.length for element in elements) *)
Definition sum_len (run : list elem) : Len := fold_left (fun a e => ladd a (elen e)) run lzero.

(* the loop of from_merging_elements: tm = element.transfer_map(beam.energy) @ tm; beam = element.track(beam) *)
Fixpoint merge_map (run : list elem) (T : M) (b : B) : M :=
  match run with
  | [] => T
  | e :: r => merge_map r (mul (emap e (en b)) T) (track e b)
  end.

Definition from_merging (run : list elem) (b : B) : elem :=
  Leaf (mkctm (merge_map run one b) (sum_len run) (combined_name run)).

(* an element goes to the pending run *)
Definition mergeable (ex : list string) (e : elem) : bool := skippable e && negb (inex ex (ename e)).

(* what is emitted when a non-mergeable element arrives, and the running beam afterwards *)
Definition flush_m (run : list elem) (b : B) : list elem * B :=
  match run with
  | [] => ([], b)
  | [e] => ([e], track e b)
  | _ => let c := from_merging run b in ([c], track c b)
  end.

Fixpoint merged (ex : list string) (es run : list elem) (b : B) : list elem :=
  match es with
  | [] => match run with [] => [] | _ => [from_merging run b] end
  | e :: r =>
    if mergeable ex e then merged ex r (run ++ [e]) b
    else let '(out, b') := flush_m run b in
         out ++ e :: merged ex r [] (track e b')
  end.

(* Segment.transfer_maps_merged(incoming_beam, except_for) *)
Definition transfer_maps_merged (e : elem) (b : B) (ex : list string) : elem :=
  match e with
  | Leaf l => Leaf l                       (* not a Segment: no such method *)
  | Seg n es => Seg n (merged ex es [] b)
  end.

(** The same algorithm, keeping for every emitted element the original elements it stands for
    (used to state which elements a CustomTransferMap was built from). *)
Inductive block := Kept (e : elem) | Merged (c : elem) (src : list elem) (b : B).
Definition block_out (k : block) : elem := match k with Kept e => e | Merged c _ _ => c end.
Definition block_src (k : block) : list elem := match k with Kept e => [e] | Merged _ src _ => src end.

Definition flush_b (run : list elem) (b : B) : list block * B :=
  match run with
  | [] => ([], b)
  | [e] => ([Kept e], track e b)
  | _ => let c := from_merging run b in ([Merged c run b], track c b)
  end.

Fixpoint merged_blocks (ex : list string) (es run : list elem) (b : B) : list block :=
  match es with
  | [] => match run with [] => [] | _ => [Merged (from_merging run b) run b] end
  | e :: r =>
    if mergeable ex e then merged_blocks ex r (run ++ [e]) b
    else let '(out, b') := flush_b run b in
         out ++ Kept e :: merged_blocks ex r [] (track e b')
  end.

(* a well-formed block list: merged blocks are non-empty runs of mergeable elements, built by
   from_merging_elements; kept elements are either a non-mergeable element, or a single
   mergeable one standing between two non-mergeable ones *)
Definition block_ok (ex : list string) (k : block) : Prop :=
  match k with
  | Kept _ => True
  | Merged c src b => src <> [] /\ forallb (mergeable ex) src = true /\ c = from_merging src b
  end.

End Merge.
Arguments Kept {B L} e.
Arguments Merged {B L} c src b.
