(** Proofs about Segment.transfer_maps_merged (model in Merge.v). *)
From Coq Require Import List Bool String Lia.
From Cheetah Require Import Lattice.Track Lattice.TrackProofs Lattice.Merge.
Import ListNotations.

Set Implicit Arguments.

Section Proofs.
Variables (M B E L Len : Type).
Variable one : M.
Variable mul : M -> M -> M.
Variable app : M -> B -> B.
Variable en : B -> E.
Variable skip : L -> bool.
Variable tmap : L -> E -> M.
Variable ltrack : L -> B -> B.
Variable lname : L -> string.
Variable llen : L -> Len.
Variable lzero : Len.
Variable ladd : Len -> Len -> Len.
Variable mkctm : M -> Len -> string -> L.

Hypothesis app_one : forall b, app one b = b.
Hypothesis app_mul : forall a c b, app (mul a c) b = app a (app c b).
Hypothesis en_app : forall m b, en (app m b) = en b.
Hypothesis contract : leaf_contract app en skip tmap ltrack.
(* CustomTransferMap: skippable, its transfer map is the stored matrix, name and length as given *)
Hypothesis ctm_skip : forall m len nm, skip (mkctm m len nm) = true.
Hypothesis ctm_map : forall m len nm x, tmap (mkctm m len nm) x = m.
Hypothesis ctm_name : forall m len nm, lname (mkctm m len nm) = nm.
Hypothesis ctm_len : forall m len nm, llen (mkctm m len nm) = len.

Notation elem := (elem L).
Notation skippable := (skippable skip).
Notation emap := (emap one mul tmap).
Notation runmap := (runmap one mul tmap).
Notation track := (track one mul app en skip tmap ltrack).
Notation track1 := (track1 ltrack).
Notation seq := (seq ltrack).
Notation ename := (ename lname).
Notation elen := (elen llen lzero ladd).
Notation merge_map := (merge_map one mul app en skip tmap ltrack).
Notation from_merging := (from_merging one mul app en skip tmap ltrack lname llen lzero ladd mkctm).
Notation flush_m := (flush_m one mul app en skip tmap ltrack lname llen lzero ladd mkctm).
Notation merged := (merged one mul app en skip tmap ltrack lname llen lzero ladd mkctm).
Notation mergeable := (mergeable skip lname).
Notation flush_b := (flush_b one mul app en skip tmap ltrack lname llen lzero ladd mkctm).
Notation merged_blocks := (merged_blocks one mul app en skip tmap ltrack lname llen lzero ladd mkctm).
Notation block_ok := (block_ok one mul app en skip tmap ltrack lname llen lzero ladd mkctm).
Notation sum_len := (sum_len llen lzero ladd).

Let Teq : forall e b, track e b = track1 e b :=
  @track_eq_fold M B E L one mul app en skip tmap ltrack app_one app_mul en_app contract.
Let en_skip : forall e, skippable e = true -> forall b, en (track1 e b) = en b :=
  @en_track1_skip M B E L one mul app en skip tmap ltrack app_one app_mul en_app contract.
Let seq_skip : forall run, forallb skippable run = true -> forall b, app (runmap run (en b)) b = seq run b :=
  @seq_skippable M B E L one mul app en skip tmap ltrack app_one app_mul en_app contract.

(** from_merging_elements re-tracks the beam to get each element's entrance energy; inside a
    run of skippable elements that energy never changes, so the product is the run's map at
    the run's entrance energy *)
Lemma merge_map_energy : forall run T b, forallb skippable run = true ->
  merge_map run T b = fold_left (fun T e' => mul (emap e' (en b)) T) run T.
Proof.
  induction run as [|e r IH]; intros T b Hs; cbn [Merge.merge_map fold_left]; [reflexivity|].
  cbn in Hs. apply andb_prop in Hs as [He Hr].
  rewrite IH by exact Hr. rewrite Teq, en_skip by exact He. reflexivity.
Qed.

Lemma from_merging_track : forall run b, forallb skippable run = true ->
  track (from_merging run b) b = seq run b.
Proof.
  intros run b Hs. unfold Merge.from_merging. cbn [Track.track].
  rewrite contract by apply ctm_skip. rewrite ctm_map, merge_map_energy by exact Hs.
  apply (seq_skip run Hs b).
Qed.

Lemma mergeable_skippable : forall ex e, mergeable ex e = true -> skippable e = true.
Proof. intros ex e H. apply andb_prop in H. tauto. Qed.

Lemma mergeable_not_excepted : forall ex e, mergeable ex e = true -> inex ex (ename e) = false.
Proof. intros ex e H. apply andb_prop in H as [_ H]. now apply negb_true_iff in H. Qed.

Lemma forallb_mergeable_skippable : forall ex run,
  forallb (mergeable ex) run = true -> forallb skippable run = true.
Proof.
  intros ex run H. apply forallb_forall. intros e He.
  apply (mergeable_skippable ex). revert e He. now apply forallb_forall.
Qed.

Lemma flush_m_spec : forall run b, forallb skippable run = true ->
  seq (fst (flush_m run b)) b = seq run b /\ snd (flush_m run b) = seq run b.
Proof.
  intros run b Hs. destruct run as [|e [|e2 r]]; cbn [Merge.flush_m fst snd].
  - split; reflexivity.
  - split; [reflexivity|]. rewrite Teq. reflexivity.
  - set (run := e :: e2 :: r) in *.
    assert (Hc : track (from_merging run b) b = seq run b) by (apply from_merging_track, Hs).
    split; [|exact Hc]. unfold Track.seq at 1. cbn [fold_left]. rewrite <- Teq. exact Hc.
Qed.

(** tracking the merged element list, from the beam it was merged for, equals tracking the
    original list *)
Theorem merged_seq : forall ex es run b, forallb skippable run = true ->
  seq (merged ex es run b) b = seq (run ++ es) b.
Proof.
  induction es as [|e r IH]; intros run b Hrun.
  - rewrite app_nil_r. cbn [Merge.merged]. destruct run as [|e0 r0]; [reflexivity|].
    unfold Track.seq at 1. cbn [fold_left]. rewrite <- Teq. apply from_merging_track, Hrun.
  - cbn [Merge.merged]. destruct (mergeable ex e) eqn:Hc.
    + rewrite IH by (rewrite forallb_app, Hrun; cbn; rewrite (mergeable_skippable _ _ Hc); reflexivity).
      rewrite <- app_assoc. reflexivity.
    + destruct (flush_m run b) as [out b'] eqn:Hf.
      destruct (flush_m_spec run b Hrun) as [H1 H2]. rewrite Hf in H1, H2. cbn [fst snd] in H1, H2.
      unfold Track.seq in *. rewrite !fold_left_app. cbn [fold_left].
      rewrite H1. subst b'. rewrite Teq.
      apply (IH [] (track1 e (fold_left (fun b e' => track1 e' b) run b)) eq_refl).
Qed.

Theorem merged_track : forall n ex es b,
  track (Seg n (merged ex es [] b)) b = track (Seg n es) b.
Proof.
  intros. rewrite !Teq. cbn [Track.track1]. apply (merged_seq ex es [] b eq_refl).
Qed.

(** elements that are not mergeable (non-skippable, or named in except_for) are kept, as the
    very same element *)
Lemma merged_keeps_nonmergeable : forall ex es run b e,
  In e es -> mergeable ex e = false -> In e (merged ex es run b).
Proof.
  induction es as [|a r IH]; intros run b e Hin Hm; [destruct Hin|].
  cbn [Merge.merged]. destruct Hin as [->|Hin].
  - rewrite Hm. destruct (flush_m run b) as [out b']. apply in_or_app. right. now left.
  - destruct (mergeable ex a).
    + apply IH; assumption.
    + destruct (flush_m run b) as [out b']. apply in_or_app. right. right. apply IH; assumption.
Qed.

Theorem merged_keeps_excepted : forall ex es b e,
  In e es -> inex ex (ename e) = true -> In e (merged ex es [] b).
Proof.
  intros ex es b e Hin Hex. apply merged_keeps_nonmergeable; [exact Hin|].
  unfold Merge.mergeable. rewrite Hex. apply andb_false_r.
Qed.

(* the order of the kept (non-mergeable) elements is preserved, too *)
Lemma filter_app_nil : forall (f : elem -> bool) l, forallb (fun e => negb (f e)) l = true -> filter f l = [].
Proof.
  induction l as [|a r IH]; cbn; [reflexivity|]. intros H. apply andb_prop in H as [Ha Hr].
  apply negb_true_iff in Ha. rewrite Ha. apply IH, Hr.
Qed.

(** blocks: which original elements each emitted element stands for *)
Lemma flush_b_out : forall run b, map (@block_out B L) (fst (flush_b run b)) = fst (flush_m run b)
  /\ snd (flush_b run b) = snd (flush_m run b).
Proof. intros run b. destruct run as [|e [|e2 r]]; split; reflexivity. Qed.

Lemma merged_blocks_out : forall ex es run b,
  map (@block_out B L) (merged_blocks ex es run b) = merged ex es run b.
Proof.
  induction es as [|e r IH]; intros run b; cbn [Merge.merged_blocks Merge.merged].
  - destruct run; reflexivity.
  - destruct (mergeable ex e); [apply IH|].
    destruct (flush_b_out run b) as [H1 H2].
    destruct (flush_b run b) as [out b'], (flush_m run b) as [out' b'']. cbn [fst snd] in *. subst.
    rewrite map_app. cbn [map block_out]. rewrite IH. reflexivity.
Qed.

Lemma flush_b_src : forall run b, List.concat (map (@block_src B L) (fst (flush_b run b))) = run.
Proof. intros run b. destruct run as [|e [|e2 r]]; cbn; rewrite ?app_nil_r; reflexivity. Qed.

Lemma merged_blocks_src : forall ex es run b,
  List.concat (map (@block_src B L) (merged_blocks ex es run b)) = run ++ es.
Proof.
  induction es as [|e r IH]; intros run b; cbn [Merge.merged_blocks].
  - destruct run; cbn; rewrite ?app_nil_r; reflexivity.
  - destruct (mergeable ex e).
    + rewrite IH, <- app_assoc. reflexivity.
    + pose proof (flush_b_src run b) as Hs. destruct (flush_b run b) as [out b']. cbn [fst] in Hs.
      rewrite map_app, concat_app. cbn [map List.concat block_src]. rewrite Hs, IH. reflexivity.
Qed.

Lemma flush_b_ok : forall ex run b, forallb (mergeable ex) run = true ->
  Forall (block_ok ex) (fst (flush_b run b)).
Proof.
  intros ex run b Hrun. destruct run as [|e [|e2 r]]; cbn [Merge.flush_b fst]; repeat constructor.
  - discriminate.
  - exact Hrun.
Qed.

Lemma merged_blocks_ok : forall ex es run b, forallb (mergeable ex) run = true ->
  Forall (block_ok ex) (merged_blocks ex es run b).
Proof.
  induction es as [|e r IH]; intros run b Hrun; cbn [Merge.merged_blocks].
  - destruct run as [|e0 r0]; repeat constructor; [discriminate|exact Hrun].
  - destruct (mergeable ex e) eqn:Hm.
    + apply IH. rewrite forallb_app, Hrun. cbn. rewrite Hm. reflexivity.
    + pose proof (flush_b_ok ex run b Hrun) as Hf. destruct (flush_b run b) as [out b']. cbn [fst] in Hf.
      apply Forall_app. split; [exact Hf|]. constructor; [exact I|]. apply IH. reflexivity.
Qed.

(** Every CustomTransferMap that transfer_maps_merged produces is from_merging_elements of a
    non-empty *contiguous* run of elements of the original list that are all skippable and not
    named in except_for: the emitted list, with every merged element expanded back to its
    sources, is the original list, in order.  So a merge never spans a non-skippable (e.g.
    energy-changing) or excepted element. *)
Theorem merged_runs_skippable : forall ex es b,
  exists blocks : list (block B L),
    map (@block_out B L) blocks = merged ex es [] b /\
    List.concat (map (@block_src B L) blocks) = es /\
    Forall (fun k => match k with
                     | Kept _ => True
                     | Merged c src b' =>
                       src <> [] /\ c = from_merging src b' /\
                       forall e, In e src -> skippable e = true /\ inex ex (ename e) = false
                     end) blocks.
Proof.
  intros ex es b. exists (merged_blocks ex es [] b). split; [apply merged_blocks_out|].
  split; [apply (merged_blocks_src ex es [] b)|].
  pose proof (merged_blocks_ok ex es [] b eq_refl) as H.
  eapply Forall_impl; [|exact H]. intros [e|c src b']; [trivial|].
  intros (Hne & Hall & Hc). split; [exact Hne|]. split; [exact Hc|].
  intros e He. rewrite forallb_forall in Hall. specialize (Hall e He).
  split; [eapply mergeable_skippable|eapply mergeable_not_excepted]; exact Hall.
Qed.

(* the merged element is named "combined_" + "_".join(names) and is as long as its sources *)
Lemma from_merging_name : forall run b, ename (from_merging run b) = combined_name lname run.
Proof. intros. apply ctm_name. Qed.
Lemma from_merging_len : forall run b, elen (from_merging run b) = sum_len run.
Proof. intros. cbn. apply ctm_len. Qed.

(** total length *)
Hypothesis ladd_0_l : forall x, ladd lzero x = x.
Hypothesis ladd_0_r : forall x, ladd x lzero = x.
Hypothesis ladd_assoc : forall x y z, ladd (ladd x y) z = ladd x (ladd y z).

Let sl_app : forall es1 es2 : list elem, sum_len (es1 ++ es2) = ladd (sum_len es1) (sum_len es2) :=
  @sumlen_app L Len llen lzero ladd ladd_0_l ladd_0_r ladd_assoc.

Lemma sum_len_one : forall e : elem, sum_len [e] = elen e.
Proof. intros. unfold Merge.sum_len. cbn [fold_left]. apply ladd_0_l. Qed.

Lemma flush_m_len : forall run b, sum_len (fst (flush_m run b)) = sum_len run.
Proof.
  intros run b. destruct run as [|e [|e2 r]]; cbn [Merge.flush_m fst]; try reflexivity.
  rewrite sum_len_one. apply from_merging_len.
Qed.

Lemma merged_sum_len : forall ex es run b, sum_len (merged ex es run b) = sum_len (run ++ es).
Proof.
  induction es as [|e r IH]; intros run b; cbn [Merge.merged].
  - rewrite app_nil_r. destruct run as [|e0 r0]; [reflexivity|].
    rewrite sum_len_one. apply from_merging_len.
  - destruct (mergeable ex e).
    + rewrite IH, <- app_assoc. reflexivity.
    + pose proof (flush_m_len run b) as Hl. destruct (flush_m run b) as [out b']. cbn [fst] in Hl.
      change (e :: merged ex r [] (track e b')) with ([e] ++ merged ex r [] (track e b')).
      change (e :: r) with ([e] ++ r).
      rewrite !sl_app, Hl, IH. reflexivity.
Qed.

Theorem merged_length : forall n ex es b, elen (Seg n (merged ex es [] b)) = elen (Seg n es).
Proof. intros. apply (merged_sum_len ex es [] b). Qed.

End Proofs.
