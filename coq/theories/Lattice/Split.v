(** Model of Element.split(resolution) (drift.py:131-141, quadrupole.py:209-223,
    horizontal_corrector.py:77-87, vertical_corrector.py:80-90, segment.py:386-391; every other
    class returns [self]), over the rationals with an exact ceiling.

      num_splits = torch.ceil(torch.max(self.length) / resolution).int()
      [Cls(self.length / num_splits, <other attributes>) for i in range(num_splits)]

    - Drift pieces keep the tracking method; Quadrupole pieces keep k1, misalignment, tilt,
      num_steps (per piece) and the tracking method; corrector pieces get angle / num_splits.
      No piece keeps the name.
    - length 0 (or negative) gives num_splits <= 0, i.e. the EMPTY list.
    - resolution > length gives one piece, a copy of the element.
    The float ceiling of a float quotient is modelled by the exact ceiling of the exact
    quotient (they differ only when the quotient lies within an ulp above an integer).
    Definitions only; proofs are in SplitProofs.v. *)
From Coq Require Import List String ZArith QArith Qround Qabs.
Import ListNotations.
Open Scope Q_scope.

Inductive sel :=
| SDrift (L : Q) (method : string)
| SQuad (L k1 mx my tilt : Q) (steps : Z) (method : string)
| SHCor (L angle : Q)
| SVCor (L angle : Q)
| SOther (cls : string) (L : Q)            (* every other class: split returns [self] *)
| SSeg (es : list sel).

(* range(ceil(L / res).int()) *)
Definition nsplit (L res : Q) : nat := Z.to_nat (Qceiling (L / res)).
Definition qn (n : nat) : Q := inject_Z (Z.of_nat n).

Fixpoint split (res : Q) (e : sel) : list sel :=
  match e with
  | SDrift L m => let n := nsplit L res in repeat (SDrift (L / qn n) m) n
  | SQuad L k1 mx my t s m => let n := nsplit L res in repeat (SQuad (L / qn n) k1 mx my t s m) n
  | SHCor L a => let n := nsplit L res in repeat (SHCor (L / qn n) (a / qn n)) n
  | SVCor L a => let n := nsplit L res in repeat (SVCor (L / qn n) (a / qn n)) n
  | SOther _ _ => [e]
  | SSeg es => flat_map (split res) es
  end.

Fixpoint slen (e : sel) : Q :=
  match e with
  | SDrift L _ | SQuad L _ _ _ _ _ _ | SHCor L _ | SVCor L _ | SOther _ L => L
  | SSeg es => fold_right (fun e a => slen e + a) 0 es
  end.
Definition sum_len (l : list sel) : Q := fold_right (fun e a => slen e + a) 0 l.

Definition sangle (e : sel) : Q := match e with SHCor _ a | SVCor _ a => a | _ => 0 end.
Definition sum_angle (l : list sel) : Q := fold_right (fun e a => sangle e + a) 0 l.

Definition splittable (e : sel) : bool :=
  match e with SDrift _ _ | SQuad _ _ _ _ _ _ _ | SHCor _ _ | SVCor _ _ => true | _ => false end.

Fixpoint nonneg (e : sel) : Prop :=
  match e with
  | SSeg es => fold_right (fun e a => nonneg e /\ a) True es
  | _ => 0 <= slen e
  end.

(** ---------- finding F29 repaired.  The code as it was (above, [split]) loses a zero-length (thin) corrector:
    num_splits = 0 gives the empty list.  The repaired correctors (horizontal_corrector.py / vertical_corrector.py) read

      num_splits = torch.ceil(torch.max(self.length) / resolution).int()
      if num_splits < 1:
          return [self]
      return [Cls(self.length / num_splits, self.angle / num_splits, ...) for _ in range(num_splits)]

    i.e. a corrector that cannot be split is returned as it is.  Drift and Quadrupole are unchanged (length 0 still gives
    no piece: such an element is the identity, so nothing is lost).  Which of [split] / [split_fixed] is the faithful model
    is decided by the status of F29 in known_findings.json (harness/props/c16.py). *)
Fixpoint split_fixed (res : Q) (e : sel) : list sel :=
  match e with
  | SDrift L m => let n := nsplit L res in repeat (SDrift (L / qn n) m) n
  | SQuad L k1 mx my t s m => let n := nsplit L res in repeat (SQuad (L / qn n) k1 mx my t s m) n
  | SHCor L a => match nsplit L res with O => [e] | n => repeat (SHCor (L / qn n) (a / qn n)) n end
  | SVCor L a => match nsplit L res with O => [e] | n => repeat (SVCor (L / qn n) (a / qn n)) n end
  | SOther _ _ => [e]
  | SSeg es => flat_map (split_fixed res) es
  end.

(* every corrector of the (nested) element has a length: the region where [split] and [split_fixed] coincide *)
Fixpoint cor_pos (e : sel) : Prop :=
  match e with
  | SHCor L _ | SVCor L _ => 0 < L
  | SSeg es => fold_right (fun e a => cor_pos e /\ a) True es
  | _ => True
  end.

(* the total deflection angle set on the correctors of a (nested) element *)
Fixpoint tot_angle (e : sel) : Q :=
  match e with
  | SSeg es => fold_right (fun e a => tot_angle e + a) 0 es
  | _ => sangle e
  end.

(** vectorised lengths: num_splits from the maximum, every component divided by it *)
Definition qmax (l : list Q) : Q := fold_right (fun x m => if Qle_bool m x then x else m) 0 l.
Definition vsplit (Ls : list Q) (res : Q) : list (list Q) :=
  let n := nsplit (qmax Ls) res in repeat (map (fun L => L / qn n) Ls) n.

(** ---------- case checker for the correspondence (vm_compute) *)
(* observed: the float64 length, resolution (exact rationals), and the float64 lengths of the pieces *)
Definition qabs_le (x y tol : Q) : bool := Qle_bool (x - y) tol && Qle_bool (y - x) tol.
Definition ulp_rel : Q := 1 # 4503599627370496.   (* 2^-52 *)

Record c16case := mkc16 {
  s_L : Q; s_res : Q; s_angle : Q;
  s_pieces : list (Q * Q)             (* (length, angle) of every piece as observed *)
}.
(* the model's count is the observed count; every observed piece length is the correctly rounded
   L/n (within 2^-52 relative), likewise the angle *)
Definition c16_check (c : c16case) : bool :=
  let n := nsplit (s_L c) (s_res c) in
  Nat.eqb n (List.length (s_pieces c)) &&
  forallb (fun p => qabs_le (fst p) (s_L c / qn n) (ulp_rel * Qabs (s_L c / qn n))
                    && qabs_le (snd p) (s_angle c / qn n) (ulp_rel * Qabs (s_angle c / qn n))) (s_pieces c).

(** the same check against the repaired code ([split_fixed], finding F29 fixed): the case carries which kind of element was
    split (0 = Drift / Quadrupole, 1 = HorizontalCorrector, 2 = VerticalCorrector); the expected (length, angle) list is read off
    the model's pieces themselves, so a thin corrector must come back as ONE piece with its length 0 and its whole angle *)
Definition c16_sel (kind : nat) (c : c16case) : sel :=
  match kind with
  | 1%nat => SHCor (s_L c) (s_angle c)
  | 2%nat => SVCor (s_L c) (s_angle c)
  | _ => SDrift (s_L c) EmptyString
  end.
Definition c16_pieces_ok (expected : list sel) (observed : list (Q * Q)) : bool :=
  Nat.eqb (List.length expected) (List.length observed) &&
  forallb (fun ep => qabs_le (fst (snd ep)) (slen (fst ep)) (ulp_rel * Qabs (slen (fst ep)))
                     && qabs_le (snd (snd ep)) (sangle (fst ep)) (ulp_rel * Qabs (sangle (fst ep))))
          (combine expected observed).
Definition c16_check_fixed (kc : nat * c16case) : bool :=
  c16_pieces_ok (split_fixed (s_res (snd kc)) (c16_sel (fst kc) (snd kc))) (s_pieces (snd kc)).
(* the code before the repair, in the same form (used to tell a stale status of F29 from a new defect) *)
Definition c16_check_old (kc : nat * c16case) : bool :=
  c16_pieces_ok (split (s_res (snd kc)) (c16_sel (fst kc) (snd kc))) (s_pieces (snd kc)).
