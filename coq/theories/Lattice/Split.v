(** Model of Element.split(resolution) (drift.py:131-141, quadrupole.py:209-223,
    horizontal_corrector.py:77-87, vertical_corrector.py:80-90, segment.py:386-391; every other
    class returns [self]), over the rationals with an exact ceiling.

      num_splits = torch.ceil(torch.max(self.length) / resolution).int()
      [Cls(self.length / num_splits, <other attributes>) for i in range(num_splits)]

    - Drift pieces keep the tracking method; Quadrupole pieces keep k1, misalignment, tilt,
      num_steps (per piece) and the tracking method; corrector pieces get angle / num_splits.
      No piece keeps the name.
    - length 0 (or negative) gives num_splits <= 0, i.e. the EMPTY list.
    - resolution > length gives one piece, a copy of the element.
    The float ceiling of a float quotient is modelled by the exact ceiling of the exact
    quotient (they differ only when the quotient lies within an ulp above an integer).
    Definitions only; proofs are in SplitProofs.v. *)
From Coq Require Import List String ZArith QArith Qround Qabs.
Import ListNotations.
Open Scope Q_scope.

Inductive sel :=
| SDrift (L : Q) (method : string)
| SQuad (L k1 mx my tilt : Q) (steps : Z) (method : string)
| SHCor (L angle : Q)
| SVCor (L angle : Q)
| SOther (cls : string) (L : Q)            (* every other class: split returns [self] *)
| SSeg (es : list sel).

(* range(ceil(L / res).int()) *)
Definition nsplit (L res : Q) : nat := Z.to_nat (Qceiling (L / res)).
Definition qn (n : nat) : Q := inject_Z (Z.of_nat n).

Fixpoint split (res : Q) (e : sel) : list sel :=
  match e with
  | SDrift L m => let n := nsplit L res in repeat (SDrift (L / qn n) m) n
  | SQuad L k1 mx my t s m => let n := nsplit L res in repeat (SQuad (L / qn n) k1 mx my t s m) n
  | SHCor L a => let n := nsplit L res in repeat (SHCor (L / qn n) (a / qn n)) n
  | SVCor L a => let n := nsplit L res in repeat (SVCor (L / qn n) (a / qn n)) n
  | SOther _ _ => [e]
  | SSeg es => flat_map (split res) es
  end.

Fixpoint slen (e : sel) : Q :=
  match e with
  | SDrift L _ | SQuad L _ _ _ _ _ _ | SHCor L _ | SVCor L _ | SOther _ L => L
  | SSeg es => fold_right (fun e a => slen e + a) 0 es
  end.
Definition sum_len (l : list sel) : Q := fold_right (fun e a => slen e + a) 0 l.

Definition sangle (e : sel) : Q := match e with SHCor _ a | SVCor _ a => a | _ => 0 end.
Definition sum_angle (l : list sel) : Q := fold_right (fun e a => sangle e + a) 0 l.

Definition splittable (e : sel) : bool :=
  match e with SDrift _ _ | SQuad _ _ _ _ _ _ _ | SHCor _ _ | SVCor _ _ => true | _ => false end.

Fixpoint nonneg (e : sel) : Prop :=
  match e with
  | SSeg es => fold_right (fun e a => nonneg e /\ a) True es
  | _ => 0 <= slen e
  end.

(** vectorised lengths: num_splits from the maximum, every component divided by it *)
Definition qmax (l : list Q) : Q := fold_right (fun x m => if Qle_bool m x then x else m) 0 l.
Definition vsplit (Ls : list Q) (res : Q) : list (list Q) :=
  let n := nsplit (qmax Ls) res in repeat (map (fun L => L / qn n) Ls) n.

(** ---------- case checker for the correspondence (vm_compute) *)
(* observed: the float64 length, resolution (exact rationals), and the float64 lengths of the pieces *)
Definition qabs_le (x y tol : Q) : bool := Qle_bool (x - y) tol && Qle_bool (y - x) tol.
Definition ulp_rel : Q := 1 # 4503599627370496.   (* 2^-52 *)

Record c16case := mkc16 {
  s_L : Q; s_res : Q; s_angle : Q;
  s_pieces : list (Q * Q)             (* (length, angle) of every piece as observed *)
}.
(* the model's count is the observed count; every observed piece length is the correctly rounded
   L/n (within 2^-52 relative), likewise the angle *)
Definition c16_check (c : c16case) : bool :=
  let n := nsplit (s_L c) (s_res c) in
  Nat.eqb n (List.length (s_pieces c)) &&
  forallb (fun p => qabs_le (fst p) (s_L c / qn n) (ulp_rel * Qabs (s_L c / qn n))
                    && qabs_le (snd p) (s_angle c / qn n) (ulp_rel * Qabs (s_angle c / qn n))) (s_pieces c).
