(** C16, the ACTION of the pieces for classes that are not sliced, and why an element may be replaced by drift slices only if it
    IS a drift.
      unsplittable_track            : for the classes the model does not slice, split = [self], so tracking "the pieces in turn" is
                                      tracking the element, whatever the tracking function is
      drift_slices_track            : n drift slices of total length L track like drift_map L E
      drift_replacement_only_if_drift_map : if tracking through those slices equals the element's map M on every vector, then M acts as
                                      drift_map L E on every vector
      dip_map_angle0                : a dipole with angle = 0 and no tilt is base_rmatrix with its k1 (edges and fringes drop out)
      gradient_dipole_not_drift     : ... which is not a drift when k1 > 0 (entry R21 = -sqrt(k1) sin(sqrt(k1) L) <> 0)
      gradient_dipole_split_into_drifts_refuted : hence slicing a switched-off (angle = 0) gradient dipole into drifts changes
                                      the tracking result (the shape of seeded change C16-5) *)
From Coq Require Import List String ZArith QArith Reals Lra.
From Cheetah Require Import Base.Mat Optics.Maps Lattice.Split Lattice.SplitProofs.
Import ListNotations.

Theorem unsplittable_track : forall (B : Type) (trk : sel -> B -> B) (res : Q) (c : string) (L : Q) (b : B),
  fold_left (fun b p => trk p b) (split_fixed res (SOther c L)) b = trk (SOther c L) b /\
  fold_left (fun b p => trk p b) (split res (SOther c L)) b = trk (SOther c L) b.
Proof. intros. split; reflexivity. Qed.

Local Open Scope R_scope.

Theorem drift_slices_track : forall L E n v, n <> O ->
  fold_left (fun v M => rmvec M v) (repeat (drift_map (L / INR n) E) n) v = rmvec (drift_map L E) v.
Proof. intros L E n v Hn. rewrite track_repeat, drift_split_track by exact Hn. reflexivity. Qed.

Theorem drift_replacement_only_if_drift_map : forall (M : M7 R) L E n, n <> O ->
  (forall v, fold_left (fun v A => rmvec A v) (repeat (drift_map (L / INR n) E) n) v = rmvec M v) ->
  forall v, rmvec M v = rmvec (drift_map L E) v.
Proof. intros M L E n Hn H v. rewrite <- H. apply drift_slices_track, Hn. Qed.

Lemma edge_map_0 e phi : edge_map 0 e phi = rI.
Proof. unfold edge_map. mcbv'. meq'; ring. Qed.

Lemma rot_0 : rot 0 = rI.
Proof. unfold rot. rewrite cos_0, sin_0. mcbv'. meq'; ring. Qed.

Lemma dip_map_angle0 : forall L k1 e1 e2 gap fint fint_exit E, L <> 0 ->
  dip_map L 0 k1 e1 e2 0 gap fint fint_exit E = base_untilted L k1 0 E.
Proof.
  intros L k1 e1 e2 gap fint fx E HL. unfold dip_map, dip_body, dip_hx.
  destruct (Req_EM_T L 0) as [H|_]; [contradiction|].
  replace (0 / L) with 0 by (field; exact HL).
  rewrite !edge_map_0, Ropp_0, rot_0.
  unfold rI. rewrite !(mmul_I_l RRth), !(mmul_I_r RRth). reflexivity.
Qed.

(* the image of the unit x-offset: the gradient dipole kicks it, the drift does not *)
Theorem gradient_dipole_not_drift : forall L k1 e1 e2 gap fint fint_exit E,
  0 < k1 -> 0 < L -> sqrt k1 * L < PI ->
  rmvec (dip_map L 0 k1 e1 e2 0 gap fint fint_exit E) (mk7 1 0 0 0 0 0 0)
  <> rmvec (drift_map L E) (mk7 1 0 0 0 0 0 0).
Proof.
  intros L k1 e1 e2 gap fint fx E Hk HL Hpi Heq.
  rewrite dip_map_angle0 in Heq by lra.
  apply (f_equal (@c1 R)) in Heq. revert Heq.
  assert (Hkx : kx2 k1 0 = k1) by (unfold kx2, k1_guard; destruct (Req_EM_T k1 0); [lra | unfold Rsqr; ring]).
  unfold base_untilted, drift_map, sx, Sf. mcbv'. rewrite !Hkx.
  destruct (Rlt_dec 0 k1) as [_|H]; [|contradiction].
  assert (Hs : 0 < sqrt k1) by (apply sqrt_lt_R0; exact Hk).
  assert (Hsin : 0 < sin (sqrt k1 * L)) by (apply sin_gt_0; [apply Rmult_lt_0_compat; assumption | exact Hpi]).
  intros Heq.
  assert (Hval : - k1 * (sin (sqrt k1 * L) / sqrt k1) < 0).
  { apply Ropp_lt_cancel. rewrite Ropp_0. replace (- (- k1 * (sin (sqrt k1 * L) / sqrt k1))) with (k1 * (sin (sqrt k1 * L) / sqrt k1)) by ring.
    apply Rmult_lt_0_compat; [exact Hk|]. apply Rdiv_lt_0_compat; assumption. }
  lra.
Qed.

Theorem gradient_dipole_split_into_drifts_refuted : forall L k1 e1 e2 gap fint fint_exit E n,
  n <> O -> 0 < k1 -> 0 < L -> sqrt k1 * L < PI ->
  ~ (forall v, fold_left (fun v A => rmvec A v) (repeat (drift_map (L / INR n) E) n) v
               = rmvec (dip_map L 0 k1 e1 e2 0 gap fint fint_exit E) v).
Proof.
  intros L k1 e1 e2 gap fint fx E n Hn Hk HL Hpi H.
  apply (gradient_dipole_not_drift L k1 e1 e2 gap fint fx E Hk HL Hpi).
  apply (drift_replacement_only_if_drift_map _ L E n Hn H).
Qed.

(* the setting of the demonstration: length 1/2, k1 = 3, five slices *)
Lemma gradient_dipole_instance : forall e1 e2 gap fint fint_exit E,
  ~ (forall v, fold_left (fun v A => rmvec A v) (repeat (drift_map (/ 2 / INR 5) E) 5) v
               = rmvec (dip_map (/ 2) 0 3 e1 e2 0 gap fint fint_exit E) v).
Proof.
  intros. apply gradient_dipole_split_into_drifts_refuted; [discriminate | lra | lra |].
  assert (H : sqrt 3 < 2).
  { replace 2 with (sqrt 4) by (replace 4 with (2 * 2) by ring; apply sqrt_square; lra). apply sqrt_lt_1; lra. }
  pose proof PI2_3_2. lra.
Qed.
