(** Which classes split, and into what (C16): the class-level reading of Lattice/Split.v used by the correspondence check.

    Lattice/Split.v says: Drift, Quadrupole and the two correctors are sliced into pieces OF THEIR OWN CLASS; every other class
    ([SOther]: Dipole, RBend, Solenoid, Cavity, TransverseDeflectingCavity, Undulator, Marker, BPM, Screen, Aperture,
    SpaceChargeKick, CustomTransferMap) returns [self], whatever its parameters (a switched-off dipole / cavity / solenoid
    included).  The harness sends, for an element of ANY class, the classes and lengths of whatever split() returned and whether
    it was the very object; [c16_class_check] compares them with the model's pieces.  A class that starts (or stops) slicing, or
    slices into another class, is a model disagreement; the tracking oracle of harness/props/c16.py then looks for an input on
    which the pieces act differently from the element.  Definitions only. *)
From Coq Require Import List Bool String ZArith QArith Qround Qabs.
From Cheetah Require Import Lattice.Split.
Import ListNotations.
Open Scope Q_scope.

Definition sel_of (cls : string) (L angle : Q) : sel :=
  if String.eqb cls "Drift" then SDrift L EmptyString
  else if String.eqb cls "Quadrupole" then SQuad L 0 0 0 0 1%Z EmptyString
  else if String.eqb cls "HorizontalCorrector" then SHCor L angle
  else if String.eqb cls "VerticalCorrector" then SVCor L angle
  else SOther cls L.

Definition scls (e : sel) : string :=
  match e with
  | SDrift _ _ => "Drift" | SQuad _ _ _ _ _ _ _ => "Quadrupole" | SHCor _ _ => "HorizontalCorrector"
  | SVCor _ _ => "VerticalCorrector" | SOther c _ => c | SSeg _ => "Segment"
  end.

Record c16cls := mkc16c {
  k_cls : string; k_L : Q; k_res : Q; k_angle : Q;     (* vectorised length: the maximum *)
  k_self : bool;                                        (* split() returned a one-element list holding the element itself *)
  k_pieces : list (string * Q)                          (* class and (maximal) length of every piece, in order *)
}.

Definition c16_class_check (c : c16cls) : bool :=
  let e := sel_of (k_cls c) (k_L c) (k_angle c) in
  let expected := split_fixed (k_res c) e in
  Nat.eqb (List.length expected) (List.length (k_pieces c)) &&
  forallb (fun ep => String.eqb (scls (fst ep)) (fst (snd ep))
                     && qabs_le (snd (snd ep)) (slen (fst ep)) (ulp_rel * Qabs (slen (fst ep))))
          (combine expected (k_pieces c)) &&
  (match e with SOther _ _ => k_self c | _ => true end).
