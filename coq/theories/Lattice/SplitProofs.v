(** Proofs about Element.split (model in Split.v): lengths, counts, angles over Q;
    tracking through the pieces of a Drift / Quadrupole over R (maps of Optics/Maps.v). *)
From Coq Require Import List String ZArith QArith Qround Qabs Lia Lqa.
From Cheetah Require Import Lattice.Split.
Import ListNotations.
Local Open Scope Q_scope.

(** ---------- the ceiling *)
Lemma ceil_pos L res : 0 < res -> 0 < L -> (0 < Qceiling (L / res))%Z.
Proof.
  intros Hr HL. assert (Hq : 0 < L / res) by (apply Qlt_shift_div_l; lra).
  pose proof (Qle_ceiling (L / res)) as Hc.
  destruct (Z_lt_le_dec 0 (Qceiling (L / res))) as [|Hle]; [assumption|exfalso].
  assert (inject_Z (Qceiling (L / res)) <= 0) by (change 0 with (inject_Z 0); rewrite <- Zle_Qle; exact Hle).
  lra.
Qed.

Lemma qn_nsplit L res : 0 < res -> 0 < L -> qn (nsplit L res) = inject_Z (Qceiling (L / res)).
Proof. intros Hr HL. unfold qn, nsplit. rewrite Z2Nat.id; [reflexivity|]. pose proof (ceil_pos L res Hr HL). lia. Qed.

Lemma nsplit_pos L res : 0 < res -> 0 < L -> (0 < nsplit L res)%nat.
Proof. intros Hr HL. unfold nsplit. pose proof (ceil_pos L res Hr HL). lia. Qed.

Lemma qn_pos n : (0 < n)%nat -> 0 < qn n.
Proof. intros H. unfold qn. change 0 with (inject_Z 0). rewrite <- Zlt_Qlt. lia. Qed.

Lemma nsplit_zero L res : L == 0 -> nsplit L res = 0%nat.
Proof.
  intros H. unfold nsplit. assert (Hq : L / res == 0) by (unfold Qdiv; rewrite H; ring).
  rewrite (Qceiling_comp _ _ Hq). reflexivity.
Qed.

Lemma qn_S n : qn (S n) == qn n + 1.
Proof. unfold qn. rewrite Nat2Z.inj_succ. unfold Z.succ. rewrite inject_Z_plus. reflexivity. Qed.

Lemma div_mul_cancel L c : 0 < c -> c * (L / c) == L.
Proof. intros H. field. lra. Qed.

(* no piece is longer than the resolution *)
Lemma piece_bound L res : 0 < res -> 0 < L -> L / qn (nsplit L res) <= res.
Proof.
  intros Hr HL. rewrite (qn_nsplit L res Hr HL).
  pose proof (ceil_pos L res Hr HL) as Hc. pose proof (Qle_ceiling (L / res)) as Hle.
  set (C := inject_Z (Qceiling (L / res))) in *.
  assert (HC : 0 < C) by (unfold C; change 0 with (inject_Z 0); rewrite <- Zlt_Qlt; exact Hc).
  apply Qle_shift_div_r; [exact HC|].
  assert (HL2 : L == (L / res) * res) by (field; lra).
  rewrite HL2 at 1. rewrite (Qmult_comm res C). apply Qmult_le_compat_r; lra.
Qed.

(* the number of pieces is the least that achieves it *)
Lemma count_minimal L res : 0 < res -> 0 < L -> (qn (nsplit L res) - 1) * res < L.
Proof.
  intros Hr HL. rewrite (qn_nsplit L res Hr HL).
  pose proof (Qceiling_lt (L / res)) as Hlt.
  assert (He : inject_Z (Qceiling (L / res) - 1) == inject_Z (Qceiling (L / res)) - 1).
  { unfold Z.sub. rewrite inject_Z_plus. reflexivity. }
  rewrite He in Hlt.
  assert (HL2 : L == (L / res) * res) by (field; lra).
  rewrite HL2 at 2. apply Qmult_lt_compat_r; assumption.
Qed.

(* resolution >= length: exactly one piece *)
Lemma nsplit_one L res : 0 < L -> L <= res -> nsplit L res = 1%nat.
Proof.
  intros HL Hle. assert (Hr : 0 < res) by lra. unfold nsplit.
  pose proof (ceil_pos L res Hr HL) as H0.
  assert (Hq : L / res <= 1) by (apply Qle_shift_div_r; lra).
  pose proof (Qceiling_resp_le _ _ Hq) as H1. change (Qceiling 1) with 1%Z in H1.
  assert (Qceiling (L / res) = 1%Z) by lia. rewrite H. reflexivity.
Qed.

(** ---------- sums over the pieces *)
Lemma sum_len_app a b : sum_len (a ++ b) == sum_len a + sum_len b.
Proof.
  induction a as [|x r IH]; unfold sum_len in *; cbn [List.app fold_right]; [ring|]. rewrite IH. ring.
Qed.

Lemma sum_len_repeat x n : sum_len (repeat x n) == qn n * slen x.
Proof.
  induction n as [|n IH]; [unfold sum_len, qn; cbn [repeat fold_right Z.of_nat]; ring|].
  rewrite qn_S. unfold sum_len in *. cbn [repeat fold_right]. rewrite IH. ring.
Qed.

Lemma sum_angle_repeat x n : sum_angle (repeat x n) == qn n * sangle x.
Proof.
  induction n as [|n IH]; [unfold sum_angle, qn; cbn [repeat fold_right Z.of_nat]; ring|].
  rewrite qn_S. unfold sum_angle in *. cbn [repeat fold_right]. rewrite IH. ring.
Qed.

Lemma leaf_sum res L (mk : Q -> sel) : 0 < res -> 0 <= L -> (forall x, slen (mk x) = x) ->
  sum_len (repeat (mk (L / qn (nsplit L res))) (nsplit L res)) == L.
Proof.
  intros Hr HL Hmk. rewrite sum_len_repeat, Hmk.
  destruct (Qlt_le_dec 0 L) as [Hpos|Hz].
  - apply div_mul_cancel, qn_pos, nsplit_pos; assumption.
  - assert (L == 0) by lra. rewrite (nsplit_zero L res H). unfold qn. cbn. rewrite H. ring.
Qed.

Section Ind.
  Variable P : sel -> Prop.
  Hypothesis H1 : forall L m, P (SDrift L m).
  Hypothesis H2 : forall L k1 mx my t s m, P (SQuad L k1 mx my t s m).
  Hypothesis H3 : forall L a, P (SHCor L a).
  Hypothesis H4 : forall L a, P (SVCor L a).
  Hypothesis H5 : forall c L, P (SOther c L).
  Hypothesis H6 : forall es, Forall P es -> P (SSeg es).
  Fixpoint sel_ind' (e : sel) : P e :=
    match e with
    | SDrift L m => H1 L m
    | SQuad L k1 mx my t s m => H2 L k1 mx my t s m
    | SHCor L a => H3 L a
    | SVCor L a => H4 L a
    | SOther c L => H5 c L
    | SSeg es => H6 es ((fix go (es : list sel) : Forall P es :=
                   match es with [] => Forall_nil _ | e :: r => Forall_cons _ (sel_ind' e) (go r) end) es)
    end.
End Ind.

(** the lengths of the pieces add up to the original length (also for length 0: no pieces),
    for every element and every nesting of segments *)
Theorem split_sum : forall res e, 0 < res -> nonneg e -> sum_len (split res e) == slen e.
Proof.
  intros res e Hr. induction e as [L m|L k1 mx my t s m|L a|L a|c L|es IH] using sel_ind'; intros Hn.
  - apply (leaf_sum res L (fun x => SDrift x m)); auto.
  - apply (leaf_sum res L (fun x => SQuad x k1 mx my t s m)); auto.
  - apply (leaf_sum res L (fun x => SHCor x (a / qn (nsplit L res)))); auto.
  - apply (leaf_sum res L (fun x => SVCor x (a / qn (nsplit L res)))); auto.
  - cbn. ring.
  - cbn [split slen]. induction es as [|x r IHr]; [reflexivity|].
    inversion IH as [|? ? Hx Hrr]; subst. cbn in Hn. destruct Hn as [Hnx Hnr].
    cbn [flat_map fold_right]. rewrite sum_len_app, (Hx Hnx), (IHr Hrr Hnr). reflexivity.
Qed.

(** every piece of a splittable element is at most `resolution` long *)
Theorem split_bound : forall res e, 0 < res -> nonneg e ->
  Forall (fun p => splittable p = true -> slen p <= res) (split res e).
Proof.
  intros res e Hr. induction e as [L m|L k1 mx my t s m|L a|L a|c L|es IH] using sel_ind'; intros Hn.
  1-4: cbn [split]; cbn [nonneg slen] in Hn; (destruct (Qlt_le_dec 0 L) as [Hpos|Hz];
         [apply Forall_forall; intros p Hp; apply repeat_spec in Hp; subst p; intros _; cbn [slen];
          apply piece_bound; assumption
         |assert (Hz' : L == 0) by lra; rewrite (nsplit_zero L res Hz'); constructor]).
  - cbn. constructor; [discriminate|constructor].
  - cbn [split]. induction es as [|x r IHr]; [constructor|].
    inversion IH as [|? ? Hx Hrr]; subst. cbn in Hn. destruct Hn as [Hnx Hnr].
    cbn [flat_map]. apply Forall_app. split; [apply Hx, Hnx|apply IHr; assumption].
Qed.

(** with one piece fewer, a piece would be longer than the resolution *)
Theorem split_count_minimal : forall res L, 0 < res -> 0 < L ->
  (0 < nsplit L res)%nat /\ (qn (nsplit L res) - 1) * res < L.
Proof. intros. split; [apply nsplit_pos|apply count_minimal]; assumption. Qed.

(** resolution >= length: a single piece, a copy of the element (without its name) *)
Theorem split_coarse : forall res L m, 0 < L -> L <= res ->
  exists L', split res (SDrift L m) = [SDrift L' m] /\ L' == L.
Proof.
  intros res L m HL Hle. cbn [split]. rewrite (nsplit_one L res HL Hle). eexists. split; [reflexivity|].
  unfold qn. cbn. field.
Qed.

(** correctors: the pieces' angles add up to the angle -- provided there is a piece at all *)
Theorem corrector_split_angle : forall res L a, 0 < res -> 0 < L ->
  sum_angle (split res (SHCor L a)) == a /\ sum_angle (split res (SVCor L a)) == a.
Proof.
  intros res L a Hr HL. cbn [split]. rewrite !sum_angle_repeat. cbn [sangle].
  split; apply div_mul_cancel, qn_pos, nsplit_pos; assumption.
Qed.

(* a zero-length (thin) corrector splits into NO pieces: its deflection is lost *)
Theorem corrector_split_angle_refuted : forall res a, ~ a == 0 ->
  split res (SHCor 0 a) = [] /\ split res (SVCor 0 a) = [] /\ ~ sum_angle (split res (SHCor 0 a)) == a.
Proof.
  intros res a Ha. assert (Hn : nsplit 0 res = 0%nat) by (apply nsplit_zero; reflexivity).
  cbn [split]. rewrite Hn. cbn [repeat]. repeat split. cbn. intros H. apply Ha. symmetry. exact H.
Qed.

(** Quadrupole pieces keep k1, misalignment, tilt, num_steps and the tracking method *)
Theorem quad_pieces_keep_attributes : forall res L k1 mx my t s m,
  Forall (fun p => exists L', p = SQuad L' k1 mx my t s m) (split res (SQuad L k1 mx my t s m)).
Proof. intros. cbn [split]. apply Forall_forall. intros p Hp. apply repeat_spec in Hp. eexists. exact Hp. Qed.

Theorem unsplittable_identity : forall res c L, split res (SOther c L) = [SOther c L].
Proof. reflexivity. Qed.

Theorem segment_split_concat : forall res es1 es2,
  split res (SSeg (es1 ++ es2)) = split res (SSeg es1) ++ split res (SSeg es2).
Proof. intros. cbn [split]. apply flat_map_app. Qed.

Theorem segment_split_cons : forall res e es, split res (SSeg (e :: es)) = split res e ++ split res (SSeg es).
Proof. reflexivity. Qed.

(** vectorised lengths: the count comes from the longest entry, so every entry of every piece is
    within the resolution, and every entry's pieces add up to it *)
Theorem vsplit_bound : forall res Lmax L, 0 < res -> 0 < Lmax -> L <= Lmax ->
  L / qn (nsplit Lmax res) <= res.
Proof.
  intros res Lmax L Hr Hm Hle. pose proof (piece_bound Lmax res Hr Hm) as Hb.
  pose proof (qn_pos _ (nsplit_pos Lmax res Hr Hm)) as Hq.
  apply Qle_trans with (Lmax / qn (nsplit Lmax res)); [|exact Hb].
  unfold Qdiv. apply Qmult_le_compat_r; [exact Hle|]. apply Qlt_le_weak, Qinv_lt_0_compat, Hq.
Qed.

Theorem vsplit_sum : forall res Lmax L, 0 < res -> 0 < Lmax ->
  qn (nsplit Lmax res) * (L / qn (nsplit Lmax res)) == L.
Proof. intros. apply div_mul_cancel, qn_pos, nsplit_pos; assumption. Qed.
