(** Proofs about Element.split (model in Split.v): lengths, counts, angles over Q;
    tracking through the pieces of a Drift / Quadrupole over R (maps of Optics/Maps.v). *)
From Coq Require Import List String ZArith QArith Qround Qabs Lia Lqa.
From Cheetah Require Import Lattice.Split.
Import ListNotations.
Local Open Scope Q_scope.

(** ---------- the ceiling *)
Lemma ceil_pos L res : 0 < res -> 0 < L -> (0 < Qceiling (L / res))%Z.
Proof.
  intros Hr HL. assert (Hq : 0 < L / res) by (apply Qlt_shift_div_l; lra).
  pose proof (Qle_ceiling (L / res)) as Hc.
  destruct (Z_lt_le_dec 0 (Qceiling (L / res))) as [|Hle]; [assumption|exfalso].
  assert (inject_Z (Qceiling (L / res)) <= 0) by (change 0 with (inject_Z 0); rewrite <- Zle_Qle; exact Hle).
  lra.
Qed.

Lemma qn_nsplit L res : 0 < res -> 0 < L -> qn (nsplit L res) = inject_Z (Qceiling (L / res)).
Proof. intros Hr HL. unfold qn, nsplit. rewrite Z2Nat.id; [reflexivity|]. pose proof (ceil_pos L res Hr HL). lia. Qed.

Lemma nsplit_pos L res : 0 < res -> 0 < L -> (0 < nsplit L res)%nat.
Proof. intros Hr HL. unfold nsplit. pose proof (ceil_pos L res Hr HL). lia. Qed.

Lemma qn_pos n : (0 < n)%nat -> 0 < qn n.
Proof. intros H. unfold qn. change 0 with (inject_Z 0). rewrite <- Zlt_Qlt. lia. Qed.

Lemma nsplit_zero L res : L == 0 -> nsplit L res = 0%nat.
Proof.
  intros H. unfold nsplit. assert (Hq : L / res == 0) by (unfold Qdiv; rewrite H; ring).
  rewrite (Qceiling_comp _ _ Hq). reflexivity.
Qed.

Lemma qn_S n : qn (S n) == qn n + 1.
Proof. unfold qn. rewrite Nat2Z.inj_succ. unfold Z.succ. rewrite inject_Z_plus. reflexivity. Qed.

Lemma div_mul_cancel L c : 0 < c -> c * (L / c) == L.
Proof. intros H. field. lra. Qed.

(* no piece is longer than the resolution *)
Lemma piece_bound L res : 0 < res -> 0 < L -> L / qn (nsplit L res) <= res.
Proof.
  intros Hr HL. rewrite (qn_nsplit L res Hr HL).
  pose proof (ceil_pos L res Hr HL) as Hc. pose proof (Qle_ceiling (L / res)) as Hle.
  set (C := inject_Z (Qceiling (L / res))) in *.
  assert (HC : 0 < C) by (unfold C; change 0 with (inject_Z 0); rewrite <- Zlt_Qlt; exact Hc).
  apply Qle_shift_div_r; [exact HC|].
  assert (HL2 : L == (L / res) * res) by (field; lra).
  rewrite HL2 at 1. rewrite (Qmult_comm res C). apply Qmult_le_compat_r; lra.
Qed.

(* the number of pieces is the least that achieves it *)
Lemma count_minimal L res : 0 < res -> 0 < L -> (qn (nsplit L res) - 1) * res < L.
Proof.
  intros Hr HL. rewrite (qn_nsplit L res Hr HL).
  pose proof (Qceiling_lt (L / res)) as Hlt.
  assert (He : inject_Z (Qceiling (L / res) - 1) == inject_Z (Qceiling (L / res)) - 1).
  { unfold Z.sub. rewrite inject_Z_plus. reflexivity. }
  rewrite He in Hlt.
  assert (HL2 : L == (L / res) * res) by (field; lra).
  rewrite HL2 at 2. apply Qmult_lt_compat_r; assumption.
Qed.

(* resolution >= length: exactly one piece *)
Lemma nsplit_one L res : 0 < L -> L <= res -> nsplit L res = 1%nat.
Proof.
  intros HL Hle. assert (Hr : 0 < res) by lra. unfold nsplit.
  pose proof (ceil_pos L res Hr HL) as H0.
  assert (Hq : L / res <= 1) by (apply Qle_shift_div_r; lra).
  pose proof (Qceiling_resp_le _ _ Hq) as H1. change (Qceiling 1) with 1%Z in H1.
  assert (Qceiling (L / res) = 1%Z) by lia. rewrite H. reflexivity.
Qed.

(** ---------- sums over the pieces *)
Lemma sum_len_app a b : sum_len (a ++ b) == sum_len a + sum_len b.
Proof.
  induction a as [|x r IH]; unfold sum_len in *; cbn [List.app fold_right]; [ring|]. rewrite IH. ring.
Qed.

Lemma sum_len_repeat x n : sum_len (repeat x n) == qn n * slen x.
Proof.
  induction n as [|n IH]; [unfold sum_len, qn; cbn [repeat fold_right Z.of_nat]; ring|].
  rewrite qn_S. unfold sum_len in *. cbn [repeat fold_right]. rewrite IH. ring.
Qed.

Lemma sum_angle_repeat x n : sum_angle (repeat x n) == qn n * sangle x.
Proof.
  induction n as [|n IH]; [unfold sum_angle, qn; cbn [repeat fold_right Z.of_nat]; ring|].
  rewrite qn_S. unfold sum_angle in *. cbn [repeat fold_right]. rewrite IH. ring.
Qed.

Lemma leaf_sum res L (mk : Q -> sel) : 0 < res -> 0 <= L -> (forall x, slen (mk x) = x) ->
  sum_len (repeat (mk (L / qn (nsplit L res))) (nsplit L res)) == L.
Proof.
  intros Hr HL Hmk. rewrite sum_len_repeat, Hmk.
  destruct (Qlt_le_dec 0 L) as [Hpos|Hz].
  - apply div_mul_cancel, qn_pos, nsplit_pos; assumption.
  - assert (L == 0) by lra. rewrite (nsplit_zero L res H). unfold qn. cbn. rewrite H. ring.
Qed.

Section Ind.
  Variable P : sel -> Prop.
  Hypothesis H1 : forall L m, P (SDrift L m).
  Hypothesis H2 : forall L k1 mx my t s m, P (SQuad L k1 mx my t s m).
  Hypothesis H3 : forall L a, P (SHCor L a).
  Hypothesis H4 : forall L a, P (SVCor L a).
  Hypothesis H5 : forall c L, P (SOther c L).
  Hypothesis H6 : forall es, Forall P es -> P (SSeg es).
  Fixpoint sel_ind' (e : sel) : P e :=
    match e with
    | SDrift L m => H1 L m
    | SQuad L k1 mx my t s m => H2 L k1 mx my t s m
    | SHCor L a => H3 L a
    | SVCor L a => H4 L a
    | SOther c L => H5 c L
    | SSeg es => H6 es ((fix go (es : list sel) : Forall P es :=
                   match es with [] => Forall_nil _ | e :: r => Forall_cons _ (sel_ind' e) (go r) end) es)
    end.
End Ind.

(** the lengths of the pieces add up to the original length (also for length 0: no pieces),
    for every element and every nesting of segments *)
Theorem split_sum : forall res e, 0 < res -> nonneg e -> sum_len (split res e) == slen e.
Proof.
  intros res e Hr. induction e as [L m|L k1 mx my t s m|L a|L a|c L|es IH] using sel_ind'; intros Hn.
  - apply (leaf_sum res L (fun x => SDrift x m)); auto.
  - apply (leaf_sum res L (fun x => SQuad x k1 mx my t s m)); auto.
  - apply (leaf_sum res L (fun x => SHCor x (a / qn (nsplit L res)))); auto.
  - apply (leaf_sum res L (fun x => SVCor x (a / qn (nsplit L res)))); auto.
  - cbn. ring.
  - cbn [split slen]. induction es as [|x r IHr]; [reflexivity|].
    inversion IH as [|? ? Hx Hrr]; subst. cbn in Hn. destruct Hn as [Hnx Hnr].
    cbn [flat_map fold_right]. rewrite sum_len_app, (Hx Hnx), (IHr Hrr Hnr). reflexivity.
Qed.

(** every piece of a splittable element is at most `resolution` long *)
Theorem split_bound : forall res e, 0 < res -> nonneg e ->
  Forall (fun p => splittable p = true -> slen p <= res) (split res e).
Proof.
  intros res e Hr. induction e as [L m|L k1 mx my t s m|L a|L a|c L|es IH] using sel_ind'; intros Hn.
  1-4: cbn [split]; cbn [nonneg slen] in Hn; (destruct (Qlt_le_dec 0 L) as [Hpos|Hz];
         [apply Forall_forall; intros p Hp; apply repeat_spec in Hp; subst p; intros _; cbn [slen];
          apply piece_bound; assumption
         |assert (Hz' : L == 0) by lra; rewrite (nsplit_zero L res Hz'); constructor]).
  - cbn. constructor; [discriminate|constructor].
  - cbn [split]. induction es as [|x r IHr]; [constructor|].
    inversion IH as [|? ? Hx Hrr]; subst. cbn in Hn. destruct Hn as [Hnx Hnr].
    cbn [flat_map]. apply Forall_app. split; [apply Hx, Hnx|apply IHr; assumption].
Qed.

(** with one piece fewer, a piece would be longer than the resolution *)
Theorem split_count_minimal : forall res L, 0 < res -> 0 < L ->
  (0 < nsplit L res)%nat /\ (qn (nsplit L res) - 1) * res < L.
Proof. intros. split; [apply nsplit_pos|apply count_minimal]; assumption. Qed.

(** resolution >= length: a single piece, a copy of the element (without its name) *)
Theorem split_coarse : forall res L m, 0 < L -> L <= res ->
  exists L', split res (SDrift L m) = [SDrift L' m] /\ L' == L.
Proof.
  intros res L m HL Hle. cbn [split]. rewrite (nsplit_one L res HL Hle). eexists. split; [reflexivity|].
  unfold qn. cbn. field.
Qed.

(** correctors: the pieces' angles add up to the angle -- provided there is a piece at all *)
Theorem corrector_split_angle : forall res L a, 0 < res -> 0 < L ->
  sum_angle (split res (SHCor L a)) == a /\ sum_angle (split res (SVCor L a)) == a.
Proof.
  intros res L a Hr HL. cbn [split]. rewrite !sum_angle_repeat. cbn [sangle].
  split; apply div_mul_cancel, qn_pos, nsplit_pos; assumption.
Qed.

(* a zero-length (thin) corrector splits into NO pieces: its deflection is lost *)
Theorem corrector_split_angle_refuted : forall res a, ~ a == 0 ->
  split res (SHCor 0 a) = [] /\ split res (SVCor 0 a) = [] /\ ~ sum_angle (split res (SHCor 0 a)) == a.
Proof.
  intros res a Ha. assert (Hn : nsplit 0 res = 0%nat) by (apply nsplit_zero; reflexivity).
  cbn [split]. rewrite Hn. cbn [repeat]. repeat split. cbn. intros H. apply Ha. symmetry. exact H.
Qed.

(** Quadrupole pieces keep k1, misalignment, tilt, num_steps and the tracking method *)
Theorem quad_pieces_keep_attributes : forall res L k1 mx my t s m,
  Forall (fun p => exists L', p = SQuad L' k1 mx my t s m) (split res (SQuad L k1 mx my t s m)).
Proof. intros. cbn [split]. apply Forall_forall. intros p Hp. apply repeat_spec in Hp. eexists. exact Hp. Qed.

Theorem unsplittable_identity : forall res c L, split res (SOther c L) = [SOther c L].
Proof. reflexivity. Qed.

Theorem segment_split_concat : forall res es1 es2,
  split res (SSeg (es1 ++ es2)) = split res (SSeg es1) ++ split res (SSeg es2).
Proof. intros. cbn [split]. apply flat_map_app. Qed.

Theorem segment_split_cons : forall res e es, split res (SSeg (e :: es)) = split res e ++ split res (SSeg es).
Proof. reflexivity. Qed.

(** vectorised lengths: the count comes from the longest entry, so every entry of every piece is
    within the resolution, and every entry's pieces add up to it *)
Theorem vsplit_bound : forall res Lmax L, 0 < res -> 0 < Lmax -> L <= Lmax ->
  L / qn (nsplit Lmax res) <= res.
Proof.
  intros res Lmax L Hr Hm Hle. pose proof (piece_bound Lmax res Hr Hm) as Hb.
  pose proof (qn_pos _ (nsplit_pos Lmax res Hr Hm)) as Hq.
  apply Qle_trans with (Lmax / qn (nsplit Lmax res)); [|exact Hb].
  unfold Qdiv. apply Qmult_le_compat_r; [exact Hle|]. apply Qlt_le_weak, Qinv_lt_0_compat, Hq.
Qed.

Theorem vsplit_sum : forall res Lmax L, 0 < res -> 0 < Lmax ->
  qn (nsplit Lmax res) * (L / qn (nsplit Lmax res)) == L.
Proof. intros. apply div_mul_cancel, qn_pos, nsplit_pos; assumption. Qed.

(** ---------- finding F29 repaired: [split_fixed] (correctors return [self] when num_splits < 1) *)

(* the angles of the pieces add up to the angle for EVERY length (zero and even negative ones) and every resolution:
   no hypothesis is left *)
Theorem corrector_split_angle_fixed : forall res L a,
  sum_angle (split_fixed res (SHCor L a)) == a /\ sum_angle (split_fixed res (SVCor L a)) == a.
Proof.
  intros res L a. cbn [split_fixed]. destruct (nsplit L res) as [|k].
  - unfold sum_angle. cbn [fold_right sangle]. split; ring.
  - rewrite !sum_angle_repeat. cbn [sangle]. split; apply div_mul_cancel, qn_pos; lia.
Qed.

(* a corrector never splits into nothing *)
Theorem split_nonempty_fixed : forall res L a,
  split_fixed res (SHCor L a) <> [] /\ split_fixed res (SVCor L a) <> [].
Proof.
  intros res L a. cbn [split_fixed]. destruct (nsplit L res) as [|k]; cbn [repeat]; split; discriminate.
Qed.

(* the thin corrector is kept as it is: one piece, length 0, the whole angle *)
Theorem thin_corrector_split_fixed : forall res a,
  split_fixed res (SHCor 0 a) = [SHCor 0 a] /\ split_fixed res (SVCor 0 a) = [SVCor 0 a].
Proof.
  intros res a. assert (Hn : nsplit 0 res = 0%nat) by (apply nsplit_zero; reflexivity).
  cbn [split_fixed]. rewrite Hn. split; reflexivity.
Qed.

(* wherever every corrector has a length the repaired split is the old one: all theorems about [split] carry over there *)
Theorem split_fixed_eq_split : forall res e, 0 < res -> cor_pos e -> split_fixed res e = split res e.
Proof.
  intros res e Hr. induction e as [L m|L k1 mx my t s m|L a|L a|c L|es IH] using sel_ind'; intros Hc; try reflexivity.
  1-2: cbn [cor_pos] in Hc; cbn [split_fixed split]; pose proof (nsplit_pos L res Hr Hc) as Hp;
       destruct (nsplit L res); [lia|reflexivity].
  cbn [split_fixed split]. induction es as [|x r IHr]; [reflexivity|].
  inversion IH as [|? ? Hx Hrr]; subst. cbn in Hc. destruct Hc as [Hcx Hcr].
  cbn [flat_map]. rewrite (Hx Hcx), (IHr Hrr Hcr). reflexivity.
Qed.

(** lengths still add up, for every element and nesting -- now including thin correctors, which are kept *)
Theorem split_fixed_sum : forall res e, 0 < res -> nonneg e -> sum_len (split_fixed res e) == slen e.
Proof.
  intros res e Hr. induction e as [L m|L k1 mx my t s m|L a|L a|c L|es IH] using sel_ind'; intros Hn.
  - apply (leaf_sum res L (fun x => SDrift x m)); auto.
  - apply (leaf_sum res L (fun x => SQuad x k1 mx my t s m)); auto.
  - cbn [split_fixed]. destruct (nsplit L res) eqn:E; [cbn; ring|]. rewrite <- E.
    apply (leaf_sum res L (fun x => SHCor x (a / qn (nsplit L res)))); auto.
  - cbn [split_fixed]. destruct (nsplit L res) eqn:E; [cbn; ring|]. rewrite <- E.
    apply (leaf_sum res L (fun x => SVCor x (a / qn (nsplit L res)))); auto.
  - cbn. ring.
  - cbn [split_fixed slen]. induction es as [|x r IHr]; [reflexivity|].
    inversion IH as [|? ? Hx Hrr]; subst. cbn in Hn. destruct Hn as [Hnx Hnr].
    cbn [flat_map fold_right]. rewrite sum_len_app, (Hx Hnx), (IHr Hrr Hnr). reflexivity.
Qed.

(** and no piece of a splittable element is longer than the resolution (the kept thin corrector has length 0) *)
Theorem split_fixed_bound : forall res e, 0 < res -> nonneg e ->
  Forall (fun p => splittable p = true -> slen p <= res) (split_fixed res e).
Proof.
  intros res e Hr. induction e as [L m|L k1 mx my t s m|L a|L a|c L|es IH] using sel_ind'; intros Hn.
  1-2: cbn [split_fixed]; cbn [nonneg slen] in Hn; (destruct (Qlt_le_dec 0 L) as [Hpos|Hz];
         [apply Forall_forall; intros p Hp; apply repeat_spec in Hp; subst p; intros _; cbn [slen];
          apply piece_bound; assumption
         |assert (Hz' : L == 0) by lra; rewrite (nsplit_zero L res Hz'); constructor]).
  1-2: cbn [split_fixed]; cbn [nonneg slen] in Hn; (destruct (Qlt_le_dec 0 L) as [Hpos|Hz];
         [pose proof (nsplit_pos L res Hr Hpos) as Hp; pose proof (piece_bound L res Hr Hpos) as Hb;
          destruct (nsplit L res) eqn:E; [lia|];
          apply Forall_forall; intros p Hp'; apply repeat_spec in Hp'; subst p; intros _; cbn [slen]; exact Hb
         |assert (Hz' : L == 0) by lra; rewrite (nsplit_zero L res Hz');
          constructor; [intros _; cbn [slen]; lra|constructor]]).
  - cbn. constructor; [discriminate|constructor].
  - cbn [split_fixed]. induction es as [|x r IHr]; [constructor|].
    inversion IH as [|? ? Hx Hrr]; subst. cbn in Hn. destruct Hn as [Hnx Hnr].
    cbn [flat_map]. apply Forall_app. split; [apply Hx, Hnx|apply IHr; assumption].
Qed.

Theorem segment_split_fixed_concat : forall res es1 es2,
  split_fixed res (SSeg (es1 ++ es2)) = split_fixed res (SSeg es1) ++ split_fixed res (SSeg es2).
Proof. intros. cbn [split_fixed]. apply flat_map_app. Qed.

Theorem segment_split_fixed_cons : forall res e es,
  split_fixed res (SSeg (e :: es)) = split_fixed res e ++ split_fixed res (SSeg es).
Proof. reflexivity. Qed.

Lemma sum_angle_app a b : sum_angle (a ++ b) == sum_angle a + sum_angle b.
Proof.
  induction a as [|x r IH]; unfold sum_angle in *; cbn [List.app fold_right]; [ring|]. rewrite IH. ring.
Qed.

(** Segment.split (repaired correctors) never loses a kick: for every element, every nesting of segments, every
    resolution and all lengths, the angles of all pieces add up to the total angle set on the correctors *)
Theorem split_fixed_total_angle : forall res e, sum_angle (split_fixed res e) == tot_angle e.
Proof.
  intros res e. induction e as [L m|L k1 mx my t s m|L a|L a|c L|es IH] using sel_ind'.
  - cbn [split_fixed tot_angle]. rewrite sum_angle_repeat. cbn [sangle]. ring.
  - cbn [split_fixed tot_angle]. rewrite sum_angle_repeat. cbn [sangle]. ring.
  - apply (corrector_split_angle_fixed res L a).
  - apply (corrector_split_angle_fixed res L a).
  - cbn. ring.
  - cbn [split_fixed tot_angle]. induction es as [|x r IHr]; [reflexivity|].
    inversion IH as [|? ? Hx Hrr]; subst. cbn [flat_map fold_right]. rewrite sum_angle_app, Hx, (IHr Hrr). reflexivity.
Qed.

(* ... which the code before the repair does not achieve: a segment with a thin corrector loses that corrector's angle *)
Theorem split_total_angle_refuted : forall res m a, 0 < res -> ~ a == 0 ->
  ~ sum_angle (split res (SSeg [SDrift 1 m; SHCor 0 a])) == tot_angle (SSeg [SDrift 1 m; SHCor 0 a]).
Proof.
  intros res m a Hr Ha. assert (Hn : nsplit 0 res = 0%nat) by (apply nsplit_zero; reflexivity).
  cbn [split flat_map tot_angle fold_right sangle]. rewrite Hn. cbn [repeat]. rewrite !app_nil_r.
  rewrite sum_angle_repeat. cbn [sangle]. intros H. apply Ha. lra.
Qed.

(** ---------- tracking through the pieces, over R: the pieces' maps multiply to the whole map.
    Drift and Quadrupole maps are those of Optics/Maps.v (transcribed from the code). *)
From Coq Require Import Reals Lra.
From Cheetah Require Import Base.Mat Optics.Maps.
Local Close Scope Q_scope.
Local Open Scope R_scope.

Ltac mcbv' := cbv [m7nth v7nth row mmul mvec transpose col v7map dot c0 c1 c2 c3 c4 c5 c6 rI I7 e0 e1 e2 e3 e4 e5 e6].
Ltac meq' := apply v7_eq; cbv [c0 c1 c2 c3 c4 c5 c6]; apply v7_eq; cbv [c0 c1 c2 c3 c4 c5 c6].

(* the map of n identical pieces tracked one after the other *)
Fixpoint mpow (A : M7 R) (n : nat) : M7 R := match n with O => rI | S k => rmmul (mpow A k) A end.

Lemma track_repeat A n v : fold_left (fun v M => rmvec M v) (repeat A n) v = rmvec (mpow A n) v.
Proof.
  revert v. induction n as [|n IH]; intros v; cbn [repeat fold_left mpow].
  - symmetry. apply (mvec_I RRth).
  - rewrite IH. symmetry. apply (mvec_mmul RRth).
Qed.

Lemma mpow_conj X Y A n : rmmul X Y = rI -> rmmul Y X = rI ->
  mpow (rmmul X (rmmul A Y)) n = rmmul X (rmmul (mpow A n) Y).
Proof.
  intros HXY HYX. induction n as [|n IH]; cbn [mpow].
  - rewrite (mmul_I_l RRth). symmetry. exact HXY.
  - rewrite IH. rewrite !(mmul_assoc RRth). f_equal. f_equal.
    rewrite <- (mmul_assoc RRth Y X). rewrite HYX. rewrite (mmul_I_l RRth). reflexivity.
Qed.

(** Drift *)
Lemma drift_add a b E : rmmul (drift_map b E) (drift_map a E) = drift_map (a + b) E.
Proof. unfold drift_map, drift_r56. mcbv'. meq'; unfold Rdiv; ring. Qed.

Lemma drift_pow a E n : mpow (drift_map a E) n = drift_map (INR n * a) E.
Proof.
  induction n as [|n IH]; cbn [mpow].
  - unfold drift_map, drift_r56. cbn [INR]. mcbv'. meq'; unfold Rdiv; ring.
  - rewrite IH, drift_add. f_equal. rewrite S_INR. ring.
Qed.

Theorem drift_split_track : forall L E n, n <> O -> mpow (drift_map (L / INR n) E) n = drift_map L E.
Proof.
  intros L E n Hn. rewrite drift_pow. f_equal. field. apply not_0_INR, Hn.
Qed.

(** Quadrupole: addition theorems of the C/S functions of base_rmatrix *)
Lemma cosh_plus x y : cosh (x + y) = cosh x * cosh y + sinh x * sinh y.
Proof.
  unfold cosh, sinh. replace (- (x + y)) with (- x + - y) by ring. rewrite !exp_plus. field.
Qed.
Lemma sinh_plus x y : sinh (x + y) = sinh x * cosh y + cosh x * sinh y.
Proof.
  unfold cosh, sinh. replace (- (x + y)) with (- x + - y) by ring. rewrite !exp_plus. field.
Qed.

Lemma Cf_add k a b : Cf k (a + b) = Cf k a * Cf k b - k * (Sf k a * Sf k b).
Proof.
  unfold Cf, Sf. destruct (Rlt_dec 0 k) as [Hp|Hnp]; [|destruct (Rlt_dec k 0) as [Hn|Hnn]].
  - assert (Hs : k = sqrt k * sqrt k) by (symmetry; apply sqrt_sqrt; lra).
    set (s := sqrt k) in *. assert (Hs0 : s <> 0) by (intros H0; rewrite H0 in Hs; lra).
    replace (s * (a + b)) with (s * a + s * b) by ring. rewrite cos_plus. rewrite Hs. field. exact Hs0.
  - assert (Hs : k = - (sqrt (- k) * sqrt (- k))) by (rewrite sqrt_sqrt; lra).
    set (s := sqrt (- k)) in *. assert (Hs0 : s <> 0) by (intros H0; rewrite H0 in Hs; lra).
    replace (s * (a + b)) with (s * a + s * b) by ring. rewrite cosh_plus. rewrite Hs. field. exact Hs0.
  - assert (k = 0) by lra. subst k. ring.
Qed.

Lemma Sf_add k a b : Sf k (a + b) = Sf k a * Cf k b + Cf k a * Sf k b.
Proof.
  unfold Cf, Sf. destruct (Rlt_dec 0 k) as [Hp|Hnp]; [|destruct (Rlt_dec k 0) as [Hn|Hnn]].
  - assert (Hs : k = sqrt k * sqrt k) by (symmetry; apply sqrt_sqrt; lra).
    set (s := sqrt k) in *. assert (Hs0 : s <> 0) by (intros H0; rewrite H0 in Hs; lra).
    replace (s * (a + b)) with (s * a + s * b) by ring. rewrite sin_plus. field. exact Hs0.
  - assert (Hs : k = - (sqrt (- k) * sqrt (- k))) by (rewrite sqrt_sqrt; lra).
    set (s := sqrt (- k)) in *. assert (Hs0 : s <> 0) by (intros H0; rewrite H0 in Hs; lra).
    replace (s * (a + b)) with (s * a + s * b) by ring. rewrite sinh_plus. field. exact Hs0.
  - ring.
Qed.

(* the untilted, centred quadrupole body (base_rmatrix with hx = 0) is a one-parameter semigroup in the length *)
Lemma quad_body_add a b k1 E :
  rmmul (base_untilted b k1 0 E) (base_untilted a k1 0 E) = base_untilted (a + b) k1 0 E.
Proof.
  unfold base_untilted, cx, sx, cy, sy, dx, r56.
  rewrite (Cf_add (kx2 k1 0) a b), (Sf_add (kx2 k1 0) a b), (Cf_add (ky2 k1) a b), (Sf_add (ky2 k1) a b).
  unfold Rsqr. mcbv'. meq'; unfold Rdiv; ring.
Qed.

Lemma quad_body_pow a k1 E n : mpow (base_untilted a k1 0 E) n = base_untilted (INR n * a) k1 0 E.
Proof.
  induction n as [|n IH]; cbn [mpow].
  - cbn [INR]. rewrite Rmult_0_l. unfold base_untilted, cx, sx, cy, sy, dx, r56, Cf, Sf.
    destruct (Rlt_dec 0 (kx2 k1 0)), (Rlt_dec (kx2 k1 0) 0), (Rlt_dec 0 (ky2 k1)), (Rlt_dec (ky2 k1) 0);
      rewrite ?Rmult_0_r, ?cos_0, ?sin_0, ?cosh_0, ?sinh_0; unfold Rsqr, Rdiv; mcbv'; meq'; ring.
  - rewrite IH, quad_body_add. f_equal. rewrite S_INR. ring.
Qed.

(* tilt and misalignment are conjugations by mutually inverse matrices, in every branch of the code *)
Lemma rot_inv_l t : rmmul (rot (- t)) (rot t) = rI.
Proof.
  unfold rot. rewrite cos_neg, sin_neg. pose proof (sin2_cos2 t) as H. unfold Rsqr in H.
  mcbv'. meq'; try ring; ring_simplify; nra.
Qed.
Lemma rot_inv_r t : rmmul (rot t) (rot (- t)) = rI.
Proof. pose proof (rot_inv_l (- t)) as H. rewrite Ropp_involutive in H. exact H. Qed.
Lemma mis_inv_l mx my : rmmul (mis_exit mx my) (mis_entry mx my) = rI.
Proof. unfold mis_exit, mis_entry, shift. mcbv'. meq'; unfold Rdiv; ring. Qed.
Lemma mis_inv_r mx my : rmmul (mis_entry mx my) (mis_exit mx my) = rI.
Proof. unfold mis_exit, mis_entry, shift. mcbv'. meq'; unfold Rdiv; ring. Qed.

Lemma base_rmatrix_conj L k1 hx t E :
  base_rmatrix L k1 hx t E = rmmul (rot (- t)) (rmmul (base_untilted L k1 hx E) (rot t)).
Proof.
  unfold base_rmatrix. destruct (Req_EM_T t 0) as [->|]; [|reflexivity].
  rewrite Ropp_0. assert (H0 : rot 0 = rI) by (unfold rot; rewrite cos_0, sin_0, Ropp_0; reflexivity).
  rewrite H0, (mmul_I_r RRth), (mmul_I_l RRth). reflexivity.
Qed.

Lemma misaligned_conj mx my Rm :
  misaligned mx my Rm = rmmul (mis_exit mx my) (rmmul Rm (mis_entry mx my)).
Proof.
  unfold misaligned. destruct (Req_EM_T mx 0) as [->|]; [|reflexivity].
  destruct (Req_EM_T my 0) as [->|]; [|reflexivity].
  unfold mis_exit, mis_entry. rewrite Ropp_0.
  assert (H0 : shift 0 0 = rI) by reflexivity.
  rewrite H0, (mmul_I_r RRth), (mmul_I_l RRth). reflexivity.
Qed.

(** Quadrupole (cheetah tracking method), with tilt and misalignment: tracking through the n
    pieces Quadrupole(L/n, k1, misalignment, tilt) in turn is the map of the whole quadrupole *)
Theorem quad_split_track : forall L k1 mx my tilt E n, n <> O ->
  mpow (quad_map (L / INR n) k1 mx my tilt E) n = quad_map L k1 mx my tilt E.
Proof.
  intros L k1 mx my tilt E n Hn. unfold quad_map.
  rewrite !misaligned_conj, !base_rmatrix_conj.
  rewrite (mpow_conj _ _ _ n (mis_inv_l mx my) (mis_inv_r mx my)).
  rewrite (mpow_conj _ _ _ n (rot_inv_l tilt) (rot_inv_r tilt)).
  rewrite quad_body_pow. replace (INR n * (L / INR n)) with L by (field; apply not_0_INR, Hn). reflexivity.
Qed.

(* and therefore for every particle *)
Corollary quad_split_track_particle : forall L k1 mx my tilt E n v, n <> O ->
  fold_left (fun v M => rmvec M v) (repeat (quad_map (L / INR n) k1 mx my tilt E) n) v
  = rmvec (quad_map L k1 mx my tilt E) v.
Proof. intros. rewrite track_repeat, quad_split_track by assumption. reflexivity. Qed.

Corollary drift_split_track_particle : forall L E n v, n <> O ->
  fold_left (fun v M => rmvec M v) (repeat (drift_map (L / INR n) E) n) v = rmvec (drift_map L E) v.
Proof. intros. rewrite track_repeat, drift_split_track by assumption. reflexivity. Qed.

(** correctors: the pieces do NOT multiply to the whole map (each piece is a drift followed by its
    share of the kick, so the kick is distributed along the length: two pieces give an extra
    x-offset a*L/4); the property only asks for the total angle, see [corrector_split_angle]. *)
