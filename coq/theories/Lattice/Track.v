(** Structural model of cheetah/accelerator/segment.py: element trees, Segment.track
    (the `todos` grouping algorithm), transfer_map of a skippable segment, flattened,
    subcell, length.  Generic in the map monoid [M], the beam type [B], the energy type
    [E] and the leaf type [L]; nothing here is proved -- see TrackProofs.v. *)
From Coq Require Import List Bool String.
Import ListNotations.

Set Implicit Arguments.

Section Model.
Variables (M B E L Len : Type).
Variable one : M.
Variable mul : M -> M -> M.               (* matrix product *)
Variable app : M -> B -> B.               (* Element.track: apply a 7x7 map to a beam *)
Variable en : B -> E.                     (* beam.energy *)
Variable skip : L -> bool.                (* leaf.is_skippable *)
Variable tmap : L -> E -> M.              (* leaf.transfer_map(energy) *)
Variable ltrack : L -> B -> B.            (* leaf.track(beam) *)
Variable lname : L -> string.
Variable llen : L -> Len.
Variable lzero : Len.
Variable ladd : Len -> Len -> Len.

Inductive elem := Leaf (l : L) | Seg (n : string) (es : list elem).

Definition ename (e : elem) : string := match e with Leaf l => lname l | Seg n _ => n end.

(* Segment.is_skippable = all(element.is_skippable) *)
Fixpoint skippable (e : elem) : bool :=
  match e with Leaf l => skip l | Seg _ es => forallb skippable es end.

(* Segment.transfer_map: tm = eye; for element: tm = element.transfer_map(energy) @ tm *)
Fixpoint emap (e : elem) (x : E) : M :=
  match e with
  | Leaf l => tmap l x
  | Seg _ es => fold_left (fun T e' => mul (emap e' x) T) es one
  end.

Definition runmap (run : list elem) (x : E) : M :=
  fold_left (fun T e' => mul (emap e' x) T) run one.

(* tracking a temporary segment of skippable elements: Element.track with the merged map *)
Definition flush (run : list elem) (b : B) : B :=
  match run with [] => b | _ => app (runmap run (en b)) b end.

(* Segment.track *)
Fixpoint track (e : elem) (b : B) : B :=
  match e with
  | Leaf l => ltrack l b
  | Seg _ es =>
    if forallb skippable es then app (runmap es (en b)) b
    else (fix go (es : list elem) (run : list elem) (b : B) : B :=
            match es with
            | [] => flush run b
            | e' :: r => if skippable e' then go r (run ++ [e']) b
                         else go r [] (track e' (flush run b))
            end) es [] b
  end.

(* the same algorithm written in two passes, as the code does: build `todos`, then track them *)
Inductive todo := TRun (run : list elem) | TOne (e : elem).
Fixpoint group (es : list elem) (run : list elem) : list todo :=
  match es with
  | [] => match run with [] => [] | _ => [TRun run] end
  | e :: r => if skippable e then group r (run ++ [e])
              else match run with [] => TOne e :: group r [] | _ => TRun run :: TOne e :: group r [] end
  end.
Definition todo_elems (t : todo) : list elem := match t with TRun r => r | TOne e => [e] end.

(* specification side: track the elements one after another, recursively *)
Fixpoint track1 (e : elem) (b : B) : B :=
  match e with
  | Leaf l => ltrack l b
  | Seg _ es => fold_left (fun b e' => track1 e' b) es b
  end.
Definition seq (es : list elem) (b : B) : B := fold_left (fun b e' => track1 e' b) es b.

(* Segment.flattened *)
Fixpoint flat (e : elem) : list elem :=
  match e with Leaf l => [Leaf l] | Seg _ es => flat_map flat es end.
Definition flattened (e : elem) : elem :=
  match e with Leaf l => Leaf l | Seg n es => Seg n (flat_map flat es) end.

(* Segment.length = reduce(add, lengths) *)
Fixpoint elen (e : elem) : Len :=
  match e with Leaf l => llen l | Seg _ es => fold_left (fun a e' => ladd a (elen e')) es lzero end.

(* Segment.subcell(start, end): from the first `start` up to and including the first `end`
   at or after it (the loop breaks on `end` even before `start` was seen) *)
Fixpoint subcell_go (es : list elem) (start stop : string) (inside : bool) : list elem :=
  match es with
  | [] => []
  | e :: r =>
    let inside' := inside || String.eqb (ename e) start in
    let here := if inside' then [e] else [] in
    if String.eqb (ename e) stop then here else here ++ subcell_go r start stop inside'
  end.
Definition subcell (es : list elem) (start stop : string) : list elem := subcell_go es start stop false.

End Model.
