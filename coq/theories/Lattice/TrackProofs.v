(** Proofs about the structural model of Segment (Track.v). *)
From Coq Require Import List Bool String Lia.
From Cheetah Require Import Lattice.Track.
Import ListNotations.

Set Implicit Arguments.

Section Proofs.
Variables (M B E L Len : Type).
Variable one : M.
Variable mul : M -> M -> M.
Variable app : M -> B -> B.
Variable en : B -> E.
Variable skip : L -> bool.
Variable tmap : L -> E -> M.
Variable ltrack : L -> B -> B.
Variable lname : L -> string.
Variable llen : L -> Len.
Variable lzero : Len.
Variable ladd : Len -> Len -> Len.

(* the map monoid acts on beams, and a linear map keeps the reference energy *)
Hypothesis app_one : forall b, app one b = b.
Hypothesis app_mul : forall a c b, app (mul a c) b = app a (app c b).
Hypothesis en_app : forall m b, en (app m b) = en b.

Notation elem := (elem L).
Notation skippable := (skippable skip).
Notation emap := (emap one mul tmap).
Notation runmap := (runmap one mul tmap).
Notation flush := (flush one mul app en tmap).
Notation track := (track one mul app en skip tmap ltrack).
Notation track1 := (track1 ltrack).
Notation seq := (seq ltrack).
Notation group := (group skip).

Section Ind.
  Variable P : elem -> Prop.
  Hypothesis HL : forall l, P (Leaf l).
  Hypothesis HS : forall n es, Forall P es -> P (Seg n es).
  Fixpoint elem_ind' (e : elem) : P e :=
    match e with
    | Leaf l => HL l
    | Seg n es => HS n ((fix go (es : list elem) : Forall P es :=
                 match es with [] => Forall_nil _ | e :: r => Forall_cons _ (elem_ind' e) (go r) end) es)
    end.
End Ind.

(** the leaf contract: a skippable leaf's [track] is the application of its own
    [transfer_map] evaluated at the incoming beam's energy *)
Definition leaf_contract := forall l b, skip l = true -> ltrack l b = app (tmap l (en b)) b.
Hypothesis contract : leaf_contract.

Lemma fold_mul_app : forall (run : list elem) T x b,
  app (fold_left (fun T e' => mul (emap e' x) T) run T) b =
  fold_left (fun b e' => app (emap e' x) b) run (app T b).
Proof.
  induction run as [|e r IH]; intros T x b; cbn [fold_left]; [reflexivity|].
  rewrite IH, app_mul. reflexivity.
Qed.

Lemma skippable_track1 : forall e, skippable e = true ->
  forall b, track1 e b = app (emap e (en b)) b.
Proof.
  induction e as [l|n es IH] using elem_ind'; intros Hs b; cbn in *.
  - apply contract, Hs.
  - rewrite fold_mul_app, app_one.
    revert b. induction es as [|e r IHr]; intros b; cbn; [reflexivity|].
    cbn in Hs. apply andb_prop in Hs as [He Hr].
    inversion IH as [|? ? IHe IHr']; subst.
    rewrite (IHe He b).
    rewrite (IHr IHr' Hr).
    rewrite en_app. reflexivity.
Qed.

Lemma en_track1_skip : forall e, skippable e = true -> forall b, en (track1 e b) = en b.
Proof. intros e He b. rewrite skippable_track1 by exact He. apply en_app. Qed.

Lemma seq_skippable : forall run, forallb skippable run = true ->
  forall b, app (runmap run (en b)) b = seq run b.
Proof.
  intros run Hs b. unfold Track.runmap, Track.seq. rewrite fold_mul_app, app_one.
  revert b. induction run as [|e r IH]; intros b; cbn; [reflexivity|].
  cbn in Hs. apply andb_prop in Hs as [He Hr].
  rewrite (skippable_track1 e He b). rewrite <- IH by assumption. rewrite en_app. reflexivity.
Qed.

Lemma flush_seq : forall run b, forallb skippable run = true -> flush run b = seq run b.
Proof.
  intros run b Hs. destruct run as [|e0 r0]; [reflexivity|].
  unfold Track.flush. apply seq_skippable, Hs.
Qed.

(** C01, main theorem: Segment.track equals tracking the elements one after another *)
Theorem track_eq_fold : forall e b, track e b = track1 e b.
Proof.
  induction e as [l|n es IH] using elem_ind'; intros b; [reflexivity|].
  cbn [Track.track Track.track1].
  destruct (forallb skippable es) eqn:Hall.
  - apply seq_skippable, Hall.
  - clear Hall.
    enough (G : forall es run b, Forall (fun e => forall b, track e b = track1 e b) es ->
               forallb skippable run = true ->
       (fix go (es : list elem) (run : list elem) (b : B) : B :=
            match es with
            | [] => flush run b
            | e' :: r => if skippable e' then go r (run ++ [e']) b
                         else go r [] (track e' (flush run b))
            end) es run b = fold_left (fun b e' => track1 e' b) (run ++ es) b).
    { apply (G es [] b IH eq_refl). }
    clear IH b es. intros es. induction es as [|e r IHr]; intros run b HF Hrun.
    + rewrite app_nil_r. apply flush_seq, Hrun.
    + inversion HF as [|? ? He HFr]; subst.
      destruct (skippable e) eqn:Hse.
      * rewrite IHr; [| exact HFr | rewrite forallb_app, Hrun; cbn; rewrite Hse; reflexivity].
        rewrite <- app_assoc. reflexivity.
      * rewrite IHr by (exact HFr || reflexivity). cbn [List.app fold_left].
        rewrite He. rewrite fold_left_app. cbn [fold_left]. f_equal. f_equal.
        apply flush_seq, Hrun.
Qed.

(** the two-pass form of the algorithm: todos are maximal runs of skippable elements,
    interleaved with the non-skippable ones, and concatenate back to the element list *)
Definition todo_track (b : B) (t : todo L) : B :=
  match t with TRun run => flush run b | TOne e => track e b end.

Lemma group_concat : forall es run, List.concat (map (@todo_elems L) (group es run)) = run ++ es.
Proof.
  induction es as [|e r IH]; intros run; cbn.
  - destruct run; cbn; rewrite ?app_nil_r; reflexivity.
  - destruct (skippable e).
    + rewrite IH, <- app_assoc. reflexivity.
    + destruct run as [|e0 r0]; cbn; rewrite IH; cbn; [reflexivity|].
      reflexivity.
Qed.

Definition track_go :=
  (fix go (es : list elem) (run : list elem) (b : B) : B :=
            match es with
            | [] => flush run b
            | e' :: r => if skippable e' then go r (run ++ [e']) b
                         else go r [] (track e' (flush run b))
            end).

Lemma track_go_group : forall es run b,
  track_go es run b = fold_left todo_track (group es run) b.
Proof.
  induction es as [|e r IH]; intros run b; cbn [Track.group track_go].
  - destruct run; reflexivity.
  - destruct (skippable e) eqn:Hs.
    + apply IH.
    + destruct run as [|e0 r0]; cbn [fold_left todo_track]; rewrite IH; reflexivity.
Qed.

Lemma track_group : forall n es b, forallb skippable es = false ->
  track (Seg n es) b = fold_left todo_track (group es []) b.
Proof.
  intros n es b Hns. cbn [Track.track]. rewrite Hns. apply track_go_group.
Qed.

(* runs produced by [group] are skippable and non-empty; singles are non-skippable;
   two runs are never adjacent (maximality) *)
Fixpoint todos_ok (ts : list (todo L)) (prev_run : bool) : bool :=
  match ts with
  | [] => true
  | TRun run :: r => negb prev_run && negb (match run with [] => true | _ => false end)
                     && forallb skippable run && todos_ok r true
  | TOne e :: r => negb (skippable e) && todos_ok r false
  end.
Lemma group_ok : forall es run, forallb skippable run = true ->
  todos_ok (group es run) false = true.
Proof.
  induction es as [|e r IH]; intros run Hrun; cbn.
  - destruct run as [|e0 r0]; cbn; [reflexivity|]. cbn in Hrun. rewrite Hrun. reflexivity.
  - destruct (skippable e) eqn:Hs.
    + apply IH. rewrite forallb_app, Hrun. cbn. rewrite Hs. reflexivity.
    + destruct run as [|e0 r0]; cbn; rewrite Hs; cbn.
      * apply IH. reflexivity.
      * cbn in Hrun. rewrite Hrun. cbn. apply IH. reflexivity.
Qed.

(** grouping independence *)
Lemma seq_app : forall es1 es2 b, seq (es1 ++ es2) b = seq es2 (seq es1 b).
Proof. intros. unfold Track.seq. apply fold_left_app. Qed.

Lemma seq_flat : forall e b, seq (flat e) b = track1 e b.
Proof.
  induction e as [l|n es IH] using elem_ind'; intros b; [reflexivity|].
  cbn [flat Track.track1]. revert b. induction es as [|e r IHr]; intros b; [reflexivity|].
  inversion IH as [|? ? He Hr]; subst. cbn [flat_map fold_left].
  rewrite seq_app, He. apply IHr, Hr.
Qed.

Theorem track_flattened : forall e b, track (flattened e) b = track e b.
Proof.
  intros e b. rewrite !track_eq_fold. destruct e as [l|n es]; [reflexivity|].
  change (seq (flat_map (@flat L) es) b = track1 (Seg n es) b).
  rewrite <- seq_flat. reflexivity.
Qed.

(* nesting consecutive elements into a sub-segment does not change the result *)
Theorem track_nest : forall n m es1 es2 es3 b,
  track (Seg n (es1 ++ Seg m es2 :: es3)) b = track (Seg n (es1 ++ es2 ++ es3)) b.
Proof.
  intros. rewrite !track_eq_fold. cbn [Track.track1].
  rewrite !fold_left_app. cbn [fold_left Track.track1]. reflexivity.
Qed.

(* cutting into consecutive sub-cells and tracking them in turn *)
Theorem track_cut : forall n n1 n2 es1 es2 b,
  track (Seg n (es1 ++ es2)) b = track (Seg n2 es2) (track (Seg n1 es1) b).
Proof.
  intros. rewrite !track_eq_fold. cbn [Track.track1]. apply fold_left_app.
Qed.

(** lengths: Segment.length is the sum of the element lengths, also after flattening *)
Hypothesis ladd_0_l : forall x, ladd lzero x = x.
Hypothesis ladd_0_r : forall x, ladd x lzero = x.
Hypothesis ladd_assoc : forall x y z, ladd (ladd x y) z = ladd x (ladd y z).
Notation elen := (elen llen lzero ladd).
Definition sumlen (es : list elem) := fold_left (fun a e' => ladd a (elen e')) es lzero.

Lemma fold_ladd_shift : forall (es : list elem) a,
  fold_left (fun a e' => ladd a (elen e')) es a = ladd a (sumlen es).
Proof.
  unfold sumlen. induction es as [|e r IH]; intros a; cbn [fold_left].
  - symmetry. apply ladd_0_r.
  - rewrite IH. rewrite (IH (ladd lzero (elen e))). rewrite ladd_0_l, ladd_assoc. reflexivity.
Qed.

Lemma sumlen_app : forall es1 es2, sumlen (es1 ++ es2) = ladd (sumlen es1) (sumlen es2).
Proof. intros. unfold sumlen at 1. rewrite fold_left_app. apply fold_ladd_shift. Qed.

Lemma elen_seg : forall n es, elen (Seg n es) = sumlen es.
Proof. reflexivity. Qed.

Lemma sumlen_flat : forall e, sumlen (flat e) = elen e.
Proof.
  induction e as [l|n es IH] using elem_ind'.
  - unfold sumlen. cbn. apply ladd_0_l.
  - rewrite elen_seg. cbn [flat]. induction es as [|e r IHr]; [reflexivity|].
    inversion IH as [|? ? He Hr]; subst. cbn [flat_map].
    rewrite sumlen_app, He, (IHr Hr).
    change (e :: r) with ([e] ++ r). rewrite sumlen_app. f_equal.
    unfold sumlen. cbn. symmetry. apply ladd_0_l.
Qed.

Theorem length_flattened : forall e, elen (flattened e) = elen e.
Proof.
  destruct e as [l|n es]; [reflexivity|].
  change (sumlen (flat (Seg n es)) = elen (Seg n es)). apply sumlen_flat.
Qed.

Theorem length_cut : forall n n1 n2 es1 es2,
  elen (Seg n (es1 ++ es2)) = ladd (elen (Seg n1 es1)) (elen (Seg n2 es2)).
Proof. intros. rewrite !elen_seg. apply sumlen_app. Qed.

(** subcell: for a start name occurring before the (first) stop name, the sub-cell is the
    contiguous slice from the first [start] to the first [stop] after it *)
Notation ename := (ename lname).
Lemma subcell_inside : forall es start stop pre x post,
  es = pre ++ x :: post -> ename x = stop ->
  (forall e, In e pre -> ename e <> stop) ->
  subcell_go lname es start stop true = pre ++ [x].
Proof.
  intros es start stop pre. revert es. induction pre as [|p pre IH]; intros es x post -> Hx Hpre; cbn.
  - rewrite Hx, String.eqb_refl. reflexivity.
  - destruct (String.eqb_spec (ename p) stop) as [Heq|Hne]; [exfalso; apply (Hpre p); [now left|exact Heq]|].
    f_equal. apply (IH _ x post eq_refl Hx). intros e He. apply Hpre. now right.
Qed.

Theorem subcell_slice : forall start stop pre s mid x post,
  ename s = start -> ename x = stop ->
  (forall e, In e pre -> ename e <> start /\ ename e <> stop) ->
  (forall e, In e (s :: mid) -> ename e <> stop) ->
  subcell lname (pre ++ s :: mid ++ x :: post) start stop = s :: mid ++ [x].
Proof.
  intros start stop pre s mid x post Hs Hx Hpre Hmid. unfold subcell.
  induction pre as [|p pre IH]; cbn [List.app subcell_go].
  - rewrite Hs, String.eqb_refl. cbn [orb].
    destruct (String.eqb_spec start stop) as [Heq|Hne].
    + exfalso. apply (Hmid s); [now left|congruence].
    + cbn [List.app]. f_equal.
      apply (@subcell_inside _ start stop mid x post eq_refl Hx).
      intros e He. apply Hmid. now right.
  - destruct (Hpre p (or_introl eq_refl)) as [H1 H2].
    destruct (String.eqb_spec (ename p) start) as [|_]; [contradiction|].
    destruct (String.eqb_spec (ename p) stop) as [|_]; [contradiction|].
    cbn [orb List.app]. apply IH. intros e He. apply Hpre. now right.
Qed.

End Proofs.
