(** Case checkers evaluated by the correspondence runs (vm_compute). *)
From Coq Require Import List Bool String ZArith.
From Cheetah Require Import Base.Mat Lattice.Track Lattice.ZInst.
Import ListNotations.
Open Scope Z_scope.

Fixpoint has_empty_seg (e : zelem) : bool :=
  match e with Leaf _ => false | Seg _ es => match es with [] => true | _ => existsb has_empty_seg es end end.

Record c01case := mkc01 {
  c_tree : zelem; c_in : zbeam;
  c_out : zbeam;                       (* Segment.track *)
  c_flat_out : zbeam;                  (* Segment.flattened().track *)
  c_len : option Z;                    (* Segment.length (None: raised) *)
  c_skip : bool;                       (* Segment.is_skippable *)
  c_flat_names : list string;          (* names of flattened().elements *)
  c_sub : option (string * string * list string * zbeam)   (* subcell(start, stop): names, track *)
}.

Definition children (e : zelem) : list zelem := match e with Leaf _ => [] | Seg _ es => es end.

Definition c01_check (c : c01case) : bool :=
  let t := c_tree c in
  zbeam_eqb (ztrack t (c_in c)) (c_out c)
  && zbeam_eqb (ztrack (zflattened t) (c_in c)) (c_flat_out c)
  && (match c_len c with
      | Some l => negb (has_empty_seg t) && (zelen t =? l)
      | None => has_empty_seg t end)
  && Bool.eqb (zskippable t) (c_skip c)
  && list_eqb String.eqb (map zename (children (zflattened t))) (c_flat_names c)
  && (match c_sub c with
      | None => true
      | Some (a, b, names, out) =>
        let sub := zsubcell (children t) a b in
        list_eqb String.eqb (map zename sub) names && zbeam_eqb (ztrack (Seg "sub" sub) (c_in c)) out
      end).

(* Variant for the tree after the repair of finding F28 (Segment.length of an empty segment is 0 instead of raising):
   the length is always defined and equals the model's sum (empty sum = 0). *)
Definition c01_check_len_total (c : c01case) : bool :=
  let t := c_tree c in
  zbeam_eqb (ztrack t (c_in c)) (c_out c)
  && zbeam_eqb (ztrack (zflattened t) (c_in c)) (c_flat_out c)
  && (match c_len c with Some l => zelen t =? l | None => false end)
  && Bool.eqb (zskippable t) (c_skip c)
  && list_eqb String.eqb (map zename (children (zflattened t))) (c_flat_names c)
  && (match c_sub c with
      | None => true
      | Some (a, b, names, out) =>
        let sub := zsubcell (children t) a b in
        list_eqb String.eqb (map zename sub) names && zbeam_eqb (ztrack (Seg "sub" sub) (c_in c)) out
      end).
