(** Executable integer instance of the structural model.  It is what the correspondence
    check evaluates (vm_compute) against the real Segment code driven with integer-valued
    float64 tensors, and it shows the hypotheses of TrackProofs are satisfiable. *)
From Coq Require Import List Bool String ZArith Lia.
From Cheetah Require Import Base.Mat Lattice.Track.
Import ListNotations.
Open Scope Z_scope.

Notation zmmul := (@mmul Z Z.add Z.mul).
Notation zmvec := (@mvec Z Z.add Z.mul).
Notation zcong := (@cong Z Z.add Z.mul).
Notation zmadd := (@madd Z Z.add).
Notation zmscale := (@mscale Z Z.mul).
Definition zI : M7 Z := @I7 Z 0 1.
Definition zZ : M7 Z := @Z7 Z 0.

(* sparse description of a 7x7 integer matrix: base + sum of v at (i,j) *)
Definition v7set {A} (v : V7 A) (i : nat) (x : A) : V7 A :=
  match i with
  | 0%nat => mk7 x (c1 v) (c2 v) (c3 v) (c4 v) (c5 v) (c6 v)
  | 1%nat => mk7 (c0 v) x (c2 v) (c3 v) (c4 v) (c5 v) (c6 v)
  | 2%nat => mk7 (c0 v) (c1 v) x (c3 v) (c4 v) (c5 v) (c6 v)
  | 3%nat => mk7 (c0 v) (c1 v) (c2 v) x (c4 v) (c5 v) (c6 v)
  | 4%nat => mk7 (c0 v) (c1 v) (c2 v) (c3 v) x (c5 v) (c6 v)
  | 5%nat => mk7 (c0 v) (c1 v) (c2 v) (c3 v) (c4 v) x (c6 v)
  | _ => mk7 (c0 v) (c1 v) (c2 v) (c3 v) (c4 v) (c5 v) x
  end.
Definition m7set {A} (m : M7 A) (i j : nat) (x : A) : M7 A := v7set m i (v7set (v7nth m i) j x).
Definition sp (base : M7 Z) (l : list (nat * nat * Z)) : M7 Z :=
  fold_left (fun m '(i, j, v) => m7set m i j (m7nth m i j + v)) l base.

(** beams *)
Inductive zbeam :=
| Parts (ps : list (V7 Z)) (E : Z) (q s : list Z)     (* ParticleBeam: particles, energy, charges, survival *)
| Param (mu : V7 Z) (cov : M7 Z) (E : Z) (Q : Z).     (* ParameterBeam: mu, cov, energy, total charge *)

Definition zen (b : zbeam) : Z := match b with Parts _ E _ _ => E | Param _ _ E _ => E end.
(* Element.track: particles @ tm^T  /  (tm mu, tm cov tm^T); energy, charges, survival carried over *)
Definition zapp (m : M7 Z) (b : zbeam) : zbeam :=
  match b with
  | Parts ps E q s => Parts (map (zmvec m) ps) E q s
  | Param mu cov E Q => Param (zmvec m mu) (zcong m cov) E Q
  end.

(** leaves *)
Inductive zkind :=
| KMap (a0 a1 : M7 Z)      (* harness test element, skippable: transfer_map(E) = a0 + E*a1 *)
| KCtm (a0 : M7 Z)         (* cheetah.CustomTransferMap with an integer matrix *)
| KMarker                  (* cheetah.Marker *)
| KNon (dE k thr : Z).     (* harness test element, not skippable, non-linear, changes energy and survival *)
Record zleaf := mkleaf { zname : string; zlen : Z; zkind_of : zkind; zhas_active : bool; zactive : bool }.

Definition zskip (l : zleaf) : bool := match zkind_of l with KNon _ _ _ => false | _ => true end.
Definition ztmap (l : zleaf) (E : Z) : M7 Z :=
  match zkind_of l with
  | KMap a0 a1 => zmadd a0 (zmscale E a1)
  | KCtm a0 => a0
  | KMarker => zI
  | KNon _ _ _ => zI   (* never used: not skippable *)
  end.
Definition non_part (dE k : Z) (p : V7 Z) : V7 Z :=
  mk7 (c0 p + k * c1 p * c1 p) (c1 p) (c2 p) (c3 p) (c4 p + dE) (c5 p) (c6 p).
Definition zltrack (l : zleaf) (b : zbeam) : zbeam :=
  match zkind_of l with
  | KMap _ _ | KCtm _ => zapp (ztmap l (zen b)) b
  | KMarker => b
  | KNon dE k thr =>
    match b with
    | Parts ps E q s =>
      let ps' := map (non_part dE k) ps in
      Parts ps' (E + dE) q (map (fun '(p, si) => if c0 p <? thr then si else 0) (combine ps' s))
    | Param mu cov E Q => Param (non_part dE k mu) cov (E + dE) Q
    end
  end.

Notation zelem := (elem zleaf).
Definition ztrack := track zI zmmul zapp zen zskip ztmap zltrack.
Definition ztrack1 := track1 zltrack.
Definition zskippable := skippable zskip.
Definition zemap := emap zI zmmul ztmap.
Definition zelen := elen zlen 0 Z.add.
Definition zflattened : zelem -> zelem := @flattened zleaf.
Definition zsubcell := subcell zname.
Definition zename := ename zname.

(** decidable equality of beams, for comparing with observed outputs *)
Definition v7eqb (u v : V7 Z) : bool := forallb (fun '(a, b) => a =? b) (combine (v7list u) (v7list v)).
Definition m7eqb (a b : M7 Z) : bool := forallb (fun '(u, v) => v7eqb u v) (combine (v7list a) (v7list b)).
Fixpoint list_eqb {A} (eqb : A -> A -> bool) (l1 l2 : list A) : bool :=
  match l1, l2 with
  | [], [] => true
  | a :: r1, b :: r2 => eqb a b && list_eqb eqb r1 r2
  | _, _ => false
  end.
Definition zbeam_eqb (a b : zbeam) : bool :=
  match a, b with
  | Parts p1 E1 q1 s1, Parts p2 E2 q2 s2 =>
    list_eqb v7eqb p1 p2 && (E1 =? E2) && list_eqb Z.eqb q1 q2 && list_eqb Z.eqb s1 s2
  | Param m1 c1 E1 Q1, Param m2 c2 E2 Q2 => v7eqb m1 m2 && m7eqb c1 c2 && (E1 =? E2) && (Q1 =? Q2)
  | _, _ => false
  end.
