(** Integer instance of the lattice-transformation models (Merge.v, Filter.v), the case
    checkers the C08 correspondence evaluates with vm_compute, the proofs that the instance
    meets the hypotheses of MergeProofs/FilterProofs, and the witnesses showing that the
    hypotheses of the zero-length / as-drifts theorems are false for classes without
    `is_active` (findings F9, F10). *)
From Coq Require Import List Bool String ZArith Lia.
From Cheetah Require Import Base.Mat Lattice.Track Lattice.TrackProofs Lattice.ZInst Lattice.ZProofs
  Lattice.Merge Lattice.MergeProofs Lattice.Filter Lattice.FilterProofs.
Import ListNotations.
Open Scope Z_scope.

(** ---------- instance *)
Definition zmkctm (m : M7 Z) (len : Z) (nm : string) : zleaf := mkleaf nm len (KCtm m) false false.
(* integer stand-in for Drift(length, name): the transverse part of the drift matrix.  (The real
   Drift's R56 is not an integer; the as-drifts correspondence compares structure only.)
   Drift has no `is_active` attribute. *)
Definition zmkdrift (len : Z) (nm : string) : zleaf :=
  mkleaf nm len (KMap (sp zI [(0%nat, 1%nat, len); (2%nat, 3%nat, len)]) zZ) false false.
Definition zmarker (l : zleaf) : bool := match zkind_of l with KMarker => true | _ => false end.
Definition zanypos (x : Z) : bool := 0 <? x.
Definition zallzero (x : Z) : bool := x =? 0.

Definition zmerged := merged zI zmmul zapp zen zskip ztmap zltrack zname zlen 0 Z.add zmkctm.
Definition zmerged_blocks := merged_blocks zI zmmul zapp zen zskip ztmap zltrack zname zlen 0 Z.add zmkctm.
Definition ztransfer_maps_merged := transfer_maps_merged zI zmmul zapp zen zskip ztmap zltrack zname zlen 0 Z.add zmkctm.
Definition zmarkers_removed := markers_removed zname zmarker.
Definition zzero_removed := zero_length_removed zname zlen 0 Z.add zhas_active zactive zanypos.
Definition zas_drifts := as_drifts zname zlen 0 Z.add zhas_active zactive zallzero zmkdrift.
Definition zkeep_zero := keep_zero zname zlen 0 Z.add zhas_active zactive zanypos.
Definition zkeep_as_is := keep_as_is zname zlen 0 Z.add zhas_active zactive zallzero.

(** ---------- decidable equality of element trees *)
Definition zkind_eqb (a b : zkind) : bool :=
  match a, b with
  | KMap a0 a1, KMap b0 b1 => m7eqb a0 b0 && m7eqb a1 b1
  | KCtm a0, KCtm b0 => m7eqb a0 b0
  | KMarker, KMarker => true
  | KNon a1 a2 a3, KNon b1 b2 b3 => (a1 =? b1) && (a2 =? b2) && (a3 =? b3)
  | _, _ => false
  end.
Definition zleaf_eqb (a b : zleaf) : bool :=
  String.eqb (zname a) (zname b) && (zlen a =? zlen b) && zkind_eqb (zkind_of a) (zkind_of b)
  && Bool.eqb (zhas_active a) (zhas_active b) && Bool.eqb (zactive a) (zactive b).
Fixpoint zelem_eqb (a b : zelem) : bool :=
  match a, b with
  | Leaf l1, Leaf l2 => zleaf_eqb l1 l2
  | Seg n1 es1, Seg n2 es2 =>
    String.eqb n1 n2 &&
    (fix go (l1 l2 : list zelem) : bool :=
       match l1, l2 with
       | [], [] => true
       | x :: r1, y :: r2 => zelem_eqb x y && go r1 r2
       | _, _ => false
       end) es1 es2
  | _, _ => false
  end.

(** ---------- case checker *)
Fixpoint has_empty_seg (e : zelem) : bool :=
  match e with Leaf _ => false | Seg _ es => match es with [] => true | _ => existsb has_empty_seg es end end.
Definition children (e : zelem) : list zelem := match e with Leaf _ => [] | Seg _ es => es end.

(* what the harness saw at one position of the resulting segment's element list *)
Inductive odesc :=
| OKept (i : nat)                                             (* the identical object self.elements[i] *)
| ONew (tag name : string) (len : Z) (mat : option (M7 Z)).  (* a new CustomTransferMap ("ctm", matrix) / Drift ("drift") *)

Local Open Scope string_scope.
Definition match_desc (es : list zelem) (e : zelem) (d : odesc) : bool :=
  match d with
  | OKept i => match nth_error es i with Some e0 => zelem_eqb e0 e | None => false end
  | ONew tag nm len mat =>
    match e with
    | Leaf l =>
      if String.eqb tag "ctm" then
        match mat with Some m => zleaf_eqb l (zmkctm m len nm) | None => false end
      else if String.eqb tag "drift" then
        match mat with None => zleaf_eqb l (zmkdrift len nm) | Some _ => false end
      else false
    | Seg _ _ => false
    end
  end.
Fixpoint match_descs (es : list zelem) (out : list zelem) (ds : list odesc) : bool :=
  match out, ds with
  | [], [] => true
  | e :: r, d :: rd => match_desc es e d && match_descs es r rd
  | _, _ => false
  end.
Local Close Scope string_scope.

Definition len_matches (e : zelem) (l : option Z) : bool :=
  match l with Some x => negb (has_empty_seg e) && (zelen e =? x) | None => has_empty_seg e end.

(* from_merging_elements raises TypeError (sum of lengths) iff a merged run contains an element
   whose length is undefined, i.e. an empty (sub-)segment *)
Definition merged_raises (ex : list string) (es : list zelem) (b : zbeam) : bool :=
  existsb (fun k => match k with Kept _ => false | Merged _ src _ => existsb has_empty_seg src end)
          (zmerged_blocks ex es [] b).
(* the two filters evaluate element.length of every top-level element *)
Definition filter_raises (es : list zelem) : bool := existsb has_empty_seg es.

Record c08case := mkc08 {
  k_tree : zelem; k_in : zbeam; k_ex : list string;
  (* transfer_maps_merged(beam, ex): elements, merged.track(beam), merged.length; None: raised TypeError *)
  k_merged : option (list odesc * zbeam * option Z);
  (* without_inactive_markers(ex): elements, .track(beam), .length *)
  k_markers : list odesc * zbeam * option Z;
  (* without_inactive_zero_length_elements(ex): elements, .track(beam), .length *)
  k_zero : option (list odesc * zbeam * option Z);
  (* inactive_elements_as_drifts(ex): elements, .length *)
  k_drifts : option (list odesc * option Z)
}.

Definition c08_check (c : c08case) : bool :=
  let t := k_tree c in let es := children t in let b := k_in c in let ex := k_ex c in
  (match k_merged c with
   | None => merged_raises ex es b
   | Some (ds, out, len) =>
     let m := ztransfer_maps_merged t b ex in
     negb (merged_raises ex es b) && match_descs es (children m) ds
     && zbeam_eqb (ztrack m b) out && len_matches m len
   end)
  && (let '(ds, out, len) := k_markers c in
      let m := Seg (zename t) (zmarkers_removed ex es) in
      match_descs es (children m) ds && zbeam_eqb (ztrack m b) out && len_matches m len)
  && (match k_zero c with
      | None => filter_raises es
      | Some (ds, out, len) =>
        let m := Seg (zename t) (zzero_removed ex es) in
        negb (filter_raises es) && match_descs es (children m) ds && zbeam_eqb (ztrack m b) out && len_matches m len
      end)
  && (match k_drifts c with
      | None => filter_raises es
      | Some (ds, len) =>
        let m := Seg (zename t) (zas_drifts ex es) in
        negb (filter_raises es) && match_descs es (children m) ds && len_matches m len
      end).

(* The same checker for the code AFTER the repair of finding F28 (Segment.length =
   reduce(torch.add, lengths, torch.tensor(0.0)): the empty sum is 0).  Lengths are total --
   of an empty segment, of a segment holding an empty sub-segment, of the empty result of a
   filter that removed every element -- so nothing raises any more: every transformation must
   have returned, and every observed length must be the model's sum.  [c08_check] above stays
   the model of the code before the repair; the harness selects the variant by the status of
   F28 in known_findings.json. *)
Definition len_matches_total (e : zelem) (l : option Z) : bool :=
  match l with Some x => zelen e =? x | None => false end.

Definition c08_check_len_total (c : c08case) : bool :=
  let t := k_tree c in let es := children t in let b := k_in c in let ex := k_ex c in
  (match k_merged c with
   | None => false
   | Some (ds, out, len) =>
     let m := ztransfer_maps_merged t b ex in
     match_descs es (children m) ds && zbeam_eqb (ztrack m b) out && len_matches_total m len
   end)
  && (let '(ds, out, len) := k_markers c in
      let m := Seg (zename t) (zmarkers_removed ex es) in
      match_descs es (children m) ds && zbeam_eqb (ztrack m b) out && len_matches_total m len)
  && (match k_zero c with
      | None => false
      | Some (ds, out, len) =>
        let m := Seg (zename t) (zzero_removed ex es) in
        match_descs es (children m) ds && zbeam_eqb (ztrack m b) out && len_matches_total m len
      end)
  && (match k_drifts c with
      | None => false
      | Some (ds, len) =>
        let m := Seg (zename t) (zas_drifts ex es) in
        match_descs es (children m) ds && len_matches_total m len
      end).

(* class table check: observed (class name, hasattr(probe, "is_active")) pairs against Filter.class_has_is_active *)
Definition class_table_check (obs : list (string * bool)) : bool :=
  forallb (fun p => match find (fun q => String.eqb (fst q) (fst p)) class_has_is_active with
                    | Some q => Bool.eqb (snd q) (snd p) | None => false end) obs
  && forallb (fun q => existsb (fun p => String.eqb (fst q) (fst p)) obs) class_has_is_active.

(** ---------- the instance meets the hypotheses *)
Lemma zctm_skip : forall m len nm, zskip (zmkctm m len nm) = true.
Proof. reflexivity. Qed.
Lemma zctm_map : forall m len nm x, ztmap (zmkctm m len nm) x = m.
Proof. reflexivity. Qed.
Lemma zmarker_id : forall l b, zmarker l = true -> zltrack l b = b.
Proof. intros l b H. unfold zmarker, zltrack in *. destruct (zkind_of l); try discriminate. reflexivity. Qed.

Theorem zmerged_track : forall n ex es b, ztrack (Seg n (zmerged ex es [] b)) b = ztrack (Seg n es) b.
Proof.
  intros. apply (@merged_track _ _ _ _ _ zI zmmul zapp zen zskip ztmap zltrack zname zlen 0 Z.add zmkctm);
    first [exact zapp_one | exact zapp_mul | exact zen_app | exact zcontract | exact zctm_skip | exact zctm_map].
Qed.

Theorem zmerged_length : forall n ex es b, zelen (Seg n (zmerged ex es [] b)) = zelen (Seg n es).
Proof.
  intros. apply (@merged_length _ _ _ _ _ zI zmmul zapp zen zskip ztmap zltrack zname zlen 0 Z.add zmkctm);
    first [reflexivity | intros; lia].
Qed.

Theorem zmarkers_removed_track : forall n ex es b,
  ztrack (Seg n (zmarkers_removed ex es)) b = ztrack (Seg n es) b.
Proof.
  intros. apply (@markers_removed_track _ _ _ _ zI zmmul zapp zen zskip ztmap zltrack zname zmarker);
    first [exact zapp_one | exact zapp_mul | exact zen_app | exact zcontract | exact zmarker_id].
Qed.

(** ---------- F9: without_inactive_zero_length_elements.  The hypothesis of
    [zero_length_removed_track] ("whatever is removed tracks as the identity") is false as
    soon as the lattice holds a zero-length element of a class without `is_active` that does
    something: the class table says SpaceChargeKick, CustomTransferMap and (nested) Segment
    have none. *)
Local Open Scope string_scope.
Definition sck_like : zleaf :=            (* SpaceChargeKick: length 0, non-linear kick, no is_active *)
  mkleaf "sc" 0 (KNon 0 1 1000) (has_is_active "SpaceChargeKick") false.
Definition ctm0_like : zleaf :=           (* zero-length CustomTransferMap (a thin kick) *)
  mkleaf "kick" 0 (KCtm (sp zI [(1%nat, 6%nat, 1)])) (has_is_active "CustomTransferMap") false.
Definition aperture_like : zleaf :=       (* an *active* aperture: x >= 2 is lost *)
  mkleaf "ap" 0 (KNon 0 0 2) (has_is_active "Aperture") true.
Definition probe_beam : zbeam := Parts [mk7 1 2 0 0 0 0 1; mk7 3 1 0 0 0 0 1] 5 [1; 1] [1; 1].

Lemma removable_contract_refuted :
  ~ (forall e, zkeep_zero [] e = false -> forall b, ztrack1 e b = b).
Proof. intros H. specialize (H (Leaf sck_like) eq_refl probe_beam). vm_compute in H. discriminate. Qed.

Lemma zero_length_removed_refuted :
  (* SpaceChargeKick-like, zero-length CustomTransferMap, zero-length nested Segment holding an active aperture *)
  Forall (fun e => zzero_removed [] [e] = [] /\
                   ztrack (Seg "s" (zzero_removed [] [e])) probe_beam <> ztrack (Seg "s" [e]) probe_beam)
         [Leaf sck_like; Leaf ctm0_like; Seg "sub" [Leaf aperture_like]].
Proof. repeat constructor; vm_compute; discriminate. Qed.

(** ---------- F10: inactive_elements_as_drifts.  The hypothesis of [as_drifts_track]
    ("whatever is replaced tracks like a Drift of its length") is false for classes without
    `is_active`: a CustomTransferMap or a nested Segment of positive length is replaced by a
    Drift whatever it does. *)
Definition ctm_like : zleaf :=            (* CustomTransferMap of length 1 with a focusing term *)
  mkleaf "m" 1 (KCtm (sp zI [(0%nat, 1%nat, 1); (1%nat, 0%nat, -1)])) (has_is_active "CustomTransferMap") false.
Definition quad_like : zleaf :=           (* an *active* quadrupole-like element of length 1 *)
  mkleaf "q" 1 (KMap (sp zI [(0%nat, 1%nat, 1); (1%nat, 0%nat, -1); (2%nat, 3%nat, 1)]) zZ) (has_is_active "Quadrupole") true.

Lemma replaceable_contract_refuted :
  ~ (forall e, zkeep_as_is [] e = false -> forall b, ztrack1 e b = zltrack (zmkdrift (zelen e) (zename e)) b).
Proof. intros H. specialize (H (Leaf ctm_like) eq_refl probe_beam). vm_compute in H. discriminate. Qed.

Lemma as_drifts_refuted :
  Forall (fun e => zas_drifts [] [e] = [Leaf (zmkdrift 1 (zename e))] /\
                   ztrack (Seg "s" (zas_drifts [] [e])) probe_beam <> ztrack (Seg "s" [e]) probe_beam)
         [Leaf ctm_like; Seg "sub" [Leaf quad_like]].
Proof. repeat constructor; vm_compute; discriminate. Qed.

(* whereas the active quadrupole-like element itself, at top level, is kept *)
Lemma as_drifts_keeps_active : zas_drifts [] [Leaf quad_like] = [Leaf quad_like].
Proof. reflexivity. Qed.

(** ---------- F28: Segment.length of an empty segment, before and after the repair.

    Before: `reduce(torch.add, [element.length for element in self.elements])` raises TypeError for
    an empty element list, hence also for every segment that holds an empty sub-segment.  After:
    `reduce(torch.add, lengths, torch.tensor(0.0))`.  [elen_pinned] / [elen_fixed] transcribe the two
    (None = raised); [Track.elen], used by all length theorems, is the total sum.  Generic in the
    leaf and length types; the Z instances are what [c08_check] / [c08_check_len_total] compare with. *)
Local Close Scope string_scope.
Section Length.
Variables (L Len : Type) (llen : L -> Len) (lzero : Len) (ladd : Len -> Len -> Len).
Notation elem := (elem L).
Notation elen := (elen llen lzero ladd).

(* torch.add of two lengths, either of which may have raised *)
Definition oadd (a b : option Len) : option Len :=
  match a, b with Some x, Some y => Some (ladd x y) | _, _ => None end.

(* the code before the repair: reduce(torch.add, lengths) -- TypeError for the empty list *)
Fixpoint elen_pinned (e : elem) : option Len :=
  match e with
  | Leaf l => Some (llen l)
  | Seg _ es => match map elen_pinned es with [] => None | x :: r => fold_left oadd r x end
  end.

(* the repaired code: reduce(torch.add, lengths, torch.tensor(0.0)) *)
Fixpoint elen_fixed (e : elem) : option Len :=
  match e with
  | Leaf l => Some (llen l)
  | Seg _ es => fold_left oadd (map elen_fixed es) (Some lzero)
  end.

(* the tree holds an empty segment (itself included) *)
Fixpoint has_empty (e : elem) : bool :=
  match e with Leaf _ => false | Seg _ es => match es with [] => true | _ => existsb has_empty es end end.

Lemma fold_oadd_none : forall xs : list (option Len), fold_left oadd xs None = None.
Proof. induction xs as [|x r IH]; [reflexivity|exact IH]. Qed.

Lemma fold_fixed : forall es : list elem, Forall (fun e => elen_fixed e = Some (elen e)) es ->
  forall a, fold_left oadd (map elen_fixed es) (Some a) = Some (fold_left (fun a e' => ladd a (elen e')) es a).
Proof.
  induction es as [|e r IH]; intros H a; [reflexivity|].
  inversion H as [|? ? He Hr]; subst. cbn [map fold_left]. rewrite He. cbn [oadd]. apply IH, Hr.
Qed.

(* the repaired length is total and is the sum of the model, for every tree *)
Theorem elen_fixed_total : forall e, elen_fixed e = Some (elen e).
Proof.
  induction e as [l|n es IH] using elem_ind'; [reflexivity|].
  cbn [elen_fixed Track.elen]. apply fold_fixed, IH.
Qed.

Lemma fold_pinned : forall es : list elem,
  Forall (fun e => elen_pinned e = if has_empty e then None else Some (elen e)) es ->
  forall a, fold_left oadd (map elen_pinned es) (Some a) =
            if existsb has_empty es then None else Some (fold_left (fun a e' => ladd a (elen e')) es a).
Proof.
  induction es as [|e r IH]; intros H a; [reflexivity|].
  inversion H as [|? ? He Hr]; subst. cbn [map fold_left existsb]. rewrite He.
  destruct (has_empty e); cbn [oadd orb]; [apply fold_oadd_none|apply IH, Hr].
Qed.

Hypothesis ladd_0_l : forall x, ladd lzero x = x.

(* the length before the repair: undefined exactly on the trees that hold an empty segment, the model's sum elsewhere *)
Theorem elen_pinned_spec : forall e, elen_pinned e = if has_empty e then None else Some (elen e).
Proof.
  induction e as [l|n es IH] using elem_ind'; [reflexivity|].
  destruct es as [|e0 r]; [reflexivity|].
  inversion IH as [|? ? H0 Hr]; subst.
  cbn [elen_pinned map]. cbn [has_empty existsb Track.elen fold_left]. rewrite H0.
  destruct (has_empty e0); cbn [orb]; [apply fold_oadd_none|].
  rewrite ladd_0_l. apply fold_pinned, Hr.
Qed.

(* the repair changes nothing where the code returned before *)
Theorem elen_repair_conservative : forall e x, elen_pinned e = Some x -> elen_fixed e = Some x.
Proof.
  intros e x H. rewrite elen_pinned_spec in H. rewrite elen_fixed_total.
  destruct (has_empty e); [discriminate|exact H].
Qed.
End Length.


(** the four transformations under the repaired length: defined for EVERY lattice (empty, with empty
    sub-segments, filtered down to nothing) and equal to the original segment's length *)
Section F28Ops.
Variables (M B E L Len : Type) (one : M) (mul : M -> M -> M) (app : M -> B -> B) (en : B -> E).
Variables (skip : L -> bool) (tmap : L -> E -> M) (ltrack : L -> B -> B) (lname : L -> string).
Variables (llen : L -> Len) (lzero : Len) (ladd : Len -> Len -> Len).
Variable mkctm : M -> Len -> string -> L.
Variables (lmarker lhas_active lactive : L -> bool) (len_anypos len_allzero : Len -> bool).
Variable mkdrift : Len -> string -> L.
Hypothesis ladd_0_l : forall x, ladd lzero x = x.
Hypothesis ladd_0_r : forall x, ladd x lzero = x.
Hypothesis ladd_assoc : forall x y z, ladd (ladd x y) z = ladd x (ladd y z).
Hypothesis ctm_len : forall m len nm, llen (mkctm m len nm) = len.
Hypothesis marker_len : forall l, lmarker l = true -> llen l = lzero.
Hypothesis drift_len : forall len nm, llen (mkdrift len nm) = len.

Notation lenf := (elen_fixed L Len llen lzero ladd).
Notation lenp := (elen_pinned L Len llen ladd).

Theorem merged_length_fixed : forall n ex es b,
  lenf (Seg n (merged one mul app en skip tmap ltrack lname llen lzero ladd mkctm ex es [] b)) = lenf (Seg n es).
Proof.
  intros. rewrite !elen_fixed_total. f_equal.
  apply (@merged_length M B E L Len one mul app en skip tmap ltrack lname llen lzero ladd mkctm
           ctm_len ladd_0_l ladd_0_r ladd_assoc).
Qed.

Theorem markers_removed_length_fixed : forall n ex es,
  lenf (Seg n (markers_removed lname lmarker ex es)) = lenf (Seg n es).
Proof.
  intros. rewrite !elen_fixed_total. f_equal.
  apply (@markers_removed_length L Len lname llen lzero ladd lmarker marker_len ladd_0_l ladd_0_r ladd_assoc).
Qed.

Theorem zero_length_removed_length_fixed : forall n ex es,
  (forall x, len_anypos x = false -> x = lzero) ->
  lenf (Seg n (zero_length_removed lname llen lzero ladd lhas_active lactive len_anypos ex es)) = lenf (Seg n es).
Proof.
  intros n ex es H. rewrite !elen_fixed_total. f_equal.
  apply (@zero_length_removed_length L Len lname llen lzero ladd lhas_active lactive len_anypos
           ladd_0_l ladd_0_r ladd_assoc n ex es H).
Qed.

Theorem as_drifts_length_fixed : forall n ex es,
  lenf (Seg n (as_drifts lname llen lzero ladd lhas_active lactive len_allzero mkdrift ex es)) = lenf (Seg n es).
Proof.
  intros. rewrite !elen_fixed_total. f_equal.
  apply (@as_drifts_length L Len lname llen lzero ladd lhas_active lactive len_allzero mkdrift
           ladd_0_l ladd_0_r ladd_assoc drift_len).
Qed.

(* a filter that removes everything: the (empty) result has the repaired length lzero, and so has the original *)
Theorem all_markers_removed_length_fixed : forall n ex es,
  markers_removed lname lmarker ex es = [] ->
  lenf (Seg n (markers_removed lname lmarker ex es)) = Some lzero /\ lenf (Seg n es) = Some lzero.
Proof.
  intros n ex es H. rewrite <- (markers_removed_length_fixed n ex es). rewrite H. split; reflexivity.
Qed.

(* finding F28: before the repair the same lattices have no length -- a lattice of markers loses its
   length when the markers are removed, and a lattice holding an empty sub-segment never had one *)
Theorem length_pinned_refuted : forall n (m : L), lmarker m = true ->
  lenp (Seg n [Leaf m]) = Some (llen m) /\ lenp (Seg n (markers_removed lname lmarker [] [Leaf m])) = None.
Proof.
  intros n m Hm. split; [reflexivity|].
  unfold markers_removed, keep_marker. cbn. rewrite Hm. reflexivity.
Qed.

Theorem length_pinned_empty_subsegment_refuted : forall n n' (es1 es2 : list (elem L)),
  lenp (Seg n (es1 ++ Seg n' [] :: es2)%list) = None.
Proof.
  intros. rewrite (elen_pinned_spec L Len llen lzero ladd ladd_0_l).
  assert (H : has_empty L (Seg n (es1 ++ Seg n' [] :: es2)%list) = true).
  { cbn [has_empty]. destruct (es1 ++ Seg n' [] :: es2)%list eqn:Heq; [reflexivity|]. rewrite <- Heq.
    rewrite existsb_app. cbn. apply orb_true_r. }
  rewrite H. reflexivity.
Qed.
End F28Ops.

(** the Z instance: the two length functions are what the two case checkers compare with *)
Definition zlen_pinned : zelem -> option Z := elen_pinned zleaf Z zlen Z.add.
Definition zlen_fixed : zelem -> option Z := elen_fixed zleaf Z zlen 0 Z.add.
Definition optz_eqb (a b : option Z) : bool :=
  match a, b with Some x, Some y => x =? y | None, None => true | _, _ => false end.

Lemma has_empty_seg_eq : forall e, has_empty_seg e = has_empty zleaf e.
Proof. reflexivity. Qed.

Lemma len_matches_spec : forall e l, len_matches e l = optz_eqb (zlen_pinned e) l.
Proof.
  intros e l. unfold len_matches, zlen_pinned. rewrite (elen_pinned_spec zleaf Z zlen 0 Z.add (fun x => eq_refl)).
  rewrite has_empty_seg_eq. destruct (has_empty zleaf e), l; reflexivity.
Qed.

Lemma len_matches_total_spec : forall e l, len_matches_total e l = optz_eqb (zlen_fixed e) l.
Proof.
  intros e l. unfold len_matches_total, zlen_fixed. rewrite elen_fixed_total. destruct l; reflexivity.
Qed.

(* the pinned filters raise iff a top-level element has no (pinned) length *)
Lemma filter_raises_spec : forall es,
  filter_raises es = existsb (fun e => match zlen_pinned e with None => true | Some _ => false end) es.
Proof.
  intros es. unfold filter_raises. induction es as [|e r IH]; [reflexivity|]. cbn [existsb]. rewrite IH. f_equal.
  unfold zlen_pinned. rewrite (elen_pinned_spec zleaf Z zlen 0 Z.add (fun x => eq_refl)), has_empty_seg_eq.
  destruct (has_empty zleaf e); reflexivity.
Qed.

(* the repaired length is preserved by merging and by the drift replacement, for every integer lattice *)
Theorem zlengths_fixed : forall n ex es b,
  zlen_fixed (Seg n (zmerged ex es [] b)) = zlen_fixed (Seg n es) /\
  zlen_fixed (Seg n (zas_drifts ex es)) = zlen_fixed (Seg n es).
Proof.
  intros. split.
  - apply (@merged_length_fixed _ _ _ _ _ zI zmmul zapp zen zskip ztmap zltrack zname zlen 0 Z.add zmkctm);
      first [reflexivity | intros; lia].
  - apply (@as_drifts_length_fixed zleaf Z zname zlen 0 Z.add zhas_active zactive zallzero zmkdrift);
      first [reflexivity | intros; lia].
Qed.
