(** The integer instance satisfies the hypotheses of TrackProofs, so every structural
    theorem holds of the executable model that is run against the implementation. *)
From Coq Require Import List Bool String ZArith Lia Ring ZArithRing.
From Cheetah Require Import Base.Mat Lattice.Track Lattice.TrackProofs Lattice.ZInst.
Import ListNotations.
Open Scope Z_scope.

Definition ZRth := InitialRing.Zth.

Lemma zapp_one b : zapp zI b = b.
Proof.
  destruct b as [ps E q s|mu cov E Q]; cbn.
  - f_equal. rewrite <- (map_id ps) at 2. apply map_ext. intros p. apply (mvec_I ZRth).
  - f_equal; [apply (mvec_I ZRth)|apply (cong_I ZRth)].
Qed.

Lemma zapp_mul a c b : zapp (zmmul a c) b = zapp a (zapp c b).
Proof.
  destruct b as [ps E q s|mu cov E Q]; cbn.
  - f_equal. rewrite map_map. apply map_ext. intros p. apply (mvec_mmul ZRth).
  - f_equal; [apply (mvec_mmul ZRth)|apply (cong_mmul ZRth)].
Qed.

Lemma zen_app m b : zen (zapp m b) = zen b.
Proof. destruct b; reflexivity. Qed.

Lemma zcontract : leaf_contract zapp zen zskip ztmap zltrack.
Proof.
  intros l b Hs. unfold zltrack, ztmap, zskip in *. destruct (zkind_of l); try reflexivity.
  - symmetry. apply zapp_one.
  - discriminate.
Qed.

Theorem ztrack_eq_fold : forall e b, ztrack e b = ztrack1 e b.
Proof. apply track_eq_fold; first [exact zapp_one | exact zapp_mul | exact zen_app | exact zcontract]. Qed.

Theorem ztrack_flattened : forall e b, ztrack (zflattened e) b = ztrack e b.
Proof. apply track_flattened; first [exact zapp_one | exact zapp_mul | exact zen_app | exact zcontract]. Qed.

Theorem zlength_flattened : forall e, zelen (zflattened e) = zelen e.
Proof. apply length_flattened; intros; lia. Qed.
