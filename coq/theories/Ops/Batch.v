(** Model of vectorised evaluation with whole-tensor branches (C04).

    A vectorised computation over a batch [ps] of settings that contains a Python-level
    `if torch.any(P(ps))` (or `torch.all`) chooses ONE code path for the whole batch.  It agrees with
    running every setting on its own iff the two paths agree on the entries that would have chosen
    the other path. *)
From Coq Require Import List Bool.
Import ListNotations.
Set Implicit Arguments.

Section Batch.
Variables (A B : Type).
Variable P : A -> bool.            (* the per-entry predicate inside torch.any / torch.all *)
Variables g1 g2 : A -> B.          (* path taken when the whole-tensor test is true / false, entry-wise *)

(* scalar run: the entry decides for itself *)
Definition scalar_any (p : A) : B := if P p then g1 p else g2 p.
(* batched run with `if torch.any(P): g1 else g2` *)
Definition batched_any (ps : list A) : list B := if existsb P ps then map g1 ps else map g2 ps.
(* batched run with `if torch.all(P): g1 else g2` *)
Definition batched_all (ps : list A) : list B := if forallb P ps then map g1 ps else map g2 ps.

(* broadcasting shapes (right-aligned, size-1 dimensions stretch) *)
Fixpoint bshape_rev (s t : list nat) : option (list nat) :=
  match s, t with
  | [], r | r, [] => Some r
  | a :: s', b :: t' =>
    match bshape_rev s' t' with
    | None => None
    | Some r => if Nat.eqb a b then Some (a :: r) else if Nat.eqb a 1 then Some (b :: r)
                else if Nat.eqb b 1 then Some (a :: r) else None
    end
  end.
Definition broadcast_shapes (s t : list nat) : option (list nat) := option_map (@rev nat) (bshape_rev (rev s) (rev t)).
End Batch.
