From Coq Require Import List Bool Arith Lia.
From Cheetah Require Import Ops.Batch.
Import ListNotations.

Section Proofs.
Variables (A B : Type) (P : A -> bool) (g1 g2 : A -> B).

(** `if torch.any(P)`: sound iff the "true" path is harmless on entries for which P is false *)
Theorem batched_any_sound :
  (forall p, P p = false -> g1 p = g2 p) -> forall ps, batched_any P g1 g2 ps = map (scalar_any P g1 g2) ps.
Proof.
  intros H ps. unfold batched_any, scalar_any. destruct (existsb P ps) eqn:He.
  - apply map_ext. intros p. destruct (P p) eqn:Hp; [reflexivity|apply H, Hp].
  - apply map_ext_in. intros p Hin. destruct (P p) eqn:Hp; [|reflexivity].
    exfalso. assert (existsb P ps = true) by (apply existsb_exists; eauto). congruence.
Qed.

(** `if torch.all(P)`: sound iff the "false" path is harmless on entries for which P is true *)
Theorem batched_all_sound :
  (forall p, P p = true -> g2 p = g1 p) -> forall ps, batched_all P g1 g2 ps = map (scalar_any P g1 g2) ps.
Proof.
  intros H ps. unfold batched_all, scalar_any. destruct (forallb P ps) eqn:He.
  - apply map_ext_in. intros p Hin. rewrite forallb_forall in He. rewrite (He p Hin). reflexivity.
  - apply map_ext. intros p. destruct (P p) eqn:Hp; [apply H, Hp|reflexivity].
Qed.

(** and the condition is necessary: one disagreeing entry next to a neighbour that flips the
    whole-tensor test is a cross-talk witness *)
Theorem batched_any_crosstalk : forall p q,
  P p = false -> P q = true -> g1 p <> g2 p ->
  nth 0 (batched_any P g1 g2 [p; q]) (g2 p) <> nth 0 (batched_any P g1 g2 [p]) (g2 p).
Proof.
  intros p q Hp Hq Hne. unfold batched_any. cbn. rewrite Hp, Hq. cbn. exact Hne.
Qed.
Theorem batched_all_crosstalk : forall p q,
  P p = true -> P q = false -> g1 p <> g2 p ->
  nth 0 (batched_all P g1 g2 [p; q]) (g1 p) <> nth 0 (batched_all P g1 g2 [p]) (g1 p).
Proof.
  intros p q Hp Hq Hne. unfold batched_all. cbn. rewrite Hp, Hq. cbn. auto.
Qed.
End Proofs.

(** broadcasting *)
Lemma bshape_rev_comm : forall s t, bshape_rev s t = bshape_rev t s.
Proof.
  induction s as [|a s IH]; destruct t as [|b t]; cbn; try reflexivity.
  rewrite IH. destruct (bshape_rev t s); [|reflexivity].
  destruct (Nat.eqb_spec a b) as [->|Hab]; [rewrite Nat.eqb_refl; reflexivity|].
  destruct (Nat.eqb_spec b a) as [Hba|_]; [congruence|].
  destruct (Nat.eqb_spec a 1) as [Ha|Ha]; destruct (Nat.eqb_spec b 1) as [Hb|Hb]; try reflexivity.
  congruence.
Qed.
Theorem broadcast_comm : forall s t, broadcast_shapes s t = broadcast_shapes t s.
Proof. intros. unfold broadcast_shapes. rewrite bshape_rev_comm. reflexivity. Qed.
Lemma bshape_rev_idem : forall s, bshape_rev s s = Some s.
Proof. induction s as [|a s IH]; cbn; [reflexivity|]. rewrite IH, Nat.eqb_refl. reflexivity. Qed.
Theorem broadcast_idem : forall s, broadcast_shapes s s = Some s.
Proof. intros. unfold broadcast_shapes. rewrite bshape_rev_idem. cbn. rewrite rev_involutive. reflexivity. Qed.
Theorem broadcast_scalar : forall s, broadcast_shapes s [] = Some s.
Proof.
  intros. unfold broadcast_shapes. cbn.
  assert (H : bshape_rev (rev s) [] = Some (rev s)) by (destruct (rev s); reflexivity).
  rewrite H. cbn. rewrite rev_involutive. reflexivity.
Qed.
