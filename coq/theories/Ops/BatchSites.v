(** The whole-tensor branches of the cheetah package (inventory regenerated from the source by
    harness/ast_sites.py on every run) and, per site, whether the branch is entry-wise harmless. *)
From Coq Require Import List Bool String Reals Lra.
From Cheetah Require Import Base.Mat Optics.Maps Ops.Batch Ops.BatchProofs.
Import ListNotations.
Open Scope string_scope.

Inductive verdict :=
| Harmless      (* both paths agree on the entries that would have chosen the other path: proved below *)
| Crosstalk     (* refuted below: a neighbour's value changes this entry's result (known finding) *)
| Delegated     (* activity flag / lattice surgery decided per element, covered by C08/C09 *)
| OutOfScope.   (* plotting only *)

Definition modelled_sites : list (string * string * string * verdict) := [
 ("cheetah/track_methods.py", "base_rmatrix", "torch.any(tilt != 0)", Harmless);
 ("cheetah/accelerator/quadrupole.py", "Quadrupole.transfer_map", "torch.all(self.misalignment == 0)", Harmless);
 ("cheetah/accelerator/solenoid.py", "Solenoid.transfer_map", "torch.all(self.misalignment == 0)", Harmless);
 ("cheetah/accelerator/dipole.py", "Dipole.transfer_map", "torch.any(self.length != 0.0)", Crosstalk);
 ("cheetah/accelerator/cavity.py", "Cavity._track_beam", "torch.any(delta_energy > 0)", Crosstalk);
 ("cheetah/accelerator/cavity.py", "Cavity._track_beam", "torch.any(incoming.energy + delta_energy > 0)", Crosstalk);
 ("cheetah/accelerator/cavity.py", "Cavity._cavity_rmatrix", "torch.any((self.voltage != 0) & (energy != 0))", Harmless);
 ("cheetah/accelerator/cavity.py", "Cavity.is_active", "torch.any(self.voltage != 0)", Delegated);
 ("cheetah/accelerator/dipole.py", "Dipole.is_active", "torch.any(self.angle != 0)", Delegated);
 ("cheetah/accelerator/horizontal_corrector.py", "HorizontalCorrector.is_active", "torch.any(self.angle != 0)", Delegated);
 ("cheetah/accelerator/vertical_corrector.py", "VerticalCorrector.is_active", "torch.any(self.angle != 0)", Delegated);
 ("cheetah/accelerator/quadrupole.py", "Quadrupole.is_active", "torch.any(self.k1 != 0)", Delegated);
 ("cheetah/accelerator/solenoid.py", "Solenoid.is_active", "torch.any(self.k != 0)", Delegated);
 ("cheetah/accelerator/transverse_deflecting_cavity.py", "TransverseDeflectingCavity.is_active", "torch.any(self.voltage != 0)", Delegated);
 ("cheetah/accelerator/segment.py", "Segment.inactive_elements_as_drifts",
  "(hasattr(element, ""is_active"") and element.is_active) or torch.all(element.length == 0.0) or element.name in except_for", Delegated);
 ("cheetah/accelerator/segment.py", "Segment.without_inactive_zero_length_elements",
  "torch.any(element.length > 0.0) or (hasattr(element, ""is_active"") and element.is_active) or element.name in except_for", Delegated);
 ("cheetah/accelerator/segment.py", "Segment.plot_twiss", "torch.all(element.length == 0)", OutOfScope)
].

Definition site_key (s : string * string * string * verdict) : string * string * string := fst s.
Definition key_eqb (a b : string * string * string) : bool :=
  let '(a1, a2, a3) := a in let '(b1, b2, b3) := b in String.eqb a1 b1 && String.eqb a2 b2 && String.eqb a3 b3.
(* every whole-tensor branch found in the source is one that has been analysed *)
Definition sites_covered (found : list (string * string * string)) : bool :=
  forallb (fun f => existsb (fun m => key_eqb f (site_key m)) modelled_sites) found.
(* ... and none of the analysed ones has silently disappeared (the model would be stale) *)
Definition sites_present (found : list (string * string * string)) : bool :=
  forallb (fun m => existsb (fun f => key_eqb f (site_key m)) found) modelled_sites.
