From Coq Require Import List Bool String Reals Lra.
From Cheetah Require Import Base.Mat Optics.Maps Ops.Batch Ops.BatchProofs Ops.BatchSites.
Import ListNotations.
Open Scope R_scope.

Lemma rot_0 : rot 0 = rI.
Proof. unfold rot, rI, I7, row. rewrite cos_0, sin_0, Ropp_0. reflexivity. Qed.

(** track_methods.py base_rmatrix: `if torch.any(tilt != 0): R = rot(-tilt) R rot(tilt)` is harmless for an
    untilted entry *)
Theorem site_tilt_harmless : forall Rm, rmmul (rot (- 0)) (rmmul Rm (rot 0)) = Rm.
Proof.
  intros Rm. rewrite Ropp_0, rot_0. unfold rI.
  rewrite (mmul_I_r RRth), (mmul_I_l RRth). reflexivity.
Qed.

Lemma shift_0 : shift 0 0 = rI.
Proof. reflexivity. Qed.

(** quadrupole.py / solenoid.py: `if torch.all(misalignment == 0): R else R_exit R R_entry` is harmless for an
    aligned entry *)
Theorem site_misalignment_harmless : forall Rm, rmmul (mis_exit 0 0) (rmmul Rm (mis_entry 0 0)) = Rm.
Proof.
  intros Rm. unfold mis_exit, mis_entry. rewrite Ropp_0, shift_0. unfold rI.
  rewrite (mmul_I_r RRth), (mmul_I_l RRth). reflexivity.
Qed.

(* therefore, by batched_any_sound / batched_all_sound, the vectorised tilt and misalignment paths equal the
   per-setting runs *)
Theorem tilt_batch_sound : forall (ps : list (R * M7 R)),
  batched_any (fun p => if Req_EM_T (fst p) 0 then false else true)
              (fun p => rmmul (rot (- fst p)) (rmmul (snd p) (rot (fst p)))) (fun p => snd p) ps
  = map (fun p => if Req_EM_T (fst p) 0 then snd p else rmmul (rot (- fst p)) (rmmul (snd p) (rot (fst p)))) ps.
Proof.
  intros ps. rewrite batched_any_sound.
  - apply map_ext. intros [t Rm]. unfold scalar_any. cbn. destruct (Req_EM_T t 0); reflexivity.
  - intros [t Rm]. cbn. destruct (Req_EM_T t 0) as [->|]; [intros _; apply site_tilt_harmless|discriminate].
Qed.

(** dipole.py `if torch.any(self.length != 0.0)`: NOT harmless.  A zero-length entry with a non-zero angle gets
    the thin-corrector matrix (angle in entry [2][6]) alone, but the identity-like base matrix next to a
    non-zero-length neighbour. *)
Theorem site_dipole_length_crosstalk : forall angle k1 E, angle <> 0 ->
  m7nth (dip_thin 0 angle) 2 6 <> m7nth (base_untilted 0 k1 (dip_hx 0 angle) E) 2 6.
Proof. intros angle k1 E H. cbn. exact H. Qed.

(** cavity.py `if torch.any(delta_energy > 0)`: the T566/T556/T555 expressions of the accelerating branch have
    (gamma0 - gamma1) in the denominator; an entry with zero voltage has gamma1 = gamma0, so its denominator
    vanishes (NaN in floating point) when a neighbour switches the branch on. *)
Theorem site_cavity_T566_denominator_zero : forall (L V phi E beta0 beta1 : R), V = 0 ->
  let gamma0 := E / m_e in let gamma1 := (E + V * cos phi) / m_e in
  2 * beta0 * beta1 ^ 3 * gamma0 * (gamma0 - gamma1) * gamma1 ^ 3 = 0.
Proof. intros L V phi E b0 b1 ->. cbn zeta. replace (E + 0 * cos phi) with E by ring. ring. Qed.
