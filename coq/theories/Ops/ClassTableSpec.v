(** Class table of cheetah's Element subclasses (C14, C15): record type, [class_ok], the committed
    list of known offenders, and the class-level model of an element (constructor-settable
    attributes, constructor call, feature values).

    The TABLE ITSELF is not in this file: harness/introspect.py regenerates it from the live code on
    every run (build/<pid>/ClassTable.v) and the check compiles [table_ok class_table = true].
    No proofs here. *)
From Coq Require Import List Bool String.
Import ListNotations.
Open Scope string_scope.

Record cls_rec := mkcls {
  cname : string;
  ctor_params : list string;     (* inspect.signature(cls.__init__), without self, in order *)
  required : list string;        (* parameters without a default *)
  features : list string;        (* probe.defining_features *)
  kinds : list (string * string);(* feature -> kind of getattr(probe, feature): tensor/str/bool/int/tuple/elements *)
  echoed : list string;          (* ctor params p with getattr(probe,p) == the non-default value passed for p *)
  probe : string                 (* "ok", or what the introspection could not do *)
}.

Definition mem (s : string) (l : list string) : bool := existsb (String.eqb s) l.
Definition subset (a b : list string) : bool := forallb (fun x => mem x b) a.
Definition minus (a b : list string) : list string := filter (fun x => negb (mem x b)) a.
Definition inter (a b : list string) : list string := filter (fun x => mem x b) a.
Definition same_set (a b : list string) : bool := subset a b && subset b a.
Fixpoint nodupb (l : list string) : bool := match l with [] => true | x :: r => negb (mem x r) && nodupb r end.

Definition infra : list string := ["name"; "device"; "dtype"].
Definition settable (c : cls_rec) : list string := minus (ctor_params c) infra.

(* every constructor parameter is a defining feature, and every feature is a constructor parameter *)
Definition class_ok (c : cls_rec) : bool :=
  subset (settable c) (features c) && subset (features c) (ctor_params c).

Definition missing (c : cls_rec) : list string := minus (settable c) (features c).   (* lost by clone/save *)
Definition extra (c : cls_rec) : list string := minus (features c) (ctor_params c).   (* constructor raises TypeError *)

(* fail closed: the introspection must have understood the class completely *)
Definition known_kinds : list string := ["tensor"; "str"; "bool"; "int"; "tuple"; "elements"].
(* every required parameter (other than name) is among the keywords clone()/load pass *)
Definition required_passed (c : cls_rec) : bool := subset (minus (required c) ["name"]) (minus (features c) ["name"]).
Definition introspection_ok (c : cls_rec) : bool :=
  String.eqb (probe c) "ok" && required_passed c
  && mem "name" (ctor_params c) && mem "name" (features c)
  && nodupb (ctor_params c) && nodupb (features c)
  && subset (required c) (ctor_params c)
  && same_set (map fst (kinds c)) (features c)
  && forallb (fun k => mem (snd k) known_kinds) (kinds c)
  && subset (inter (settable c) (features c)) (echoed c).   (* a parameter is stored under its own name, unchanged *)
Definition class_checked (c : cls_rec) : bool := class_ok c && introspection_ok c.

(* ---- finding F12.  [offenders_before_fix]: the classes whose defining_features did not match their constructor in the pinned
   tree (repaired in /repo by fix b273117).  [known_offenders]: the committed exception list that excuses a class in [table_ok];
   it is EMPTY since the fix, so any class whose features and constructor disagree now fails the per-run obligation. *)
Record offence := mkoff { oname : string; omissing : list string; oextra : list string }.
Definition known_offenders : list offence := [].
Definition offenders_before_fix : list offence :=
  [ mkoff "Quadrupole" ["num_steps"; "tracking_method"] [];
    mkoff "Screen" ["is_blocking"] [];
    mkoff "Undulator" ["is_active"] [];
    mkoff "SpaceChargeKick" ["num_grid_points_x"; "num_grid_points_y"; "num_grid_points_tau"] ["grid_shape"] ].
(* a class is excused only if it offends EXACTLY as listed: a further dropped parameter of Quadrupole still fails *)
Definition offends_as (o : offence) (c : cls_rec) : bool :=
  String.eqb (cname c) (oname o) && same_set (missing c) (omissing o) && same_set (extra c) (oextra o)
  && introspection_ok c.
Definition class_accepted (c : cls_rec) : bool :=
  class_checked c || existsb (fun o => offends_as o c) known_offenders.
Definition table_ok (tbl : list cls_rec) : bool :=
  forallb class_accepted tbl && nodupb (map cname tbl) && mem "Segment" (map cname tbl) && mem "Drift" (map cname tbl).
(* reporting helpers evaluated by the generated check *)
Definition rejected (tbl : list cls_rec) : list (string * (list string * list string) * string) :=
  map (fun c => (cname c, (missing c, extra c), if introspection_ok c then "introspected" else "introspection-incomplete"))
      (filter (fun c => negb (class_accepted c)) tbl).
Definition offenders_present (tbl : list cls_rec) : list string :=
  map oname (filter (fun o => existsb (offends_as o) tbl) known_offenders).
Definition offenders_gone (tbl : list cls_rec) : list string :=
  map oname (filter (fun o => negb (existsb (offends_as o) tbl)) known_offenders).

(* the offending classes as found in the pinned tree (compared with the regenerated rows on every run) *)
Definition quadrupole_cls := mkcls "Quadrupole"
  ["length"; "k1"; "misalignment"; "tilt"; "num_steps"; "tracking_method"; "name"; "device"; "dtype"] ["length"]
  ["name"; "length"; "k1"; "misalignment"; "tilt"]
  [("name", "str"); ("length", "tensor"); ("k1", "tensor"); ("misalignment", "tensor"); ("tilt", "tensor")]
  ["length"; "k1"; "misalignment"; "tilt"; "num_steps"; "tracking_method"; "name"] "ok".
Definition screen_cls := mkcls "Screen"
  ["resolution"; "pixel_size"; "binning"; "misalignment"; "method"; "kde_bandwidth"; "is_blocking"; "is_active"; "name"; "device"; "dtype"] []
  ["name"; "resolution"; "pixel_size"; "binning"; "misalignment"; "method"; "kde_bandwidth"; "is_active"]
  [("name", "str"); ("resolution", "tuple"); ("pixel_size", "tensor"); ("binning", "int"); ("misalignment", "tensor");
   ("method", "str"); ("kde_bandwidth", "tensor"); ("is_active", "bool")]
  ["resolution"; "pixel_size"; "binning"; "misalignment"; "method"; "kde_bandwidth"; "is_blocking"; "is_active"; "name"] "ok".
Definition undulator_cls := mkcls "Undulator"
  ["length"; "is_active"; "name"; "device"; "dtype"] ["length"]
  ["name"; "length"] [("name", "str"); ("length", "tensor")] ["length"; "is_active"; "name"] "ok".
Definition spacechargekick_cls := mkcls "SpaceChargeKick"
  ["effect_length"; "num_grid_points_x"; "num_grid_points_y"; "num_grid_points_tau"; "grid_extend_x"; "grid_extend_y";
   "grid_extend_tau"; "name"; "device"; "dtype"] ["effect_length"]
  ["name"; "effect_length"; "grid_shape"; "grid_extend_x"; "grid_extend_y"; "grid_extend_tau"]
  [("name", "str"); ("effect_length", "tensor"); ("grid_shape", "tuple"); ("grid_extend_x", "tensor");
   ("grid_extend_y", "tensor"); ("grid_extend_tau", "tensor")]
  ["effect_length"; "grid_extend_x"; "grid_extend_y"; "grid_extend_tau"; "name"] "ok".
Definition drift_cls := mkcls "Drift"
  ["length"; "tracking_method"; "name"; "device"; "dtype"] ["length"]
  ["name"; "length"; "tracking_method"] [("name", "str"); ("length", "tensor"); ("tracking_method", "str")]
  ["length"; "tracking_method"; "name"] "ok".

Definition slist_eq (a b : list string) : bool :=
  Nat.eqb (List.length a) (List.length b) && forallb (fun p => String.eqb (fst p) (snd p)) (combine a b).
Definition same_shape (a b : cls_rec) : bool :=
  String.eqb (cname a) (cname b) && slist_eq (ctor_params a) (ctor_params b) && slist_eq (features a) (features b).
Definition pinned_rows : list cls_rec := [quadrupole_cls; screen_cls; undulator_cls; spacechargekick_cls; drift_cls].
Definition pinned_differ (tbl : list cls_rec) : list string :=
  map cname (filter (fun p => negb (existsb (fun c => same_shape c p) tbl)) pinned_rows).

(* ================================================================ class-level model of an element *)
Section Elem.
Variable V : Type.                                   (* attribute values (tensors, strings, ...) *)
Variable dflt : cls_rec -> string -> V.              (* the value a constructor stores when a parameter is not passed *)
Variable other : cls_rec -> list (string * V) -> string -> V.
                                                     (* attributes that are not constructor parameters (e.g. grid_shape) *)
Variable autoname : string.                          (* name given by the constructor when none is passed *)

Fixpoint alookup (d : list (string * V)) (k : string) : option V :=
  match d with [] => None | (k', v) :: r => if String.eqb k k' then Some v else alookup r k end.

(* an element = its class + one value per constructor-settable attribute (its name lives in the tree) *)
Record element := mkel { ecls : cls_rec; eattrs : list (string * V) }.
Definition wf (e : element) : Prop := map fst (eattrs e) = settable (ecls e) /\ NoDup (map fst (eattrs e)).

Definition getattr (e : element) (f : string) : V :=
  match alookup (eattrs e) f with Some v => v | None => other (ecls e) (eattrs e) f end.
(* {feature: cp(getattr(self, feature)) for feature in defining_features if feature != "name"} *)
Definition fvals (cp : V -> V) (e : element) : list (string * V) :=
  map (fun f => (f, cp (getattr e f))) (minus (features (ecls e)) ["name"]).

(* cls(name=..., kv as keywords): TypeError ([None]) on an unexpected keyword or a missing required parameter *)
Definition construct (c : cls_rec) (kv : list (string * V)) : option element :=
  if subset (map fst kv) (ctor_params c) && subset (minus (required c) ["name"]) (map fst kv)
  then Some (mkel c (map (fun p => (p, match alookup kv p with Some v => v | None => dflt c p end)) (settable c)))
  else None.
End Elem.
Arguments ecls {V}. Arguments eattrs {V}. Arguments mkel {V}. Arguments wf {V}. Arguments alookup {V}.
Arguments getattr {V}. Arguments fvals {V}. Arguments construct {V}.
