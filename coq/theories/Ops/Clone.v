(** Model of Element.clone / Segment.clone / Beam.clone (C15) and of convert_element / parse_element
    (C14) over the class table.  Values are compared as data; whether two tensors share storage is a
    runtime fact that this model does not represent (checked by the harness only).  No proofs here. *)
From Coq Require Import List Bool String.
From Cheetah Require Import Ops.ClassTableSpec Ops.Json.
Import ListNotations.
Open Scope string_scope.

Section Clone.
Variable V : Type.
Variable dflt : cls_rec -> string -> V.
Variable other : cls_rec -> list (string * V) -> string -> V.
Variable autoname : string.
Variable copy : V -> V.             (* tensor.clone() / deepcopy(value) *)
Notation element := (element V).

(* Element.clone: the class is called with one keyword per defining feature f, value copy(getattr(self, f));
   "name" is one of the features; it is handled apart because names live in the tree *)
Definition clone_elem (e : element) : option element := construct dflt (ecls e) (fvals other copy e).
Definition clone_name (c : cls_rec) (n : string) : string := if mem "name" (features c) then n else autoname.

(* Segment.clone: Segment(elements=[element.clone() for element in self.elements], name=self.name) *)
Fixpoint clone_tree (t : tree element) : option (tree element) :=
  match t with
  | Lf n e => option_map (Lf (clone_name (ecls e) n)) (clone_elem e)
  | Sg n ts => option_map (Sg n)
      ((fix go (ts : list (tree element)) : option (list (tree element)) :=
         match ts with
         | [] => Some []
         | t :: r => match clone_tree t, go r with Some t', Some r' => Some (t' :: r') | _, _ => None end
         end) ts)
  end.

(* ---- LatticeJSON of one element: convert_element / parse_element.
   [enc] = feature2nontorch (tensor.tolist()), [dec] = nontorch2feature (torch.tensor unless str/bool) *)
Variable JV : Type.
Variables (enc : V -> JV) (dec : JV -> V).
Variable table : list cls_rec.      (* getattr(cheetah, class_name) *)
Definition find_class (n : string) : option cls_rec := find (fun c => String.eqb (cname c) n) table.
Definition json_elem : Type := string * list (string * JV).
Definition save_elem (e : element) : json_elem :=
  (cname (ecls e), map (fun f => (f, enc (getattr other e f))) (minus (features (ecls e)) ["name"])).
Definition load_elem (_name : string) (j : json_elem) : option element :=
  match find_class (fst j) with
  | None => None                                                 (* AttributeError *)
  | Some c => construct dflt c (map (fun kv => (fst kv, dec (snd kv))) (snd j))
  end.

(* ---- beams: ParticleBeam.clone / ParameterBeam.clone pass every buffer, cloned, to the constructor *)
Record pbeam := mkpb { particles : V; p_energy : V; particle_charges : V; survival_probabilities : V }.
Record mbeam := mkmb { mu : V; cov : V; m_energy : V; total_charge : V }.
Definition clone_pbeam (b : pbeam) : pbeam :=
  mkpb (copy (particles b)) (copy (p_energy b)) (copy (particle_charges b)) (copy (survival_probabilities b)).
Definition clone_mbeam (b : mbeam) : mbeam :=
  mkmb (copy (mu b)) (copy (cov b)) (copy (m_energy b)) (copy (total_charge b)).
End Clone.

(* ---------------------------------------------------------------- executable instance used by the
   correspondence check of C15: values are printed digests (strings); one case = one real element:
   its regenerated class row, its attribute digests, the digests of the constructor defaults, and the
   attribute digests observed on the real clone (None: clone() raised) *)
Open Scope string_scope.
Record c15_case := mkc15 {
  k_cls : cls_rec;
  k_attrs : list (string * string);
  k_dflt : list (string * string);
  k_obs : option (list (string * string))
}.
Definition attrs_eqb (a b : list (string * string)) : bool :=
  Nat.eqb (List.length a) (List.length b) &&
  forallb (fun p => String.eqb (fst (fst p)) (fst (snd p)) && String.eqb (snd (fst p)) (snd (snd p))) (combine a b).
Definition c15_model (c : c15_case) : option (element string) :=
  clone_elem string
    (fun _ p => match alookup (k_dflt c) p with Some v => v | None => "<no default>" end)
    (fun _ _ _ => "<derived attribute>") (fun v => v) (mkel (k_cls c) (k_attrs c)).
Definition c15_check (c : c15_case) : bool :=
  match c15_model c, k_obs c with
  | Some e', Some o => attrs_eqb (eattrs e') o
  | None, None => true
  | _, _ => false
  end.
