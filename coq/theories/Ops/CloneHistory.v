(** History model of clone() (C15): an object is its STORED state; public attributes and properties are views of it
    (a getter and, when assignable, a setter); a history is a list of assignments obj.a = v; clone() calls the constructor
    with the CURRENT values of the defining features, read through the getters.

    1. generic definitions (any state type, any attribute type);
    2. the class-table element of Ops/ClassTableSpec.v under assignments to its constructor-settable attributes;
    3. the coupled face-angle state of cheetah's Dipole / RBend:  stored  angle, _e1, _e2;  Dipole exposes dipole_e1/2 = _e1/2,
       RBend additionally the DERIVED attributes rbend_e1/2 = dipole_e1/2 - angle/2 (setter: dipole_e = v + angle/2) and its
       constructor takes (angle, rbend_e1, rbend_e2).  The remaining attributes of the two classes are plain stored ones (item 2);
    4. a variant of RBend that additionally STORES a copy of the derived attributes (what a "remember the value as given" cache
       does); used for the refutation lemma;
    5. the executable instance over Z used by the correspondence check (harness/props/c15.py, bend_history_cases).
    No proofs here (Ops/CloneHistoryProofs.v). *)
From Coq Require Import List Bool String ZArith.
From Cheetah Require Import Ops.ClassTableSpec Ops.Clone.
Import ListNotations.
Open Scope string_scope.

(* ---------------------------------------------------------------- 1. generic *)
Section Generic.
Variables (S A V : Type).
Variable get : A -> S -> V.               (* obj.a *)
Variable set : A -> V -> S -> S.          (* obj.a = v : buffer / plain attribute / property setter *)
Variable init : (A -> V) -> S.            (* the constructor call with keyword arguments: it reads the keywords it declares *)
Variable copy : V -> V.                   (* tensor.clone() / deepcopy *)
Definition hclone (s : S) : S := init (fun f => copy (get f s)).
Definition run (ops : list (A * V)) (s : S) : S := fold_left (fun s op => set (fst op) (snd op) s) ops s.
Definition observe (pub : list A) (s : S) : list V := map (fun a => get a s) pub.
End Generic.

(* ---------------------------------------------------------------- 2. class-table elements under assignment *)
Section Elem.
Variable V : Type.
Fixpoint aupdate (d : list (string * V)) (k : string) (v : V) : list (string * V) :=
  match d with
  | [] => []
  | (k', w) :: r => if String.eqb k k' then (k', v) :: r else (k', w) :: aupdate r k v
  end.
(* obj.p = v for a constructor-settable attribute p (other names do not belong to the modelled state) *)
Definition setattr (p : string) (v : V) (e : element V) : element V := mkel (ecls e) (aupdate (eattrs e) p v).
Definition run_elem (ops : list (string * V)) (e : element V) : element V :=
  fold_left (fun e op => setattr (fst op) (snd op) e) ops e.
End Elem.

(* ---------------------------------------------------------------- 3. Dipole / RBend face angles *)
Inductive battr := Angle | DipoleE1 | DipoleE2 | RbendE1 | RbendE2.

Section Bend.
Variable V : Type.
Variables (add sub : V -> V -> V) (half : V -> V).
Record bend := mkbend { b_angle : V; b_e1 : V; b_e2 : V }.

Definition bget (a : battr) (s : bend) : V :=
  match a with
  | Angle => b_angle s
  | DipoleE1 => b_e1 s
  | DipoleE2 => b_e2 s
  | RbendE1 => sub (b_e1 s) (half (b_angle s))          (* return self.dipole_e1 - self.angle / 2 *)
  | RbendE2 => sub (b_e2 s) (half (b_angle s))
  end.
Definition bset (a : battr) (v : V) (s : bend) : bend :=
  match a with
  | Angle => mkbend v (b_e1 s) (b_e2 s)
  | DipoleE1 => mkbend (b_angle s) v (b_e2 s)
  | DipoleE2 => mkbend (b_angle s) (b_e1 s) v
  | RbendE1 => mkbend (b_angle s) (add v (half (b_angle s))) (b_e2 s)   (* self.dipole_e1 = value + self.angle / 2 *)
  | RbendE2 => mkbend (b_angle s) (b_e1 s) (add v (half (b_angle s)))
  end.
(* RBend(angle, rbend_e1, rbend_e2): Dipole.__init__(angle, dipole_e1 = rbend_e1 + angle / 2, ...) *)
Definition rbend_init (kw : battr -> V) : bend :=
  mkbend (kw Angle) (add (kw RbendE1) (half (kw Angle))) (add (kw RbendE2) (half (kw Angle))).
Definition dipole_init (kw : battr -> V) : bend := mkbend (kw Angle) (kw DipoleE1) (kw DipoleE2).
Definition bend_public : list battr := [Angle; DipoleE1; DipoleE2; RbendE1; RbendE2].

(* ---- 4. an RBend that keeps the pole-face angles "as given" in two extra slots *)
Record cbend := mkcbend { c_angle : V; c_e1 : V; c_e2 : V; c_r1 : V; c_r2 : V }.
Definition cget (a : battr) (s : cbend) : V :=
  match a with
  | Angle => c_angle s | DipoleE1 => c_e1 s | DipoleE2 => c_e2 s
  | RbendE1 => c_r1 s | RbendE2 => c_r2 s                                  (* the stored copy *)
  end.
Definition cset (a : battr) (v : V) (s : cbend) : cbend :=
  match a with
  | Angle => mkcbend v (c_e1 s) (c_e2 s) (c_r1 s) (c_r2 s)                 (* the copies are not refreshed *)
  | DipoleE1 => mkcbend (c_angle s) v (c_e2 s) (c_r1 s) (c_r2 s)
  | DipoleE2 => mkcbend (c_angle s) (c_e1 s) v (c_r1 s) (c_r2 s)
  | RbendE1 => mkcbend (c_angle s) (add v (half (c_angle s))) (c_e2 s) v (c_r2 s)
  | RbendE2 => mkcbend (c_angle s) (c_e1 s) (add v (half (c_angle s))) (c_r1 s) v
  end.
Definition cbend_init (kw : battr -> V) : cbend :=
  mkcbend (kw Angle) (add (kw RbendE1) (half (kw Angle))) (add (kw RbendE2) (half (kw Angle))) (kw RbendE1) (kw RbendE2).
End Bend.
Arguments mkbend {V}. Arguments b_angle {V}. Arguments b_e1 {V}. Arguments b_e2 {V}.
Arguments mkcbend {V}. Arguments c_angle {V}. Arguments c_e1 {V}. Arguments c_e2 {V}. Arguments c_r1 {V}. Arguments c_r2 {V}.

(* ---------------------------------------------------------------- 5. executable instance: exact integers (units of 2^-10 rad,
   all generated values even, so that angle/2 is exact in the model and in floating point) *)
Open Scope Z_scope.
Definition zhalf (a : Z) : Z := a / 2.
Definition zget := bget Z Z.sub zhalf.
Definition zset := bset Z Z.add zhalf.
Definition battr_of (s : string) : option battr :=
  if String.eqb s "angle" then Some Angle else if String.eqb s "dipole_e1" then Some DipoleE1
  else if String.eqb s "dipole_e2" then Some DipoleE2 else if String.eqb s "rbend_e1" then Some RbendE1
  else if String.eqb s "rbend_e2" then Some RbendE2 else None.
Fixpoint zops (l : list (string * Z)) : option (list (battr * Z)) :=
  match l with
  | [] => Some []
  | (s, v) :: r => match battr_of s, zops r with Some a, Some r' => Some ((a, v) :: r') | _, _ => None end
  end.
(* one real element: class (RBend / Dipole), constructor arguments angle, e1, e2 (the rbend resp. dipole face angles), the assignments made,
   [angle; dipole_e1; dipole_e2] observed on it afterwards and on its clone *)
Record hcase := mkhcase {
  h_rbend : bool; h_angle : Z; h_e1 : Z; h_e2 : Z; h_ops : list (string * Z);
  h_obs : option (list Z); h_obs_clone : option (list Z) }.
Definition h_init (c : hcase) : bend Z :=
  let kw := fun a => match a with Angle => h_angle c | DipoleE1 | RbendE1 => h_e1 c | DipoleE2 | RbendE2 => h_e2 c end in
  if h_rbend c then rbend_init Z Z.add zhalf kw else dipole_init Z kw.
Definition h_clone (c : hcase) (s : bend Z) : bend Z :=
  if h_rbend c then hclone (bend Z) battr Z zget (rbend_init Z Z.add zhalf) (fun v => v) s
  else hclone (bend Z) battr Z zget (dipole_init Z) (fun v => v) s.
Definition stored (s : bend Z) : list Z := [b_angle s; b_e1 s; b_e2 s].
Definition zlist_eqb (a b : list Z) : bool :=
  Nat.eqb (List.length a) (List.length b) && forallb (fun p => Z.eqb (fst p) (snd p)) (combine a b).
Definition hist_check (c : hcase) : bool :=
  match zops (h_ops c), h_obs c, h_obs_clone c with
  | Some ops, Some o, Some oc =>
      let s := run (bend Z) battr Z zset ops (h_init c) in
      zlist_eqb (stored s) o && zlist_eqb (stored (h_clone c s)) oc
  | _, _, _ => false
  end.
